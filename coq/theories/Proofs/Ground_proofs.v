(* Proofs about Planning/Ground.v (the grounding step of the sequential simulator, C01).
   Structure:
     A. constants, parameter substitution: [psubst_eval] (evaluating the substituted expression without parameters =
        evaluating the original with the parameters bound), the side conditions of C11 are invariant under [psubst];
     B. the side conditions [ground_wf_b] and what "the strict documented step is defined" means ([step_defined]);
     C. preconditions: [ground_pre_spec];
     D. effects: [ground_effects_fired] (the fired effect instances of the grounded action = those of the action);
     E. the step theorems: [grounded_eq_ungrounded], [grounded_refines_semantic], [grounded_strict_refines_semantic],
        [grounded_never_less_defined], [ground_pre_never_less_satisfied]; [env_ok_of_tables];
     F. the three deviations as witnesses inside the model, non-vacuity. *)
From Coq Require Import List ZArith NArith QArith Qcanon Bool Lia.
Import ListNotations.
Require Import UPV.Core.Expr UPV.Core.Eval UPV.Core.Interp UPV.Planning.Problem UPV.Planning.Sem UPV.Planning.Ground
  UPV.Walkers.Simplify.
Require Import UPV.Proofs.Eval_lemmas UPV.Proofs.Sem_proofs UPV.Proofs.Step_proofs UPV.Proofs.Simplify_proofs.
Local Open Scope nat_scope.

(* ================================================================================================ A. *)
Lemma zq_num_den1 q : Zpos (Qden (this q)) = 1%Z -> zq (Qnum (this q)) = q.
Proof.
  intros H. apply Qc_is_canon. unfold zq. cbn [this Q2Qc]. rewrite Qred_correct.
  destruct q as [[n d] Hc]. cbn [this Qnum Qden] in *. injection H as ->. reflexivity.
Qed.

Lemma eval_value_expr_g sc I v : eval sc (value_expr v) I = Some v.
Proof.
  destruct v as [b|q|o]; try reflexivity.
  unfold value_expr, num_node.
  destruct (Zpos (Qden (this q)) =? 1)%Z eqn:E; [|reflexivity].
  apply Z.eqb_eq in E. cbn [eval]. rewrite (zq_num_den1 q E). reflexivity.
Qed.

Lemma value_expr_const v : is_const (value_expr v) = true.
Proof. destruct v as [b|q|o]; try reflexivity. unfold value_expr, num_node. destruct (_ =? _)%Z; reflexivity. Qed.

Lemma const_value_cvalue e : const_value e = cvalue e.
Proof. destruct e; reflexivity. Qed.
Lemma const_values_cvalues l : const_values l = cvalues l.
Proof. induction l as [|x r IH]; [reflexivity|]. cbn [const_values cvalues]. rewrite const_value_cvalue, IH. reflexivity. Qed.

Lemma cvalue_value_expr v : cvalue (value_expr v) = Some v.
Proof.
  destruct v as [b|q|o]; try reflexivity. unfold value_expr, num_node.
  destruct (Zpos (Qden (this q)) =? 1)%Z eqn:E; [|reflexivity].
  apply Z.eqb_eq in E. cbn [cvalue]. rewrite (zq_num_den1 q E). reflexivity.
Qed.

(* the grounder's simplifier configuration satisfies C11's condition on its tables *)
Lemma gcfg_consts T P : cfg_consts (gcfg T P).
Proof.
  split; cbn [gcfg stat itab]; intros f a c H; [discriminate|].
  destruct (const_values a); [|discriminate]. destruct (lookup_app f l (p_ifun P)); [|discriminate].
  inversion H. apply value_expr_const.
Qed.

(* ---- parameter substitution and evaluation ---- *)
(* [I] binds the parameters as [sg] says, [I'] binds none; everything else is the same *)
Definition prel (sg : list (N * value)) (I I' : interp) : Prop :=
  (forall f a, fl I f a = fl I' f a) /\ (forall p, par I p = lookupN p sg) /\ (forall p, par I' p = None) /\
  (forall v, var I v = var I' v) /\ (forall f a, ifun I f a = ifun I' f a) /\ (forall t, objs I t = objs I' t).

Lemma prel_bind sg I I' v o : prel sg I I' -> prel sg (bind_var I v o) (bind_var I' v o).
Proof.
  intros (H1 & H2 & H3 & H4 & H5 & H6). repeat split; simpl; auto. intros w. destruct (w =? v)%N; auto.
Qed.

Lemma prel_instances sg vs : forall I I', prel sg I I' -> Forall2 (prel sg) (instances I vs) (instances I' vs).
Proof.
  induction vs as [|[v t] vs IH]; intros I I' H; simpl.
  - constructor; [exact H | constructor].
  - assert (HH := H). destruct H as (H1 & H2 & H3 & H4 & H5 & H6). rewrite <- H6.
    induction (objs I t) as [|o os IHo]; simpl; [constructor|].
    apply Forall2_app; [apply IH, prel_bind, HH | exact IHo].
Qed.

Lemma prel_mk_interp P s sg : prel sg (mk_interp P s sg) (mk_interp P s []).
Proof. repeat split. Qed.

Lemma evals_map_f sc I I' (f : expr -> expr) l :
  Forall (fun x => eval sc (f x) I' = eval sc x I) l -> evals sc I' (map f l) = evals sc I l.
Proof. induction 1 as [|x l Hx _ IH]; [reflexivity|]. cbn [map evals]. rewrite Hx, IH. reflexivity. Qed.
Lemma ebools_map_f sc I I' (f : expr -> expr) l :
  Forall (fun x => eval sc (f x) I' = eval sc x I) l -> ebools sc I' (map f l) = ebools sc I l.
Proof. induction 1 as [|x l Hx _ IH]; [reflexivity|]. cbn [map ebools]. rewrite Hx, IH. reflexivity. Qed.
Lemma enums_map_f sc I I' (f : expr -> expr) l :
  Forall (fun x => eval sc (f x) I' = eval sc x I) l -> enums sc I' (map f l) = enums sc I l.
Proof. induction 1 as [|x l Hx _ IH]; [reflexivity|]. cbn [map enums]. rewrite Hx, IH. reflexivity. Qed.

Lemma Forall_spec_II' sc sg (l : list expr) I I' :
  Forall (fun e => forall I I', prel sg I I' -> eval sc (psubst sg e) I' = eval sc e I) l -> prel sg I I' ->
  Forall (fun x => eval sc (psubst sg x) I' = eval sc x I) l.
Proof. intros H HP. rewrite Forall_forall in *. intros x Hx. apply H; assumption. Qed.

(* evaluating the substituted expression with no parameter bound = evaluating the original with the parameters bound *)
Lemma psubst_eval sc sg e : forall I I', prel sg I I' -> eval sc (psubst sg e) I' = eval sc e I.
Proof.
  induction e using expr_ind'; intros I I' HP; cbn [psubst];
    try reflexivity.
  - (* EParam *)
    destruct HP as (_ & H2 & H3 & _). cbn [eval]. rewrite H2.
    destruct (lookupN p sg) as [v|]; [apply eval_value_expr_g | cbn [eval]; apply H3].
  - (* EVar *) destruct HP as (_ & _ & _ & H4 & _). cbn [eval]. symmetry. apply H4.
  - rewrite !eval_EFluent, (evals_map_f sc I I' _ _ (Forall_spec_II' sc sg _ I I' H HP)).
    destruct HP as (H1 & _). destruct (evals sc I args); [symmetry; apply H1 | reflexivity].
  - rewrite !eval_EIFun, (evals_map_f sc I I' _ _ (Forall_spec_II' sc sg _ I I' H HP)).
    destruct HP as (_ & _ & _ & _ & H5 & _). destruct (evals sc I args); [symmetry; apply H5 | reflexivity].
  - rewrite !eval_EAnd, (ebools_map_f sc I I' _ _ (Forall_spec_II' sc sg _ I I' H HP)). reflexivity.
  - rewrite !eval_EOr, (ebools_map_f sc I I' _ _ (Forall_spec_II' sc sg _ I I' H HP)). reflexivity.
  - rewrite !eval_ENot, (IHe I I' HP). reflexivity.
  - rewrite !eval_EImplies, (IHe1 I I' HP), (IHe2 I I' HP). reflexivity.
  - rewrite !eval_EIff, (IHe1 I I' HP), (IHe2 I I' HP). reflexivity.
  - rewrite !eval_EExists. f_equal.
    assert (E : map (fun J => as_bool (eval sc (psubst sg e) J)) (instances I' vs) =
                map (fun J => as_bool (eval sc e J)) (instances I vs)).
    { pose proof (prel_instances sg vs I I' HP) as F. induction F as [|x y l l' Hxy _ IHF]; [reflexivity|].
      cbn [map]. rewrite (IHe x y Hxy), IHF. reflexivity. }
    rewrite E. reflexivity.
  - rewrite !eval_EForall. f_equal.
    assert (E : map (fun J => as_bool (eval sc (psubst sg e) J)) (instances I' vs) =
                map (fun J => as_bool (eval sc e J)) (instances I vs)).
    { pose proof (prel_instances sg vs I I' HP) as F. induction F as [|x y l l' Hxy _ IHF]; [reflexivity|].
      cbn [map]. rewrite (IHe x y Hxy), IHF. reflexivity. }
    rewrite E. reflexivity.
  - rewrite !eval_EPlus, (enums_map_f sc I I' _ _ (Forall_spec_II' sc sg _ I I' H HP)). reflexivity.
  - rewrite !eval_EMinus, (IHe1 I I' HP), (IHe2 I I' HP). reflexivity.
  - rewrite !eval_ETimes, (enums_map_f sc I I' _ _ (Forall_spec_II' sc sg _ I I' H HP)). reflexivity.
  - rewrite !eval_EDiv, (IHe1 I I' HP), (IHe2 I I' HP). reflexivity.
  - rewrite !eval_ELe, (IHe1 I I' HP), (IHe2 I I' HP). reflexivity.
  - rewrite !eval_ELt, (IHe1 I I' HP), (IHe2 I I' HP). reflexivity.
  - rewrite !eval_EEquals, (IHe1 I I' HP), (IHe2 I I' HP). reflexivity.
Qed.

(* ---- the side conditions of C11 do not see the substitution ---- *)
Lemma value_expr_qfree v : qfree (value_expr v) = true.
Proof. destruct v as [b|q|o]; try reflexivity. unfold value_expr, num_node. destruct (_ =? _)%Z; reflexivity. Qed.
Lemma value_expr_wfx tau QT S v : wfx tau QT S (value_expr v) = true.
Proof. destruct v as [b|q|o]; try reflexivity. unfold value_expr, num_node. destruct (_ =? _)%Z; reflexivity. Qed.

Lemma forallb_map_eq {A} (p : A -> bool) (f : A -> A) l :
  Forall (fun x => p (f x) = p x) l -> forallb p (map f l) = forallb p l.
Proof. induction 1 as [|x l Hx _ IH]; [reflexivity|]. cbn [map forallb]. rewrite Hx, IH. reflexivity. Qed.

Lemma qfree_psubst sg e : qfree (psubst sg e) = qfree e.
Proof.
  induction e using expr_ind'; cbn [psubst qfree]; try reflexivity;
    try (rewrite forallb_map_eq; [reflexivity | assumption]);
    try (rewrite IHe1, IHe2; reflexivity); try assumption.
  destruct (lookupN p sg); [apply value_expr_qfree | reflexivity].
Qed.

Lemma wfx_psubst tau QT sg e : forall S, wfx tau QT S (psubst sg e) = wfx tau QT S e.
Proof.
  induction e using expr_ind'; intros S; cbn [psubst wfx]; try reflexivity;
    try (rewrite forallb_map_eq; [reflexivity | rewrite Forall_forall in *; intros x Hx; apply H; exact Hx]);
    try (rewrite IHe1, IHe2; reflexivity); try apply IHe; try (rewrite IHe; reflexivity).
  - destruct (lookupN p sg); [apply value_expr_wfx | reflexivity].
  - rewrite forallb_map_eq; [reflexivity|]. rewrite Forall_forall in *. intros x Hx.
    rewrite qfree_psubst, (H x Hx). reflexivity.
  - rewrite forallb_map_eq; [reflexivity|]. rewrite Forall_forall in *. intros x Hx.
    rewrite qfree_psubst, (H x Hx). reflexivity.
Qed.

(* ================================================================================================ B. *)
(* Static side conditions (C11's [wfx], per expression of the action): variable annotations follow [tau], quantifiers
   bind distinct, quantifiable ([QT]: inhabited), unshadowed variables, fluent arguments are quantifier-free; the forall
   variables of an effect are the scope of its three expressions, typed by [tau] and pairwise distinct. *)
Definition eff_exprs (e : effect) : list expr := e_cond e :: e_val e :: e_args e.

Definition binders_typed (tau : N -> N) (vs : list (N * N)) : bool :=
  forallb (fun p => (snd p =? tau (fst p))%N) vs && nodupb (map fst vs).

Definition effect_wf_b (tau : N -> N) (QT : N -> bool) (e : effect) : bool :=
  binders_typed tau (e_vars e) && forallb (wfx tau QT (map fst (e_vars e))) (eff_exprs e).

Definition ground_wf_b (tau : N -> N) (QT : N -> bool) (a : action) : bool :=
  forallb (wfx tau QT []) (a_pre a) && forallb (effect_wf_b tau QT) (a_effs a).

Lemma eval_any_sc sc e I v : eval false e I = Some v -> eval sc e I = Some v.
Proof. destruct sc; [apply eval_sc_refines | auto]. Qed.

Lemma holds_any_sc sc I c b : eval false c I = Some (VBool b) -> holds sc I c = b.
Proof. intros H. unfold holds. rewrite (eval_any_sc sc c I _ H). destruct b; reflexivity. Qed.

(* "the strict documented step is defined on total information": every precondition has a Boolean value, every effect
   instance can be evaluated (target arguments, condition, and the value when the condition is true), and every state
   invariant / bounded-type constraint has a value in the successor the effects produce *)
Definition pre_defined (I0 : interp) (pre : list expr) : Prop :=
  forall c, In c pre -> exists b, eval false c I0 = Some (VBool b).

Record step_defined (P : problem) (s : state) (a : action) (args : list value) : Prop := {
  sd_pre : pre_defined (mk_interp P s (zip_params (a_params a) args)) (a_pre a);
  sd_eff : fired false (mk_interp P s (zip_params (a_params a) args)) (a_effs a) <> None;
  sd_inv : forall acts, fired false (mk_interp P s (zip_params (a_params a) args)) (a_effs a) = Some acts ->
           forall c, In c (p_invs P ++ bound_invs P) -> eval false c (mk_interp P (spec_succ P s acts) []) <> None
}.

Lemma wfx_mkAnd tau QT S l : forallb (wfx tau QT S) l = true -> wfx tau QT S (mkAnd l) = true.
Proof.
  destruct l as [|a [|b l]]; intros H; [reflexivity| |exact H].
  cbn [mkAnd]. cbn [forallb] in H. apply andb_true_iff in H. tauto.
Qed.

(* ================================================================================================ C. *)
Section Ground.
  Variables (T : tytab) (P : problem) (tau : N -> N) (QT : N -> bool).
  Notation G := (gcfg T P).

  Lemma gsimp_sound sg S e I0 Ig v :
    prel sg I0 Ig -> env_ok G tau QT Ig -> wfx tau QT S e = true ->
    eval false e I0 = Some v -> eval false (gsimp G (psubst sg e)) Ig = Some v.
  Proof.
    intros HP HE W Hv. unfold gsimp.
    apply (simp_sound_any_fuel G tau QT S _ _ Ig v (gcfg_consts T P)); [rewrite wfx_psubst; exact W | exact HE |].
    rewrite (psubst_eval false sg e I0 Ig HP). exact Hv.
  Qed.

  Lemma gsimp_sound_sc sc sg S e I0 Ig v :
    prel sg I0 Ig -> env_ok G tau QT Ig -> wfx tau QT S e = true ->
    eval false e I0 = Some v -> eval sc (gsimp G (psubst sg e)) Ig = Some v.
  Proof. intros. apply eval_any_sc. eapply gsimp_sound; eauto. Qed.

  Lemma ebools_defined I l : pre_defined I l -> ebools false I l = Some (map (holds false I) l).
  Proof.
    induction l as [|x l IH]; intros H; [reflexivity|]. cbn [ebools map].
    destruct (H x (or_introl eq_refl)) as [b Hb]. rewrite Hb. cbn [as_bool].
    rewrite IH by (intros c Hc; apply H; right; exact Hc).
    rewrite (holds_any_sc false I x b Hb). reflexivity.
  Qed.

  Lemma eval_EAnd_defined I l : pre_defined I l -> eval false (EAnd l) I = Some (VBool (all_hold false I l)).
  Proof.
    intros H. rewrite eval_EAnd, (ebools_defined I l H). unfold all_hold. do 2 f_equal.
    induction l as [|x l IH]; [reflexivity|]. cbn [map forallb]. rewrite IH; [reflexivity|].
    intros c Hc. apply H. right. exact Hc.
  Qed.

  Lemma all_hold_of_EAnd sc I l B : eval false (EAnd l) I = Some (VBool B) -> all_hold sc I l = B.
  Proof.
    rewrite eval_EAnd. destruct (ebools false I l) as [bs|] eqn:E; [|discriminate].
    intros H; inversion H; subst; clear H. unfold all_hold.
    revert bs E. induction l as [|x l IH]; intros bs E; cbn [ebools] in E.
    - inversion E. reflexivity.
    - destruct (as_bool (eval false x I)) as [b|] eqn:Ex; [|discriminate].
      destruct (ebools false I l) as [bs'|]; [|discriminate]. inversion E; subst. cbn [forallb].
      apply as_bool_some in Ex. rewrite (holds_any_sc sc I x b Ex), (IH bs' eq_refl). reflexivity.
  Qed.

  Lemma all_hold_sc_defined sc I l : pre_defined I l -> all_hold sc I l = all_hold false I l.
  Proof. intros H. apply all_hold_of_EAnd. apply eval_EAnd_defined. exact H. Qed.

  (* check_and_simplify_preconditions: None exactly when the (defined) preconditions do not all hold, otherwise the new
     preconditions hold exactly when the old ones do, under either quantifier mode *)
  Lemma ground_pre_spec sg I0 Ig pre :
    prel sg I0 Ig -> env_ok G tau QT Ig -> forallb (wfx tau QT []) pre = true -> pre_defined I0 pre ->
    match ground_pre G sg pre with
    | None => all_hold false I0 pre = false
    | Some l => forall sc, all_hold sc Ig l = all_hold false I0 pre
    end.
  Proof.
    intros HP HE W HD. destruct pre as [|c0 pre0]; [intros sc; reflexivity|].
    unfold ground_pre. cbv iota. set (pre := c0 :: pre0) in *.
    assert (EV : eval false (gsimp G (mkAnd (map (psubst sg) pre))) Ig = Some (VBool (all_hold false I0 pre))).
    { unfold gsimp. apply (simp_sound_any_fuel G tau QT [] _ _ Ig _ (gcfg_consts T P)); [|exact HE|].
      - apply wfx_mkAnd. rewrite forallb_forall in *. intros x Hx. apply in_map_iff in Hx. destruct Hx as [y [<- Hy]].
        rewrite wfx_psubst. apply W. exact Hy.
      - apply mkAnd_R. change (EAnd (map (psubst sg) pre)) with (psubst sg (EAnd pre)).
        rewrite (psubst_eval false sg (EAnd pre) I0 Ig HP). apply eval_EAnd_defined. exact HD. }
    destruct (gsimp G (mkAnd (map (psubst sg) pre))) as [b| | | | | | | |l| | | | | | | | | | | | | | | | | | ] eqn:EG;
      try (intros sc; unfold all_hold; cbn [forallb]; rewrite andb_true_r; apply holds_any_sc; exact EV).
    - assert (HB : b = all_hold false I0 pre) by (cbn [eval] in EV; congruence). clear EV.
      destruct b; cbv iota; [intros sc; rewrite <- HB; reflexivity | symmetry; exact HB].
    - intros sc. apply all_hold_of_EAnd. exact EV.
  Qed.

  (* ============================================================================================== D. *)
  Lemma collect_res_app a b :
    collect_res (a ++ b) =
    match collect_res a, collect_res b with Some x, Some y => Some (x ++ y) | _, _ => None end.
  Proof.
    induction a as [|[| |x] a IH]; cbn [app collect_res].
    - destruct (collect_res b); reflexivity.
    - reflexivity.
    - exact IH.
    - rewrite IH. destruct (collect_res a), (collect_res b); reflexivity.
  Qed.

  Lemma collect_res_skips l : Forall (fun r => r = ESkip) l -> collect_res l = Some [].
  Proof. induction 1 as [|r l Hr _ IH]; [reflexivity|]. subst r. exact IH. Qed.

  Lemma collect_res_noerr l : collect_res l <> None -> Forall (fun r => r <> EErr) l.
  Proof.
    induction l as [|[| |x] l IH]; cbn [collect_res]; intros H; constructor; try discriminate.
    - contradiction H; reflexivity.
    - contradiction H; reflexivity.
    - apply IH, H.
    - apply IH. destruct (collect_res l); [discriminate | contradiction H; reflexivity].
  Qed.

  (* the results of one effect over the instances of its forall variables *)
  Definition row (sc : bool) (I : interp) (e : effect) : list eres :=
    map (fun J => eval_effect sc J e) (instances I (e_vars e)).

  Lemma fired_cons sc I e r :
    fired sc I (e :: r) =
    match collect_res (row sc I e), fired sc I r with Some x, Some y => Some (x ++ y) | _, _ => None end.
  Proof. unfold fired. cbn [flat_map]. apply collect_res_app. Qed.

  Lemma evals_l_ground sc sg S J0 Jg l vs :
    prel sg J0 Jg -> env_ok G tau QT Jg -> forallb (wfx tau QT S) l = true ->
    evals_l false J0 l = Some vs -> evals_l sc Jg (map (fun x => gsimp G (psubst sg x)) l) = Some vs.
  Proof.
    intros HP HE. revert vs. induction l as [|x l IH]; intros vs W H; cbn [evals_l map] in *; [exact H|].
    apply andb_true_iff in W. destruct W as [Wx Wl].
    destruct (eval false x J0) as [v|] eqn:Ex; [|discriminate].
    destruct (evals_l false J0 l) as [vl|]; [|discriminate].
    rewrite (gsimp_sound_sc sc sg S x J0 Jg v HP HE Wx Ex), (IH vl Wl eq_refl). exact H.
  Qed.

  Lemma ground_effect_some sg e ge :
    ground_effect G sg e = Some ge ->
    e_fl ge = e_fl e /\ e_kind ge = e_kind e /\
    e_args ge = map (fun x => gsimp G (psubst sg x)) (e_args e) /\
    e_val ge = gsimp G (psubst sg (e_val e)) /\ e_cond ge = gsimp G (psubst sg (e_cond e)).
  Proof.
    unfold ground_effect. destruct (is_false _); [discriminate|]. intros H; inversion H; subst; cbn. tauto.
  Qed.

  (* one instance: the rebuilt effect evaluates like the original one, under either quantifier mode *)
  Lemma eval_effect_ground sc sg e ge J0 Jg :
    ground_effect G sg e = Some ge -> prel sg J0 Jg -> env_ok G tau QT Jg ->
    forallb (wfx tau QT (map fst (e_vars e))) (eff_exprs e) = true ->
    eval_effect false J0 e <> EErr -> eval_effect sc Jg ge = eval_effect false J0 e.
  Proof.
    intros HG HP HE W HN. destruct (ground_effect_some sg e ge HG) as (E1 & E2 & E3 & E4 & E5).
    unfold eff_exprs in W. cbn [forallb] in W. apply andb_true_iff in W. destruct W as [Wc W].
    apply andb_true_iff in W. destruct W as [Wv Wa].
    unfold eval_effect in *. rewrite E1, E2, E3, E4, E5.
    destruct (evals_l false J0 (e_args e)) as [vs|] eqn:EA; [|contradiction HN; reflexivity].
    rewrite (evals_l_ground sc sg _ J0 Jg _ vs HP HE Wa EA).
    destruct (eval false (e_cond e) J0) as [cv|] eqn:EC; [|contradiction HN; reflexivity].
    rewrite (gsimp_sound_sc sc sg _ _ J0 Jg cv HP HE Wc EC).
    destruct cv as [[|]| |]; try reflexivity.
    destruct (eval false (e_val e) J0) as [v|] eqn:EV; [|contradiction HN; reflexivity].
    rewrite (gsimp_sound_sc sc sg _ _ J0 Jg v HP HE Wv EV). reflexivity.
  Qed.

  (* an effect is dropped only when its condition is false in every instance *)
  Lemma eval_effect_dropped sg e J0 Jg :
    ground_effect G sg e = None -> prel sg J0 Jg -> env_ok G tau QT Jg ->
    forallb (wfx tau QT (map fst (e_vars e))) (eff_exprs e) = true ->
    eval_effect false J0 e <> EErr -> eval_effect false J0 e = ESkip.
  Proof.
    intros HG HP HE W HN. unfold ground_effect in HG.
    destruct (is_false (gsimp G (psubst sg (e_cond e)))) eqn:EF; [|discriminate].
    unfold eff_exprs in W. cbn [forallb] in W. apply andb_true_iff in W. destruct W as [Wc _].
    unfold eval_effect in *.
    destruct (evals_l false J0 (e_args e)) as [vs|]; [|contradiction HN; reflexivity].
    destruct (eval false (e_cond e) J0) as [cv|] eqn:EC; [|contradiction HN; reflexivity].
    pose proof (gsimp_sound sg _ _ J0 Jg cv HP HE Wc EC) as HS.
    destruct (gsimp G (psubst sg (e_cond e))); try discriminate EF.
    destruct b; try discriminate EF. cbn [eval] in HS. inversion HS. reflexivity.
  Qed.

  Lemma eval_effect_any_sc sc J e : eval_effect false J e <> EErr -> eval_effect sc J e = eval_effect false J e.
  Proof.
    intros HN. unfold eval_effect in *.
    assert (EA : forall l vs, evals_l false J l = Some vs -> evals_l sc J l = Some vs).
    { induction l as [|x l IH]; intros vs H; cbn [evals_l] in *; [exact H|].
      destruct (eval false x J) as [v|] eqn:Ex; [|discriminate].
      destruct (evals_l false J l) as [vl|]; [|discriminate].
      rewrite (eval_any_sc sc x J v Ex), (IH vl eq_refl). exact H. }
    destruct (evals_l false J (e_args e)) as [vs|] eqn:E1; [|contradiction HN; reflexivity].
    rewrite (EA _ vs E1).
    destruct (eval false (e_cond e) J) as [cv|] eqn:EC; [|contradiction HN; reflexivity].
    rewrite (eval_any_sc sc _ J cv EC).
    destruct cv as [[|]| |]; try reflexivity.
    destruct (eval false (e_val e) J) as [v|] eqn:EV; [|contradiction HN; reflexivity].
    rewrite (eval_any_sc sc _ J v EV). reflexivity.
  Qed.

  Lemma effect_wf_b_spec e :
    effect_wf_b tau QT e = true ->
    (forall p, In p (e_vars e) -> snd p = tau (fst p)) /\ NoDup (map fst (e_vars e)) /\
    forallb (wfx tau QT (map fst (e_vars e))) (eff_exprs e) = true.
  Proof.
    unfold effect_wf_b, binders_typed. rewrite !andb_true_iff, forallb_forall, nodupb_NoDup.
    intros [[A B] C]. split; [|split; assumption]. intros p Hp. apply N.eqb_eq. apply A. exact Hp.
  Qed.

  Lemma row_ground sc sg e ge I0 Ig :
    ground_effect G sg e = Some ge -> e_vars ge = e_vars e -> prel sg I0 Ig -> env_ok G tau QT Ig ->
    effect_wf_b tau QT e = true -> Forall (fun r => r <> EErr) (row false I0 e) ->
    row sc Ig ge = row false I0 e.
  Proof.
    intros HG HV HP HE W HN. destruct (effect_wf_b_spec e W) as (WT & WN & WX).
    unfold row in *. rewrite HV.
    assert (EO : forall Jg, In Jg (instances Ig (e_vars e)) -> env_ok G tau QT Jg).
    { intros Jg HJ. exact (env_ok_inst G tau QT Ig (e_vars e) Jg HE WT WN HJ). }
    pose proof (prel_instances sg (e_vars e) I0 Ig HP) as F.
    revert HN EO. induction F as [|J0 Jg l l' HJ _ IHF]; intros HN EO; [reflexivity|].
    cbn [map] in *. inversion HN; subst. f_equal.
    - apply (eval_effect_ground sc sg e ge J0 Jg HG HJ); [apply EO; left; reflexivity | exact WX | assumption].
    - apply IHF; [assumption|]. intros J HJ'. apply EO. right. exact HJ'.
  Qed.

  Lemma row_dropped sg e I0 Ig :
    ground_effect G sg e = None -> prel sg I0 Ig -> env_ok G tau QT Ig ->
    effect_wf_b tau QT e = true -> Forall (fun r => r <> EErr) (row false I0 e) ->
    Forall (fun r => r = ESkip) (row false I0 e).
  Proof.
    intros HG HP HE W HN. destruct (effect_wf_b_spec e W) as (WT & WN & WX).
    unfold row in *.
    assert (EO : forall Jg, In Jg (instances Ig (e_vars e)) -> env_ok G tau QT Jg).
    { intros Jg HJ. exact (env_ok_inst G tau QT Ig (e_vars e) Jg HE WT WN HJ). }
    pose proof (prel_instances sg (e_vars e) I0 Ig HP) as F.
    revert HN EO. induction F as [|J0 Jg l l' HJ _ IHF]; intros HN EO; [constructor|].
    cbn [map] in *. inversion HN; subst. constructor.
    - apply (eval_effect_dropped sg e J0 Jg HG HJ); [apply EO; left; reflexivity | exact WX | assumption].
    - apply IHF; [assumption|]. intros J HJ'. apply EO. right. exact HJ'.
  Qed.

  Lemma row_any_sc sc I e : Forall (fun r => r <> EErr) (row false I e) -> row sc I e = row false I e.
  Proof.
    unfold row. induction (instances I (e_vars e)) as [|J l IH]; intros H; [reflexivity|].
    cbn [map] in *. inversion H; subst. rewrite (eval_effect_any_sc sc J e) by assumption. rewrite IH by assumption.
    reflexivity.
  Qed.

  Lemma fired_cons_some I e r :
    fired false I (e :: r) <> None ->
    Forall (fun x => x <> EErr) (row false I e) /\ fired false I r <> None.
  Proof.
    rewrite fired_cons. intros H. split.
    - apply collect_res_noerr. destruct (collect_res (row false I e)); [discriminate | contradiction H; reflexivity].
    - destruct (fired false I r); [discriminate|]. destruct (collect_res (row false I e)); contradiction H; reflexivity.
  Qed.

  Lemma fired_any_sc sc I effs : fired false I effs <> None -> fired sc I effs = fired false I effs.
  Proof.
    induction effs as [|e r IH]; intros H; [reflexivity|].
    destruct (fired_cons_some I e r H) as [H1 H2]. rewrite !fired_cons, (row_any_sc sc I e H1), (IH H2). reflexivity.
  Qed.

  (* the fired effect instances of the grounded action are those of the action *)
  Lemma ground_effects_fired sc sg I0 Ig :
    prel sg I0 Ig -> env_ok G tau QT Ig ->
    forall effs st geffs,
      forallb (effect_wf_b tau QT) effs = true ->
      fired false I0 effs <> None ->
      (forall e ge, In e effs -> ground_effect G sg e = Some ge -> e_vars ge = e_vars e) ->
      ground_effects G sg effs st = Some geffs ->
      fired sc Ig geffs = fired false I0 effs.
  Proof.
    intros HP HE. induction effs as [|e r IH]; intros st geffs W HF HV HG; cbn [ground_effects] in HG.
    - inversion HG. reflexivity.
    - cbn [forallb] in W. apply andb_true_iff in W. destruct W as [We Wr].
      destruct (fired_cons_some I0 e r HF) as [HN HF'].
      assert (HV' : forall e0 ge, In e0 r -> ground_effect G sg e0 = Some ge -> e_vars ge = e_vars e0).
      { intros e0 ge H0. apply HV. right. exact H0. }
      rewrite (fired_cons false I0 e r).
      destruct (ground_effect G sg e) as [ge|] eqn:EG.
      + destruct (syn_check ge st) as [st'|]; [|discriminate].
        destruct (ground_effects G sg r st') as [l|] eqn:EL; [|discriminate]. inversion HG; subst geffs.
        rewrite fired_cons, (IH st' l Wr HF' HV' EL).
        rewrite (row_ground sc sg e ge I0 Ig EG (HV e ge (or_introl eq_refl) EG) HP HE We HN). reflexivity.
      + rewrite (IH st geffs Wr HF' HV' HG).
        rewrite (collect_res_skips _ (row_dropped sg e I0 Ig EG HP HE We HN)).
        destruct (fired false I0 r); reflexivity.
  Qed.
End Ground.

(* ================================================================================================ E. *)
Lemma holds_sc_defined sc I c : eval false c I <> None -> holds sc I c = holds false I c.
Proof.
  intros H. unfold holds. destruct (eval false c I) as [v|] eqn:E; [|contradiction H; reflexivity].
  rewrite (eval_any_sc sc c I v E). reflexivity.
Qed.

Lemma all_hold_sc_defined_gen sc I l :
  (forall c, In c l -> eval false c I <> None) -> all_hold sc I l = all_hold false I l.
Proof.
  unfold all_hold. induction l as [|x l IH]; intros H; [reflexivity|]. cbn [forallb].
  rewrite (holds_sc_defined sc I x) by (apply H; left; reflexivity).
  rewrite IH by (intros c Hc; apply H; right; exact Hc). reflexivity.
Qed.

Lemma vars_dropped_false T P a args :
  vars_dropped T P a args = false ->
  forall e ge, In e (a_effs a) -> ground_effect (gcfg T P) (zip_params (a_params a) args) e = Some ge ->
               e_vars ge = e_vars e.
Proof.
  unfold vars_dropped. intros H e ge He HG.
  destruct (vars_eqb (e_vars ge) (e_vars e)) eqn:EV; [apply vars_eqb_eq; exact EV|].
  assert (X : existsb (fun e0 => match ground_effect (gcfg T P) (zip_params (a_params a) args) e0 with
                                 | Some ge0 => negb (vars_eqb (e_vars ge0) (e_vars e0)) | None => false end)
                      (a_effs a) = true).
  { apply existsb_exists. exists e. split; [exact He|]. rewrite HG, EV. reflexivity. }
  rewrite X in H. discriminate.
Qed.

Lemma ground_wf_b_spec tau QT a :
  ground_wf_b tau QT a = true ->
  forallb (wfx tau QT []) (a_pre a) = true /\ forallb (effect_wf_b tau QT) (a_effs a) = true.
Proof. unfold ground_wf_b. rewrite andb_true_iff. tauto. Qed.

(* With every read defined, no syntactic conflict and no vanishing forall variable, grounding (substitution +
   simplification) changes NOTHING: the simulator's step on the grounded action is its step on the action with the
   parameters bound, for either quantifier mode (Leibniz equality of the results). *)
Theorem grounded_eq_ungrounded sc T P tau QT s a args :
  ground_wf_b tau QT a = true ->
  env_ok (gcfg T P) tau QT (mk_interp P s []) ->
  pre_defined (mk_interp P s (zip_params (a_params a) args)) (a_pre a) ->
  fired false (mk_interp P s (zip_params (a_params a) args)) (a_effs a) <> None ->
  ground_conflict T P a args = false ->
  vars_dropped T P a args = false ->
  sim_apply_grounded sc T P s a args = sim_apply sc P s a args.
Proof.
  intros W HE HD HF HC HV. destruct (ground_wf_b_spec tau QT a W) as [Wp We].
  set (sg := zip_params (a_params a) args) in *.
  set (I0 := mk_interp P s sg) in *. set (Ig := mk_interp P s []) in *.
  assert (HP : prel sg I0 Ig) by apply prel_mk_interp.
  unfold sim_apply_grounded, ground_action. fold sg.
  unfold ground_conflict in HC. fold sg in HC.
  destruct (ground_effects (gcfg T P) sg (a_effs a) ([], [])) as [geffs|] eqn:EG; [|discriminate].
  pose proof (ground_pre_spec T P tau QT sg I0 Ig (a_pre a) HP HE Wp HD) as PS.
  unfold sim_apply. fold sg. fold I0.
  rewrite (all_hold_sc_defined sc I0 (a_pre a) HD).
  destruct (ground_pre (gcfg T P) sg (a_pre a)) as [gpre|].
  - cbn [a_params a_pre a_effs zip_params]. fold Ig. rewrite (PS sc).
    rewrite (ground_effects_fired T P tau QT sc sg I0 Ig HP HE (a_effs a) ([], []) geffs We HF
               (vars_dropped_false T P a args HV) EG).
    rewrite (fired_any_sc sc I0 (a_effs a) HF). reflexivity.
  - rewrite PS. reflexivity.
Qed.

(* the documented step does not depend on the quantifier mode when every read is defined *)
Lemma spec_step_any_sc sc P s a args :
  step_defined P s a args -> spec_step sc P s a args = spec_step false P s a args.
Proof.
  intros [HD HF HI]. unfold spec_step.
  rewrite (all_hold_sc_defined sc _ _ HD), (fired_any_sc sc _ _ HF).
  destruct (negb _); [reflexivity|].
  destruct (fired false _ (a_effs a)) as [acts|] eqn:EF; [|reflexivity].
  destruct (negb _); [reflexivity|].
  unfold invariants_ok. rewrite (all_hold_sc_defined_gen sc _ _ (HI acts eq_refl)). reflexivity.
Qed.

(* (a) the grounded step of the code (short-circuit quantifiers) is the strict documented step *)
Theorem grounded_refines_semantic T P tau QT s a args :
  ground_wf_b tau QT a = true ->
  env_ok (gcfg T P) tau QT (mk_interp P s []) ->
  step_defined P s a args ->
  effects_typed false P s a args ->
  ground_conflict T P a args = false ->
  vars_dropped T P a args = false ->
  ostate_eq (sim_apply_grounded true T P s a args) (spec_step false P s a args).
Proof.
  intros W HE SD ET HC HV.
  rewrite (grounded_eq_ungrounded true T P tau QT s a args W HE (sd_pre _ _ _ _ SD) (sd_eff _ _ _ _ SD) HC HV).
  rewrite <- (spec_step_any_sc true P s a args SD).
  apply sim_apply_refines_spec.
  intros acts HA. apply ET. rewrite <- HA. symmetry. apply fired_any_sc. exact (sd_eff _ _ _ _ SD).
Qed.

(* the same with strict quantifiers on both sides: no hypothesis on the invariants is needed.  Read contrapositively it
   classifies a deviation: when the grounded action, evaluated STRICTLY, behaves differently from the strict documented
   step although nothing conflicts syntactically and no forall variable vanished, then some precondition has no
   Boolean value or some effect instance cannot be evaluated in the state — simplification removed a read of a fluent
   without value (Corr_C01g bit 13) *)
Theorem grounded_strict_refines_semantic T P tau QT s a args :
  ground_wf_b tau QT a = true ->
  env_ok (gcfg T P) tau QT (mk_interp P s []) ->
  pre_defined (mk_interp P s (zip_params (a_params a) args)) (a_pre a) ->
  fired false (mk_interp P s (zip_params (a_params a) args)) (a_effs a) <> None ->
  effects_typed false P s a args ->
  ground_conflict T P a args = false ->
  vars_dropped T P a args = false ->
  ostate_eq (sim_apply_grounded false T P s a args) (spec_step false P s a args).
Proof.
  intros W HE HD HF ET HC HV.
  rewrite (grounded_eq_ungrounded false T P tau QT s a args W HE HD HF HC HV).
  apply sim_apply_refines_spec. exact ET.
Qed.

(* whenever the strict documented step is applicable, every read it makes is defined *)
Lemma spec_step_some_defined P s a args s' : spec_step false P s a args = Some s' -> step_defined P s a args.
Proof.
  unfold spec_step. intros H.
  destruct (all_hold false (mk_interp P s (zip_params (a_params a) args)) (a_pre a)) eqn:EP; [|discriminate].
  cbn [negb] in H.
  destruct (fired false (mk_interp P s (zip_params (a_params a) args)) (a_effs a)) as [acts|] eqn:EF; [|discriminate].
  destruct (negb (spec_effects_ok P s acts)); [discriminate|].
  destruct (invariants_ok false P (spec_succ P s acts)) eqn:EI; [|discriminate].
  constructor.
  - intros c Hc. unfold all_hold in EP. rewrite forallb_forall in EP. specialize (EP c Hc). unfold holds in EP.
    destruct (eval false c _) as [[[|]| |]|]; try discriminate. exists true. reflexivity.
  - rewrite EF. discriminate.
  - intros acts' HA. rewrite EF in HA. inversion HA; subst acts'. intros c Hc.
    unfold invariants_ok, all_hold in EI. rewrite forallb_forall in EI. specialize (EI c Hc). unfold holds in EI.
    destruct (eval false c _); [discriminate | discriminate].
Qed.

(* (c) never less defined: an applicable strict documented step is applicable in the grounded model, with the same
   successor — unless grounding itself rejects the action syntactically or loses a forall variable (the two deviations
   below show that these two hypotheses cannot be dropped) *)
Theorem grounded_never_less_defined T P tau QT s a args s' :
  spec_step false P s a args = Some s' ->
  ground_wf_b tau QT a = true ->
  env_ok (gcfg T P) tau QT (mk_interp P s []) ->
  effects_typed false P s a args ->
  ground_conflict T P a args = false ->
  vars_dropped T P a args = false ->
  exists t, sim_apply_grounded true T P s a args = Some t /\ state_eq t s'.
Proof.
  intros HS W HE ET HC HV.
  pose proof (grounded_refines_semantic T P tau QT s a args W HE (spec_step_some_defined P s a args s' HS) ET HC HV) as R.
  rewrite HS in R. destruct (sim_apply_grounded true T P s a args) as [t|]; [|contradiction].
  exists t. split; [reflexivity | exact R].
Qed.

(* the precondition part needs no hypothesis on the effects: preconditions that hold under the strict reading are never
   lost by check_and_simplify_preconditions *)
Theorem ground_pre_never_less_satisfied T P tau QT s a args :
  forallb (wfx tau QT []) (a_pre a) = true ->
  env_ok (gcfg T P) tau QT (mk_interp P s []) ->
  all_hold false (mk_interp P s (zip_params (a_params a) args)) (a_pre a) = true ->
  exists l, ground_pre (gcfg T P) (zip_params (a_params a) args) (a_pre a) = Some l /\
            forall sc, all_hold sc (mk_interp P s []) l = true.
Proof.
  intros W HE HA.
  assert (HD : pre_defined (mk_interp P s (zip_params (a_params a) args)) (a_pre a)).
  { intros c Hc. unfold all_hold in HA. rewrite forallb_forall in HA. specialize (HA c Hc). unfold holds in HA.
    destruct (eval false c _) as [[[|]| |]|]; try discriminate. exists true. reflexivity. }
  pose proof (ground_pre_spec T P tau QT _ _ _ (a_pre a) (prel_mk_interp P s _) HE W HD) as PS.
  destruct (ground_pre (gcfg T P) (zip_params (a_params a) args) (a_pre a)) as [l|].
  - exists l. split; [reflexivity|]. intros sc. rewrite (PS sc). exact HA.
  - rewrite HA in PS. discriminate.
Qed.

(* ---- the hypothesis [env_ok] from checkable conditions on the tables ---- *)
Definition qt_of (P : problem) : N -> bool := fun t => match objs_of P t with [] => false | _ => true end.

Definition anc_of (T : tytab) (t : N) : list N := match lookupN t (tt_anc T) with Some l => l | None => [] end.

(* the type table is consistent with the problem's object lists: an object belongs to the list of its type, the list of
   a type is contained in the lists of its ancestors, two types that share an object are related *)
Definition tytab_ok_b (T : tytab) (P : problem) : bool :=
  forallb (fun ot => memN (fst ot) (objs_of P (snd ot))) (tt_obj T) &&
  forallb (fun bl => forallb (fun a => forallb (fun o => memN o (objs_of P a)) (snd bl)) (anc_of T (fst bl))) (p_objs P) &&
  forallb (fun al => forallb (fun bl => forallb (fun o =>
             negb (memN o (snd bl)) || compat (gcfg T P) (fst al) (fst bl) || compat (gcfg T P) (fst bl) (fst al))
             (snd al)) (p_objs P)) (p_objs P).

(* object-valued fluents hold objects of their declared type *)
Definition state_typed (P : problem) (s : state) : Prop :=
  forall f ty a v, fluent_user_type P f = Some ty -> s f a = Some v -> exists o, v = VObj o /\ In o (objs_of P ty).

Lemma lookupN_In {A} k (t : list (N * A)) v : lookupN k t = Some v -> In (k, v) t.
Proof.
  induction t as [|[k' v'] t IH]; cbn [lookupN]; [discriminate|].
  destruct (k =? k')%N eqn:E; [|intros H; right; apply IH; exact H].
  apply N.eqb_eq in E. subst. intros H; inversion H. left. reflexivity.
Qed.

Lemma objs_of_entry P t o : In o (objs_of P t) -> exists l, In (t, l) (p_objs P) /\ objs_of P t = l.
Proof.
  unfold objs_of. destruct (lookupN t (p_objs P)) as [l|] eqn:E; [|intros []].
  intros _. exists l. split; [apply lookupN_In; exact E | reflexivity].
Qed.

Lemma env_ok_of_tables T P tau s :
  tytab_ok_b T P = true -> state_typed P s -> env_ok (gcfg T P) tau (qt_of P) (mk_interp P s []).
Proof.
  unfold tytab_ok_b. rewrite !andb_true_iff. intros [[HO HS] HD] HT.
  rewrite forallb_forall in HO, HS, HD.
  constructor; cbn [gcfg mk_interp stat itab par_ty fl_ty if_ty obj_ty fl par var ifun objs].
  - intros; discriminate.
  - intros f args c vs H HV. rewrite const_values_cvalues, HV in H.
    destruct (lookup_app f vs (p_ifun P)) as [v|]; [|discriminate]. inversion H. symmetry. apply cvalue_value_expr.
  - intros; discriminate.
  - intros; discriminate.
  - intros f ty a v Hty Hv. exact (HT f ty a v Hty Hv).
  - intros; discriminate.
  - intros o ty H. apply lookupN_In in H. specialize (HO (o, ty) H). apply memN_In. exact HO.
  - intros a b o HC Ho. unfold compat in HC. apply orb_true_iff in HC. destruct HC as [HC|HC].
    + apply N.eqb_eq in HC. subst. exact Ho.
    + destruct (objs_of_entry P b o Ho) as [l [Hl El]]. specialize (HS (b, l) Hl). cbn [fst snd] in HS.
      rewrite forallb_forall in HS. cbn [gcfg anc] in HC. apply memN_In in HC. specialize (HS a HC).
      rewrite forallb_forall in HS. apply memN_In. apply HS. rewrite <- El. exact Ho.
  - intros a b o Ha Hb.
    destruct (objs_of_entry P a o Ha) as [la [Hla Ela]]. destruct (objs_of_entry P b o Hb) as [lb [Hlb Elb]].
    specialize (HD (a, la) Hla). rewrite forallb_forall in HD. specialize (HD (b, lb) Hlb).
    rewrite forallb_forall in HD. cbn [fst snd] in HD. rewrite Ela in Ha. specialize (HD o Ha).
    rewrite Elb in Hb. apply memN_In in Hb. rewrite Hb in HD. cbn [negb orb] in HD.
    apply orb_true_iff in HD. exact HD.
  - intros ty H. unfold qt_of in H. destruct (objs_of P ty); [discriminate | discriminate].
Qed.

(* ================================================================================================ F. *)
(* The three deviations of the grounded model (= the code) from the strict documented semantics, inside the model.
   In each of them one hypothesis of [grounded_refines_semantic] fails. *)
Definition T1 : tytab := {| tt_obj := [(0, 0); (1, 0)]%N; tt_anc := [(0%N, [])] |}.

Definition unc (f : N) (args : list expr) (v : expr) (k : ekind) (isb : bool) : effect :=
  {| e_fl := f; e_args := args; e_val := v; e_cond := EBool true; e_kind := k; e_vars := []; e_isbool := isb |}.

(* F1. a precondition (u or not u) over a fluent u WITHOUT value is simplified away: the grounded action is applicable,
   the documented step is not ("a condition that reads a fluent with no value is never satisfied");
   [step_defined] fails. *)
Definition P_taut : problem :=
  {| p_objs := []; p_ifun := [];
     p_fluents := [ {| fd_id := 0%N; fd_sig := []; fd_ty := FBool |}; {| fd_id := 1%N; fd_sig := []; fd_ty := FBool |} ];
     p_actions := []; p_goals := []; p_invs := [] |}.
Definition a_taut : action :=
  {| a_params := []; a_pre := [EOr [EFluent 0%N []; ENot (EFluent 0%N [])]];
     a_effs := [unc 1%N [] (EBool true) KAssign true] |}.
Definition s_taut : state := fun f _ => if (f =? 1)%N then Some (VBool false) else None.

Lemma grounded_tautology_over_undefined :
  (exists t, sim_apply_grounded true T1 P_taut s_taut a_taut [] = Some t /\ t 1%N [] = Some (VBool true)) /\
  spec_step false P_taut s_taut a_taut [] = None /\
  sim_apply true P_taut s_taut a_taut [] = None /\
  eval false (EOr [EFluent 0%N []; ENot (EFluent 0%N [])]) (mk_interp P_taut s_taut []) = None.
Proof.
  split; [|split; [|split]]; try (vm_compute; reflexivity).
  eexists. split; [vm_compute; reflexivity | reflexivity].
Qed.

(* F2. x(p) := y and x(q) := 3 grounded with p = q in a state where y = 3: the two value expressions differ
   syntactically, check_conflicting_effects rejects the grounding, the action is inapplicable although the documented
   semantics assigns the single value 3; [ground_conflict] = true. *)
Definition P_conf : problem :=
  {| p_objs := [(0%N, [0%N; 1%N])]; p_ifun := [];
     p_fluents := [ {| fd_id := 0%N; fd_sig := [0%N]; fd_ty := FNum (Some (zq 0)) (Some (zq 5)) |};
                    {| fd_id := 1%N; fd_sig := []; fd_ty := FNum (Some (zq 0)) (Some (zq 5)) |} ];
     p_actions := []; p_goals := []; p_invs := [] |}.
Definition a_conf : action :=
  {| a_params := [0%N; 1%N]; a_pre := [];
     a_effs := [unc 0%N [EParam 0%N] (EFluent 1%N []) KAssign false; unc 0%N [EParam 1%N] (EInt 3) KAssign false] |}.
Definition s_conf : state := fun f _ => if (f =? 1)%N then Some (VNum (zq 3)) else Some (VNum (zq 0)).

Lemma grounded_syntactic_conflict :
  ground_action T1 P_conf a_conf [VObj 0%N; VObj 0%N] = None /\
  ground_conflict T1 P_conf a_conf [VObj 0%N; VObj 0%N] = true /\
  sim_apply_grounded true T1 P_conf s_conf a_conf [VObj 0%N; VObj 0%N] = None /\
  (exists t, spec_step false P_conf s_conf a_conf [VObj 0%N; VObj 0%N] = Some t /\
             t 0%N [VObj 0%N] = Some (VNum (zq 3))) /\
  step_defined P_conf s_conf a_conf [VObj 0%N; VObj 0%N].
Proof.
  split; [|split; [|split; [|split]]]; try (vm_compute; reflexivity).
  - eexists. split; [vm_compute; reflexivity | vm_compute; reflexivity].
  - apply (spec_step_some_defined P_conf s_conf a_conf [VObj 0%N; VObj 0%N]
             (spec_succ P_conf s_conf
                [ {| ae_key := (0%N, [VObj 0%N]); ae_kind := KAssign; ae_val := VNum (zq 3) |};
                  {| ae_key := (0%N, [VObj 0%N]); ae_kind := KAssign; ae_val := VNum (zq 3) |} ])).
    vm_compute. reflexivity.
Qed.

(* F3. forall v. if (v == v) then r += 1 over a type with two objects: the condition simplifies to true, v is no longer
   free in the rebuilt effect, Effect.__init__ drops it, and the increase is applied once instead of once per object;
   [vars_dropped] = true. *)
Definition P_fa : problem :=
  {| p_objs := [(0%N, [0%N; 1%N])]; p_ifun := [];
     p_fluents := [ {| fd_id := 0%N; fd_sig := []; fd_ty := FNum None None |} ];
     p_actions := []; p_goals := []; p_invs := [] |}.
Definition a_fa : action :=
  {| a_params := []; a_pre := [];
     a_effs := [ {| e_fl := 0%N; e_args := []; e_val := EInt 1; e_cond := EEquals (EVar 0%N 0%N) (EVar 0%N 0%N);
                    e_kind := KInc; e_vars := [(0%N, 0%N)]; e_isbool := false |} ] |}.
Definition s_fa : state := fun _ _ => Some (VNum (zq 0)).

Lemma grounded_forall_applied_once :
  vars_dropped T1 P_fa a_fa [] = true /\
  (exists t, sim_apply_grounded true T1 P_fa s_fa a_fa [] = Some t /\ t 0%N [] = Some (VNum (zq 1))) /\
  (exists t, spec_step false P_fa s_fa a_fa [] = Some t /\ t 0%N [] = Some (VNum (zq 2))).
Proof.
  split; [vm_compute; reflexivity|].
  split; eexists; (split; [vm_compute; reflexivity | vm_compute; reflexivity]).
Qed.

(* ---- non-vacuity of the step theorems: a parametrised action whose precondition is really simplified
   (b(p) and true, over a conditional forall effect), all hypotheses discharged ---- *)
Definition P_nv : problem :=
  {| p_objs := [(0%N, [0%N; 1%N])]; p_ifun := [];
     p_fluents := [ {| fd_id := 0%N; fd_sig := [0%N]; fd_ty := FBool |};
                    {| fd_id := 1%N; fd_sig := []; fd_ty := FNum (Some (zq 0)) (Some (zq 3)) |} ];
     p_actions := []; p_goals := []; p_invs := [EFluent 0%N [EObj 1%N]] |}.
Definition a_nv : action :=
  {| a_params := [0%N];
     a_pre := [EAnd [EFluent 0%N [EParam 0%N]; EEquals (EParam 0%N) (EParam 0%N)]];
     a_effs := [ unc 0%N [EParam 0%N] (EBool false) KAssign true;
                 {| e_fl := 1%N; e_args := []; e_val := EInt 1; e_cond := EFluent 0%N [EVar 0%N 0%N];
                    e_kind := KInc; e_vars := [(0%N, 0%N)]; e_isbool := false |} ] |}.
Definition s_nv : state := fun f _ => if (f =? 0)%N then Some (VBool true) else Some (VNum (zq 0)).

Lemma state_typed_nv : state_typed P_nv s_nv.
Proof.
  intros f ty a v H. unfold fluent_user_type in H. cbn [P_nv p_fluents find fd_id] in H.
  destruct (0 =? f)%N; [discriminate|]. destruct (1 =? f)%N; discriminate.
Qed.

(* (top-level definitions rather than `let ... in` in the statement: coqchk 8.16 rejects the VM-cast proof term of a
   let-bound statement although the kernel accepts it) *)
Definition args_nv : list value := [VObj 0%N].
Definition tau_nv : N -> N := fun _ => 0%N.

Lemma grounded_nonvacuous :
  ground_wf_b tau_nv (qt_of P_nv) a_nv = true /\
  env_ok (gcfg T1 P_nv) tau_nv (qt_of P_nv) (mk_interp P_nv s_nv []) /\
  step_defined P_nv s_nv a_nv args_nv /\
  effects_typed false P_nv s_nv a_nv args_nv /\
  ground_conflict T1 P_nv a_nv args_nv = false /\
  vars_dropped T1 P_nv a_nv args_nv = false /\
  (exists g, ground_action T1 P_nv a_nv args_nv = Some g /\ a_pre g = [EFluent 0%N [EObj 0%N]]) /\
  (exists t, sim_apply_grounded true T1 P_nv s_nv a_nv args_nv = Some t /\
             t 0%N [VObj 0%N] = Some (VBool false) /\ t 1%N [] = Some (VNum (zq 2))).
Proof.
  split; [vm_compute; reflexivity|].
  split; [apply env_ok_of_tables; [vm_compute; reflexivity | exact state_typed_nv]|].
  assert (SS : exists t, spec_step false P_nv s_nv a_nv args_nv = Some t).
  { eexists. vm_compute. reflexivity. }
  destruct SS as [t Ht].
  split; [exact (spec_step_some_defined _ _ _ _ _ Ht)|].
  split; [intros acts H; vm_compute in H; inversion H; reflexivity|].
  split; [vm_compute; reflexivity|]. split; [vm_compute; reflexivity|].
  split; [eexists; split; [vm_compute; reflexivity | reflexivity]|].
  eexists. split; [vm_compute; reflexivity|]. split; vm_compute; reflexivity.
Qed.

(* existential forms, as stated in Props/C01.v *)
Lemma grounded_tautology_over_undefined_ex :
  exists T P s a args,
    (exists t, sim_apply_grounded true T P s a args = Some t) /\ spec_step false P s a args = None /\
    (exists c, In c (a_pre a) /\ eval false c (mk_interp P s (zip_params (a_params a) args)) = None).
Proof.
  exists T1, P_taut, s_taut, a_taut, []. destruct grounded_tautology_over_undefined as ([t [Ht _]] & H2 & _ & H4).
  split; [exists t; exact Ht|]. split; [exact H2|].
  exists (EOr [EFluent 0%N []; ENot (EFluent 0%N [])]). split; [left; reflexivity | exact H4].
Qed.

Lemma grounded_syntactic_conflict_ex :
  exists T P s a args,
    ground_action T P a args = None /\ sim_apply_grounded true T P s a args = None /\
    (exists t, spec_step false P s a args = Some t) /\ step_defined P s a args.
Proof.
  exists T1, P_conf, s_conf, a_conf, [VObj 0%N; VObj 0%N].
  destruct grounded_syntactic_conflict as (H1 & _ & H3 & [t [Ht _]] & H5).
  split; [exact H1|]. split; [exact H3|]. split; [exists t; exact Ht | exact H5].
Qed.

Lemma grounded_forall_applied_once_ex :
  exists T P s a args f x,
    (exists t, sim_apply_grounded true T P s a args = Some t /\ t f [] = Some (VNum x)) /\
    (exists t, spec_step false P s a args = Some t /\ t f [] = Some (VNum (x + x)%Qc)) /\ x <> zq 0.
Proof.
  exists T1, P_fa, s_fa, a_fa, [], 0%N, (zq 1).
  destruct grounded_forall_applied_once as (_ & H2 & H3).
  split; [exact H2|]. split; [|discriminate].
  destruct H3 as [t [Ht Hv]]. exists t. split; [exact Ht|]. rewrite Hv. do 2 f_equal.
Qed.

(* [state_typed] for a finite state (what the harness serialises), as a boolean check *)
Definition state_typed_b (P : problem) (l : list (N * list value * value)) : bool :=
  forallb (fun e => match e with
                    | (f, _, v) => match fluent_user_type P f with
                                   | Some ty => match v with VObj o => memN o (objs_of P ty) | _ => false end
                                   | None => true
                                   end
                    end) l.

Lemma state_typed_b_spec P l : state_typed_b P l = true -> state_typed P (fun f a => lookup_app f a l).
Proof.
  induction l as [|[[g a0] v0] l IH]; intros H f ty a v Hty Hv; cbn [lookup_app] in Hv; [discriminate|].
  cbn [state_typed_b forallb] in H. apply andb_true_iff in H. destruct H as [H0 Hl].
  destruct ((f =? g)%N && values_eqb a a0) eqn:E.
  - inversion Hv; subst v0. apply andb_true_iff in E. destruct E as [E _]. apply N.eqb_eq in E. subst g.
    rewrite Hty in H0. destruct v as [|?|o]; try discriminate. exists o. split; [reflexivity|].
    apply memN_In. exact H0.
  - exact (IH Hl f ty a v Hty Hv).
Qed.
