(* Proofs for the sequential plan validator model (C03). *)
From Coq Require Import List ZArith NArith QArith Qcanon Bool Lia.
Import ListNotations.
Require Import UPV.Core.Expr UPV.Core.Eval UPV.Core.Interp UPV.Planning.Problem UPV.Planning.Sem UPV.Planning.SeqValidate.
Require Import UPV.Proofs.Eval_lemmas UPV.Proofs.Sem_proofs UPV.Proofs.Step_proofs.

Section V.
  Variable sc : bool.
  Variable P : problem.
  Variable M : metric.

  (* value of the accumulator after the pre-states [tr], started at [acc] *)
  Definition acc_spec (acc : Qc) (tr : list (state * (N * list value))) : option Qc :=
    match M with
    | MCosts _ _ => option_map (fun c => Qcplus c acc) (sum_costs sc P M tr)
    | MLength => Some (Qcplus acc (zq (Z.of_nat (length tr))))
    | _ => Some acc
    end.

  Lemma zq0 : zq 0 = 0%Qc.
  Proof. apply Qc_is_canon. reflexivity. Qed.
  Lemma zq1 : zq 1 = 1%Qc.
  Proof. apply Qc_is_canon. reflexivity. Qed.

  Lemma zq_succ n : zq (Z.of_nat (S n)) = Qcplus (zq 1) (zq (Z.of_nat n)).
  Proof.
    unfold zq, Qcplus. apply Q2Qc_eq_iff. unfold Q2Qc. cbn [this]. rewrite !Qred_correct.
    rewrite <- inject_Z_plus. rewrite Nat2Z.inj_succ. rewrite Z.add_1_l. reflexivity.
  Qed.

  Lemma validate_from_trace step : forall plan s acc,
    validate_from sc P M step s acc plan =
    match trace P step s plan with
    | None => Invalid
    | Some (tr, fin) =>
        match acc_spec acc tr with
        | None => Invalid
        | Some a' => if goals_hold sc P fin
                     then match final_metric sc P M fin a' with Some m => Valid m | None => Invalid end
                     else Invalid
        end
    end.
  Proof.
    induction plan as [|[aid args] plan IH]; intros s acc.
    - cbn [validate_from trace]. unfold acc_spec. destruct M; cbn [sum_costs option_map length Z.of_nat].
      + reflexivity.
      + replace (Qcplus (zq 0) acc) with acc by (rewrite zq0; ring). reflexivity.
      + replace (Qcplus acc (zq 0)) with acc by (rewrite zq0; ring). reflexivity.
      + reflexivity.
      + reflexivity.
    - cbn [validate_from trace].
      destruct (lookup_action P aid) as [a|] eqn:EA; [|reflexivity].
      destruct (step s a args) as [s'|]; [|reflexivity].
      destruct (step_metric sc P M s aid a args acc) as [acc'|] eqn:ESM.
      + rewrite IH. destruct (trace P step s' plan) as [[tr fin]|]; [|reflexivity].
        assert (E : acc_spec acc' tr = acc_spec acc ((s, (aid, args)) :: tr)).
        { unfold acc_spec, step_metric in *. destruct M; try (inversion ESM; subst; reflexivity).
          - cbn [sum_costs cost_at]. rewrite EA.
            destruct (cost_expr (MCosts costs dflt) aid) as [e|]; [|discriminate].
            destruct (eval sc e (mk_interp P s (zip_params (a_params a) args))) as [[|c|]|]; try discriminate.
            inversion ESM; subst. destruct (sum_costs sc P (MCosts costs dflt) tr) as [r|]; [|reflexivity].
            cbn [option_map]. f_equal. ring.
          - inversion ESM; subst. cbn [length]. rewrite zq_succ. f_equal. ring. }
        rewrite E. reflexivity.
      + destruct (trace P step s' plan) as [[tr fin]|]; [|reflexivity].
        assert (E : acc_spec acc ((s, (aid, args)) :: tr) = None).
        { unfold acc_spec, step_metric in *. destruct M; try discriminate.
          cbn [sum_costs cost_at]. rewrite EA.
          destruct (cost_expr (MCosts costs dflt) aid) as [e|]; [|reflexivity].
          destruct (eval sc e (mk_interp P s (zip_params (a_params a) args))) as [[|c|]|]; try reflexivity. discriminate. }
        rewrite E. reflexivity.
  Qed.

  Lemma final_metric_spec tr fin :
    match acc_spec (zq 0) tr with
    | Some a' => final_metric sc P M fin a'
    | None => None
    end = metric_spec sc P M tr fin.
  Proof.
    unfold acc_spec, final_metric, metric_spec. destruct M; try reflexivity.
    - destruct (sum_costs sc P (MCosts costs dflt) tr) as [r|]; [|reflexivity].
      cbn [option_map]. do 2 f_equal. rewrite zq0; ring.
    - do 2 f_equal. rewrite zq0. ring.
  Qed.

  (* the validator's verdict and metric value in terms of the run of the plan *)
  Theorem seq_validate_spec s0 plan :
    seq_validate sc P M s0 plan =
    match trace P (sim_apply sc P) s0 plan with
    | None => Invalid
    | Some (tr, fin) =>
        if goals_hold sc P fin
        then match metric_spec sc P M tr fin with Some m => Valid m | None => Invalid end
        else Invalid
    end.
  Proof.
    unfold seq_validate. rewrite validate_from_trace.
    destruct (trace P (sim_apply sc P) s0 plan) as [[tr fin]|]; [|reflexivity].
    rewrite <- (final_metric_spec tr fin).
    destruct (acc_spec (zq 0) tr) as [a'|]; [reflexivity|].
    destruct (goals_hold sc P fin); reflexivity.
  Qed.

  Lemma trace_run step : forall plan s,
    run P step s plan = match trace P step s plan with Some (_, fin) => Some fin | None => None end.
  Proof.
    induction plan as [|[aid args] plan IH]; intros s; cbn [run trace]; [reflexivity|].
    destruct (lookup_action P aid) as [a|]; [|reflexivity].
    destruct (step s a args) as [s'|]; [|reflexivity].
    rewrite IH. destruct (trace P step s' plan) as [[tr fin]|]; reflexivity.
  Qed.

  Lemma goals_hold_ext s t : state_eq s t -> goals_hold sc P s = goals_hold sc P t.
  Proof. intros H. unfold goals_hold. apply all_hold_ext, mk_interp_ext, H. Qed.

  (* VALID is returned only for plans that are executable from the initial state and end in a goal state under the
     documented semantics; and every such plan whose metric is defined is VALID *)
  Theorem seq_validate_status s0 plan : plan_typed sc P ->
    (forall m, seq_validate sc P M s0 plan = Valid m -> valid_plan sc P s0 plan = true) /\
    (valid_plan sc P s0 plan = true ->
       seq_validate sc P M s0 plan = Invalid ->
       exists tr fin, trace P (sim_apply sc P) s0 plan = Some (tr, fin) /\ metric_spec sc P M tr fin = None).
  Proof.
    intros WT. rewrite seq_validate_spec. unfold valid_plan.
    pose proof (sim_run_refines_spec sc P plan WT s0 s0 (fun _ _ => eq_refl)) as R.
    rewrite (trace_run (sim_apply sc P)) in R.
    destruct (trace P (sim_apply sc P) s0 plan) as [[tr fin]|]; simpl in R.
    - destruct (run P (spec_step sc P) s0 plan) as [fin'|]; [|contradiction].
      rewrite <- (goals_hold_ext fin fin' R). split.
      + intros m H. destruct (goals_hold sc P fin); [reflexivity | discriminate].
      + intros H1 H2. exists tr, fin. split; [reflexivity|]. rewrite H1 in H2.
        destruct (metric_spec sc P M tr fin); [discriminate | reflexivity].
    - destruct (run P (spec_step sc P) s0 plan); [contradiction|].
      split; [intros m H; discriminate | intros H; discriminate].
  Qed.

  (* the reported metric value is the one the metric defines for the run *)
  Theorem seq_validate_metric s0 plan m :
    seq_validate sc P M s0 plan = Valid m ->
    exists tr fin, trace P (sim_apply sc P) s0 plan = Some (tr, fin) /\ metric_spec sc P M tr fin = Some m.
  Proof.
    rewrite seq_validate_spec.
    destruct (trace P (sim_apply sc P) s0 plan) as [[tr fin]|]; [|discriminate].
    destruct (goals_hold sc P fin); [|discriminate].
    destruct (metric_spec sc P M tr fin) as [m'|] eqn:E; [|discriminate].
    intros H; inversion H; subst. exists tr, fin. auto.
  Qed.

  (* includes the empty plan *)
  Corollary seq_validate_empty s0 :
    seq_validate sc P M s0 [] =
    if goals_hold sc P s0 then match metric_spec sc P M [] s0 with Some m => Valid m | None => Invalid end else Invalid.
  Proof. rewrite seq_validate_spec. reflexivity. Qed.
End V.
