(* Proofs about the back conversion STN plan -> time-triggered plan (C26, Planning/StnBack.v). *)
From Coq Require Import List ZArith NArith QArith Qabs Bool Lia Lqa Permutation.
Import ListNotations.
Require Import UPV.Model.Stn UPV.Proofs.Stn_proofs UPV.Proofs.Stn_termination.
Require Import UPV.Planning.StnPlan UPV.Proofs.StnPlan_proofs UPV.Planning.StnBack.
Local Open Scope Q_scope.

(* ------------------------------------------------------------------ A. keys of python dicts *)
Section Keys.
  Context {V : Type}.
  Implicit Types (m : list (N * V)).
  Definition keys m : list N := map fst m.

  Lemma find_none_notin k m : find k m = None <-> ~ In k (keys m).
  Proof.
    induction m as [|[k' v'] m IH]; simpl; [tauto|].
    destruct (N.eqb_spec k k'); [subst; split; [discriminate | intros H; exfalso; apply H; left; reflexivity]|].
    rewrite IH. split; [intros H [E|E]; [congruence | contradiction] | intros H E; apply H; right; exact E].
  Qed.

  Lemma find_some_in k m : find k m <> None <-> In k (keys m).
  Proof.
    pose proof (find_none_notin k m) as H. destruct (find k m); split; intros; try congruence.
    - destruct (in_dec N.eq_dec k (keys m)); [assumption|]. apply H in n. discriminate.
    - exfalso. apply H; auto.
  Qed.

  Lemma find_in_nodup k v m : NoDup (keys m) -> In (k, v) m -> find k m = Some v.
  Proof.
    induction m as [|[k' v'] m IH]; simpl; intros Hn HI; [destruct HI|].
    inversion Hn as [|? ? Hni Hn']; subst. destruct HI as [E|HI].
    - inversion E; subst. rewrite N.eqb_refl. reflexivity.
    - destruct (N.eqb_spec k k'); [subst; exfalso; apply Hni; apply (in_map fst) in HI; exact HI | apply IH; assumption].
  Qed.

  Lemma find_some_in_pair k v m : find k m = Some v -> In (k, v) m.
  Proof.
    induction m as [|[k' v'] m IH]; simpl; [discriminate|].
    destruct (N.eqb_spec k k'); [intros E; inversion E; subst; left; reflexivity | intros E; right; apply IH; exact E].
  Qed.

  Lemma keys_set k v m :
    keys (set k v m) = match find k m with Some _ => keys m | None => keys m ++ [k] end.
  Proof.
    induction m as [|[k' v'] m IH]; simpl; [reflexivity|].
    destruct (N.eqb_spec k k'); simpl; [subst; reflexivity|].
    rewrite IH. destruct (find k m); reflexivity.
  Qed.

  Lemma keys_setdefault k v m :
    keys (setdefault k v m) = match find k m with Some _ => keys m | None => keys m ++ [k] end.
  Proof. unfold setdefault. destruct (find k m); [reflexivity|]. unfold keys. rewrite map_app. reflexivity. Qed.

  Lemma setdefault_known k v m : find k m <> None -> setdefault k v m = m.
  Proof. unfold setdefault. destruct (find k m); [reflexivity | congruence]. Qed.
End Keys.

(* a property of all keys, together with their uniqueness *)
Definition kok (P : N -> Prop) {V} (m : list (N * V)) : Prop := NoDup (keys m) /\ forall k, In k (keys m) -> P k.


Lemma nodup_snoc (l : list N) k : NoDup l -> ~ In k l -> NoDup (l ++ [k]).
Proof.
  intros Hn Hk. eapply Permutation_NoDup; [apply Permutation_cons_append|]. constructor; assumption.
Qed.

Lemma kok_set (P : N -> Prop) {V} (m : list (N * V)) k v : kok P m -> P k -> kok P (set k v m).
Proof.
  intros [Hn Hp] Hk. unfold kok. rewrite keys_set. destruct (find k m) eqn:E; [split; assumption|].
  apply find_none_notin in E. split; [apply nodup_snoc; assumption|].
  intros k' HI. apply in_app_or in HI. destruct HI as [HI|[<-|[]]]; auto.
Qed.

Lemma kok_setdefault (P : N -> Prop) {V} (m : list (N * V)) k v : kok P m -> P k -> kok P (setdefault k v m).
Proof.
  intros [Hn Hp] Hk. unfold kok. rewrite keys_setdefault. destruct (find k m) eqn:E; [split; assumption|].
  apply find_none_notin in E. split; [apply nodup_snoc; assumption|].
  intros k' HI. apply in_app_or in HI. destruct HI as [HI|[<-|[]]]; auto.
Qed.

(* ------------------------------------------------------------------ B. the keys of _distances along _inc_check / add *)
Lemma scan_kok (P : N -> Prop) eps y b c : forall ns d queue,
  kok P d -> (forall dst bb, In (dst, bb) ns -> P dst) -> kok P (fst (scan d eps y b c ns queue)).
Proof.
  induction ns as [|[dst bound] ns IH]; intros d queue Hk Hp; simpl; [exact Hk|].
  assert (Hp' : forall dst' bb, In (dst', bb) ns -> P dst') by (intros; eapply Hp; right; eauto).
  destruct (Qlt_bool _ _); [|apply IH; assumption].
  destruct (_ && _); [exact Hk|]. apply IH; [|exact Hp']. apply kok_set; [exact Hk|]. eapply Hp. left. reflexivity.
Qed.

Lemma bfs_kok (P : N -> Prop) cm eps y b : (forall u v bb, edge cm u v bb -> P v) ->
  forall fuel d queue d' r, kok P d -> bfs fuel cm d eps y b queue = Finished d' r -> kok P d'.
Proof.
  intros Hc. induction fuel as [|fuel IH]; intros d queue d' r Hk H; destruct queue as [|c q']; simpl in H;
    try discriminate; try (inversion H; subst; exact Hk).
  pose proof (scan_kok P eps y b c (getc cm c) d q' Hk (fun dst bb HI => Hc c dst bb HI)) as S.
  destruct (scan d eps y b c (getc cm c) q') as [d1 [q1|]]; simpl in S.
  - eapply IH; eauto.
  - inversion H; subst. exact S.
Qed.

Lemma inc_check_kok (P : N -> Prop) fuel cm d eps x y b d' r :
  (forall u v bb, edge cm u v bb -> P v) -> P y -> kok P d ->
  inc_check fuel cm d eps x y b = Finished d' r -> kok P d'.
Proof.
  unfold inc_check. intros Hc Hy Hk H. destruct (Qlt_bool _ _).
  - eapply bfs_kok; [exact Hc| |exact H]. apply kok_set; assumption.
  - inversion H; subst. exact Hk.
Qed.

(* keys of _distances are unique and satisfy P; every neighbour stored in _constraints satisfies P *)
Definition kinv (P : N -> Prop) (s : stn) : Prop :=
  kok P (s_dist s) /\ forall u v bb, edge (s_cons s) u v bb -> P v.

Lemma add_kinv (P : N -> Prop) fuel s x y b s' : kinv P s -> P x -> P y -> add fuel s x y b = Some s' -> kinv P s'.
Proof.
  intros [Hk Hc] Hx Hy H. unfold add in H. destruct (s_sat s); [|inversion H; subst; split; assumption].
  set (d1 := setdefault y 0 (setdefault x 0 (s_dist s))) in *.
  set (c1 := setdefault y [] (s_cons s)) in *.
  assert (Hd1 : kok P d1) by (unfold d1; apply kok_setdefault; [apply kok_setdefault|]; assumption).
  assert (Hc1 : forall u v bb, edge c1 u v bb -> P v).
  { intros u v bb He. unfold edge, c1 in He. rewrite getc_setdefault_nil in He. eapply Hc; exact He. }
  destruct (is_subsumed c1 x y b).
  - inversion H; subst. split; assumption.
  - set (c2 := set x ((y, b) :: getc (s_cons s) x) c1) in *.
    assert (Hc2 : forall u v bb, edge c2 u v bb -> P v).
    { intros u v bb He. unfold edge, c2 in He. destruct (N.eq_dec u x) as [->|Hne].
      - rewrite getc_set_eq in He. destruct He as [E|He]; [inversion E; subst; exact Hy | eapply Hc; exact He].
      - rewrite getc_set_neq in He by exact Hne. eapply Hc1; exact He. }
    destruct (inc_check fuel c2 d1 (s_eps s) x y b) as [d2 r|] eqn:EI; [|discriminate].
    inversion H; subst. split; [|exact Hc2]. simpl. eapply inc_check_kok; eauto.
Qed.

Lemma reg_kinv (P : N -> Prop) s x y : kinv P s -> P x -> P y -> kinv P (reg s x y).
Proof. intros [Hk Hc] Hx Hy. split; [|exact Hc]. simpl. apply kok_setdefault; [apply kok_setdefault|]; assumption. Qed.

Definition iop_nodes (o : iop) : list N :=
  match o with IAdd c => [fst (fst c); snd (fst c)] | IReg x y => [x; y] end.

Lemma run_iops_kinv (P : N -> Prop) fuel : forall ops s s',
  kinv P s -> (forall o n, In o ops -> In n (iop_nodes o) -> P n) -> run_iops fuel s ops = Some s' -> kinv P s'.
Proof.
  induction ops as [|o ops IH]; intros s s' Hk Hp H; simpl in H; [inversion H; subst; exact Hk|].
  assert (Hp' : forall o' n, In o' ops -> In n (iop_nodes o') -> P n) by (intros; eapply Hp; [right|]; eauto).
  destruct o as [c|x y].
  - destruct (add fuel s (fst (fst c)) (snd (fst c)) (snd c)) as [s1|] eqn:EA; [|discriminate].
    apply (IH s1 s'); [|exact Hp'|exact H].
    eapply add_kinv; [exact Hk| | |exact EA]; apply (Hp (IAdd c)); simpl; auto.
  - apply (IH (reg s x y) s'); [|exact Hp'|exact H].
    apply reg_kinv; [exact Hk| |]; apply (Hp (IReg x y)); simpl; auto.
Qed.

Lemma node_adds_nodes n x y b : In (x, y, b) (node_adds n) -> (x = start_plan \/ x = end_plan \/ x = n) /\ (y = start_plan \/ y = end_plan \/ y = n).
Proof.
  unfold node_adds. intros H. apply in_app_or in H. destruct H as [H|H].
  - destruct (n =? start_plan)%N; [destruct H|]. destruct H as [E|[]]. inversion E; subst. auto.
  - destruct (n =? end_plan)%N; [destruct H|]. destruct H as [E|[]]. inversion E; subst. auto.
Qed.

Lemma interval_adds_nodes a b lb ub x y bb : In (x, y, bb) (interval_adds a b lb ub) -> (x = a \/ x = b) /\ (y = a \/ y = b).
Proof.
  unfold interval_adds. intros H. apply in_app_or in H. destruct H as [H|H].
  - destruct lb; [|destruct H]. destruct H as [E|[]]. inversion E; subst. auto.
  - destruct ub; [|destruct H]. destruct H as [E|[]]. inversion E; subst. auto.
Qed.

Lemma init_ops_nodes cs o n : In o (init_ops cs) -> In n (iop_nodes o) -> init_node cs n.
Proof.
  intros [<-|H] Hn.
  - simpl in Hn. unfold init_node. destruct Hn as [<-|[<-|[]]]; auto.
  - apply in_flat_map in H. destruct H as ([[[a lb] ub] b] & Hin & H).
    assert (Ha : In a (nodes_of cs)) by (apply in_flat_map; eexists; split; [exact Hin|simpl; auto]).
    assert (Hb : In b (nodes_of cs)) by (apply in_flat_map; eexists; split; [exact Hin|simpl; auto]).
    simpl in H. apply in_app_or in H. destruct H as [H|H].
    + apply in_map_iff in H. destruct H as ([[x y] bb] & <- & H). simpl in Hn.
      apply in_app_or in H. unfold init_node.
      destruct H as [H|H]; apply node_adds_nodes in H; destruct H as [H1 H2];
        destruct Hn as [<-|[<-|[]]]; intuition (subst; auto).
    + unfold interval_ops in H.
      assert (HH : (exists x y bb, o = IAdd (x, y, bb) /\ In (x, y, bb) (interval_adds a b lb ub)) \/ o = IReg a b).
      { destruct lb, ub; try (left; apply in_map_iff in H; destruct H as ([[x y] bb] & <- & H); eauto).
        destruct H as [<-|[]]. right; reflexivity. }
      unfold init_node. destruct HH as [(x & y & bb & Ho & HI)|Ho]; subst o; simpl in Hn.
      * apply interval_adds_nodes in HI. destruct HI as [H1 H2]. destruct Hn as [<-|[<-|[]]]; intuition (subst; auto).
      * destruct Hn as [<-|[<-|[]]]; auto.
Qed.

Lemma kinv_empty (P : N -> Prop) eps : kinv P (empty_stn eps).
Proof. split; [split; [constructor | intros k []] | intros u v bb []]. Qed.

Lemma back_init_kinv fuel cs s : back_init fuel cs = Some s -> kinv (init_node cs) s.
Proof.
  intros H. eapply run_iops_kinv; [apply kinv_empty | | exact H].
  intros o n Ho Hn. eapply init_ops_nodes; eauto.
Qed.
(* ------------------------------------------------------------------ C. run_iops against run_adds (StnPlan.init_adds) *)
Lemma add_unsat fuel s x y b : s_sat s = false -> add fuel s x y b = Some s.
Proof. intros H. unfold add. rewrite H. reflexivity. Qed.

Lemma run_adds_unsat fuel : forall l s, s_sat s = false -> run_adds fuel s l = Some s.
Proof.
  induction l as [|[[x y] b] l IH]; intros s H; simpl; [reflexivity|]. rewrite add_unsat by exact H. apply IH; exact H.
Qed.

Lemma add_keys_mono fuel s x y b s' k :
  add fuel s x y b = Some s' -> find k (s_dist s) <> None -> find k (s_dist s') <> None.
Proof.
  unfold add. intros H Hk. destruct (s_sat s); [|inversion H; subst; exact Hk].
  assert (H1 : find k (setdefault y 0 (setdefault x 0 (s_dist s))) <> None) by (apply find_setdefault_some, find_setdefault_some; exact Hk).
  destruct (is_subsumed _ _ _ _); [inversion H; subst; exact H1|].
  destruct (inc_check _ _ _ _ _ _ _) as [d2 r|] eqn:EI; [|discriminate]. inversion H; subst. simpl.
  eapply inc_check_keys; eauto.
Qed.

Lemma add_known fuel s x y b s' :
  add fuel s x y b = Some s' -> s_sat s' = true -> find x (s_dist s') <> None /\ find y (s_dist s') <> None.
Proof.
  unfold add. intros H Hs. destruct (s_sat s) eqn:E; [|inversion H; subst; congruence].
  assert (H1 : find x (setdefault y 0 (setdefault x 0 (s_dist s))) <> None) by (apply find_setdefault_some, find_setdefault_self).
  assert (H2 : find y (setdefault y 0 (setdefault x 0 (s_dist s))) <> None) by (apply find_setdefault_self).
  destruct (is_subsumed _ _ _ _); [inversion H; subst; split; assumption|].
  destruct (inc_check _ _ _ _ _ _ _) as [d2 r|] eqn:EI; [|discriminate]. inversion H; subst. simpl.
  split; eapply inc_check_keys; eauto.
Qed.

Lemma run_adds_keys_mono fuel k : forall l s s',
  run_adds fuel s l = Some s' -> find k (s_dist s) <> None -> find k (s_dist s') <> None.
Proof.
  induction l as [|[[x y] b] l IH]; intros s s' H Hk; simpl in H; [inversion H; subst; exact Hk|].
  destruct (add fuel s x y b) as [s1|] eqn:EA; [|discriminate].
  eapply IH; [exact H|]. eapply add_keys_mono; eauto.
Qed.

Lemma run_adds_known fuel : forall l s s' x y b,
  run_adds fuel s l = Some s' -> s_sat s' = true -> In (x, y, b) l ->
  find x (s_dist s') <> None /\ find y (s_dist s') <> None.
Proof.
  induction l as [|[[x0 y0] b0] l IH]; intros s s' x y b H Hs HI; simpl in H; [destruct HI|].
  destruct (add fuel s x0 y0 b0) as [s1|] eqn:EA; [|discriminate].
  destruct (s_sat s1) eqn:E1.
  2:{ rewrite run_adds_unsat in H by exact E1. inversion H; subst. congruence. }
  destruct HI as [E|HI]; [|eapply IH; eauto].
  inversion E; subst. destruct (add_known _ _ _ _ _ _ EA E1) as [Hx Hy].
  split; eapply run_adds_keys_mono; eauto.
Qed.

Lemma run_iops_app fuel : forall a s b,
  run_iops fuel s (a ++ b) = match run_iops fuel s a with Some s' => run_iops fuel s' b | None => None end.
Proof.
  induction a as [|o a IH]; intros s b; simpl; [reflexivity|]. destruct o as [c|x y].
  - destruct (add _ _ _ _ _); [apply IH | reflexivity].
  - apply IH.
Qed.

Lemma run_iops_adds fuel : forall l s, run_iops fuel s (map IAdd l) = run_adds fuel s l.
Proof.
  induction l as [|[[x y] b] l IH]; intros s; simpl; [reflexivity|].
  destruct (add fuel s x y b); [apply IH | reflexivity].
Qed.

(* the two runs are in the same state as long as it is consistent, and agree on consistency *)
Definition simR (s s1 : stn) : Prop := s_sat s = s_sat s1 /\ (s_sat s = true -> s = s1).
Definition simO (a b : option stn) : Prop :=
  match a, b with Some x, Some y => simR x y | None, None => True | _, _ => False end.

Lemma simR_refl s : simR s s.
Proof. split; [reflexivity | intros _; reflexivity]. Qed.

Lemma sim_adds fuel : forall l s s1, simR s s1 -> simO (run_adds fuel s l) (run_adds fuel s1 l).
Proof.
  intros l s s1 [H1 H2]. destruct (s_sat s) eqn:E.
  - rewrite <- (H2 eq_refl). destruct (run_adds fuel s l); simpl; [apply simR_refl | exact I].
  - rewrite !run_adds_unsat by congruence. simpl. split; [congruence | intros; congruence].
Qed.

Lemma node_adds_mentions n : exists x y b, In (x, y, b) (node_adds n) /\ (x = n \/ y = n).
Proof.
  unfold node_adds. destruct (N.eqb_spec n start_plan) as [->|Hne].
  - exists start_plan, end_plan, (- 0). split; [simpl; left; reflexivity | left; reflexivity].
  - exists start_plan, n, (- 0). split; [simpl; left; reflexivity | right; reflexivity].
Qed.

Lemma reg_known s x y : find x (s_dist s) <> None -> find y (s_dist s) <> None -> reg s x y = s.
Proof.
  intros Hx Hy. unfold reg. rewrite (setdefault_known x 0 _ Hx), (setdefault_known y 0 _ Hy). destruct s; reflexivity.
Qed.

Lemma sim_pcon fuel c s s1 : simR s s1 -> simO (run_iops fuel s (pcon_ops c)) (run_adds fuel s1 (pcon_adds c)).
Proof.
  destruct c as [[[a lb] ub] b]. intros HR. unfold pcon_ops, pcon_adds.
  assert (Hgen : forall l, simO (run_iops fuel s (map IAdd l)) (run_adds fuel s1 l)) by (intros l; rewrite run_iops_adds; apply sim_adds; exact HR).
  destruct lb as [l|]; [|destruct ub as [u|]].
  1,2: (unfold interval_ops; rewrite <- map_app, <- app_assoc; apply Hgen).
  unfold interval_ops, interval_adds. simpl app at 2. rewrite app_nil_r, run_iops_app.
  specialize (Hgen (node_adds a ++ node_adds b)). rewrite run_iops_adds in *.
  destruct (run_adds fuel s (node_adds a ++ node_adds b)) as [t|] eqn:Et;
    destruct (run_adds fuel s1 (node_adds a ++ node_adds b)) as [t1|] eqn:Et1; simpl in Hgen; try contradiction; [|exact I].
  simpl. destruct Hgen as [G1 G2]. destruct (s_sat t) eqn:Es.
  - assert (Ka : find a (s_dist t) <> None).
    { destruct (node_adds_mentions a) as (x & y & bb & HI & Hor).
      destruct (run_adds_known fuel _ _ _ x y bb Et Es (in_or_app _ _ _ (or_introl HI))) as [Kx Ky]. destruct Hor; subst; assumption. }
    assert (Kb : find b (s_dist t) <> None).
    { destruct (node_adds_mentions b) as (x & y & bb & HI & Hor).
      destruct (run_adds_known fuel _ _ _ x y bb Et Es (in_or_app _ _ _ (or_intror HI))) as [Kx Ky]. destruct Hor; subst; assumption. }
    rewrite reg_known by assumption. split; [congruence | intros _; apply G2; reflexivity].
  - split; [simpl; congruence | simpl; intros; congruence].
Qed.

Lemma run_adds_app2 fuel : forall a s b,
  run_adds fuel s (a ++ b) = match run_adds fuel s a with Some s' => run_adds fuel s' b | None => None end.
Proof.
  induction a as [|[[x y] bb] a IH]; intros s b; simpl; [reflexivity|].
  destruct (add fuel s x y bb); [apply IH | reflexivity].
Qed.

Lemma sim_pcons fuel : forall cs s s1, simR s s1 ->
  simO (run_iops fuel s (flat_map pcon_ops cs)) (run_adds fuel s1 (flat_map pcon_adds cs)).
Proof.
  induction cs as [|c cs IH]; intros s s1 HR; simpl; [exact HR|].
  rewrite run_iops_app, run_adds_app2. pose proof (sim_pcon fuel c s s1 HR) as H.
  destruct (run_iops fuel s (pcon_ops c)) as [t|]; destruct (run_adds fuel s1 (pcon_adds c)) as [t1|]; simpl in H; try contradiction; [|exact I].
  apply IH. exact H.
Qed.

Lemma back_init_sim fuel cs : simO (back_init fuel cs) (stn_plan_init fuel cs).
Proof.
  unfold back_init, stn_plan_init, init_ops, init_adds.
  change (IAdd (start_plan, end_plan, - 0) :: flat_map pcon_ops cs) with (map IAdd [(start_plan, end_plan, - 0)] ++ flat_map pcon_ops cs).
  change ((start_plan, end_plan, - 0) :: flat_map pcon_adds cs) with ([(start_plan, end_plan, - 0)] ++ flat_map pcon_adds cs).
  rewrite run_iops_app, run_adds_app2, run_iops_adds.
  destruct (run_adds fuel (empty_stn 0) [(start_plan, end_plan, - 0)]) as [s0|]; [|exact I].
  apply sim_pcons. apply simR_refl.
Qed.

(* while the network is consistent, the calls that are not `add` change nothing *)
Lemma back_init_sat_eq fuel cs s : back_init fuel cs = Some s -> check_stn s = true -> stn_plan_init fuel cs = Some s.
Proof.
  intros H Hs. pose proof (back_init_sim fuel cs) as S. rewrite H in S.
  destruct (stn_plan_init fuel cs) as [s1|]; simpl in S; [|contradiction].
  destruct S as [S1 S2]. rewrite (S2 Hs). reflexivity.
Qed.

Lemma back_init_of_plan_init fuel cs s : stn_plan_init fuel cs = Some s -> check_stn s = true -> back_init fuel cs = Some s.
Proof.
  intros H Hs. pose proof (back_init_sim fuel cs) as S. rewrite H in S.
  destruct (back_init fuel cs) as [s1|]; simpl in S; [|contradiction].
  destruct S as [S1 S2]. unfold check_stn in Hs. rewrite <- S2 by congruence. reflexivity.
Qed.

Lemma back_init_terminates cs : exists s, back_init (enough_fuel (init_adds cs)) cs = Some s.
Proof.
  destruct (stn_plan_init_terminates cs) as [s1 H1]. pose proof (back_init_sim (enough_fuel (init_adds cs)) cs) as S.
  rewrite H1 in S. destruct (back_init _ cs) as [s|]; simpl in S; [eexists; reflexivity | contradiction].
Qed.

Lemma back_init_consistent_iff fuel cs s : back_init fuel cs = Some s -> (check_stn s = true <-> solvable (init_adds cs)).
Proof.
  intros H. pose proof (back_init_sim fuel cs) as S. rewrite H in S.
  destruct (stn_plan_init fuel cs) as [s1|] eqn:E1; simpl in S; [|contradiction].
  destruct S as [S1 _]. unfold check_stn. rewrite S1.
  exact (stn_sat_iff fuel 0 _ s1 (Qeq_refl 0) E1).
Qed.
(* ------------------------------------------------------------------ D. node numbers *)
Lemma snode_idx k : ((snode k - 2) / 2 = k)%N /\ N.even (snode k) = true /\ (snode k <? 2)%N = false.
Proof.
  unfold snode. split; [|split].
  - replace (2 + 2 * k - 2)%N with (k * 2)%N by lia. apply N.div_mul. discriminate.
  - rewrite N.even_add_mul_2. reflexivity.
  - apply N.ltb_ge. lia.
Qed.

Lemma enode_idx k : ((enode k - 2) / 2 = k)%N /\ N.even (enode k) = false /\ (enode k <? 2)%N = false.
Proof.
  unfold enode. split; [|split].
  - replace (3 + 2 * k - 2)%N with (1 + k * 2)%N by lia. rewrite N.div_add by discriminate. reflexivity.
  - rewrite N.even_add_mul_2. reflexivity.
  - apply N.ltb_ge. lia.
Qed.

Lemma node_split n : (2 <= n)%N -> if N.even n then n = snode ((n - 2) / 2) else n = enode ((n - 2) / 2).
Proof.
  intros Hn. destruct (N.even n) eqn:E.
  - apply N.even_spec in E. destruct E as [m ->]. assert (1 <= m)%N by lia.
    replace (2 * m - 2)%N with ((m - 1) * 2)%N by lia. rewrite N.div_mul by discriminate. unfold snode. lia.
  - assert (O : N.odd n = true) by (rewrite <- N.negb_even, E; reflexivity).
    apply N.odd_spec in O. destruct O as [m ->]. assert (1 <= m)%N by lia.
    replace (2 * m + 1 - 2)%N with (1 + (m - 1) * 2)%N by lia. rewrite N.div_add by discriminate.
    change (1 / 2)%N with 0%N. unfold enode. lia.
Qed.

Lemma snode_inj k k' : snode k = snode k' -> k = k'.
Proof. unfold snode. lia. Qed.
Lemma enode_inj k k' : enode k = enode k' -> k = k'.
Proof. unfold enode. lia. Qed.
Lemma snode_enode k k' : snode k <> enode k'.
Proof. unfold snode, enode. lia. Qed.
Lemma enode_pred k : (enode k - 1)%N = snode k.
Proof. unfold snode, enode. lia. Qed.

(* ------------------------------------------------------------------ E. action_instance_map *)
Lemma amap_set_is_set k v (m : amap) : amap_set k v m = set k v m.
Proof. induction m as [|[k' w] m IH]; simpl; [reflexivity|]. destruct (N.eqb_spec k k'); [subst; reflexivity | rewrite IH; reflexivity]. Qed.
Lemma amap_get_find k (m : amap) : amap_get k m = match find k m with Some v => v | None => (None, None) end.
Proof. induction m as [|[k' w] m IH]; simpl; [reflexivity|]. destruct (k =? k')%N; [reflexivity | exact IH]. Qed.

Lemma amap_get_set_eq k v (m : amap) : amap_get k (set k v m) = v.
Proof. rewrite amap_get_find, find_set_eq. reflexivity. Qed.
Lemma amap_get_set_neq k k' v (m : amap) : k' <> k -> amap_get k' (set k v m) = amap_get k' m.
Proof. intros H. rewrite !amap_get_find, find_set_neq by exact H. reflexivity. Qed.

Lemma tt_collect_global m n q : (n <? 2)%N = true -> tt_collect m (n, q) = m.
Proof. intros H. unfold tt_collect. rewrite H. reflexivity. Qed.
Lemma tt_collect_start m k q : tt_collect m (snode k, q) = set k (Some (- q), snd (amap_get k m)) m.
Proof.
  unfold tt_collect. destruct (snode_idx k) as (H1 & H2 & H3). rewrite H3, H1, H2.
  destruct (amap_get k m) as [s e]. rewrite amap_set_is_set. reflexivity.
Qed.
Lemma tt_collect_end m k q : tt_collect m (enode k, q) = set k (fst (amap_get k m), Some (- q)) m.
Proof.
  unfold tt_collect. destruct (enode_idx k) as (H1 & H2 & H3). rewrite H3, H1, H2.
  destruct (amap_get k m) as [s e]. rewrite amap_set_is_set. reflexivity.
Qed.

Lemma node_cases n : (n <? 2)%N = true \/ (exists k, n = snode k) \/ (exists k, n = enode k).
Proof.
  destruct (n <? 2)%N eqn:E; [left; reflexivity | right]. apply N.ltb_ge in E.
  pose proof (node_split n E) as H. destruct (N.even n); [left | right]; eexists; exact H.
Qed.

Definition oneg (o : option Q) : oq := match o with Some q => Some (- q) | None => None end.
Definition oor (a b : oq) : oq := match a with Some _ => a | None => b end.

Lemma collect_get : forall (l : dist) (m0 : amap) k, NoDup (keys l) ->
  amap_get k (fold_left tt_collect l m0) =
  (oor (oneg (find (snode k) l)) (fst (amap_get k m0)), oor (oneg (find (enode k) l)) (snd (amap_get k m0))).
Proof.
  induction l as [|[n q] l IH]; intros m0 k Hn; cbn [fold_left].
  - simpl. destruct (amap_get k m0); reflexivity.
  - inversion Hn as [|? ? Hni Hn']; subst. rewrite (IH _ k Hn'). clear IH. simpl find.
    assert (Hf : forall x, x = n -> find x l = None) by (intros x ->; apply find_none_notin; exact Hni).
    destruct (node_cases n) as [Hg|[[k' ->]|[k' ->]]].
    + rewrite tt_collect_global by exact Hg. apply N.ltb_lt in Hg.
      destruct (N.eqb_spec (snode k) n) as [E|_]; [unfold snode in E; lia|].
      destruct (N.eqb_spec (enode k) n) as [E|_]; [unfold enode in E; lia|]. reflexivity.
    + rewrite tt_collect_start. destruct (N.eqb_spec (enode k) (snode k')) as [E|_]; [symmetry in E; apply snode_enode in E; destruct E|].
      destruct (N.eqb_spec (snode k) (snode k')) as [E|Hne].
      * apply snode_inj in E. subst k'. rewrite (Hf _ eq_refl), amap_get_set_eq. simpl. reflexivity.
      * rewrite amap_get_set_neq by (intros ->; apply Hne; reflexivity). reflexivity.
    + rewrite tt_collect_end. destruct (N.eqb_spec (snode k) (enode k')) as [E|_]; [apply snode_enode in E; destruct E|].
      destruct (N.eqb_spec (enode k) (enode k')) as [E|Hne].
      * apply enode_inj in E. subst k'. rewrite (Hf _ eq_refl), amap_get_set_eq. simpl. reflexivity.
      * rewrite amap_get_set_neq by (intros ->; apply Hne; reflexivity). reflexivity.
Qed.

Lemma in_keys_set {V} k k' (v : V) m : In k (keys (set k' v m)) <-> In k (keys m) \/ k = k'.
Proof.
  rewrite keys_set. destruct (find k' m) eqn:E.
  - split; [auto|]. intros [H| ->]; [exact H|]. apply find_some_in. congruence.
  - rewrite in_app_iff. simpl. intuition.
Qed.

Lemma collect_keys : forall (l : dist) (m0 : amap) k,
  In k (keys (fold_left tt_collect l m0)) <-> In k (keys m0) \/ In (snode k) (keys l) \/ In (enode k) (keys l).
Proof.
  induction l as [|[n q] l IH]; intros m0 k; cbn [fold_left]; [simpl; tauto|].
  rewrite IH. clear IH. cbn [keys map fst In].
  destruct (node_cases n) as [Hg|[[k' ->]|[k' ->]]].
  - rewrite tt_collect_global by exact Hg. apply N.ltb_lt in Hg. unfold snode, enode. intuition lia.
  - rewrite tt_collect_start, in_keys_set. pose proof (snode_enode k' k).
    split; [intros [[H1| ->]|[H1|H1]]; auto | intros [H1|[[H1|H1]|[H1|H1]]]; auto].
    + apply snode_inj in H1. subst; auto.
    + contradiction.
  - rewrite tt_collect_end, in_keys_set. pose proof (snode_enode k k').
    split; [intros [[H1| ->]|[H1|H1]]; auto | intros [H1|[[H1|H1]|[H1|H1]]]; auto].
    + symmetry in H1. contradiction.
    + apply enode_inj in H1. subst; auto.
Qed.

Lemma collect_nodup : forall (l : dist) (m0 : amap), NoDup (keys m0) -> NoDup (keys (fold_left tt_collect l m0)).
Proof.
  induction l as [|[n q] l IH]; intros m0 H; cbn [fold_left]; [exact H|]. apply IH.
  destruct (node_cases n) as [Hg|[[k' ->]|[k' ->]]].
  - rewrite tt_collect_global by exact Hg. exact H.
  - rewrite tt_collect_start. apply (kok_set (fun _ => True)); [split; auto | exact I].
  - rewrite tt_collect_end. apply (kok_set (fun _ => True)); [split; auto | exact I].
Qed.

(* ------------------------------------------------------------------ F. the sorted list of (start, action instance, duration) *)
Definition entry (kv : N * (oq * oq)) : list ttstep :=
  match fst (snd kv) with
  | Some st => [(st, fst kv, match snd (snd kv) with Some e => Some (e - st) | None => None end)]
  | None => []
  end.

Lemma insert_tt_perm x : forall l, Permutation (insert_tt x l) (x :: l).
Proof.
  induction l as [|y r IH]; simpl; [apply Permutation_refl|].
  destruct (Qlt_bool _ _); [apply Permutation_refl|].
  eapply Permutation_trans; [apply perm_skip; exact IH | apply perm_swap].
Qed.

Lemma to_tt_fold_perm : forall (m : amap) acc,
  Permutation (fold_left (fun acc kv =>
               match fst (snd kv) with
               | Some st => insert_tt (st, fst kv, match snd (snd kv) with Some e => Some (e - st) | None => None end) acc
               | None => acc
               end) m acc) (flat_map entry m ++ acc).
Proof.
  induction m as [|[k0 [so eo]] m IH]; intros acc; [apply Permutation_refl|].
  cbn [fold_left flat_map]. eapply Permutation_trans; [apply IH|]. unfold entry at 2. cbn [fst snd]. destruct so as [st|].
  - eapply Permutation_trans; [apply Permutation_app_head; apply insert_tt_perm|].
    rewrite <- app_assoc. apply Permutation_sym. simpl. apply Permutation_middle.
  - apply Permutation_refl.
Qed.

Lemma to_tt_perm s : Permutation (to_tt s) (flat_map entry (back_map s)).
Proof. unfold to_tt, back_map. eapply Permutation_trans; [apply to_tt_fold_perm|]. rewrite app_nil_r. apply Permutation_refl. Qed.

Lemma insert_tt_sorted x : forall l, sorted_by_start l -> sorted_by_start (insert_tt x l).
Proof.
  induction l as [|y r IH]; intros H; [exact I|].
  cbn [insert_tt]. destruct (Qlt_bool (fst (fst x)) (fst (fst y))) eqn:E.
  - apply Qlt_bool_iff in E. split; [lra | exact H].
  - apply Qlt_bool_false in E. destruct r as [|z r'].
    + split; [exact E | exact I].
    + destruct H as [H1 H2]. specialize (IH H2). cbn [insert_tt] in IH |- *.
      destruct (Qlt_bool (fst (fst x)) (fst (fst z))); (split; [assumption|exact IH]).
Qed.

Lemma to_tt_sorted s : sorted_by_start (to_tt s).
Proof.
  unfold to_tt. generalize (fold_left tt_collect (distances s) []). intros m.
  assert (H : sorted_by_start []) by exact I. revert H. generalize (@nil ttstep).
  induction m as [|[k0 [so eo]] m IH]; intros acc H; [exact H|].
  cbn [fold_left fst snd]. apply IH. destruct so; [apply insert_tt_sorted; exact H | exact H].
Qed.

Lemma entry_steps : forall (m : amap) k, In k (map step_of (flat_map entry m)) -> In k (keys m).
Proof.
  induction m as [|kv m IH]; intros k H; simpl in *; [exact H|].
  rewrite map_app, in_app_iff in H. destruct H as [H|H]; [|right; apply IH; exact H].
  unfold entry in H. destruct (fst (snd kv)); [|destruct H]. destruct H as [<-|[]]. left. reflexivity.
Qed.

Lemma entry_nodup : forall (m : amap), NoDup (keys m) -> NoDup (map step_of (flat_map entry m)).
Proof.
  induction m as [|kv m IH]; intros H; simpl; [constructor|]. inversion H as [|? ? Hni Hn]; subst.
  rewrite map_app. unfold entry at 1. destruct (fst (snd kv)); simpl; [|apply IH; exact Hn].
  constructor; [|apply IH; exact Hn]. intros HI. apply Hni. apply entry_steps. exact HI.
Qed.

Lemma tt_find_in : forall p x, NoDup (map step_of p) -> In x p -> tt_find (step_of x) p = Some x.
Proof.
  induction p as [|y p IH]; intros x Hn HI; [destruct HI|]. simpl. inversion Hn as [|? ? Hni Hn']; subst.
  destruct HI as [->|HI]; [rewrite N.eqb_refl; reflexivity|].
  destruct (N.eqb_spec (step_of y) (step_of x)) as [E|_]; [|apply IH; assumption].
  exfalso. apply Hni. rewrite E. apply in_map. exact HI.
Qed.

(* the entries of the time-triggered plan, read off _distances *)
Lemma to_tt_in s : NoDup (keys (s_dist s)) -> forall st k du,
  In (st, k, du) (to_tt s) <->
  exists q1, find (snode k) (s_dist s) = Some q1 /\ st = - q1 /\
             du = match find (enode k) (s_dist s) with Some q2 => Some (- q2 - - q1) | None => None end.
Proof.
  intros Hn st k du.
  assert (Hget : forall k, amap_get k (back_map s) = (oneg (find (snode k) (s_dist s)), oneg (find (enode k) (s_dist s)))).
  { intros k0. unfold back_map, distances. rewrite collect_get by exact Hn. simpl.
    destruct (find (snode k0) (s_dist s)), (find (enode k0) (s_dist s)); reflexivity. }
  assert (Hnm : NoDup (keys (back_map s))) by (apply collect_nodup; constructor).
  split.
  - intros HI. apply (Permutation_in _ (to_tt_perm s)) in HI. apply in_flat_map in HI.
    destruct HI as ([k0 [so eo]] & Hm & He). unfold entry in He. simpl in He.
    destruct so as [st0|]; [|destruct He]. destruct He as [E|[]]. inversion E; subst. clear E.
    pose proof (find_in_nodup _ _ _ Hnm Hm) as Hf. pose proof (Hget k) as Hg. rewrite amap_get_find, Hf in Hg.
    inversion Hg as [[G1 G2]]. destruct (find (snode k) (s_dist s)) as [q1|]; [|discriminate]. simpl in G1. inversion G1; subst.
    exists q1. split; [reflexivity|]. split; [reflexivity|]. destruct (find (enode k) (s_dist s)); reflexivity.
  - intros (q1 & F1 & -> & ->). apply (Permutation_in _ (Permutation_sym (to_tt_perm s))). apply in_flat_map.
    assert (Hk : In k (keys (back_map s))).
    { unfold back_map, distances. apply collect_keys. right. left. apply find_some_in. congruence. }
    apply find_some_in in Hk. destruct (find k (back_map s)) as [v|] eqn:Fv; [|congruence].
    exists (k, v). split; [apply find_some_in_pair; exact Fv|].
    pose proof (Hget k) as Hg. rewrite amap_get_find, Fv, F1 in Hg. subst v. unfold entry. simpl.
    destruct (find (enode k) (s_dist s)); simpl; left; reflexivity.
Qed.

Lemma to_tt_nodup s : NoDup (keys (s_dist s)) -> NoDup (map step_of (to_tt s)).
Proof.
  intros Hn. eapply Permutation_NoDup; [apply Permutation_sym, Permutation_map, to_tt_perm|].
  apply entry_nodup. apply collect_nodup. constructor.
Qed.
(* ------------------------------------------------------------------ G. GLOBAL_START is at time 0 in the earliest schedule *)
Lemma init_adds_nodes cs x y bb : In (x, y, bb) (init_adds cs) -> init_node cs x /\ init_node cs y.
Proof.
  intros H. assert (Ho : In (IAdd (x, y, bb)) (init_ops cs)).
  { destruct H as [E|H]; [left; rewrite E; reflexivity | right].
    apply in_flat_map in H. destruct H as ([[[a lb] ub] b] & Hin & H). apply in_flat_map. exists (a, lb, ub, b). split; [exact Hin|].
    simpl in H |- *. rewrite app_assoc in H. apply in_app_or in H. apply in_or_app. destruct H as [H|H].
    - left. apply in_map. exact H.
    - right. unfold interval_ops. destruct lb, ub; try (apply in_map; exact H). destruct H. }
  split; eapply init_ops_nodes; try exact Ho; simpl; auto.
Qed.

Lemma init_node_lower cs x : init_node cs x -> x = start_plan \/ In (start_plan, x, - 0) (init_adds cs).
Proof.
  intros [->|[->|H]]; [left; reflexivity | right; left; reflexivity |].
  destruct (N.eqb_spec x start_plan) as [->|Hne]; [left; reflexivity | right].
  apply in_flat_map in H. destruct H as ([[[a lb] ub] b] & Hin & H). right. apply in_flat_map. exists (a, lb, ub, b).
  split; [exact Hin|]. simpl. assert (Hna : In (start_plan, x, - 0) (node_adds x)).
  { unfold node_adds. destruct (N.eqb_spec x start_plan); [contradiction|]. left. reflexivity. }
  simpl in H. destruct H as [<-|[<-|[]]]; [apply in_or_app; left | apply in_or_app; right; apply in_or_app; left]; exact Hna.
Qed.

Definition in_adds (n : N) (A : list cstr) : bool := existsb (fun c => (fst (fst c) =? n)%N || (snd (fst c) =? n)%N) A.

Lemma in_adds_l x y b A : In (x, y, b) A -> in_adds x A = true /\ in_adds y A = true.
Proof.
  intros H. split; apply existsb_exists; exists (x, y, b); (split; [exact H|]); simpl; rewrite N.eqb_refl; [reflexivity | apply orb_true_r].
Qed.

Lemma model_start_zero fuel cs s : stn_plan_init fuel cs = Some s -> check_stn s = true -> model_of s start_plan == 0.
Proof.
  intros H Hs. destruct (back_times_solve _ _ _ H Hs) as (_ & Hnn & Hleast).
  unfold stn_plan_init in H. destruct (stn_model_least_nonneg fuel 0 _ s (Qeq_refl 0) H Hs) as (Hsol & _ & _).
  set (m := model_of s) in *. set (A := init_adds cs) in *.
  set (t := fun x => if in_adds x A then m x - m start_plan else m x).
  assert (Hlow : forall x, in_adds x A = true -> m start_plan <= m x).
  { intros x Hx. apply existsb_exists in Hx. destruct Hx as ([[a b] bb] & HI & Hor). simpl in Hor.
    destruct (init_adds_nodes cs a b bb HI) as [Na Nb].
    assert (Nx : init_node cs x).
    { apply orb_true_iff in Hor. destruct Hor as [E|E]; apply N.eqb_eq in E; subst; assumption. }
    destruct (init_node_lower cs x Nx) as [->|HL]; [lra|]. specialize (Hsol _ HL). simpl in Hsol. fold m in Hsol. lra. }
  assert (Ht : nonneg t).
  { intros x. unfold t. destruct (in_adds x A) eqn:E; [specialize (Hlow x E); lra | apply Hnn]. }
  assert (Hts : solution t A).
  { intros [[x y] b] HI. destruct (in_adds_l _ _ _ _ HI) as [Ex Ey]. simpl. unfold t. rewrite Ex, Ey.
    specialize (Hsol _ HI). simpl in Hsol. fold m in Hsol. lra. }
  specialize (Hleast t Ht Hts start_plan). fold m in Hleast. unfold t in Hleast.
  assert (E0 : in_adds start_plan A = true) by (apply (in_adds_l start_plan end_plan (- 0)); left; reflexivity).
  rewrite E0 in Hleast. specialize (Hnn start_plan). fold m in Hnn. lra.
Qed.

(* ------------------------------------------------------------------ H. the main lemma about the back conversion *)
Lemma mentioned_in n cs : mentioned n cs = true <-> In n (nodes_of cs).
Proof.
  unfold mentioned. rewrite existsb_exists. split; [intros (x & HI & E); apply N.eqb_eq in E; subst; exact HI | intros H; exists n; split; [exact H | apply N.eqb_refl]].
Qed.

Lemma init_adds_mentions cs n : init_node cs n -> exists x y b, In (x, y, b) (init_adds cs) /\ (x = n \/ y = n).
Proof.
  intros H. destruct (init_node_lower cs n H) as [->|HL].
  - exists start_plan, end_plan, (- 0). split; [left; reflexivity | left; reflexivity].
  - exists start_plan, n, (- 0). split; [exact HL | right; reflexivity].
Qed.

Lemma sat_pcon_ext t t' c : (forall n, In n (pcon_nodes c) -> t n == t' n) -> sat_pcon t c -> sat_pcon t' c.
Proof.
  destruct c as [[[a lb] ub] b]. intros He [H1 H2]. pose proof (He a (or_introl eq_refl)) as Ea.
  pose proof (He b (or_intror (or_introl eq_refl))) as Eb. unfold sat_pcon. split.
  - destruct lb; [|exact I]. rewrite <- Ea, <- Eb. exact H1.
  - destruct ub; [|exact I]. rewrite <- Ea, <- Eb. exact H2.
Qed.

Lemma back_convert_facts fuel cs s :
  back_init fuel cs = Some s -> check_stn s = true -> starts_present cs = true ->
  exists plan, back_convert s = BackPlan plan /\ back_facts cs s plan.
Proof.
  intros Hb Hs Hsp.
  pose proof (back_init_kinv _ _ _ Hb) as [[Hnd Hkeys] _].
  pose proof (back_init_sat_eq _ _ _ Hb Hs) as Hp.
  pose proof (stn_plan_init_inv _ _ _ Hp) as Hinv.
  pose proof (model_start_zero _ _ _ Hp Hs) as Hz.
  destruct (back_times_solve _ _ _ Hp Hs) as (_ & Hnn & _).
  assert (Hknown : forall n, init_node cs n -> find n (s_dist s) <> None).
  { intros n Hn. destruct (init_adds_mentions cs n Hn) as (x & y & b & HI & Hor).
    destruct Hinv as [_ Hi]. unfold check_stn in Hs. rewrite Hs in Hi. destruct (i_known _ _ Hi _ _ _ HI) as [Kx Ky].
    destruct Hor; subst; assumption. }
  assert (Hmodel : forall n q, find n (s_dist s) = Some q -> model_of s n = - q).
  { intros n q Hf. unfold model_of, getd. rewrite Hf. reflexivity. }
  assert (Hsn : forall k, find (snode k) (s_dist s) <> None <-> mentioned (snode k) cs = true).
  { intros k. rewrite mentioned_in. split.
    - intros Hf. apply find_some_in in Hf. destruct (Hkeys _ Hf) as [E|[E|E]]; [unfold snode, start_plan in E; lia | unfold snode, end_plan in E; lia | exact E].
    - intros HI. apply Hknown. right. right. exact HI. }
  assert (Hen : forall k, find (enode k) (s_dist s) <> None <-> mentioned (enode k) cs = true).
  { intros k. rewrite mentioned_in. split.
    - intros Hf. apply find_some_in in Hf. destruct (Hkeys _ Hf) as [E|[E|E]]; [unfold enode, start_plan in E; lia | unfold enode, end_plan in E; lia | exact E].
    - intros HI. apply Hknown. right. right. exact HI. }
  assert (Hes : forall k, mentioned (enode k) cs = true -> mentioned (snode k) cs = true).
  { intros k Hm. apply mentioned_in in Hm. unfold starts_present in Hsp. rewrite forallb_forall in Hsp.
    specialize (Hsp _ Hm). destruct (enode_idx k) as (_ & E2 & E3). rewrite E2, E3, enode_pred in Hsp. exact Hsp. }
  exists (to_tt s). split.
  - unfold back_convert.
    assert (H1 : forallb (fun kv : N * Q => Qle_bool (snd kv) 0) (distances s) = true).
    { apply forallb_forall. intros [k q] HI. simpl. apply Qle_bool_iff. unfold distances in HI.
      pose proof (find_in_nodup _ _ _ Hnd HI) as Hf. destruct Hinv as [_ Hi]. unfold check_stn in Hs. rewrite Hs in Hi.
      pose proof (i_neg _ _ Hi k) as Hn. unfold getd in Hn. rewrite Hf in Hn. exact Hn. }
    assert (H2 : forallb has_start (back_map s) = true).
    { apply forallb_forall. intros [k v] HI. unfold has_start. simpl.
      assert (Hnm : NoDup (keys (back_map s))) by (apply collect_nodup; constructor).
      pose proof (find_in_nodup _ _ _ Hnm HI) as Hf.
      assert (Hk : In k (keys (back_map s))) by (apply (in_map fst) in HI; exact HI).
      unfold back_map, distances in Hk. apply collect_keys in Hk. destruct Hk as [[]|Hk].
      assert (Hst : find (snode k) (s_dist s) <> None).
      { destruct Hk as [Hk|Hk]; [apply find_some_in; exact Hk|]. apply Hsn, Hes, Hen, find_some_in. exact Hk. }
      pose proof (collect_get (s_dist s) [] k Hnd) as Hg. change (fold_left tt_collect (s_dist s) []) with (back_map s) in Hg.
      rewrite amap_get_find, Hf in Hg. rewrite Hg. simpl. destruct (find (snode k) (s_dist s)); [reflexivity | congruence]. }
    rewrite H1, H2. reflexivity.
  - pose proof (to_tt_in s Hnd) as Hin. pose proof (to_tt_nodup s Hnd) as Hnp.
    assert (Hsteps : forall k, In k (map step_of (to_tt s)) <-> mentioned (snode k) cs = true).
    { intros k. rewrite <- Hsn. split.
      - intros HI. apply in_map_iff in HI. destruct HI as ([[st k0] du] & E & HI). unfold step_of in E. simpl in E. subst k0.
        apply Hin in HI. destruct HI as (q1 & F1 & _). congruence.
      - intros Hf. destruct (find (snode k) (s_dist s)) as [q1|] eqn:F1; [|congruence].
        apply in_map_iff. eexists (_, k, _). split; [reflexivity|]. apply Hin. exists q1. split; [exact F1|]. split; reflexivity. }
    constructor.
    + apply to_tt_sorted.
    + exact Hnp.
    + exact Hsteps.
    + intros st k du HI. apply Hin in HI. destruct HI as (q1 & F1 & -> & ->).
      rewrite (Hmodel _ _ F1). split; [reflexivity|]. split; [rewrite <- (Hmodel _ _ F1); apply Hnn|].
      destruct (find (enode k) (s_dist s)) as [q2|] eqn:F2.
      * split; [apply Hen; congruence|]. rewrite (Hmodel _ _ F2). reflexivity.
      * destruct (mentioned (enode k) cs) eqn:E; [|reflexivity]. apply Hen in E. congruence.
    + intros n Hn. unfold tt_time.
      destruct (N.eqb_spec n start_plan) as [->|N0]; [symmetry; exact Hz|].
      destruct (N.eqb_spec n end_plan) as [->|N1]; [reflexivity|].
      assert (Hn2 : (2 <= n)%N) by (unfold start_plan, end_plan in *; lia).
      pose proof (node_split n Hn2) as Hsplit. set (k := ((n - 2) / 2)%N) in *.
      destruct (find n (s_dist s)) as [q|] eqn:Fn; [|exfalso; apply (Hknown n Hn); exact Fn].
      destruct (N.even n) eqn:Ev.
      * assert (HI : In (- q, k, match find (enode k) (s_dist s) with Some q2 => Some (- q2 - - q) | None => None end) (to_tt s)).
        { apply Hin. exists q. rewrite <- Hsplit. auto. }
        pose proof (tt_find_in _ _ Hnp HI) as Hf. unfold step_of in Hf at 1. simpl in Hf. rewrite Hf.
        rewrite (Hmodel _ _ Fn). reflexivity.
      * assert (Hm : mentioned (snode k) cs = true).
        { apply Hes. apply Hen. rewrite <- Hsplit. congruence. }
        apply Hsn in Hm. destruct (find (snode k) (s_dist s)) as [q1|] eqn:F1; [|congruence].
        assert (HI : In (- q1, k, Some (- q - - q1)) (to_tt s)).
        { apply Hin. exists q1. split; [exact F1|]. split; [reflexivity|]. rewrite <- Hsplit, Fn. reflexivity. }
        pose proof (tt_find_in _ _ Hnp HI) as Hf. unfold step_of in Hf at 1. simpl in Hf. rewrite Hf.
        rewrite (Hmodel _ _ Fn). ring.
Qed.
(* ------------------------------------------------------------------ I. property-level statements *)
Lemma back_times_satisfy_stn fuel cs s :
  back_init fuel cs = Some s -> check_stn s = true -> starts_present cs = true ->
  exists plan, back_convert s = BackPlan plan /\ back_facts cs s plan /\
    (forall c, In c cs -> sat_pcon (tt_time plan (model_of s end_plan)) c) /\
    (forall st k d, In (st, k, Some d) plan -> dur_nonneg_in k cs -> 0 <= d) /\
    (forall t, nonneg t -> solution t (init_adds cs) ->
       forall n, init_node cs n -> tt_time plan (model_of s end_plan) n <= t n).
Proof.
  intros Hb Hs Hsp. destruct (back_convert_facts _ _ _ Hb Hs Hsp) as (plan & Hc & Hf).
  pose proof (back_init_sat_eq _ _ _ Hb Hs) as Hp.
  destruct (back_times_solve _ _ _ Hp Hs) as (Hsat & Hnn & Hleast).
  exists plan. split; [exact Hc|]. split; [exact Hf|]. split; [|split].
  - intros c Hin. apply (sat_pcon_ext (model_of s)); [|apply Hsat; exact Hin].
    intros n Hn. symmetry. apply (bf_time _ _ _ Hf). right. right. apply in_flat_map. exists c. split; assumption.
  - intros st k d HI (l & ub & Hin & Hl). destruct (bf_entry _ _ _ Hf _ _ _ HI) as (E1 & _ & _ & E2).
    destruct (Hsat _ Hin) as [H1 _]. simpl in H1. lra.
  - intros t Ht Hts n Hn. rewrite (bf_time _ _ _ Hf n Hn). apply Hleast; assumption.
Qed.

(* an inconsistent STN plan has no schedule at all: whatever plan comes out of the back conversion violates a constraint *)
Lemma back_inconsistent_no_schedule fuel cs s :
  back_init fuel cs = Some s -> check_stn s = false ->
  forall t, (forall n, node_ok t n) -> ~ (forall c, In c cs -> sat_pcon t c).
Proof.
  intros Hb Hs t Hn Hc. pose proof (back_init_consistent_iff _ _ _ Hb) as [_ H].
  rewrite H in Hs; [discriminate|]. exists t. apply init_adds_solution; assumption.
Qed.

(* ... but _convert_to_time_triggered never looks at is_consistent(): witness  a.start + 1 <= b.start,
   b.start + 1 <= a.start, b.end = b.start + 3  (a = action instance 0, b = action instance 1) *)
Definition wit_inconsistent : list pcon :=
  [ (2%N, Some 1, None, 4%N); (4%N, Some 1, None, 2%N); (4%N, Some 3, Some 3, 5%N) ].
Definition wit_inconsistent_plan : list ttstep := [ (- - (2), 0%N, None); (- - (3), 1%N, None) ].
Definition wit_run := back_of_constraints 100 wit_inconsistent.

Lemma inconsistent_rejected_refuted :
  exists cs s plan, back_init 100 cs = Some s /\ check_stn s = false /\ back_convert s = BackPlan plan /\ plan <> [].
Proof.
  exists wit_inconsistent. eexists. exists [ (2, 0%N, None); (3, 1%N, None) ].
  split; [vm_compute; reflexivity|]. split; [reflexivity|]. split; [vm_compute; reflexivity | discriminate].
Qed.

(* nothing in an STN plan forces END >= START: START of action instance 0 at least 5 after GLOBAL_START, END only >= 0 *)
Definition wit_negative : list pcon := [ (0%N, Some 5, None, 2%N); (0%N, Some 0, None, 3%N) ].
Lemma negative_duration_possible :
  exists s, back_init 100 wit_negative = Some s /\ check_stn s = true /\ starts_present wit_negative = true /\
            back_convert s = BackPlan [ (5, 0%N, Some (- (5))) ].
Proof. eexists. split; [vm_compute; reflexivity|]. split; [reflexivity|]. split; vm_compute; reflexivity. Qed.

(* an END node without its START node: the implementation raises *)
Lemma end_without_start_raises :
  exists s, back_init 100 [ (0%N, Some 5, None, 3%N) ] = Some s /\ check_stn s = true /\ back_convert s = BackError.
Proof. eexists. split; [vm_compute; reflexivity|]. split; vm_compute; reflexivity. Qed.
(* ------------------------------------------------------------------ J. the nodes of the constraints generated by _convert_to_stn *)
Definition dict_all (Q : N -> oq * oq * N -> Prop) (m : cdict) : Prop :=
  forall k l v, In (k, l) m -> In v l -> Q k v.
Definition no_empty (m : cdict) : Prop := forall k l, In (k, l) m -> l <> [].
Definition din (k : N) (v : oq * oq * N) (m : cdict) : Prop := exists l, In (k, l) m /\ In v l.

Lemma dict_all_append (Q : N -> oq * oq * N -> Prop) k v : forall m, dict_all Q m -> Q k v -> dict_all Q (dict_append k v m).
Proof.
  induction m as [|[k' l'] m IH]; intros Hm Hv; simpl.
  - intros k0 l0 v0 [H|[]] Hin. inversion H; subst. destruct Hin as [<-|[]]. exact Hv.
  - destruct (N.eqb_spec k k').
    + subst. intros k0 l0 v0 [H|H] Hin.
      * inversion H; subst. apply in_app_or in Hin. destruct Hin as [Hin|[<-|[]]]; [|exact Hv].
        eapply Hm; [left; reflexivity | exact Hin].
      * eapply Hm; [right; exact H | exact Hin].
    + intros k0 l0 v0 [H|H] Hin.
      * inversion H; subst. eapply Hm; [left; reflexivity | exact Hin].
      * eapply (IH (fun a b c H1 H2 => Hm a b c (or_intror H1) H2) Hv); eauto.
Qed.

Lemma no_empty_append k v : forall m, no_empty m -> no_empty (dict_append k v m).
Proof.
  induction m as [|[k' l'] m IH]; intros Hm; simpl.
  - intros k0 l0 [H|[]]. inversion H; subst. discriminate.
  - destruct (N.eqb_spec k k').
    + intros k0 l0 [H|H]; [inversion H; subst; destruct l'; discriminate | eapply Hm; right; exact H].
    + intros k0 l0 [H|H]; [eapply Hm; left; exact H | eapply (IH (fun a b H1 => Hm a b (or_intror H1))); exact H].
Qed.

Lemma din_append_new k v : forall m, din k v (dict_append k v m).
Proof.
  induction m as [|[k' l'] m IH]; simpl.
  - exists [v]. split; left; reflexivity.
  - destruct (N.eqb_spec k k').
    + subst. exists (l' ++ [v]). split; [left; reflexivity | apply in_or_app; right; left; reflexivity].
    + destruct IH as (l & H1 & H2). exists l. split; [right; exact H1 | exact H2].
Qed.

Lemma din_append_old k v k0 v0 : forall m, din k0 v0 m -> din k0 v0 (dict_append k v m).
Proof.
  induction m as [|[k' l'] m IH]; intros (l & H1 & H2); [destruct H1|]. simpl.
  destruct (N.eqb_spec k k').
  - subst. destruct H1 as [E|H1].
    + inversion E; subst. exists (l ++ [v]). split; [left; reflexivity | apply in_or_app; left; exact H2].
    + exists l. split; [right; exact H1 | exact H2].
  - destruct H1 as [E|H1].
    + exists l. split; [left; exact E | exact H2].
    + destruct (IH (ex_intro _ l (conj H1 H2))) as (l1 & G1 & G2). exists l1. split; [right; exact G1 | exact G2].
Qed.

Lemma flatten_din m k v : din k v m -> In (mk_pcon k v) (flatten m).
Proof.
  intros (l & H1 & H2). unfold flatten. apply in_flat_map. exists (k, l). split; [exact H1|]. simpl.
  destruct l as [|v0 l]; [destruct H2|].
  change (In (mk_pcon k v) (map (fun v1 : oq * oq * N => (k, fst (fst v1), snd (fst v1), snd v1)) (v0 :: l))).
  apply in_map_iff. exists v. split; [reflexivity | exact H2].
Qed.

Lemma flatten_all (Q : N -> oq * oq * N -> Prop) m : no_empty m -> dict_all Q m ->
  forall c, In c (flatten m) -> exists k v, c = mk_pcon k v /\ Q k v.
Proof.
  intros Hne Hm c H. unfold flatten in H. apply in_flat_map in H. destruct H as ([k l] & Hkl & Hc). simpl in Hc.
  destruct l as [|v0 l]; [exfalso; eapply Hne; eauto|].
  change (In c (map (fun v : oq * oq * N => (k, fst (fst v), snd (fst v), snd v)) (v0 :: l))) in Hc.
  apply in_map_iff in Hc. destruct Hc as (v & <- & Hv). exists k, v. split; [reflexivity | exact (Hm _ _ _ Hkl Hv)].
Qed.

(* the nodes that can occur: GLOBAL_START, START of a plan step, END of a durative plan step *)
Definition plan_node (plan : list step) (n : N) : Prop :=
  n = start_plan \/
  exists k stp, nth_error plan k = Some stp /\ (n = start_node (S k) \/ (n = end_node (S k) /\ st_dur stp <> None)).

Definition nodes_ok (plan : list step) (k : N) (v : oq * oq * N) : Prop := plan_node plan k /\ plan_node plan (snd v).

Lemma gen_node effs conds plan g st : nth_error (mock_step effs conds :: plan) g = Some st -> plan_node plan (start_node g).
Proof.
  destruct g as [|k]; [left; reflexivity|]. simpl. intros H. right. exists k, st. split; [exact H | left; reflexivity].
Qed.

Lemma base_props effs conds plan :
  forall chain g m, (forall i st, nth_error chain i = Some st -> nth_error (mock_step effs conds :: plan) (g + i) = Some st) ->
    (dict_all (nodes_ok plan) m -> dict_all (nodes_ok plan) (base_constraints g chain m)) /\
    (no_empty m -> no_empty (base_constraints g chain m)) /\
    (forall k v, din k v m -> din k v (base_constraints g chain m)) /\
    (forall i st, nth_error chain i = Some st ->
       match st_dur st, (g + i)%nat with
       | None, gi => din start_plan (Some 0, None, start_node gi) (base_constraints g chain m)
       | Some d, S j => din (start_node (S j)) (Some d, Some d, end_node (S j)) (base_constraints g chain m)
       | Some _, O => True
       end).
Proof.
  induction chain as [|st chain IH]; intros g m Hch.
  - simpl. split; [auto|]. split; [auto|]. split; [auto|]. intros [|i] st H; discriminate.
  - assert (Hch' : forall i st', nth_error chain i = Some st' -> nth_error (mock_step effs conds :: plan) (S g + i) = Some st').
    { intros i st' Hi. replace (S g + i)%nat with (g + S i)%nat by lia. apply Hch. exact Hi. }
    pose proof (Hch 0%nat st eq_refl) as H0. rewrite Nat.add_0_r in H0.
    cbn [base_constraints].
    set (m' := match st_dur st with
               | Some d => match g with O => m | S _ => dict_append (start_node g) (Some d, Some d, end_node g) m end
               | None => dict_append start_plan (Some 0, None, start_node g) m
               end).
    destruct (IH (S g) m' Hch') as (I1 & I2 & I3 & I4).
    assert (A1 : dict_all (nodes_ok plan) m -> dict_all (nodes_ok plan) m').
    { intros Hm. unfold m'. destruct (st_dur st) as [d|] eqn:Ed.
      - destruct g as [|j]; [exact Hm|]. apply dict_all_append; [exact Hm|]. split; [eapply gen_node; exact H0|].
        simpl. simpl in H0. right. exists j, st. split; [exact H0|]. right. split; [reflexivity | congruence].
      - apply dict_all_append; [exact Hm|]. split; [left; reflexivity | eapply gen_node; exact H0]. }
    assert (A2 : no_empty m -> no_empty m').
    { intros Hm. unfold m'. destruct (st_dur st); [destruct g; [exact Hm|]|]; apply no_empty_append; exact Hm. }
    assert (A3 : forall k v, din k v m -> din k v m').
    { intros k v Hd. unfold m'. destruct (st_dur st); [destruct g; [exact Hd|]|]; apply din_append_old; exact Hd. }
    split; [auto|]. split; [auto|]. split; [auto|].
    intros [|i] st' Hi.
    + simpl in Hi. inversion Hi; subst st'. rewrite Nat.add_0_r. destruct (st_dur st) as [d|] eqn:Ed.
      * destruct g as [|j]; [exact I|]. apply I3. unfold m'. apply din_append_new.
      * apply I3. unfold m'. apply din_append_new.
    + simpl in Hi. specialize (I4 i st' Hi). replace (g + S i)%nat with (S g + i)%nat by lia. exact I4.
Qed.

Lemma add_edges_props eps effs conds plan evs : (forall e, In e evs -> ev_wf (mock_step effs conds :: plan) e) ->
  forall edges m,
    (dict_all (nodes_ok plan) m -> dict_all (nodes_ok plan) (add_edges eps evs edges m)) /\
    (no_empty m -> no_empty (add_edges eps evs edges m)) /\
    (forall k v, din k v m -> din k v (add_edges eps evs edges m)).
Proof.
  intros Hwf. induction edges as [|[i j] edges IH]; intros m; [simpl; auto|].
  cbn [add_edges].
  set (m' := match nth_error evs i, nth_error evs j with
             | Some a, Some b => match edge_constraint eps a b with Some (k, v) => dict_append k v m | None => m end
             | _, _ => m
             end).
  destruct (IH m') as (I1 & I2 & I3).
  assert (A : (dict_all (nodes_ok plan) m -> dict_all (nodes_ok plan) m') /\ (no_empty m -> no_empty m') /\
              (forall k v, din k v m -> din k v m')).
  { unfold m'. destruct (nth_error evs i) as [a|] eqn:Ea; [|auto]. destruct (nth_error evs j) as [b|] eqn:Eb; [|auto].
    destruct (edge_constraint eps a b) as [[k v]|] eqn:Ee; [|auto].
    split; [|split; [intros; apply no_empty_append; assumption | intros; apply din_append_old; assumption]].
    intros Hm. apply dict_all_append; [exact Hm|].
    destruct (Hwf a (nth_error_In _ _ Ea)) as (sa & Ha & _). destruct (Hwf b (nth_error_In _ _ Eb)) as (sb & Hb & _).
    unfold edge_constraint in Ee. destruct (Nat.eqb _ _); [discriminate|].
    destruct (Qeq_bool _ _); inversion Ee; subst; (split; [eapply gen_node; eassumption | simpl; eapply gen_node; eassumption]). }
  destruct A as (A1 & A2 & A3). split; [auto|]. split; auto.
Qed.

Lemma snode_start_node i : snode (N.of_nat i) = start_node (S i).
Proof. reflexivity. Qed.
Lemma enode_end_node i : enode (N.of_nat i) = end_node (S i).
Proof. reflexivity. Qed.

Lemma plan_node_snode plan k : plan_node plan (snode k) -> exists stp, nth_error plan (N.to_nat k) = Some stp.
Proof.
  intros [E|(i & stp & Hn & [E|[E _]])].
  - unfold snode, start_plan in E. lia.
  - rewrite <- snode_start_node in E. apply snode_inj in E. subst k. rewrite Nat2N.id. eauto.
  - rewrite <- enode_end_node in E. apply snode_enode in E. destruct E.
Qed.

Lemma plan_node_enode plan k : plan_node plan (enode k) -> exists stp, nth_error plan (N.to_nat k) = Some stp /\ st_dur stp <> None.
Proof.
  intros [E|(i & stp & Hn & [E|[E Hd]])].
  - unfold enode, start_plan in E. lia.
  - rewrite <- snode_start_node in E. symmetry in E. apply snode_enode in E. destruct E.
  - rewrite <- enode_end_node in E. apply enode_inj in E. subst k. rewrite Nat2N.id. eauto.
Qed.

(* the constraints of the converted plan: which nodes occur *)
Lemma conv_nodes eps effs conds plan edges :
  let cs := flatten (conv_constraints eps (mock_step effs conds) plan edges) in
  (forall n, In n (nodes_of cs) -> plan_node plan n) /\
  (forall i stp, nth_error plan i = Some stp ->
     In (start_node (S i)) (nodes_of cs) /\
     match st_dur stp with
     | Some d => In (start_node (S i), Some d, Some d, end_node (S i)) cs
     | None => True
     end).
Proof.
  intros cs. unfold cs, conv_constraints.
  set (mock := mock_step effs conds). set (evs := plan_events eps mock plan).
  assert (Hch : forall i st, nth_error (mock :: plan) i = Some st -> nth_error (mock :: plan) (0 + i) = Some st) by (intros; assumption).
  destruct (base_props effs conds plan (mock :: plan) 0%nat [] Hch) as (B1 & B2 & _ & B4).
  assert (Hwf : forall e, In e evs -> ev_wf (mock :: plan) e) by (intros e He; eapply plan_events_wf; exact He).
  destruct (add_edges_props eps effs conds plan evs Hwf edges (base_constraints 0 (mock :: plan) [])) as (E1 & E2 & E3).
  assert (Hall : dict_all (nodes_ok plan) (add_edges eps evs edges (base_constraints 0 (mock :: plan) []))).
  { apply E1, B1. intros k l v []. }
  assert (Hne : no_empty (add_edges eps evs edges (base_constraints 0 (mock :: plan) []))).
  { apply E2, B2. intros k l []. }
  split.
  - intros n Hn. apply in_flat_map in Hn. destruct Hn as (c & Hc & Hn).
    destruct (flatten_all _ _ Hne Hall c Hc) as (k & v & -> & [Q1 Q2]).
    unfold mk_pcon in Hn. simpl in Hn. destruct Hn as [<-|[<-|[]]]; assumption.
  - intros i stp Hi. specialize (B4 (S i) stp Hi). simpl in B4.
    destruct (st_dur stp) as [d|] eqn:Ed.
    + apply E3 in B4. apply flatten_din in B4. split; [|exact B4].
      apply in_flat_map. eexists. split; [exact B4|]. left. reflexivity.
    + apply E3 in B4. apply flatten_din in B4. split; [|exact I].
      apply in_flat_map. eexists. split; [exact B4|]. right. left. reflexivity.
Qed.

(* ------------------------------------------------------------------ K. back(forward(pi)) *)
Lemma back_forward_roundtrip eps effs conds plan edges fuel s :
  times_nonneg plan = true ->
  gap_ok eps (plan_events eps (mock_step effs conds) plan) = true ->
  edges_forward (length (plan_events eps (mock_step effs conds) plan)) edges = true ->
  convert_to_stn fuel eps (mock_step effs conds) plan edges = Some s ->
  let cs := flatten (conv_constraints eps (mock_step effs conds) plan edges) in
  check_stn s = true /\ back_init fuel cs = Some s /\
  exists bp, back_convert s = BackPlan bp /\ sorted_by_start bp /\ same_instances plan bp /\
    (forall c, In c cs -> sat_pcon (tt_time bp (model_of s end_plan)) c) /\
    (forall st k du, In (st, k, du) bp -> 0 <= st /\ st <= orig_time plan (snode k)).
Proof.
  intros Hnn Hg Hf Hc cs.
  destruct (roundtrip_partial (fun _ => edges) eps effs conds plan fuel s Hnn Hg Hf Hc) as (Hs & _ & Hsat & _ & Hle).
  unfold convert_to_stn in Hc. fold cs in Hc.
  pose proof (back_init_of_plan_init _ _ _ Hc Hs) as Hb.
  destruct (conv_nodes eps effs conds plan edges) as [N1 N2]. fold cs in N1, N2.
  assert (Hsp : starts_present cs = true).
  { unfold starts_present. apply forallb_forall. intros n Hn. destruct (N1 n Hn) as [->|(i & stp & Hi & [->|[-> Hd]])].
    - reflexivity.
    - rewrite <- snode_start_node. destruct (snode_idx (N.of_nat i)) as (_ & -> & _). rewrite orb_true_r. reflexivity.
    - rewrite <- enode_end_node, enode_pred, snode_start_node.
      apply orb_true_iff. right. apply mentioned_in. apply (N2 i stp Hi). }
  destruct (back_times_satisfy_stn fuel cs s Hb Hs Hsp) as (bp & Hbc & Hfacts & Hall & _ & _).
  split; [exact Hs|]. split; [exact Hb|]. exists bp. split; [exact Hbc|]. split; [apply (bf_sorted _ _ _ Hfacts)|].
  split; [|split; [exact Hall|]].
  - split; [apply (bf_nodup _ _ _ Hfacts)|]. split.
    + intros k. rewrite (bf_steps _ _ _ Hfacts), mentioned_in. split.
      * intros Hn. destruct (plan_node_snode plan k (N1 _ Hn)) as (stp & Hk). apply nth_error_Some. congruence.
      * intros Hlt. apply nth_error_Some in Hlt. destruct (nth_error plan (N.to_nat k)) as [stp|] eqn:Hk; [|congruence].
        destruct (N2 _ _ Hk) as [H1 _]. rewrite <- snode_start_node, N2Nat.id in H1. exact H1.
    + intros st k du HI. destruct (bf_entry _ _ _ Hfacts _ _ _ HI) as (E1 & _ & E3).
      assert (Hk : In k (map step_of bp)) by (apply in_map_iff; exists (st, k, du); split; [reflexivity | exact HI]).
      apply (bf_steps _ _ _ Hfacts) in Hk. apply mentioned_in in Hk.
      destruct (plan_node_snode plan k (N1 _ Hk)) as (stp & Hstp). exists stp. split; [exact Hstp|].
      destruct (N2 _ _ Hstp) as [_ H2]. rewrite <- snode_start_node, <- enode_end_node, N2Nat.id in H2.
      destruct (st_dur stp) as [d'|] eqn:Ed.
      * assert (Hm : mentioned (enode k) cs = true).
        { apply mentioned_in. apply in_flat_map. eexists. split; [exact H2|]. right. left. reflexivity. }
        destruct du as [d|]; [|congruence]. destruct E3 as [_ E3].
        destruct (Hsat _ H2) as [S1 S2]. simpl in S1, S2. lra.
      * destruct du as [d|]; [|exact I]. destruct E3 as [Hm _]. apply mentioned_in in Hm.
        destruct (plan_node_enode plan k (N1 _ Hm)) as (stp' & Hstp' & Hd). congruence.
  - intros st k du HI. destruct (bf_entry _ _ _ Hfacts _ _ _ HI) as (E1 & E2 & _).
    split; [exact E2|]. rewrite E1. apply Hle.
Qed.
(* ------------------------------------------------------------------ L. the plan converted back is StnPlan.retime *)
Lemma retime_from_nth s : forall plan k0 i stp,
  nth_error plan i = Some stp ->
  exists stp', nth_error (retime_from s k0 plan) i = Some stp' /\
               st_start stp' = model_of s (start_node (S (k0 + i))) /\ st_dur stp' = st_dur stp /\
               st_effs stp' = st_effs stp /\ st_conds stp' = st_conds stp /\ st_dyn stp' = st_dyn stp.
Proof.
  induction plan as [|st plan IH]; intros k0 i stp H; [destruct i; discriminate|].
  destruct i as [|i]; simpl in H.
  - inversion H; subst. eexists. split; [reflexivity|]. rewrite Nat.add_0_r. simpl. auto.
  - destruct (IH (S k0) i stp H) as (stp' & H1 & H2). exists stp'. split; [exact H1|].
    replace (k0 + S i)%nat with (S k0 + i)%nat by lia. exact H2.
Qed.

(* every entry of back(forward(pi)) is the step of [retime s pi] at the same position: same start (up to Qeq), same
   duration (up to Qeq), and [retime] keeps the action (effects, conditions) of the original step *)
Lemma back_forward_is_retime eps effs conds plan edges fuel s bp :
  times_nonneg plan = true ->
  gap_ok eps (plan_events eps (mock_step effs conds) plan) = true ->
  edges_forward (length (plan_events eps (mock_step effs conds) plan)) edges = true ->
  convert_to_stn fuel eps (mock_step effs conds) plan edges = Some s ->
  back_convert s = BackPlan bp ->
  length bp = length plan /\
  forall st k du, In (st, k, du) bp ->
    exists stp', nth_error (retime s plan) (N.to_nat k) = Some stp' /\ st == st_start stp' /\
      match du, st_dur stp' with Some d, Some d' => d == d' | None, None => True | _, _ => False end.
Proof.
  intros Hnn Hg Hf Hc Hbc.
  destruct (back_forward_roundtrip eps effs conds plan edges fuel s Hnn Hg Hf Hc) as (Hs & Hb & bp' & Hbc' & _ & Hsame & _ & _).
  rewrite Hbc in Hbc'. inversion Hbc'; subst bp'. clear Hbc'.
  destruct Hsame as (Hnd & Hsteps & Hent).
  pose proof (conv_nodes eps effs conds plan edges) as [N1 N2].
  set (cs := flatten (conv_constraints eps (mock_step effs conds) plan edges)) in *.
  assert (Hsp : starts_present cs = true).
  { unfold starts_present. apply forallb_forall. intros n Hn. destruct (N1 n Hn) as [->|(i & stp & Hi & [->|[-> Hd]])].
    - reflexivity.
    - rewrite <- snode_start_node. destruct (snode_idx (N.of_nat i)) as (_ & -> & _). rewrite orb_true_r. reflexivity.
    - rewrite <- enode_end_node, enode_pred, snode_start_node.
      apply orb_true_iff. right. apply mentioned_in. apply (N2 i stp Hi). }
  destruct (back_convert_facts fuel cs s Hb Hs Hsp) as (bp2 & Hbc2 & Hfacts). rewrite Hbc in Hbc2. inversion Hbc2; subst bp2.
  split.
  - (* the steps of bp are exactly 0 .. length plan - 1, without repetition *)
    assert (Hperm : Permutation (map N.to_nat (map step_of bp)) (seq 0 (length plan))).
    { apply NoDup_Permutation.
      - apply FinFun.Injective_map_NoDup; [intros a b E; apply N2Nat.inj; exact E | exact Hnd].
      - apply seq_NoDup.
      - intros x. rewrite in_seq. split.
        + intros HI. apply in_map_iff in HI. destruct HI as (k & <- & HI). apply Hsteps in HI. lia.
        + intros [_ Hx]. apply in_map_iff. exists (N.of_nat x). split; [apply Nat2N.id|]. apply Hsteps. rewrite Nat2N.id. exact Hx. }
    apply Permutation_length in Hperm. rewrite !map_length, seq_length in Hperm. exact Hperm.
  - intros st k du HI. destruct (Hent _ _ _ HI) as (stp & Hstp & Hdu).
    destruct (retime_from_nth s plan 0%nat _ _ Hstp) as (stp' & R1 & R2 & R3 & _).
    exists stp'. split; [exact R1|]. destruct (bf_entry _ _ _ Hfacts _ _ _ HI) as (E1 & _ & _).
    split.
    + rewrite R2, E1. simpl Nat.add. rewrite <- snode_start_node, N2Nat.id. reflexivity.
    + rewrite R3. exact Hdu.
Qed.
