(* C06 / C07, Layer A — StateInvariantsRemover and BoundedTypesRemover: proofs about Compilers/LayerA_Inv.v.
   Both compilers move a set M of state invariants (the state invariants themselves / the bounded-type constraints)
   from "checked in the successor of every step" to "precondition of every action and goal".  Along a run
   s0 -> s1 -> ... -> sn the original problem checks M in s1..sn, the compiled one in s0..s(n-1) (preconditions) and
   in sn (goal): the two verdicts differ exactly by "M holds in the initial state". *)
From Coq Require Import List ZArith NArith QArith Qcanon Bool Lia.
Import ListNotations.
Require Import UPV.Core.Expr UPV.Core.Eval UPV.Core.Interp UPV.Planning.Problem UPV.Planning.Sem.
Require Import UPV.Proofs.Eval_lemmas UPV.Proofs.Sem_proofs UPV.Proofs.Step_proofs.
Require Import UPV.Walkers.Subst.
Require Import UPV.Compilers.LayerA_Defs UPV.Compilers.LayerA_Quant UPV.Compilers.LayerA_Inv.
Require Import UPV.Proofs.LayerA_base UPV.Proofs.LayerA_Quant_proofs.
Local Open Scope nat_scope.

(* ------------------------------------------------------------------ conjunctions *)
Lemma holds_as_bool sc I x : holds sc I x = match as_bool (eval sc x I) with Some b => b | None => false end.
Proof. unfold holds. destruct (eval sc x I) as [[[|]| |]|]; reflexivity. Qed.

Lemma holds_EAnd sc I l : holds sc I (EAnd l) = all_hold sc I l.
Proof.
  unfold holds at 1. rewrite eval_EAnd.
  assert (G : match ebools sc I l with Some bs => forallb (fun b => b) bs | None => false end = all_hold sc I l).
  { induction l as [|x l IH]; [reflexivity|]. cbn [ebools].
    change (all_hold sc I (x :: l)) with (holds sc I x && all_hold sc I l). rewrite holds_as_bool, <- IH.
    destruct (as_bool (eval sc x I)) as [b|]; [|reflexivity].
    destruct (ebools sc I l) as [bs|]; [reflexivity | destruct b; reflexivity]. }
  rewrite <- G. destruct (ebools sc I l) as [bs|]; [|reflexivity]. destruct (forallb (fun b => b) bs); reflexivity.
Qed.

Lemma holds_mkAnd sc I l : holds sc I (mkAnd l) = all_hold sc I l.
Proof.
  destruct l as [|x [|y l]]; [reflexivity | | apply holds_EAnd].
  cbn [mkAnd]. change (all_hold sc I [x]) with (holds sc I x && true). rewrite andb_true_r. reflexivity.
Qed.

Lemma holds_conj_parts sc I c : all_hold sc I (conj_parts c) = holds sc I c.
Proof.
  destruct c; try (cbn [conj_parts]; match goal with |- all_hold _ _ [?x] = _ => change (all_hold sc I [x]) with (holds sc I x && true); apply andb_true_r end).
  cbn [conj_parts]. symmetry. apply holds_EAnd.
Qed.

Lemma holds_false sc I c : is_false c = true -> holds sc I c = false.
Proof. intros H. apply is_false_eq in H. subst. reflexivity. Qed.

(* ------------------------------------------------------------------ the generic argument *)
Section Generic.
  Variable smp : expr -> expr.
  Hypothesis Hsmp : smp_holds smp.
  Variables P P' : problem.
  Variable cond : expr.
  Variable M : list expr.

  Definition moved_ok (s : state) : bool := all_hold false (mk_interp P s []) M.

  Hypothesis Hobj : p_objs P' = p_objs P.
  Hypothesis Hif : p_ifun P' = p_ifun P.
  Hypothesis Hbf : forall f, is_bool_fluent P' f = is_bool_fluent P f.
  Hypothesis Hact : p_actions P' = map_actions (inv_action smp cond) (p_actions P).
  Hypothesis Hgoal : p_goals P' = inv_goals smp cond (p_goals P).
  Hypothesis Hinv : forall s, invariants_ok false P s = invariants_ok false P' s && moved_ok s.
  Hypothesis Hcond : forall s pars, holds false (mk_interp P s pars) cond = moved_ok s.
  Hypothesis Hu : unique_ids P.

  Lemma interp_same s s' pars : state_eq s s' -> interp_eq (mk_interp P' s' pars) (mk_interp P s pars).
  Proof.
    intros H. repeat split; cbn [mk_interp fl par var ifun objs]; try reflexivity.
    - intros f a. symmetry. apply H.
    - intros f a. rewrite Hif. reflexivity.
    - intros t. unfold objs_of. rewrite Hobj. reflexivity.
  Qed.

  Lemma spec_fluent_same s s' acts k : state_eq s s' -> spec_fluent P' s' acts k = spec_fluent P s acts k.
  Proof. intros H. unfold spec_fluent. rewrite Hbf, (H (fst k) (snd k)). reflexivity. Qed.

  Lemma effects_ok_same s s' acts : state_eq s s' -> spec_effects_ok P' s' acts = spec_effects_ok P s acts.
  Proof.
    intros H. unfold spec_effects_ok. generalize acts at 2 4. intros l.
    induction l as [|a l IH]; simpl; [reflexivity|]. rewrite (spec_fluent_same s s' acts _ H), IH. reflexivity.
  Qed.

  Lemma succ_same s s' acts : state_eq s s' -> state_eq (spec_succ P s acts) (spec_succ P' s' acts).
  Proof. intros H f a. unfold spec_succ. rewrite (spec_fluent_same s s' acts _ H), (H f a). reflexivity. Qed.

  Lemma inv_action_pre s pars a a' : inv_action smp cond a = Some a' ->
    all_hold false (mk_interp P s pars) (a_pre a') = all_hold false (mk_interp P s pars) (a_pre a) && moved_ok s.
  Proof.
    unfold inv_action. destruct (is_false _); [discriminate|]. intros E. inversion E; subst a'. cbn [a_pre].
    rewrite all_hold_add_pres, holds_conj_parts, Hsmp, holds_mkAnd, all_hold_app'.
    change (all_hold false (mk_interp P s pars) [cond]) with (holds false (mk_interp P s pars) cond && true).
    rewrite andb_true_r, Hcond. reflexivity.
  Qed.

  Lemma inv_action_none s pars a : inv_action smp cond a = None ->
    all_hold false (mk_interp P s pars) (a_pre a) && moved_ok s = false.
  Proof.
    unfold inv_action. destruct (is_false _) eqn:F; [|discriminate]. intros _.
    apply (holds_false false (mk_interp P s pars)) in F. rewrite Hsmp, holds_mkAnd, all_hold_app' in F.
    change (all_hold false (mk_interp P s pars) [cond]) with (holds false (mk_interp P s pars) cond && true) in F.
    rewrite andb_true_r, Hcond in F. exact F.
  Qed.

  Lemma inv_action_shape a a' : inv_action smp cond a = Some a' -> a_params a' = a_params a /\ a_effs a' = a_effs a.
  Proof. unfold inv_action. destruct (is_false _); [discriminate|]. intros E. inversion E; subst. split; reflexivity. Qed.

  Lemma goals_same s s' : state_eq s s' -> goals_hold false P' s' = goals_hold false P s && moved_ok s.
  Proof.
    intros H. unfold goals_hold. rewrite (all_hold_ext false _ _ _ (interp_same s s' [] H)).
    rewrite Hgoal. unfold inv_goals. rewrite all_hold_filter_true, holds_conj_parts, Hsmp, holds_mkAnd, all_hold_app'.
    change (all_hold false (mk_interp P s []) [cond]) with (holds false (mk_interp P s []) cond && true).
    rewrite andb_true_r, Hcond. reflexivity.
  Qed.

  Lemma invok_same s s' : state_eq s s' -> invariants_ok false P' s' = invariants_ok false P' s.
  Proof. intros H. apply invariants_ok_ext. apply state_eq_sym. exact H. Qed.

  Theorem inv_valid_plan pi : forall s s', state_eq s s' ->
    valid_plan false P' s' pi = moved_ok s && valid_plan false P s pi.
  Proof.
    induction pi as [|[aid args] pi IH]; intros s s' Hs; unfold valid_plan in *; cbn [run].
    - rewrite (goals_same s s' Hs). apply andb_comm.
    - unfold lookup_action at 1. rewrite Hact, (lookup_map_actions _ _ _ Hu). fold (lookup_action P aid).
      destruct (lookup_action P aid) as [a|] eqn:EL; [|rewrite andb_false_r; reflexivity].
      set (pars := zip_params (a_params a) args).
      destruct (inv_action smp cond a) as [a'|] eqn:EA.
      + destruct (inv_action_shape a a' EA) as [Ep Ee].
        rewrite !spec_step_eq. rewrite Ep, Ee. fold pars.
        rewrite (all_hold_ext false _ _ _ (interp_same s s' pars Hs)), (fired_ext false _ _ _ (interp_same s s' pars Hs)).
        rewrite (inv_action_pre s pars a a' EA).
        destruct (all_hold false (mk_interp P s pars) (a_pre a)); cbn [andb negb]; [|rewrite andb_false_r; reflexivity].
        destruct (moved_ok s) eqn:Em; cbn [andb negb]; [|reflexivity].
        destruct (fired false (mk_interp P s pars) (a_effs a)) as [acts|]; [|reflexivity].
        rewrite (effects_ok_same s s' acts Hs).
        destruct (spec_effects_ok P s acts); cbn [negb]; [|reflexivity].
        pose proof (succ_same s s' acts Hs) as Hss.
        rewrite (invok_same _ _ Hss), (Hinv (spec_succ P s acts)).
        destruct (invariants_ok false P' (spec_succ P s acts)); cbn [andb]; [|reflexivity].
        cbv beta iota. rewrite (IH _ _ Hss).
        destruct (moved_ok (spec_succ P s acts)); reflexivity.
      + pose proof (inv_action_none s pars a EA) as Hn. rewrite spec_step_eq. fold pars.
        destruct (all_hold false (mk_interp P s pars) (a_pre a)); cbn [andb negb] in *; [|rewrite andb_false_r; reflexivity].
        rewrite Hn. reflexivity.
  Qed.
End Generic.

(* ------------------------------------------------------------------ StateInvariantsRemover *)
Section SIR.
  Variable smp : expr -> expr.
  Hypothesis Hsmp : smp_holds smp.
  Variable P : problem.
  Hypothesis Hu : unique_ids P.
  Hypothesis Hclosed : Forall (closed_cond P) (p_invs P).

  Let P' := sir_compile smp P.

  Lemma sir_inv s : invariants_ok false P s = invariants_ok false P' s && moved_ok P (p_invs P) s.
  Proof.
    unfold invariants_ok, moved_ok. rewrite (bound_invs_sig P P' eq_refl eq_refl).
    change (mk_interp P' s []) with (mk_interp P s []). change (p_invs P') with (@nil expr).
    rewrite all_hold_app'. cbn [app]. apply andb_comm.
  Qed.

  Lemma all_hold_closed s pars l : Forall (closed_cond P) l ->
    all_hold false (mk_interp P s pars) l = all_hold false (mk_interp P s []) l.
  Proof.
    induction 1 as [|x l Hx _ IH]; [reflexivity|].
    change (all_hold false (mk_interp P s pars) (x :: l)) with (holds false (mk_interp P s pars) x && all_hold false (mk_interp P s pars) l).
    change (all_hold false (mk_interp P s []) (x :: l)) with (holds false (mk_interp P s []) x && all_hold false (mk_interp P s []) l).
    rewrite (Hx s pars), IH. reflexivity.
  Qed.

  Lemma sir_cond_ok s pars : holds false (mk_interp P s pars) (sir_cond smp P) = moved_ok P (p_invs P) s.
  Proof. unfold sir_cond, moved_ok. rewrite Hsmp, holds_mkAnd. apply all_hold_closed. exact Hclosed. Qed.

  (* the verdicts differ exactly by "the state invariants hold in the initial state" *)
  Theorem sir_valid_plan s0 pi :
    valid_plan false (sir_compile smp P) s0 pi =
    all_hold false (mk_interp P s0 []) (p_invs P) && valid_plan false P s0 pi.
  Proof.
    apply (inv_valid_plan smp Hsmp P P' (sir_cond smp P) (p_invs P)); try reflexivity.
    - exact sir_inv.
    - exact sir_cond_ok.
    - exact Hu.
    - apply state_eq_refl.
  Qed.

  Theorem sir_sound s0 pi : valid_plan false (sir_compile smp P) s0 pi = true -> valid_plan false P s0 pi = true.
  Proof. rewrite sir_valid_plan. intros H. apply andb_true_iff in H. tauto. Qed.

  Theorem sir_complete s0 pi :
    all_hold false (mk_interp P s0 []) (p_invs P) = true ->
    valid_plan false P s0 pi = true -> valid_plan false (sir_compile smp P) s0 pi = true.
  Proof. intros H1 H2. rewrite sir_valid_plan, H1, H2. reflexivity. Qed.

  (* with the check of the initial state (UPSequentialSimulator.get_initial_state / SimCheck.init_ok) the two problems
     have the same valid plans *)
  Theorem sir_same_plans s0 pi :
    invariants_ok false (sir_compile smp P) s0 && valid_plan false (sir_compile smp P) s0 pi =
    invariants_ok false P s0 && valid_plan false P s0 pi.
  Proof. rewrite sir_valid_plan, (sir_inv s0). unfold moved_ok. fold P'. rewrite andb_assoc. reflexivity. Qed.
End SIR.

(* ------------------------------------------------------------------ BoundedTypesRemover *)
Lemma eval_value_expr sc v I J : eval sc (value_expr v) I = eval sc (value_expr v) J.
Proof. destruct v; [reflexivity | unfold value_expr, num_node; destruct (_ =? _)%Z; reflexivity | reflexivity]. Qed.

Lemma eval_num_node sc q I J : eval sc (num_node q) I = eval sc (num_node q) J.
Proof. unfold num_node; destruct (_ =? _)%Z; reflexivity. Qed.

Lemma evals_value_exprs sc a I J : evals sc I (map value_expr a) = evals sc J (map value_expr a).
Proof. induction a as [|v a IH]; [reflexivity|]. cbn [map evals]. rewrite (eval_value_expr sc v I J), IH. reflexivity. Qed.

Lemma bound_inv_closed P e : In e (bound_invs P) -> closed_cond P e.
Proof.
  intros Hin s pars. unfold bound_invs in Hin. apply in_flat_map in Hin. destruct Hin as [fd [_ Hin]].
  destruct (fd_ty fd) as [|lo hi|]; try destruct Hin.
  apply in_flat_map in Hin. destruct Hin as [a [_ Hin]]. apply in_app_or in Hin.
  set (I := mk_interp P s pars). set (J := mk_interp P s []).
  assert (EF : eval false (EFluent (fd_id fd) (map value_expr a)) I = eval false (EFluent (fd_id fd) (map value_expr a)) J).
  { rewrite !eval_EFluent, (evals_value_exprs false a I J). reflexivity. }
  destruct Hin as [Hin|Hin].
  - destruct lo as [l|]; [|destruct Hin]. destruct Hin as [<-|[]].
    unfold holds. rewrite !eval_ELe, EF, (eval_num_node false l I J). reflexivity.
  - destruct hi as [h|]; [|destruct Hin]. destruct Hin as [<-|[]].
    unfold holds. rewrite !eval_ELe, EF, (eval_num_node false h I J). reflexivity.
Qed.

Lemma is_bool_fluent_unbound fl f :
  existsb (fun fd => (fd_id fd =? f)%N && match fd_ty fd with FBool => true | _ => false end) (map unbound fl) =
  existsb (fun fd => (fd_id fd =? f)%N && match fd_ty fd with FBool => true | _ => false end) fl.
Proof.
  induction fl as [|fd fl IH]; [reflexivity|]. cbn [map existsb]. rewrite IH. f_equal.
  unfold unbound. cbn [fd_id fd_ty]. destruct (fd_ty fd); reflexivity.
Qed.

Lemma bound_invs_unbound P P' : p_fluents P' = map unbound (p_fluents P) -> bound_invs P' = [].
Proof.
  intros H. unfold bound_invs. rewrite H. clear H. induction (p_fluents P) as [|fd fl IH]; [reflexivity|].
  cbn [map flat_map]. rewrite IH, app_nil_r. unfold unbound. cbn [fd_ty fd_id fd_sig].
  destruct (fd_ty fd); try reflexivity.
  induction (arg_tuples P' (fd_sig fd)) as [|a l IHl]; [reflexivity|]. cbn [flat_map app]. exact IHl.
Qed.

Section BTR.
  Variable smp : expr -> expr.
  Hypothesis Hsmp : smp_holds smp.
  Variable P : problem.
  Hypothesis Hu : unique_ids P.

  Let P' := btr_compile smp P.

  Lemma btr_inv s : invariants_ok false P s = invariants_ok false P' s && moved_ok P (bound_invs P) s.
  Proof.
    unfold invariants_ok, moved_ok. rewrite (bound_invs_unbound P P' eq_refl), app_nil_r.
    change (mk_interp P' s []) with (mk_interp P s []). change (p_invs P') with (p_invs P).
    apply all_hold_app'.
  Qed.

  Lemma btr_cond_ok s pars : holds false (mk_interp P s pars) (btr_cond P) = moved_ok P (bound_invs P) s.
  Proof.
    unfold btr_cond, moved_ok. rewrite holds_mkAnd.
    assert (G : forall l, (forall e, In e l -> closed_cond P e) ->
                all_hold false (mk_interp P s pars) l = all_hold false (mk_interp P s []) l).
    { induction l as [|x l IH]; intros Hc; [reflexivity|].
      change (all_hold false (mk_interp P s pars) (x :: l)) with (holds false (mk_interp P s pars) x && all_hold false (mk_interp P s pars) l).
      change (all_hold false (mk_interp P s []) (x :: l)) with (holds false (mk_interp P s []) x && all_hold false (mk_interp P s []) l).
      rewrite (Hc x (or_introl eq_refl) s pars), IH; [reflexivity|]. intros e He. apply Hc. right; exact He. }
    apply G. intros e He. apply bound_inv_closed. exact He.
  Qed.

  (* the verdicts differ exactly by "every bounded fluent is within its bounds in the initial state" *)
  Theorem btr_valid_plan s0 pi :
    valid_plan false (btr_compile smp P) s0 pi =
    all_hold false (mk_interp P s0 []) (bound_invs P) && valid_plan false P s0 pi.
  Proof.
    apply (inv_valid_plan smp Hsmp P P' (btr_cond P) (bound_invs P)); try reflexivity.
    - intros f. unfold is_bool_fluent. apply is_bool_fluent_unbound.
    - exact btr_inv.
    - exact btr_cond_ok.
    - exact Hu.
    - apply state_eq_refl.
  Qed.

  Theorem btr_sound s0 pi : valid_plan false (btr_compile smp P) s0 pi = true -> valid_plan false P s0 pi = true.
  Proof. rewrite btr_valid_plan. intros H. apply andb_true_iff in H. tauto. Qed.

  Theorem btr_complete s0 pi :
    all_hold false (mk_interp P s0 []) (bound_invs P) = true ->
    valid_plan false P s0 pi = true -> valid_plan false (btr_compile smp P) s0 pi = true.
  Proof. intros H1 H2. rewrite btr_valid_plan, H1, H2. reflexivity. Qed.

  Theorem btr_same_plans s0 pi :
    invariants_ok false (btr_compile smp P) s0 && valid_plan false (btr_compile smp P) s0 pi =
    invariants_ok false P s0 && valid_plan false P s0 pi.
  Proof. rewrite btr_valid_plan, (btr_inv s0). unfold moved_ok. fold P'. rewrite andb_assoc. reflexivity. Qed.
End BTR.
