(* Proofs about the conflicting-effects bookkeeping model (C24). *)
From Coq Require Import List ZArith NArith QArith Bool Lia Permutation.
Import ListNotations.
Require Import UPV.Model.Conflicts.

(* ------------------------------------------------------------------ generic argument:
   a container whose insertion raises exactly when the new member conflicts (symmetric relation) with a member
   already held, and otherwise holds the new member too.  Then "some insertion raises" holds iff the collection
   (together with what the container held before) contains a conflicting pair -- which does not mention the order. *)
Section Generic.
  Variables St Item : Type.
  Variable add : St -> Item -> St * bool.
  Variable items : St -> list Item.
  Variable confl : Item -> Item -> bool.
  Variable P : St -> list Item -> Prop.
  Hypothesis confl_sym : forall a b, confl a b = confl b a.
  Hypothesis P_perm : forall s l l', Permutation l l' -> P s l -> P s l'.
  Hypothesis add_rej : forall s i l, P s (i :: l) ->
    (snd (add s i) = true <-> existsb (confl i) (items s) = true).
  Hypothesis add_acc : forall s i l, P s (i :: l) -> snd (add s i) = false ->
    P (fst (add s i)) l /\ forall x, In x (items (fst (add s i))) <-> x = i \/ In x (items s).

  Fixpoint graises (s : St) (l : list Item) : bool :=
    match l with
    | [] => false
    | i :: l' => snd (add s i) || graises (fst (add s i)) l'
    end.

  Definition Clash (base l : list Item) : Prop :=
    exists l1 x l2 y, l = l1 ++ x :: l2 /\ In y (base ++ l1 ++ l2) /\ confl x y = true.

  Lemma Clash_ext base base' l : (forall x, In x base <-> In x base') -> Clash base l -> Clash base' l.
  Proof.
    intros H (l1 & x & l2 & y & E & Hy & Hc). exists l1, x, l2, y. split; [exact E|]. split; [|exact Hc].
    rewrite in_app_iff in *. rewrite <- H. exact Hy.
  Qed.

  Lemma Clash_perm base l l' : Permutation l l' -> Clash base l -> Clash base l'.
  Proof.
    intros Hp (l1 & x & l2 & y & E & Hy & Hc). subst l.
    assert (Hx : In x l') by (eapply Permutation_in; [exact Hp | apply in_elt]).
    apply in_split in Hx. destruct Hx as (l1' & l2' & E'). subst l'.
    apply Permutation_app_inv in Hp.
    exists l1', x, l2', y. split; [reflexivity|]. split; [|exact Hc].
    rewrite in_app_iff in *. destruct Hy as [Hy|Hy]; [left; exact Hy | right; eapply Permutation_in; eauto].
  Qed.

  Lemma Clash_cons base i l : existsb (confl i) base = false -> (Clash base (i :: l) <-> Clash (i :: base) l).
  Proof.
    intros Hn. split.
    - intros (l1 & x & l2 & y & E & Hy & Hc). destruct l1 as [|a l1]; simpl in E; inversion E; subst.
      + simpl in Hy. rewrite in_app_iff in Hy. destruct Hy as [Hy|Hy].
        * exfalso. assert (existsb (confl x) base = true) by (apply existsb_exists; eauto). congruence.
        * apply in_split in Hy. destruct Hy as (r1 & r2 & ->).
          exists r1, y, r2, x. split; [reflexivity|]. split; [left; reflexivity | rewrite confl_sym; exact Hc].
      + exists l1, x, l2, y. split; [reflexivity|]. split; [|exact Hc].
        rewrite in_app_iff in Hy. simpl in Hy. simpl. rewrite in_app_iff. tauto.
    - intros (l1 & x & l2 & y & E & Hy & Hc). subst l.
      exists (i :: l1), x, l2, y. split; [reflexivity|]. split; [|exact Hc].
      simpl in Hy. rewrite in_app_iff in *. simpl. tauto.
  Qed.

  Lemma graises_iff : forall l s, P s l -> (graises s l = true <-> Clash (items s) l).
  Proof.
    induction l as [|a l IH]; intros s HP; simpl.
    - split; [discriminate|]. intros (l1 & x & l2 & y & E & _). destruct l1; discriminate.
    - destruct (snd (add s a)) eqn:R; simpl.
      + split; [intros _ | reflexivity].
        apply (add_rej s a l HP) in R. apply existsb_exists in R. destruct R as (y & Hy & Hc).
        exists [], a, l, y. split; [reflexivity|]. split; [|exact Hc]. rewrite in_app_iff. left; exact Hy.
      + destruct (add_acc s a l HP R) as [HP' Hit]. rewrite (IH _ HP').
        assert (Hn : existsb (confl a) (items s) = false).
        { destruct (existsb (confl a) (items s)) eqn:E; [|reflexivity]. apply (add_rej s a l HP) in E. congruence. }
        rewrite (Clash_cons _ _ _ Hn).
        split; apply Clash_ext; intros x; rewrite Hit; simpl; intuition congruence.
  Qed.

  Theorem graises_perm s l l' : P s l -> Permutation l l' -> graises s l = graises s l'.
  Proof.
    intros HP Hp. pose proof (P_perm _ _ _ Hp HP) as HP'.
    destruct (graises s l) eqn:A, (graises s l') eqn:B; try reflexivity.
    - apply (graises_iff _ _ HP) in A. apply (Clash_perm _ _ _ Hp) in A. apply (graises_iff _ _ HP') in A. congruence.
    - apply (graises_iff _ _ HP') in B. apply (Clash_perm _ _ _ (Permutation_sym Hp)) in B.
      apply (graises_iff _ _ HP) in B. congruence.
  Qed.
End Generic.

(* ------------------------------------------------------------------ values, sets, dictionaries *)
Lemma veq_refl v : veq v v = true.
Proof. destruct v; simpl; [apply Qeq_bool_iff; reflexivity | apply N.eqb_refl | apply N.eqb_refl]. Qed.

Lemma veq_sym a b : veq a b = veq b a.
Proof.
  destruct a, b; simpl; try reflexivity; try apply N.eqb_sym.
  destruct (Qeq_bool q q0) eqn:E, (Qeq_bool q0 q) eqn:F; try reflexivity.
  - apply Qeq_bool_iff in E. symmetry in E. apply Qeq_bool_iff in E. congruence.
  - apply Qeq_bool_iff in F. symmetry in F. apply Qeq_bool_iff in F. congruence.
Qed.

Lemma veq_trans a b c : veq a b = true -> veq b c = true -> veq a c = true.
Proof.
  destruct a, b, c; simpl; try discriminate.
  - rewrite !Qeq_bool_iff. intros H1 H2. rewrite H1. exact H2.
  - rewrite !N.eqb_eq. congruence.
  - rewrite !N.eqb_eq. congruence.
Qed.

Lemma veq_neq_l a b c : veq a b = true -> veq a c = false -> veq b c = false.
Proof.
  intros H1 H2. destruct (veq b c) eqn:E; [|reflexivity].
  rewrite (veq_trans a b c H1 E) in H2. discriminate.
Qed.

Lemma mem_In f s : mem f s = true <-> In f s.
Proof.
  unfold mem. rewrite existsb_exists. split.
  - intros (x & Hx & E). apply N.eqb_eq in E. subst. exact Hx.
  - intros H. exists f. split; [exact H | apply N.eqb_refl].
Qed.

Lemma mem_app f a b : mem f (a ++ b) = mem f a || mem f b.
Proof. unfold mem. apply existsb_app. Qed.

Lemma mem_set_add g f s : mem g (set_add f s) = (g =? f)%N || mem g s.
Proof.
  unfold set_add. destruct (mem f s) eqn:E.
  - destruct (g =? f)%N eqn:G; [|reflexivity]. apply N.eqb_eq in G. subst. rewrite E. reflexivity.
  - rewrite mem_app. simpl. rewrite orb_false_r. apply orb_comm.
Qed.

Lemma lookup_app f d g v :
  lookup f (d ++ [(g, v)]) = match lookup f d with Some x => Some x | None => if (f =? g)%N then Some v else None end.
Proof.
  induction d as [|[g' v'] d IH]; simpl; [reflexivity|].
  destruct (f =? g')%N; [reflexivity | exact IH].
Qed.

Lemma existsb_map {A B} (f : B -> bool) (g : A -> B) l : existsb f (map g l) = existsb (fun x => f (g x)) l.
Proof. induction l; simpl; [reflexivity | rewrite IHl; reflexivity]. Qed.

Lemma existsb_false {A} (f : A -> bool) l : (forall x, f x = false) -> existsb f l = false.
Proof. intros H. induction l; simpl; [reflexivity | rewrite H, IHl; reflexivity]. Qed.

Lemma existsb_ext_in {A} (f g : A -> bool) l : (forall x, In x l -> f x = g x) -> existsb f l = existsb g l.
Proof.
  induction l; simpl; intros H; [reflexivity|]. rewrite (H a) by auto. rewrite IHl by auto. reflexivity.
Qed.

(* ------------------------------------------------------------------ the check in if-form *)
Lemma check_unfold e sm fa fid :
  check_conflicting_effects e sm fa fid =
  if relevant e then
    if is_assign e then
      if mem (e_fluent e) fid then (fa, fid, true)
      else if in_sim (e_fluent e) sm then (fa, fid, true)
      else match lookup (e_fluent e) fa with
           | Some v0 => if veq v0 (e_value e) then (fa, fid, false) else (fa, fid, true)
           | None => (fa ++ [(e_fluent e, e_value e)], fid, false)
           end
    else
      if has_key (e_fluent e) fa then (fa, fid, true)
      else if in_sim (e_fluent e) sm then (fa, fid, true)
      else (fa, set_add (e_fluent e) fid, false)
  else (fa, fid, false).
Proof. unfold check_conflicting_effects, is_assign. destruct (relevant e), (e_kind e); reflexivity. Qed.

(* a raising check leaves both bookkeeping structures as they were *)
Lemma check_raise_unchanged e sm fa fid fa' fid' :
  check_conflicting_effects e sm fa fid = (fa', fid', true) -> fa' = fa /\ fid' = fid.
Proof.
  rewrite check_unfold.
  destruct (relevant e); [|intros H; inversion H].
  destruct (is_assign e).
  - destruct (mem (e_fluent e) fid); [intros H; inversion H; auto|].
    destruct (in_sim (e_fluent e) sm); [intros H; inversion H; auto|].
    destruct (lookup (e_fluent e) fa) as [v0|]; [|intros H; inversion H].
    destruct (veq v0 (e_value e)); intros H; inversion H; auto.
  - destruct (has_key (e_fluent e) fa); [intros H; inversion H; auto|].
    destruct (in_sim (e_fluent e) sm); intros H; inversion H; auto.
Qed.

Theorem add_item_rejected_noop s i : snd (add_item s i) = true -> fst (add_item s i) = s.
Proof.
  destruct i as [e|F]; simpl.
  - unfold add_effect_instance.
    destruct (check_conflicting_effects e (sim s) (assigned s) (incdec s)) as [[fa fid] r] eqn:E.
    destruct r; simpl; [|discriminate]. intros _.
    apply check_raise_unchanged in E. destruct E as [-> ->]. destruct s; reflexivity.
  - unfold set_simulated_effect.
    destruct (check_conflicting_simulated_effects F (assigned s) (incdec s)); simpl; [reflexivity | discriminate].
Qed.

Corollary rejected_then_as_if_never s i l :
  snd (add_item s i) = true ->
  raises (fst (add_item s i)) l = raises s l /\ run (fst (add_item s i)) l = run s l.
Proof. intros H. rewrite (add_item_rejected_noop s i H). split; reflexivity. Qed.

(* what an insertion does to the stored effects and to the simulated effect *)
Lemma add_effect_instance_fields s e :
  effects (fst (add_effect_instance s e)) = (if snd (add_effect_instance s e) then effects s else effects s ++ [e])
  /\ sim (fst (add_effect_instance s e)) = sim s.
Proof.
  unfold add_effect_instance.
  destruct (check_conflicting_effects e (sim s) (assigned s) (incdec s)) as [[fa fid] r].
  destruct r; simpl; auto.
Qed.

(* ------------------------------------------------------------------ the invariant tying bookkeeping to stored effects *)
Definition rel_incdec_on (f : N) (e : effect) : bool := relevant e && negb (is_assign e) && (e_fluent e =? f)%N.
Definition rel_assign_on (f : N) (e : effect) : bool := relevant e && is_assign e && (e_fluent e =? f)%N.

Definition Inv (s : tp) : Prop :=
  (forall f, mem f (incdec s) = existsb (rel_incdec_on f) (effects s)) /\
  (forall f, match lookup f (assigned s) with
             | Some v0 => existsb (rel_assign_on f) (effects s) = true /\
                          forall e, In e (effects s) -> rel_assign_on f e = true -> veq v0 (e_value e) = true
             | None => existsb (rel_assign_on f) (effects s) = false
             end).

Lemma Inv_empty : Inv tp_empty.
Proof. split; intros f; reflexivity. Qed.

Lemma Inv_same_bookkeeping s s' :
  effects s' = effects s -> assigned s' = assigned s -> incdec s' = incdec s -> Inv s -> Inv s'.
Proof. unfold Inv. intros -> -> ->. auto. Qed.

Lemma Inv_add_effect s e : Inv s -> Inv (fst (add_effect_instance s e)).
Proof.
  intros [Hi Ha]. unfold add_effect_instance. rewrite check_unfold.
  destruct (relevant e) eqn:R.
  2:{ (* conditional effect or Boolean fluent: never checked, only stored *)
      simpl. split; intros f; simpl.
      - rewrite existsb_app; simpl. unfold rel_incdec_on at 2. rewrite R. simpl. rewrite orb_false_r. apply Hi.
      - specialize (Ha f). destruct (lookup f (assigned s)) as [v0|].
        + destruct Ha as [H1 H2]. split.
          * rewrite existsb_app, H1. reflexivity.
          * intros e' He' Hr. apply in_app_iff in He'. destruct He' as [He'|[<-|[]]]; [auto|].
            unfold rel_assign_on in Hr. rewrite R in Hr. discriminate.
        + rewrite existsb_app, Ha. simpl. unfold rel_assign_on. rewrite R. reflexivity. }
  destruct (is_assign e) eqn:A.
  - destruct (mem (e_fluent e) (incdec s)); [simpl; split; assumption|].
    destruct (in_sim (e_fluent e) (sim s)); [simpl; split; assumption|].
    destruct (lookup (e_fluent e) (assigned s)) as [v0|] eqn:L.
    + destruct (veq v0 (e_value e)) eqn:V; [|simpl; split; assumption].
      simpl. split; intros f; simpl.
      * rewrite existsb_app; simpl. unfold rel_incdec_on at 2. rewrite A. simpl. rewrite andb_false_r. simpl.
        rewrite orb_false_r. apply Hi.
      * pose proof (Ha f) as Haf. destruct (lookup f (assigned s)) as [v1|] eqn:L1.
        -- destruct Haf as [H1 H2]. split; [rewrite existsb_app, H1; reflexivity|].
           intros e' He' Hr. apply in_app_iff in He'. destruct He' as [He'|[<-|[]]]; [auto|].
           unfold rel_assign_on in Hr. rewrite !andb_true_iff in Hr. destruct Hr as [_ Hf]. apply N.eqb_eq in Hf.
           subst f. rewrite L in L1. inversion L1; subst. exact V.
        -- rewrite existsb_app, Haf. simpl. rewrite orb_false_r.
           unfold rel_assign_on. destruct (e_fluent e =? f)%N eqn:Hf; [|rewrite andb_false_r; reflexivity].
           apply N.eqb_eq in Hf. subst f. congruence.
    + simpl. split; intros f; simpl.
      * rewrite existsb_app; simpl. unfold rel_incdec_on at 2. rewrite A. simpl. rewrite andb_false_r. simpl.
        rewrite orb_false_r. apply Hi.
      * rewrite lookup_app. pose proof (Ha f) as Haf. destruct (lookup f (assigned s)) as [v1|] eqn:L1.
        -- destruct Haf as [H1 H2]. split; [rewrite existsb_app, H1; reflexivity|].
           intros e' He' Hr. apply in_app_iff in He'. destruct He' as [He'|[<-|[]]]; [auto|].
           unfold rel_assign_on in Hr. rewrite !andb_true_iff in Hr. destruct Hr as [_ Hf]. apply N.eqb_eq in Hf.
           subst f. congruence.
        -- destruct (f =? e_fluent e)%N eqn:Hf.
           ++ apply N.eqb_eq in Hf. subst f. split.
              ** rewrite existsb_app. simpl. unfold rel_assign_on at 2. rewrite R, A, N.eqb_refl. simpl.
                 apply orb_true_r.
              ** intros e' He' Hr. apply in_app_iff in He'. destruct He' as [He'|[<-|[]]]; [|apply veq_refl].
                 exfalso. assert (existsb (rel_assign_on (e_fluent e)) (effects s) = true)
                   by (apply existsb_exists; eauto). congruence.
           ++ rewrite existsb_app, Haf. simpl. rewrite orb_false_r. unfold rel_assign_on.
              rewrite N.eqb_sym, Hf. apply andb_false_r.
  - destruct (has_key (e_fluent e) (assigned s)); [simpl; split; assumption|].
    destruct (in_sim (e_fluent e) (sim s)); [simpl; split; assumption|].
    simpl. split; intros f; simpl.
    + assert (X : rel_incdec_on f e = (f =? e_fluent e)%N)
        by (unfold rel_incdec_on; rewrite R, A, N.eqb_sym; reflexivity).
      rewrite mem_set_add, existsb_app, Hi. simpl. rewrite X, orb_false_r. apply orb_comm.
    + specialize (Ha f). destruct (lookup f (assigned s)) as [v0|].
      * destruct Ha as [H1 H2]. split; [rewrite existsb_app, H1; reflexivity|].
        intros e' He' Hr. apply in_app_iff in He'. destruct He' as [He'|[<-|[]]]; [auto|].
        unfold rel_assign_on in Hr. rewrite A in Hr. rewrite andb_false_r in Hr. discriminate.
      * rewrite existsb_app, Ha. simpl. unfold rel_assign_on. rewrite A, andb_false_r. reflexivity.
Qed.

Lemma Inv_add_item s i : Inv s -> Inv (fst (add_item s i)).
Proof.
  destruct i as [e|F]; simpl; [apply Inv_add_effect|].
  intros H. unfold set_simulated_effect.
  destruct (check_conflicting_simulated_effects F (assigned s) (incdec s)); simpl; [exact H|].
  eapply Inv_same_bookkeeping; [| | |exact H]; reflexivity.
Qed.

Theorem reach_Inv s : reach s -> Inv s.
Proof. induction 1; [apply Inv_empty | apply Inv_add_item; assumption]. Qed.

(* ------------------------------------------------------------------ an insertion raises iff it conflicts with a held member *)
Lemma conflicts_sym a b : conflicts a b = conflicts b a.
Proof.
  destruct a as [a|F], b as [b|G]; simpl; try reflexivity.
  unfold conflicts_ee. rewrite (N.eqb_sym (e_fluent a)), (veq_sym (e_value a)).
  destruct (relevant a), (relevant b), (e_fluent b =? e_fluent a)%N, (is_assign a), (is_assign b); reflexivity.
Qed.

Lemma existsb_items (f : item -> bool) s :
  existsb f (tp_items s) = existsb (fun e => f (IEff e)) (effects s) || match sim s with Some F => f (ISim F) | None => false end.
Proof.
  unfold tp_items. rewrite existsb_app, existsb_map. destruct (sim s); simpl; [rewrite orb_false_r|]; reflexivity.
Qed.

Lemma assigned_some_iff s f : Inv s -> (has_key f (assigned s) = existsb (rel_assign_on f) (effects s)).
Proof.
  intros [_ Ha]. specialize (Ha f). unfold has_key. destruct (lookup f (assigned s)); [destruct Ha as [-> _]|rewrite Ha]; reflexivity.
Qed.

Lemma add_item_raises_iff s i : Inv s -> (snd (add_item s i) = true <-> existsb (conflicts i) (tp_items s) = true).
Proof.
  intros HI. pose proof HI as [Hi Ha]. rewrite existsb_items. destruct i as [e|F]; simpl.
  - unfold add_effect_instance. rewrite check_unfold.
    destruct (relevant e) eqn:R.
    2:{ simpl. rewrite existsb_false.
        - unfold conflicts_se. rewrite R. destruct (sim s); simpl; split; discriminate.
        - intros x. unfold conflicts_ee. rewrite R. reflexivity. }
    assert (SIM : match sim s with Some F => conflicts_se F e | None => false end = in_sim (e_fluent e) (sim s)).
    { unfold conflicts_se, in_sim. rewrite R. destruct (sim s); reflexivity. }
    rewrite SIM. clear SIM.
    destruct (is_assign e) eqn:A.
    + (* assignment *)
      assert (EE : forall x, conflicts_ee e x =
                  rel_incdec_on (e_fluent e) x || (rel_assign_on (e_fluent e) x && negb (veq (e_value e) (e_value x)))).
      { intros x. unfold conflicts_ee, rel_incdec_on, rel_assign_on. rewrite R, A, (N.eqb_sym (e_fluent e)).
        destruct (relevant x), (e_fluent x =? e_fluent e)%N, (is_assign x); simpl; try reflexivity;
          rewrite ?orb_false_r; reflexivity. }
      rewrite (existsb_ext_in _ _ _ (fun x _ => EE x)).
      destruct (mem (e_fluent e) (incdec s)) eqn:M.
      * simpl. split; [intros _ | reflexivity]. rewrite Hi in M. apply existsb_exists in M. destruct M as (x & Hx & Hr).
        apply orb_true_iff; left. apply existsb_exists. exists x. rewrite Hr. auto.
      * destruct (in_sim (e_fluent e) (sim s)) eqn:S; [simpl; rewrite orb_true_r; tauto|].
        rewrite orb_false_r. rewrite Hi in M.
        specialize (Ha (e_fluent e)). destruct (lookup (e_fluent e) (assigned s)) as [v0|] eqn:L.
        -- destruct Ha as [H1 H2]. destruct (veq v0 (e_value e)) eqn:V; simpl.
           ++ split; [discriminate|]. intros H. apply existsb_exists in H. destruct H as (x & Hx & Hr).
              apply orb_true_iff in Hr. destruct Hr as [Hr|Hr].
              ** assert (existsb (rel_incdec_on (e_fluent e)) (effects s) = true) by (apply existsb_exists; eauto).
                 congruence.
              ** apply andb_true_iff in Hr. destruct Hr as [Hr Hv]. specialize (H2 x Hx Hr).
                 rewrite (veq_sym v0) in V. rewrite (veq_trans _ _ _ V H2) in Hv. discriminate.
           ++ split; [intros _ | reflexivity]. apply existsb_exists in H1. destruct H1 as (x & Hx & Hr).
              apply existsb_exists. exists x. split; [exact Hx|]. rewrite Hr. simpl.
              rewrite (veq_sym (e_value e)). rewrite (veq_neq_l v0 (e_value x) (e_value e) (H2 x Hx Hr) V).
              apply orb_true_r.
        -- simpl. split; [discriminate|]. intros H. apply existsb_exists in H. destruct H as (x & Hx & Hr).
           apply orb_true_iff in Hr. destruct Hr as [Hr|Hr].
           ++ assert (existsb (rel_incdec_on (e_fluent e)) (effects s) = true) by (apply existsb_exists; eauto).
              congruence.
           ++ apply andb_true_iff in Hr. destruct Hr as [Hr _].
              assert (existsb (rel_assign_on (e_fluent e)) (effects s) = true) by (apply existsb_exists; eauto).
              congruence.
    + (* increase / decrease *)
      assert (EE : forall x, conflicts_ee e x = rel_assign_on (e_fluent e) x).
      { intros x. unfold conflicts_ee, rel_assign_on. rewrite R, A, (N.eqb_sym (e_fluent e)).
        destruct (relevant x), (e_fluent x =? e_fluent e)%N, (is_assign x); reflexivity. }
      rewrite (existsb_ext_in _ _ _ (fun x _ => EE x)).
      rewrite (assigned_some_iff s (e_fluent e) HI).
      destruct (existsb (rel_assign_on (e_fluent e)) (effects s)); simpl; [tauto|].
      destruct (in_sim (e_fluent e) (sim s)); simpl; tauto.
  - (* simulated effect *)
    unfold set_simulated_effect.
    assert (E : check_conflicting_simulated_effects F (assigned s) (incdec s) = existsb (fun e => conflicts_se F e) (effects s)).
    { unfold check_conflicting_simulated_effects.
      destruct (existsb (fun e => conflicts_se F e) (effects s)) eqn:X.
      - apply existsb_exists in X. destruct X as (x & Hx & Hr). unfold conflicts_se in Hr.
        apply andb_true_iff in Hr. destruct Hr as [Hr Hm]. apply mem_In in Hm.
        apply existsb_exists. exists (e_fluent x). split; [exact Hm|].
        rewrite Hi, (assigned_some_iff s _ HI). apply orb_true_iff.
        destruct (is_assign x) eqn:A; [right | left]; apply existsb_exists; exists x; (split; [exact Hx|]);
          unfold rel_assign_on, rel_incdec_on; rewrite Hr, A, N.eqb_refl; reflexivity.
      - destruct (existsb (fun f => mem f (incdec s) || has_key f (assigned s)) F) eqn:Y; [|reflexivity].
        apply existsb_exists in Y. destruct Y as (f & Hf & Hr). rewrite Hi, (assigned_some_iff s _ HI) in Hr.
        apply orb_true_iff in Hr.
        assert (exists x, In x (effects s) /\ relevant x = true /\ e_fluent x = f) as (x & Hx & Hrx & Hfx).
        { destruct Hr as [Hr|Hr]; apply existsb_exists in Hr; destruct Hr as (x & Hx & Hr); exists x;
            unfold rel_assign_on, rel_incdec_on in Hr; rewrite !andb_true_iff in Hr; destruct Hr as [[Hr _] Hq];
            apply N.eqb_eq in Hq; auto. }
        assert (existsb (fun e => conflicts_se F e) (effects s) = true).
        { apply existsb_exists. exists x. split; [exact Hx|]. unfold conflicts_se. rewrite Hrx. subst f.
          apply mem_In in Hf. rewrite Hf. reflexivity. }
        congruence. }
    rewrite E. destruct (existsb (fun e => conflicts_se F e) (effects s)); simpl.
    + tauto.
    + destruct (sim s); simpl; split; discriminate.
Qed.

(* ------------------------------------------------------------------ instantiate the generic argument for one time point *)
Definition P_tp (s : tp) (l : list item) : Prop := Inv s /\ (sim_count s + count_sims l <= 1)%nat.

Lemma count_sims_perm l l' : Permutation l l' -> count_sims l = count_sims l'.
Proof.
  induction 1 as [| x l l' _ IH | x y l | l l' l'' _ IH1 _ IH2]; simpl.
  - reflexivity.
  - destruct x; rewrite IH; reflexivity.
  - destruct x, y; reflexivity.
  - congruence.
Qed.

Lemma raises_graises s l : raises s l = graises tp item add_item s l.
Proof.
  revert s. induction l as [|i l IH]; intros s; simpl; [reflexivity|].
  destruct (add_item s i) as [s' r] eqn:E. simpl. rewrite IH. reflexivity.
Qed.

Lemma P_tp_perm s l l' : Permutation l l' -> P_tp s l -> P_tp s l'.
Proof. intros Hp [H1 H2]. split; [exact H1|]. rewrite <- (count_sims_perm _ _ Hp). exact H2. Qed.

Lemma P_tp_rej s i l : P_tp s (i :: l) -> (snd (add_item s i) = true <-> existsb (conflicts i) (tp_items s) = true).
Proof. intros [H _]. apply add_item_raises_iff; exact H. Qed.

Lemma P_tp_acc s i l : P_tp s (i :: l) -> snd (add_item s i) = false ->
  P_tp (fst (add_item s i)) l /\ forall x, In x (tp_items (fst (add_item s i))) <-> x = i \/ In x (tp_items s).
Proof.
  intros [HI HC] R. split; [split; [apply Inv_add_item; exact HI|]|].
  - destruct i as [e|F]; simpl in *.
    + destruct (add_effect_instance_fields s e) as [_ Hs]. unfold sim_count in *. rewrite Hs. exact HC.
    + unfold set_simulated_effect in *.
      destruct (check_conflicting_simulated_effects F (assigned s) (incdec s)); simpl in *; [discriminate|].
      unfold sim_count in *. simpl. destruct (sim s); simpl in HC; lia.
  - intros x. destruct i as [e|F]; simpl in *.
    + destruct (add_effect_instance_fields s e) as [He Hs]. rewrite R in He.
      unfold tp_items. rewrite He, Hs, map_app, !in_app_iff. simpl. intuition congruence.
    + unfold set_simulated_effect in *.
      destruct (check_conflicting_simulated_effects F (assigned s) (incdec s)); simpl in *; [discriminate|].
      unfold tp_items; simpl. unfold sim_count in HC.
      destruct (sim s); simpl in HC; [lia|]. rewrite !in_app_iff. simpl. intuition congruence.
Qed.

Definition clash (base l : list item) : Prop := Clash item conflicts base l.

(* some insertion raises  <=>  two members of the collection (or a member and something already held) conflict *)
Theorem raises_iff_clash s l : Inv s -> (sim_count s + count_sims l <= 1)%nat ->
  (raises s l = true <-> clash (tp_items s) l).
Proof.
  intros HI HC. rewrite raises_graises.
  apply (graises_iff tp item add_item tp_items conflicts P_tp conflicts_sym P_tp_rej P_tp_acc).
  split; assumption.
Qed.

Theorem raises_perm s l l' : Inv s -> (sim_count s + count_sims l <= 1)%nat -> Permutation l l' ->
  raises s l = raises s l'.
Proof.
  intros HI HC Hp. rewrite !raises_graises.
  apply (graises_perm tp item add_item tp_items conflicts P_tp conflicts_sym P_tp_perm P_tp_rej P_tp_acc); [split; assumption | exact Hp].
Qed.

Corollary raises_perm_reach s l l' : reach s -> (sim_count s + count_sims l <= 1)%nat -> Permutation l l' ->
  raises s l = raises s l'.
Proof. intros H. apply raises_perm, reach_Inv, H. Qed.

Corollary raises_perm_fresh l l' : (count_sims l <= 1)%nat -> Permutation l l' -> raises tp_empty l = raises tp_empty l'.
Proof. intros H. apply raises_perm; [apply Inv_empty | exact H]. Qed.

(* ------------------------------------------------------------------ timed containers *)
Lemma tget_tset t' t s m : tget t' (tset t s m) = if (t' =? t)%N then s else tget t' m.
Proof.
  unfold tget. induction m as [|[t0 s0] m IH]; simpl.
  - destruct (t' =? t)%N; reflexivity.
  - destruct (t =? t0)%N eqn:E; simpl.
    + apply N.eqb_eq in E. subst t0. destruct (t' =? t)%N; reflexivity.
    + destruct (t' =? t0)%N eqn:F.
      * apply N.eqb_eq in F. subst t0. rewrite N.eqb_sym in E. rewrite E. reflexivity.
      * exact IH.
Qed.

Lemma treach_Inv m : treach m -> forall t, Inv (tget t m).
Proof.
  induction 1 as [|m [t0 i] _ IH]; intros t; [apply Inv_empty|].
  unfold tadd_item; simpl. destruct (add_item (tget t0 m) i) as [s' r] eqn:E. simpl. rewrite tget_tset.
  destruct (t =? t0)%N; [|apply IH]. change s' with (fst (s', r)). rewrite <- E. apply Inv_add_item, IH.
Qed.

(* every time point of a reachable timed container is a reachable single-time-point container *)
Lemma treach_reach m : treach m -> forall t, reach (tget t m).
Proof.
  induction 1 as [|m [t0 i] _ IH]; intros t; [apply reach_empty|].
  unfold tadd_item; simpl. destruct (add_item (tget t0 m) i) as [s' r] eqn:E. simpl. rewrite tget_tset.
  destruct (t =? t0)%N; [|apply IH]. change s' with (fst (s', r)). rewrite <- E. apply reach_add, IH.
Qed.

Theorem tadd_item_rejected_noop m ti :
  snd (tadd_item m ti) = true -> forall t, tget t (fst (tadd_item m ti)) = tget t m.
Proof.
  destruct ti as [t0 i]. unfold tadd_item; simpl.
  destruct (add_item (tget t0 m) i) as [s' r] eqn:E. simpl. intros -> t. rewrite tget_tset.
  destruct (t =? t0)%N eqn:F; [|reflexivity]. apply N.eqb_eq in F. subst t0.
  change s' with (fst (s', true)). rewrite <- E. apply add_item_rejected_noop. rewrite E. reflexivity.
Qed.

(* an insertion at one time point never touches another time point *)
Lemma tadd_item_other m t0 i t : t <> t0 -> tget t (fst (tadd_item m (t0, i))) = tget t m.
Proof.
  intros H. unfold tadd_item; simpl. destruct (add_item (tget t0 m) i) as [s' r]. simpl. rewrite tget_tset.
  destruct (t =? t0)%N eqn:F; [apply N.eqb_eq in F; contradiction | reflexivity].
Qed.

Lemma traises_iff : forall l m, traises m l = true <-> exists t, raises (tget t m) (proj t l) = true.
Proof.
  induction l as [|[t0 i] l IH]; intros m; simpl.
  - split; [discriminate | intros [t H]; discriminate].
  - unfold tadd_item; simpl. destruct (add_item (tget t0 m) i) as [s' r] eqn:E.
    rewrite orb_true_iff, IH. split.
    + intros [->|[t H]].
      * exists t0. rewrite N.eqb_refl. simpl. rewrite E. reflexivity.
      * exists t. rewrite tget_tset in H. destruct (t =? t0)%N eqn:F.
        -- apply N.eqb_eq in F. subst t0. simpl. rewrite E, H. apply orb_true_r.
        -- exact H.
    + intros [t H]. destruct (t =? t0)%N eqn:F.
      * apply N.eqb_eq in F. subst t0. simpl in H. rewrite E in H. apply orb_true_iff in H.
        destruct H as [H|H]; [left; exact H | right; exists t; rewrite tget_tset, N.eqb_refl; exact H].
      * right. exists t. rewrite tget_tset, F. exact H.
Qed.

Lemma proj_perm t l l' : Permutation l l' -> Permutation (proj t l) (proj t l').
Proof.
  induction 1 as [| [t1 x] l l' _ IH | [t1 x] [t2 y] l | l l' l'' _ IH1 _ IH2]; simpl.
  - constructor.
  - destruct (t =? t1)%N; [constructor|]; exact IH.
  - destruct (t =? t1)%N, (t =? t2)%N; try apply Permutation_refl. apply perm_swap.
  - eapply Permutation_trans; eauto.
Qed.

Theorem traises_perm m l l' :
  (forall t, Inv (tget t m)) -> (forall t, (sim_count (tget t m) + count_sims (proj t l) <= 1)%nat) ->
  Permutation l l' -> traises m l = traises m l'.
Proof.
  intros HI HC Hp.
  assert (G : forall a b, Permutation a b -> (forall t, (sim_count (tget t m) + count_sims (proj t a) <= 1)%nat) ->
              traises m a = true -> traises m b = true).
  { intros a b Hab Hc H. apply traises_iff in H. destruct H as [t H]. apply traises_iff. exists t.
    rewrite <- (raises_perm (tget t m) (proj t a) (proj t b) (HI t) (Hc t) (proj_perm t a b Hab)). exact H. }
  destruct (traises m l) eqn:A, (traises m l') eqn:B; try reflexivity.
  - rewrite (G l l' Hp HC A) in B. discriminate.
  - assert (HC' : forall t, (sim_count (tget t m) + count_sims (proj t l') <= 1)%nat).
    { intros t. rewrite <- (count_sims_perm _ _ (proj_perm t l l' Hp)). apply HC. }
    rewrite (G l' l (Permutation_sym Hp) HC' B) in A. discriminate.
Qed.

Corollary traises_perm_reach m l l' :
  treach m -> (forall t, (sim_count (tget t m) + count_sims (proj t l) <= 1)%nat) ->
  Permutation l l' -> traises m l = traises m l'.
Proof. intros H. apply traises_perm. apply treach_Inv, H. Qed.

(* ------------------------------------------------------------------ the hypothesis "at most one simulated effect" is needed:
   set_simulated_effect REPLACES the previous one, so with two of them the order decides which one is in force *)
Definition ex_assign (f : N) : effect :=
  {| e_fluent := f; e_bool := false; e_kind := KAssign; e_value := VNum 1; e_cond := false; e_tag := 0 |}.
Example two_sims_order_matters :
  raises tp_empty [ISim [1%N]; ISim [2%N]; IEff (ex_assign 1)] = false /\
  raises tp_empty [ISim [2%N]; ISim [1%N]; IEff (ex_assign 1)] = true.
Proof. split; vm_compute; reflexivity. Qed.

(* ------------------------------------------------------------------ the code before commit "fix: do not record a rejected
   increase/decrease ..." added the fluent to fluents_inc_dec BEFORE the simulated-effect test; kept only to document
   what the repaired order buys: with the old order a rejected insertion changed the bookkeeping *)
Definition check_incdec_before_fix (e : effect) (sm : option (list N)) (fa : fdict) (fid : fset) : fdict * fset * bool :=
  if has_key (e_fluent e) fa then (fa, fid, true)
  else if in_sim (e_fluent e) sm then (fa, set_add (e_fluent e) fid, true)
  else (fa, set_add (e_fluent e) fid, false).
Example before_fix_rejected_changes_bookkeeping :
  let e := {| e_fluent := 1; e_bool := false; e_kind := KIncrease; e_value := VNum 1; e_cond := false; e_tag := 0 |} in
  check_incdec_before_fix e (Some [1%N]) [] [] = ([], [1%N], true).
Proof. reflexivity. Qed.
