(* Proofs about the timed-to-sequential back conversion (C28): chosen durations and spacing. *)
From Coq Require Import List ZArith NArith QArith Bool Lia Lqa.
Import ListNotations.
Require Import UPV.Model.T2S.
Open Scope Q_scope.

Lemma Qlt_bool_iff a b : Qlt_bool a b = true <-> a < b.
Proof.
  unfold Qlt_bool. rewrite negb_true_iff. split; intros H.
  - destruct (Qlt_le_dec a b) as [L|L]; [exact L|]. apply Qle_bool_iff in L. congruence.
  - destruct (Qle_bool b a) eqn:E; [|reflexivity]. apply Qle_bool_iff in E. exfalso. apply (Qlt_not_le _ _ H E).
Qed.

(* ------------------------------------------------------------------ the duration choice *)
Theorem chosen_duration_in_interval lo hi lopen ropen :
  nonempty lo hi lopen ropen -> in_interval (choose_duration lo hi lopen) lo hi lopen ropen.
Proof.
  unfold nonempty, in_interval, choose_duration.
  assert (M : lo < hi -> lo < (lo + hi) / 2 /\ (lo + hi) / 2 < hi).
  { intros H. split; [apply Qlt_shift_div_l | apply Qlt_shift_div_r]; lra. }
  destruct lopen, ropen; cbn [orb]; intros H; rewrite Qred_correct;
    try (destruct (M H) as [M1 M2]); split; lra.
Qed.

Lemma choose_closed_left lo hi hi' : choose_duration lo hi false = choose_duration lo hi' false.
Proof. reflexivity. Qed.

Theorem step_duration_in_interval s lo hi lopen ropen d l h :
  s_kind s = SDur lo hi lopen ropen ->
  step_duration s = Some (Some d) ->
  beval (s_state s) (s_params s) lo = Some l ->
  beval (s_state s) (s_params s) hi = Some h ->
  nonempty l h lopen ropen ->
  in_interval d l h lopen ropen.
Proof.
  intros K D L H NE. unfold step_duration in D. rewrite K, L in D. cbn [obind] in D.
  destruct lopen.
  - rewrite H in D. cbn [obind] in D.
    assert (E : d = choose_duration l h true) by congruence.
    rewrite E. apply chosen_duration_in_interval. exact NE.
  - assert (E : d = choose_duration l l false) by congruence.
    rewrite E, (choose_closed_left l l h). apply chosen_duration_in_interval. exact NE.
Qed.

(* a durative step whose lower bound (and, for a left-open interval, upper bound) has a value gets a duration; an
   instantaneous step gets none *)
Lemma step_duration_inst s : s_kind s = SInst -> step_duration s = Some None.
Proof. intros K. unfold step_duration. rewrite K. reflexivity. Qed.

Lemma step_duration_dur_some s lo hi lopen ropen x :
  s_kind s = SDur lo hi lopen ropen -> step_duration s = Some x -> exists d, x = Some d.
Proof.
  intros K D. unfold step_duration in D. rewrite K in D.
  destruct (beval (s_state s) (s_params s) lo) as [l|]; [|discriminate]. cbn [obind] in D.
  destruct lopen.
  - destruct (beval (s_state s) (s_params s) hi) as [h|]; [|discriminate]. cbn [obind] in D.
    inversion D. eexists; reflexivity.
  - inversion D. eexists; reflexivity.
Qed.

(* ------------------------------------------------------------------ the whole conversion *)
Lemma back_conv_cons eps now s rest :
  back_conv eps now (s :: rest) =
  match step_duration s with
  | None => None
  | Some None => option_map (cons (now, None)) (back_conv eps (Qred (now + eps)) rest)
  | Some (Some d) => option_map (cons (now, Some d)) (back_conv eps (Qred (now + d + eps)) rest)
  end.
Proof. reflexivity. Qed.

(* every entry of the result carries the duration chosen for its step: one entry per step, in order *)
Inductive matches : list sstep -> list tentry -> Prop :=
| m_nil : matches [] []
| m_cons s steps e out : step_duration s = Some (snd e) -> matches steps out -> matches (s :: steps) (e :: out).

Theorem back_conv_matches eps : forall steps now out, back_conv eps now steps = Some out -> matches steps out.
Proof.
  induction steps as [|s steps IH]; intros now out H.
  - inversion H; constructor.
  - rewrite back_conv_cons in H. destruct (step_duration s) as [[d|]|] eqn:D; [| |discriminate].
    + destruct (back_conv eps (Qred (now + d + eps)) steps) as [r|] eqn:R; [|discriminate].
      inversion H; subst. constructor; [exact D| eapply IH; exact R].
    + destruct (back_conv eps (Qred (now + eps)) steps) as [r|] eqn:R; [|discriminate].
      inversion H; subst. constructor; [exact D| eapply IH; exact R].
Qed.

(* all chosen durations lie in their intervals (whenever the interval, evaluated in the step's state, is non-empty) *)
Definition step_entry_in_interval (s : sstep) (e : tentry) : Prop :=
  match s_kind s with
  | SInst => snd e = None
  | SDur lo hi lopen ropen =>
      exists d, snd e = Some d /\
        forall l h, beval (s_state s) (s_params s) lo = Some l -> beval (s_state s) (s_params s) hi = Some h ->
                    nonempty l h lopen ropen -> in_interval d l h lopen ropen
  end.

Theorem back_conv_durations_in_intervals eps steps now out :
  back_conv eps now steps = Some out -> Forall2 step_entry_in_interval steps out.
Proof.
  intros H. apply back_conv_matches in H. induction H as [|s steps e out D _ IH]; constructor; [|exact IH].
  unfold step_entry_in_interval. destruct (s_kind s) as [|lo hi lopen ropen] eqn:K.
  - rewrite (step_duration_inst s K) in D. inversion D; reflexivity.
  - destruct (step_duration_dur_some s lo hi lopen ropen _ K D) as [d Hd].
    exists d. split; [exact Hd|]. intros l h L Hh NE. rewrite Hd in D.
    eapply step_duration_in_interval; eauto.
Qed.

(* spacing *)
Fixpoint chained (eps : Q) (out : list tentry) : Prop :=
  match out with
  | e1 :: ((e2 :: _) as rest) => fst e2 == end_of e1 + eps /\ chained eps rest
  | _ => True
  end.

Lemma back_conv_head eps steps now e out : back_conv eps now steps = Some (e :: out) -> fst e = now.
Proof.
  destruct steps as [|s steps]; intros H; [discriminate|].
  rewrite back_conv_cons in H. destruct (step_duration s) as [[d|]|]; [| |discriminate].
  - destruct (back_conv eps (Qred (now + d + eps)) steps); [|discriminate]. inversion H; reflexivity.
  - destruct (back_conv eps (Qred (now + eps)) steps); [|discriminate]. inversion H; reflexivity.
Qed.

Theorem back_conv_chained eps : forall steps now out, back_conv eps now steps = Some out -> chained eps out.
Proof.
  induction steps as [|s steps IH]; intros now out H.
  - inversion H; exact I.
  - rewrite back_conv_cons in H. destruct (step_duration s) as [[d|]|] eqn:D; [| |discriminate].
    + destruct (back_conv eps (Qred (now + d + eps)) steps) as [r|] eqn:R; [|discriminate].
      inversion H; subst. destruct r as [|e2 r]; [exact I|]. split; [|eapply IH; exact R].
      rewrite (back_conv_head _ _ _ _ _ R). unfold end_of, dur_of; cbn [fst snd]. rewrite Qred_correct. ring.
    + destruct (back_conv eps (Qred (now + eps)) steps) as [r|] eqn:R; [|discriminate].
      inversion H; subst. destruct r as [|e2 r]; [exact I|]. split; [|eapply IH; exact R].
      rewrite (back_conv_head _ _ _ _ _ R). unfold end_of, dur_of; cbn [fst snd]. rewrite Qred_correct. ring.
Qed.

(* consecutive actions: the next one starts exactly eps after the previous one ends, hence strictly after it *)
Fixpoint consecutive_after (out : list tentry) : Prop :=
  match out with
  | e1 :: ((e2 :: _) as rest) => end_of e1 < fst e2 /\ consecutive_after rest
  | _ => True
  end.

Lemma chained_consecutive eps out : 0 < eps -> chained eps out -> consecutive_after out.
Proof.
  intros He. induction out as [|e1 out IH]; [intros _; exact I|].
  destruct out as [|e2 out]; [intros _; exact I|].
  intros [H1 H2]. split; [rewrite H1; lra| apply IH; exact H2].
Qed.

Theorem no_overlap_between_consecutive eps steps now out :
  0 < eps -> back_conv eps now steps = Some out -> consecutive_after out.
Proof. intros He H. eapply chained_consecutive; [exact He| eapply back_conv_chained; exact H]. Qed.

(* with non-negative durations no two actions of the plan overlap at all: every action ends strictly before every
   later action starts *)
Lemma chained_later_starts eps : 0 < eps -> forall out e1,
  Forall (fun e => 0 <= dur_of e) (e1 :: out) -> chained eps (e1 :: out) -> Forall (fun e => end_of e1 < fst e) out.
Proof.
  intros He. induction out as [|e2 out IH]; intros e1 Hd Hc; [constructor|].
  destruct Hc as [H1 H2]. inversion Hd as [|? ? Hd1 Hd']; subst. inversion Hd' as [|? ? Hd2 Hd'']; subst.
  constructor; [rewrite H1; lra|].
  assert (IH2 := IH e2 Hd' H2).
  eapply Forall_impl; [|exact IH2]. intros e Hlt. simpl in Hlt.
  unfold end_of in *. lra.
Qed.

Theorem no_overlap_all_pairs eps steps now out :
  0 < eps -> back_conv eps now steps = Some out -> Forall (fun e => 0 <= dur_of e) out ->
  ForallOrdPairs (fun a b => end_of a < fst b) out.
Proof.
  intros He H Hd. apply back_conv_chained in H.
  induction out as [|e1 out IH]; [constructor|].
  constructor.
  - apply (chained_later_starts eps He out e1 Hd H).
  - apply IH; [destruct out; [exact I| exact (proj2 H)] | inversion Hd; assumption].
Qed.

(* the first action starts at the given origin (0 in the code) *)
Theorem first_starts_at_origin eps steps now e out : back_conv eps now steps = Some (e :: out) -> fst e = now.
Proof. apply back_conv_head. Qed.

(* the boolean judge used on the implementation's output is sound for the Prop-level statements *)
Lemma in_intervalb_sound d lo hi lopen ropen : in_intervalb d lo hi lopen ropen = true -> in_interval d lo hi lopen ropen.
Proof.
  unfold in_intervalb, in_interval. intros H. apply andb_true_iff in H as [H1 H2].
  split; [destruct lopen | destruct ropen];
    first [apply Qlt_bool_iff; assumption | apply Qle_bool_iff; assumption].
Qed.

Lemma spaced_sound out : spaced out = true -> consecutive_after out.
Proof.
  induction out as [|e1 out IH]; [intros _; exact I|].
  destruct out as [|e2 out]; [intros _; exact I|].
  intros H. cbn [spaced] in H. apply andb_true_iff in H as [H12 H3]. apply andb_true_iff in H12 as [_ H2].
  split; [apply Qlt_bool_iff; exact H2 | apply IH; exact H3].
Qed.
