(* Soundness of walk_exists / walk_forall G (pruning of unused variables, equality elimination) and the main theorem. *)
From Coq Require Import List ZArith NArith QArith Qcanon Bool Lia.
Import ListNotations.
Require Import UPV.Core.Expr UPV.Core.Eval UPV.Proofs.Eval_lemmas UPV.Walkers.Simplify UPV.Proofs.Simplify_base
  UPV.Proofs.Simplify_fv UPV.Proofs.Simplify_sem UPV.Proofs.Simplify_wf UPV.Proofs.Simplify_wfp UPV.Proofs.Simplify_sound.
Local Open Scope nat_scope.

Lemma Forall2_diag {A} (P : A -> A -> Prop) l : (forall x, In x l -> P x x) -> Forall2 P l l.
Proof. induction l as [|a l IH]; intros H; constructor; [apply H; left; reflexivity|apply IH; intros; apply H; right; assumption]. Qed.

Lemma hd_In (d : N) l : l <> [] -> In (hd d l) l.
Proof. destruct l; [congruence|]. intros _. left. reflexivity. Qed.

(* moving between the instances of two variable lists over the same base interpretation *)
Lemma inst_transfer I vs1 vs2 g1 g2 (P : N -> Prop) J1 :
  NoDup (map fst vs2) -> assigns I vs1 g1 J1 -> typed_for I vs2 g2 ->
  (forall w, P w -> (if memN w (map fst vs1) then Some (VObj (g1 w)) else var I w)
                  = (if memN w (map fst vs2) then Some (VObj (g2 w)) else var I w)) ->
  exists J2, In J2 (instances I vs2) /\ agree P J1 J2.
Proof.
  intros ND [B1 V1] HT HV. destruct (inst_complete vs2 ND I g2 HT) as [J2 [HJ2 [B2 V2]]].
  exists J2. split; [exact HJ2|]. split.
  - eapply ieq_trans; [apply ieq_sym, same_base_ieq; exact B1|apply same_base_ieq; exact B2].
  - intros w Hw. rewrite V1, V2. apply HV. exact Hw.
Qed.

Lemma agree_R (P : N -> Prop) J J' a : (forall w, In w (free_vars a) -> P w) -> agree P J J' -> R J J' a a.
Proof.
  intros HP HA v Hv. rewrite <- Hv. symmetry. apply eval_coincide. eapply agree_mono; [|exact HA]. exact HP.
Qed.

Section Quant.
  Variables (G : cfg) (tau : N -> N) (QT : N -> bool).
  Hypothesis HG : cfg_consts G.
  Notation wf := (wfx tau QT).
  Notation eok := (env_ok G tau QT).

  (* ---------------------------------------------------------------- pruning of unused variables *)
  Lemma sound_prune ex I S vs b : eok I -> wf S (EQ ex vs b) = true -> R I I (EQ ex vs b) (EQ ex (prune G vs b) b).
  Proof.
    intros E W. assert (W' : binders_ok tau QT S vs && wf (map fst vs ++ S) b = true) by (destruct ex; exact W).
    apply andb_true_iff in W'. destruct W' as [W1 W2]. apply binders_ok_spec in W1. destruct W1 as [A ND].
    assert (ND0 : NoDup (map fst (prune G vs b))) by (apply NoDup_map_filter; exact ND).
    assert (Hsub : forall w, In w (map fst (prune G vs b)) -> In w (map fst vs)).
    { intros w Hw. apply in_map_iff in Hw. destruct Hw as [p [<- Hp]]. apply in_map. apply (prune_incl _ _ _ _ Hp). }
    assert (Hfv : forall w, In w (free_vars b) -> In w (map fst vs) -> In w (map fst (prune G vs b))).
    { intros w Hw Hin. apply in_map_iff in Hin. destruct Hin as [p [<- Hp]]. apply in_map. apply filter_In.
      split; [exact Hp|apply orb_true_iff; left; apply memN_In; exact Hw]. }
    apply cong_EQ.
    - intros J' HJ'. destruct (inst_sound _ ND0 I J' HJ') as [g' [HT' HA']].
      set (g := fun w => if memN w (map fst (prune G vs b)) then g' w else hd 0%N (objs I (tau w))).
      assert (HT : typed_for I vs g).
      { intros p Hp. destruct (A p Hp) as (A1 & A2 & A3). unfold g.
        destruct (memN (fst p) (map fst (prune G vs b))) eqn:M.
        - apply memN_In in M. apply in_map_iff in M. destruct M as [p' [E' Hp']].
          assert (Hp'' := prune_incl _ _ _ _ Hp'). destruct (A p' Hp'') as (B1 & _ & _).
          rewrite <- E'. rewrite A1, <- E', <- B1. apply HT'. exact Hp'.
        - rewrite A1. apply hd_In. apply (ok_inh _ _ _ _ E). rewrite <- A1. exact A2. }
      destruct (inst_transfer I (prune G vs b) vs g' g (fun w => In w (free_vars b)) J' ND HA' HT) as [J [HJ HAg]].
      { intros w Hw. unfold g. destruct (memN w (map fst (prune G vs b))) eqn:M1.
        - apply memN_In in M1. assert (M2 := Hsub w M1). apply memN_In in M2. rewrite M2. reflexivity.
        - destruct (memN w (map fst vs)) eqn:M2; [|reflexivity]. apply memN_In in M2. apply memN_false in M1.
          exfalso. apply M1. apply Hfv; assumption. }
      exists J. split; [exact HJ|]. apply (agree_R (fun w => In w (free_vars b))); [auto|].
      destruct HAg as [X Y]. split; [apply ieq_sym; exact X|]. intros w Hw. symmetry. apply Y. exact Hw.
    - intros J HJ. destruct (inst_sound _ ND I J HJ) as [g [HT HA']].
      assert (HT0 : typed_for I (prune G vs b) g) by (intros p Hp; apply HT; apply (prune_incl _ _ _ _ Hp)).
      destruct (inst_transfer I vs (prune G vs b) g g (fun w => In w (free_vars b)) J ND0 HA' HT0) as [J' [HJ' HAg]].
      { intros w Hw. destruct (memN w (map fst vs)) eqn:M2.
        - apply memN_In in M2. assert (M1 := Hfv w Hw M2). apply memN_In in M1. rewrite M1. reflexivity.
        - destruct (memN w (map fst (prune G vs b))) eqn:M1; [|reflexivity]. apply memN_In in M1. apply Hsub in M1.
          apply memN_In in M1. congruence. }
      exists J'. split; [exact HJ'|]. apply (agree_R (fun w => In w (free_vars b))); auto.
  Qed.

  Lemma sound_walk_forall I S vs b : eok I -> wf S (EForall vs b) = true -> R I I (EForall vs b) (walk_forall G vs b).
  Proof.
    intros E W. unfold walk_forall. eapply R_trans; [apply (sound_prune false I S vs b E W)|apply mkForall_R].
  Qed.

  (* ---------------------------------------------------------------- equality elimination *)
  Lemma in_remove_var_pair p x vs : In p vs -> fst p <> x -> In p (remove_var x vs).
  Proof.
    induction vs as [|q r IH]; intros [] Hn; cbn [remove_var].
    - subst q. apply N.eqb_neq in Hn. rewrite Hn. left. reflexivity.
    - destruct (fst q =? x)%N; [assumption|right; auto].
  Qed.

  Lemma memN_remove_var w x vs : w <> x -> memN w (map fst (remove_var x vs)) = memN w (map fst vs).
  Proof.
    intros Hn. destruct (memN w (map fst vs)) eqn:M.
    - apply memN_In. apply memN_In in M. apply in_remove_var_neq; assumption.
    - apply memN_false. apply memN_false in M. intros H. apply M. eapply in_remove_var; eauto.
  Qed.

  Lemma ebools_mid I pre c post bs :
    ebools false I (pre ++ c :: post) = Some bs ->
    exists b1 bc b2, ebools false I pre = Some b1 /\ as_bool (eval false c I) = Some bc /\ ebools false I post = Some b2 /\
                     bs = b1 ++ bc :: b2.
  Proof.
    rewrite ebools_app. cbn [ebools]. destruct (ebools false I pre) as [b1|]; [|discriminate].
    destruct (as_bool (eval false c I)) as [bc|]; [|discriminate]. destruct (ebools false I post) as [b2|]; [|discriminate].
    intros H; inversion H; subst. exists b1, bc, b2. auto.
  Qed.

  Lemma forallb_mid (b1 b2 : list bool) bc :
    forallb (fun b => b) (b1 ++ bc :: b2) = bc && forallb (fun b => b) (b1 ++ b2).
  Proof. rewrite !forallb_app. cbn. destruct (forallb _ b1), bc; reflexivity. Qed.

  Lemma eq_cand_eval K x ty t c o bc :
    (c = EEquals (EVar x ty) t \/ c = EEquals t (EVar x ty)) -> var K x = Some (VObj o) ->
    as_bool (eval false c K) = Some bc -> exists u, eval false t K = Some (VObj u) /\ bc = (o =? u)%N.
  Proof.
    intros [->| ->] HV; rewrite eval_EEquals; cbn [eval]; rewrite HV.
    - destruct (eval false t K) as [[y|y|y]|]; try discriminate. intros H; inversion H. eauto.
    - destruct (eval false t K) as [[y|y|y]|]; try discriminate. intros H; inversion H. exists y. split; [reflexivity|apply N.eqb_sym].
  Qed.

  Lemma bvars_mkAnd w l : In w (bvars (mkAnd l)) -> In w (bvl l).
  Proof.
    destruct l as [|a [|b l]]; cbn [mkAnd].
    - intros [].
    - cbn [bvl flat_map]. rewrite app_nil_r. auto.
    - rewrite bv_EAnd. auto.
  Qed.

  Lemma sound_elim_step I S vs body vs' body' :
    eok I -> wf S (EExists vs body) = true -> elim_step G vs body = Some (vs', body') ->
    R I I (EExists vs body) (EExists vs' body').
  Proof.
    intros E W ES. destruct (elim_step_spec _ _ _ _ _ ES) as [pre [c [post [x [t [-> [EC [-> ->]]]]]]]].
    cbn [wfx] in W. apply andb_true_iff in W. destruct W as [W1 W2].
    destruct (forallb_app_inv _ _ _ _ W2) as [Wr Wc].
    destruct (elim_cand_wf tau QT _ _ _ _ _ _ EC HG Wc) as (Wt & Qt & Hx & Ho).
    destruct (elim_cand_spec _ _ _ _ _ EC) as [ty [Hc [_ [_ [tv [Hu Hcompat]]]]]].
    apply binders_ok_spec in W1. destruct W1 as [A ND].
    assert (Hty : ty = tau x).
    { destruct Hc as [->| ->]; cbn [wfx] in Wc; apply andb_true_iff in Wc; destruct Wc as [C1 C2];
        [apply andb_true_iff in C1; destruct C1 as [C1 _]|apply andb_true_iff in C2; destruct C2 as [C2 _]];
        apply N.eqb_eq; assumption. }
    assert (Hinh : objs I ty <> []).
    { apply in_map_iff in Hx. destruct Hx as [p [Ep Hp]]. destruct (A p Hp) as (A1 & A2 & _).
      apply (ok_inh _ _ _ _ E). rewrite Hty, <- Ep, <- A1. exact A2. }
    assert (ND' : NoDup (map fst (remove_var x vs))) by (apply NoDup_remove_var; exact ND).
    assert (Hcap : forall w, In w (free_vars t) -> ~ In w (bvars (mkAnd (pre ++ post)))).
    { intros w Hw Hb. apply bvars_mkAnd in Hb. apply in_bvl in Hb. destruct Hb as [y [Hy Hb]].
      rewrite forallb_forall in Wr. apply (wf_bvars tau QT y _ (Wr y Hy) w Hb). eapply wf_fv; eauto. }
    assert (Htyped' : forall p, In p (remove_var x vs) -> snd p = tau (fst p)).
    { intros p Hp. apply A. apply (remove_var_incl _ _ _ Hp). }
    (* lifting an instance of the remaining variables to an instance of all of them *)
    assert (Lift : forall J' o, In J' (instances I (remove_var x vs)) -> In o (objs I ty) ->
                   exists J, In J (instances I vs) /\ iext J (bind_var J' x o)).
    { intros J' o HJ' Ho'. destruct (inst_sound _ ND' I J' HJ') as [g' [HT' [B' V']]].
      set (g := fun w => if (w =? x)%N then o else g' w).
      assert (HT : typed_for I vs g).
      { intros p Hp. unfold g. destruct (fst p =? x)%N eqn:Ex.
        - apply N.eqb_eq in Ex. destruct (A p Hp) as (A1 & _). rewrite A1, Ex, <- Hty. exact Ho'.
        - apply N.eqb_neq in Ex. apply HT'. apply in_remove_var_pair; assumption. }
      destruct (inst_complete vs ND I g HT) as [J [HJ [B V]]]. exists J. split; [exact HJ|]. split.
      - eapply ieq_trans; [apply ieq_sym, same_base_ieq; exact B|].
        eapply ieq_trans; [apply same_base_ieq; exact B'|]. repeat split.
      - intros w _. rewrite V. unfold g. simpl. destruct (w =? x)%N eqn:Ex.
        + apply N.eqb_eq in Ex. subst w. apply memN_In in Hx. rewrite Hx. reflexivity.
        + rewrite V'. apply N.eqb_neq in Ex. rewrite (memN_remove_var w x vs Ex). reflexivity. }
    assert (Proj : forall J, In J (instances I vs) ->
                   exists J' o, In J' (instances I (remove_var x vs)) /\ In o (objs I ty) /\ iext J (bind_var J' x o)).
    { intros J HJ. destruct (inst_sound _ ND I J HJ) as [g [HT [B V]]].
      assert (HT' : typed_for I (remove_var x vs) g) by (intros p Hp; apply HT; apply (remove_var_incl _ _ _ Hp)).
      destruct (inst_complete _ ND' I g HT') as [J' [HJ' [B' V']]]. exists J', (g x). split; [exact HJ'|]. split.
      - apply in_map_iff in Hx. destruct Hx as [p [Ep Hp]]. destruct (A p Hp) as (A1 & _).
        rewrite Hty, <- Ep, <- A1. apply HT. exact Hp.
      - split.
        + eapply ieq_trans; [apply ieq_sym, same_base_ieq; exact B|].
          eapply ieq_trans; [apply same_base_ieq; exact B'|]. repeat split.
        + intros w _. rewrite V. simpl. destruct (w =? x)%N eqn:Ex.
          * apply N.eqb_eq in Ex. subst w. apply memN_In in Hx. rewrite Hx. reflexivity.
          * rewrite V'. apply N.eqb_neq in Ex. rewrite (memN_remove_var w x vs Ex). reflexivity. }
    (* the value of t does not depend on x *)
    assert (Ht_indep : forall J' o, eval false t (bind_var J' x o) = eval false t J').
    { intros J' o. apply eval_coincide. split; [repeat split|]. intros w Hw. simpl.
      destruct (w =? x)%N eqn:Ex; [|reflexivity]. apply N.eqb_eq in Ex. subst. tauto. }
    (* evaluation of the body at an instance where x has the value of t *)
    assert (Body : forall J' u bq, eval false t J' = Some (VObj u) ->
                   as_bool (eval false (EAnd (pre ++ c :: post)) (bind_var J' x u)) = Some bq ->
                   as_bool (eval false (subst x t (mkAnd (pre ++ post))) J') = Some bq).
    { intros J' u bq Hu' Hb. rewrite eval_EAnd in Hb.
      destruct (ebools false (bind_var J' x u) (pre ++ c :: post)) as [bs|] eqn:Eb; [|discriminate].
      destruct (ebools_mid _ _ _ _ _ Eb) as (b1 & bc & b2 & E1 & Ec & E2 & ->).
      assert (HVx : var (bind_var J' x u) x = Some (VObj u)) by (simpl; rewrite N.eqb_refl; reflexivity).
      destruct (eq_cand_eval _ _ _ _ _ _ _ Hc HVx Ec) as [u' [Hu'' ->]].
      rewrite Ht_indep, Hu' in Hu''. inversion Hu''; subst u'. rewrite N.eqb_refl in Hb.
      simpl in Hb. rewrite forallb_mid in Hb. simpl in Hb. inversion Hb; subst bq.
      assert (Ev : eval false (EAnd (pre ++ post)) (bind_var J' x u) = Some (VBool (forallb (fun b => b) (b1 ++ b2)))).
      { rewrite eval_EAnd, ebools_app, E1, E2. reflexivity. }
      apply mkAnd_R in Ev. apply (subst_R x t _ J' u Hcap Hu') in Ev. rewrite Ev. reflexivity. }
    intros v. rewrite !eval_EExists.
    destruct (q_fold false true (map (fun J => as_bool (eval false (EAnd (pre ++ c :: post)) J)) (instances I vs))) as [bq|] eqn:Q;
      [|discriminate].
    intros Hv. rewrite (qf_refine true _ _ _ (fun J' => as_bool (eval false (subst x t (mkAnd (pre ++ post))) J')) bq Q); [exact Hv| |].
    - (* every instance of the remaining variables is covered *)
      intros J' HJ'.
      assert (Hd := qf_all_def _ _ _ Q). rewrite Forall_forall in Hd.
      assert (EJ' : eok J') by (eapply env_ok_inst; eauto).
      destruct (inst_base _ _ _ HJ') as [[_ [_ [_ Bobjs]]] _].
      (* the value of t at J' *)
      assert (K : exists u, eval false t J' = Some (VObj u) /\ In u (objs I ty)).
      { destruct (objs I ty) as [|o0 rest] eqn:Eo; [congruence|].
        destruct (Lift J' o0 HJ') as [J0 [HJ0 HE0]]; [try rewrite Eo; left; reflexivity|].
        assert (D0 := Hd _ (in_map (fun J => as_bool (eval false (EAnd (pre ++ c :: post)) J)) _ _ HJ0)).
        rewrite (eval_iext false _ _ _ HE0) in D0.
        destruct (as_bool (eval false (EAnd (pre ++ c :: post)) (bind_var J' x o0))) as [b0|] eqn:E0; [|congruence].
        rewrite eval_EAnd in E0. destruct (ebools false (bind_var J' x o0) (pre ++ c :: post)) as [bs|] eqn:Eb; [|discriminate].
        destruct (ebools_mid _ _ _ _ _ Eb) as (b1 & bc & b2 & _ & Ec & _ & _).
        assert (HVx : var (bind_var J' x o0) x = Some (VObj o0)) by (simpl; rewrite N.eqb_refl; reflexivity).
        destruct (eq_cand_eval _ _ _ _ _ _ _ Hc HVx Ec) as [u [Hu' _]]. rewrite Ht_indep in Hu'.
        exists u. split; [exact Hu'|].
        destruct (head_typed _ _ _ _ _ _ _ _ EJ' Wt Hu Hu') as [u' [Eu Hin]]. inversion Eu; subst u'.
        rewrite Bobjs in Hin. rewrite <- Eo. apply (ok_sub _ _ _ _ E ty tv u Hcompat Hin). }
      destruct K as [u [Hu' Hin]].
      destruct (Lift J' u HJ' Hin) as [Ju [HJu HEu]]. exists Ju. split; [exact HJu|].
      intros c0 Hc0. rewrite (eval_iext false _ _ _ HEu) in Hc0. apply (Body J' u c0 Hu' Hc0).
    - (* a true instance gives a true instance *)
      intros J HJ HT. destruct (Proj J HJ) as [J' [o [HJ' [Ho' HE]]]]. exists J'. split; [exact HJ'|].
      rewrite (eval_iext false _ _ _ HE) in HT.
      assert (Hu' : eval false t J' = Some (VObj o)).
      { rewrite eval_EAnd in HT. destruct (ebools false (bind_var J' x o) (pre ++ c :: post)) as [bs|] eqn:Eb; [|discriminate].
        destruct (ebools_mid _ _ _ _ _ Eb) as (b1 & bc & b2 & _ & Ec & _ & ->).
        assert (HVx : var (bind_var J' x o) x = Some (VObj o)) by (simpl; rewrite N.eqb_refl; reflexivity).
        destruct (eq_cand_eval _ _ _ _ _ _ _ Hc HVx Ec) as [u [Hu' ->]]. rewrite Ht_indep in Hu'.
        simpl in HT. rewrite forallb_mid in HT. inversion HT as [HT']. apply andb_true_iff in HT'. destruct HT' as [HT' _].
        apply N.eqb_eq in HT'. subst u. exact Hu'. }
      apply (Body J' o true Hu' HT).
  Qed.

  Lemma sound_elim_loop I S k : forall vs body vs' body',
    eok I -> wf S (EExists vs body) = true -> elim_loop G k vs body = (vs', body') ->
    R I I (EExists vs body) (EExists vs' body').
  Proof.
    induction k as [|k IH]; intros vs body vs' body' E W H; cbn [elim_loop] in H.
    - inversion H; subst. apply R_refl.
    - destruct (elim_step G vs body) as [[vs1 b1]|] eqn:ES.
      + eapply R_trans; [eapply sound_elim_step; eauto|]. eapply IH; eauto. eapply wf_elim_step; eauto.
      + inversion H; subst. apply R_refl.
  Qed.

  Lemma sound_walk_exists rs I S vs b :
    (forall x S' I', wf S' x = true -> eok I' -> R I' I' x (rs x)) ->
    eok I -> wf S (EExists vs b) = true -> R I I (EExists vs b) (walk_exists G rs vs b).
  Proof.
    intros Hrs E W. unfold walk_exists.
    assert (W0 := wf_quant_prune tau QT G true vs b S W). cbn [EQ] in W0.
    assert (R0 := sound_prune true I S vs b E W). cbn [EQ] in R0.
    destruct (elim_step G (prune G vs b) b) as [p|] eqn:ES.
    - destruct (elim_loop G (length (prune G vs b)) (prune G vs b) b) as [vs1 b1] eqn:L.
      eapply R_trans; [exact R0|]. eapply R_trans; [eapply sound_elim_loop; eauto|].
      eapply R_trans; [apply mkExists_R|]. apply (Hrs _ S); [|exact E].
      apply wf_mkExists. eapply wf_elim_loop; eauto.
    - eapply R_trans; [exact R0|apply mkExists_R].
  Qed.

  (* ---------------------------------------------------------------- the main induction *)
  Lemma Forall2_R_map I f l :
    (forall x, In x l -> R I I x (f x)) -> Forall2 (R I I) l (map f l).
  Proof. intros H. apply Forall2_map_l. exact H. Qed.

  Lemma simp_sound_gen n :
    (forall x S I, wf S x = true -> eok I -> R I I x (resimp G n x)) ->
    forall e S I, wf S e = true -> eok I -> R I I e (simp G n e).
  Proof.
    intros Hrs.
    induction e using expr_ind'; intros S I W E; autorewrite with simp_unfold; try apply R_refl; cbn [wfx] in W.
    - (* EFluent *)
      eapply R_trans; [apply (cong_EFluent I I f args (map (simp G n) args)); [reflexivity|]|eapply sound_walk_fluent; eauto].
      apply Forall2_R_map. intros y Hy. rewrite Forall_forall in H. rewrite forallb_forall in W. specialize (W y Hy).
      apply andb_true_iff in W. eapply H; [exact Hy|apply W|exact E].
    - eapply R_trans; [apply (cong_EIFun I I f args (map (simp G n) args)); [reflexivity|]|eapply sound_walk_ifun; eauto].
      apply Forall2_R_map. intros y Hy. rewrite Forall_forall in H. rewrite forallb_forall in W. specialize (W y Hy).
      apply andb_true_iff in W. eapply H; [exact Hy|apply W|exact E].
    - eapply R_trans; [apply (cong_EAnd I I l (map (simp G n) l))|apply (sound_walk_junct I true)].
      apply Forall2_R_map. intros y Hy. rewrite Forall_forall in H. rewrite forallb_forall in W. eapply H; eauto.
    - eapply R_trans; [apply (cong_EOr I I l (map (simp G n) l))|apply (sound_walk_junct I false)].
      apply Forall2_R_map. intros y Hy. rewrite Forall_forall in H. rewrite forallb_forall in W. eapply H; eauto.
    - eapply R_trans; [apply cong_ENot; eapply IHe; eauto|apply sound_walk_not].
    - apply andb_true_iff in W. destruct W as [W1 W2].
      eapply R_trans; [apply cong_EImplies; [eapply IHe1|eapply IHe2]; eauto|apply sound_walk_implies].
    - apply andb_true_iff in W. destruct W as [W1 W2].
      eapply R_trans; [apply cong_EIff; [eapply IHe1|eapply IHe2]; eauto|apply sound_walk_iff].
    - (* EExists *)
      apply andb_true_iff in W. destruct W as [W1 W2].
      assert (W1' := W1). apply binders_ok_spec in W1'. destruct W1' as [A ND].
      eapply R_trans.
      + apply (cong_EQ_F2 true I I vs vs e (simp G n e)). apply Forall2_diag. intros J HJ.
        eapply IHe; [exact W2|]. eapply env_ok_inst; eauto. intros p Hp. apply A. exact Hp.
      + cbn [EQ]. apply (sound_walk_exists _ I S); [exact Hrs|exact E|].
        cbn [wfx]. rewrite W1. simpl. apply simp_wf; assumption.
    - apply andb_true_iff in W. destruct W as [W1 W2].
      assert (W1' := W1). apply binders_ok_spec in W1'. destruct W1' as [A ND].
      eapply R_trans.
      + apply (cong_EQ_F2 false I I vs vs e (simp G n e)). apply Forall2_diag. intros J HJ.
        eapply IHe; [exact W2|]. eapply env_ok_inst; eauto. intros p Hp. apply A. exact Hp.
      + cbn [EQ]. apply (sound_walk_forall I S); [exact E|].
        cbn [wfx]. rewrite W1. simpl. apply simp_wf; assumption.
    - eapply R_trans; [apply (cong_EPlus I I l (map (simp G n) l))|apply (sound_walk_arith I false)].
      apply Forall2_R_map. intros y Hy. rewrite Forall_forall in H. rewrite forallb_forall in W. eapply H; eauto.
    - apply andb_true_iff in W. destruct W as [W1 W2].
      eapply R_trans; [apply cong_EMinus; [eapply IHe1|eapply IHe2]; eauto|apply sound_walk_minus].
    - eapply R_trans; [apply (cong_ETimes I I l (map (simp G n) l))|apply (sound_walk_arith I true)].
      apply Forall2_R_map. intros y Hy. rewrite Forall_forall in H. rewrite forallb_forall in W. eapply H; eauto.
    - apply andb_true_iff in W. destruct W as [W1 W2].
      eapply R_trans; [apply cong_EDiv; [eapply IHe1|eapply IHe2]; eauto|apply sound_walk_div].
    - apply andb_true_iff in W. destruct W as [W1 W2].
      eapply R_trans; [apply cong_ELe; [eapply IHe1|eapply IHe2]; eauto|apply sound_walk_le].
    - apply andb_true_iff in W. destruct W as [W1 W2].
      eapply R_trans; [apply cong_ELt; [eapply IHe1|eapply IHe2]; eauto|apply sound_walk_lt].
    - apply andb_true_iff in W. destruct W as [W1 W2].
      eapply R_trans; [apply cong_EEquals; [eapply IHe1|eapply IHe2]; eauto|].
      eapply (sound_walk_equals G tau QT I S); [exact E| |]; apply simp_wf; assumption.
    - intros v Hv. discriminate Hv.
    - intros v Hv. discriminate Hv.
    - intros v Hv. discriminate Hv.
    - intros v Hv. discriminate Hv.
    - intros v Hv. discriminate Hv.
  Qed.

  Theorem simp_sound n : forall e S I, wf S e = true -> eok I -> R I I e (simp G n e).
  Proof.
    induction n as [|n IHn]; apply simp_sound_gen.
    - intros x S I _ _. apply R_refl.
    - exact IHn.
  Qed.
End Quant.
