(* The simulator's ordered effect loop computes exactly the declarative per-fluent combination (C01 core).
   Structure: (1) a per-fluent automaton [kstep] is what the loop does to one ground fluent (step_proj, loop_proj);
   (2) folding the automaton over the effects on one fluent equals the declarative [combine] (kfold_spec). *)
From Coq Require Import List ZArith NArith QArith Qcanon Bool Lia.
Import ListNotations.
Require Import UPV.Core.Expr UPV.Core.Eval UPV.Core.Interp UPV.Planning.Problem UPV.Planning.Sem.
Require Import UPV.Proofs.Eval_lemmas.

Lemma value_eqb_refl v : value_eqb v v = true.
Proof. apply value_eqb_eq; reflexivity. Qed.

Lemma sum_deltas_app c d1 d2 :
  sum_deltas c (d1 ++ d2) = match sum_deltas c d1 with Some r => sum_deltas r d2 | None => None end.
Proof.
  revert c; induction d1 as [|[d|] d1 IH]; intros c; simpl; [reflexivity | apply IH | reflexivity].
Qed.

(* per-fluent automaton: the loop's bookkeeping restricted to one ground fluent *)
Definition ks := (option value * bool)%type.
Definition kdelta (kind : ekind) (v : value) : option Qc :=
  match v, kind with VNum d, KInc => Some d | VNum d, KDec => Some (Qcopp d) | _, _ => None end.

Definition kstep (isb : bool) (old : option value) (st : ks) (x : ekind * value) : option ks :=
  let '(u, m) := st in
  let '(kind, v) := x in
  match kind with
  | KAssign =>
      match u with
      | Some o =>
          if negb (value_eqb v o)
          then (if isb then (match o with VBool false => Some (Some v, m) | _ => Some (u, m) end) else None)
          else if negb m then None else Some (Some v, true)
      | None => Some (Some v, true)
      end
  | _ =>
      if m then None
      else match old with
           | None => None
           | Some cur0 =>
               let cur := match u with Some w => w | None => cur0 end in
               match cur, kdelta kind v with
               | VNum c, Some d => Some (Some (VNum (Qcplus c d)), m)
               | _, _ => None
               end
           end
  end.

Fixpoint kfold (isb : bool) (old : option value) (st : ks) (l : list (ekind * value)) : option ks :=
  match l with
  | [] => Some st
  | x :: l' => match kstep isb old st x with Some st' => kfold isb old st' l' | None => None end
  end.

Definition kA (l : list (ekind * value)) : list value :=
  map snd (filter (fun x => match fst x with KAssign => true | _ => false end) l).
Definition kD (l : list (ekind * value)) : list (option Qc) :=
  map (fun x => kdelta (fst x) (snd x)) (filter (fun x => match fst x with KAssign => false | _ => true end) l).

Definition kwt (isb : bool) (x : ekind * value) : bool :=
  if isb then (match fst x with KAssign => is_vbool (snd x) | _ => false end) else true.

Definition kspec (isb : bool) (old : option value) (l : list (ekind * value)) : option ks :=
  match combine isb old (kA l) (kD l) with
  | CUnchanged => Some (None, false)
  | CVal v => Some (Some v, negb (match kA l with [] => true | _ => false end))
  | CFail => None
  end.

Lemma kfold_app isb old st l1 l2 :
  kfold isb old st (l1 ++ l2) = match kfold isb old st l1 with Some st' => kfold isb old st' l2 | None => None end.
Proof.
  revert st; induction l1 as [|x l1 IH]; intros st; simpl; [reflexivity|].
  destruct (kstep isb old st x); [apply IH | reflexivity].
Qed.

Arguments sum_deltas : simpl never.
Lemma kD_bool l : forallb (kwt true) l = true -> kD l = [].
Proof.
  induction l as [|[k v] l IH]; simpl; intros H; [reflexivity|].
  apply andb_true_iff in H. destruct H as [H1 H2]. unfold kwt in H1. simpl in H1.
  destruct k; try discriminate. unfold kD. simpl. apply IH. exact H2.
Qed.

Lemma kfold_spec isb old l : forallb (kwt isb) l = true -> kfold isb old (None, false) l = kspec isb old l.
Proof.
  induction l as [|x l IH] using rev_ind; intros WT; [reflexivity|].
  rewrite forallb_app in WT. apply andb_true_iff in WT. destruct WT as [WT Wx]. simpl in Wx. rewrite andb_true_r in Wx.
  rewrite kfold_app, IH by exact WT. clear IH.
  unfold kspec, kA, kD. rewrite !filter_app, !map_app. simpl.
  fold (kA l). fold (kD l).
  destruct x as [kind v]. unfold kwt in Wx. simpl in Wx.
  destruct isb.
  - (* Boolean fluent: only Boolean assignments *)
    rewrite (kD_bool l WT). destruct kind; try discriminate. destruct v as [bv| |]; try discriminate.
    simpl.
    destruct (kA l) as [|a0 A] eqn:EA; simpl; [destruct bv; reflexivity|].
    rewrite existsb_app. simpl. rewrite orb_false_r, orb_assoc.
    destruct (is_vtrue a0 || existsb is_vtrue A) eqn:EO; simpl.
    + destruct bv; simpl; reflexivity.
    + destruct bv; simpl; reflexivity.
  - (* non-Boolean fluent *)
    destruct kind; simpl.
    + rewrite app_nil_r.
      destruct (kA l) as [|a0 A] eqn:EA, (kD l) as [|d0 D] eqn:ED; simpl; try reflexivity.
      * destruct old as [[b|c|o]|]; try reflexivity.
        destruct (sum_deltas c (d0 :: D)) as [r|] eqn:ES; simpl; [|reflexivity].
        destruct (negb (value_eqb v (VNum r))); reflexivity.
      * rewrite forallb_app. simpl. rewrite andb_true_r.
        destruct (forallb (value_eqb a0) A) eqn:EAll; simpl; [|reflexivity].
        destruct (value_eqb v a0) eqn:EV; simpl.
        -- apply value_eqb_eq in EV. subst. rewrite value_eqb_refl. reflexivity.
        -- destruct (value_eqb a0 v) eqn:EV2; [|reflexivity].
           apply value_eqb_eq in EV2. subst. rewrite value_eqb_refl in EV. discriminate.
    + rewrite app_nil_r.
      destruct (kA l) as [|a0 A] eqn:EA, (kD l) as [|d0 D] eqn:ED; simpl.
      * destruct old as [[b|c|o]|]; try reflexivity.
        unfold sum_deltas. destruct (kdelta KInc v); reflexivity.
      * destruct old as [[b|c|o]|]; try reflexivity.
        change (d0 :: D ++ [kdelta KInc v]) with ((d0 :: D) ++ [kdelta KInc v]).
        rewrite sum_deltas_app.
        destruct (sum_deltas c (d0 :: D)) as [r|] eqn:ES; simpl; [|reflexivity].
        unfold sum_deltas. destruct (kdelta KInc v); reflexivity.
      * destruct (forallb (value_eqb a0) A); reflexivity.
      * reflexivity.
    + rewrite app_nil_r.
      destruct (kA l) as [|a0 A] eqn:EA, (kD l) as [|d0 D] eqn:ED; simpl.
      * destruct old as [[b|c|o]|]; try reflexivity.
        unfold sum_deltas. destruct (kdelta KDec v); reflexivity.
      * destruct old as [[b|c|o]|]; try reflexivity.
        change (d0 :: D ++ [kdelta KDec v]) with ((d0 :: D) ++ [kdelta KDec v]).
        rewrite sum_deltas_app.
        destruct (sum_deltas c (d0 :: D)) as [r|] eqn:ES; simpl; [|reflexivity].
        unfold sum_deltas. destruct (kdelta KDec v); reflexivity.
      * destruct (forallb (value_eqb a0) A); reflexivity.
      * reflexivity.
Qed.

Lemma values_eqb_eq a : forall b, values_eqb a b = true <-> a = b.
Proof.
  induction a as [|x a IH]; intros [|y b]; simpl; try (split; [discriminate | intros H; discriminate H]); [tauto|].
  rewrite andb_true_iff, value_eqb_eq, IH. split; [intros [-> ->]; reflexivity | intros H; inversion H; auto].
Qed.
Lemma gfl_eqb_eq a b : gfl_eqb a b = true <-> a = b.
Proof.
  destruct a as [f x], b as [g y]. unfold gfl_eqb; simpl.
  rewrite andb_true_iff, N.eqb_eq, values_eqb_eq. split; [intros [-> ->]; reflexivity | intros H; inversion H; auto].
Qed.
Lemma gfl_eqb_refl a : gfl_eqb a a = true.
Proof. apply gfl_eqb_eq; reflexivity. Qed.
Lemma gfl_eqb_sym a b : gfl_eqb a b = gfl_eqb b a.
Proof.
  destruct (gfl_eqb a b) eqn:E1, (gfl_eqb b a) eqn:E2; try reflexivity.
  - apply gfl_eqb_eq in E1; subst. rewrite gfl_eqb_refl in E2; discriminate.
  - apply gfl_eqb_eq in E2; subst. rewrite gfl_eqb_refl in E1; discriminate.
Qed.

Section Loop.
  Variable P : problem.
  Variable s : state.

  Definition proj (k : gfl) (st : upd_map * list gfl) : ks := (alookup k (fst st), amem k (snd st)).
  Definition kl (k : gfl) (l : list aeff) : list (ekind * value) :=
    map (fun a => (ae_kind a, ae_val a)) (filter (fun a => gfl_eqb (ae_key a) k) l).
  Definition isb (k : gfl) := is_bool_fluent P (fst k).
  Definition oldv (k : gfl) := s (fst k) (snd k).

  Lemma kdelta_delta_of a : kdelta (ae_kind a) (ae_val a) = delta_of a.
  Proof. unfold kdelta, delta_of. destruct (ae_val a), (ae_kind a); reflexivity. Qed.

  Lemma step_proj st a :
    let k0 := ae_key a in
    match kstep (isb k0) (oldv k0) (proj k0 st) (ae_kind a, ae_val a) with
    | None => sim_step P s st a = None
    | Some q => exists st', sim_step P s st a = Some st' /\ proj k0 st' = q /\
                            forall k, gfl_eqb k0 k = false -> proj k st' = proj k st
    end.
  Proof.
    destruct st as [upd asg]. intros k0. unfold sim_step, kstep, proj. fold k0. simpl fst; simpl snd.
    unfold isb, oldv.
    assert (OT : forall v (k : gfl), gfl_eqb k0 k = false -> alookup k ((k0, v) :: upd) = alookup k upd).
    { intros v k E. simpl. rewrite gfl_eqb_sym, E. reflexivity. }
    assert (OM : forall (k : gfl), gfl_eqb k0 k = false -> amem k (k0 :: asg) = amem k asg).
    { intros k E. simpl. rewrite gfl_eqb_sym, E. reflexivity. }
    assert (FIN : forall (k : gfl), gfl_eqb k0 k = false -> gfl_eqb k k0 = false).
    { intros k E. rewrite gfl_eqb_sym. exact E. }
    Ltac fin FIN := intros k E; simpl; rewrite ?(FIN k E); reflexivity.
    destruct (ae_kind a) eqn:EK.
    - destruct (alookup k0 upd) as [o|] eqn:EL.
      + destruct (negb (value_eqb (ae_val a) o)).
        * destruct (is_bool_fluent P (fst k0)); [|reflexivity].
          destruct o as [[|]| |]; eexists; (split; [reflexivity|]); simpl; rewrite ?gfl_eqb_refl, ?EL;
            (split; [reflexivity|]); fin FIN.
        * destruct (negb (amem k0 asg)); [reflexivity|].
          eexists; split; [reflexivity|]. simpl. rewrite gfl_eqb_refl. split; [reflexivity|]. fin FIN.
      + eexists; split; [reflexivity|]. simpl. rewrite gfl_eqb_refl. split; [reflexivity|]. fin FIN.
    - destruct (amem k0 asg) eqn:EM; [reflexivity|].
      destruct (s (fst k0) (snd k0)) as [cur0|]; [|reflexivity].
      rewrite <- kdelta_delta_of, EK.
      destruct (match alookup k0 upd with Some w => w | None => cur0 end) as [|c|]; try reflexivity.
      destruct (kdelta KInc (ae_val a)); [|reflexivity].
      eexists; split; [reflexivity|]. simpl. rewrite gfl_eqb_refl, ?EM. split; [reflexivity|]. fin FIN.
    - destruct (amem k0 asg) eqn:EM; [reflexivity|].
      destruct (s (fst k0) (snd k0)) as [cur0|]; [|reflexivity].
      rewrite <- kdelta_delta_of, EK.
      destruct (match alookup k0 upd with Some w => w | None => cur0 end) as [|c|]; try reflexivity.
      destruct (kdelta KDec (ae_val a)); [|reflexivity].
      eexists; split; [reflexivity|]. simpl. rewrite gfl_eqb_refl, ?EM. split; [reflexivity|]. fin FIN.
  Qed.

  Lemma kl_cons k a l :
    kl k (a :: l) = if gfl_eqb (ae_key a) k then (ae_kind a, ae_val a) :: kl k l else kl k l.
  Proof. unfold kl. simpl. destruct (gfl_eqb (ae_key a) k); reflexivity. Qed.

  Lemma loop_proj l : forall st,
    match sim_loop P s st l with
    | Some st' => forall k, kfold (isb k) (oldv k) (proj k st) (kl k l) = Some (proj k st')
    | None => exists a, In a l /\ kfold (isb (ae_key a)) (oldv (ae_key a)) (proj (ae_key a) st) (kl (ae_key a) l) = None
    end.
  Proof.
    induction l as [|a l IH]; intros st; simpl; [reflexivity|].
    pose proof (step_proj st a) as SP. cbv zeta in SP.
    destruct (kstep (isb (ae_key a)) (oldv (ae_key a)) (proj (ae_key a) st) (ae_kind a, ae_val a)) as [q|] eqn:EKS.
    - destruct SP as [st' [E1 [E2 E3]]]. rewrite E1. specialize (IH st').
      destruct (sim_loop P s st' l) as [st''|].
      + intros k. rewrite kl_cons. destruct (gfl_eqb (ae_key a) k) eqn:E.
        * apply gfl_eqb_eq in E. subst k. cbn [kfold]. rewrite EKS. rewrite <- E2. apply IH.
        * rewrite <- (E3 k E). apply IH.
      + destruct IH as [b [Hb Hf]]. exists b. split; [right; exact Hb|].
        rewrite kl_cons. destruct (gfl_eqb (ae_key a) (ae_key b)) eqn:E.
        * apply gfl_eqb_eq in E. rewrite <- E in *. cbn [kfold]. rewrite EKS. rewrite <- E2. exact Hf.
        * rewrite <- (E3 _ E). exact Hf.
    - rewrite SP. exists a. split; [left; reflexivity|].
      rewrite kl_cons, gfl_eqb_refl. cbn [kfold]. rewrite EKS. reflexivity.
  Qed.

  Lemma kA_kl k l : kA (kl k l) = avals k l.
  Proof.
    unfold kA, kl, avals. induction l as [|a l IH]; [reflexivity|]. simpl.
    unfold is_assign. destruct (gfl_eqb (ae_key a) k); simpl; [|exact IH].
    destruct (ae_kind a); simpl; rewrite IH; reflexivity.
  Qed.

  Lemma kD_kl k l : kD (kl k l) = deltas k l.
  Proof.
    unfold kD, kl, deltas. induction l as [|a l IH]; [reflexivity|]. simpl.
    unfold is_assign. destruct (gfl_eqb (ae_key a) k); simpl; [|exact IH].
    destruct (ae_kind a) eqn:EK; simpl; rewrite ?IH; try reflexivity;
      rewrite <- kdelta_delta_of, EK; reflexivity.
  Qed.

  Lemma kwt_kl k l : forallb (wt_aeff P) l = true -> forallb (kwt (isb k)) (kl k l) = true.
  Proof.
    unfold kl. induction l as [|a l IH]; [reflexivity|]. simpl. intros H.
    apply andb_true_iff in H. destruct H as [H1 H2].
    destruct (gfl_eqb (ae_key a) k) eqn:E; [|apply IH; exact H2].
    simpl. rewrite (IH H2), andb_true_r.
    apply gfl_eqb_eq in E. subst k. unfold wt_aeff in H1. unfold kwt, isb. simpl.
    destruct (is_bool_fluent P (fst (ae_key a))); [|reflexivity].
    unfold is_assign in H1. destruct (ae_kind a); simpl in *; try discriminate. exact H1.
  Qed.

  Lemma kspec_spec_fluent k l : 
    kspec (isb k) (oldv k) (kl k l) =
    match spec_fluent P s l k with
    | CUnchanged => Some (None, false)
    | CVal v => Some (Some v, negb (match avals k l with [] => true | _ => false end))
    | CFail => None
    end.
  Proof. unfold kspec, spec_fluent, isb, oldv. rewrite kA_kl, kD_kl. reflexivity. Qed.

  (* the loop succeeds exactly when the specification has no conflict, and then make_child(updated_values) is the
     specified successor, fluent by fluent *)
  Theorem sim_loop_spec acts :
    forallb (wt_aeff P) acts = true ->
    match sim_loop P s ([], []) acts with
    | Some (upd, _) => spec_effects_ok P s acts = true /\
                       forall f args, apply_upd s upd f args = spec_succ P s acts f args
    | None => spec_effects_ok P s acts = false
    end.
  Proof.
    intros WT. pose proof (loop_proj acts ([], [])) as H.
    destruct (sim_loop P s ([], []) acts) as [[upd asg]|].
    - assert (K : forall k, kspec (isb k) (oldv k) (kl k acts) = Some (alookup k upd, amem k asg)).
      { intros k. rewrite <- kfold_spec by (apply kwt_kl; exact WT). apply (H k). }
      split.
      + unfold spec_effects_ok. apply forallb_forall. intros a _.
        specialize (K (ae_key a)). rewrite kspec_spec_fluent in K.
        destruct (spec_fluent P s acts (ae_key a)); [reflexivity | reflexivity | discriminate].
      + intros f args. unfold apply_upd, spec_succ.
        specialize (K (f, args)). rewrite kspec_spec_fluent in K.
        destruct (spec_fluent P s acts (f, args)); inversion K as [[K1 K2]]; reflexivity.
    - destruct H as [a [Ha Hf]].
      change (proj (ae_key a) ([], [])) with ((None, false) : ks) in Hf.
      rewrite kfold_spec in Hf by (apply kwt_kl; exact WT). rewrite kspec_spec_fluent in Hf.
      unfold spec_effects_ok. match goal with |- ?x = false => destruct x eqn:E end; [|reflexivity].
      rewrite forallb_forall in E. specialize (E a Ha).
      destruct (spec_fluent P s acts (ae_key a)); discriminate.
  Qed.
End Loop.
