(* Proofs about the DeltaSTN model (C25), part 1: partial correctness (every run that does not exhaust the fuel). *)
From Coq Require Import List ZArith NArith QArith Qabs Bool Lia Lqa.
Import ListNotations.
Require Import UPV.Model.Stn.
Local Open Scope Q_scope.

(* ------------------------------------------------------------------ dictionaries *)
Section DictLemmas.
  Context {V : Type}.
  Implicit Types (m : list (N * V)).

  Lemma find_set_eq k v m : find k (set k v m) = Some v.
  Proof.
    induction m as [|[k' v'] m IH]; simpl.
    - rewrite N.eqb_refl; reflexivity.
    - destruct (N.eqb_spec k k'); simpl.
      + rewrite N.eqb_refl; reflexivity.
      + destruct (N.eqb_spec k k'); [contradiction | exact IH].
  Qed.

  Lemma find_set_neq k k' v m : k' <> k -> find k' (set k v m) = find k' m.
  Proof.
    intros Hne. induction m as [|[k2 v2] m IH]; simpl.
    - destruct (N.eqb_spec k' k); [contradiction | reflexivity].
    - destruct (N.eqb_spec k k2); simpl.
      + subst. destruct (N.eqb_spec k' k2); [contradiction | reflexivity].
      + destruct (N.eqb_spec k' k2); [reflexivity | exact IH].
  Qed.

  Lemma find_app k m m' : find k (m ++ m') = match find k m with Some v => Some v | None => find k m' end.
  Proof.
    induction m as [|[k' v'] m IH]; simpl; [reflexivity|].
    destruct (k =? k')%N; [reflexivity | exact IH].
  Qed.

  Lemma find_setdefault k v m k' :
    find k' (setdefault k v m) =
    match find k' m with Some w => Some w | None => if (k' =? k)%N then Some v else None end.
  Proof.
    unfold setdefault. destruct (find k m) eqn:E.
    - destruct (find k' m) eqn:E'; [reflexivity|]. destruct (N.eqb_spec k' k); [subst; congruence | reflexivity].
    - rewrite find_app. destruct (find k' m); reflexivity.
  Qed.

  Lemma find_set_some k k' v m : find k' m <> None -> find k' (set k v m) <> None.
  Proof.
    intros H. destruct (N.eq_dec k' k) as [->|Hne]; [rewrite find_set_eq; discriminate | rewrite find_set_neq; auto].
  Qed.

  Lemma find_setdefault_some k k' v m : find k' m <> None -> find k' (setdefault k v m) <> None.
  Proof. intros H. rewrite find_setdefault. destruct (find k' m); [discriminate | congruence]. Qed.

  Lemma find_setdefault_self k v m : find k (setdefault k v m) <> None.
  Proof. rewrite find_setdefault, N.eqb_refl. destruct (find k m); discriminate. Qed.
End DictLemmas.

Lemma getd_set_eq k v d : getd (set k v d) k = v.
Proof. unfold getd. rewrite find_set_eq. reflexivity. Qed.
Lemma getd_set_neq k k' v d : k' <> k -> getd (set k v d) k' = getd d k'.
Proof. intros H. unfold getd. rewrite find_set_neq; auto. Qed.
Lemma getd_setdefault0 k d k' : getd (setdefault k 0 d) k' = getd d k'.
Proof. unfold getd. rewrite find_setdefault. destruct (find k' d); [reflexivity|]. destruct (k' =? k)%N; reflexivity. Qed.
Lemma getc_set_eq k v c : getc (set k v c) k = v.
Proof. unfold getc. rewrite find_set_eq. reflexivity. Qed.
Lemma getc_set_neq k k' v c : k' <> k -> getc (set k v c) k' = getc c k'.
Proof. intros H. unfold getc. rewrite find_set_neq; auto. Qed.
Lemma getc_setdefault_nil k c k' : getc (setdefault k [] c) k' = getc c k'.
Proof.
  unfold getc. rewrite (find_setdefault (V := neighbors)).
  destruct (@find neighbors k' c); [reflexivity|]. destruct (k' =? k)%N; reflexivity.
Qed.

Lemma Qlt_bool_iff a b : Qlt_bool a b = true <-> a < b.
Proof.
  unfold Qlt_bool. rewrite negb_true_iff. split.
  - intros H. apply Qnot_le_lt. intros Hle. apply Qle_bool_iff in Hle. congruence.
  - intros H. destruct (Qle_bool b a) eqn:E; [|reflexivity]. apply Qle_bool_iff in E. lra.
Qed.
Lemma Qlt_bool_false a b : Qlt_bool a b = false <-> b <= a.
Proof.
  unfold Qlt_bool. rewrite negb_false_iff. apply Qle_bool_iff.
Qed.

(* ------------------------------------------------------------------ graphs, walks, solutions *)
Definition edge (cm : cons_map) (u v : N) (bb : Q) : Prop := In (v, bb) (getc cm u).

(* some walk ending in v has weight q (the empty walk has weight 0) *)
Inductive walkto (cm : cons_map) : N -> Q -> Prop :=
| wt0 v q : q == 0 -> walkto cm v q
| wts u v w bb q : walkto cm u w -> edge cm u v bb -> q == w + bb -> walkto cm v q.

(* a walk from y to v of weight q *)
Inductive walk_from (cm : cons_map) (y : N) : N -> Q -> Prop :=
| wf0 q : q == 0 -> walk_from cm y y q
| wfs u v w bb q : walk_from cm y u w -> edge cm u v bb -> q == w + bb -> walk_from cm y v q.

Definition sat_edges (t : N -> Q) (cm : cons_map) : Prop := forall u v bb, edge cm u v bb -> t u - t v <= bb.

Lemma walkto_mono cm cm' v q :
  (forall u v bb, edge cm u v bb -> edge cm' u v bb) -> walkto cm v q -> walkto cm' v q.
Proof. intros H. induction 1; [apply wt0; assumption | eapply wts; eauto]. Qed.

Lemma walk_from_sum t cm y v q : sat_edges t cm -> walk_from cm y v q -> t y - t v <= q.
Proof.
  intros Hs. induction 1 as [q Hq | u v w bb q _ IH He Hq]; [lra|].
  specialize (Hs _ _ _ He). lra.
Qed.

Lemma neg_closed_walk_unsat t cm y q : walk_from cm y y q -> q < 0 -> ~ sat_edges t cm.
Proof. intros Hw Hq Hs. pose proof (walk_from_sum _ _ _ _ _ Hs Hw). lra. Qed.

Lemma walkto_lower t cm v q : nonneg t -> sat_edges t cm -> walkto cm v q -> - q <= t v.
Proof.
  intros Hn Hs. induction 1 as [v q Hq | u v w bb q _ IH He Hq].
  - specialize (Hn v). lra.
  - specialize (Hs _ _ _ He). lra.
Qed.

(* ------------------------------------------------------------------ the propagation loop of _inc_check *)
Section Propagation.
  Variables (cm : cons_map) (y : N) (b : Q) (eps : Q) (d0 : dist) (dy0 : Q).
  Hypothesis Heps : eps == 0.

  Definition touched (d : dist) (u : N) : Prop := getd d u < getd d0 u.

  Record good (d : dist) : Prop := {
    g_neg : forall v, getd d v <= 0;
    g_walk : forall v, walkto cm v (getd d v);
    g_mono : forall v, getd d v <= getd d0 v;
    g_wy : forall v, touched d v -> exists w, walk_from cm y v w /\ getd d v == dy0 + w;
    g_y : getd d y <= dy0
  }.

  Definition qinv (d : dist) (queue : list N) : Prop := forall u, In u queue -> touched d u.

  (* every violated edge starts at a queued event, or at the event being scanned and is still to be scanned *)
  Definition cov (d : dist) (queue : list N) (c : N) (ns : neighbors) : Prop :=
    forall u v bb, edge cm u v bb -> getd d v <= getd d u + bb \/ In u queue \/ (u = c /\ In (v, bb) ns).
  Definition cov0 (d : dist) (queue : list N) : Prop :=
    forall u v bb, edge cm u v bb -> getd d v <= getd d u + bb \/ In u queue.

  Definition negcycle : Prop := exists w, walk_from cm y y w /\ w < 0.

  Lemma set_le d dst q v : q <= getd d dst -> getd (set dst q d) v <= getd d v.
  Proof.
    intros H. destruct (N.eq_dec v dst) as [->|Hne]; [rewrite getd_set_eq; exact H | rewrite getd_set_neq; auto; lra].
  Qed.

  Lemma relax_good d c dst bound :
    good d -> touched d c -> edge cm c dst bound -> getd d c + bound < getd d dst ->
    good (set dst (getd d c + bound) d).
  Proof.
    intros G Tc He Hlt. destruct G as [G1 G2 G3 G4 G5]. constructor.
    - intros v. destruct (N.eq_dec v dst) as [->|Hne].
      + rewrite getd_set_eq. specialize (G1 dst). lra.
      + rewrite getd_set_neq by auto. apply G1.
    - intros v. destruct (N.eq_dec v dst) as [->|Hne].
      + rewrite getd_set_eq. eapply wts; [apply (G2 c) | exact He | reflexivity].
      + rewrite getd_set_neq by auto. apply G2.
    - intros v. destruct (N.eq_dec v dst) as [->|Hne].
      + rewrite getd_set_eq. specialize (G3 dst). lra.
      + rewrite getd_set_neq by auto. apply G3.
    - intros v. unfold touched. destruct (N.eq_dec v dst) as [->|Hne].
      + rewrite getd_set_eq. intros _. destruct (G4 c Tc) as (w & Hw & Hv). exists (w + bound). split.
        * eapply wfs; [exact Hw | exact He | reflexivity].
        * lra.
      + rewrite getd_set_neq by auto. intros T. exact (G4 v T).
    - destruct (N.eq_dec y dst) as [<-|Hne].
      + rewrite getd_set_eq. lra.
      + rewrite getd_set_neq by auto. exact G5.
  Qed.

  Lemma scan_spec c : forall ns d queue,
    (forall v bb, In (v, bb) ns -> edge cm c v bb) ->
    good d -> touched d c -> qinv d queue -> cov d queue c ns ->
    match scan d eps y b c ns queue with
    | (d', Some q') => good d' /\ qinv d' q' /\ cov0 d' q'
    | (_, None) => negcycle
    end.
  Proof.
    induction ns as [|[dst bound] ns IH]; intros d queue Hns G Tc Hq Hc.
    - simpl. split; [exact G|]. split; [exact Hq|].
      intros u v bb He. destruct (Hc _ _ _ He) as [H|[H|[_ []]]]; auto.
    - cbn [scan]. destruct (Qlt_bool (getd d c + bound + eps) (getd d dst)) eqn:E.
      + apply Qlt_bool_iff in E. assert (Hlt : getd d c + bound < getd d dst) by lra.
        assert (He : edge cm c dst bound) by (apply Hns; left; reflexivity).
        destruct ((dst =? y)%N && Qle_bool (Qabs (bound - b)) eps) eqn:E2.
        * (* return False *)
          apply andb_true_iff in E2. destruct E2 as [E2 _]. apply N.eqb_eq in E2. subst dst.
          destruct (g_wy d G c Tc) as (w & Hw & Hv). cbv iota. unfold negcycle. exists (w + bound). split.
          -- eapply wfs; [exact Hw | exact He | reflexivity].
          -- pose proof (g_y d G). lra.
        * (* relaxation *)
          cbv iota. apply IH.
          -- intros v bb HI. apply Hns. right; exact HI.
          -- apply relax_good; auto.
          -- unfold touched in *. pose proof (set_le d dst (getd d c + bound) c). lra.
          -- intros u Hu. apply in_app_iff in Hu. unfold touched. destruct Hu as [Hu|[<-|[]]].
             ++ specialize (Hq u Hu). unfold touched in Hq. pose proof (set_le d dst (getd d c + bound) u). lra.
             ++ rewrite getd_set_eq. pose proof (g_mono d G dst). lra.
          -- intros u v bb Hedge. destruct (N.eq_dec u dst) as [->|Hne].
             { right; left. apply in_app_iff. right; left; reflexivity. }
             rewrite (getd_set_neq dst u); auto.
             destruct (Hc _ _ _ Hedge) as [H|[H|[Hu [H|H]]]].
             ++ left. pose proof (set_le d dst (getd d c + bound) v). lra.
             ++ right; left. apply in_app_iff. left; exact H.
             ++ inversion H; subst. left. rewrite getd_set_eq. lra.
             ++ right; right. split; assumption.
      + apply Qlt_bool_false in E. cbv iota. apply IH; auto.
        * intros v bb HI. apply Hns. right; exact HI.
        * intros u v bb Hedge. destruct (Hc _ _ _ Hedge) as [H|[H|[Hu [H|H]]]]; auto.
          inversion H; subst. left. lra.
  Qed.

  Lemma bfs_spec : forall fuel d queue,
    good d -> qinv d queue -> cov0 d queue ->
    forall d' r, bfs fuel cm d eps y b queue = Finished d' r ->
      (r = true -> good d' /\ forall u v bb, edge cm u v bb -> getd d' v <= getd d' u + bb)
      /\ (r = false -> negcycle).
  Proof.
    induction fuel as [|fuel IH]; intros d queue G Hq Hc d' r H.
    - destruct queue as [|c q']; simpl in H; [|discriminate]. inversion H; subst. split; [|discriminate].
      intros _. split; [exact G|]. intros u v bb He. destruct (Hc _ _ _ He) as [H1|[]]. exact H1.
    - destruct queue as [|c q']; simpl in H.
      + inversion H; subst. split; [|discriminate].
        intros _. split; [exact G|]. intros u v bb He. destruct (Hc _ _ _ He) as [H1|[]]. exact H1.
      + pose proof (scan_spec c (getc cm c) d q') as S.
        destruct (scan d eps y b c (getc cm c) q') as [d1 [q1|]] eqn:ES.
        * destruct S as (G1 & Hq1 & Hc1).
          -- intros v bb HI. exact HI.
          -- exact G.
          -- apply Hq. left; reflexivity.
          -- intros u Hu. apply Hq. right; exact Hu.
          -- intros u v bb He. destruct (Hc _ _ _ He) as [H1|[<-|H1]]; auto.
          -- eapply IH; eauto.
        * inversion H; subst. split; [discriminate|]. intros _. apply S.
          -- intros v bb HI. exact HI.
          -- exact G.
          -- apply Hq. left; reflexivity.
          -- intros u Hu. apply Hq. right; exact Hu.
          -- intros u v bb He. destruct (Hc _ _ _ He) as [H1|[<-|H1]]; auto.
  Qed.
End Propagation.

Lemma inc_check_spec fuel cm d0 eps x y b :
  eps == 0 ->
  edge cm x y b ->
  (forall v, getd d0 v <= 0) ->
  (forall v, walkto cm v (getd d0 v)) ->
  (forall u v bb, edge cm u v bb -> (u = x /\ v = y /\ bb = b) \/ getd d0 v <= getd d0 u + bb) ->
  forall d' r, inc_check fuel cm d0 eps x y b = Finished d' r ->
    (r = true -> (forall v, getd d' v <= 0) /\ (forall v, walkto cm v (getd d' v)) /\
                 (forall u v bb, edge cm u v bb -> getd d' v <= getd d' u + bb))
    /\ (r = false -> exists y' w, walk_from cm y' y' w /\ w < 0).
Proof.
  intros Heps Hnew Hneg Hwalk Hold d' r H. unfold inc_check in H.
  destruct (Qlt_bool (getd d0 x + b) (getd d0 y)) eqn:E.
  - apply Qlt_bool_iff in E. set (dy0 := getd d0 x + b) in *.
    pose proof (bfs_spec cm y b eps d0 dy0 Heps fuel (set y dy0 d0) [y]) as B.
    destruct (B) with (d' := d') (r := r) as [B1 B2]; clear B.
    + constructor.
      * intros v. destruct (N.eq_dec v y) as [->|Hne].
        -- rewrite getd_set_eq. specialize (Hneg y). lra.
        -- rewrite getd_set_neq by auto. apply Hneg.
      * intros v. destruct (N.eq_dec v y) as [->|Hne].
        -- rewrite getd_set_eq. eapply wts; [apply (Hwalk x) | exact Hnew | reflexivity].
        -- rewrite getd_set_neq by auto. apply Hwalk.
      * intros v. destruct (N.eq_dec v y) as [->|Hne].
        -- rewrite getd_set_eq. lra.
        -- rewrite getd_set_neq by auto. lra.
      * intros v. unfold touched. destruct (N.eq_dec v y) as [->|Hne].
        -- rewrite getd_set_eq. intros _. exists 0. split; [apply wf0; reflexivity | lra].
        -- rewrite getd_set_neq by auto. intros T. lra.
      * rewrite getd_set_eq. lra.
    + intros u [<-|[]]. unfold touched. rewrite getd_set_eq. exact E.
    + intros u v bb He. destruct (N.eq_dec u y) as [->|Hne]; [right; left; reflexivity|].
      left. rewrite (getd_set_neq y u); auto.
      assert (Hv : getd (set y dy0 d0) v <= getd d0 v).
      { destruct (N.eq_dec v y) as [->|Hv]; [rewrite getd_set_eq | rewrite getd_set_neq; auto]; lra. }
      destruct (Hold _ _ _ He) as [(-> & -> & ->)|Hf].
      * rewrite getd_set_eq. unfold dy0. lra.
      * lra.
    + exact H.
    + split.
      * intros Hr. destruct (B1 Hr) as [G F]. split; [apply (g_neg _ _ _ _ _ G)|]. split; [apply (g_walk _ _ _ _ _ G) | exact F].
      * intros Hr. destruct (B2 Hr) as (w & Hw & Hlt). exists y, w. auto.
  - apply Qlt_bool_false in E. inversion H; subst. split; [|discriminate].
    intros _. split; [exact Hneg|]. split; [exact Hwalk|].
    intros u v bb He. destruct (Hold _ _ _ He) as [(-> & -> & ->)|Hf]; [exact E | exact Hf].
Qed.

(* the keys of the distance dictionary only grow *)
Lemma scan_keys k c eps y b : forall ns d queue,
  find k d <> None -> find k (fst (scan d eps y b c ns queue)) <> None.
Proof.
  induction ns as [|[dst bound] ns IH]; intros d queue H; simpl; [exact H|].
  destruct (Qlt_bool _ _); [|apply IH; exact H].
  destruct (_ && _); [exact H|]. apply IH. apply find_set_some. exact H.
Qed.

Lemma bfs_keys k cm eps y b : forall fuel d queue d' r,
  find k d <> None -> bfs fuel cm d eps y b queue = Finished d' r -> find k d' <> None.
Proof.
  induction fuel as [|fuel IH]; intros d queue d' r Hk H; destruct queue as [|c q']; simpl in H;
    try discriminate; try (inversion H; subst; exact Hk).
  pose proof (scan_keys k c eps y b (getc cm c) d q' Hk) as S.
  destruct (scan d eps y b c (getc cm c) q') as [d1 [q1|]]; simpl in S.
  - eapply IH; eauto.
  - inversion H; subst. exact S.
Qed.

Lemma inc_check_keys k fuel cm d eps x y b d' r :
  find k d <> None -> inc_check fuel cm d eps x y b = Finished d' r -> find k d' <> None.
Proof.
  unfold inc_check. intros Hk H. destruct (Qlt_bool _ _).
  - eapply bfs_keys; [|exact H]. apply find_set_some. exact Hk.
  - inversion H; subst. exact Hk.
Qed.

(* ------------------------------------------------------------------ the state invariant *)
Definition events_known (d : dist) (A : list cstr) : Prop :=
  forall x y bb, In (x, y, bb) A -> find x d <> None /\ find y d <> None.

Record inv_sat (s : stn) (A : list cstr) : Prop := {
  i_sub : forall u v bb, edge (s_cons s) u v bb -> In (u, v, bb) A;
  i_imp : forall x y bb, In (x, y, bb) A -> exists b', edge (s_cons s) x y b' /\ b' <= bb;
  i_feas : forall u v bb, edge (s_cons s) u v bb -> getd (s_dist s) v <= getd (s_dist s) u + bb;
  i_walk : forall v, walkto (s_cons s) v (getd (s_dist s) v);
  i_neg : forall v, getd (s_dist s) v <= 0;
  i_known : events_known (s_dist s) A
}.

Definition inv (s : stn) (A : list cstr) : Prop :=
  s_eps s == 0 /\ (if s_sat s then inv_sat s A else ~ solvable A).

Lemma solvable_app_l A B : solvable (A ++ B) -> solvable A.
Proof. intros [t H]. exists t. intros c Hc. apply H. apply in_or_app. left; exact Hc. Qed.

Lemma inv_empty eps : eps == 0 -> inv (empty_stn eps) [].
Proof.
  intros H. split; [exact H|]. simpl. constructor; simpl.
  - intros u v bb [].
  - intros x y bb [].
  - intros u v bb [].
  - intros v. apply wt0. reflexivity.
  - intros v. unfold getd; simpl. lra.
  - intros x y bb [].
Qed.

Lemma is_subsumed_spec c x y b :
  is_subsumed c x y b = true -> exists b', edge c x y b' /\ b' <= b.
Proof.
  unfold is_subsumed. destruct (List.find _ _) as [[v bb]|] eqn:E; [|discriminate].
  apply find_some in E. destruct E as [HI Hv]. simpl in Hv. apply N.eqb_eq in Hv. subst v.
  simpl. intros H. apply Qle_bool_iff in H. exists bb. split; [exact HI | exact H].
Qed.

Lemma add_inv fuel s A x y b s' :
  inv s A -> add fuel s x y b = Some s' -> inv s' (A ++ [(x, y, b)]).
Proof.
  intros [Heps Hi] H. unfold add in H. destruct (s_sat s) eqn:Hsat.
  2:{ inversion H; subst. split; [exact Heps|]. rewrite Hsat. intros Hs. apply Hi. eapply solvable_app_l; eauto. }
  destruct Hi as [I1 I2 I3 I4 I5 I6].
  set (d1 := setdefault y 0 (setdefault x 0 (s_dist s))) in *.
  set (c1 := setdefault y [] (s_cons s)) in *.
  assert (Hd1 : forall v, getd d1 v = getd (s_dist s) v).
  { intros v. unfold d1. rewrite !getd_setdefault0. reflexivity. }
  assert (Hc1 : forall u, getc c1 u = getc (s_cons s) u).
  { intros u. unfold c1. apply getc_setdefault_nil. }
  assert (Hk1 : events_known d1 (A ++ [(x, y, b)])).
  { intros x' y' bb HI. apply in_app_iff in HI. destruct HI as [HI|[HI|[]]].
    - destruct (I6 _ _ _ HI). unfold d1. split; apply find_setdefault_some, find_setdefault_some; assumption.
    - inversion HI; subst. unfold d1. split; [apply find_setdefault_some, find_setdefault_self | apply find_setdefault_self]. }
  destruct (is_subsumed c1 x y b) eqn:Hsub.
  - inversion H; subst; clear H. split; [exact Heps|]. simpl. constructor; simpl.
    + intros u v bb He. unfold edge in He. rewrite Hc1 in He. apply in_or_app. left. apply I1; exact He.
    + intros x' y' bb HI. apply in_app_iff in HI. destruct HI as [HI|[HI|[]]].
      * destruct (I2 _ _ _ HI) as (b' & He & Hle). exists b'. split; [|exact Hle]. unfold edge. rewrite Hc1. exact He.
      * inversion HI; subst. apply is_subsumed_spec. exact Hsub.
    + intros u v bb He. unfold edge in He. rewrite Hc1 in He. rewrite !Hd1. apply I3; exact He.
    + intros v. rewrite Hd1. eapply walkto_mono; [|apply I4]. intros u w bb He. unfold edge. rewrite Hc1. exact He.
    + intros v. rewrite Hd1. apply I5.
    + exact Hk1.
  - set (c2 := set x ((y, b) :: getc (s_cons s) x) c1) in *.
    assert (Hc2 : forall u v bb, edge c2 u v bb <-> (u = x /\ v = y /\ bb = b) \/ edge (s_cons s) u v bb).
    { intros u v bb. unfold edge, c2. destruct (N.eq_dec u x) as [->|Hne].
      - rewrite getc_set_eq. simpl. split.
        + intros [HE|HI]; [inversion HE; subst; left; auto | right; exact HI].
        + intros [(_ & -> & ->)|HI]; [left; reflexivity | right; exact HI].
      - rewrite getc_set_neq; auto. rewrite Hc1. split; [intros HI; right; exact HI | intros [(Hu & _)|HI]; [contradiction | exact HI]]. }
    destruct (inc_check fuel c2 d1 (s_eps s) x y b) as [d2 r|] eqn:EI; [|discriminate].
    inversion H; subst; clear H.
    assert (Hsub2 : forall u v bb, edge c2 u v bb -> In (u, v, bb) (A ++ [(x, y, b)])).
    { intros u v bb He. apply Hc2 in He. apply in_or_app. destruct He as [(-> & -> & ->)|He]; [right; left; reflexivity | left; apply I1; exact He]. }
    destruct (inc_check_spec fuel c2 d1 (s_eps s) x y b Heps) with (d' := d2) (r := r) as [R1 R2].
    + apply Hc2. left; auto.
    + intros v. rewrite Hd1. apply I5.
    + intros v. rewrite Hd1. eapply walkto_mono; [|apply I4]. intros u w bb He. apply Hc2. right; exact He.
    + intros u v bb He. apply Hc2 in He. destruct He as [He|He]; [left; exact He | right]. rewrite !Hd1. apply I3; exact He.
    + exact EI.
    + split; [exact Heps|]. simpl. destruct r.
      * destruct (R1 eq_refl) as (N1 & W1 & F1). constructor; simpl.
        -- exact Hsub2.
        -- intros x' y' bb HI. apply in_app_iff in HI. destruct HI as [HI|[HI|[]]].
           ++ destruct (I2 _ _ _ HI) as (b' & He & Hle). exists b'. split; [apply Hc2; right; exact He | exact Hle].
           ++ inversion HI; subst. eexists. split; [apply Hc2; left; repeat split; reflexivity | lra].
        -- exact F1.
        -- exact W1.
        -- exact N1.
        -- intros x' y' bb HI. destruct (Hk1 _ _ _ HI). split; eapply inc_check_keys; eauto.
      * destruct (R2 eq_refl) as (y' & w & Hw & Hlt). intros [t Ht].
        apply (neg_closed_walk_unsat t c2 y' w Hw Hlt).
        intros u v bb He. apply Hsub2 in He. exact (Ht _ He).
Qed.

Lemma run_adds_inv fuel : forall adds s A s',
  inv s A -> run_adds fuel s adds = Some s' -> inv s' (A ++ adds).
Proof.
  induction adds as [|[[x y] b] adds IH]; intros s A s' Hi H; simpl in H.
  - inversion H; subst. rewrite app_nil_r. exact Hi.
  - destruct (add fuel s x y b) as [s1|] eqn:EA; [|discriminate].
    pose proof (add_inv _ _ _ _ _ _ _ Hi EA) as Hi1.
    specialize (IH _ _ _ Hi1 H). rewrite <- app_assoc in IH. exact IH.
Qed.

(* ------------------------------------------------------------------ consequences of the invariant *)
Lemma inv_sat_iff s A : inv s A -> (check_stn s = true <-> solvable A).
Proof.
  intros [_ Hi]. unfold check_stn. destruct (s_sat s).
  - split; [intros _ | reflexivity]. destruct Hi as [I1 I2 I3 I4 I5 I6].
    exists (model_of s). intros [[x y] bb] HI. simpl. unfold model_of.
    destruct (I2 _ _ _ HI) as (b' & He & Hle). specialize (I3 _ _ _ He). lra.
  - split; [discriminate | intros Hs; contradiction].
Qed.

Lemma inv_model_solution s A : inv s A -> check_stn s = true -> solution (model_of s) A.
Proof.
  intros [_ Hi] Hs. unfold check_stn in Hs. rewrite Hs in Hi. destruct Hi as [I1 I2 I3 I4 I5 I6].
  intros [[x y] bb] HI. simpl. unfold model_of.
  destruct (I2 _ _ _ HI) as (b' & He & Hle). specialize (I3 _ _ _ He). lra.
Qed.

Lemma inv_model_nonneg s A : inv s A -> check_stn s = true -> nonneg (model_of s).
Proof.
  intros [_ Hi] Hs. unfold check_stn in Hs. rewrite Hs in Hi. intros x. unfold model_of.
  pose proof (i_neg _ _ Hi x). lra.
Qed.

Lemma inv_model_least s A :
  inv s A -> check_stn s = true ->
  forall t, nonneg t -> solution t A -> forall x, model_of s x <= t x.
Proof.
  intros [_ Hi] Hs t Hn Ht x. unfold check_stn in Hs. rewrite Hs in Hi. unfold model_of.
  apply (walkto_lower t (s_cons s)); [exact Hn | | apply (i_walk _ _ Hi)].
  intros u v bb He. exact (Ht _ (i_sub _ _ Hi _ _ _ He)).
Qed.

Lemma inv_model_defined s A x y bb :
  inv s A -> check_stn s = true -> In (x, y, bb) A ->
  get_stn_model s x = Some (model_of s x) /\ get_stn_model s y = Some (model_of s y).
Proof.
  intros [_ Hi] Hs HI. unfold check_stn in Hs. rewrite Hs in Hi.
  destruct (i_known _ _ Hi _ _ _ HI) as [Hx Hy]. unfold get_stn_model, model_of, getd.
  destruct (find x (s_dist s)); [|congruence]. destruct (find y (s_dist s)); [|congruence]. split; reflexivity.
Qed.

Lemma get_stn_model_is_model_of s x q : get_stn_model s x = Some q -> q = model_of s x.
Proof.
  unfold get_stn_model, model_of, getd. destruct (find x (s_dist s)); intros H; inversion H; reflexivity.
Qed.

(* ------------------------------------------------------------------ single-network theorems *)
Lemma stn_sat_iff fuel eps adds s :
  eps == 0 -> run_adds fuel (empty_stn eps) adds = Some s -> (check_stn s = true <-> solvable adds).
Proof.
  intros He H. apply inv_sat_iff. exact (run_adds_inv fuel adds _ [] _ (inv_empty eps He) H).
Qed.

Lemma stn_model_least_nonneg fuel eps adds s :
  eps == 0 -> run_adds fuel (empty_stn eps) adds = Some s -> check_stn s = true ->
  solution (model_of s) adds /\ nonneg (model_of s) /\
  (forall t, nonneg t -> solution t adds -> forall x, model_of s x <= t x).
Proof.
  intros He H Hs. pose proof (run_adds_inv fuel adds _ [] _ (inv_empty eps He) H) as Hi. simpl in Hi.
  split; [eapply inv_model_solution; eauto|]. split; [eapply inv_model_nonneg; eauto | eapply inv_model_least; eauto].
Qed.

Lemma stn_model_defined fuel eps adds s x y bb :
  eps == 0 -> run_adds fuel (empty_stn eps) adds = Some s -> check_stn s = true -> In (x, y, bb) adds ->
  get_stn_model s x = Some (model_of s x) /\ get_stn_model s y = Some (model_of s y).
Proof.
  intros He H Hs HI. pose proof (run_adds_inv fuel adds _ [] _ (inv_empty eps He) H) as Hi. simpl in Hi.
  eapply inv_model_defined; eauto.
Qed.

(* ------------------------------------------------------------------ heaps of networks: copies are independent *)
Lemma copy_stn_id s : copy_stn s = s.
Proof. destruct s; reflexivity. Qed.

Lemma run_adds_app fuel : forall a s c,
  run_adds fuel s (a ++ [c]) =
  match run_adds fuel s a with
  | Some s1 => let '(x, y, b) := c in add fuel s1 x y b
  | None => None
  end.
Proof.
  induction a as [|[[x y] b] a IH]; intros s [[x' y'] b']; simpl.
  - destruct (add fuel s x' y' b'); reflexivity.
  - destruct (add fuel s x y b); [apply IH | reflexivity].
Qed.

Definition replays (fuel : nat) (s : stn) (h : list cstr * Q) : Prop :=
  run_adds fuel (empty_stn (snd h)) (fst h) = Some s.

Lemma Forall2_nth_error {A B} (R : A -> B -> Prop) l1 l2 i a :
  Forall2 R l1 l2 -> nth_error l1 i = Some a -> exists b, nth_error l2 i = Some b /\ R a b.
Proof.
  intros H. revert i. induction H; intros [|i] Hn; simpl in *; try discriminate.
  - inversion Hn; subst. eauto.
  - eauto.
Qed.

Lemma Forall2_nth_error_none {A B} (R : A -> B -> Prop) l1 l2 i :
  Forall2 R l1 l2 -> nth_error l1 i = None -> nth_error l2 i = None.
Proof.
  intros H. revert i. induction H; intros [|i] Hn; simpl in *; try discriminate; auto.
Qed.

Lemma Forall2_replace_nth {A B} (R : A -> B -> Prop) l1 l2 i a b :
  Forall2 R l1 l2 -> R a b -> Forall2 R (replace_nth i a l1) (replace_nth i b l2).
Proof.
  intros H Hab. revert i. induction H; intros [|i]; simpl; constructor; auto.
Qed.

Lemma Forall2_snoc {A B} (R : A -> B -> Prop) l1 l2 a b :
  Forall2 R l1 l2 -> R a b -> Forall2 R (l1 ++ [a]) (l2 ++ [b]).
Proof. intros H Hab. apply Forall2_app; [exact H | constructor; [exact Hab | constructor]]. Qed.

Lemma run_ops_lineage fuel : forall ops heap hist heap',
  Forall2 (replays fuel) heap hist -> run_ops fuel heap ops = Some heap' ->
  Forall2 (replays fuel) heap' (lineage_from hist ops).
Proof.
  induction ops as [|o ops IH]; intros heap hist heap' HF H; simpl in H.
  - inversion H; subst. exact HF.
  - destruct o as [eps|i x y b|i]; simpl in H |- *.
    + apply (IH (heap ++ [empty_stn eps]) (hist ++ [([], eps)]) heap'); [|exact H].
      apply Forall2_snoc; [exact HF | reflexivity].
    + destruct (nth_error heap i) as [s|] eqn:En.
      * destruct (Forall2_nth_error _ _ _ _ _ HF En) as ([a e] & En2 & Hr). rewrite En2.
        destruct (add fuel s x y b) as [s1|] eqn:EA; [|discriminate].
        apply (IH (replace_nth i s1 heap) (replace_nth i (a ++ [(x, y, b)], e) hist) heap'); [|exact H].
        apply Forall2_replace_nth; [exact HF|].
        unfold replays in *; simpl in *. rewrite run_adds_app, Hr. exact EA.
      * rewrite (Forall2_nth_error_none _ _ _ _ HF En). apply (IH _ _ _ HF H).
    + destruct (nth_error heap i) as [s|] eqn:En.
      * destruct (Forall2_nth_error _ _ _ _ _ HF En) as (h & En2 & Hr). rewrite En2.
        apply (IH (heap ++ [copy_stn s]) (hist ++ [h]) heap'); [|exact H].
        apply Forall2_snoc; [exact HF|]. rewrite copy_stn_id. exact Hr.
      * rewrite (Forall2_nth_error_none _ _ _ _ HF En). apply (IH _ _ _ HF H).
Qed.

(* the state of every network of the heap is the replay of its own lineage: the add calls made on its ancestors
   before it was copied, followed by the add calls made on itself; add calls on any other network are irrelevant *)
Lemma heap_network_replays_lineage fuel ops heap k s :
  run_ops fuel [] ops = Some heap -> nth_error heap k = Some s ->
  exists adds eps, nth_error (lineages ops) k = Some (adds, eps) /\ run_adds fuel (empty_stn eps) adds = Some s.
Proof.
  intros H Hn. pose proof (run_ops_lineage fuel ops [] [] heap (Forall2_nil _) H) as HF.
  destruct (Forall2_nth_error _ _ _ _ _ HF Hn) as ([a e] & Hn2 & Hr). exists a, e. split; [exact Hn2 | exact Hr].
Qed.

Definition targets (i : nat) (o : op) : bool :=
  match o with OpAdd j _ _ _ => Nat.eqb i j | _ => false end.

Lemma nth_error_replace_nth_neq {A} (l : list A) i j v : i <> j -> nth_error (replace_nth j v l) i = nth_error l i.
Proof.
  revert i j. induction l as [|a l IH]; intros [|i] [|j] H; simpl; try reflexivity; try congruence.
  apply IH. congruence.
Qed.

Lemma nth_error_snoc_some {A} (l : list A) i a v : nth_error l i = Some a -> nth_error (l ++ [v]) i = Some a.
Proof. intros H. rewrite nth_error_app1; [exact H | apply nth_error_Some; congruence]. Qed.

Lemma run_ops_untargeted fuel i : forall ops heap heap' s,
  run_ops fuel heap ops = Some heap' -> forallb (fun o => negb (targets i o)) ops = true ->
  nth_error heap i = Some s -> nth_error heap' i = Some s.
Proof.
  induction ops as [|o ops IH]; intros heap heap' s H Hf Hn; simpl in H.
  - inversion H; subst. exact Hn.
  - simpl in Hf. apply andb_true_iff in Hf. destruct Hf as [Ho Hf].
    destruct (run_op fuel heap o) as [h1|] eqn:E1; [|discriminate].
    apply (IH h1 heap' s H Hf). destruct o as [eps|j x y b|j]; simpl in E1.
    + inversion E1; subst. apply nth_error_snoc_some; exact Hn.
    + destruct (nth_error heap j) eqn:Ej; [|inversion E1; subst; exact Hn].
      destruct (add fuel s0 x y b); [|discriminate]. inversion E1; subst.
      rewrite nth_error_replace_nth_neq; [exact Hn|]. simpl in Ho. apply negb_true_iff, Nat.eqb_neq in Ho. exact Ho.
    + destruct (nth_error heap j); inversion E1; subst; [apply nth_error_snoc_some|]; exact Hn.
Qed.

(* heap-level versions of the main theorems *)
Lemma heap_sat_iff fuel ops heap k s adds eps :
  run_ops fuel [] ops = Some heap -> nth_error heap k = Some s -> nth_error (lineages ops) k = Some (adds, eps) ->
  eps == 0 -> (check_stn s = true <-> solvable adds).
Proof.
  intros H Hn Hl He. destruct (heap_network_replays_lineage _ _ _ _ _ H Hn) as (a & e & Hl2 & Hr).
  rewrite Hl in Hl2. inversion Hl2; subst. eapply stn_sat_iff; eauto.
Qed.

Lemma heap_model_least_nonneg fuel ops heap k s adds eps :
  run_ops fuel [] ops = Some heap -> nth_error heap k = Some s -> nth_error (lineages ops) k = Some (adds, eps) ->
  eps == 0 -> check_stn s = true ->
  solution (model_of s) adds /\ nonneg (model_of s) /\
  (forall t, nonneg t -> solution t adds -> forall x, model_of s x <= t x).
Proof.
  intros H Hn Hl He Hs. destruct (heap_network_replays_lineage _ _ _ _ _ H Hn) as (a & e & Hl2 & Hr).
  rewrite Hl in Hl2. inversion Hl2; subst. eapply stn_model_least_nonneg; eauto.
Qed.
