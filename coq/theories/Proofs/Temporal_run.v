(* For a time-sorted heap that is a permutation of all the events of a plan, applying its groups of simultaneous
   entries ([run_groups], the model) is the reference run over the happening times in increasing order ([run_times]). *)
From Coq Require Import List ZArith NArith QArith Qcanon Bool Lia Lqa Permutation.
Import ListNotations.
Require Import UPV.Core.Expr UPV.Core.Eval UPV.Core.Interp UPV.Planning.Problem UPV.Planning.Sem.
Require Import UPV.Planning.Temporal UPV.Planning.TTValidate.
Require Import UPV.Proofs.Eval_lemmas UPV.Proofs.Sem_proofs UPV.Proofs.Step_proofs.
Require Import UPV.Proofs.Temporal_base UPV.Proofs.Temporal_dense UPV.Proofs.Temporal_joint UPV.Proofs.Temporal_loop.
Local Open Scope Qc_scope.

(* ------------------------------------------------------------------ strictly increasing lists of instants *)
Definition asc (l : list Qc) : Prop := match l with [] => True | x :: r => asc_from x r end.

Lemma asc_tail x r : asc (x :: r) -> asc r.
Proof. destruct r as [|y r]; [auto|]. intros [_ H]. exact H. Qed.

Lemma asc_unique l : forall l', asc l -> asc l' -> (forall x, In x l <-> In x l') -> l = l'.
Proof.
  induction l as [|a l IH]; intros l' A A' H.
  - destruct l' as [|b l']; [reflexivity|]. exfalso. apply (H b). left; reflexivity.
  - destruct l' as [|b l']; [exfalso; apply (H a); left; reflexivity|].
    assert (a = b).
    { assert (Ha : In a (b :: l')) by (apply H; left; reflexivity).
      assert (Hb : In b (a :: l)) by (apply H; left; reflexivity).
      destruct Ha as [Ha|Ha]; [symmetry; exact Ha|]. destruct Hb as [Hb|Hb]; [exact Hb|].
      pose proof (asc_from_gt a l A b Hb). pose proof (asc_from_gt b l' A' a Ha). qco. }
    subst b. f_equal. apply IH; [apply (asc_tail a), A | apply (asc_tail a), A' |].
    intros x. split; intros Hx.
    + assert (Hx' : In x (a :: l')) by (apply H; right; exact Hx). destruct Hx' as [<-|Hx']; [|exact Hx'].
      pose proof (asc_from_gt a l A a Hx). qco.
    + assert (Hx' : In x (a :: l)) by (apply H; right; exact Hx). destruct Hx' as [<-|Hx']; [|exact Hx'].
      pose proof (asc_from_gt a l' A' a Hx). qco.
Qed.

Lemma tinsert_spec t l : asc l -> asc (tinsert t l) /\ forall x, In x (tinsert t l) <-> x = t \/ In x l.
Proof.
  induction l as [|a l IH]; intros A; [cbn; split; [exact I | intros x; intuition]|].
  cbn [tinsert]. destruct (qc_ltb t a) eqn:E1; qb.
  - split; [cbn; split; [exact E1 | exact A] | intros x; cbn; intuition].
  - destruct (qc_eqb t a) eqn:E2; qb.
    + subst a. split; [exact A | intros x; cbn; intuition].
    + destruct (IH (asc_tail a l A)) as [I1 I2]. split.
      * assert (Lt : a < t) by (destruct (Qcle_lt_or_eq _ _ E1) as [L|L]; [exact L | congruence]).
        destruct (tinsert t l) as [|b r] eqn:ET; [exact I|]. cbn. split; [|exact I1].
        assert (Hb : In b (b :: r)) by (left; reflexivity). apply I2 in Hb. destruct Hb as [->|Hb]; [exact Lt|].
        apply (asc_from_gt a l A b Hb).
      * intros x. cbn [In]. rewrite I2. intuition.
Qed.

Lemma times_of_spec E : asc (times_of E) /\ forall x, In x (times_of E) <-> In x (map ev_time E).
Proof.
  unfold times_of. induction (map ev_time E) as [|t l [I1 I2]]; cbn [fold_right]; [split; [exact I | tauto]|].
  destruct (tinsert_spec t _ I1) as [T1 T2]. split; [exact T1|]. intros x. rewrite T2, I2. cbn. intuition.
Qed.

(* ------------------------------------------------------------------ the groups of a sorted heap *)
Lemma events_at_none t h : (forall x, In x h -> ev_time x <> t) -> events_at t h = [].
Proof.
  induction h as [|e h IH]; intros H; [reflexivity|]. cbn.
  assert (E : qc_eqb (ev_time e) t = false) by (apply qc_eqb_false, H; left; reflexivity).
  rewrite E. apply IH. intros x Hx. apply H. right. exact Hx.
Qed.

Lemma events_at_cons t e h :
  events_at t (e :: h) = if qc_eqb (ev_time e) t then e :: events_at t h else events_at t h.
Proof. reflexivity. Qed.

Lemma groups_sorted h : sortedT h ->
  asc (map fst (groups h)) /\ (forall x, In x (map fst (groups h)) <-> In x (map ev_time h)) /\
  (forall t g, In (t, g) (groups h) -> g = events_at t h).
Proof.
  induction h as [|e r IH]; intros S; [cbn; repeat split; tauto|].
  destruct S as [S1 S2]. destruct (IH S2) as (I1 & I2 & I3). cbn [groups].
  destruct r as [|y r0].
  - cbn. split; [exact I|]. split; [tauto|]. intros t g [H|[]]. inversion H; subst. rewrite qc_eqb_refl. reflexivity.
  - destruct (groups_head y r0) as [g0 [gs EG]]. rewrite EG in *.
    assert (Ley : ev_time e <= ev_time y) by (apply S1; left; reflexivity).
    destruct (qc_eqb (ev_time e) (ev_time y)) eqn:E; qb.
    + (* e joins the first group *)
      split; [exact I1|]. split.
      * intros x. cbn [map In fst]. cbn [map In fst] in I2. rewrite <- E. specialize (I2 x). rewrite <- E in I2. tauto.
      * intros t g [H|H].
        -- inversion H; subst. rewrite events_at_cons. rewrite E, qc_eqb_refl. f_equal.
           apply (I3 (ev_time y) (y :: g0)). left; reflexivity.
        -- assert (Lt : ev_time y < t).
           { cbn in I1. apply (asc_from_gt _ _ I1 t). change t with (fst (t, g)). apply in_map, H. }
           rewrite events_at_cons. assert (E' : qc_eqb (ev_time e) t = false) by (apply qc_eqb_false; intros EE; rewrite <- EE, E in Lt; qco).
           rewrite E'. apply I3. right. exact H.
    + assert (Lt : ev_time e < ev_time y) by (destruct (Qcle_lt_or_eq _ _ Ley) as [L|L]; [exact L | congruence]).
      split; [cbn; split; [exact Lt | exact I1]|]. split.
      * intros x. cbn [map In fst]. cbn [map In fst] in I2. rewrite (I2 x). tauto.
      * intros t g [H|H].
        -- inversion H; subst. rewrite events_at_cons. rewrite qc_eqb_refl. f_equal. symmetry. apply events_at_none.
           intros x Hx. specialize (S1 x Hx).
           assert (ev_time y <= ev_time x) by (destruct Hx as [<-|Hx]; [apply Qcle_refl | destruct S2 as [S2 _]; apply S2, Hx]).
           intros EE. rewrite EE in *. qco.
        -- assert (Lt2 : ev_time y <= t).
           { destruct H as [H|H]; [inversion H; subst; apply Qcle_refl|].
             cbn in I1. apply Qclt_le_weak, (asc_from_gt _ _ I1 t). change t with (fst (t, g)). apply in_map, H. }
           rewrite events_at_cons. assert (E' : qc_eqb (ev_time e) t = false) by (apply qc_eqb_false; intros EE; rewrite EE in Lt; qco).
           rewrite E'. apply I3. exact H.
Qed.

Lemma groups_as_map h : sortedT h -> groups h = map (fun t => (t, events_at t h)) (map fst (groups h)).
Proof.
  intros S. destruct (groups_sorted h S) as (_ & _ & G).
  assert (forall l : list (Qc * list event), (forall t g, In (t, g) l -> g = events_at t h) ->
                     l = map (fun t => (t, events_at t h)) (map fst l)).
  { induction l as [|[t g] l IH]; intros H; [reflexivity|]. cbn. f_equal.
    - f_equal. apply H. left; reflexivity.
    - apply IH. intros t' g' H'. apply H. right. exact H'. }
  apply H, G.
Qed.

Lemma groups_times h E : sortedT h -> Permutation h E -> map fst (groups h) = times_of E.
Proof.
  intros S PM. destruct (groups_sorted h S) as (G1 & G2 & _). destruct (times_of_spec E) as [T1 T2].
  apply asc_unique; [exact G1 | exact T1|]. intros x. rewrite G2, T2.
  split; apply Permutation_in; [apply Permutation_map, PM | apply Permutation_map, Permutation_sym, PM].
Qed.

(* ------------------------------------------------------------------ model run versus reference run *)
Definition trace_eq (a b : trace) : Prop := Forall2 (fun x y => fst x = fst y /\ state_eq (snd x) (snd y)) a b.

Lemma ostate_eq_trans a b c : ostate_eq a b -> ostate_eq b c -> ostate_eq a c.
Proof.
  destruct a, b, c; cbn; try tauto. intros H1 H2 f x. rewrite H1. apply H2.
Qed.

Lemma trace_set_fresh tr x s : (forall y, In y (keys tr) -> y <> x) -> trace_set tr x s = tr ++ [(x, s)].
Proof.
  induction tr as [|[y t] tr IH]; intros H; [reflexivity|]. cbn.
  assert (E : qc_eqb x y = false) by (apply qc_eqb_false; intros EE; apply (H y); [left; reflexivity | congruence]).
  rewrite E. f_equal. apply IH. intros z Hz. apply H. right. exact Hz.
Qed.

Section Compare.
  Variable sc : bool.
  Variable TP : tproblem.
  Let P := tp_base TP.
  Variable H E : list event.
  Hypothesis PM : Permutation H E.
  Hypothesis TY : forall e, In e E -> event_typed sc P e.

  Lemma group_step s t (u : state) : state_eq u s ->
    ostate_eq (tt_apply_effects sc P u (events_at t H)) (ref_apply sc P s (events_at t E)).
  Proof.
    intros SE.
    eapply ostate_eq_trans; [apply (tt_apply_effects_ext sc P u s _ SE)|].
    eapply ostate_eq_trans; [apply tt_apply_effects_ref|].
    - intros e He. apply TY. apply (Permutation_in e PM). apply filter_In in He. apply He.
    - apply ref_apply_perm. apply Permutation_filter', PM.
  Qed.

  Lemma run_compare ts : forall p (m : mstate) s,
    asc_from p ts -> (forall y, In y (keys (snd m)) -> y <= p) -> state_eq (fst m) s ->
    match run_groups sc TP (map (fun t => (t, events_at t H)) ts) m with
    | Some (last, trm) =>
        exists new trr, trm = snd m ++ new /\ run_times (ref_apply sc P) E s ts = Some trr /\
                        trace_eq new trr /\ state_eq last (final_state s trr) /\ map fst new = ts
    | None => run_times (ref_apply sc P) E s ts = None
    end.
  Proof.
    induction ts as [|t ts IH]; intros p m s A K SE.
    - cbn. destruct m as [last trm]. exists [], []. cbn. rewrite app_nil_r. repeat split; auto. constructor.
    - destruct A as [A1 A2]. cbn [map run_groups run_times]. fold P.
      pose proof (group_step s t (fst m) SE) as G.
      destruct (tt_apply_effects sc P (fst m) (events_at t H)) as [s1|],
               (ref_apply sc P s (events_at t E)) as [s1'|]; cbn in G; try contradiction; [|reflexivity].
      rewrite trace_set_fresh by (intros y Hy EE; specialize (K y Hy); subst y; qco).
      specialize (IH t (s1, snd m ++ [(t, s1)]) s1' A2).
      cbn [fst snd] in IH.
      assert (K' : forall y, In y (keys (snd m ++ [(t, s1)])) -> y <= t).
      { intros y Hy. unfold keys in Hy. rewrite map_app in Hy. apply in_app_iff in Hy.
        destruct Hy as [Hy|[<-|[]]]; [specialize (K y Hy); qco | apply Qcle_refl]. }
      specialize (IH K' G).
      match type of IH with match ?X with _ => _ end =>
        match goal with |- match ?Y with _ => _ end => change Y with X; destruct X as [[last trm]|] end end.
      + destruct IH as [new [trr [E1 [E2 [E3 [E4 E5]]]]]]. exists ((t, s1) :: new), ((t, s1') :: trr).
        rewrite E2. split; [rewrite E1, <- app_assoc; reflexivity|]. split; [reflexivity|].
        split; [constructor; [split; [reflexivity | exact G] | exact E3]|]. split; [exact E4|]. cbn. f_equal. exact E5.
      + rewrite IH. reflexivity.
  Qed.
End Compare.
