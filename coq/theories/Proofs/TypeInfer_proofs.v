(* Proofs about the TypeChecker model (C15): soundness of the inferred type with respect to the reference
   semantics [eval], exactness for Boolean / user-typed expressions, symmetry of equality well-formedness. *)
From Coq Require Import List ZArith NArith QArith Qcanon Qround Bool Lia Lqa.
Import ListNotations.
Require Import UPV.Core.Expr UPV.Core.Eval UPV.Core.Interp UPV.Proofs.Eval_lemmas UPV.Walkers.TypeInfer.
Local Open Scope Qc_scope.

(* ================= Qc -> Q bridge for lra ================= *)
Lemma Qc_eq_Q (a b : Qc) : a = b <-> (this a == this b)%Q.
Proof. split; [intros ->; reflexivity | apply Qc_is_canon]. Qed.

Ltac qcq0 :=
  repeat match goal with
  | H : @eq Qc _ _ |- _ => apply Qc_eq_Q in H
  | H : ~ @eq Qc _ _ |- _ => rewrite Qc_eq_Q in H
  | |- @eq Qc _ _ => apply Qc_is_canon
  end.
Ltac qcq1 :=
  unfold Qcminus in *; unfold Qcle, Qclt, Qcmult, Qcplus, Qcopp in *; unfold Q2Qc in *; cbn [this] in *;
  repeat match goal with
  | H : context [Qred ?x] |- _ => rewrite (Qred_correct x) in H
  | |- context [Qred ?x] => rewrite (Qred_correct x)
  end.
Ltac qlra := qcq0; qcq1; Lqa.lra.

Lemma mul_le_l (k x y : Qc) : 0 <= k -> x <= y -> k * x <= k * y.
Proof. intros Hk H. rewrite (Qcmult_comm k x), (Qcmult_comm k y). apply Qcmult_le_compat_r; assumption. Qed.
Lemma mul_le_l_neg (k x y : Qc) : k <= 0 -> x <= y -> k * y <= k * x.
Proof.
  intros Hk H. assert (H0 : 0 <= - k) by qlra.
  pose proof (mul_le_l _ _ _ H0 H) as P. qlra.
Qed.
Lemma mul_0_l (x : Qc) : 0 * x = 0. Proof. ring. Qed.
Lemma mul_0_r (x : Qc) : x * 0 = 0. Proof. ring. Qed.
Lemma zq0 : zq 0 = 0. Proof. apply Qc_is_canon. reflexivity. Qed.
Lemma zq1 : zq 1 = 1. Proof. apply Qc_is_canon. reflexivity. Qed.

Lemma qc_ltb_false (a b : Qc) : qc_ltb a b = false <-> b <= a.
Proof.
  split; intros H.
  - destruct (Qclt_le_dec a b) as [L|L]; [apply qc_ltb_lt in L; congruence | exact L].
  - destruct (qc_ltb a b) eqn:E; [|reflexivity]. apply qc_ltb_lt in E. exfalso. eapply Qclt_not_le; eauto.
Qed.

(* ================= integers inside Qc ================= *)
Lemma zq_plus a b : zq (a + b) = zq a + zq b.
Proof. apply Qc_is_canon. unfold zq, Qcplus, Q2Qc. cbn [this]. rewrite !Qred_correct. rewrite inject_Z_plus. reflexivity. Qed.
Lemma zq_mult a b : zq (a * b) = zq a * zq b.
Proof. apply Qc_is_canon. unfold zq, Qcmult, Q2Qc. cbn [this]. rewrite !Qred_correct. rewrite inject_Z_mult. reflexivity. Qed.
Lemma zq_opp a : zq (- a) = - zq a.
Proof. apply Qc_is_canon. unfold zq, Qcopp, Q2Qc. cbn [this]. rewrite !Qred_correct. rewrite inject_Z_opp. reflexivity. Qed.
Lemma zq_minus a b : zq (a - b) = zq a - zq b.
Proof. unfold Z.sub, Qcminus. rewrite zq_plus, zq_opp. reflexivity. Qed.
Lemma zq_le a b : (a <= b)%Z <-> zq a <= zq b.
Proof. unfold zq, Qcle, Q2Qc. cbn [this]. rewrite !Qred_correct. rewrite Zle_Qle. tauto. Qed.
Lemma zq_le_1 a b : (a <= b)%Z -> zq a <= zq b. Proof. apply zq_le. Qed.
Lemma zq_le_2 a b : zq a <= zq b -> (a <= b)%Z. Proof. apply zq_le. Qed.
Lemma zq_this z : (this (zq z) == inject_Z z)%Q.
Proof. unfold zq, Q2Qc. cbn [this]. apply Qred_correct. Qed.

Lemma zceil_zq z : zceil (zq z) = z.
Proof. unfold zceil. rewrite zq_this. apply Qceiling_Z. Qed.
Lemma zfloor_zq z : zfloor (zq z) = z.
Proof. unfold zfloor. rewrite zq_this. apply Qfloor_Z. Qed.
Lemma zceil_le q z : q <= zq z -> (zceil q <= z)%Z.
Proof.
  intros H. unfold zceil. rewrite <- (Qceiling_Z z). apply Qceiling_resp_le.
  unfold Qcle in H. rewrite zq_this in H. exact H.
Qed.
Lemma zfloor_ge q z : zq z <= q -> (z <= zfloor q)%Z.
Proof.
  intros H. unfold zfloor. rewrite <- (Qfloor_Z z). apply Qfloor_resp_le.
  unfold Qcle in H. rewrite zq_this in H. exact H.
Qed.

(* ================= the generic reading of a numeric type ================= *)
Definition integral (q : Qc) : Prop := exists z, q = zq z.

(* q lies within the bounds of t, and is an integer when t is an integer type *)
Definition num_in (t : ty) (q : Qc) : Prop :=
  le_lo (lb t) q /\ le_hi q (ub t) /\ (is_int t = true -> integral q).

Lemma inhabits_num G q t : is_num t = true -> (inhabits G (VNum q) t <-> num_in t q).
Proof.
  destruct t as [|lo hi|lo hi| |]; simpl; try discriminate; intros _; unfold num_in; simpl.
  - split.
    + intros [z [-> [Hl Hh]]]. split; [|split].
      * destruct lo; simpl; [apply zq_le_1; exact Hl | exact I].
      * destruct hi; simpl; [apply zq_le_1; exact Hh | exact I].
      * intros _. exists z. reflexivity.
    + intros [Hl [Hh Hi]]. destruct (Hi eq_refl) as [z ->]. exists z. split; [reflexivity|]. split.
      * destruct lo; simpl in *; [apply zq_le_2; exact Hl | exact I].
      * destruct hi; simpl in *; [apply zq_le_2; exact Hh | exact I].
  - destruct lo, hi; simpl; (split; [intros [Hl Hh]; split; [assumption|]; split; [assumption|]; intros X; discriminate X
                                    | intros [Hl [Hh _]]; split; assumption]).
Qed.

Lemma num_in_inhabits G q t : is_num t = true -> num_in t q -> inhabits G (VNum q) t.
Proof. intros Hn H. apply inhabits_num; assumption. Qed.

Lemma inhabits_num_inv G v t : is_num t = true -> inhabits G v t -> exists q, v = VNum q /\ num_in t q.
Proof.
  intros Hn H. destruct v as [b|q|o].
  - destruct t; simpl in *; try discriminate; contradiction.
  - exists q. split; [reflexivity|]. apply (inhabits_num G); assumption.
  - destruct t; simpl in *; try discriminate; contradiction.
Qed.

Lemma mk_num_sound hr lo hi q :
  le_lo lo q -> le_hi q hi -> (hr = false -> integral q) -> num_in (mk_num hr lo hi) q.
Proof.
  intros Hl Hh Hi. unfold mk_num. destruct hr.
  - unfold num_in; simpl. destruct lo, hi; simpl in *; (split; [assumption|]; split; [assumption|]; intros X; discriminate X).
  - destruct (Hi eq_refl) as [z ->]. unfold num_in; simpl. split; [|split].
    + destruct lo as [l|]; simpl in *; [|exact I]. apply zq_le_1. apply zceil_le. exact Hl.
    + destruct hi as [h|]; simpl in *; [|exact I]. apply zq_le_1. apply zfloor_ge. exact Hh.
    + intros _. exists z. reflexivity.
Qed.

Lemma is_num_mk_num hr lo hi : is_num (mk_num hr lo hi) = true.
Proof. destruct hr; reflexivity. Qed.

(* ================= extended numbers ================= *)
Definition ele (a b : ext) : Prop :=
  match a, b with
  | NegInf, _ => True
  | _, PosInf => True
  | Fin x, Fin y => x <= y
  | _, _ => False
  end.

Lemma ele_refl a : ele a a.
Proof. destruct a; simpl; auto. apply Qcle_refl. Qed.
Lemma ele_trans a b c : ele a b -> ele b c -> ele a c.
Proof. destruct a, b, c; simpl; auto; try tauto. apply Qcle_trans. Qed.

Lemma eltb_spec a b : if eltb a b then ele a b else ele b a.
Proof.
  destruct a, b; simpl; auto.
  destruct (qc_ltb q q0) eqn:E.
  - apply qc_ltb_lt in E. apply Qclt_le_weak; exact E.
  - apply qc_ltb_false in E. exact E.
Qed.

Lemma emin_le_l a b : ele (emin a b) a.
Proof. unfold emin. pose proof (eltb_spec b a) as H. destruct (eltb b a); [exact H | apply ele_refl]. Qed.
Lemma emin_le_r a b : ele (emin a b) b.
Proof. unfold emin. pose proof (eltb_spec b a) as H. destruct (eltb b a); [apply ele_refl | exact H]. Qed.
Lemma emax_ge_l a b : ele a (emax a b).
Proof. unfold emax. pose proof (eltb_spec a b) as H. destruct (eltb a b); [exact H | apply ele_refl]. Qed.
Lemma emax_ge_r a b : ele b (emax a b).
Proof. unfold emax. pose proof (eltb_spec a b) as H. destruct (eltb a b); [apply ele_refl | exact H]. Qed.

Lemma min4_le a b c d : ele (min4 a b c d) a /\ ele (min4 a b c d) b /\ ele (min4 a b c d) c /\ ele (min4 a b c d) d.
Proof.
  unfold min4. repeat split.
  - eapply ele_trans; [apply emin_le_l|]. eapply ele_trans; [apply emin_le_l|]. apply emin_le_l.
  - eapply ele_trans; [apply emin_le_l|]. eapply ele_trans; [apply emin_le_l|]. apply emin_le_r.
  - eapply ele_trans; [apply emin_le_l|]. apply emin_le_r.
  - apply emin_le_r.
Qed.
Lemma max4_ge a b c d : ele a (max4 a b c d) /\ ele b (max4 a b c d) /\ ele c (max4 a b c d) /\ ele d (max4 a b c d).
Proof.
  unfold max4. repeat split.
  - eapply ele_trans; [|apply emax_ge_l]. eapply ele_trans; [|apply emax_ge_l]. apply emax_ge_l.
  - eapply ele_trans; [|apply emax_ge_l]. eapply ele_trans; [|apply emax_ge_l]. apply emax_ge_r.
  - eapply ele_trans; [|apply emax_ge_l]. apply emax_ge_r.
  - apply emax_ge_r.
Qed.

Lemma sgn_fin_cases (x : Qc) : (x ?= 0 = Eq /\ x = 0) \/ (x ?= 0 = Lt /\ x < 0) \/ (x ?= 0 = Gt /\ 0 < x).
Proof.
  destruct (x ?= 0) eqn:E.
  - left. split; [reflexivity|]. apply Qceq_alt. exact E.
  - right; left. split; [reflexivity|]. apply Qclt_alt. exact E.
  - right; right. split; [reflexivity|]. apply Qcgt_alt in E. exact E.
Qed.

Ltac sgn_cases :=
  repeat match goal with
  | |- context [?x ?= 0] =>
      let E := fresh "E" in let F := fresh "F" in
      destruct (sgn_fin_cases x) as [[E F]|[[E F]|[E F]]]; rewrite E in *; clear E
  | H : context [?x ?= 0] |- _ =>
      let E := fresh "E" in let F := fresh "F" in
      destruct (sgn_fin_cases x) as [[E F]|[[E F]|[E F]]]; rewrite E in *; clear E
  end.

Lemma emul_comm a b : emul a b = emul b a.
Proof.
  destruct a as [|x|], b as [|y|]; unfold emul; simpl sgn; try reflexivity;
    try (f_equal; apply Qcmult_comm);
    try (destruct (x ?= 0); reflexivity); try (destruct (y ?= 0); reflexivity).
Qed.

(* the extended product is monotone in its second argument for a non-negative first argument ... *)
Lemma emul_mono_nonneg k u v : sgn k <> Lt -> ele u v -> ele (emul k u) (emul k v).
Proof.
  intros Hk H.
  destruct k as [|k|]; [exfalso; apply Hk; reflexivity| |];
  destruct u as [|u|], v as [|v|]; simpl in H; try tauto; unfold emul; simpl sgn; simpl in Hk;
  sgn_cases; simpl; auto; try tauto; try congruence; try (exfalso; qlra).
  all: try (subst; rewrite ?mul_0_l; apply Qcle_refl).
  all: apply mul_le_l; [apply Qclt_le_weak; assumption | assumption].
Qed.

(* ... and antitone for a negative one *)
Lemma emul_anti_neg k u v : sgn k = Lt -> ele u v -> ele (emul k v) (emul k u).
Proof.
  intros Hk H.
  destruct k as [|k|]; [| |discriminate];
  destruct u as [|u|], v as [|v|]; simpl in H; try tauto; unfold emul; simpl sgn; simpl in Hk;
  sgn_cases; simpl; auto; try tauto; try congruence; try discriminate; try (exfalso; qlra).
  all: try (subst; rewrite ?mul_0_l; apply Qcle_refl).
  all: apply mul_le_l_neg; [apply Qclt_le_weak; assumption | assumption].
Qed.

Definition itv (a b : ext) (x : Qc) : Prop := ele a (Fin x) /\ ele (Fin x) b.

Lemma emul_between k c d y : itv c d y ->
  (ele (emul k c) (emul k (Fin y)) \/ ele (emul k d) (emul k (Fin y))) /\
  (ele (emul k (Fin y)) (emul k c) \/ ele (emul k (Fin y)) (emul k d)).
Proof.
  intros [Hc Hd]. destruct (sgn k) eqn:E.
  - assert (N : sgn k <> Lt) by congruence. split; [left | right]; apply emul_mono_nonneg; assumption.
  - split; [right | left]; apply emul_anti_neg; assumption.
  - assert (N : sgn k <> Lt) by congruence. split; [left | right]; apply emul_mono_nonneg; assumption.
Qed.

(* interval multiplication: the product lies between the least and the greatest of the four corner products *)
Lemma mul_itv a b c d x y : itv a b x -> itv c d y ->
  itv (min4 (emul a c) (emul a d) (emul b c) (emul b d)) (max4 (emul a c) (emul a d) (emul b c) (emul b d)) (x * y).
Proof.
  intros Hx Hy.
  destruct (min4_le (emul a c) (emul a d) (emul b c) (emul b d)) as [m1 [m2 [m3 m4]]].
  destruct (max4_ge (emul a c) (emul a d) (emul b c) (emul b d)) as [M1 [M2 [M3 M4]]].
  pose proof (emul_between (Fin y) a b x Hx) as [Lx Ux].
  rewrite !(emul_comm (Fin y)) in Lx, Ux.
  change (emul (Fin x) (Fin y)) with (Fin (x * y)) in Lx, Ux.
  pose proof (emul_between a c d y Hy) as [La Ua].
  pose proof (emul_between b c d y Hy) as [Lb Ub].
  split.
  - destruct Lx as [Lx|Lx]; (eapply ele_trans; [|exact Lx]).
    + destruct La as [La|La]; (eapply ele_trans; [|exact La]); assumption.
    + destruct Lb as [Lb|Lb]; (eapply ele_trans; [|exact Lb]); assumption.
  - destruct Ux as [Ux|Ux]; (eapply ele_trans; [exact Ux|]).
    + destruct Ua as [Ua|Ua]; (eapply ele_trans; [exact Ua|]); assumption.
    + destruct Ub as [Ub|Ub]; (eapply ele_trans; [exact Ub|]); assumption.
Qed.

Lemma itv_of_num t q : num_in t q -> itv (lo_ext t) (hi_ext t) q.
Proof.
  intros [Hl [Hh _]]. unfold itv, lo_ext, hi_ext.
  destruct (lb t), (ub t); simpl in *; auto.
Qed.

(* ================= unfolding equations of [infer_r] ================= *)
Fixpoint infers (G : tenv) (l : list expr) : list ty + err :=
  match l with
  | [] => inl []
  | x :: l' =>
      match infer_r G x with
      | inr er => inr er
      | inl t => match infers G l' with inl ts => inl (t :: ts) | inr er => inr er end
      end
  end.

Lemma infs_fix G l :
  (fix infs (l : list expr) : list ty + err :=
     match l with
     | [] => inl []
     | x :: l' =>
         match infer_r G x with
         | inr er => inr er
         | inl t => match infs l' with inl ts => inl (t :: ts) | inr er => inr er end
         end
     end) l = infers G l.
Proof. induction l as [|x l IH]; [reflexivity|]. cbn [infers]. rewrite IH. reflexivity. Qed.

Definition two (G : tenv) (a b : expr) (k : list ty -> ty + err) : ty + err :=
  bind (infer_r G a) (fun ta => bind (infer_r G b) (fun tb => k [ta; tb])).
Definition one (G : tenv) (a : expr) (k : list ty -> ty + err) : ty + err :=
  bind (infer_r G a) (fun ta => k [ta]).

Lemma infer_EFluent G f args : infer_r G (EFluent f args) = bind (infers G args) (walk_app G (lookupN f (g_fl G))).
Proof. cbn [infer_r]. rewrite infs_fix. reflexivity. Qed.
Lemma infer_EIFun G f args : infer_r G (EIFun f args) = bind (infers G args) (walk_app G (lookupN f (g_ifun G))).
Proof. cbn [infer_r]. rewrite infs_fix. reflexivity. Qed.
Lemma infer_EAnd G l : infer_r G (EAnd l) = bind (infers G l) walk_bool.
Proof. cbn [infer_r]. rewrite infs_fix. reflexivity. Qed.
Lemma infer_EOr G l : infer_r G (EOr l) = bind (infers G l) walk_bool.
Proof. cbn [infer_r]. rewrite infs_fix. reflexivity. Qed.
Lemma infer_EPlus G l : infer_r G (EPlus l) = bind (infers G l) walk_plus.
Proof. cbn [infer_r]. rewrite infs_fix. reflexivity. Qed.
Lemma infer_ETimes G l : infer_r G (ETimes l) = bind (infers G l) walk_times.
Proof. cbn [infer_r]. rewrite infs_fix. reflexivity. Qed.
Lemma infer_EMinus G a b : infer_r G (EMinus a b) = two G a b walk_minus. Proof. reflexivity. Qed.
Lemma infer_EDiv G a b : infer_r G (EDiv a b) = two G a b walk_div. Proof. reflexivity. Qed.
Lemma infer_ELe G a b : infer_r G (ELe a b) = two G a b walk_rel. Proof. reflexivity. Qed.
Lemma infer_ELt G a b : infer_r G (ELt a b) = two G a b walk_rel. Proof. reflexivity. Qed.
Lemma infer_EEquals G a b : infer_r G (EEquals a b) = two G a b (walk_equals G). Proof. reflexivity. Qed.
Lemma infer_ENot G a : infer_r G (ENot a) = one G a walk_bool. Proof. reflexivity. Qed.
Lemma infer_EExists G vs a : infer_r G (EExists vs a) = one G a walk_bool. Proof. reflexivity. Qed.
Lemma infer_EForall G vs a : infer_r G (EForall vs a) = one G a walk_bool. Proof. reflexivity. Qed.
Lemma infer_EImplies G a b : infer_r G (EImplies a b) = two G a b walk_bool. Proof. reflexivity. Qed.
Lemma infer_EIff G a b : infer_r G (EIff a b) = two G a b walk_bool. Proof. reflexivity. Qed.

Lemma two_inl G a b k t : two G a b k = inl t ->
  exists ta tb, infer_r G a = inl ta /\ infer_r G b = inl tb /\ k [ta; tb] = inl t.
Proof.
  unfold two, bind. destruct (infer_r G a) as [ta|]; [|discriminate].
  destruct (infer_r G b) as [tb|]; [|discriminate]. intros H. exists ta, tb. auto.
Qed.
Lemma one_inl G a k t : one G a k = inl t -> exists ta, infer_r G a = inl ta /\ k [ta] = inl t.
Proof. unfold one, bind. destruct (infer_r G a) as [ta|]; [|discriminate]. intros H. exists ta. auto. Qed.
Lemma bind_inl {A B} (r : A + err) (f : A -> B + err) t : bind r f = inl t -> exists a, r = inl a /\ f a = inl t.
Proof. destruct r; simpl; [eauto | discriminate]. Qed.

Lemma walk_bool_inl ts t : walk_bool ts = inl t -> t = TBool.
Proof. unfold walk_bool. destruct (forallb is_bool ts); congruence. Qed.
Lemma walk_rel_inl ts t : walk_rel ts = inl t -> t = TBool.
Proof. unfold walk_rel. destruct (forallb _ ts); congruence. Qed.
Lemma walk_equals_inl G ts t : walk_equals G ts = inl t -> t = TBool.
Proof.
  unfold walk_equals. destruct ts as [|x r]; [discriminate|].
  destruct (is_bool x); [discriminate|]. destruct (forallb _ _); congruence.
Qed.

(* ================= soundness of the arithmetic handlers ================= *)
Definition vin (G : tenv) (t : ty) (q : Qc) : Prop := inhabits G (VNum q) t.

Lemma vin_num G t q : is_num t = true -> vin G t q -> num_in t q.
Proof. intros Hn H. apply (inhabits_num G); assumption. Qed.

Lemma forall2_num G ts qs :
  Forall2 (vin G) ts qs -> forallb is_num ts = true -> Forall2 num_in ts qs.
Proof.
  induction 1 as [|t q ts qs H _ IH]; intros Hf; [constructor|].
  simpl in Hf. apply andb_true_iff in Hf. destruct Hf as [Ht Hf].
  constructor; [eapply vin_num; eauto | auto].
Qed.

Lemma sum_all_lo ts qs l :
  Forall2 num_in ts qs -> sum_all (map lb ts) = Some l -> l <= fold_right Qcplus (zq 0) qs.
Proof.
  intros H. revert l. induction H as [|t q ts qs Ht _ IH]; intros l; simpl.
  - intros E. inversion E. apply Qcle_refl.
  - destruct (lb t) as [b|] eqn:Eb; [|discriminate]. destruct (sum_all (map lb ts)) as [s|]; [|discriminate].
    intros E. inversion E; subst. destruct Ht as [Hl _]. rewrite Eb in Hl. simpl in Hl.
    apply Qcplus_le_compat; [exact Hl | apply IH; reflexivity].
Qed.
Lemma sum_all_hi ts qs h :
  Forall2 num_in ts qs -> sum_all (map ub ts) = Some h -> fold_right Qcplus (zq 0) qs <= h.
Proof.
  intros H. revert h. induction H as [|t q ts qs Ht _ IH]; intros h; simpl.
  - intros E. inversion E. apply Qcle_refl.
  - destruct (ub t) as [b|] eqn:Eb; [|discriminate]. destruct (sum_all (map ub ts)) as [s|]; [|discriminate].
    intros E. inversion E; subst. destruct Ht as [_ [Hh _]]. rewrite Eb in Hh. simpl in Hh.
    apply Qcplus_le_compat; [exact Hh | apply IH; reflexivity].
Qed.

Lemma le_lo_sum ts qs : Forall2 num_in ts qs ->
  le_lo (sum_bounds (map lb ts)) (fold_right Qcplus (zq 0) qs).
Proof.
  intros H. unfold sum_bounds. destruct (map lb ts) eqn:E; [exact I|]. rewrite <- E.
  destruct (sum_all (map lb ts)) eqn:S; simpl; [|exact I]. eapply sum_all_lo; eauto.
Qed.
Lemma le_hi_sum ts qs : Forall2 num_in ts qs ->
  le_hi (fold_right Qcplus (zq 0) qs) (sum_bounds (map ub ts)).
Proof.
  intros H. unfold sum_bounds. destruct (map ub ts) eqn:E; [exact I|]. rewrite <- E.
  destruct (sum_all (map ub ts)) eqn:S; simpl; [|exact I]. eapply sum_all_hi; eauto.
Qed.

Lemma not_real_int t : is_num t = true -> is_real t = false -> is_int t = true.
Proof. destruct t; unfold is_num; simpl; intros; congruence. Qed.

Lemma existsb_false_forall {A} (p : A -> bool) l : existsb p l = false -> forall x, In x l -> p x = false.
Proof.
  induction l as [|a l IH]; simpl; intros H x Hx; [destruct Hx|].
  apply orb_false_iff in H. destruct H as [Ha Hl]. destruct Hx as [->|Hx]; auto.
Qed.

Lemma all_integral ts qs :
  Forall2 num_in ts qs -> forallb is_num ts = true -> existsb is_real ts = false -> Forall integral qs.
Proof.
  induction 1 as [|t q ts qs Ht _ IH]; intros Hn Hr; [constructor|].
  simpl in Hn, Hr. apply andb_true_iff in Hn. destruct Hn as [Hn1 Hn2].
  apply orb_false_iff in Hr. destruct Hr as [Hr1 Hr2].
  constructor; [|auto]. destruct Ht as [_ [_ Hi]]. apply Hi. apply not_real_int; assumption.
Qed.

Lemma integral_sum qs : Forall integral qs -> integral (fold_right Qcplus (zq 0) qs).
Proof.
  induction 1 as [|q qs [z ->] _ [s IH]]; simpl; [exists 0%Z; reflexivity|].
  rewrite IH. exists (z + s)%Z. symmetry. apply zq_plus.
Qed.
Lemma integral_prod qs : Forall integral qs -> integral (fold_right Qcmult (zq 1) qs).
Proof.
  induction 1 as [|q qs [z ->] _ [s IH]]; simpl; [exists 1%Z; reflexivity|].
  rewrite IH. exists (z * s)%Z. symmetry. apply zq_mult.
Qed.

Lemma no_time_all_num ts :
  forallb (fun x => is_time x || is_num x) ts = true -> existsb is_time ts = false -> forallb is_num ts = true.
Proof.
  induction ts as [|t ts IH]; simpl; [reflexivity|]. intros H1 H2.
  apply andb_true_iff in H1. destruct H1 as [Ha Hb]. apply orb_false_iff in H2. destruct H2 as [Hc Hd].
  rewrite Hc in Ha. simpl in Ha. rewrite Ha. simpl. auto.
Qed.

Lemma walk_plus_sound G ts qs t :
  Forall2 (vin G) ts qs -> walk_plus ts = inl t -> inhabits G (VNum (fold_right Qcplus (zq 0) qs)) t.
Proof.
  intros H. unfold walk_plus.
  destruct (forallb (fun x => is_time x || is_num x) ts) eqn:Ef; simpl; [|discriminate].
  destruct (existsb is_time ts) eqn:Et.
  - intros E. inversion E. exact I.
  - intros E. inversion E. subst t. clear E.
    pose proof (no_time_all_num _ Ef Et) as Hn. pose proof (forall2_num _ _ _ H Hn) as Hq.
    apply (num_in_inhabits G); [apply is_num_mk_num|]. apply mk_num_sound.
    + apply le_lo_sum; assumption.
    + apply le_hi_sum; assumption.
    + intros Hr. apply integral_sum. eapply all_integral; eauto.
Qed.

Lemma walk_minus_sound G ta tb x y t :
  vin G ta x -> vin G tb y -> walk_minus [ta; tb] = inl t -> inhabits G (VNum (x - y)) t.
Proof.
  intros Ha Hb. unfold walk_minus.
  destruct (forallb (fun x => is_time x || is_num x) [ta; tb]) eqn:Ef; simpl negb; cbv iota; [|discriminate].
  destruct (existsb is_time [ta; tb]) eqn:Et.
  - intros E. inversion E. exact I.
  - intros E. inversion E. subst t. clear E.
    pose proof (no_time_all_num _ Ef Et) as Hn. simpl in Hn.
    apply andb_true_iff in Hn. destruct Hn as [Hna Hnb]. rewrite andb_true_r in Hnb.
    pose proof (vin_num _ _ _ Hna Ha) as [Al [Ah Ai]]. pose proof (vin_num _ _ _ Hnb Hb) as [Bl [Bh Bi]].
    apply (num_in_inhabits G); [apply is_num_mk_num|]. apply mk_num_sound.
    + unfold sub_bound. destruct (lb ta); [|exact I]. destruct (ub tb); [|exact I]. cbn [le_lo le_hi] in *. qlra.
    + unfold sub_bound. destruct (ub ta); [|exact I]. destruct (lb tb); [|exact I]. cbn [le_lo le_hi] in *. qlra.
    + intros Hr. simpl in Hr. apply orb_false_iff in Hr. destruct Hr as [Hra Hrb]. rewrite orb_false_r in Hrb.
      destruct (Ai (not_real_int _ Hna Hra)) as [za ->]. destruct (Bi (not_real_int _ Hnb Hrb)) as [zb ->].
      exists (za - zb)%Z. symmetry. apply zq_minus.
Qed.

Lemma times_loop_sound ts qs : Forall2 num_in ts qs -> forall lo hi p,
  itv lo hi p -> itv (fst (times_loop lo hi ts)) (snd (times_loop lo hi ts)) (p * fold_right Qcmult (zq 1) qs).
Proof.
  induction 1 as [|t q ts qs Ht _ IH]; intros lo hi p Hp; simpl.
  - rewrite zq1. replace (p * 1) with p by ring. exact Hp.
  - replace (p * (q * fold_right Qcmult (zq 1) qs)) with ((p * q) * fold_right Qcmult (zq 1) qs) by ring.
    apply IH. apply mul_itv; [exact Hp | apply itv_of_num; exact Ht].
Qed.

Lemma walk_times_sound G ts qs t :
  Forall2 (vin G) ts qs -> walk_times ts = inl t -> inhabits G (VNum (fold_right Qcmult (zq 1) qs)) t.
Proof.
  intros H. unfold walk_times. destruct (forallb is_num ts) eqn:Hn; simpl negb; cbv iota; [|discriminate].
  pose proof (forall2_num _ _ _ H Hn) as Hq.
  destruct Hq as [|t0 q0 ts qs Ht0 Hq].
  - intros E. inversion E. simpl. exists 1%Z. repeat split; exact I.
  - pose proof (times_loop_sound _ _ Hq (lo_ext t0) (hi_ext t0) q0 (itv_of_num _ _ Ht0)) as [L U].
    destruct (times_loop (lo_ext t0) (hi_ext t0) ts) as [lo hi]. simpl fst in L; simpl snd in U.
    destruct (fin_lo lo) as [l|] eqn:El; [|discriminate]. destruct (fin_hi hi) as [h|] eqn:Eh; [|discriminate].
    intros E. inversion E. subst t. clear E.
    apply (num_in_inhabits G); [apply is_num_mk_num|]. apply mk_num_sound.
    + destruct lo; simpl in El; inversion El; subst; simpl; auto.
    + destruct hi; simpl in Eh; inversion Eh; subst; simpl; auto.
    + intros Hr. change (q0 * fold_right Qcmult (zq 1) qs) with (fold_right Qcmult (zq 1) (q0 :: qs)).
      apply integral_prod. eapply all_integral; [constructor; eauto| exact Hn | exact Hr].
Qed.

Lemma inv_pos (d : Qc) : 0 < d -> 0 < / d.
Proof.
  intros Hd. destruct (Qclt_le_dec 0 (/ d)) as [L|L]; [exact L|exfalso].
  assert (Hn : d <> 0) by (intros E; apply (Qclt_not_eq _ _ Hd); symmetry; exact E).
  pose proof (Qcmult_inv_r d Hn) as E.
  pose proof (mul_le_l d (/ d) 0 (Qclt_le_weak _ _ Hd) L) as P. rewrite E, mul_0_r in P.
  apply (Qclt_not_le 0 1); [reflexivity | exact P].
Qed.
Lemma inv_neg (d : Qc) : d < 0 -> / d < 0.
Proof.
  intros Hd. destruct (Qclt_le_dec (/ d) 0) as [L|L]; [exact L|exfalso].
  assert (Hn : d <> 0) by (exact (Qclt_not_eq _ _ Hd)).
  pose proof (Qcmult_inv_r d Hn) as E.
  pose proof (mul_le_l_neg d 0 (/ d) (Qclt_le_weak _ _ Hd) L) as P. rewrite E, mul_0_r in P.
  apply (Qclt_not_le 0 1); [reflexivity | exact P].
Qed.
Lemma div_le_pos (d a b : Qc) : 0 < d -> a <= b -> a / d <= b / d.
Proof. intros Hd H. unfold Qcdiv. apply Qcmult_le_compat_r; [exact H | apply Qclt_le_weak, inv_pos, Hd]. Qed.
Lemma div_le_neg (d a b : Qc) : d < 0 -> a <= b -> b / d <= a / d.
Proof.
  intros Hd H. unfold Qcdiv. rewrite (Qcmult_comm b), (Qcmult_comm a).
  apply mul_le_l_neg; [apply Qclt_le_weak, inv_neg, Hd | exact H].
Qed.

Lemma optq_eqb_some a b : optq_eqb (Some a) (Some b) = true -> a = b.
Proof. simpl. apply qc_eqb_eq. Qed.

Lemma walk_div_sound G ta tb x y t :
  vin G ta x -> vin G tb y -> qc_is0 y = false -> walk_div [ta; tb] = inl t -> inhabits G (VNum (x / y)) t.
Proof.
  intros Ha Hb Hy. unfold walk_div.
  destruct (forallb is_num [ta; tb]) eqn:Hn; simpl negb; cbv iota; [|discriminate].
  simpl in Hn. apply andb_true_iff in Hn. destruct Hn as [Hna Hnb]. rewrite andb_true_r in Hnb.
  pose proof (vin_num _ _ _ Hna Ha) as [Al [Ah _]]. pose proof (vin_num _ _ _ Hnb Hb) as [Bl [Bh _]].
  destruct (unbounded ta || unbounded tb || negb (optq_eqb (lb tb) (ub tb))) eqn:Sk.
  - intros E. inversion E. simpl. split; exact I.
  - apply orb_false_iff in Sk. destruct Sk as [Sk Eq]. apply negb_false_iff in Eq.
    destruct (lb tb) as [d|] eqn:Ed.
    2:{ intros E. inversion E. simpl. split; exact I. }
    destruct (ub tb) as [d'|] eqn:Ed'; [|discriminate Eq].
    apply optq_eqb_some in Eq. subst d'. cbn [le_lo le_hi] in Bl, Bh.
    assert (y = d) by (apply Qcle_antisym; assumption). subst y.
    rewrite Hy. destruct (qc_ltb d 0) eqn:Lt.
    + apply qc_ltb_lt in Lt. intros E. inversion E. subst t. clear E. simpl. split.
      * destruct (ub ta); simpl; [|exact I]. apply div_le_neg; assumption.
      * destruct (lb ta); simpl; [|exact I]. apply div_le_neg; assumption.
    + apply qc_ltb_false in Lt.
      assert (Hp : 0 < d).
      { destruct (Qcle_lt_or_eq _ _ Lt) as [L|L]; [exact L|]. subst d. discriminate Hy. }
      intros E. inversion E. subst t. clear E. simpl. split.
      * destruct (lb ta); simpl; [|exact I]. apply div_le_pos; assumption.
      * destruct (ub ta); simpl; [|exact I]. apply div_le_pos; assumption.
Qed.

(* ================= the main theorem ================= *)
Lemma anc_fuel_head n fa t : In t (anc_fuel n fa t).
Proof. destruct n; simpl; auto. Qed.

Section Sound.
  Variable G : tenv.
  Variable sc : bool.
  Variable I : interp.
  Hypothesis R : respects G I.

  Definition sound_at (e : expr) : Prop :=
    forall t v, infer_r G e = inl t -> eval sc e I = Some v -> inhabits G v t.

  Lemma forall2_vin l : Forall sound_at l -> forall ts qs,
    infers G l = inl ts -> enums sc I l = Some qs -> Forall2 (vin G) ts qs.
  Proof.
    induction 1 as [|x l Hx _ IH]; intros ts qs; simpl.
    - intros E1 E2. inversion E1. inversion E2. constructor.
    - destruct (infer_r G x) as [t|] eqn:Et; [|discriminate].
      destruct (infers G l) as [ts'|]; [|discriminate]. intros E1. inversion E1. subst ts. clear E1.
      destruct (eval sc x I) as [v|] eqn:Ev; [|discriminate]. destruct v as [|q|]; simpl; try discriminate.
      destruct (enums sc I l) as [qs'|]; [|discriminate]. intros E2. inversion E2. subst qs. clear E2.
      constructor; [exact (Hx _ _ Et Ev) | apply IH; reflexivity].
  Qed.

  Lemma as_num_some x q : as_num (eval sc x I) = Some q -> eval sc x I = Some (VNum q).
  Proof. destruct (eval sc x I) as [[| |]|]; simpl; congruence. Qed.

  Theorem infer_r_sound : forall e, sound_at e.
  Proof.
    induction e using expr_ind'; unfold sound_at; intros ty0 val Ht Hv.
    - (* EBool *) simpl in *. inversion Ht. inversion Hv. exact Logic.I.
    - (* EInt *) simpl in *. inversion Ht. inversion Hv. simpl. exists z. split; [reflexivity|]. split; apply Z.le_refl.
    - (* EReal *) simpl in *. inversion Ht. inversion Hv. simpl. split; apply Qcle_refl.
    - (* EObj *) simpl in *. destruct (lookupN o (g_obj G)) as [u|] eqn:E; [|discriminate].
      inversion Ht. inversion Hv. simpl. exists u. split; [exact E | apply anc_fuel_head].
    - (* EParam *) simpl in *. destruct (lookupN p (g_par G)) as [u|] eqn:E; [|discriminate].
      inversion Ht. subst. eapply r_par; eauto.
    - (* EVar *) simpl in *. destruct (lookupN v (g_var G)) as [u|] eqn:E; [|discriminate].
      destruct (N.eqb_spec t u); [|discriminate]. subst u. inversion Ht. subst. eapply r_var; eauto.
    - (* EFluent *) rewrite infer_EFluent in Ht. apply bind_inl in Ht. destruct Ht as [ts [_ Hw]].
      unfold walk_app in Hw. destruct (lookupN f (g_fl G)) as [[sg u]|] eqn:E; [|discriminate].
      destruct (all_compatible G sg ts); [|discriminate]. inversion Hw. subst u.
      rewrite eval_EFluent in Hv. destruct (evals sc I args); [|discriminate]. eapply r_fl; eauto.
    - (* EIFun *) rewrite infer_EIFun in Ht. apply bind_inl in Ht. destruct Ht as [ts [_ Hw]].
      unfold walk_app in Hw. destruct (lookupN f (g_ifun G)) as [[sg u]|] eqn:E; [|discriminate].
      destruct (all_compatible G sg ts); [|discriminate]. inversion Hw. subst u.
      rewrite eval_EIFun in Hv. destruct (evals sc I args); [|discriminate]. eapply r_ifun; eauto.
    - (* EAnd *) rewrite infer_EAnd in Ht. apply bind_inl in Ht. destruct Ht as [ts [_ Hw]]. apply walk_bool_inl in Hw. subst ty0.
      rewrite eval_EAnd in Hv. destruct (ebools sc I l); inversion Hv. exact Logic.I.
    - (* EOr *) rewrite infer_EOr in Ht. apply bind_inl in Ht. destruct Ht as [ts [_ Hw]]. apply walk_bool_inl in Hw. subst ty0.
      rewrite eval_EOr in Hv. destruct (ebools sc I l); inversion Hv. exact Logic.I.
    - (* ENot *) rewrite infer_ENot in Ht. apply one_inl in Ht. destruct Ht as [ta [_ Hw]]. apply walk_bool_inl in Hw. subst ty0.
      rewrite eval_ENot in Hv. destruct (as_bool (eval sc e I)); inversion Hv. exact Logic.I.
    - (* EImplies *) rewrite infer_EImplies in Ht. apply two_inl in Ht. destruct Ht as [ta [tb [_ [_ Hw]]]]. apply walk_bool_inl in Hw. subst ty0.
      rewrite eval_EImplies in Hv. destruct (as_bool (eval sc e1 I)), (as_bool (eval sc e2 I)); inversion Hv. exact Logic.I.
    - (* EIff *) rewrite infer_EIff in Ht. apply two_inl in Ht. destruct Ht as [ta [tb [_ [_ Hw]]]]. apply walk_bool_inl in Hw. subst ty0.
      rewrite eval_EIff in Hv. destruct (as_bool (eval sc e1 I)), (as_bool (eval sc e2 I)); inversion Hv. exact Logic.I.
    - (* EExists *) rewrite infer_EExists in Ht. apply one_inl in Ht. destruct Ht as [ta [_ Hw]]. apply walk_bool_inl in Hw. subst ty0.
      rewrite eval_EExists in Hv. destruct (q_fold sc true _); inversion Hv. exact Logic.I.
    - (* EForall *) rewrite infer_EForall in Ht. apply one_inl in Ht. destruct Ht as [ta [_ Hw]]. apply walk_bool_inl in Hw. subst ty0.
      rewrite eval_EForall in Hv. destruct (q_fold sc false _); inversion Hv. exact Logic.I.
    - (* EPlus *) rewrite infer_EPlus in Ht. apply bind_inl in Ht. destruct Ht as [ts [Hi Hw]].
      rewrite eval_EPlus in Hv. destruct (enums sc I l) as [qs|] eqn:En; [|discriminate]. inversion Hv. subst val.
      eapply walk_plus_sound; [|exact Hw]. eapply forall2_vin; eauto.
    - (* EMinus *) rewrite infer_EMinus in Ht. apply two_inl in Ht. destruct Ht as [ta [tb [Ha [Hb Hw]]]].
      rewrite eval_EMinus in Hv.
      destruct (as_num (eval sc e1 I)) as [x|] eqn:E1; [|discriminate].
      destruct (as_num (eval sc e2 I)) as [y|] eqn:E2; [|discriminate]. inversion Hv. subst val.
      apply as_num_some in E1. apply as_num_some in E2.
      eapply walk_minus_sound; [exact (IHe1 _ _ Ha E1) | exact (IHe2 _ _ Hb E2) | exact Hw].
    - (* ETimes *) rewrite infer_ETimes in Ht. apply bind_inl in Ht. destruct Ht as [ts [Hi Hw]].
      rewrite eval_ETimes in Hv. destruct (enums sc I l) as [qs|] eqn:En; [|discriminate]. inversion Hv. subst val.
      eapply walk_times_sound; [|exact Hw]. eapply forall2_vin; eauto.
    - (* EDiv *) rewrite infer_EDiv in Ht. apply two_inl in Ht. destruct Ht as [ta [tb [Ha [Hb Hw]]]].
      rewrite eval_EDiv in Hv.
      destruct (as_num (eval sc e1 I)) as [x|] eqn:E1; [|discriminate].
      destruct (as_num (eval sc e2 I)) as [y|] eqn:E2; [|discriminate].
      destruct (qc_is0 y) eqn:Ey; [discriminate|]. inversion Hv. subst val.
      apply as_num_some in E1. apply as_num_some in E2.
      eapply walk_div_sound; [exact (IHe1 _ _ Ha E1) | exact (IHe2 _ _ Hb E2) | exact Ey | exact Hw].
    - (* ELe *) rewrite infer_ELe in Ht. apply two_inl in Ht. destruct Ht as [ta [tb [_ [_ Hw]]]]. apply walk_rel_inl in Hw. subst ty0.
      rewrite eval_ELe in Hv. destruct (as_num (eval sc e1 I)), (as_num (eval sc e2 I)); inversion Hv. exact Logic.I.
    - (* ELt *) rewrite infer_ELt in Ht. apply two_inl in Ht. destruct Ht as [ta [tb [_ [_ Hw]]]]. apply walk_rel_inl in Hw. subst ty0.
      rewrite eval_ELt in Hv. destruct (as_num (eval sc e1 I)), (as_num (eval sc e2 I)); inversion Hv. exact Logic.I.
    - (* EEquals *) rewrite infer_EEquals in Ht. apply two_inl in Ht. destruct Ht as [ta [tb [_ [_ Hw]]]]. apply walk_equals_inl in Hw. subst ty0.
      rewrite eval_EEquals in Hv.
      destruct (eval sc e1 I) as [[| |]|], (eval sc e2 I) as [[| |]|]; inversion Hv; exact Logic.I.
    - simpl in Hv. discriminate.
    - simpl in Hv. discriminate.
    - simpl in Hv. discriminate.
    - simpl in Hv. discriminate.
    - simpl in Hv. discriminate.
  Qed.
End Sound.

Theorem infer_sound_thm G sc e t :
  infer G e = Some t -> forall I, respects G I -> forall v, eval sc e I = Some v -> inhabits G v t.
Proof.
  unfold infer. destruct (infer_r G e) as [t'|] eqn:E; [|discriminate]. intros H; inversion H; subst t'.
  intros I R v Hv. exact (infer_r_sound G sc I R e t v E Hv).
Qed.

(* Boolean- and object-valued expressions get exactly a Boolean / user type (the declared one for leaves) *)
Theorem infer_bool_user_exact_thm G sc e t :
  infer G e = Some t -> forall I, respects G I -> forall v, eval sc e I = Some v ->
  match v with
  | VBool _ => t = TBool
  | VObj o => exists u u', t = TUser u /\ lookupN o (g_obj G) = Some u' /\ In u (ancestors G u')
  | VNum _ => is_num t = true \/ t = TTime
  end.
Proof.
  intros H I R v Hv. pose proof (infer_sound_thm G sc e t H I R v Hv) as S.
  destruct v as [b|q|o]; destruct t; simpl in S; try contradiction; auto.
  destruct S as [u' [E1 E2]]. exists t, u'. auto.
Qed.

Theorem infer_leaf_exact_thm G :
  (forall f args t, infer G (EFluent f args) = Some t -> exists sg, lookupN f (g_fl G) = Some (sg, t)) /\
  (forall p t, infer G (EParam p) = Some t -> lookupN p (g_par G) = Some t) /\
  (forall o t, infer G (EObj o) = Some t -> exists u, t = TUser u /\ lookupN o (g_obj G) = Some u) /\
  (forall x u t, infer G (EVar x u) = Some t -> t = TUser u /\ lookupN x (g_var G) = Some u) /\
  (forall b, infer G (EBool b) = Some TBool).
Proof.
  unfold infer. repeat split.
  - intros f args t. rewrite infer_EFluent. destruct (infers G args) as [ts|]; simpl; [|discriminate].
    unfold walk_app. destruct (lookupN f (g_fl G)) as [[sg u]|]; [|discriminate].
    destruct (all_compatible G sg ts); [|discriminate]. intros E. inversion E. eauto.
  - intros p t. simpl. destruct (lookupN p (g_par G)); [|discriminate]. intros E. inversion E. reflexivity.
  - intros o t. simpl. destruct (lookupN o (g_obj G)); [|discriminate]. intros E. inversion E. eauto.
  - simpl in H. destruct (lookupN x (g_var G)) as [u'|]; [|discriminate].
    destruct (N.eqb_spec u u'); [|discriminate]. inversion H. reflexivity.
  - simpl in H. destruct (lookupN x (g_var G)) as [u'|]; [|discriminate].
    destruct (N.eqb_spec u u'); [|discriminate]. subst. reflexivity.
Qed.

(* ================= symmetry of equality well-formedness ================= *)
Lemma memN_In x l : memN x l = true <-> In x l.
Proof.
  unfold memN. rewrite existsb_exists. split.
  - intros [y [Hy E]]. apply N.eqb_eq in E. subst. exact Hy.
  - intros H. exists x. split; [exact H | apply N.eqb_refl].
Qed.

Lemma intersects_comm a b : intersects a b = intersects b a.
Proof.
  apply eq_true_iff_eq. unfold intersects. rewrite !existsb_exists. split.
  - intros [x [Hx M]]. apply memN_In in M. exists x. split; [exact M | apply memN_In; exact Hx].
  - intros [x [Hx M]]. apply memN_In in M. exists x. split; [exact M | apply memN_In; exact Hx].
Qed.

Lemma user_eq_ok_comm G a b : user_eq_ok G a b = user_eq_ok G b a.
Proof.
  unfold user_eq_ok. rewrite (N.eqb_sym a b), (intersects_comm (ancestors G a)).
  destruct (b =? a)%N, (memN a (ancestors G b)), (memN b (ancestors G a)); reflexivity.
Qed.

Lemma user_eq_ok_refl G a : user_eq_ok G a a = true.
Proof. unfold user_eq_ok. rewrite N.eqb_refl. reflexivity. Qed.

Theorem equals_wf_symmetric_thm G t1 t2 : wf_equals G t1 t2 = wf_equals G t2 t1.
Proof.
  unfold wf_equals, walk_equals, eq_arg_ok.
  destruct t1 as [|l1 h1|l1 h1|a|], t2 as [|l2 h2|l2 h2|b|]; simpl;
    rewrite ?andb_false_r, ?user_eq_ok_refl; simpl; try reflexivity.
  rewrite (user_eq_ok_comm G b a). destruct (user_eq_ok G a b); reflexivity.
Qed.

(* accepted equalities are exactly: two user types with a common ancestor, or two numeric / time types *)
Theorem equals_wf_char_thm G t1 t2 :
  wf_equals G t1 t2 = true <->
  (exists a b, t1 = TUser a /\ t2 = TUser b /\ user_eq_ok G a b = true) \/
  ((is_num t1 || is_time t1) && (is_num t2 || is_time t2) = true).
Proof.
  unfold wf_equals, walk_equals, eq_arg_ok.
  destruct t1 as [|l1 h1|l1 h1|a|], t2 as [|l2 h2|l2 h2|b|]; simpl; rewrite ?andb_false_r, ?user_eq_ok_refl; simpl;
    try (split; [discriminate | intros [[x [y [E1 [E2 _]]]]|E]; [discriminate E1 || discriminate E2 | discriminate E]]);
    try (split; [intros _; right; reflexivity | reflexivity]).
  destruct (user_eq_ok G a b) eqn:E; simpl.
  - split; [intros _; left; exists a, b; auto | reflexivity].
  - split; [discriminate | intros [[x [y [E1 [E2 E3]]]]|E']; [inversion E1; inversion E2; subst; congruence | discriminate E']].
Qed.
