(* C09 (i): a pipeline selected by the factory accepts every intermediate problem whose actual kind is within the kind
   declared for that stage.  Order-theoretic: uses only the transitivity of <= (C33) and the chain built by C32. *)
From Coq Require Import List NArith Bool String Lia.
Import ListNotations.
Require Import UPV.Model.Kind UPV.Model.Factory UPV.Proofs.Kind_proofs UPV.Proofs.Factory_proofs.

Section Accepts.
  Variable T : tables.

  (* supports is downward closed among kinds of one version *)
  Lemma supports_downward e a d :
    version T a = version T d -> version T d = version T (e_supported e) ->
    le T a d = Ok true -> supports T e d = Ok true -> supports T e a = Ok true.
  Proof. unfold supports. intros E1 E2 L S. eapply le_trans; eauto. Qed.

  (* resulting_problem_kind keeps the declared version *)
  Lemma run_resulting_ver prog k k' : run_resulting T prog k = Ok k' -> k_ver k' = k_ver k.
  Proof.
    unfold run_resulting. destruct (exec T (k_ver k) (k_feats k) prog (k_feats k)); try discriminate.
    intros H; inversion H; reflexivity.
  Qed.

  Lemma version_of_explicit k v : k_ver k = Some v -> version T k = v.
  Proof. unfold version. now intros ->. Qed.

  (* every stage of a chain started from a kind with declared version v is declared at version v *)
  Lemma chain_versions reg prefs k steps cks final v :
    chain T reg prefs k steps cks final -> k_ver k = Some v ->
    Forall (fun st => k_ver (snd st) = Some v) steps /\ k_ver final = Some v.
  Proof.
    induction 1 as [k|k n e ck k' steps cks final Hin L Hh R C IH]; intros Hv.
    - split; [constructor|exact Hv].
    - assert (Hv' : k_ver k' = Some v) by (rewrite (run_resulting_ver _ _ _ R); exact Hv).
      destruct (IH Hv') as [F1 F2]. split; [constructor; [exact Hv|exact F1]|exact F2].
  Qed.

  (* actual.(i) is the kind of the problem handed to stage i (actual.(0) = the input problem) *)
  Definition within (v : N) (a : kind) (st : string * engine * kind) : Prop :=
    version T a = v /\ le T a (snd st) = Ok true.
  Definition accepted (a : kind) (st : string * engine * kind) : Prop :=
    supports T (snd (fst st)) a = Ok true.

  Lemma chain_accepts reg prefs k steps cks final v actual :
    chain T reg prefs k steps cks final -> k_ver k = Some v ->
    (forall n e, lookup n reg = Some e -> version T (e_supported e) = v) ->
    Forall2 (within v) actual steps -> Forall2 accepted actual steps.
  Proof.
    intros C. revert actual. induction C as [k|k n e ck k' steps cks final Hin L Hh R C IH]; intros actual Hv Hreg F.
    - inversion F; subst. constructor.
    - inversion F as [|a st actual' steps' W F']; subst. destruct W as [Va La]. constructor.
      + unfold accepted; simpl. simpl in La. destruct Hh as [_ [S _]]. simpl in S.
        apply (supports_downward e a k); auto.
        * rewrite Va. symmetry. now apply version_of_explicit.
        * rewrite (version_of_explicit _ _ Hv). symmetry. eapply Hreg; eauto.
      + apply IH; auto. rewrite (run_resulting_ver _ _ _ R). exact Hv.
  Qed.

  Lemma pipeline_accepts reg prefs cks k0 steps final v actual :
    pipeline T reg prefs None cks k0 = Pipe steps final -> k_ver k0 = Some v ->
    (forall n e, lookup n reg = Some e -> version T (e_supported e) = v) ->
    Forall2 (within v) actual steps -> Forall2 accepted actual steps.
  Proof. intros P. apply pipeline_chain in P. eapply chain_accepts; eauto. Qed.
  Lemma within_accepted_unfolded v a st :
    (within v a st <-> version T a = v /\ le T a (snd st) = Ok true)
    /\ (accepted a st <-> le T a (e_supported (snd (fst st))) = Ok true).
  Proof. unfold within, accepted, supports. tauto. Qed.
End Accepts.
