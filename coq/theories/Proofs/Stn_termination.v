(* Proofs about the DeltaSTN model (C25), part 2: termination of _inc_check with an explicit fuel.
   Idea: let d0 be the (feasible) distances before add(x, y, b) and delta = d0[y] - (d0[x] + b) > 0 the amount by which
   y is lowered.  Every edge other than the new one is feasible for d0, so during the propagation no distance drops
   below d0[v] - delta; relaxing the new edge itself is the `return False` case.  All numbers are multiples of
   g = 1 / (product of the denominators of the inserted bounds), so each relaxation lowers one dictionary entry by
   at least g while appending one event to the queue: (sum of entries - lower bound)/g + |queue| decreases with every
   pop. *)
From Coq Require Import List ZArith NArith QArith Qabs Qround Bool Lia Lqa.
Import ListNotations.
Require Import UPV.Model.Stn UPV.Proofs.Stn_proofs.
Local Open Scope Q_scope.

(* ------------------------------------------------------------------ multiples of g *)
Definition mult (g q : Q) : Prop := exists z : Z, q == inject_Z z * g.

Lemma mult_0 g : mult g 0.
Proof. exists 0%Z. unfold inject_Z. lra. Qed.

Lemma mult_plus g p q : mult g p -> mult g q -> mult g (p + q).
Proof. intros [a Ha] [c Hc]. exists (a + c)%Z. rewrite inject_Z_plus. lra. Qed.

Lemma mult_wd g p q : p == q -> mult g p -> mult g q.
Proof. intros H [a Ha]. exists a. lra. Qed.

Lemma mult_gap g p q : 0 < g -> mult g p -> mult g q -> p < q -> p + g <= q.
Proof.
  intros Hg [a Ha] [c Hc] Hlt.
  assert (H1 : inject_Z a * g < inject_Z c * g) by lra.
  apply Qmult_lt_r in H1; [|exact Hg]. rewrite <- Zlt_Qlt in H1.
  assert (H2 : (a + 1 <= c)%Z) by lia. rewrite Zle_Qle in H2. rewrite inject_Z_plus in H2.
  assert (H3 : (inject_Z a + inject_Z 1) * g <= inject_Z c * g) by (apply Qmult_le_r; assumption).
  unfold inject_Z at 2 in H3. lra.
Qed.

Lemma inject_nat_nonneg n : 0 <= inject_Z (Z.of_nat n).
Proof. change 0 with (inject_Z 0). rewrite <- Zle_Qle. lia. Qed.

(* ------------------------------------------------------------------ sums over the distance dictionary *)
Fixpoint sumv (d : dist) : Q := match d with [] => 0 | (_, v) :: r => v + sumv r end.

Definition qlen (d : dist) : Q := inject_Z (Z.of_nat (length d)).

Lemma sumv_set k q d : find k d <> None -> sumv (set k q d) == sumv d - getd d k + q.
Proof.
  unfold getd. induction d as [|[k' v'] d IH]; simpl; intros H; [congruence|].
  destruct (N.eqb_spec k k'); simpl.
  - lra.
  - specialize (IH H). destruct (find k d); lra.
Qed.

Lemma length_set {V} k (q : V) d : find k d <> None -> length (set k q d) = length d.
Proof.
  induction d as [|[k' v'] d IH]; simpl; intros H; [congruence|].
  destruct (N.eqb_spec k k'); simpl; [reflexivity | rewrite IH; auto].
Qed.

Lemma Forall_set (P : Q -> Prop) k q (d : dist) :
  Forall (fun kv => P (snd kv)) d -> P q -> Forall (fun kv => P (snd kv)) (set k q d).
Proof.
  intros H Hq. induction H as [|[k' v'] d Hx Hd IH]; simpl; [repeat constructor; exact Hq|].
  destruct (k =? k')%N; constructor; simpl; auto.
Qed.

Lemma Forall_setdefault (P : Q -> Prop) k q (d : dist) :
  Forall (fun kv => P (snd kv)) d -> P q -> Forall (fun kv => P (snd kv)) (setdefault k q d).
Proof.
  intros H Hq. unfold setdefault. destruct (find k d); [exact H|].
  apply Forall_app. split; [exact H | repeat constructor; exact Hq].
Qed.

Lemma length_setdefault {V} k (q : V) d : (length (setdefault k q d) <= S (length d))%nat.
Proof. unfold setdefault. destruct (find k d); [lia|]. rewrite app_length. simpl. lia. Qed.

Lemma getd_Forall (P : Q -> Prop) (d : dist) v :
  Forall (fun kv => P (snd kv)) d -> P 0 -> P (getd d v).
Proof.
  unfold getd. intros H H0. induction H as [|[k' v'] d Hx _ IH]; simpl; [exact H0|].
  destruct (v =? k')%N; [exact Hx | exact IH].
Qed.

Lemma sumv_lower Lb (d : dist) : Forall (fun kv => Lb <= snd kv) d -> qlen d * Lb <= sumv d.
Proof.
  unfold qlen. induction 1 as [|[k v] d Hx _ IH]; simpl length; simpl sumv.
  - unfold inject_Z; simpl. lra.
  - simpl in Hx. rewrite Nat2Z.inj_succ, <- Z.add_1_r, inject_Z_plus. unfold inject_Z at 2. lra.
Qed.

Lemma sumv_upper (d : dist) : Forall (fun kv => snd kv <= 0) d -> sumv d <= 0.
Proof. induction 1 as [|[k v] d Hx _ IH]; simpl in *; lra. Qed.

(* ------------------------------------------------------------------ the propagation terminates *)
Section Termination.
  Variables (cm : cons_map) (x y : N) (b : Q) (eps : Q) (d0 : dist) (g Lb : Q) (n : nat).
  Hypothesis Heps : eps == 0.
  Hypothesis Hg : 0 < g.
  Let delta := getd d0 y - (getd d0 x + b).
  Hypothesis Hdelta : 0 < delta.
  Hypothesis Hbounds : forall u v bb, edge cm u v bb -> mult g bb.
  Hypothesis Hold : forall u v bb, edge cm u v bb -> (u = x /\ v = y /\ bb = b) \/ getd d0 v <= getd d0 u + bb.
  Hypothesis HLb : forall v, Lb <= getd d0 v - delta.

  Record tgood (d : dist) : Prop := {
    t_low : forall v, getd d0 v - delta <= getd d v;
    t_ent : Forall (fun kv => Lb <= snd kv) d;
    t_neg : Forall (fun kv => snd kv <= 0) d;
    t_mult : forall v, mult g (getd d v);
    t_known : forall u v bb, edge cm u v bb -> find v d <> None;
    t_len : length d = n
  }.

  (* the potential, in units of g *)
  Definition pot (d : dist) (queue : list N) : Q := sumv d - qlen d * Lb + inject_Z (Z.of_nat (length queue)) * g.

  Lemma detection_fires bound : bound = b -> (y =? y)%N && Qle_bool (Qabs (bound - b)) eps = true.
  Proof.
    intros ->. rewrite N.eqb_refl. simpl. apply Qle_bool_iff. apply (proj2 (Qabs_Qle_condition (b - b) eps)). split; lra.
  Qed.

  Lemma scan_term c : forall ns d queue,
    (forall v bb, In (v, bb) ns -> edge cm c v bb) -> tgood d ->
    match scan d eps y b c ns queue with
    | (d', Some q') => tgood d' /\ pot d' q' <= pot d queue
    | (d', None) => tgood d'
    end.
  Proof.
    induction ns as [|[dst bound] ns IH]; intros d queue Hns G.
    - simpl. split; [exact G | lra].
    - cbn [scan]. destruct (Qlt_bool (getd d c + bound + eps) (getd d dst)) eqn:E.
      + apply Qlt_bool_iff in E. assert (Hlt : getd d c + bound < getd d dst) by lra.
        assert (He : edge cm c dst bound) by (apply Hns; left; reflexivity).
        destruct ((dst =? y)%N && Qle_bool (Qabs (bound - b)) eps) eqn:E2; [exact G|].
        destruct (Hold _ _ _ He) as [(-> & -> & Hb)|Hf].
        { rewrite (detection_fires bound Hb) in E2. discriminate. }
        destruct G as [T1 T2 T3 T4 T5 T6].
        assert (Hk : find dst d <> None) by (eapply T5; exact He).
        assert (Hm : mult g (getd d c + bound)) by (apply mult_plus; [apply T4 | eapply Hbounds; exact He]).
        assert (Hgap : getd d c + bound + g <= getd d dst) by (apply mult_gap; auto).
        assert (Hlow : getd d0 dst - delta <= getd d c + bound) by (specialize (T1 c); lra).
        assert (G' : tgood (set dst (getd d c + bound) d)).
        { constructor.
          - intros v. destruct (N.eq_dec v dst) as [->|Hne].
            + rewrite getd_set_eq. exact Hlow.
            + rewrite getd_set_neq by auto. apply T1.
          - apply (Forall_set (fun q => Lb <= q)); [exact T2|]. specialize (HLb dst). lra.
          - apply (Forall_set (fun q => q <= 0)); [exact T3|].
            pose proof (getd_Forall (fun q => q <= 0) d dst T3 (Qle_refl 0)) as Hd0. cbv beta in Hd0. lra.
          - intros v. destruct (N.eq_dec v dst) as [->|Hne].
            + rewrite getd_set_eq. exact Hm.
            + rewrite getd_set_neq by auto. apply T4.
          - intros u v bb Hedge. apply find_set_some. eapply T5; exact Hedge.
          - rewrite (length_set dst _ d Hk). exact T6. }
        specialize (IH (set dst (getd d c + bound) d) (queue ++ [dst]) (fun v bb HI => Hns v bb (or_intror HI)) G').
        destruct (scan (set dst (getd d c + bound) d) eps y b c ns (queue ++ [dst])) as [d' [q'|]]; [|exact IH].
        destruct IH as [G'' Hp]. split; [exact G''|].
        eapply Qle_trans; [exact Hp|]. unfold pot, qlen.
        rewrite (length_set dst _ d Hk), app_length. simpl length.
        rewrite Nat2Z.inj_add, inject_Z_plus. pose proof (sumv_set dst (getd d c + bound) d Hk) as Hs.
        change (inject_Z (Z.of_nat 1)) with 1. lra.
      + apply IH; [|exact G]. intros v bb HI. apply Hns. right; exact HI.
  Qed.

  Lemma pot_nonneg d queue : tgood d -> inject_Z (Z.of_nat (length queue)) * g <= pot d queue.
  Proof. intros G. unfold pot. pose proof (sumv_lower Lb d (t_ent d G)). lra. Qed.

  Lemma bfs_term : forall fuel d queue,
    tgood d -> pot d queue <= inject_Z (Z.of_nat fuel) * g ->
    match bfs fuel cm d eps y b queue with
    | Finished d' _ => tgood d'
    | OutOfFuel => False
    end.
  Proof.
    induction fuel as [|fuel IH]; intros d queue G Hp.
    - destruct queue as [|c q']; simpl; [exact G|].
      pose proof (pot_nonneg d (c :: q') G) as Hn. simpl length in Hn.
      rewrite Nat2Z.inj_succ, <- Z.add_1_r, inject_Z_plus in Hn. simpl in Hp.
      pose proof (inject_nat_nonneg (length q')).
      unfold inject_Z at 2 in Hn. unfold inject_Z at 1 in Hp. nra.
    - destruct queue as [|c q']; simpl; [exact G|].
      pose proof (scan_term c (getc cm c) d q' (fun v bb HI => HI) G) as S.
      destruct (scan d eps y b c (getc cm c) q') as [d1 [q1|]]; [|exact S].
      destruct S as [G1 Hp1]. apply IH; [exact G1|].
      eapply Qle_trans; [exact Hp1|].
      unfold pot in *. simpl length in Hp. rewrite !Nat2Z.inj_succ, <- !Z.add_1_r, !inject_Z_plus in Hp.
      change (inject_Z 1) with 1 in Hp. lra.
  Qed.
End Termination.

(* ------------------------------------------------------------------ the bound on the entries and the granularity *)
Fixpoint bnd_from (acc : Q) (adds : list cstr) : Q :=
  match adds with
  | [] => acc
  | (_, _, b) :: r => bnd_from (2 * acc + Qabs b) r
  end.
Definition bnd (adds : list cstr) : Q := bnd_from 0 adds.

Lemma bnd_from_ge acc adds : 0 <= acc -> acc <= bnd_from acc adds.
Proof.
  revert acc. induction adds as [|[[x y] b] r IH]; intros acc H; simpl; [lra|].
  pose proof (Qabs_nonneg b). assert (H2 : 0 <= 2 * acc + Qabs b) by lra.
  specialize (IH _ H2). lra.
Qed.

Lemma bnd_from_app acc a c : bnd_from acc (a ++ c) = bnd_from (bnd_from acc a) c.
Proof. revert acc. induction a as [|[[x y] b] r IH]; intros acc; simpl; [reflexivity | apply IH]. Qed.

Lemma bnd_from_nonneg acc adds : 0 <= acc -> 0 <= bnd_from acc adds.
Proof. intros H. pose proof (bnd_from_ge acc adds H). lra. Qed.

Lemma bnd_snoc a x y b : bnd (a ++ [(x, y, b)]) = 2 * bnd a + Qabs b.
Proof. unfold bnd. rewrite bnd_from_app. reflexivity. Qed.

Lemma bnd_prefix a c : bnd a <= bnd (a ++ c).
Proof. unfold bnd. rewrite bnd_from_app. apply bnd_from_ge. apply bnd_from_nonneg. lra. Qed.

Fixpoint dens (adds : list cstr) : positive :=
  match adds with
  | [] => 1%positive
  | (_, _, b) :: r => (Qden b * dens r)%positive
  end.
Definition gran (adds : list cstr) : Q := 1 # dens adds.

Lemma gran_pos adds : 0 < gran adds.
Proof. unfold gran, Qlt; simpl. lia. Qed.

Lemma gran_mult adds x y b : In (x, y, b) adds -> mult (gran adds) b.
Proof.
  unfold gran. induction adds as [|[[x' y'] b'] r IH]; simpl; intros H; [tauto|].
  destruct H as [H|H].
  - inversion H; subst. exists (Qnum b * Zpos (dens r))%Z. destruct b as [n m]; unfold Qeq, inject_Z; simpl.
    rewrite !Pos2Z.inj_mul. ring.
  - destruct (IH H) as [z Hz]. exists (z * Zpos (Qden b'))%Z. destruct b as [n m]; unfold Qeq, inject_Z in *; simpl in *.
    rewrite !Pos2Z.inj_mul. rewrite Z.mul_1_r in *.
    transitivity ((n * Zpos (dens r)) * Zpos (Qden b'))%Z; [ring|]. rewrite Hz. ring.
Qed.

(* ------------------------------------------------------------------ the invariant that makes every add terminate *)
Record tinv (g : Q) (s : stn) (A : list cstr) : Prop := {
  ti_ent : Forall (fun kv => - bnd A <= snd kv) (s_dist s);
  ti_neg : Forall (fun kv => snd kv <= 0) (s_dist s);
  ti_mult : forall v, mult g (getd (s_dist s) v);
  ti_len : (length (s_dist s) <= 2 * length A)%nat
}.

Definition fuel_ok (g : Q) (fuel : nat) (all : list cstr) : Prop :=
  inject_Z (Z.of_nat (2 * length all)) * (bnd all) + g <= inject_Z (Z.of_nat fuel) * g.

Lemma Forall_weaken_low (d : dist) lo lo' : lo' <= lo -> Forall (fun kv => lo <= snd kv) d -> Forall (fun kv => lo' <= snd kv) d.
Proof. intros H. apply Forall_impl. intros kv Hk. lra. Qed.

Lemma add_term g fuel all s A x y b rest :
  0 < g -> (forall x' y' b', In (x', y', b') all -> mult g b') ->
  all = A ++ (x, y, b) :: rest ->
  fuel_ok g fuel all ->
  inv s A -> (s_sat s = true -> tinv g s A) ->
  exists s', add fuel s x y b = Some s' /\ (s_sat s' = true -> tinv g s' (A ++ [(x, y, b)])).
Proof.
  intros Hg Hall Heq Hfuel [Heps Hi] Ht. unfold add. destruct (s_sat s) eqn:Hsat.
  2:{ exists s. split; [reflexivity|]. intros H. congruence. }
  specialize (Ht eq_refl). destruct Ht as [T1 T2 T3 T4]. destruct Hi as [I1 I2 I3 I4 I5 I6].
  set (d1 := setdefault y 0 (setdefault x 0 (s_dist s))).
  set (c1 := setdefault y [] (s_cons s)).
  pose proof (Qabs_nonneg b) as Habs.
  assert (HB0 : 0 <= bnd A) by (apply bnd_from_nonneg; lra).
  assert (HB : bnd (A ++ [(x, y, b)]) == 2 * bnd A + Qabs b) by (rewrite bnd_snoc; reflexivity).
  assert (Hd1 : forall v, getd d1 v = getd (s_dist s) v).
  { intros v. unfold d1. rewrite !getd_setdefault0. reflexivity. }
  assert (Hc1 : forall u, getc c1 u = getc (s_cons s) u) by (intros u; apply getc_setdefault_nil).
  assert (E1 : Forall (fun kv => - bnd A <= snd kv) d1).
  { unfold d1. apply (Forall_setdefault (fun q => - bnd A <= q)); [apply (Forall_setdefault (fun q => - bnd A <= q)); [exact T1|]|]; lra. }
  assert (E2 : Forall (fun kv => snd kv <= 0) d1).
  { unfold d1. apply (Forall_setdefault (fun q => q <= 0)); [apply (Forall_setdefault (fun q => q <= 0)); [exact T2|]|]; lra. }
  assert (E3 : (length d1 <= 2 * length (A ++ [(x, y, b)]))%nat).
  { unfold d1. pose proof (length_setdefault y 0 (setdefault x 0 (s_dist s))). pose proof (length_setdefault x 0 (s_dist s)).
    rewrite app_length. change (length [(x, y, b)]) with 1%nat.
    eapply Nat.le_trans; [exact H|]. eapply Nat.le_trans; [apply le_n_S; exact H0|]. clear -T4. unfold cstr in *. lia. }
  assert (Hky : find y d1 <> None) by (unfold d1; apply find_setdefault_self).
  assert (Hkx : find x d1 <> None) by (unfold d1; apply find_setdefault_some, find_setdefault_self).
  destruct (is_subsumed c1 x y b) eqn:Hsub.
  - eexists. split; [reflexivity|]. simpl. intros _. constructor; simpl.
    + apply (Forall_weaken_low d1 (- bnd A)); [lra | exact E1].
    + exact E2.
    + intros v. rewrite Hd1. apply T3.
    + exact E3.
  - set (c2 := set x ((y, b) :: getc (s_cons s) x) c1).
    assert (Hc2 : forall u v bb, edge c2 u v bb <-> (u = x /\ v = y /\ bb = b) \/ edge (s_cons s) u v bb).
    { intros u v bb. unfold edge, c2. destruct (N.eq_dec u x) as [->|Hne].
      - rewrite getc_set_eq. simpl. split.
        + intros [HE|HI]; [inversion HE; subst; left; auto | right; exact HI].
        + intros [(_ & -> & ->)|HI]; [left; reflexivity | right; exact HI].
      - rewrite getc_set_neq; auto. rewrite Hc1. split; [intros HI; right; exact HI | intros [(Hu & _)|HI]; [contradiction | exact HI]]. }
    assert (Hin : In (x, y, b) all) by (rewrite Heq; apply in_or_app; right; left; reflexivity).
    assert (HinA : forall c, In c A -> In c all) by (intros c Hc; rewrite Heq; apply in_or_app; left; exact Hc).
    unfold inc_check. destruct (Qlt_bool (getd d1 x + b) (getd d1 y)) eqn:E.
    2:{ eexists. split; [reflexivity|]. simpl. intros _. constructor; simpl.
        + apply (Forall_weaken_low d1 (- bnd A)); [lra | exact E1].
        + exact E2.
        + intros v. rewrite Hd1. apply T3.
        + exact E3. }
    apply Qlt_bool_iff in E.
    set (delta := getd d1 y - (getd d1 x + b)).
    assert (Hdelta : 0 < delta) by (unfold delta; lra).
    set (Lb := - bnd (A ++ [(x, y, b)])).
    assert (Hrange : forall v, - bnd A <= getd d1 v /\ getd d1 v <= 0).
    { intros v. split.
      - apply (getd_Forall (fun q => - bnd A <= q) d1 v E1). cbv beta. lra.
      - apply (getd_Forall (fun q => q <= 0) d1 v E2). cbv beta. lra. }
    assert (HLb : forall v, Lb <= getd d1 v - delta).
    { intros v. unfold Lb, delta. destruct (Hrange v), (Hrange x), (Hrange y).
      pose proof (Qle_Qabs b). pose proof (Qle_Qabs (- b)). pose proof (Qabs_opp b). lra. }
    set (dinit := set y (getd d1 x + b) d1).
    assert (G0 : tgood c2 x y b d1 g Lb (length d1) dinit).
    { constructor.
      - intros v. fold delta. unfold dinit. destruct (N.eq_dec v y) as [->|Hne].
        + rewrite getd_set_eq. unfold delta. lra.
        + rewrite getd_set_neq by auto. lra.
      - apply (Forall_set (fun q => Lb <= q)).
        + apply (Forall_weaken_low d1 (- bnd A)); [unfold Lb; lra | exact E1].
        + specialize (HLb y). unfold delta in HLb. lra.
      - apply (Forall_set (fun q => q <= 0)); [exact E2|]. destruct (Hrange y). lra.
      - intros v. unfold dinit. destruct (N.eq_dec v y) as [->|Hne].
        + rewrite getd_set_eq. apply mult_plus; [rewrite Hd1; apply T3 | apply (Hall _ _ _ Hin)].
        + rewrite getd_set_neq by auto. rewrite Hd1. apply T3.
      - intros u v bb He. apply find_set_some. apply Hc2 in He. destruct He as [(-> & -> & ->)|He]; [exact Hky|].
        unfold d1. apply find_setdefault_some, find_setdefault_some. apply (I6 _ _ _ (I1 _ _ _ He)).
      - unfold dinit. apply length_set. exact Hky. }
    pose proof (bfs_term c2 x y b (s_eps s) d1 g Lb (length d1) Heps Hg) as BT. fold delta in BT.
    assert (Hbounds : forall u v bb, edge c2 u v bb -> mult g bb).
    { intros u v bb He. apply Hc2 in He. destruct He as [(-> & -> & ->)|He]; [apply (Hall _ _ _ Hin)|].
      apply (Hall u v bb). apply HinA. apply I1. exact He. }
    assert (Hold : forall u v bb, edge c2 u v bb -> (u = x /\ v = y /\ bb = b) \/ getd d1 v <= getd d1 u + bb).
    { intros u v bb He. apply Hc2 in He. destruct He as [He|He]; [left; exact He | right]. rewrite !Hd1. apply I3; exact He. }
    specialize (BT Hbounds Hold HLb fuel dinit [y] G0).
    assert (Hpot : pot g Lb dinit [y] <= inject_Z (Z.of_nat fuel) * g).
    { unfold pot, qlen. rewrite (t_len _ _ _ _ _ _ _ _ _ G0). simpl length.
      pose proof (sumv_upper dinit (t_neg _ _ _ _ _ _ _ _ _ G0)) as Hsu.
      unfold fuel_ok in Hfuel.
      assert (Hn1 : inject_Z (Z.of_nat (length d1)) <= inject_Z (Z.of_nat (2 * length all))).
      { rewrite <- Zle_Qle. apply Nat2Z.inj_le. rewrite Heq. rewrite app_length in *. simpl in *. lia. }
      pose proof (inject_nat_nonneg (length d1)) as Hn0.
      assert (HB1 : bnd (A ++ [(x, y, b)]) <= bnd all).
      { rewrite Heq. replace (A ++ (x, y, b) :: rest) with ((A ++ [(x, y, b)]) ++ rest) by (rewrite <- app_assoc; reflexivity).
        apply bnd_prefix. }
      assert (HB2 : 0 <= bnd (A ++ [(x, y, b)])) by lra.
      unfold Lb. change (inject_Z (Z.of_nat 1)) with 1.
      assert (Hprod : inject_Z (Z.of_nat (length d1)) * bnd (A ++ [(x, y, b)]) <= inject_Z (Z.of_nat (2 * length all)) * bnd all) by nra.
      unfold cstr in *. lra. }
    specialize (BT Hpot).
    destruct (bfs fuel c2 dinit (s_eps s) y b [y]) as [d2 r|]; [|contradiction].
    eexists. split; [reflexivity|]. simpl. intros _. destruct BT as [B1 B2 B3 B4 B5 B6]. constructor; simpl.
    + exact B2.
    + exact B3.
    + exact B4.
    + rewrite B6. exact E3.
Qed.

Lemma run_adds_term g fuel all : 0 < g -> (forall x y b, In (x, y, b) all -> mult g b) -> fuel_ok g fuel all ->
  forall rest s A, all = A ++ rest -> inv s A -> (s_sat s = true -> tinv g s A) ->
  exists s', run_adds fuel s rest = Some s'.
Proof.
  intros Hg Hall Hfuel. induction rest as [|[[x y] b] rest IH]; intros s A Heq Hi Ht; simpl.
  - eexists; reflexivity.
  - destruct (add_term g fuel all s A x y b rest Hg Hall Heq Hfuel Hi Ht) as (s1 & Ha & Ht1).
    rewrite Ha. apply (IH s1 (A ++ [(x, y, b)])).
    + rewrite <- app_assoc. exact Heq.
    + eapply add_inv; eauto.
    + exact Ht1.
Qed.

(* a fuel that is enough for the whole insertion sequence, computed from the sequence *)
Definition enough_fuel (adds : list cstr) : nat :=
  S (Z.to_nat (Qceiling (inject_Z (Z.of_nat (2 * length adds)) * bnd adds * inject_Z (Zpos (dens adds))))).

Lemma enough_fuel_ok adds : fuel_ok (gran adds) (enough_fuel adds) adds.
Proof.
  unfold fuel_ok, enough_fuel, gran.
  set (N := inject_Z (Z.of_nat (2 * length adds))). set (B := bnd adds). set (P := dens adds).
  assert (HB : 0 <= B) by (apply bnd_from_nonneg; lra).
  assert (HN : 0 <= N) by (unfold N; apply inject_nat_nonneg).
  assert (HP : 0 < inject_Z (Zpos P)) by (change 0 with (inject_Z 0); rewrite <- Zlt_Qlt; lia).
  assert (Hx0 : 0 <= N * B) by (apply Qmult_le_0_compat; assumption).
  assert (Hx : 0 <= N * B * inject_Z (Zpos P)) by (apply Qmult_le_0_compat; [exact Hx0 | lra]).
  pose proof (Qle_ceiling (N * B * inject_Z (Zpos P))) as Hc.
  assert (Hz : (0 <= Qceiling (N * B * inject_Z (Zpos P)))%Z).
  { rewrite Zle_Qle. change (inject_Z 0) with 0. eapply Qle_trans; [exact Hx | exact Hc]. }
  rewrite Nat2Z.inj_succ, <- Z.add_1_r, inject_Z_plus, Z2Nat.id by exact Hz.
  change (inject_Z 1) with 1.
  assert (Hone : inject_Z (Zpos P) * (1 # P) == 1).
  { unfold Qeq, inject_Z; simpl. lia. }
  set (C := inject_Z (Qceiling (N * B * inject_Z (Z.pos P)))) in *.
  set (IP := inject_Z (Z.pos P)) in *. set (gg := 1 # P) in *.
  assert (Hg : 0 < gg) by (unfold gg, Qlt; simpl; lia).
  assert (H1 : N * B * IP * gg <= C * gg) by (apply Qmult_le_compat_r; [exact Hc | lra]).
  assert (H2 : N * B * IP * gg == N * B) by (rewrite <- Qmult_assoc, Hone, Qmult_1_r; reflexivity).
  lra.
Qed.

Lemma tinv_empty g eps : tinv g (empty_stn eps) [].
Proof.
  constructor; simpl; try constructor.
  intros v. unfold getd; simpl. apply mult_0.
Qed.

Lemma stn_terminates eps adds :
  eps == 0 -> exists s, run_adds (enough_fuel adds) (empty_stn eps) adds = Some s.
Proof.
  intros He.
  apply (run_adds_term (gran adds) (enough_fuel adds) adds (gran_pos adds) (gran_mult adds) (enough_fuel_ok adds) adds (empty_stn eps) []).
  - reflexivity.
  - apply inv_empty. exact He.
  - intros _. apply tinv_empty.
Qed.

Lemma stn_decides eps adds :
  eps == 0 ->
  exists s, run_adds (enough_fuel adds) (empty_stn eps) adds = Some s /\ (check_stn s = true <-> solvable adds).
Proof.
  intros He. destruct (stn_terminates eps adds He) as [s Hs]. exists s. split; [exact Hs|].
  eapply stn_sat_iff; eauto.
Qed.
