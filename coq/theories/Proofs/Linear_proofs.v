(* Proofs about the LinearChecker model (C17): a fluent reported only among the positive (negative) fluents of an
   expression reported linear makes the value non-decreasing (non-increasing); products of two fluent-dependent
   factors and quotients by a fluent-dependent divisor are never reported linear. *)
From Coq Require Import List ZArith NArith QArith Qcanon Bool Lia Lqa.
Import ListNotations.
Require Import UPV.Core.Expr UPV.Core.Eval UPV.Core.Interp UPV.Proofs.Eval_lemmas.
Require Import UPV.Walkers.TypeInfer UPV.Proofs.TypeInfer_proofs UPV.Walkers.Linear.
Local Open Scope Qc_scope.

(* ================= sets of fluent expressions ================= *)
Lemma mem_e_In x s : mem_e x s = true <-> In x s.
Proof.
  unfold mem_e. rewrite existsb_exists. split.
  - intros [y [Hy E]]. apply expr_eqb_eq in E. subst. exact Hy.
  - intros H. exists x. split; [exact H | apply expr_eqb_refl].
Qed.

Lemma mem_e_app x a b : mem_e x (a ++ b) = mem_e x a || mem_e x b.
Proof. unfold mem_e. apply existsb_app. Qed.

Lemma mem_e_union x a b : mem_e x (union a b) = mem_e x a || mem_e x b.
Proof.
  unfold union. rewrite mem_e_app. destruct (mem_e x a) eqn:Ea; [reflexivity|]. simpl.
  apply eq_true_iff_eq. rewrite !mem_e_In, filter_In. split.
  - tauto.
  - intros H. split; [exact H|]. apply negb_true_iff.
    destruct (mem_e x a) eqn:E; [discriminate | reflexivity].
Qed.

Lemma mem_e_fold_union x sets : forall acc,
  mem_e x (fold_left union sets acc) = mem_e x acc || existsb (mem_e x) sets.
Proof.
  induction sets as [|s sets IH]; intros acc; simpl; [rewrite orb_false_r; reflexivity|].
  rewrite IH, mem_e_union, orb_assoc. reflexivity.
Qed.

Lemma union_nil_l s x : mem_e x (union [] s) = mem_e x s.
Proof. rewrite mem_e_union. reflexivity. Qed.

Lemma is_empty_true s : is_empty s = true -> s = [].
Proof. destruct s; [reflexivity | discriminate]. Qed.

Lemma union_nonempty a b : is_empty (union a b) = is_empty a && is_empty b.
Proof.
  destruct a as [|x a]; simpl.
  - unfold union. simpl. destruct b; reflexivity.
  - reflexivity.
Qed.

(* ================= unfolding equations of [lin] ================= *)
Fixpoint lins (G : tenv) (l : list expr) : option (list lres) :=
  match l with
  | [] => Some []
  | x :: l' => match lin G x, lins G l' with Some r, Some rs => Some (r :: rs) | _, _ => None end
  end.

Lemma lins_fix G l :
  (fix lins (l : list expr) : option (list lres) :=
     match l with
     | [] => Some []
     | x :: l' => match lin G x, lins l' with Some r, Some rs => Some (r :: rs) | _, _ => None end
     end) l = lins G l.
Proof. induction l as [|x l IH]; [reflexivity|]. cbn [lins]. rewrite IH. reflexivity. Qed.

Definition dfltn (G : tenv) (l : list expr) : option lres :=
  match lins G l with Some rs => Some (walk_default rs) | None => None end.

Lemma lin_EFluent G f args :
  lin G (EFluent f args) = match lins G args with Some rs => Some (forallb r_lin rs, [EFluent f args], []) | None => None end.
Proof. cbn [lin]. rewrite lins_fix. reflexivity. Qed.
Lemma lin_ETimes G l : lin G (ETimes l) = match lins G l with Some rs => walk_times G l rs | None => None end.
Proof. cbn [lin]. rewrite lins_fix. reflexivity. Qed.
Lemma lin_EPlus G l : lin G (EPlus l) = dfltn G l.
Proof. cbn [lin]. rewrite lins_fix. reflexivity. Qed.
Lemma lin_EAnd G l : lin G (EAnd l) = dfltn G l.
Proof. cbn [lin]. rewrite lins_fix. reflexivity. Qed.
Lemma lin_EOr G l : lin G (EOr l) = dfltn G l.
Proof. cbn [lin]. rewrite lins_fix. reflexivity. Qed.
Lemma lin_EIFun G f l : lin G (EIFun f l) = dfltn G l.
Proof. cbn [lin]. rewrite lins_fix. reflexivity. Qed.
Lemma lin_EDiv G a b :
  lin G (EDiv a b) = match lin G a, lin G b with Some ra, Some rb => walk_div G b ra rb | _, _ => None end.
Proof. reflexivity. Qed.
Lemma lin_EMinus G a b :
  lin G (EMinus a b) = match lin G a, lin G b with Some ra, Some rb => Some (walk_minus ra rb) | _, _ => None end.
Proof. reflexivity. Qed.

(* ================= Qc sign lemmas ================= *)
Lemma mul_le_r (k x y : Qc) : 0 <= k -> x <= y -> x * k <= y * k.
Proof. intros. apply Qcmult_le_compat_r; assumption. Qed.
Lemma mul_le_r_neg (k x y : Qc) : k <= 0 -> x <= y -> y * k <= x * k.
Proof. intros. rewrite (Qcmult_comm y), (Qcmult_comm x). apply mul_le_l_neg; assumption. Qed.
Lemma pos_pos (a b : Qc) : 0 < a -> 0 < b -> 0 < a * b.
Proof. intros Ha Hb. pose proof (Qcmult_lt_compat_r 0 a b Hb Ha) as P. rewrite mul_0_l in P. exact P. Qed.
Lemma neg_pos (a b : Qc) : a < 0 -> 0 < b -> a * b < 0.
Proof. intros Ha Hb. pose proof (Qcmult_lt_compat_r a 0 b Hb Ha) as P. rewrite mul_0_l in P. exact P. Qed.
Lemma pos_neg (a b : Qc) : 0 < a -> b < 0 -> a * b < 0.
Proof. intros Ha Hb. rewrite Qcmult_comm. apply neg_pos; assumption. Qed.
Lemma neg_neg (a b : Qc) : a < 0 -> b < 0 -> 0 < a * b.
Proof.
  intros Ha Hb. replace (a * b) with ((- a) * (- b)) by ring.
  apply pos_pos; qlra.
Qed.
Lemma lt_le_trans_0 (l q : Qc) : 0 < l -> l <= q -> 0 < q.
Proof. intros. eapply Qclt_le_trans; eauto. Qed.
Lemma le_lt_trans_0 (u q : Qc) : q <= u -> u < 0 -> q < 0.
Proof. intros. eapply Qcle_lt_trans; eauto. Qed.

Lemma sign_of_pos t q : sign_of t = SPos -> num_in t q -> 0 < q.
Proof.
  unfold sign_of. intros H [Hl _]. destruct (lb t) as [l|]; [|discriminate]. destruct (ub t) as [u|]; [|discriminate].
  destruct (qc_ltb 0 l) eqn:E; [|destruct (qc_ltb u 0); discriminate].
  apply qc_ltb_lt in E. simpl in Hl. eapply lt_le_trans_0; eauto.
Qed.
Lemma sign_of_neg t q : sign_of t = SNeg -> num_in t q -> q < 0.
Proof.
  unfold sign_of. intros H [_ [Hh _]]. destruct (lb t) as [l|]; [|discriminate]. destruct (ub t) as [u|]; [|discriminate].
  destruct (qc_ltb 0 l) eqn:E; [discriminate|]. destruct (qc_ltb u 0) eqn:E2; [|discriminate].
  apply qc_ltb_lt in E2. simpl in Hh. eapply le_lt_trans_0; eauto.
Qed.

(* ================= evaluation of ground fluent expressions ================= *)
Lemma evals_objs sc I os : evals sc I (map EObj os) = Some (map VObj os).
Proof. induction os as [|o os IH]; simpl; [reflexivity|]. rewrite IH. reflexivity. Qed.

Lemma all_objc args : forallb is_objc args = true -> exists os, args = map EObj os.
Proof.
  induction args as [|a args IH]; simpl; intros H; [exists []; reflexivity|].
  apply andb_true_iff in H. destruct H as [Ha Hr]. destruct (IH Hr) as [os ->].
  destruct a; try discriminate. exists (o :: os). reflexivity.
Qed.

Lemma map_VObj_inj a b : map VObj a = map VObj b -> a = b.
Proof.
  revert b. induction a as [|x a IH]; intros [|y b] H; simpl in H; try discriminate; [reflexivity|].
  inversion H. f_equal. apply IH. assumption.
Qed.

(* ================= monotonicity ================= *)
Section Mono.
  Variable G : tenv.
  Variable sc : bool.
  Variables I J : interp.
  Variable f : N.
  Variable os : list N.
  Hypothesis RI : respects G I.
  Hypothesis RJ : respects G J.
  Hypothesis AE : agree_except f os I J.
  Variables vk vk' : Qc.
  Hypothesis HkI : eval sc (gfluent f os) I = Some (VNum vk).
  Hypothesis HkJ : eval sc (gfluent f os) J = Some (VNum vk').
  Hypothesis Hle : vk <= vk'.

  Let k := gfluent f os.

  (* what a result promises about a pair of values *)
  Definition promise (r : lres) (q q' : Qc) : Prop :=
    (mem_e k (r_neg r) = false -> q <= q') /\ (mem_e k (r_pos r) = false -> q' <= q).

  Definition mono_at (e : expr) : Prop :=
    forall r v v', lin G e = Some r -> r_lin r = true ->
      eval sc e I = Some (VNum v) -> eval sc e J = Some (VNum v') -> promise r v v'.

  Definition item_ok (a : expr) (r : lres) (q q' : Qc) : Prop :=
    (r_lin r = true -> promise r q q') /\
    (forall t, num_type G a = Some t -> num_in t q /\ num_in t q').

  Inductive items : list expr -> list lres -> list Qc -> list Qc -> Prop :=
  | it_nil : items [] [] [] []
  | it_cons a r q q' l rs qs qs' :
      item_ok a r q q' -> items l rs qs qs' -> items (a :: l) (r :: rs) (q :: qs) (q' :: qs').

  Lemma as_num_some' x II q : as_num (eval sc x II) = Some q -> eval sc x II = Some (VNum q).
  Proof. destruct (eval sc x II) as [[| |]|]; simpl; congruence. Qed.

  Lemma num_type_sound a t II q : respects G II -> num_type G a = Some t -> eval sc a II = Some (VNum q) -> num_in t q.
  Proof.
    unfold num_type. intros R H Hv. destruct (infer_r G a) as [t'|] eqn:E; [|discriminate].
    destruct (is_num t') eqn:Hn; [|discriminate]. inversion H; subst t'.
    apply (inhabits_num G); [exact Hn|]. exact (infer_r_sound G sc II R a t (VNum q) E Hv).
  Qed.

  Definition arl : list expr -> bool :=
    fix ar (l : list expr) : bool := match l with [] => true | x :: l' => arith x && ar l' end.

  Lemma build_items l : Forall (fun x => arith x = true -> mono_at x) l -> arl l = true ->
    forall rs qs qs', lins G l = Some rs -> enums sc I l = Some qs -> enums sc J l = Some qs' -> items l rs qs qs'.
  Proof.
    induction 1 as [|x l Hx _ IH]; intros Har rs qs qs'; simpl.
    - intros E1 E2 E3. inversion E1; inversion E2; inversion E3. constructor.
    - simpl in Har. apply andb_true_iff in Har. destruct Har as [Hax Harl].
      destruct (lin G x) as [r|] eqn:El; [|discriminate]. destruct (lins G l) as [rs'|]; [|discriminate].
      intros E1. inversion E1; subst rs. clear E1.
      destruct (as_num (eval sc x I)) as [q|] eqn:Eq; [|discriminate].
      destruct (enums sc I l) as [qs0|]; [|discriminate]. intros E2. inversion E2; subst qs. clear E2.
      destruct (as_num (eval sc x J)) as [q'|] eqn:Eq'; [|discriminate].
      destruct (enums sc J l) as [qs0'|]; [|discriminate]. intros E3. inversion E3; subst qs'. clear E3.
      apply as_num_some' in Eq. apply as_num_some' in Eq'.
      constructor; [|apply IH; auto].
      split.
      + intros Hl. exact (Hx Hax r q q' El Hl Eq Eq').
      + intros t Ht. split; [exact (num_type_sound x t I q RI Ht Eq) | exact (num_type_sound x t J q' RJ Ht Eq')].
  Qed.

  (* ---- walk_default over a sum ---- *)
  Lemma items_sum l rs qs qs' : items l rs qs qs' -> forallb r_lin rs = true ->
    (existsb (mem_e k) (map r_neg rs) = false -> fold_right Qcplus (zq 0) qs <= fold_right Qcplus (zq 0) qs') /\
    (existsb (mem_e k) (map r_pos rs) = false -> fold_right Qcplus (zq 0) qs' <= fold_right Qcplus (zq 0) qs).
  Proof.
    induction 1 as [|a r q q' l rs qs qs' [Hp _] _ IH]; simpl; intros Hl.
    - split; intros _; apply Qcle_refl.
    - apply andb_true_iff in Hl. destruct Hl as [Hr Hrs]. destruct (IH Hrs) as [IH1 IH2]. destruct (Hp Hr) as [P1 P2].
      split; intros E; apply orb_false_iff in E; destruct E as [E1 E2]; apply Qcplus_le_compat; auto.
  Qed.

  (* ---- walk_times ---- *)
  Definition inv (st : tstate) (p p' : Qc) : Prop :=
    ts_lin st = true ->
    promise (times_out st) p p' /\
    (ts_found st = false ->
       ts_P st = [] /\ ts_N st = [] /\ p = p' /\ (ts_unk st = false -> if ts_posity st then 0 < p else p < 0)).

  Lemma promise_eq r q : promise r q q.
  Proof. split; intros _; apply Qcle_refl. Qed.

  Lemma promise_both r q q' : mem_e k (r_neg r) = false -> mem_e k (r_pos r) = false -> promise r q q' -> q = q'.
  Proof. intros H1 H2 [P1 P2]. apply Qcle_antisym; auto. Qed.

  Lemma step_inv a r q q' st st1 p p' :
    item_ok a r q q' -> inv st p p' -> times_step G (Some st) (a, r) = Some st1 -> inv st1 (p * q) (p' * q').
  Proof.
    intros [Hprom Hty] Hinv. unfold times_step. cbn [fst snd].
    destruct (negb (is_empty (r_pos r) && is_empty (r_neg r))) eqn:Eset.
    - (* an argument with fluents *)
      intros E. inversion E. subst st1. clear E. unfold inv. cbn [ts_lin ts_found ts_P ts_N ts_unk ts_posity].
      destruct (ts_found st) eqn:Ef; [discriminate|]. intros Hl. apply andb_true_iff in Hl. destruct Hl as [Hl Hb].
      destruct (Hinv Hl) as [_ Hnf]. destruct (Hnf Ef) as [HP [HN [Hpp Hsg]]]. subst p'.
      destruct (Hprom Hb) as [Q1 Q2].
      split; [|discriminate].
      unfold times_out, signed_out. cbn [ts_lin ts_found ts_P ts_N ts_unk ts_posity]. rewrite Hl, Hb, HP, HN. simpl negb. cbv iota.
      destruct (ts_unk st) eqn:Eu.
      + split; cbn [r_neg r_pos fst snd]; rewrite mem_e_union, !union_nil_l; intros E0;
          apply orb_false_iff in E0; destruct E0 as [E1 E2];
          (replace q' with q by (apply Qcle_antisym; auto)); apply Qcle_refl.
      + specialize (Hsg eq_refl). destruct (ts_posity st) eqn:Ep.
        * split; cbn [r_neg r_pos fst snd]; rewrite union_nil_l; intros E0;
            (apply mul_le_l; [apply Qclt_le_weak; exact Hsg | auto]).
        * split; cbn [r_neg r_pos fst snd]; rewrite union_nil_l; intros E0;
            (apply mul_le_l_neg; [apply Qclt_le_weak; exact Hsg | auto]).
    - (* a fluent-free factor: sign from its type *)
      apply negb_false_iff in Eset. apply andb_true_iff in Eset. destruct Eset as [Ep0 En0].
      apply is_empty_true in Ep0. apply is_empty_true in En0.
      destruct (num_type G a) as [t|] eqn:Et; [|discriminate]. destruct (Hty t eq_refl) as [Tq Tq'].
      assert (Heq : r_lin r = true -> q = q').
      { intros Hb. destruct (Hprom Hb) as [Q1 Q2]. rewrite En0 in Q1. rewrite Ep0 in Q2. apply Qcle_antisym; auto. }
      destruct (sign_of t) eqn:Es; intros E; inversion E; subst st1; clear E; unfold inv;
        cbn [ts_lin ts_found ts_P ts_N ts_unk ts_posity]; intros Hl; apply andb_true_iff in Hl; destruct Hl as [Hl Hb];
        specialize (Heq Hb); subst q'; destruct (Hinv Hl) as [[I1 I2] Hnf];
        unfold times_out, signed_out in *; cbn [ts_lin ts_found ts_P ts_N ts_unk ts_posity] in *; rewrite Hl, ?Hb in *;
        simpl negb in *; cbv iota in *.
      + (* positive *)
        pose proof (sign_of_pos _ _ Es Tq) as Hq. split.
        * split; intros E0; apply mul_le_r; try (apply Qclt_le_weak; exact Hq); auto.
        * intros Ef. destruct (Hnf Ef) as [HP [HN [Hpp Hsg]]]. repeat split; auto; [subst; reflexivity|].
          intros Eu. specialize (Hsg Eu). destruct (ts_posity st); [apply pos_pos | apply neg_pos]; assumption.
      + (* negative *)
        pose proof (sign_of_neg _ _ Es Tq) as Hq. split.
        * destruct (ts_unk st) eqn:Eu.
          -- split; intros E0; (replace p' with p by (apply Qcle_antisym; auto)); apply Qcle_refl.
          -- destruct (ts_posity st) eqn:Ep; simpl negb; cbv iota; cbn [r_neg r_pos fst snd] in *;
               split; intros E0; apply mul_le_r_neg; try (apply Qclt_le_weak; exact Hq); auto.
        * intros Ef. destruct (Hnf Ef) as [HP [HN [Hpp Hsg]]]. repeat split; auto; [subst; reflexivity|].
          intros Eu. specialize (Hsg Eu). destruct (ts_posity st); simpl negb; cbv iota; [apply pos_neg | apply neg_neg]; assumption.
      + (* unknown sign *)
        split.
        * unfold promise in *. cbn [r_neg r_pos fst snd]. rewrite !mem_e_union.
          assert (X : mem_e k (ts_P st) || mem_e k (ts_N st) = false -> p = p').
          { intros E0. apply orb_false_iff in E0. destruct E0 as [E1 E2].
            destruct (ts_unk st); [|destruct (ts_posity st)]; cbn [r_neg r_pos fst snd] in *;
              rewrite ?mem_e_union, ?E1, ?E2 in *; apply Qcle_antisym; auto. }
          split; intros E0; rewrite (X E0); apply Qcle_refl.
        * intros Ef. destruct (Hnf Ef) as [HP [HN [Hpp Hsg]]]. repeat split; auto; [subst; reflexivity|]. discriminate.
  Qed.

  Lemma fold_none {A} (step : option tstate -> A -> option tstate) (H : forall x, step None x = None) l :
    fold_left step l None = None.
  Proof. induction l; simpl; [reflexivity|]. rewrite H. assumption. Qed.

  Lemma times_fold_inv l rs qs qs' : items l rs qs qs' -> forall st p p' stf,
    inv st p p' -> fold_left (times_step G) (combine l rs) (Some st) = Some stf ->
    inv stf (p * fold_right Qcmult (zq 1) qs) (p' * fold_right Qcmult (zq 1) qs').
  Proof.
    induction 1 as [|a r q q' l rs qs qs' Hit _ IH]; intros st p p' stf Hinv; cbn [combine fold_left fold_right].
    - intros E. inversion E. subst stf. rewrite zq1. replace (p * 1) with p by ring. replace (p' * 1) with p' by ring. exact Hinv.
    - destruct (times_step G (Some st) (a, r)) as [st1|] eqn:Es.
      + intros E.
        replace (p * (q * fold_right Qcmult (zq 1) qs)) with ((p * q) * fold_right Qcmult (zq 1) qs) by ring.
        replace (p' * (q' * fold_right Qcmult (zq 1) qs')) with ((p' * q') * fold_right Qcmult (zq 1) qs') by ring.
        eapply IH; [|exact E]. eapply step_inv; eauto.
      + rewrite fold_none; [discriminate | reflexivity].
  Qed.

  Lemma inv_init : inv ts_init 1 1.
  Proof.
    unfold inv, ts_init. cbn. intros _. split; [apply promise_eq|]. intros _. split; [reflexivity|]. split; [reflexivity|]. split; [reflexivity|]. intros _. reflexivity.
  Qed.

  Lemma times_out_lin st : r_lin (times_out st) = true -> ts_lin st = true.
  Proof. unfold times_out, signed_out. destruct (ts_lin st); [reflexivity|]. simpl. discriminate. Qed.

  (* ---- the induction ---- *)
  Lemma k_eval II : eval sc (gfluent f os) II = fl II f (map VObj os).
  Proof. unfold gfluent. rewrite eval_EFluent, evals_objs. reflexivity. Qed.

  Theorem mono_all : forall e, arith e = true -> mono_at e.
  Proof.
    induction e using expr_ind'; intros Har; try discriminate Har; unfold mono_at; intros r v v' Hr Hl Hv Hv'.
    - (* EInt *) simpl in *. inversion Hv; inversion Hv'. subst. apply promise_eq.
    - (* EReal *) simpl in *. inversion Hv; inversion Hv'. subst. apply promise_eq.
    - (* EParam *) simpl in Hv, Hv'. rewrite (ae_par _ _ _ _ AE) in Hv. rewrite Hv in Hv'. inversion Hv'. apply promise_eq.
    - (* EFluent *)
      simpl in Har. destruct (all_objc _ Har) as [os' ->].
      rewrite lin_EFluent in Hr. destruct (lins G (map EObj os')) as [rs|]; [|discriminate]. inversion Hr. subst r. clear Hr.
      rewrite eval_EFluent, evals_objs in Hv, Hv'.
      destruct (N.eq_dec f0 f) as [Ef|Ef]; [destruct (list_eq_dec N.eq_dec os' os) as [Eo|Eo]|].
      + subst f0 os'.
        pose proof (k_eval I) as K1. pose proof (k_eval J) as K2.
        rewrite HkI in K1. rewrite HkJ in K2. rewrite <- K1 in Hv. rewrite <- K2 in Hv'. inversion Hv; inversion Hv'. subst.
        split; cbn [r_neg r_pos fst snd]; intros E0; [exact Hle|].
        unfold mem_e, k, gfluent in E0. cbn [existsb] in E0. rewrite expr_eqb_refl in E0. discriminate.
      + rewrite (ae_fl _ _ _ _ AE) in Hv; [|right; intros X; apply Eo; apply map_VObj_inj; exact X].
        rewrite Hv in Hv'. inversion Hv'. apply promise_eq.
      + rewrite (ae_fl _ _ _ _ AE) in Hv; [|left; exact Ef].
        rewrite Hv in Hv'. inversion Hv'. apply promise_eq.
    - (* EPlus *)
      rewrite lin_EPlus in Hr. unfold dfltn in Hr. destruct (lins G l) as [rs|] eqn:El; [|discriminate].
      inversion Hr. subst r. clear Hr. unfold walk_default in *. cbn [r_lin r_pos r_neg fst snd] in *.
      rewrite eval_EPlus in Hv, Hv'.
      destruct (enums sc I l) as [qs|] eqn:E1; [|discriminate]. destruct (enums sc J l) as [qs'|] eqn:E2; [|discriminate].
      inversion Hv; inversion Hv'. subst.
      pose proof (build_items l H Har rs qs qs' El E1 E2) as Hit.
      destruct (items_sum _ _ _ _ Hit Hl) as [S1 S2].
      split; cbn [r_neg r_pos fst snd]; rewrite mem_e_fold_union; simpl; intros E0; auto.
    - (* EMinus *)
      simpl in Har. apply andb_true_iff in Har. destruct Har as [Ha Hb].
      rewrite lin_EMinus in Hr. destruct (lin G e1) as [ra|] eqn:L1; [|discriminate]. destruct (lin G e2) as [rb|] eqn:L2; [|discriminate].
      inversion Hr. subst r. clear Hr. unfold walk_minus in *.
      destruct (r_lin ra && r_lin rb) eqn:Eb; simpl negb in *; cbv iota in *; [|discriminate Hl].
      apply andb_true_iff in Eb. destruct Eb as [La Lb].
      rewrite eval_EMinus in Hv, Hv'.
      destruct (as_num (eval sc e1 I)) as [x|] eqn:X1; [|discriminate]. destruct (as_num (eval sc e2 I)) as [y|] eqn:Y1; [|discriminate].
      destruct (as_num (eval sc e1 J)) as [x'|] eqn:X2; [|discriminate]. destruct (as_num (eval sc e2 J)) as [y'|] eqn:Y2; [|discriminate].
      inversion Hv; inversion Hv'. subst.
      apply as_num_some' in X1. apply as_num_some' in Y1. apply as_num_some' in X2. apply as_num_some' in Y2.
      destruct (IHe1 Ha ra x x' L1 La X1 X2) as [A1 A2]. destruct (IHe2 Hb rb y y' L2 Lb Y1 Y2) as [B1 B2].
      split; cbn [r_neg r_pos fst snd]; rewrite mem_e_union; intros E0; apply orb_false_iff in E0; destruct E0 as [F1 F2];
        specialize (A1); specialize (B1).
      + pose proof (A1 F1). pose proof (B2 F2). qlra.
      + pose proof (A2 F1). pose proof (B1 F2). qlra.
    - (* ETimes *)
      rewrite lin_ETimes in Hr. destruct (lins G l) as [rs|] eqn:El; [|discriminate]. unfold walk_times in Hr.
      destruct (fold_left (times_step G) (combine l rs) (Some ts_init)) as [stf|] eqn:Ef; [|discriminate].
      inversion Hr. subst r. clear Hr.
      rewrite eval_ETimes in Hv, Hv'.
      destruct (enums sc I l) as [qs|] eqn:E1; [|discriminate]. destruct (enums sc J l) as [qs'|] eqn:E2; [|discriminate].
      inversion Hv; inversion Hv'. subst.
      pose proof (build_items l H Har rs qs qs' El E1 E2) as Hit.
      pose proof (times_fold_inv _ _ _ _ Hit ts_init 1 1 stf inv_init Ef) as Hinv.
      replace (1 * fold_right Qcmult (zq 1) qs) with (fold_right Qcmult (zq 1) qs) in Hinv by ring.
      replace (1 * fold_right Qcmult (zq 1) qs') with (fold_right Qcmult (zq 1) qs') in Hinv by ring.
      exact (proj1 (Hinv (times_out_lin _ Hl))).
    - (* EDiv *)
      simpl in Har. apply andb_true_iff in Har. destruct Har as [Ha Hb].
      rewrite lin_EDiv in Hr. destruct (lin G e1) as [ra|] eqn:L1; [|discriminate]. destruct (lin G e2) as [rb|] eqn:L2; [|discriminate].
      unfold walk_div in Hr.
      destruct (r_lin ra && r_lin rb && is_empty (r_pos rb) && is_empty (r_neg rb)) eqn:Eb; simpl negb in Hr; cbv iota in Hr;
        [|inversion Hr; subst r; discriminate Hl].
      apply andb_true_iff in Eb. destruct Eb as [Eb En0]. apply andb_true_iff in Eb. destruct Eb as [Eb Ep0].
      apply andb_true_iff in Eb. destruct Eb as [La Lb]. apply is_empty_true in Ep0. apply is_empty_true in En0.
      rewrite eval_EDiv in Hv, Hv'.
      destruct (as_num (eval sc e1 I)) as [x|] eqn:X1; [|discriminate]. destruct (as_num (eval sc e2 I)) as [y|] eqn:Y1; [|discriminate].
      destruct (as_num (eval sc e1 J)) as [x'|] eqn:X2; [|discriminate]. destruct (as_num (eval sc e2 J)) as [y'|] eqn:Y2; [|discriminate].
      destruct (qc_is0 y) eqn:Z1; [discriminate|]. destruct (qc_is0 y') eqn:Z2; [discriminate|].
      inversion Hv; inversion Hv'. subst v v'.
      apply as_num_some' in X1. apply as_num_some' in Y1. apply as_num_some' in X2. apply as_num_some' in Y2.
      destruct (IHe1 Ha ra x x' L1 La X1 X2) as [A1 A2]. destruct (IHe2 Hb rb y y' L2 Lb Y1 Y2) as [B1 B2].
      rewrite En0 in B1. rewrite Ep0 in B2. assert (y = y') by (apply Qcle_antisym; auto). subst y'.
      destruct (num_type G e2) as [t|] eqn:Et; [|discriminate].
      pose proof (num_type_sound _ _ _ _ RI Et Y1) as Ty.
      rewrite Ep0, En0 in Hr.
      destruct (sign_of t) eqn:Es; inversion Hr; subst r; clear Hr; unfold signed_out; simpl negb; cbv iota;
        split; cbn [r_neg r_pos fst snd]; rewrite ?mem_e_union; simpl; rewrite ?orb_false_r; intros E0.
      + apply div_le_pos; [exact (sign_of_pos _ _ Es Ty) | auto].
      + apply div_le_pos; [exact (sign_of_pos _ _ Es Ty) | auto].
      + apply div_le_neg; [exact (sign_of_neg _ _ Es Ty) | auto].
      + apply div_le_neg; [exact (sign_of_neg _ _ Es Ty) | auto].
      + apply orb_false_iff in E0. destruct E0 as [F1 F2]. replace x' with x by (apply Qcle_antisym; auto). apply Qcle_refl.
      + apply orb_false_iff in E0. destruct E0 as [F1 F2]. replace x' with x by (apply Qcle_antisym; auto). apply Qcle_refl.
  Qed.
End Mono.

(* ================= the monotonicity theorems in closed form ================= *)
Theorem linear_mono_pos_thm G sc e pos neg f os :
  get_fluents G e = Some (true, pos, neg) -> arith e = true ->
  In (gfluent f os) pos -> ~ In (gfluent f os) neg ->
  forall I J, respects G I -> respects G J -> agree_except f os I J ->
  forall vk vk', eval sc (gfluent f os) I = Some (VNum vk) -> eval sc (gfluent f os) J = Some (VNum vk') -> vk <= vk' ->
  forall v v', eval sc e I = Some (VNum v) -> eval sc e J = Some (VNum v') -> v <= v'.
Proof.
  intros Hg Ha _ Hn I J RI RJ AE vk vk' K1 K2 Hle v v' V1 V2.
  destruct (mono_all G sc I J f os RI RJ AE vk vk' K1 K2 Hle e Ha (true, pos, neg) v v' Hg eq_refl V1 V2) as [P _].
  apply P. cbn [r_neg snd]. destruct (mem_e (gfluent f os) neg) eqn:E; [|reflexivity].
  exfalso. apply Hn. apply mem_e_In. exact E.
Qed.

Theorem linear_mono_neg_thm G sc e pos neg f os :
  get_fluents G e = Some (true, pos, neg) -> arith e = true ->
  In (gfluent f os) neg -> ~ In (gfluent f os) pos ->
  forall I J, respects G I -> respects G J -> agree_except f os I J ->
  forall vk vk', eval sc (gfluent f os) I = Some (VNum vk) -> eval sc (gfluent f os) J = Some (VNum vk') -> vk <= vk' ->
  forall v v', eval sc e I = Some (VNum v) -> eval sc e J = Some (VNum v') -> v' <= v.
Proof.
  intros Hg Ha _ Hn I J RI RJ AE vk vk' K1 K2 Hle v v' V1 V2.
  destruct (mono_all G sc I J f os RI RJ AE vk vk' K1 K2 Hle e Ha (true, pos, neg) v v' Hg eq_refl V1 V2) as [_ P].
  apply P. cbn [r_pos fst snd]. destruct (mem_e (gfluent f os) pos) eqn:E; [|reflexivity].
  exfalso. apply Hn. apply mem_e_In. exact E.
Qed.

(* a fluent reported in neither set does not influence the value *)
Theorem linear_independent_thm G sc e pos neg f os :
  get_fluents G e = Some (true, pos, neg) -> arith e = true ->
  ~ In (gfluent f os) pos -> ~ In (gfluent f os) neg ->
  forall I J, respects G I -> respects G J -> agree_except f os I J ->
  forall vk vk', eval sc (gfluent f os) I = Some (VNum vk) -> eval sc (gfluent f os) J = Some (VNum vk') -> vk <= vk' ->
  forall v v', eval sc e I = Some (VNum v) -> eval sc e J = Some (VNum v') -> v = v'.
Proof.
  intros Hg Ha Hp Hn I J RI RJ AE vk vk' K1 K2 Hle v v' V1 V2.
  destruct (mono_all G sc I J f os RI RJ AE vk vk' K1 K2 Hle e Ha (true, pos, neg) v v' Hg eq_refl V1 V2) as [P1 P2].
  apply Qcle_antisym.
  - apply P1. cbn [r_neg snd]. destruct (mem_e (gfluent f os) neg) eqn:E; [|reflexivity]. exfalso. apply Hn. apply mem_e_In. exact E.
  - apply P2. cbn [r_pos fst snd]. destruct (mem_e (gfluent f os) pos) eqn:E; [|reflexivity]. exfalso. apply Hp. apply mem_e_In. exact E.
Qed.

(* ================= non-linearity ================= *)
(* a result that is non-linear or mentions a fluent *)
Definition flu (r : lres) : bool := negb (r_lin r) || negb (is_empty (r_pos r) && is_empty (r_neg r)).

Lemma is_empty_fold_union sets : forall acc,
  is_empty (fold_left union sets acc) = is_empty acc && forallb is_empty sets.
Proof.
  induction sets as [|s sets IH]; intros acc; simpl; [rewrite andb_true_r; reflexivity|].
  rewrite IH, union_nonempty, andb_assoc. reflexivity.
Qed.

Lemma walk_default_flu rs : existsb flu rs = true -> flu (walk_default rs) = true.
Proof.
  intros H. unfold flu, walk_default. cbn [r_lin r_pos r_neg fst snd].
  destruct (forallb r_lin rs) eqn:El; [|reflexivity]. simpl.
  rewrite !is_empty_fold_union. simpl.
  apply existsb_exists in H. destruct H as [r [Hin Hr]]. unfold flu in Hr.
  rewrite forallb_forall in El. rewrite (El r Hin) in Hr. simpl in Hr.
  apply negb_true_iff. apply negb_true_iff in Hr. apply andb_false_iff in Hr. apply andb_false_iff.
  destruct Hr as [Hr|Hr]; [left | right]; apply not_true_is_false; intros F; rewrite forallb_forall in F.
  - specialize (F (r_pos r) (in_map r_pos _ _ Hin)). congruence.
  - specialize (F (r_neg r) (in_map r_neg _ _ Hin)). congruence.
Qed.

Lemma signed_out_flu unk posity P N :
  is_empty P && is_empty N = false -> flu (signed_out true unk posity P N) = true.
Proof.
  intros H. unfold signed_out, flu. simpl negb. cbv iota.
  destruct unk; [|destruct posity]; cbn [r_lin r_pos r_neg fst snd]; simpl; rewrite ?union_nonempty.
  - rewrite H. reflexivity.
  - rewrite H. reflexivity.
  - rewrite andb_comm, H. reflexivity.
Qed.

Section NonLinear.
  Variable G : tenv.

  Definition hfl : list expr -> bool :=
    fix hf (l : list expr) : bool := match l with [] => false | x :: l' => has_fluent x || hf l' end.

  Definition flu_at (e : expr) : Prop := has_fluent e = true -> forall r, lin G e = Some r -> flu r = true.

  Lemma lins_flu l : Forall flu_at l -> hfl l = true -> forall rs, lins G l = Some rs -> existsb flu rs = true.
  Proof.
    induction 1 as [|x l Hx _ IH]; simpl; intros Hh rs; [discriminate|].
    destruct (lin G x) as [r|] eqn:El; [|discriminate]. destruct (lins G l) as [rs'|]; [|discriminate].
    intros E. inversion E. subst rs. simpl. apply orb_true_iff in Hh. destruct Hh as [Hh|Hh].
    - rewrite (Hx Hh r El). reflexivity.
    - rewrite (IH Hh rs' eq_refl). apply orb_true_r.
  Qed.

  (* walk_times: what the loop state remembers *)
  Definition good (st : tstate) : Prop := ts_lin st = false \/ is_empty (ts_P st) && is_empty (ts_N st) = false.

  Lemma step_good st a r st1 : good st -> times_step G (Some st) (a, r) = Some st1 -> good st1.
  Proof.
    unfold good, times_step. cbn [fst snd]. intros Hg.
    destruct (negb (is_empty (r_pos r) && is_empty (r_neg r))).
    - intros E. inversion E. cbn. destruct Hg as [Hg|Hg].
      + left. rewrite Hg. destruct (ts_found st); reflexivity.
      + right. rewrite !union_nonempty. apply andb_false_iff in Hg. apply andb_false_iff.
        destruct Hg as [Hg|Hg]; [left | right]; rewrite Hg; reflexivity.
    - destruct (num_type G a); [|discriminate].
      destruct (sign_of t); intros E; inversion E; cbn; (destruct Hg as [Hg|Hg]; [left; rewrite Hg; reflexivity | right; exact Hg]).
  Qed.

  Lemma step_flu_good st a r st1 : flu r = true -> times_step G (Some st) (a, r) = Some st1 -> good st1.
  Proof.
    unfold good, times_step, flu. cbn [fst snd]. intros Hf.
    destruct (negb (is_empty (r_pos r) && is_empty (r_neg r))) eqn:Es.
    - intros E. inversion E. cbn. right. rewrite !union_nonempty.
      apply negb_true_iff in Es. apply andb_false_iff in Es. apply andb_false_iff.
      destruct Es as [Es|Es]; [left | right]; rewrite Es; apply andb_false_r.
    - rewrite orb_false_r in Hf. apply negb_true_iff in Hf.
      destruct (num_type G a); [|discriminate].
      destruct (sign_of t); intros E; inversion E; cbn; left; rewrite Hf; apply andb_false_r.
  Qed.

  Lemma fold_good l : forall rs st stf, good st -> fold_left (times_step G) (combine l rs) (Some st) = Some stf -> good stf.
  Proof.
    induction l as [|a l IH]; intros [|r rs] st stf Hg; cbn [combine fold_left]; try (intros E; inversion E; subst; exact Hg).
    destruct (times_step G (Some st) (a, r)) as [st1|] eqn:Es.
    - apply IH. eapply step_good; eauto.
    - rewrite fold_none; [discriminate | reflexivity].
  Qed.

  Lemma fold_flu_good l : Forall flu_at l -> hfl l = true -> forall rs st stf,
    lins G l = Some rs -> fold_left (times_step G) (combine l rs) (Some st) = Some stf -> good stf.
  Proof.
    induction 1 as [|x l Hx _ IH]; simpl hfl; intros Hh rs st stf; [discriminate|].
    cbn [lins]. destruct (lin G x) as [r|] eqn:El; [|discriminate]. destruct (lins G l) as [rs'|] eqn:Els; [|discriminate].
    intros E. inversion E. subst rs. clear E. cbn [combine fold_left].
    destruct (times_step G (Some st) (x, r)) as [st1|] eqn:Es; [|rewrite fold_none; [discriminate | reflexivity]].
    apply orb_true_iff in Hh. destruct Hh as [Hh|Hh].
    - apply fold_good. eapply step_flu_good; [exact (Hx Hh r El) | exact Es].
    - apply IH; [exact Hh | reflexivity].
  Qed.

  Lemma good_out_flu st : good st -> flu (times_out st) = true.
  Proof.
    unfold good, times_out. intros [H|H].
    - unfold signed_out. rewrite H. reflexivity.
    - destruct (ts_lin st) eqn:E; [apply signed_out_flu; exact H | reflexivity].
  Qed.

  Theorem has_fluent_flu : forall e, flu_at e.
  Proof.
    induction e using expr_ind'; unfold flu_at; intros Hh r Hr; try discriminate Hh.
    - (* EFluent *) rewrite lin_EFluent in Hr. destruct (lins G args); [|discriminate]. inversion Hr. unfold flu. cbn. apply orb_true_r.
    - (* EIFun *) rewrite lin_EIFun in Hr. unfold dfltn in Hr. destruct (lins G args) as [rs|] eqn:E; [|discriminate].
      inversion Hr. apply walk_default_flu. eapply lins_flu; eauto.
    - (* EAnd *) rewrite lin_EAnd in Hr. unfold dfltn in Hr. destruct (lins G l) as [rs|] eqn:E; [|discriminate].
      inversion Hr. apply walk_default_flu. eapply lins_flu; eauto.
    - (* EOr *) rewrite lin_EOr in Hr. unfold dfltn in Hr. destruct (lins G l) as [rs|] eqn:E; [|discriminate].
      inversion Hr. apply walk_default_flu. eapply lins_flu; eauto.
    - (* ENot *) simpl in Hh, Hr. destruct (lin G e) as [ra|] eqn:E; [|discriminate]. inversion Hr.
      apply walk_default_flu. simpl. rewrite (IHe Hh ra E). reflexivity.
    - (* EImplies *) simpl in Hh, Hr. destruct (lin G e1) as [ra|] eqn:E1; [|discriminate]. destruct (lin G e2) as [rb|] eqn:E2; [|discriminate].
      inversion Hr. apply walk_default_flu. simpl. apply orb_true_iff in Hh.
      destruct Hh as [Hh|Hh]; [rewrite (IHe1 Hh ra E1); reflexivity | rewrite (IHe2 Hh rb E2); rewrite orb_true_r; reflexivity].
    - (* EIff *) simpl in Hh, Hr. destruct (lin G e1) as [ra|] eqn:E1; [|discriminate]. destruct (lin G e2) as [rb|] eqn:E2; [|discriminate].
      inversion Hr. apply walk_default_flu. simpl. apply orb_true_iff in Hh.
      destruct Hh as [Hh|Hh]; [rewrite (IHe1 Hh ra E1); reflexivity | rewrite (IHe2 Hh rb E2); rewrite orb_true_r; reflexivity].
    - (* EExists *) simpl in Hh, Hr. destruct (lin G e) as [ra|] eqn:E; [|discriminate]. inversion Hr.
      apply walk_default_flu. simpl. rewrite (IHe Hh ra E). reflexivity.
    - (* EForall *) simpl in Hh, Hr. destruct (lin G e) as [ra|] eqn:E; [|discriminate]. inversion Hr.
      apply walk_default_flu. simpl. rewrite (IHe Hh ra E). reflexivity.
    - (* EPlus *) rewrite lin_EPlus in Hr. unfold dfltn in Hr. destruct (lins G l) as [rs|] eqn:E; [|discriminate].
      inversion Hr. apply walk_default_flu. eapply lins_flu; eauto.
    - (* EMinus *) simpl in Hh. rewrite lin_EMinus in Hr.
      destruct (lin G e1) as [ra|] eqn:E1; [|discriminate]. destruct (lin G e2) as [rb|] eqn:E2; [|discriminate].
      inversion Hr. unfold walk_minus. destruct (r_lin ra && r_lin rb) eqn:El; [|reflexivity]. simpl negb. cbv iota.
      apply andb_true_iff in El. destruct El as [La Lb]. unfold flu. cbn [r_lin r_pos r_neg fst snd]. simpl.
      rewrite !union_nonempty. apply orb_true_iff in Hh. destruct Hh as [Hh|Hh].
      + pose proof (IHe1 Hh ra E1) as F. unfold flu in F. rewrite La in F. simpl in F. apply negb_true_iff in F.
        apply negb_true_iff. apply andb_false_iff in F. apply andb_false_iff.
        destruct F as [F|F]; [left | right]; rewrite F; reflexivity.
      + pose proof (IHe2 Hh rb E2) as F. unfold flu in F. rewrite Lb in F. simpl in F. apply negb_true_iff in F.
        apply negb_true_iff. apply andb_false_iff in F. apply andb_false_iff.
        destruct F as [F|F]; [right | left]; rewrite F; apply andb_false_r.
    - (* ETimes *) rewrite lin_ETimes in Hr. destruct (lins G l) as [rs|] eqn:E; [|discriminate]. unfold walk_times in Hr.
      destruct (fold_left (times_step G) (combine l rs) (Some ts_init)) as [stf|] eqn:Ef; [|discriminate]. inversion Hr.
      apply good_out_flu. eapply fold_flu_good; eauto.
    - (* EDiv *) simpl in Hh. rewrite lin_EDiv in Hr.
      destruct (lin G e1) as [ra|] eqn:E1; [|discriminate]. destruct (lin G e2) as [rb|] eqn:E2; [|discriminate].
      unfold walk_div in Hr.
      destruct (r_lin ra && r_lin rb && is_empty (r_pos rb) && is_empty (r_neg rb)) eqn:El; simpl negb in Hr; cbv iota in Hr;
        [|inversion Hr; reflexivity].
      apply andb_true_iff in El. destruct El as [El En0]. apply andb_true_iff in El. destruct El as [El Ep0].
      apply andb_true_iff in El. destruct El as [La Lb].
      assert (Hne : is_empty (union (r_pos ra) (r_pos rb)) && is_empty (union (r_neg ra) (r_neg rb)) = false).
      { rewrite !union_nonempty, Ep0, En0, !andb_true_r. apply orb_true_iff in Hh. destruct Hh as [Hh|Hh].
        - pose proof (IHe1 Hh ra E1) as F. unfold flu in F. rewrite La in F. simpl in F. apply negb_true_iff in F. exact F.
        - pose proof (IHe2 Hh rb E2) as F. unfold flu in F. rewrite Lb, Ep0, En0 in F. discriminate F. }
      destruct (num_type G e2); [|discriminate].
      destruct (sign_of t); inversion Hr; apply signed_out_flu; exact Hne.
    - (* ELe *) simpl in Hh, Hr. destruct (lin G e1) as [ra|] eqn:E1; [|discriminate]. destruct (lin G e2) as [rb|] eqn:E2; [|discriminate].
      inversion Hr. apply walk_default_flu. simpl. apply orb_true_iff in Hh.
      destruct Hh as [Hh|Hh]; [rewrite (IHe1 Hh ra E1); reflexivity | rewrite (IHe2 Hh rb E2); rewrite orb_true_r; reflexivity].
    - (* ELt *) simpl in Hh, Hr. destruct (lin G e1) as [ra|] eqn:E1; [|discriminate]. destruct (lin G e2) as [rb|] eqn:E2; [|discriminate].
      inversion Hr. apply walk_default_flu. simpl. apply orb_true_iff in Hh.
      destruct Hh as [Hh|Hh]; [rewrite (IHe1 Hh ra E1); reflexivity | rewrite (IHe2 Hh rb E2); rewrite orb_true_r; reflexivity].
    - (* EEquals *) simpl in Hh, Hr. destruct (lin G e1) as [ra|] eqn:E1; [|discriminate]. destruct (lin G e2) as [rb|] eqn:E2; [|discriminate].
      inversion Hr. apply walk_default_flu. simpl. apply orb_true_iff in Hh.
      destruct Hh as [Hh|Hh]; [rewrite (IHe1 Hh ra E1); reflexivity | rewrite (IHe2 Hh rb E2); rewrite orb_true_r; reflexivity].
    - (* EAlways *) simpl in Hh, Hr. destruct (lin G e) as [ra|] eqn:E; [|discriminate]. inversion Hr.
      apply walk_default_flu. simpl. rewrite (IHe Hh ra E). reflexivity.
    - (* ESometime *) simpl in Hh, Hr. destruct (lin G e) as [ra|] eqn:E; [|discriminate]. inversion Hr.
      apply walk_default_flu. simpl. rewrite (IHe Hh ra E). reflexivity.
    - (* ESometimeBefore *) simpl in Hh, Hr. destruct (lin G e1) as [ra|] eqn:E1; [|discriminate]. destruct (lin G e2) as [rb|] eqn:E2; [|discriminate].
      inversion Hr. apply walk_default_flu. simpl. apply orb_true_iff in Hh.
      destruct Hh as [Hh|Hh]; [rewrite (IHe1 Hh ra E1); reflexivity | rewrite (IHe2 Hh rb E2); rewrite orb_true_r; reflexivity].
    - (* ESometimeAfter *) simpl in Hh, Hr. destruct (lin G e1) as [ra|] eqn:E1; [|discriminate]. destruct (lin G e2) as [rb|] eqn:E2; [|discriminate].
      inversion Hr. apply walk_default_flu. simpl. apply orb_true_iff in Hh.
      destruct Hh as [Hh|Hh]; [rewrite (IHe1 Hh ra E1); reflexivity | rewrite (IHe2 Hh rb E2); rewrite orb_true_r; reflexivity].
    - (* EAtMostOnce *) simpl in Hh, Hr. destruct (lin G e) as [ra|] eqn:E; [|discriminate]. inversion Hr.
      apply walk_default_flu. simpl. rewrite (IHe Hh ra E). reflexivity.
  Qed.

  (* ---- two fluent-dependent factors ---- *)
  Definition nflu (l : list expr) : nat := length (filter has_fluent l).

  Lemma step_lin_false st x st1 : ts_lin st = false -> times_step G (Some st) x = Some st1 -> ts_lin st1 = false.
  Proof.
    unfold times_step. intros H. destruct (negb (is_empty (r_pos (snd x)) && is_empty (r_neg (snd x)))).
    - intros E. inversion E. cbn. rewrite H. destruct (ts_found st); reflexivity.
    - destruct (num_type G (fst x)); [|discriminate]. destruct (sign_of t); intros E; inversion E; cbn; rewrite H; reflexivity.
  Qed.

  Lemma step_found st x st1 : ts_found st = true -> times_step G (Some st) x = Some st1 -> ts_found st1 = true.
  Proof.
    unfold times_step. intros H. destruct (negb (is_empty (r_pos (snd x)) && is_empty (r_neg (snd x)))).
    - intros E. inversion E. reflexivity.
    - destruct (num_type G (fst x)); [|discriminate]. destruct (sign_of t); intros E; inversion E; cbn; exact H.
  Qed.

  (* processing a fluent-dependent factor: afterwards non-linear, or "found" (and non-linear if already found) *)
  Lemma step_flu st a r st1 : flu r = true -> times_step G (Some st) (a, r) = Some st1 ->
    (ts_lin st1 = false \/ ts_found st1 = true) /\ (ts_found st = true -> ts_lin st1 = false).
  Proof.
    unfold times_step, flu. cbn [fst snd]. intros Hf.
    destruct (negb (is_empty (r_pos r) && is_empty (r_neg r))) eqn:Es.
    - intros E. inversion E. cbn. split; [right; reflexivity | intros ->; reflexivity].
    - rewrite orb_false_r in Hf. apply negb_true_iff in Hf.
      destruct (num_type G a); [|discriminate].
      destruct (sign_of t); intros E; inversion E; cbn; rewrite Hf, andb_false_r; split; auto.
  Qed.

  Lemma fold_two l : forall rs st stf,
    lins G l = Some rs -> fold_left (times_step G) (combine l rs) (Some st) = Some stf ->
    (ts_lin st = false -> ts_lin stf = false) /\
    (ts_found st = true -> (1 <= nflu l)%nat -> ts_lin stf = false) /\
    ((2 <= nflu l)%nat -> ts_lin stf = false).
  Proof.
    induction l as [|x l IH]; intros rs st stf; cbn [lins].
    - intros E. inversion E. subst rs. cbn. intros E2. inversion E2. subst stf. unfold nflu. simpl. repeat split; auto; lia.
    - destruct (lin G x) as [r|] eqn:El; [|discriminate]. destruct (lins G l) as [rs'|] eqn:Els; [|discriminate].
      intros E. inversion E. subst rs. clear E. cbn [combine fold_left].
      destruct (times_step G (Some st) (x, r)) as [st1|] eqn:Es; [|rewrite fold_none; [discriminate | reflexivity]].
      intros Ef. destruct (IH rs' st1 stf eq_refl Ef) as [I1 [I2 I3]].
      unfold nflu in *. simpl filter. destruct (has_fluent x) eqn:Hx; simpl length.
      + destruct (step_flu st x r st1 (has_fluent_flu x Hx r El) Es) as [S1 S2].
        repeat split.
        * intros H. apply I1. eapply step_lin_false; eauto.
        * intros Hf _. apply I1. auto.
        * intros H2. destruct S1 as [S1|S1]; [apply I1; exact S1 | apply I2; [exact S1 | lia]].
      + repeat split.
        * intros H. apply I1. eapply step_lin_false; eauto.
        * intros Hf H1. apply I2; [eapply step_found; eauto | exact H1].
        * exact I3.
  Qed.

  Theorem times_two_fluent_factors_nonlinear_thm l r :
    lin G (ETimes l) = Some r -> (2 <= nflu l)%nat -> r = (false, [], []).
  Proof.
    rewrite lin_ETimes. destruct (lins G l) as [rs|] eqn:E; [|discriminate]. unfold walk_times.
    destruct (fold_left (times_step G) (combine l rs) (Some ts_init)) as [stf|] eqn:Ef; [|discriminate].
    intros Hr H2. inversion Hr. destruct (fold_two l rs ts_init stf E Ef) as [_ [_ I3]].
    unfold times_out, signed_out. rewrite (I3 H2). reflexivity.
  Qed.

  Theorem div_fluent_divisor_nonlinear_thm a b r :
    lin G (EDiv a b) = Some r -> has_fluent b = true -> r = (false, [], []).
  Proof.
    rewrite lin_EDiv. destruct (lin G a) as [ra|]; [|discriminate]. destruct (lin G b) as [rb|] eqn:Eb; [|discriminate].
    intros Hr Hb. pose proof (has_fluent_flu b Hb rb Eb) as F. unfold walk_div in Hr. unfold flu in F.
    destruct (r_lin ra && r_lin rb && is_empty (r_pos rb) && is_empty (r_neg rb)) eqn:El; simpl negb in Hr; cbv iota in Hr;
      [|inversion Hr; reflexivity].
    exfalso. apply andb_true_iff in El. destruct El as [El En0]. apply andb_true_iff in El. destruct El as [El Ep0].
    apply andb_true_iff in El. destruct El as [La Lb]. rewrite Lb, Ep0, En0 in F. discriminate F.
  Qed.
End NonLinear.

Theorem fluent_dependence_reported_thm G e r :
  has_fluent e = true -> lin G e = Some r -> r_lin r = false \/ r_pos r <> [] \/ r_neg r <> [].
Proof.
  intros Hh Hr. pose proof (has_fluent_flu G e Hh r Hr) as F. unfold flu in F.
  destruct (r_lin r); [right | left; reflexivity]. simpl in F.
  destruct (r_pos r); [|left; discriminate]. destruct (r_neg r); [discriminate F | right; discriminate].
Qed.
