(* Proofs about Model/Names.v (property C38). *)
From Coq Require Import List String Ascii Bool Arith NArith Lia Decimal DecimalString DecimalNat FinFun.
Import ListNotations.
Require Import UPV.Model.Names.
Open Scope string_scope.

(* ================================================================== strings *)
Lemma append_nil_r : forall s, s ++ "" = s.
Proof. induction s; simpl; congruence. Qed.

Lemma append_assoc : forall a b c : string, (a ++ b) ++ c = a ++ (b ++ c).
Proof. induction a; simpl; intros; congruence. Qed.

Lemma length_append : forall a b, String.length (a ++ b) = String.length a + String.length b.
Proof. induction a; simpl; intros; auto. Qed.

Lemma append_inj_l : forall a b c : string, a ++ b = a ++ c -> b = c.
Proof. induction a; simpl; intros b c H; auto. inversion H; auto. Qed.

Lemma sall_append : forall p a b, sall p (a ++ b) = sall p a && sall p b.
Proof. induction a; simpl; intros; auto. rewrite IHa. apply andb_assoc. Qed.

Lemma sall_smap : forall p f s, (forall c, sall p (f c) = true) -> sall p (smap f s) = true.
Proof. induction s; simpl; intros; auto. rewrite sall_append, H, IHs; auto. Qed.

Lemma sall_impl : forall (p q : ascii -> bool) s, (forall c, p c = true -> q c = true) -> sall p s = true -> sall q s = true.
Proof.
  induction s; simpl; intros; auto. apply andb_true_iff in H0. destruct H0.
  rewrite (H _ H0), IHs; auto.
Qed.

Lemma mem_str_In : forall s l, mem_str s l = true <-> In s l.
Proof.
  unfold mem_str. intros. rewrite existsb_exists. split.
  - intros [x [Hin He]]. apply String.eqb_eq in He. subst; auto.
  - intros. exists s. split; auto. apply String.eqb_refl.
Qed.

Lemma mem_str_false : forall s l, mem_str s l = false <-> ~ In s l.
Proof.
  intros. split.
  - intros H Hin. apply mem_str_In in Hin. congruence.
  - intros H. destruct (mem_str s l) eqn:E; auto. exfalso. apply H. apply mem_str_In; auto.
Qed.

Lemma NoDup_app_single : forall (A : Type) (l : list A) x, NoDup l -> ~ In x l -> NoDup (l ++ [x]).
Proof.
  induction l; simpl; intros x Hnd Hx.
  - constructor; auto.
  - inversion Hnd; subst. constructor.
    + intros Hin. apply in_app_or in Hin. destruct Hin as [Hin|[Hin|[]]]; auto.
    + apply IHl; auto.
Qed.

(* ------------------------------------------------------------------ all 256 characters *)
Lemma all_ascii_complete : forall c, In c all_ascii.
Proof.
  intros c. unfold all_ascii. rewrite <- (ascii_nat_embedding c).
  apply in_map. apply in_seq. pose proof (nat_ascii_bounded c). lia.
Qed.

Lemma forall_ascii : forall p : ascii -> bool, forallb p all_ascii = true -> forall c, p c = true.
Proof. intros p H c. rewrite forallb_forall in H. apply H. apply all_ascii_complete. Qed.

Lemma class_sub_spec : forall cl p, class_sub cl p = true -> forall c, in_class cl c = true -> p c = true.
Proof.
  unfold class_sub. intros cl p H c Hc. pose proof (forall_ascii _ H c) as Hi. simpl in Hi.
  rewrite Hc in Hi. exact Hi.
Qed.

Lemma lower_char_not_upper : forall c, is_upper_letter (lower_char c) = false.
Proof.
  intros c. apply negb_true_iff.
  apply (forall_ascii (fun c => negb (is_upper_letter (lower_char c)))). vm_compute. reflexivity.
Qed.

Lemma no_upper_lower : forall s, no_upper (lower s) = true.
Proof.
  unfold no_upper, lower. intros. apply sall_smap. intros c. simpl.
  rewrite lower_char_not_upper. reflexivity.
Qed.

Lemma digit_not_upper : forall c, is_digit c = true -> is_upper_letter c = false.
Proof.
  intros c.
  pose proof (forall_ascii (fun c => implb (is_digit c) (negb (is_upper_letter c))) eq_refl c) as H.
  simpl in H. intros Hd. rewrite Hd in H. simpl in H. apply negb_true_iff in H. exact H.
Qed.

(* ------------------------------------------------------------------ decimal numerals *)
Lemma dec_inj : forall i j, dec i = dec j -> i = j.
Proof.
  unfold dec. intros i j H. apply Unsigned.to_uint_inj.
  assert (Some (Nat.to_uint i) = Some (Nat.to_uint j)) as E.
  { rewrite <- (NilEmpty.usu (Nat.to_uint i)), <- (NilEmpty.usu (Nat.to_uint j)), H. reflexivity. }
  inversion E; auto.
Qed.

Lemma uint_digits : forall d, sall is_digit (NilEmpty.string_of_uint d) = true.
Proof. induction d; simpl; auto. Qed.

Lemma dec_digits : forall n, sall is_digit (dec n) = true.
Proof. intros. apply uint_digits. Qed.

(* ================================================================== first_free *)
Lemma first_free_spec : forall b cand f k s,
  first_free b cand k f = Some s -> b s = false /\ exists i, s = cand (k + i).
Proof.
  induction f; simpl; intros k s H; try discriminate.
  destruct (b (cand k)) eqn:E.
  - apply IHf in H. destruct H as [H1 [i H2]]. split; auto. exists (S i). rewrite H2. f_equal. lia.
  - inversion H; subst. split; auto. exists 0. f_equal. lia.
Qed.

Lemma first_free_none : forall b cand f k,
  first_free b cand k f = None -> forall i, i < f -> b (cand (k + i)) = true.
Proof.
  induction f; simpl; intros k H i Hi; try lia.
  destruct (b (cand k)) eqn:E; try discriminate.
  destruct i.
  - replace (k + 0) with k by lia. auto.
  - replace (k + S i) with (S k + i) by lia. apply IHf; auto. lia.
Qed.

Lemma first_free_total : forall b cand bl f k,
  (forall i j, cand i = cand j -> i = j) ->
  (forall s, b s = true -> In s bl) ->
  List.length bl < f ->
  first_free b cand k f <> None.
Proof.
  intros b cand bl f k Hinj Hb Hlen Hnone.
  pose proof (first_free_none _ _ _ _ Hnone) as Hall.
  assert (NoDup (map cand (seq k f))) as Hnd.
  { apply Injective_map_NoDup. - intros x y; apply Hinj. - apply seq_NoDup. }
  assert (incl (map cand (seq k f)) bl) as Hincl.
  { intros s Hs. apply in_map_iff in Hs. destruct Hs as [x [Hx Hin]]. subst s.
    apply in_seq in Hin. apply Hb. replace x with (k + (x - k)) by lia. apply Hall. lia. }
  pose proof (NoDup_incl_length Hnd Hincl) as Hle. rewrite map_length, seq_length in Hle. lia.
Qed.

(* ------------------------------------------------------------------ candidates *)
Lemma length_pad : forall s k, String.length (pad s k) = String.length s + k.
Proof. induction k; simpl; intros; try lia. rewrite length_append, IHk. simpl. lia. Qed.

Lemma pad_inj : forall s i j, pad s i = pad s j -> i = j.
Proof. intros s i j H. apply (f_equal String.length) in H. rewrite !length_pad in H. lia. Qed.

Lemma counter_cand_inj : forall tmp i j, counter_cand tmp i = counter_cand tmp j -> i = j.
Proof.
  intros tmp [|i] [|j] H; simpl in H; auto.
  - apply (f_equal String.length) in H. rewrite length_append in H. simpl in H. lia.
  - apply (f_equal String.length) in H. rewrite length_append in H. simpl in H. lia.
  - apply append_inj_l in H. simpl in H. inversion H. f_equal. apply dec_inj; auto.
Qed.

Lemma has_us_append_r : forall a b, has_us b = true -> has_us (a ++ b) = true.
Proof.
  unfold has_us. intros a b H. apply negb_true_iff in H. apply negb_true_iff.
  rewrite sall_append, H. apply andb_false_r.
Qed.

Lemma has_us_us : forall s, has_us ("_" ++ s) = true.
Proof. intros; reflexivity. Qed.

Lemma kw_ok_no_us : forall kws s, forallb kw_ok kws = true -> has_us s = true -> ~ In s kws.
Proof.
  intros kws s H Hs Hin. rewrite forallb_forall in H. apply H in Hin. unfold kw_ok in Hin.
  rewrite Hs in Hin. discriminate.
Qed.

Lemma kw_ok_no_qmark : forall kws s, forallb kw_ok kws = true -> starts_qmark s = true -> ~ In s kws.
Proof.
  intros kws s H Hs Hin. rewrite forallb_forall in H. apply H in Hin. unfold kw_ok in Hin.
  rewrite Hs in Hin. rewrite andb_false_r in Hin. discriminate.
Qed.

Lemma kw_ok_incl : forall a b, incl a b -> forallb kw_ok b = true -> forallb kw_ok a = true.
Proof. intros a b Hi H. rewrite forallb_forall in *. intros x Hx. apply H, Hi, Hx. Qed.

(* ================================================================== identifiers *)
Lemma ident_append : forall rest a b, ident rest a = true -> sall rest b = true -> ident rest (a ++ b) = true.
Proof.
  intros rest [|c r] b Ha Hb; simpl in *; try discriminate.
  apply andb_true_iff in Ha. destruct Ha as [H1 H2]. rewrite H1, sall_append, H2, Hb. reflexivity.
Qed.

Lemma no_upper_append : forall a b, no_upper (a ++ b) = no_upper a && no_upper b.
Proof. intros. apply sall_append. Qed.

Definition rest_ok (rest : ascii -> bool) : Prop :=
  rest "_"%char = true /\ forall c, is_digit c = true -> rest c = true.

Lemma anml_rest_ok : rest_ok anml_rest.
Proof. split; [reflexivity|]. intros c H. unfold anml_rest. rewrite H. rewrite orb_true_r. reflexivity. Qed.
Lemma pddl_rest_ok : rest_ok pddl_rest.
Proof.
  destruct anml_rest_ok as [A B]. split; [reflexivity|]. intros c H. unfold pddl_rest. rewrite (B _ H). reflexivity.
Qed.

Lemma suffix_rest : forall rest j, rest_ok rest -> sall rest ("_" ++ dec j) = true.
Proof.
  intros rest j [Hus Hd]. simpl. rewrite Hus. simpl.
  apply sall_impl with (p := is_digit); auto. apply dec_digits.
Qed.

Lemma suffix_no_upper : forall j, no_upper ("_" ++ dec j) = true.
Proof.
  intros. unfold no_upper. simpl.
  apply sall_impl with (p := is_digit); [|apply dec_digits].
  intros c H. rewrite (digit_not_upper _ H). reflexivity.
Qed.

(* ================================================================== the shared body *)
Lemma tables_ok_spec : forall c rest, tables_ok c rest = true ->
  (forall ch, in_class (c_start c) ch = true -> is_letter ch = true) /\
  (forall ch, in_class (c_start c) ch = true -> in_class (c_keep c) ch = true) /\
  (forall ch, in_class (c_keep c) ch = true -> rest ch = true) /\
  sall rest (c_repl c) = true /\ rest "_"%char = true /\
  forallb (fun kv => letter_ok c (snd kv)) (c_letters c) = true /\ letter_ok c (c_default c) = true.
Proof.
  unfold tables_ok. intros c rest H. repeat rewrite andb_true_iff in H.
  destruct H as [[[[[[H1 H2] H3] H4] H5] H6] H7].
  repeat split; auto; apply class_sub_spec; auto.
Qed.

Lemma assoc_str_In : forall l k v, assoc_str k l = Some v -> exists k', In (k', v) l.
Proof.
  induction l as [|[k' v'] l IH]; simpl; intros k0 v Hk0; try discriminate.
  destruct (String.eqb k0 k').
  - inversion Hk0; subst. eauto.
  - apply IH in Hk0. destruct Hk0; eauto.
Qed.

Section Base.
  Variable c : cfg.
  Variable rest : ascii -> bool.
  Hypothesis Hrest : rest_ok rest.
  Hypothesis Htab : tables_ok c rest = true.

  Lemma H_start_letter : forall ch, in_class (c_start c) ch = true -> is_letter ch = true.
  Proof. destruct (tables_ok_spec _ _ Htab) as (A & B & C & D & E & F & G). exact A. Qed.
  Lemma H_start_keep : forall ch, in_class (c_start c) ch = true -> in_class (c_keep c) ch = true.
  Proof. destruct (tables_ok_spec _ _ Htab) as (A & B & C & D & E & F & G). exact B. Qed.
  Lemma H_keep_rest : forall ch, in_class (c_keep c) ch = true -> rest ch = true.
  Proof. destruct (tables_ok_spec _ _ Htab) as (A & B & C & D & E & F & G). exact C. Qed.
  Lemma H_repl : sall rest (c_repl c) = true.
  Proof. destruct (tables_ok_spec _ _ Htab) as (A & B & C & D & E & F & G). exact D. Qed.
  Lemma H_letters : forall cls, letter_ok c (initial_letter c cls) = true.
  Proof.
    destruct (tables_ok_spec _ _ Htab) as (A & B & C & D & E & F & G).
    intros cls. unfold initial_letter.
    destruct (assoc_str cls (c_letters c)) eqn:E1; auto.
    destruct (assoc_str_In _ _ _ E1) as [k' Hin]. rewrite forallb_forall in F. apply F in Hin. auto.
  Qed.

  Lemma sub_chars_rest : forall s, sall rest (sub_chars c s) = true.
  Proof.
    intros s. unfold sub_chars. apply sall_smap. intros ch.
    destruct (in_class (c_keep c) ch) eqn:E.
    - simpl. rewrite (H_keep_rest _ E). reflexivity.
    - apply H_repl.
  Qed.

  Lemma sub_chars_cons_keep : forall ch r, in_class (c_keep c) ch = true ->
    sub_chars c (String ch r) = String ch (sub_chars c r).
  Proof. intros ch r H. unfold sub_chars. simpl. rewrite H. reflexivity. Qed.

  (* the name before the keyword loop *)
  Definition pre_name (it : item) : string :=
    let n := if c_lower c then lower (it_name it) else it_name it in
    let n := if starts_in (c_start c) n then n else initial_letter c (it_cls it) ++ "_" ++ n in
    sub_chars c n.

  Lemma pre_name_ident : forall it, ident rest (pre_name it) = true.
  Proof.
    intros it. unfold pre_name.
    generalize (if c_lower c then lower (it_name it) else it_name it). intros n.
    destruct (starts_in (c_start c) n) eqn:E.
    - destruct n as [|ch r]; simpl in E; try discriminate.
      rewrite sub_chars_cons_keep by (apply H_start_keep; auto). simpl. rewrite (H_start_letter _ E), sub_chars_rest. reflexivity.
    - pose proof (H_letters (it_cls it)) as HL. destruct (initial_letter c (it_cls it)) as [|lc lr]; simpl in HL; try discriminate.
      apply andb_true_iff in HL. destruct HL as [HL H3]. apply andb_true_iff in HL. destruct HL as [H1 H2].
      simpl. rewrite sub_chars_cons_keep by auto. simpl. rewrite H1, sub_chars_rest. reflexivity.
  Qed.

  Lemma pad_ident : forall s k, ident rest s = true -> ident rest (pad s k) = true.
  Proof.
    induction k; simpl; intros; auto. apply ident_append; auto. simpl. destruct Hrest as [Hus _]. rewrite Hus. reflexivity.
  Qed.

  Lemma avoid_keywords_total : forall s, avoid_keywords c s <> None.
  Proof.
    intros s. unfold avoid_keywords. apply first_free_total with (bl := c_kws c).
    - apply pad_inj.
    - intros x Hx. apply mem_str_In; auto.
    - lia.
  Qed.

  Lemma base_name_total : forall it, exists n, base_name c it = Some n.
  Proof.
    intros it. unfold base_name. destruct (avoid_keywords c _) eqn:E; eauto. exfalso. eapply avoid_keywords_total; eauto.
  Qed.

  Lemma base_name_spec : forall it n, base_name c it = Some n ->
    ident rest n = true /\ ~ In n (c_kws c) /\ exists k, n = pad (pre_name it) k.
  Proof.
    intros it n H. unfold base_name in H. fold (pre_name it) in H. unfold avoid_keywords in H.
    apply first_free_spec in H. destruct H as [Hb [k Hk]]. simpl in Hk. subst n.
    split; [apply pad_ident, pre_name_ident|]. split; [apply mem_str_false; auto|eauto].
  Qed.

  Lemma no_upper_smap_keep : forall s, no_upper (c_repl c) = true -> no_upper s = true -> no_upper (sub_chars c s) = true.
  Proof.
    intros s Hr. unfold no_upper, sub_chars. induction s; simpl; intros H; auto.
    apply andb_true_iff in H. destruct H as [H1 H2]. rewrite sall_append, IHs by auto.
    destruct (in_class (c_keep c) a); simpl; [rewrite H1|fold (no_upper (c_repl c)); rewrite Hr]; reflexivity.
  Qed.

  Lemma base_name_no_upper : forall it n, tables_lower_ok c = true -> base_name c it = Some n -> no_upper n = true.
  Proof.
    intros it n Hl H. apply base_name_spec in H. destruct H as [_ [_ [k Hk]]]. subst n.
    unfold tables_lower_ok in Hl. repeat (apply andb_true_iff in Hl; destruct Hl as [Hl ?]).
    assert (no_upper (pre_name it) = true) as Hp.
    { unfold pre_name. rewrite Hl. apply no_upper_smap_keep; auto.
      destruct (starts_in (c_start c) (lower (it_name it))); [apply no_upper_lower|].
      rewrite !no_upper_append, no_upper_lower. simpl. rewrite andb_true_r.
      unfold initial_letter. destruct (assoc_str (it_cls it) (c_letters c)) eqn:E; auto.
      destruct (assoc_str_In _ _ _ E) as [k' Hin]. rewrite forallb_forall in H0. apply H0 in Hin. auto. }
    induction k; simpl; auto. rewrite no_upper_append, IHk. reflexivity.
  Qed.
End Base.

(* ================================================================== association lists *)
Lemma item_eqb_eq : forall a b, item_eqb a b = true <-> a = b.
Proof.
  intros [c1 i1 n1] [c2 i2 n2]. unfold item_eqb. simpl. split.
  - intros H. apply andb_true_iff in H. destruct H as [H H3]. apply andb_true_iff in H. destruct H as [H1 H2].
    apply String.eqb_eq in H1. apply N.eqb_eq in H2. apply String.eqb_eq in H3. subst. reflexivity.
  - intros H. inversion H; subst. rewrite !String.eqb_refl, N.eqb_refl. reflexivity.
Qed.

Lemma item_eqb_refl : forall a, item_eqb a a = true.
Proof. intros. apply item_eqb_eq. reflexivity. Qed.

Lemma item_eqb_neq : forall a b, item_eqb a b = false <-> a <> b.
Proof.
  intros. split.
  - intros H E. apply item_eqb_eq in E. congruence.
  - intros H. destruct (item_eqb a b) eqn:E; auto. exfalso. apply H. apply item_eqb_eq; auto.
Qed.

Lemma lookup_otn_In : forall it n l, lookup_otn it l = Some n -> In (it, n) l.
Proof.
  induction l as [|[k v] l IH]; simpl; intros H; try discriminate.
  destruct (item_eqb it k) eqn:E.
  - apply item_eqb_eq in E. inversion H; subst. auto.
  - auto.
Qed.

Lemma lookup_otn_None : forall it l, lookup_otn it l = None -> ~ In it (map fst l).
Proof.
  induction l as [|[k v] l IH]; simpl; intros H; auto.
  destruct (item_eqb it k) eqn:E; try discriminate.
  apply item_eqb_neq in E. intros [A|A]; [congruence|]. apply IH; auto.
Qed.

Lemma In_lookup_otn : forall it n l, NoDup (map fst l) -> In (it, n) l -> lookup_otn it l = Some n.
Proof.
  induction l as [|[k v] l IH]; simpl; intros Hnd Hin; try contradiction.
  inversion Hnd; subst.
  destruct Hin as [A|A].
  - inversion A; subst. rewrite item_eqb_refl. reflexivity.
  - destruct (item_eqb it k) eqn:E.
    + apply item_eqb_eq in E. subst. exfalso. apply H1. apply in_map_iff. exists (k, n). auto.
    + auto.
Qed.

Lemma lookup_otn_app : forall it n l l', lookup_otn it l = Some n -> lookup_otn it (l ++ l') = Some n.
Proof.
  induction l as [|[k v] l IH]; simpl; intros l' H; try discriminate.
  destruct (item_eqb it k); auto.
Qed.

Lemma lookup_nto_In : forall n it l, lookup_nto n l = Some it -> In (n, it) l.
Proof.
  induction l as [|[k v] l IH]; simpl; intros H; try discriminate.
  destruct (String.eqb n k) eqn:E.
  - apply String.eqb_eq in E. inversion H; subst. auto.
  - auto.
Qed.

Lemma In_lookup_nto : forall n it l, NoDup (map fst l) -> In (n, it) l -> lookup_nto n l = Some it.
Proof.
  induction l as [|[k v] l IH]; simpl; intros Hnd Hin; try contradiction.
  inversion Hnd; subst.
  destruct Hin as [A|A].
  - inversion A; subst. rewrite String.eqb_refl. reflexivity.
  - destruct (String.eqb n k) eqn:E.
    + apply String.eqb_eq in E. subst. exfalso. apply H1. apply in_map_iff. exists (k, it). auto.
    + auto.
Qed.

Definition swap (p : item * string) : string * item := (snd p, fst p).

Lemma map_fst_swap : forall l, map fst (map swap l) = map snd l.
Proof. induction l as [|[a b] l IH]; simpl; congruence. Qed.

Lemma In_swap : forall it n l, In (n, it) (map swap l) <-> In (it, n) l.
Proof.
  intros. rewrite in_map_iff. split.
  - intros [[a b] [H1 H2]]. unfold swap in H1. simpl in H1. inversion H1; subst. auto.
  - intros H. exists (it, n). auto.
Qed.

(* ================================================================== PDDL *)
Section Pddl.
  Variable c : cfg.
  Variable hier : bool.
  Variable pnames : list string.
  Hypothesis Htab : tables_ok c pddl_rest = true.

  Definition pgood (e : item * string) : Prop :=
    pddl_ident_for (fst e) (snd e) = true
    /\ (forallb kw_ok (c_kws c) = true -> ~ In (snd e) (c_kws c))
    /\ (tables_lower_ok c = true -> no_upper (snd e) = true).

  Record pinv (st : pstate) : Prop := {
    pi_sym : nto st = map swap (otn st);
    pi_keys : NoDup (map fst (otn st));
    pi_vals : NoDup (map snd (otn st));
    pi_good : Forall pgood (otn st);
    pi_fresh : Forall (fun e => snd e <> it_name (fst e) -> ~ In (snd e) pnames) (otn st)
  }.

  Lemma pinv0 : pinv pstate0.
  Proof. split; simpl; auto; constructor. Qed.

  Lemma pddl_name_total : forall it, exists n, pddl_name c it = Some n.
  Proof.
    intros it. unfold pddl_name. destruct (base_name_total c it) as [n Hn]. rewrite Hn. eauto.
  Qed.

  Lemma pgood_pddl_name : forall it n, pddl_name c it = Some n -> pgood (it, n).
  Proof.
    intros it n H. unfold pddl_name in H. destruct (base_name c it) as [b|] eqn:E; try discriminate.
    inversion H; subst; clear H.
    pose proof (base_name_spec c pddl_rest pddl_rest_ok Htab _ _ E) as [Hid [Hkw _]].
    unfold pgood, pddl_ident_for; simpl. destruct (is_paramvar it) eqn:Ep.
    - split; [simpl; exact Hid|]. split.
      + intros Hk. apply kw_ok_no_qmark; auto.
      + intros Hl. simpl. unfold no_upper in *. simpl.
        apply (base_name_no_upper c pddl_rest pddl_rest_ok Htab _ _ Hl E).
    - split; [exact Hid|]. split; auto. intros Hl.
      apply (base_name_no_upper c pddl_rest pddl_rest_ok Htab _ _ Hl E).
  Qed.

  Lemma pgood_suffix : forall it s x, pgood (it, s) ->
    sall pddl_rest x = true -> no_upper x = true -> has_us x = true -> pgood (it, s ++ x).
  Proof.
    intros it s x [H1 [H2 H3]] Hx Hu Hus. unfold pgood in *; simpl in *. split; [|split].
    - unfold pddl_ident_for in *. destruct (is_paramvar it).
      + destruct s as [|ch r]; simpl in *; try discriminate.
        apply andb_true_iff in H1. destruct H1 as [Hq Hr]. rewrite Hq. simpl.
        apply ident_append; auto.
      + apply ident_append; auto.
    - intros Hk. apply kw_ok_no_us; auto. apply has_us_append_r; auto.
    - intros Hl. rewrite no_upper_append, H3, Hu; auto.
  Qed.

  Lemma pgood_counter : forall it s k, pgood (it, s) -> pgood (it, counter_cand s k).
  Proof.
    intros it s [|j] H; simpl; auto.
    apply pgood_suffix; auto.
    - apply suffix_rest. apply pddl_rest_ok.
    - apply suffix_no_upper.
  Qed.

  Lemma taken_false : forall st n, pinv st -> taken st n = false -> ~ In n (map snd (otn st)).
  Proof.
    intros st n Hi Ht. unfold taken in Ht. apply mem_str_false in Ht.
    rewrite (pi_sym _ Hi), map_fst_swap in Ht. exact Ht.
  Qed.

  (* one request *)
  Lemma pddl_mangled_total : forall st it, exists r, pddl_mangled c hier pnames st it = Some r.
  Proof.
    intros st it. unfold pddl_mangled.
    destruct (lookup_otn it (otn st)); eauto.
    destruct (pddl_name_total it) as [t0 Ht0]. rewrite Ht0.
    set (tmp := if is_type it && hier && (t0 =? "object") then t0 ++ "_" else t0).
    destruct ((tmp =? it_name it) && negb (taken st tmp)); eauto.
    destruct (first_free _ (counter_cand tmp) 0 _) eqn:E; eauto.
    exfalso. revert E. apply first_free_total with (bl := (pnames ++ map fst (nto st))%list).
    - apply counter_cand_inj.
    - intros s Hs. apply orb_true_iff in Hs. apply in_or_app. destruct Hs as [Hs|Hs]; [left|right]; apply mem_str_In; auto.
    - rewrite app_length, map_length. lia.
  Qed.

  Lemma pddl_mangled_found : forall st it n, lookup_otn it (otn st) = Some n ->
    pddl_mangled c hier pnames st it = Some (n, st).
  Proof. intros. unfold pddl_mangled. rewrite H. reflexivity. Qed.

  Lemma is_type_not_paramvar : forall it, is_type it = true -> is_paramvar it = false.
  Proof.
    unfold is_type, is_paramvar. intros it H. apply String.eqb_eq in H. rewrite H. reflexivity.
  Qed.

  Lemma pddl_mangled_new : forall st it n st', pinv st -> lookup_otn it (otn st) = None ->
    pddl_mangled c hier pnames st it = Some (n, st') ->
    st' = mk_pstate (otn st ++ [(it, n)])%list (nto st ++ [(n, it)])%list /\ pgood (it, n) /\ ~ In n (map snd (otn st))
    /\ (n <> it_name it -> ~ In n pnames).
  Proof.
    intros st it n st' Hi Hl H. unfold pddl_mangled in H. rewrite Hl in H.
    destruct (pddl_name c it) as [t0|] eqn:Et0; try discriminate.
    set (tmp := if is_type it && hier && (t0 =? "object") then t0 ++ "_" else t0) in *.
    assert (pgood (it, tmp)) as Hg.
    { pose proof (pgood_pddl_name _ _ Et0) as G. unfold tmp.
      destruct (is_type it && hier && (t0 =? "object")); auto.
      apply pgood_suffix; auto. }
    destruct ((tmp =? it_name it) && negb (taken st tmp)) eqn:Eb.
    - inversion H; subst; clear H. apply andb_true_iff in Eb. destruct Eb as [E1 E2].
      apply negb_true_iff in E2. apply String.eqb_eq in E1.
      split; auto. split; auto. split; [apply taken_false; auto|]. intros Hne. congruence.
    - destruct (first_free _ (counter_cand tmp) 0 _) as [new|] eqn:Ef; try discriminate.
      inversion H; subst; clear H.
      apply first_free_spec in Ef. destruct Ef as [Hb [i Hi']]. simpl in Hi'. subst n.
      apply orb_false_iff in Hb. destruct Hb as [Hb1 Hb2].
      split; auto. split; [apply pgood_counter; auto|]. split; [apply taken_false; auto|].
      intros _. apply mem_str_false; auto.
  Qed.

  Lemma pddl_mangled_inv : forall st it n st', pinv st ->
    pddl_mangled c hier pnames st it = Some (n, st') ->
    pinv st' /\ lookup_otn it (otn st') = Some n /\ exists l, otn st' = (otn st ++ l)%list.
  Proof.
    intros st it n st' Hi H.
    destruct (lookup_otn it (otn st)) as [n0|] eqn:El.
    - rewrite (pddl_mangled_found _ _ _ El) in H. inversion H; subst. split; auto. split; auto. exists []. rewrite app_nil_r; auto.
    - destruct (pddl_mangled_new _ _ _ _ Hi El H) as [Hst [Hg [Hv Hfr]]]. subst st'. simpl.
      split; [|split].
      + split; simpl.
        * rewrite (pi_sym _ Hi), map_app. reflexivity.
        * rewrite map_app. simpl. apply NoDup_app_single; [apply (pi_keys _ Hi)|]. apply lookup_otn_None; auto.
        * rewrite map_app. simpl. apply NoDup_app_single; [apply (pi_vals _ Hi)|]. auto.
        * apply Forall_app. split; [apply (pi_good _ Hi)|]. constructor; auto.
        * apply Forall_app. split; [apply (pi_fresh _ Hi)|]. constructor; auto.
      + apply In_lookup_otn.
        * rewrite map_app. simpl. apply NoDup_app_single; [apply (pi_keys _ Hi)|]. apply lookup_otn_None; auto.
        * apply in_or_app. right. simpl. auto.
      + eauto.
  Qed.

  (* histories *)
  Lemma pddl_run_from_total : forall reqs st, exists r, pddl_run_from c hier pnames st reqs = Some r.
  Proof.
    induction reqs as [|it reqs IH]; simpl; intros st; eauto.
    destruct (pddl_mangled_total st it) as [[n st1] H]. rewrite H.
    destruct (IH st1) as [[ns st2] H2]. rewrite H2. eauto.
  Qed.

  Lemma pddl_run_from_inv : forall reqs st ns st', pinv st ->
    pddl_run_from c hier pnames st reqs = Some (ns, st') ->
    pinv st' /\ (exists l, otn st' = (otn st ++ l)%list)
    /\ Forall2 (fun it n => get_pddl_name st' it = Some n) reqs ns.
  Proof.
    induction reqs as [|it reqs IH]; simpl; intros st ns st' Hi H.
    - inversion H; subst. split; auto. split; [exists []; rewrite app_nil_r; auto|constructor].
    - destruct (pddl_mangled c hier pnames st it) as [[n st1]|] eqn:E1; try discriminate.
      destruct (pddl_run_from c hier pnames st1 reqs) as [[ns1 st2]|] eqn:E2; try discriminate.
      inversion H; subst; clear H.
      destruct (pddl_mangled_inv _ _ _ _ Hi E1) as [Hi1 [Hl1 [l1 Ho1]]].
      destruct (IH _ _ _ Hi1 E2) as [Hi2 [[l2 Ho2] HF]].
      split; auto. split.
      + exists (l1 ++ l2)%list. rewrite Ho2, Ho1, app_assoc. reflexivity.
      + constructor; auto. unfold get_pddl_name. rewrite Ho2. apply lookup_otn_app; auto.
  Qed.

  (* consequences of the invariant *)
  Lemma pinv_nto_keys : forall st, pinv st -> NoDup (map fst (nto st)).
  Proof. intros st Hi. rewrite (pi_sym _ Hi), map_fst_swap. apply (pi_vals _ Hi). Qed.

  Lemma pinv_inverse : forall st it n, pinv st ->
    (get_pddl_name st it = Some n <-> get_item_named st n = Some it).
  Proof.
    intros st it n Hi. unfold get_pddl_name, get_item_named. split; intros H.
    - apply In_lookup_nto; [apply pinv_nto_keys; auto|]. rewrite (pi_sym _ Hi). apply In_swap. apply lookup_otn_In; auto.
    - apply In_lookup_otn; [apply (pi_keys _ Hi)|]. apply lookup_nto_In in H. rewrite (pi_sym _ Hi) in H. apply In_swap in H. auto.
  Qed.

  Lemma pinv_injective : forall st a b n, pinv st ->
    get_pddl_name st a = Some n -> get_pddl_name st b = Some n -> a = b.
  Proof.
    intros st a b n Hi Ha Hb. apply (pinv_inverse _ _ _ Hi) in Ha. apply (pinv_inverse _ _ _ Hi) in Hb. congruence.
  Qed.

  Lemma pinv_good : forall st it n, pinv st -> get_pddl_name st it = Some n -> pgood (it, n).
  Proof.
    intros st it n Hi H. apply lookup_otn_In in H. pose proof (pi_good _ Hi) as G. rewrite Forall_forall in G. apply (G _ H).
  Qed.

  Lemma pinv_fresh : forall st it n, pinv st -> get_pddl_name st it = Some n -> n <> it_name it -> ~ In n pnames.
  Proof.
    intros st it n Hi H. apply lookup_otn_In in H. pose proof (pi_fresh _ Hi) as G. rewrite Forall_forall in G. apply (G _ H).
  Qed.
End Pddl.

Lemma lower_no_upper_id : forall s, no_upper s = true -> lower s = s.
Proof.
  unfold no_upper, lower. induction s; simpl; intros H; auto.
  apply andb_true_iff in H. destruct H as [H1 H2]. rewrite IHs by auto.
  unfold lower_char. unfold is_upper_letter in H1. apply negb_true_iff in H1. rewrite H1. reflexivity.
Qed.

(* ================================================================== ANML *)
Lemma sall_ext : forall (p q : ascii -> bool) s, (forall c, p c = q c) -> sall p s = sall q s.
Proof. induction s; simpl; intros; auto. rewrite H, IHs; auto. Qed.

Lemma anml_is_valid_spec : forall v kws s, vcfg_ok v = true ->
  anml_is_valid v kws s = anml_ident s && negb (mem_str s kws).
Proof.
  intros v kws s H. unfold vcfg_ok in H. repeat rewrite andb_true_iff in H. destruct H as [[H1 H2] H3].
  unfold anml_is_valid, anml_ident, ident. destruct s as [|ch r]; auto.
  rewrite H1. f_equal.
  pose proof (forall_ascii _ H2 ch) as A. simpl in A. apply eqb_prop in A. rewrite A. f_equal.
  apply sall_ext. intros x. pose proof (forall_ascii _ H3 x) as B. simpl in B. apply eqb_prop in B. exact B.
Qed.

Lemma nodup_str_NoDup : forall l, nodup_str l = true -> NoDup l.
Proof.
  induction l; simpl; intros H; constructor.
  - apply andb_true_iff in H. destruct H as [H _]. apply negb_true_iff in H. apply mem_str_false; auto.
  - apply andb_true_iff in H. destruct H; auto.
Qed.

Lemma set_map_In : forall k v m e, In e (set_map k v m) -> e = (k, v) \/ In e m.
Proof.
  induction m as [|[k' v'] m IH]; simpl; intros e H.
  - destruct H as [H|[]]; auto.
  - destruct (item_eqb k k'); simpl in H.
    + destruct H as [H|H]; auto.
    + destruct H as [H|H]; auto. apply IH in H. destruct H; auto.
Qed.

Lemma set_map_keys_In : forall k v m x, In x (map fst (set_map k v m)) -> x = k \/ In x (map fst m).
Proof.
  intros k v m x H. apply in_map_iff in H. destruct H as [e [He Hin]]. apply set_map_In in Hin.
  destruct Hin as [Hin|Hin]; subst; auto. right. apply in_map; auto.
Qed.

Lemma set_map_vals_In : forall k v m x, In x (values (set_map k v m)) -> x = v \/ In x (values m).
Proof.
  intros k v m x H. unfold values in *. apply in_map_iff in H. destruct H as [e [He Hin]]. apply set_map_In in Hin.
  destruct Hin as [Hin|Hin]; subst; auto. right. apply in_map; auto.
Qed.

Lemma set_map_keys_NoDup : forall k v m, NoDup (map fst m) -> NoDup (map fst (set_map k v m)).
Proof.
  induction m as [|[k' v'] m IH]; simpl; intros H.
  - repeat constructor; auto.
  - inversion H; subst. destruct (item_eqb k k') eqn:E; simpl.
    + apply item_eqb_eq in E. subst. constructor; auto.
    + constructor; auto. intros Hin. apply set_map_keys_In in Hin. destruct Hin as [Hin|Hin]; auto.
      subst. rewrite item_eqb_refl in E. discriminate.
Qed.

Lemma set_map_vals_NoDup : forall k v m, NoDup (values m) -> ~ In v (values m) -> NoDup (values (set_map k v m)).
Proof.
  unfold values. induction m as [|[k' v'] m IH]; simpl; intros H Hv.
  - repeat constructor; auto.
  - inversion H; subst. destruct (item_eqb k k') eqn:E; simpl.
    + constructor; auto.
    + constructor; auto. intros Hin. apply set_map_vals_In in Hin. destruct Hin as [Hin|Hin]; auto.
  Qed.

Lemma set_map_Forall : forall (P : item * string -> Prop) k v m, Forall P m -> P (k, v) -> Forall P (set_map k v m).
Proof.
  intros P k v m H Hp. rewrite Forall_forall in *. intros e He. apply set_map_In in He. destruct He; subst; auto.
Qed.

Lemma lookup_set_same : forall k v m, lookup_otn k (set_map k v m) = Some v.
Proof.
  induction m as [|[k' v'] m IH]; simpl.
  - rewrite item_eqb_refl. reflexivity.
  - destruct (item_eqb k k') eqn:E; simpl.
    + rewrite item_eqb_refl. reflexivity.
    + rewrite E. exact IH.
Qed.

Lemma lookup_set_other : forall k v m k', k' <> k -> lookup_otn k' (set_map k v m) = lookup_otn k' m.
Proof.
  induction m as [|[k0 v0] m IH]; simpl; intros k' Hne.
  - apply item_eqb_neq in Hne. rewrite Hne. reflexivity.
  - destruct (item_eqb k k0) eqn:E; simpl.
    + apply item_eqb_eq in E. subst k0. apply item_eqb_neq in Hne. rewrite Hne. reflexivity.
    + destruct (item_eqb k' k0); auto.
Qed.

Lemma anml_item_named_In : forall n it m, anml_item_named n m = Some it -> In (it, n) m.
Proof.
  induction m as [|[k x] m IH]; simpl; intros H; try discriminate.
  destruct (String.eqb n x) eqn:E.
  - apply String.eqb_eq in E. inversion H; subst. auto.
  - auto.
Qed.

Lemma In_anml_item_named : forall n it m, NoDup (values m) -> In (it, n) m -> anml_item_named n m = Some it.
Proof.
  unfold values. induction m as [|[k x] m IH]; simpl; intros Hnd Hin; try contradiction.
  inversion Hnd; subst. destruct Hin as [A|A].
  - inversion A; subst. rewrite String.eqb_refl. reflexivity.
  - destruct (String.eqb n x) eqn:E.
    + apply String.eqb_eq in E. subst. exfalso. apply H1. apply in_map_iff. exists (it, x). auto.
    + auto.
Qed.

Lemma anml_init_nodup : forall builtin, builtin_ok builtin = true ->
  NoDup (map fst (anml_init builtin)) /\ NoDup (values (anml_init builtin)).
Proof.
  intros builtin Hb. unfold builtin_ok in Hb. apply andb_true_iff in Hb. destruct Hb as [Hl Hn].
  apply Nat.eqb_eq in Hl. apply nodup_str_NoDup in Hn.
  destruct builtin as [|a [|b [|d [|e r]]]]; simpl in Hl; try discriminate.
  split.
  - simpl. repeat constructor; simpl; intuition discriminate.
  - exact Hn.
Qed.

Section Anml.
  Variable v : vcfg.
  Variable c : cfg.
  Variable builtin : list string.
  Hypothesis Htab : tables_ok c anml_rest = true.
  Hypothesis Hv : vcfg_ok v = true.
  Hypothesis Hkw : forallb kw_ok (c_kws c) = true.
  Hypothesis Hb : builtin_ok builtin = true.

  Definition aname_ok (n : string) : Prop := anml_ident n = true /\ ~ In n (c_kws c).
  Definition agood (e : item * string) : Prop := In e (anml_init builtin) \/ aname_ok (snd e).

  Record ainv (m : amap) : Prop := {
    ai_keys : NoDup (map fst m);
    ai_vals : NoDup (values m);
    ai_good : Forall agood m
  }.

  Lemma ainv_init : ainv (anml_init builtin).
  Proof.
    destruct (anml_init_nodup _ Hb) as [A B]. split; auto.
    apply Forall_forall. intros e He. left. exact He.
  Qed.

  Lemma aname_ok_valid : forall n, aname_ok n <-> anml_is_valid v (c_kws c) n = true.
  Proof.
    intros n. rewrite (anml_is_valid_spec _ _ _ Hv). unfold aname_ok. rewrite andb_true_iff, negb_true_iff, mem_str_false.
    reflexivity.
  Qed.

  Lemma anml_prefill_inv : forall m it, ainv m -> ainv (anml_prefill v c m it).
  Proof.
    intros m it Hi. unfold anml_prefill.
    destruct (anml_is_valid v (c_kws c) (it_name it) && negb (mem_str (it_name it) (values m))) eqn:E; auto.
    apply andb_true_iff in E. destruct E as [E1 E2]. apply negb_true_iff in E2. apply mem_str_false in E2.
    split.
    - apply set_map_keys_NoDup, (ai_keys _ Hi).
    - apply set_map_vals_NoDup; auto. apply (ai_vals _ Hi).
    - apply set_map_Forall; [apply (ai_good _ Hi)|]. right. simpl. apply aname_ok_valid; auto.
  Qed.

  Lemma aname_ok_counter : forall s k, aname_ok s -> aname_ok (counter_cand s k).
  Proof.
    intros s [|j] [H1 H2]; simpl; [split; auto|]. split.
    - apply ident_append; auto. apply suffix_rest. apply anml_rest_ok.
    - apply kw_ok_no_us; auto. apply has_us_append_r. reflexivity.
  Qed.

  Lemma anml_get_name_total : forall m it, is_numtype it = false -> exists r, anml_get_name c m it = Some r.
  Proof.
    intros m it Hn. unfold anml_get_name. destruct (lookup_otn it m); eauto. rewrite Hn.
    destruct (base_name_total c it) as [b Hb']. rewrite Hb'.
    destruct (first_free _ (counter_cand b) 0 _) eqn:E; eauto.
    exfalso. revert E. apply first_free_total with (bl := values m).
    - apply counter_cand_inj.
    - intros s Hs. apply mem_str_In; auto.
    - unfold values. rewrite map_length. lia.
  Qed.

  Lemma anml_get_name_inv : forall m it n m', ainv m -> anml_get_name c m it = Some (n, m') ->
    ainv m' /\ lookup_otn it m' = Some n
    /\ (forall k x, lookup_otn k m = Some x -> lookup_otn k m' = Some x)
    /\ (lookup_otn it m = None -> aname_ok n /\ ~ In n (values m)).
  Proof.
    intros m it n m' Hi H. unfold anml_get_name in H.
    destruct (lookup_otn it m) as [n0|] eqn:El.
    - inversion H; subst. split; [exact Hi|]. split; [exact El|]. split; [auto|].
      intros X. congruence.
    - destruct (is_numtype it); try discriminate.
      destruct (base_name c it) as [b|] eqn:Eb; try discriminate.
      destruct (first_free _ (counter_cand b) 0 _) as [t|] eqn:Ef; try discriminate.
      inversion H; subst; clear H.
      apply first_free_spec in Ef. destruct Ef as [Hbl [i Hi']]. simpl in Hi'. subst n.
      apply mem_str_false in Hbl.
      pose proof (base_name_spec c anml_rest anml_rest_ok Htab _ _ Eb) as [Hid [Hk _]].
      assert (aname_ok (counter_cand b i)) as Hok by (apply aname_ok_counter; split; auto).
      split; [|split; [|split]].
      + split.
        * apply set_map_keys_NoDup, (ai_keys _ Hi).
        * apply set_map_vals_NoDup; auto. apply (ai_vals _ Hi).
        * apply set_map_Forall; [apply (ai_good _ Hi)|]. right. exact Hok.
      + apply lookup_set_same.
      + intros k x Hk'. rewrite lookup_set_other; auto. intros Heq. subst. congruence.
      + intros _. split; auto.
  Qed.

  Definition aop_named (o : aop) : Prop :=
    match o with AReq it => is_numtype it = false | APre _ => True end.

  Lemma anml_run_from_total : forall ops m, Forall aop_named ops -> exists r, anml_run_from v c m ops = Some r.
  Proof.
    induction ops as [|[it|it] ops IH]; simpl; intros m H; eauto; inversion H; subst.
    - destruct (IH (anml_prefill v c m it) H3) as [[ns m'] E]. rewrite E. eauto.
    - destruct (anml_get_name_total m it H2) as [[n m1] E1]. rewrite E1.
      destruct (IH m1 H3) as [[ns m'] E]. rewrite E. eauto.
  Qed.

  Lemma anml_run_from_inv : forall ops m ns m', ainv m -> anml_run_from v c m ops = Some (ns, m') -> ainv m'.
  Proof.
    induction ops as [|[it|it] ops IH]; simpl; intros m ns m' Hi H.
    - inversion H; subst; auto.
    - destruct (anml_run_from v c (anml_prefill v c m it) ops) as [[ns1 m1]|] eqn:E; try discriminate.
      inversion H; subst. eapply IH; [|exact E]. apply anml_prefill_inv; auto.
    - destruct (anml_get_name c m it) as [[n m1]|] eqn:E1; try discriminate.
      destruct (anml_run_from v c m1 ops) as [[ns1 m2]|] eqn:E; try discriminate.
      inversion H; subst. eapply IH; [|exact E]. apply (anml_get_name_inv _ _ _ _ Hi E1).
  Qed.

  (* the request phase: every answer is the final binding, earlier bindings persist *)
  Lemma anml_requests_stable : forall reqs m ns m', ainv m ->
    anml_run_from v c m (map AReq reqs) = Some (ns, m') ->
    ns = map (fun it => lookup_otn it m') reqs
    /\ (forall k x, lookup_otn k m = Some x -> lookup_otn k m' = Some x).
  Proof.
    induction reqs as [|it reqs IH]; simpl; intros m ns m' Hi H.
    - inversion H; subst. auto.
    - destruct (anml_get_name c m it) as [[n m1]|] eqn:E1; try discriminate.
      destruct (anml_run_from v c m1 (map AReq reqs)) as [[ns1 m2]|] eqn:E; try discriminate.
      inversion H; subst; clear H.
      destruct (anml_get_name_inv _ _ _ _ Hi E1) as [Hi1 [Hl [Hp _]]].
      destruct (IH _ _ _ Hi1 E) as [Hns Hp2]. split.
      + rewrite (Hp2 _ _ Hl). f_equal. exact Hns.
      + intros k x Hk. apply Hp2, Hp, Hk.
  Qed.

  Lemma ainv_inverse : forall m it n, ainv m -> (lookup_otn it m = Some n <-> anml_item_named n m = Some it).
  Proof.
    intros m it n Hi. split; intros H.
    - apply In_anml_item_named; [apply (ai_vals _ Hi)|]. apply lookup_otn_In; auto.
    - apply In_lookup_otn; [apply (ai_keys _ Hi)|]. apply anml_item_named_In; auto.
  Qed.

  Lemma ainv_injective : forall m a b n, ainv m -> lookup_otn a m = Some n -> lookup_otn b m = Some n -> a = b.
  Proof.
    intros m a b n Hi Ha Hb'. apply (ainv_inverse _ _ _ Hi) in Ha. apply (ainv_inverse _ _ _ Hi) in Hb'. congruence.
  Qed.

  Lemma ainv_good : forall m it n, ainv m -> lookup_otn it m = Some n -> In (it, n) (anml_init builtin) \/ aname_ok n.
  Proof.
    intros m it n Hi H. apply lookup_otn_In in H. pose proof (ai_good _ Hi) as G. rewrite Forall_forall in G. apply (G _ H).
  Qed.
End Anml.

(* ================================================================== the writers' actual tables *)
Require Import UPV.Gen.Gen_Keywords.

Lemma pddl_tables_ok : forall kws, tables_ok (pddl_cfg kws) pddl_rest = true.
Proof. intros kws. vm_compute. reflexivity. Qed.
Lemma pddl_tables_lower_ok : forall kws, tables_lower_ok (pddl_cfg kws) = true.
Proof. intros kws. vm_compute. reflexivity. Qed.
Lemma pddl_all_keywords_ok : forallb kw_ok pddl_all_keywords = true.
Proof. vm_compute. reflexivity. Qed.
Lemma anml_tables_ok : tables_ok anml_cfg anml_rest = true.
Proof. vm_compute. reflexivity. Qed.
Lemma anml_vcfg_ok : vcfg_ok anml_vcfg = true.
Proof. vm_compute. reflexivity. Qed.
Lemma anml_keywords_ok : forallb kw_ok (c_kws anml_cfg) = true.
Proof. vm_compute. reflexivity. Qed.
Lemma anml_builtin_ok : builtin_ok anml_builtin_names = true.
Proof. vm_compute. reflexivity. Qed.

Definition builtin_items : list item := [bool_item; int_item; real_item].

Section Final.
  Variables (kws : list string) (hier : bool) (pnames : list string).
  Let c := pddl_cfg kws.

  Lemma pddl_final_total : forall reqs, exists ns st, pddl_run c hier pnames reqs = Some (ns, st).
  Proof. intros reqs. destruct (pddl_run_from_total c hier pnames reqs pstate0) as [[ns st] H]. eauto. Qed.

  Lemma pddl_final_inv : forall reqs ns st, pddl_run c hier pnames reqs = Some (ns, st) -> pinv c pnames st.
  Proof.
    intros reqs ns st H.
    destruct (pddl_run_from_inv c hier pnames (pddl_tables_ok kws) reqs pstate0 ns st (pinv0 c pnames) H) as [A _]. exact A.
  Qed.

  Lemma pddl_final_valid : forall reqs ns st it n, pddl_run c hier pnames reqs = Some (ns, st) ->
    get_pddl_name st it = Some n -> pddl_ident_for it n = true /\ no_upper n = true.
  Proof.
    intros reqs ns st it n H Hg. pose proof (pinv_good c pnames st it n (pddl_final_inv _ _ _ H) Hg) as [A [_ B]].
    split; [exact A|]. apply B. apply pddl_tables_lower_ok.
  Qed.

  Lemma pddl_final_not_keyword : forall reqs ns st it n, incl kws pddl_all_keywords ->
    pddl_run c hier pnames reqs = Some (ns, st) -> get_pddl_name st it = Some n -> ~ In n kws.
  Proof.
    intros reqs ns st it n Hk H Hg. pose proof (pinv_good c pnames st it n (pddl_final_inv _ _ _ H) Hg) as [_ [A _]].
    apply A. simpl. apply (kw_ok_incl _ _ Hk). apply pddl_all_keywords_ok.
  Qed.

  Lemma pddl_final_injective : forall reqs ns st a b n, pddl_run c hier pnames reqs = Some (ns, st) ->
    get_pddl_name st a = Some n -> get_pddl_name st b = Some n -> a = b.
  Proof. intros reqs ns st a b n H. apply (pinv_injective c pnames). apply (pddl_final_inv _ _ _ H). Qed.

  Lemma pddl_final_injective_nocase : forall reqs ns st a b n1 n2, pddl_run c hier pnames reqs = Some (ns, st) ->
    get_pddl_name st a = Some n1 -> get_pddl_name st b = Some n2 -> lower n1 = lower n2 -> a = b.
  Proof.
    intros reqs ns st a b n1 n2 H Ha Hb Hl.
    destruct (pddl_final_valid _ _ _ _ _ H Ha) as [_ U1]. destruct (pddl_final_valid _ _ _ _ _ H Hb) as [_ U2].
    rewrite (lower_no_upper_id _ U1), (lower_no_upper_id _ U2) in Hl. subst n2.
    apply (pddl_final_injective _ _ _ _ _ _ H Ha Hb).
  Qed.

  Lemma pddl_final_inverse : forall reqs ns st it n, pddl_run c hier pnames reqs = Some (ns, st) ->
    (get_pddl_name st it = Some n <-> get_item_named st n = Some it).
  Proof. intros reqs ns st it n H. apply (pinv_inverse c pnames). apply (pddl_final_inv _ _ _ H). Qed.

  Lemma pddl_final_answers : forall reqs ns st, pddl_run c hier pnames reqs = Some (ns, st) ->
    Forall2 (fun it n => get_pddl_name st it = Some n) reqs ns.
  Proof.
    intros reqs ns st H.
    destruct (pddl_run_from_inv c hier pnames (pddl_tables_ok kws) reqs pstate0 ns st (pinv0 c pnames) H) as [_ [_ A]]. exact A.
  Qed.

  Lemma pddl_final_fresh : forall reqs ns st it n, pddl_run c hier pnames reqs = Some (ns, st) ->
    get_pddl_name st it = Some n -> n <> it_name it -> ~ In n pnames.
  Proof. intros reqs ns st it n H. apply (pinv_fresh c pnames). apply (pddl_final_inv _ _ _ H). Qed.

  Lemma pddl_final_name : forall it, exists n, pddl_name c it = Some n /\ pddl_ident_for it n = true /\ no_upper n = true
    /\ (incl kws pddl_all_keywords -> ~ In n kws).
  Proof.
    intros it. destruct (pddl_name_total c it) as [n Hn]. exists n. split; auto.
    destruct (pgood_pddl_name c (pddl_tables_ok kws) it n Hn) as [A [B C]]. simpl in *.
    split; auto. split; [apply C, pddl_tables_lower_ok|].
    intros Hk. apply B. apply (kw_ok_incl _ _ Hk). apply pddl_all_keywords_ok.
  Qed.
End Final.

Section FinalAnml.
  Let run := anml_run anml_vcfg anml_cfg anml_builtin_names.
  Let INV := ainv anml_cfg anml_builtin_names.

  Lemma anml_final_total : forall ops, Forall aop_named ops -> exists ns m, run ops = Some (ns, m).
  Proof.
    intros ops H. destruct (anml_run_from_total anml_vcfg anml_cfg ops (anml_init anml_builtin_names) H) as [[ns m] E]. eauto.
  Qed.

  Lemma anml_final_inv : forall ops ns m, run ops = Some (ns, m) -> INV m.
  Proof.
    intros ops ns m H.
    apply (anml_run_from_inv anml_vcfg anml_cfg anml_builtin_names anml_tables_ok anml_vcfg_ok anml_keywords_ok ops _ ns m
             (ainv_init anml_cfg anml_builtin_names anml_builtin_ok) H).
  Qed.

  Lemma anml_final_valid : forall ops ns m it n, run ops = Some (ns, m) -> lookup_otn it m = Some n ->
    ~ In it builtin_items -> anml_ident n = true /\ ~ In n anml_keywords.
  Proof.
    intros ops ns m it n H Hl Hnb.
    destruct (ainv_good anml_cfg anml_builtin_names m it n (anml_final_inv _ _ _ H) Hl) as [A|A]; auto.
    exfalso. apply Hnb. unfold anml_init in A. apply in_combine_l in A. exact A.
  Qed.

  Lemma anml_final_injective : forall ops ns m a b n, run ops = Some (ns, m) ->
    lookup_otn a m = Some n -> lookup_otn b m = Some n -> a = b.
  Proof. intros ops ns m a b n H. apply (ainv_injective anml_cfg anml_builtin_names). apply (anml_final_inv _ _ _ H). Qed.

  Lemma anml_final_inverse : forall ops ns m it n, run ops = Some (ns, m) ->
    (lookup_otn it m = Some n <-> anml_item_named n m = Some it).
  Proof. intros ops ns m it n H. apply (ainv_inverse anml_cfg anml_builtin_names). apply (anml_final_inv _ _ _ H). Qed.

  Lemma anml_final_is_valid : forall s,
    anml_is_valid anml_vcfg anml_keywords s = anml_ident s && negb (mem_str s anml_keywords).
  Proof. intros s. apply anml_is_valid_spec. apply anml_vcfg_ok. Qed.

  (* the writer's shape: pre-fill loops first, then requests *)
  Lemma anml_final_writer : forall pre reqs ns1 m1 ns m,
    run (map APre pre) = Some (ns1, m1) ->
    anml_run_from anml_vcfg anml_cfg m1 (map AReq reqs) = Some (ns, m) ->
    INV m /\ ns = map (fun it => lookup_otn it m) reqs
    /\ (forall k x, lookup_otn k m1 = Some x -> lookup_otn k m = Some x).
  Proof.
    intros pre reqs ns1 m1 ns m H1 H2. pose proof (anml_final_inv _ _ _ H1) as I1.
    split.
    - apply (anml_run_from_inv anml_vcfg anml_cfg anml_builtin_names anml_tables_ok anml_vcfg_ok anml_keywords_ok _ _ _ _ I1 H2).
    - apply (anml_requests_stable anml_vcfg anml_cfg anml_builtin_names anml_tables_ok anml_keywords_ok reqs m1 ns m I1 H2).
  Qed.

  (* the assertion `assert _is_valid_anml_name(new_name)` of _get_anml_name holds for every fresh name *)
  Lemma anml_final_assert : forall ops ns m it n m', run ops = Some (ns, m) -> lookup_otn it m = None ->
    anml_get_name anml_cfg m it = Some (n, m') -> anml_is_valid anml_vcfg anml_keywords n = true /\ ~ In n (values m).
  Proof.
    intros ops ns m it n m' H Hl Hg.
    destruct (anml_get_name_inv anml_cfg anml_builtin_names anml_tables_ok anml_keywords_ok m it n m' (anml_final_inv _ _ _ H) Hg)
      as [_ [_ [_ A]]]. destruct (A Hl) as [[B1 B2] C]. split; auto.
    rewrite anml_final_is_valid. apply andb_true_iff. split; [exact B1|]. apply negb_true_iff. apply mem_str_false. exact B2.
  Qed.
End FinalAnml.

(* ================================================================== which keyword tables a writer reserves *)
Lemma subset_b_incl : forall a b, subset_b a b = true -> incl a b.
Proof. unfold subset_b. intros a b H x Hx. rewrite forallb_forall in H. apply mem_str_In. apply H, Hx. Qed.

Lemma kws_of_rules_incl : forall base rules has,
  incl (kws_of_rules base rules has) (base ++ List.concat (map snd rules))%list.
Proof.
  intros base rules has. unfold kws_of_rules. apply incl_app; [apply incl_appl, incl_refl|]. apply incl_appr.
  induction rules as [|r rules IH]; simpl; [apply incl_refl|].
  destruct (rule_applies has r).
  - apply incl_app; [apply incl_appl, incl_refl|apply incl_appr, IH].
  - apply incl_appr, IH.
Qed.

Lemma pddl_writer_kws_incl : forall has, incl (pddl_writer_kws has) pddl_all_keywords.
Proof. intros has. apply kws_of_rules_incl. Qed.

Lemma pddl_reserved_covered : forall has, incl (pddl_reserved_spec has) (pddl_writer_kws has).
Proof.
  intros has. apply subset_b_incl.
  cbv [pddl_writer_kws kws_of_rules pddl_keyword_rules rule_applies existsb map fst snd pddl_reserved_spec].
  destruct (has "processes"); destruct (has "events"); destruct (has "durative_actions");
    destruct (has "trajectory_constraints"); destruct (has "contingent"); vm_compute; reflexivity.
Qed.

Lemma pddl_final_not_reserved : forall has hier pnames reqs ns st it n,
  pddl_run (pddl_cfg (pddl_writer_kws has)) hier pnames reqs = Some (ns, st) ->
  get_pddl_name st it = Some n -> ~ In n (pddl_reserved_spec has).
Proof.
  intros has hier pnames reqs ns st it n H Hg Hin.
  apply (pddl_final_not_keyword (pddl_writer_kws has) hier pnames reqs ns st it n (pddl_writer_kws_incl has) H Hg).
  apply pddl_reserved_covered, Hin.
Qed.
