(* C06 / C07, Layer A — compiler pipelines: proofs.
   1. plans and map backs;  2. the "modulo no-op steps" relation is a preorder that respects state equality;
   3. a stage that simulates the source problem step by step is sound and preserves no-op deletion;
   4. two stages compose;  5. pipelines of any length;  6. the stages QuantifiersRemover, ConditionalEffectsRemover,
   Grounder and the closed pipeline theorems. *)
From Coq Require Import List ZArith NArith QArith Qcanon Bool Lia.
Import ListNotations.
Require Import UPV.Core.Expr UPV.Core.Eval UPV.Core.Interp UPV.Planning.Problem UPV.Planning.Sem.
Require Import UPV.Proofs.Eval_lemmas UPV.Proofs.Sem_proofs UPV.Proofs.Step_proofs UPV.Proofs.Subst_proofs.
Require Import UPV.Compilers.Variants UPV.Proofs.Variants_proofs.
Require Import UPV.Compilers.LayerA_Defs UPV.Compilers.LayerA_Quant UPV.Compilers.LayerA_Variants.
Require Import UPV.Proofs.LayerA_base UPV.Proofs.LayerA_Quant_proofs UPV.Proofs.LayerA_Variants_proofs.
Require Import UPV.Planning.Ground UPV.Compilers.LayerA_Ground UPV.Proofs.LayerA_Ground_proofs.
Require Import UPV.Compilers.LayerA_Inv UPV.Compilers.LayerA_Neg UPV.Proofs.LayerA_Inv_proofs UPV.Proofs.LayerA_Neg_proofs.
Require Import UPV.Compilers.LayerA_Pipe.
Local Open Scope nat_scope.

Ltac plia := unfold pplan, pstep in *; lia.

(* ================================================================== 1. plans and map backs *)
Lemma pback_cons f x pi : pback f (x :: pi) = ostep f x ++ pback f pi.
Proof. reflexivity. Qed.

Lemma pback_app f a b : pback f (a ++ b) = pback f a ++ pback f b.
Proof. unfold pback. apply flat_map_app. Qed.

Lemma pback_Some pi : pback (fun x => Some x) pi = pi.
Proof. induction pi as [|x pi IH]; [reflexivity|]. rewrite pback_cons, IH. reflexivity. Qed.

Lemma pback_ext f g pi : (forall x, f x = g x) -> pback f pi = pback g pi.
Proof.
  intros H. induction pi as [|x pi IH]; [reflexivity|]. rewrite !pback_cons, IH. unfold ostep. rewrite H. reflexivity.
Qed.

(* the map back of two stages in sequence is the composition, later stage first *)
Lemma pback_compose fa fb pi :
  pback (fun x => match fb x with Some y => fa y | None => None end) pi = pback fa (pback fb pi).
Proof.
  induction pi as [|x pi IH]; [reflexivity|]. rewrite !pback_cons, pback_app, IH. f_equal.
  unfold ostep. destruct (fb x) as [y|]; [|reflexivity]. cbn [pback flat_map]. rewrite app_nil_r. reflexivity.
Qed.

Lemma pback_length f pi : length (pback f pi) <= length pi.
Proof.
  induction pi as [|x pi IH]; [apply le_n|]. rewrite pback_cons, app_length. unfold ostep.
  destruct (f x); cbn [length]; lia.
Qed.

Lemma pback_Forall f (Q : pstep -> Prop) pi :
  Forall (fun x => match f x with Some y => Q y | None => True end) pi -> Forall Q (pback f pi).
Proof.
  induction 1 as [|x pi Hx _ IH]; [constructor|]. rewrite pback_cons. apply Forall_app. split; [|exact IH].
  unfold ostep. destruct (f x); constructor; [exact Hx | constructor].
Qed.

Lemma Forall_pback f (Q : pstep -> Prop) pi :
  Forall Q (pback f pi) -> Forall (fun x => match f x with Some y => Q y | None => True end) pi.
Proof.
  induction pi as [|x pi IH]; intros H; [constructor|]. rewrite pback_cons in H. apply Forall_app in H.
  destruct H as [H1 H2]. constructor; [|apply IH; exact H2].
  unfold ostep in H1. destruct (f x); [inversion H1; assumption | exact I].
Qed.

Lemma vt_map_back_pback t pi' : vt_map_back t pi' = pback (fun x => Some (vt_back t (fst x), snd x)) pi'.
Proof. induction pi' as [|x pi' IH]; [reflexivity|]. rewrite pback_cons, <- IH. reflexivity. Qed.

Lemma mb_chain_app fs gs x :
  mb_chain (fs ++ gs) x = match mb_chain fs x with Some y => mb_chain gs y | None => None end.
Proof.
  revert x. induction fs as [|f fs IH]; intros x; cbn [mb_chain app]; [reflexivity|].
  destruct (f x) as [y|]; [apply IH | reflexivity].
Qed.

(* ================================================================== runs *)
Lemma run_app P stp pi1 : forall s pi2,
  run P stp s (pi1 ++ pi2) = match run P stp s pi1 with Some m => run P stp m pi2 | None => None end.
Proof.
  induction pi1 as [|[aid args] pi1 IH]; intros s pi2; cbn [run app]; [reflexivity|].
  destruct (lookup_action P aid) as [a|]; [|reflexivity]. destruct (stp s a args) as [m|]; [apply IH | reflexivity].
Qed.

Lemma run_single P stp s aid args :
  run P stp s [(aid, args)] = match lookup_action P aid with Some a => stp s a args | None => None end.
Proof. cbn [run]. destruct (lookup_action P aid) as [a|]; [|reflexivity]. destruct (stp s a args); reflexivity. Qed.

Lemma valid_plan_ext P s t pi : state_eq s t -> valid_plan false P s pi = valid_plan false P t pi.
Proof.
  intros H. unfold valid_plan. pose proof (run_ext false P pi s t H) as E.
  destruct (run P (spec_step false P) s pi) as [u|], (run P (spec_step false P) t pi) as [v|]; simpl in E;
    try contradiction; [apply goals_hold_ext; exact E | reflexivity].
Qed.

(* ================================================================== 2. deleting steps that change nothing *)
Lemma sne_ext P s pi rho : sub_noop_eq P s pi rho -> forall s2, state_eq s s2 -> sub_noop_eq P s2 pi rho.
Proof.
  induction 1 as [s | s aid args a t pi rho EL ES _ IH | s aid args a t pi rho EL ES Hno _ IH]; intros s2 Hs.
  - constructor.
  - pose proof (spec_step_ext false P s s2 a args Hs) as E. rewrite ES in E.
    destruct (spec_step false P s2 a args) as [t2|] eqn:E2; [|destruct E].
    eapply sne_keep; [exact EL | exact E2 | apply IH; exact E].
  - pose proof (spec_step_ext false P s s2 a args Hs) as E. rewrite ES in E.
    destruct (spec_step false P s2 a args) as [t2|] eqn:E2; [|destruct E].
    eapply sne_drop; [exact EL | exact E2 | | apply IH; exact E].
    intros f x. rewrite <- (E f x), (Hno f x). apply Hs.
Qed.

Lemma sne_trans P s a b : sub_noop_eq P s a b -> forall c, sub_noop_eq P s b c -> sub_noop_eq P s a c.
Proof.
  induction 1 as [s | s aid args act t pi rho EL ES _ IH | s aid args act t pi rho EL ES Hno _ IH]; intros c Hc.
  - exact Hc.
  - inversion Hc as [| s1 aid1 args1 a1 t1 pi1 rho1 EL1 ES1 Hr | s1 aid1 args1 a1 t1 pi1 rho1 EL1 ES1 Hno1 Hr]; subst.
    + rewrite EL in EL1. inversion EL1; subst a1. rewrite ES in ES1. inversion ES1; subst t1.
      eapply sne_keep; [exact EL | exact ES | apply IH; exact Hr].
    + rewrite EL in EL1. inversion EL1; subst a1. rewrite ES in ES1. inversion ES1; subst t1.
      eapply sne_drop; [exact EL | exact ES | exact Hno1 | apply IH; exact Hr].
  - eapply sne_drop; [exact EL | exact ES | exact Hno |]. apply IH.
    apply (sne_ext P s rho c Hc). intros f x. symmetry. apply Hno.
Qed.

Lemma sne_refl P pi : forall s t, run P (spec_step false P) s pi = Some t -> sub_noop_eq P s pi pi.
Proof.
  induction pi as [|[aid args] pi IH]; intros s t; cbn [run]; [constructor|].
  destruct (lookup_action P aid) as [a|] eqn:EL; [|discriminate].
  destruct (spec_step false P s a args) as [m|] eqn:ES; [|discriminate]. intros ER.
  eapply sne_keep; [exact EL | exact ES | eapply IH; exact ER].
Qed.

Lemma sne_valid_refl P s pi : valid_plan false P s pi = true -> sub_noop_eq P s pi pi.
Proof.
  unfold valid_plan. destruct (run P (spec_step false P) s pi) as [t|] eqn:ER; [|discriminate].
  intros _. eapply sne_refl; exact ER.
Qed.

Lemma sne_Forall P s pi rho (Q : pstep -> Prop) : sub_noop_eq P s pi rho -> Forall Q pi -> Forall Q rho.
Proof.
  induction 1 as [s | s aid args a t pi rho _ _ _ IH | s aid args a t pi rho _ _ _ _ IH]; intros H.
  - constructor.
  - inversion H; subst. constructor; [assumption | apply IH; assumption].
  - inversion H; subst. apply IH; assumption.
Qed.

Lemma sne_length P s pi rho : sub_noop_eq P s pi rho -> length rho <= length pi.
Proof. induction 1; cbn [length]; lia. Qed.

(* ================================================================== 3. stages that simulate step by step *)
Section FromSim.
  Variable st : stage.
  (* every compiled step is matched by its image (no move when the step is auxiliary), related states again *)
  Hypothesis Hstep : forall s s' x' t', st_rel st s s' -> st_okD st x' ->
    run (st_dst st) (spec_step false (st_dst st)) s' [x'] = Some t' ->
    exists t, run (st_src st) (spec_step false (st_src st)) s (ostep (st_back st) x') = Some t /\ st_rel st t t'.
  (* a compiled step that changes nothing is matched by a source step that changes nothing (e.g. because the compiled
     state determines the source state) *)
  Hypothesis Huniq : forall s s' x' t t', st_rel st s s' -> st_rel st t t' -> state_eq s' t' ->
    run (st_src st) (spec_step false (st_src st)) s (ostep (st_back st) x') = Some t -> state_eq s t.

  Lemma sim_run pi' : forall s s' t', st_rel st s s' -> Forall (st_okD st) pi' ->
    run (st_dst st) (spec_step false (st_dst st)) s' pi' = Some t' ->
    exists t, run (st_src st) (spec_step false (st_src st)) s (pback (st_back st) pi') = Some t /\ st_rel st t t'.
  Proof.
    induction pi' as [|x' pi' IH]; intros s s' t' HR Hok ER.
    - cbn [run] in ER. inversion ER; subst. exists s. split; [reflexivity | exact HR].
    - inversion Hok as [|? ? Hx Hr]; subst.
      change (x' :: pi') with ([x'] ++ pi') in ER. rewrite run_app in ER.
      destruct (run (st_dst st) (spec_step false (st_dst st)) s' [x']) as [m'|] eqn:E1; [|discriminate].
      destruct (Hstep s s' x' m' HR Hx E1) as [m [Em HRm]].
      destruct (IH m m' t' HRm Hr ER) as [t [Et HRt]].
      exists t. split; [|exact HRt]. rewrite pback_cons, run_app, Em. exact Et.
  Qed.

  Theorem sim_sound :
    (forall t t', st_rel st t t' -> goals_hold false (st_dst st) t' = true -> goals_hold false (st_src st) t = true) ->
    stage_sound st.
  Proof.
    intros Hgoal s s' pi' HR Hok. unfold valid_plan.
    destruct (run (st_dst st) (spec_step false (st_dst st)) s' pi') as [t'|] eqn:ER; [|discriminate].
    destruct (sim_run pi' s s' t' HR Hok ER) as [t [-> HRt]]. apply Hgoal. exact HRt.
  Qed.

  Theorem sim_noop : stage_noop st.
  Proof.
    intros s s' pi' rho' HR Hok _ Hsub. revert s HR Hok.
    induction Hsub as [s' | s' aid args a' t' pi' rho' EL ES _ IH | s' aid args a' t' pi' rho' EL ES Hno _ IH];
      intros s HR Hok.
    - constructor.
    - inversion Hok as [|? ? Hx Hr]; subst.
      assert (E1 : run (st_dst st) (spec_step false (st_dst st)) s' [(aid, args)] = Some t')
        by (rewrite run_single, EL; exact ES).
      destruct (Hstep s s' (aid, args) t' HR Hx E1) as [t [Et HRt]].
      rewrite !pback_cons. unfold ostep in *. destruct (st_back st (aid, args)) as [[i ar]|].
      + rewrite run_single in Et. destruct (lookup_action (st_src st) i) as [a|] eqn:ELo; [|discriminate].
        cbn [app]. eapply sne_keep; [exact ELo | exact Et | apply IH; assumption].
      + cbn [run] in Et. inversion Et; subst t. cbn [app]. apply IH; assumption.
    - inversion Hok as [|? ? Hx Hr]; subst.
      assert (E1 : run (st_dst st) (spec_step false (st_dst st)) s' [(aid, args)] = Some t')
        by (rewrite run_single, EL; exact ES).
      destruct (Hstep s s' (aid, args) t' HR Hx E1) as [t [Et HRt]].
      assert (Hst : state_eq s t) by (apply (Huniq s s' (aid, args) t t' HR HRt); [intros f x; symmetry; apply Hno | exact Et]).
      rewrite pback_cons. unfold ostep in *. destruct (st_back st (aid, args)) as [[i ar]|].
      + rewrite run_single in Et. destruct (lookup_action (st_src st) i) as [a|] eqn:ELo; [|discriminate].
        cbn [app]. eapply sne_drop; [exact ELo | exact Et | | apply IH; assumption].
        intros f x. symmetry. apply Hst.
      + cbn [run] in Et. inversion Et; subst t. cbn [app]. apply IH; assumption.
  Qed.
End FromSim.

(* ================================================================== 4. two stages *)
Section Compose.
  Variables a b : stage.
  Hypothesis Hlink : st_dst a = st_src b.

  Lemma okD_compose pi' : Forall (st_okD (compose a b)) pi' ->
    Forall (st_okD b) pi' /\ Forall (st_okD a) (pback (st_back b) pi').
  Proof.
    intros H. split.
    - eapply Forall_impl; [|exact H]. intros x [Hx _]. exact Hx.
    - apply pback_Forall. eapply Forall_impl; [|exact H]. intros x [_ Hx]. exact Hx.
  Qed.

  Lemma compose_okD pi' : Forall (st_okD b) pi' -> Forall (st_okD a) (pback (st_back b) pi') ->
    Forall (st_okD (compose a b)) pi'.
  Proof.
    intros H1 H2. apply Forall_pback in H2. rewrite Forall_forall in *. intros x Hx. split; [apply H1 | apply H2]; exact Hx.
  Qed.

  Lemma compose_back pi' : pback (st_back (compose a b)) pi' = pback (st_back a) (pback (st_back b) pi').
  Proof. apply pback_compose. Qed.

  (* soundness composes, with no condition linking the stages *)
  Theorem compose_sound : stage_sound a -> stage_sound b -> stage_sound (compose a b).
  Proof.
    intros Ha Hb s0 s2 pi' [s1 [R1 R2]] Hok Hv. rewrite compose_back.
    destruct (okD_compose pi' Hok) as [Hokb Hoka].
    apply (Ha s0 s1 _ R1 Hoka). rewrite Hlink. exact (Hb s1 s2 pi' R2 Hokb Hv).
  Qed.

  Theorem compose_noop : stage_sound b -> stage_noop a -> stage_noop b -> stage_noop (compose a b).
  Proof.
    intros Sb Ha Hb s0 s2 pi' rho' [s1 [R1 R2]] Hok Hv Hsub. rewrite !compose_back.
    destruct (okD_compose pi' Hok) as [Hokb Hoka].
    apply (Ha s0 s1 _ _ R1 Hoka); rewrite Hlink; [exact (Sb s1 s2 pi' R2 Hokb Hv) | exact (Hb s1 s2 pi' rho' R2 Hokb Hv Hsub)].
  Qed.

  (* completeness composes, the bounds add; what stage a guarantees of its compiled plan must be what stage b asks
     of its source plan *)
  Theorem compose_complete :
    (forall x, st_okD a x -> st_okS b x) ->
    stage_complete a -> stage_noop a -> stage_complete b -> stage_complete (compose a b).
  Proof.
    intros Hok Ha Hna Hb s0 s2 pi [s1 [R1 R2]] HS Hv.
    destruct (Ha s0 s1 pi R1 HS Hv) as (pi1 & L1 & V1 & D1 & N1).
    rewrite Hlink in V1.
    assert (S1 : Forall (st_okS b) pi1) by (eapply Forall_impl; [exact Hok | exact D1]).
    destruct (Hb s1 s2 pi1 R2 S1 V1) as (pi2 & L2 & V2 & D2 & N2).
    exists pi2. split; [change (st_aux (compose a b)) with (st_aux a + st_aux b); unfold pplan, pstep in *; lia|]. split; [exact V2|].
    rewrite <- Hlink in N2.
    split.
    - apply compose_okD; [exact D2|]. exact (sne_Forall _ _ _ _ _ N2 D1).
    - rewrite compose_back. eapply sne_trans; [exact N1|]. rewrite <- Hlink in V1. exact (Hna s0 s1 pi1 _ R1 D1 V1 N2).
  Qed.

  Theorem compose_certified :
    (forall x, st_okD a x -> st_okS b x) -> certified a -> certified b -> certified (compose a b).
  Proof.
    intros Hok [Sa Ca Na] [Sb Cb Nb]. constructor;
      [apply compose_sound | apply compose_complete | apply compose_noop]; assumption.
  Qed.
End Compose.

(* ================================================================== 5. pipelines of any length *)
Lemma id_certified Q : certified (id_stage Q).
Proof.
  constructor.
  - intros s s' pi' HR _ Hv. cbn in HR. subst s'. cbn [id_stage st_back st_src]. rewrite pback_Some. exact Hv.
  - intros s s' pi HR _ Hv. cbn in HR. subst s'. exists pi. cbn [id_stage st_back st_src st_dst st_aux st_okD].
    split; [change (st_aux (id_stage Q)) with 0; unfold pplan, pstep in *; lia|]. split; [exact Hv|]. split; [apply Forall_forall; intros; exact I|].
    rewrite pback_Some. apply sne_valid_refl. exact Hv.
  - intros s s' pi' rho' HR _ _ Hsub. cbn in HR. subst s'. cbn [id_stage st_back st_src]. rewrite !pback_Some. exact Hsub.
Qed.

Lemma compose_all_dst l Q : st_dst (compose_all l Q) = Q.
Proof. induction l as [|a l IH]; [reflexivity|]. exact IH. Qed.

Lemma compose_all_src l Q : st_src (compose_all l Q) = match l with [] => Q | a :: _ => st_src a end.
Proof. destruct l; reflexivity. Qed.

Lemma compose_all_aux l Q : st_aux (compose_all l Q) = fold_right (fun a n => st_aux a + n) 0 l.
Proof. induction l as [|a l IH]; [reflexivity|]. cbn [compose_all fold_right compose st_aux]. f_equal. exact IH. Qed.

(* soundness of the pipeline: every stage sound, consecutive problems fit *)
Theorem pipeline_sound l Q : Forall stage_sound l -> linked l Q -> stage_sound (compose_all l Q).
Proof.
  induction l as [|a l IH]; intros Hs Hl; [apply id_certified|].
  inversion Hs; subst. destruct Hl as (Hd & _ & Hl). cbn [compose_all fold_right].
  apply compose_sound; [exact Hd | assumption | apply IH; assumption].
Qed.

Theorem pipeline_certified l Q : Forall certified l -> linked l Q -> certified (compose_all l Q).
Proof.
  induction l as [|a l IH]; intros Hs Hl; [apply id_certified|].
  inversion Hs; subst. destruct Hl as (Hd & Hok & Hl). cbn [compose_all fold_right].
  apply compose_certified; [exact Hd | exact Hok | assumption | apply IH; assumption].
Qed.

(* the map back of the composed stage is the one CompilersPipeline builds: the stages' functions in REVERSE order *)
Theorem pipeline_back_spec l Q x : st_back (compose_all l Q) x = pipeline_back l x.
Proof.
  unfold pipeline_back. revert x. induction l as [|a l IH]; intros x; [reflexivity|].
  cbn [compose_all fold_right compose st_back map rev]. rewrite mb_chain_app.
  change (fold_right compose (id_stage Q) l) with (compose_all l Q). rewrite IH.
  destruct (mb_chain (rev (map st_back l)) x) as [y|]; [|reflexivity].
  cbn [mb_chain]. destruct (st_back a y); reflexivity.
Qed.

(* ... and on plans: map back through the last stage first *)
Theorem pipeline_pback l (Q : problem) pi' :
  pback (pipeline_back l) pi' = fold_right (fun a rho => pback (st_back a) rho) pi' l.
Proof.
  rewrite <- (pback_ext _ _ pi' (pipeline_back_spec l Q)).
  induction l as [|a l IH]; [apply pback_Some|].
  cbn [compose_all fold_right]. rewrite compose_back. f_equal. exact IH.
Qed.

(* ================================================================== 6. the compilers of Layer A as stages *)
Lemma Forall_targets P pi : Forall (step_targets_total P) pi <-> plan_targets_total P pi.
Proof.
  unfold plan_targets_total, step_targets_total. rewrite Forall_forall. split.
  - intros H aid args a Hin EL. exact (H (aid, args) Hin a EL).
  - intros H [aid args] Hin a EL. exact (H aid args a Hin EL).
Qed.

Lemma map_actions_NoDup q l : NoDup (map fst l) -> NoDup (map fst (map_actions q l)).
Proof.
  induction l as [|[i a] l IH]; intros H; [constructor|]. cbn [map fst] in H. inversion H as [|? ? Hn Hr]; subst.
  unfold map_actions. cbn [flat_map fst snd]. destruct (q a) as [a'|]; cbn [app map fst]; [|apply IH; exact Hr].
  constructor; [|apply IH; exact Hr]. intros Hin. apply Hn. eapply map_actions_ids. exact Hin.
Qed.

Lemma quant_unique_ids smp P : unique_ids P -> unique_ids (quant_compile smp P).
Proof. unfold unique_ids. cbn [quant_compile p_actions]. apply map_actions_NoDup. Qed.

(* ---- QuantifiersRemover *)
Section QuantStage.
  Variable smp : expr -> expr.
  Hypothesis Hsmp : smp_exact smp.
  Variable P : problem.
  Variable tau : N -> N.
  Hypothesis Hu : unique_ids P.
  Hypothesis Hwf : problem_wf P tau = true.

  Lemma quant_stage_sound : stage_sound (quant_stage smp P).
  Proof.
    intros s s' pi' [<- Hb] Hok Hv. cbn [quant_stage st_back st_src st_dst] in *. rewrite pback_Some.
    apply (quant_sound smp Hsmp P tau Hu Hwf s pi' Hb); [apply Forall_targets; exact Hok | exact Hv].
  Qed.

  Lemma quant_stage_noop : stage_noop (quant_stage smp P).
  Proof.
    apply sim_noop.
    - intros s s' x' t' [<- Hb] Hok ER. cbn [quant_stage st_back st_src st_dst st_okD] in *.
      assert (Ht : plan_targets_total P [x']) by (apply Forall_targets; constructor; [exact Hok | constructor]).
      destruct (quant_run_sound smp Hsmp P tau Hu Hwf [x'] s t' Hb Ht ER) as [E Hb'].
      exists t'. split; [exact E | split; [reflexivity | exact Hb']].
    - intros s s' x' t t' [<- _] [<- _] H _. exact H.
  Qed.

  Lemma quant_stage_complete : no_action_dropped smp P -> stage_complete (quant_stage smp P).
  Proof.
    intros Hnd s s' pi [<- Hb] Hok Hv. cbn [quant_stage st_back st_src st_dst st_okD st_okS st_aux] in *.
    exists pi. split; [plia|].
    split; [apply (quant_complete smp Hsmp P tau Hu Hwf s pi Hnd Hb); [apply Forall_targets; exact Hok | exact Hv]|].
    split; [exact Hok|]. rewrite pback_Some. apply sne_valid_refl. exact Hv.
  Qed.

  Lemma quant_stage_certified : no_action_dropped smp P -> certified (quant_stage smp P).
  Proof.
    intros Hnd. constructor; [exact quant_stage_sound | exact (quant_stage_complete Hnd) | exact quant_stage_noop].
  Qed.
End QuantStage.

(* ---- ConditionalEffectsRemover *)
Section CerStage.
  Variable simp_pre : list expr -> option (list expr).
  Hypothesis Hsimp : simp_pre_ok simp_pre.
  Variable nm : N -> nat -> N.
  Variable P : problem.
  Hypothesis Hu : unique_ids P.
  Hypothesis Hu' : unique_ids (cer_compile simp_pre nm P).
  Variable G : state -> Prop.
  Hypothesis Gstep : forall s aid a args t, G s -> lookup_action P aid = Some a -> spec_step false P s a args = Some t -> G t.
  Hypothesis Hcond : forall s args i a, G s -> In (i, a) (p_actions P) ->
    Forall (cond_ok P s a args) (cond_effs (a_effs a)).

  Lemma cer_pback pi' : pback (cer_back simp_pre nm P) pi' = vt_map_back (cer_table simp_pre nm P) pi'.
  Proof. symmetry. apply vt_map_back_pback. Qed.

  Lemma cer_stage_sound : stage_sound (cer_stage simp_pre nm G P).
  Proof.
    intros s s' pi' [Hs HG] _ Hv. cbn [cer_stage st_back st_src st_dst] in *. rewrite cer_pback.
    apply (cer_sound simp_pre Hsimp nm P Hu Hu' G Gstep Hcond s pi' HG).
    rewrite (valid_plan_ext _ s s' pi' Hs). exact Hv.
  Qed.

  Lemma cer_stage_noop : stage_noop (cer_stage simp_pre nm G P).
  Proof.
    apply sim_noop.
    - intros s s' x' t' [Hs HG] _ ER. cbn [cer_stage st_back st_src st_dst] in *.
      destruct (lift_run_sound P (cer_compile simp_pre nm P) (cer_table simp_pre nm P) eq_refl eq_refl eq_refl eq_refl
                  eq_refl Hu' G Gstep (cer_Hsound simp_pre Hsimp nm P Hu G Hcond) [x'] s s' t' HG Hs ER)
        as (t & Et & Ht & HGt).
      exists t. split; [exact Et | split; assumption].
    - intros s s' x' t t' [Hs _] [Ht _] H _ f x. cbn in Hs, Ht. rewrite Hs, Ht. apply H.
  Qed.

  Lemma cer_stage_complete :
    (forall s args i a, G s -> In (i, a) (p_actions P) ->
       add_effs_ok [] [] (a_effs (ce_variant a (the_sel P s a args))) = false -> applicable P s a args = false) ->
    stage_complete (cer_stage simp_pre nm G P).
  Proof.
    intros Hconf s s' pi [Hs HG] _ Hv. cbn [cer_stage st_back st_src st_dst st_okD st_aux] in *.
    destruct (cer_complete simp_pre Hsimp nm P Hu' G Gstep Hcond Hconf s pi HG Hv) as (pi' & V & L & S).
    exists pi'. split; [plia|]. split; [rewrite <- (valid_plan_ext _ s s' pi' Hs); exact V|].
    split; [apply Forall_forall; intros; exact I|]. rewrite cer_pback. exact S.
  Qed.

  Lemma cer_stage_certified :
    (forall s args i a, G s -> In (i, a) (p_actions P) ->
       add_effs_ok [] [] (a_effs (ce_variant a (the_sel P s a args))) = false -> applicable P s a args = false) ->
    certified (cer_stage simp_pre nm G P).
  Proof.
    intros Hconf. constructor; [exact cer_stage_sound | exact (cer_stage_complete Hconf) | exact cer_stage_noop].
  Qed.
End CerStage.

(* ---- CompilersPipeline([QuantifiersRemover(), ConditionalEffectsRemover()]) *)
Section QuantCer.
  Variable smp : expr -> expr.
  Hypothesis Hsmp : smp_exact smp.
  Variable simp_pre : list expr -> option (list expr).
  Hypothesis Hsimp : simp_pre_ok simp_pre.
  Variable nm : N -> nat -> N.
  Variable P : problem.
  Variable tau : N -> N.
  Hypothesis Hu : unique_ids P.
  Hypothesis Hwf : problem_wf P tau = true.
  Let P1 := qc_mid smp P.
  Let P2 := qc_dst smp simp_pre nm P.
  Hypothesis Hu2 : unique_ids P2.
  (* the set of states on which C37's hypotheses hold for the INTERMEDIATE problem (the quantifier-free one) *)
  Variable G : state -> Prop.
  Hypothesis Gstep : forall s aid a args t, G s -> lookup_action P1 aid = Some a -> spec_step false P1 s a args = Some t -> G t.
  Hypothesis Hcond : forall s args i a, G s -> In (i, a) (p_actions P1) ->
    Forall (cond_ok P1 s a args) (cond_effs (a_effs a)).
  Let l := qc_stages smp simp_pre nm G P.

  Lemma qc_linked : linked l P2.
  Proof. cbn. repeat split; auto. Qed.

  (* the pipeline's map back: only the second stage renames *)
  Lemma qc_pback pi' : pback (pipeline_back l) pi' = vt_map_back (cer_table simp_pre nm P1) pi'.
  Proof.
    rewrite (pipeline_pback l P2). unfold l, qc_stages. cbn [fold_right quant_stage cer_stage st_back].
    rewrite pback_Some. symmetry. apply vt_map_back_pback.
  Qed.

  Lemma qc_okD pi' : plan_targets_total P (vt_map_back (cer_table simp_pre nm P1) pi') ->
    Forall (st_okD (compose_all l P2)) pi'.
  Proof.
    intros H. apply Forall_targets in H. rewrite vt_map_back_pback in H. apply Forall_pback in H.
    eapply Forall_impl; [|exact H]. intros x Hx. cbn. repeat split; auto.
  Qed.

  Lemma qc_rel s0 : bool_state P s0 -> G s0 -> st_rel (compose_all l P2) s0 s0.
  Proof.
    intros Hb HG. exists s0. split; [split; [reflexivity | exact Hb]|].
    exists s0. split; [split; [intros f x; reflexivity | exact HG] | reflexivity].
  Qed.

  Theorem pipe_quant_cer_sound s0 pi' : bool_state P s0 -> G s0 ->
    plan_targets_total P (pback (pipeline_back l) pi') ->
    valid_plan false P2 s0 pi' = true -> valid_plan false P s0 (pback (pipeline_back l) pi') = true.
  Proof.
    intros Hb HG Ht Hv.
    assert (Hs : Forall stage_sound l).
    { constructor; [exact (quant_stage_sound smp Hsmp P tau Hu Hwf)|]. constructor; [|constructor].
      exact (cer_stage_sound simp_pre Hsimp nm P1 (quant_unique_ids smp P Hu) Hu2 G Gstep Hcond). }
    rewrite qc_pback in Ht.
    pose proof (pipeline_sound l P2 Hs qc_linked s0 s0 pi' (qc_rel s0 Hb HG) (qc_okD pi' Ht)) as H.
    rewrite (pback_ext _ _ pi' (pipeline_back_spec l P2)) in H. apply H. exact Hv.
  Qed.

  Hypothesis Hnd : no_action_dropped smp P.
  Hypothesis Hconf : forall s args i a, G s -> In (i, a) (p_actions P1) ->
    add_effs_ok [] [] (a_effs (ce_variant a (the_sel P1 s a args))) = false -> applicable P1 s a args = false.

  Lemma qc_certified : certified (compose_all l P2).
  Proof.
    apply pipeline_certified; [|exact qc_linked].
    constructor; [exact (quant_stage_certified smp Hsmp P tau Hu Hwf Hnd)|]. constructor; [|constructor].
    exact (cer_stage_certified simp_pre Hsimp nm P1 (quant_unique_ids smp P Hu) Hu2 G Gstep Hcond Hconf).
  Qed.

  Theorem pipe_quant_cer_complete s0 pi : bool_state P s0 -> G s0 -> plan_targets_total P pi ->
    valid_plan false P s0 pi = true ->
    exists pi', length pi' <= length pi /\ valid_plan false P2 s0 pi' = true /\
                sub_noop_eq P s0 pi (pback (pipeline_back l) pi').
  Proof.
    intros Hb HG Ht Hv. apply Forall_targets in Ht.
    destruct (cs_complete _ qc_certified s0 s0 pi (qc_rel s0 Hb HG) Ht Hv) as (pi' & L & V & _ & S).
    exists pi'. split; [cbn in L; plia|]. split; [exact V|].
    rewrite (pback_ext _ _ pi' (pipeline_back_spec l P2)) in S. exact S.
  Qed.
End QuantCer.

(* ---- Grounder *)
Section GroundStage.
  Variable smp : expr -> expr.
  Variable tuples : N -> list (list value).
  Variable nm : N -> nat -> N.
  Variable P : problem.
  Variable G : state -> Prop.
  Hypothesis Hsmp : smp_exact_on P G smp.
  Hypothesis Hu : unique_ids P.
  Hypothesis Hu' : unique_ids (ground_compile smp tuples nm P).
  Hypothesis Gstep : forall s aid a args t, G s -> lookup_action P aid = Some a -> spec_step false P s a args = Some t -> G t.
  Hypothesis Hinst : instances_ok smp tuples P.

  Lemma ground_pback pi' : pback (ground_back smp tuples nm P) pi' = gt_map_back (ground_table smp tuples nm P) pi'.
  Proof. induction pi' as [|x pi' IH]; [reflexivity|]. rewrite pback_cons, IH. reflexivity. Qed.

  Lemma ground_run_G pi : forall s t, G s -> run P (spec_step false P) s pi = Some t -> G t.
  Proof.
    induction pi as [|[aid args] pi IH]; intros s t HG; cbn [run]; [intros E; inversion E; subst; exact HG|].
    destruct (lookup_action P aid) as [a|] eqn:EL; [|discriminate].
    destruct (spec_step false P s a args) as [m|] eqn:ES; [|discriminate]. apply IH. eapply Gstep; eassumption.
  Qed.

  Lemma ground_stage_sound : stage_sound (ground_stage smp tuples nm G P).
  Proof.
    intros s s' pi' [<- HG] _ Hv. cbn [ground_stage st_back st_src st_dst] in *. rewrite ground_pback.
    exact (ground_sound smp tuples nm P G Hsmp Hu Hu' Gstep Hinst s pi' HG Hv).
  Qed.

  Lemma ground_stage_noop : stage_noop (ground_stage smp tuples nm G P).
  Proof.
    apply sim_noop.
    - intros s s' x' t' [<- HG] _ ER. cbn [ground_stage st_back st_src st_dst] in *.
      pose proof (ground_run_sound smp tuples nm P G Hsmp Hu Hu' Gstep Hinst [x'] s t' HG ER) as E.
      exists t'. split; [exact E|]. split; [reflexivity|]. eapply ground_run_G; [exact HG | exact E].
    - intros s s' x' t t' [<- _] [<- _] H _. exact H.
  Qed.

  Lemma ground_stage_complete :
    (forall s i a args, G s -> In (i, a) (p_actions P) -> In args (tuples i) ->
       add_effs_ok [] [] (g_effects smp (zip_params (a_params a) args) (a_effs a)) = false ->
       spec_step false P s a args = None) ->
    stage_complete (ground_stage smp tuples nm G P).
  Proof.
    intros Hconf s s' pi [<- HG] Hok Hv. cbn [ground_stage st_back st_src st_dst st_okD st_okS st_aux] in *.
    assert (Hin : plan_in_tuples tuples pi).
    { intros i args H. rewrite Forall_forall in Hok. exact (Hok (i, args) H). }
    destruct (ground_complete smp tuples nm P G Hsmp Hu' Gstep Hinst Hconf s pi HG Hin Hv) as (pi' & V & E).
    exists pi'. split; [rewrite <- E; unfold gt_map_back; rewrite map_length; plia|]. split; [exact V|].
    split; [apply Forall_forall; intros; exact I|]. rewrite ground_pback, E. apply sne_valid_refl. exact Hv.
  Qed.

  Lemma ground_stage_certified :
    (forall s i a args, G s -> In (i, a) (p_actions P) -> In args (tuples i) ->
       add_effs_ok [] [] (g_effects smp (zip_params (a_params a) args) (a_effs a)) = false ->
       spec_step false P s a args = None) ->
    certified (ground_stage smp tuples nm G P).
  Proof.
    intros Hconf. constructor; [exact ground_stage_sound | exact (ground_stage_complete Hconf) | exact ground_stage_noop].
  Qed.
End GroundStage.

(* ---- CompilersPipeline([Grounder(), ConditionalEffectsRemover()]) *)
Section GroundCer.
  Variable smp : expr -> expr.
  Variable tuples : N -> list (list value).
  Variable gnm : N -> nat -> N.
  Variable P : problem.
  Variable G1 : state -> Prop.
  Hypothesis Hsmp : smp_exact_on P G1 smp.
  Hypothesis Hu : unique_ids P.
  Let P1 := ground_compile smp tuples gnm P.
  Hypothesis Hu1 : unique_ids P1.
  Hypothesis Gstep1 : forall s aid a args t, G1 s -> lookup_action P aid = Some a -> spec_step false P s a args = Some t -> G1 t.
  Hypothesis Hinst : instances_ok smp tuples P.
  Variable simp_pre : list expr -> option (list expr).
  Hypothesis Hsimp : simp_pre_ok simp_pre.
  Variable nm : N -> nat -> N.
  Let P2 := cer_compile simp_pre nm P1.
  Hypothesis Hu2 : unique_ids P2.
  Variable G2 : state -> Prop.
  Hypothesis Gstep2 : forall s aid a args t, G2 s -> lookup_action P1 aid = Some a -> spec_step false P1 s a args = Some t -> G2 t.
  Hypothesis Hcond : forall s args i a, G2 s -> In (i, a) (p_actions P1) ->
    Forall (cond_ok P1 s a args) (cond_effs (a_effs a)).
  Let l := gc_stages smp tuples gnm G1 simp_pre nm G2 P.

  Lemma gc_linked : linked l P2.
  Proof. cbn. repeat split; auto. Qed.

  Lemma gc_pback pi' : pback (pipeline_back l) pi' =
    gt_map_back (ground_table smp tuples gnm P) (vt_map_back (cer_table simp_pre nm P1) pi').
  Proof.
    rewrite (pipeline_pback l P2). unfold l, gc_stages. cbn [fold_right ground_stage cer_stage st_back].
    rewrite ground_pback, cer_pback. reflexivity.
  Qed.

  Lemma gc_okD pi' : Forall (st_okD (compose_all l P2)) pi'.
  Proof. apply Forall_forall. intros x _. cbn. repeat split; auto. Qed.

  Lemma gc_rel s0 : G1 s0 -> G2 s0 -> st_rel (compose_all l P2) s0 s0.
  Proof.
    intros H1 H2. exists s0. split; [split; [reflexivity | exact H1]|].
    exists s0. split; [split; [intros f x; reflexivity | exact H2] | reflexivity].
  Qed.

  Theorem pipe_ground_cer_sound s0 pi' : G1 s0 -> G2 s0 ->
    valid_plan false P2 s0 pi' = true -> valid_plan false P s0 (pback (pipeline_back l) pi') = true.
  Proof.
    intros H1 H2 Hv.
    assert (Hs : Forall stage_sound l).
    { constructor; [exact (ground_stage_sound smp tuples gnm P G1 Hsmp Hu Hu1 Gstep1 Hinst)|]. constructor; [|constructor].
      exact (cer_stage_sound simp_pre Hsimp nm P1 Hu1 Hu2 G2 Gstep2 Hcond). }
    pose proof (pipeline_sound l P2 Hs gc_linked s0 s0 pi' (gc_rel s0 H1 H2) (gc_okD pi')) as H.
    rewrite (pback_ext _ _ pi' (pipeline_back_spec l P2)) in H. apply H. exact Hv.
  Qed.

  Hypothesis Hconf1 : forall s i a args, G1 s -> In (i, a) (p_actions P) -> In args (tuples i) ->
    add_effs_ok [] [] (g_effects smp (zip_params (a_params a) args) (a_effs a)) = false ->
    spec_step false P s a args = None.
  Hypothesis Hconf2 : forall s args i a, G2 s -> In (i, a) (p_actions P1) ->
    add_effs_ok [] [] (a_effs (ce_variant a (the_sel P1 s a args))) = false -> applicable P1 s a args = false.

  Theorem pipe_ground_cer_complete s0 pi : G1 s0 -> G2 s0 -> plan_in_tuples tuples pi ->
    valid_plan false P s0 pi = true ->
    exists pi', length pi' <= length pi /\ valid_plan false P2 s0 pi' = true /\
                sub_noop_eq P s0 pi (pback (pipeline_back l) pi').
  Proof.
    intros H1 H2 Hin Hv.
    assert (Hc : certified (compose_all l P2)).
    { apply pipeline_certified; [|exact gc_linked].
      constructor; [exact (ground_stage_certified smp tuples gnm P G1 Hsmp Hu Hu1 Gstep1 Hinst Hconf1)|].
      constructor; [|constructor].
      exact (cer_stage_certified simp_pre Hsimp nm P1 Hu1 Hu2 G2 Gstep2 Hcond Hconf2). }
    assert (Hok : Forall (st_okS (compose_all l P2)) pi).
    { apply Forall_forall. intros [i args] Hx. exact (Hin i args Hx). }
    destruct (cs_complete _ Hc s0 s0 pi (gc_rel s0 H1 H2) Hok Hv) as (pi' & L & V & _ & S).
    exists pi'. split; [cbn in L; plia|]. split; [exact V|].
    rewrite (pback_ext _ _ pi' (pipeline_back_spec l P2)) in S. exact S.
  Qed.
End GroundCer.

(* ================================================================== 7. further stages (third round) *)
(* a step changes only fluents that some effect of the action targets *)
Lemma collect_res_In' L : forall acts x, collect_res L = Some acts -> In x acts -> In (EAct x) L.
Proof.
  induction L as [|[| |y] L IH]; intros acts x; cbn [collect_res].
  - intros E. inversion E; subst. intros [].
  - discriminate.
  - intros E Hx. right. eapply IH; eassumption.
  - destruct (collect_res L) as [l|]; [|discriminate]. intros E. inversion E; subst. intros [->|Hx].
    + left; reflexivity.
    + right. eapply IH; [reflexivity | exact Hx].
Qed.

Lemma filter_other_key g x (h : aeff -> bool) acts : (forall a, In a acts -> fst (ae_key a) <> g) ->
  filter (fun a => gfl_eqb (ae_key a) (g, x) && h a) acts = [].
Proof.
  intros H. induction acts as [|a acts IH]; [reflexivity|]. cbn [filter].
  assert (E : gfl_eqb (ae_key a) (g, x) = false).
  { unfold gfl_eqb. cbn [fst snd]. replace (fst (ae_key a) =? g)%N with false; [reflexivity|].
    symmetry. apply N.eqb_neq. apply H. left; reflexivity. }
  rewrite E. cbn. apply IH. intros y Hy. apply H. right; exact Hy.
Qed.

Lemma step_untouched P s a args t g : spec_step false P s a args = Some t ->
  (forall e, In e (a_effs a) -> e_fl e <> g) -> forall x, t g x = s g x.
Proof.
  rewrite spec_step_eq. destruct (negb _); [discriminate|].
  destruct (fired false (mk_interp P s (zip_params (a_params a) args)) (a_effs a)) as [acts|] eqn:EF; [|discriminate].
  destruct (negb _); [discriminate|]. destruct (invariants_ok _ _ _); [|discriminate].
  intros E Hne x. inversion E; subst t. clear E.
  assert (Hk : forall y, In y acts -> fst (ae_key y) <> g).
  { intros y Hy. unfold fired in EF. pose proof (collect_res_In' _ _ _ EF Hy) as Hin.
    apply in_flat_map in Hin. destruct Hin as [e [He Hin]]. apply in_map_iff in Hin. destruct Hin as [J [EJ _]].
    unfold eval_effect in EJ. destruct (evals_l false J (e_args e)) as [vs|]; [|discriminate].
    destruct (eval false (e_cond e) J) as [[[|]| |]|]; try discriminate.
    destruct (eval false (e_val e) J); [|discriminate]. inversion EJ; subst y. cbn [ae_key fst]. apply Hne. exact He. }
  unfold spec_succ, spec_fluent, avals, deltas. cbn [fst snd].
  rewrite !(filter_other_key g x _ acts Hk). reflexivity.
Qed.

(* ---- NegativeConditionsRemover *)
Section NcrStage.
  Variable nmap : list (N * N).
  Variables rw smp : expr -> expr.
  Variable P : problem.
  Hypothesis H1 : nmap_ok nmap P = true.
  Hypothesis H2 : problem_clean nmap P = true.
  Hypothesis H3 : ncr_safe nmap P = true.
  Hypothesis H4 : rw_ok nmap rw P.
  Hypothesis H5 : smp_exact smp.

  Lemma ncr_stage_sound : stage_sound (ncr_stage nmap rw smp P).
  Proof.
    intros s s' pi' HR _ Hv. cbn [ncr_stage st_back st_src st_dst st_rel] in *. rewrite pback_Some.
    rewrite <- (neg_valid_plan_safe nmap rw smp P H1 H2 H3 H4 H5 s s' pi' HR). exact Hv.
  Qed.

  Lemma ncr_stage_complete : stage_complete (ncr_stage nmap rw smp P).
  Proof.
    intros s s' pi HR _ Hv. cbn [ncr_stage st_back st_src st_dst st_rel st_aux st_okD] in *. exists pi.
    split; [plia|]. split; [rewrite (neg_valid_plan_safe nmap rw smp P H1 H2 H3 H4 H5 s s' pi HR); exact Hv|].
    split; [apply Forall_forall; intros; exact I|]. rewrite pback_Some. apply sne_valid_refl. exact Hv.
  Qed.

  Lemma clean_targets aid a g : lookup_action P aid = Some a -> is_negb nmap g = true ->
    forall e, In e (a_effs a) -> e_fl e <> g.
  Proof.
    intros EL Hg e He Heq. subst g. apply lookupN_In in EL.
    unfold problem_clean in H2. nfsplit.
    match goal with Hq : forallb _ (p_actions P) = true |- _ => rewrite forallb_forall in Hq; specialize (Hq _ EL); cbn [snd] in Hq end.
    nfsplit. match goal with Hq : forallb (effect_clean nmap) _ = true |- _ => rewrite forallb_forall in Hq; specialize (Hq e He) end.
    unfold effect_clean in *. nfsplit.
    match goal with Hn : negb (is_negb nmap (e_fl e)) = true |- _ => rewrite Hg in Hn; discriminate end.
  Qed.

  Lemma ncr_stage_noop : stage_noop (ncr_stage nmap rw smp P).
  Proof.
    apply sim_noop.
    - intros s s' x' t' HR _ ER. cbn [ncr_stage st_back st_src st_dst st_rel] in *.
      pose proof (neg_run_safe nmap rw smp P H1 H2 H3 H4 H5 [x'] s s' HR) as Hx. rewrite ER in Hx.
      unfold ostep. destruct (run P (spec_step false P) s [x']) as [t|]; [|destruct Hx].
      exists t. split; [reflexivity | exact Hx].
    - intros s s' [aid args] t t' HR HRt Hs' ER g x. cbn [ncr_stage st_back st_src st_dst st_rel] in *.
      unfold ostep in ER. rewrite run_single in ER.
      destruct (lookup_action P aid) as [a|] eqn:EL; [|discriminate].
      destruct (is_negb nmap g) eqn:Eg.
      + symmetry. apply (step_untouched P s a args t g ER (clean_targets aid a g EL Eg)).
      + destruct HR as [Ra _], HRt as [Rb _]. rewrite <- (Ra g x Eg), <- (Rb g x Eg). apply Hs'.
  Qed.

  Lemma ncr_stage_certified : certified (ncr_stage nmap rw smp P).
  Proof. constructor; [exact ncr_stage_sound | exact ncr_stage_complete | exact ncr_stage_noop]. Qed.
End NcrStage.

(* ---- CompilersPipeline([QuantifiersRemover(), NegativeConditionsRemover()]) *)
Section QuantNcr.
  Variable smp : expr -> expr.
  Hypothesis Hsmp : smp_exact smp.
  Variable P : problem.
  Variable tau : N -> N.
  Hypothesis Hu : unique_ids P.
  Hypothesis Hwf : problem_wf P tau = true.
  Let P1 := quant_compile smp P.
  Variable nmap : list (N * N).
  Variables rw smp2 : expr -> expr.
  (* the NegativeConditionsRemover hypotheses are about the INTERMEDIATE (quantifier-free) problem *)
  Hypothesis H1 : nmap_ok nmap P1 = true.
  Hypothesis H2 : problem_clean nmap P1 = true.
  Hypothesis H3 : ncr_safe nmap P1 = true.
  Hypothesis H4 : rw_ok nmap rw P1.
  Hypothesis H5 : smp_exact smp2.
  Let P2 := neg_compile nmap rw smp2 P1.
  Let l := qn_stages smp nmap rw smp2 P.

  Lemma qn_linked : linked l P2.
  Proof. cbn. repeat split; auto. Qed.

  Lemma qn_pback pi' : pback (pipeline_back l) pi' = pi'.
  Proof.
    rewrite (pipeline_pback l P2). unfold l, qn_stages. cbn [fold_right quant_stage ncr_stage st_back].
    rewrite !pback_Some. reflexivity.
  Qed.

  Lemma qn_okD pi' : plan_targets_total P pi' -> Forall (st_okD (compose_all l P2)) pi'.
  Proof.
    intros H. apply Forall_targets in H. eapply Forall_impl; [|exact H]. intros x Hx. cbn. repeat split; auto.
  Qed.

  Lemma qn_rel s0 s0' : bool_state P s0 -> neg_rel nmap s0 s0' -> st_rel (compose_all l P2) s0 s0'.
  Proof.
    intros Hb HR. exists s0. split; [split; [reflexivity | exact Hb]|]. exists s0'. split; [exact HR | reflexivity].
  Qed.

  Theorem pipe_quant_ncr_sound s0 s0' pi' : bool_state P s0 -> neg_rel nmap s0 s0' -> plan_targets_total P pi' ->
    valid_plan false P2 s0' pi' = true -> valid_plan false P s0 (pback (pipeline_back l) pi') = true.
  Proof.
    intros Hb HR Ht Hv.
    assert (Hs : Forall stage_sound l).
    { constructor; [exact (quant_stage_sound smp Hsmp P tau Hu Hwf)|]. constructor; [|constructor].
      exact (ncr_stage_sound nmap rw smp2 P1 H1 H2 H3 H4 H5). }
    pose proof (pipeline_sound l P2 Hs qn_linked s0 s0' pi' (qn_rel s0 s0' Hb HR) (qn_okD pi' Ht)) as H.
    rewrite (pback_ext _ _ pi' (pipeline_back_spec l P2)) in H. apply H. exact Hv.
  Qed.

  Hypothesis Hnd : no_action_dropped smp P.

  Theorem pipe_quant_ncr_complete s0 s0' pi : bool_state P s0 -> neg_rel nmap s0 s0' -> plan_targets_total P pi ->
    valid_plan false P s0 pi = true ->
    exists pi', length pi' <= length pi /\ valid_plan false P2 s0' pi' = true /\
                sub_noop_eq P s0 pi (pback (pipeline_back l) pi').
  Proof.
    intros Hb HR Ht Hv. apply Forall_targets in Ht.
    assert (Hc : certified (compose_all l P2)).
    { apply pipeline_certified; [|exact qn_linked].
      constructor; [exact (quant_stage_certified smp Hsmp P tau Hu Hwf Hnd)|]. constructor; [|constructor].
      exact (ncr_stage_certified nmap rw smp2 P1 H1 H2 H3 H4 H5). }
    destruct (cs_complete _ Hc s0 s0' pi (qn_rel s0 s0' Hb HR) Ht Hv) as (pi' & L & V & _ & S).
    exists pi'. split; [cbn in L; plia|]. split; [exact V|].
    rewrite (pback_ext _ _ pi' (pipeline_back_spec l P2)) in S. exact S.
  Qed.
End QuantNcr.

(* ---- the compilers that move constraints into preconditions and goals (BoundedTypesRemover, StateInvariantsRemover):
   they do NOT simulate the source problem step by step (the constraints are checked before a step instead of after
   it), but along a VALID compiled plan every state satisfies the moved constraints, which is what stage_noop asks *)
Section InvNoop.
  Variable smp : expr -> expr.
  Hypothesis Hsmp : smp_holds smp.
  Variables P P' : problem.
  Variable cond : expr.
  Variable M : list expr.
  Hypothesis Hobj : p_objs P' = p_objs P.
  Hypothesis Hif : p_ifun P' = p_ifun P.
  Hypothesis Hbf : forall f, is_bool_fluent P' f = is_bool_fluent P f.
  Hypothesis Hact : p_actions P' = map_actions (inv_action smp cond) (p_actions P).
  Hypothesis Hgoal : p_goals P' = inv_goals smp cond (p_goals P).
  Hypothesis Hinv : forall s, invariants_ok false P s = invariants_ok false P' s && moved_ok P M s.
  Hypothesis Hcond : forall s pars, holds false (mk_interp P s pars) cond = moved_ok P M s.
  Hypothesis Hu : unique_ids P.

  Lemma moved_ok_ext s t : state_eq s t -> moved_ok P M s = moved_ok P M t.
  Proof. intros H. unfold moved_ok. apply all_hold_ext, mk_interp_ext, H. Qed.

  Lemma inv_step s s' a a' args t' : state_eq s s' -> inv_action smp cond a = Some a' ->
    spec_step false P' s' a' args = Some t' -> moved_ok P M t' = true ->
    exists t, spec_step false P s a args = Some t /\ state_eq t t'.
  Proof.
    intros Hs EA ES Hm. destruct (inv_action_shape smp cond a a' EA) as [Ep Ee].
    rewrite spec_step_eq in ES. rewrite spec_step_eq. rewrite Ep, Ee in ES.
    set (pars := zip_params (a_params a) args) in *.
    rewrite (all_hold_ext false _ _ _ (interp_same P P' Hobj Hif s s' pars Hs)),
            (fired_ext false _ _ _ (interp_same P P' Hobj Hif s s' pars Hs)) in ES.
    rewrite (inv_action_pre smp Hsmp P cond M Hcond s pars a a' EA) in ES.
    destruct (all_hold false (mk_interp P s pars) (a_pre a)); cbn [andb negb] in *; [|discriminate].
    destruct (moved_ok P M s); cbn [negb] in ES; [|discriminate].
    destruct (fired false (mk_interp P s pars) (a_effs a)) as [acts|]; [|discriminate].
    rewrite (effects_ok_same P P' Hbf s s' acts Hs) in ES.
    destruct (spec_effects_ok P s acts); cbn [negb] in *; [|discriminate].
    pose proof (succ_same P P' Hbf s s' acts Hs) as Hss.
    rewrite (invok_same P' _ _ Hss) in ES.
    destruct (invariants_ok false P' (spec_succ P s acts)) eqn:EI; [|discriminate]. inversion ES; subst t'.
    rewrite (Hinv (spec_succ P s acts)), EI, (moved_ok_ext _ _ Hss), Hm. cbn.
    exists (spec_succ P s acts). split; [reflexivity | exact Hss].
  Qed.

  Lemma inv_noop : forall s' pi rho, sub_noop_eq P' s' pi rho ->
    forall s, state_eq s s' -> valid_plan false P' s' pi = true -> sub_noop_eq P s pi rho.
  Proof.
    pose proof (inv_valid_plan smp Hsmp P P' cond M Hobj Hif Hbf Hact Hgoal Hinv Hcond Hu) as VP.
    induction 1 as [s' | s' aid args a' t' pi rho EL ES _ IH | s' aid args a' t' pi rho EL ES Hno _ IH];
      intros s Hs Hv; [constructor| |].
    - assert (Hv' : valid_plan false P' t' pi = true)
        by (unfold valid_plan in Hv |- *; cbn [run] in Hv; rewrite EL, ES in Hv; exact Hv).
      assert (Hm : moved_ok P M t' = true)
        by (rewrite (VP pi t' t' (state_eq_refl t')) in Hv'; apply andb_true_iff in Hv'; tauto).
      unfold lookup_action in EL. rewrite Hact, (lookup_map_actions _ _ _ Hu) in EL. fold (lookup_action P aid) in EL.
      destruct (lookup_action P aid) as [a|] eqn:ELo; [|discriminate].
      destruct (inv_step s s' a a' args t' Hs EL ES Hm) as [t [Et Ht]].
      eapply sne_keep; [exact ELo | exact Et | apply IH; assumption].
    - assert (Hv' : valid_plan false P' t' pi = true)
        by (unfold valid_plan in Hv |- *; cbn [run] in Hv; rewrite EL, ES in Hv; exact Hv).
      assert (Hm : moved_ok P M t' = true)
        by (rewrite (VP pi t' t' (state_eq_refl t')) in Hv'; apply andb_true_iff in Hv'; tauto).
      unfold lookup_action in EL. rewrite Hact, (lookup_map_actions _ _ _ Hu) in EL. fold (lookup_action P aid) in EL.
      destruct (lookup_action P aid) as [a|] eqn:ELo; [|discriminate].
      destruct (inv_step s s' a a' args t' Hs EL ES Hm) as [t [Et Ht]].
      eapply sne_drop; [exact ELo | exact Et | | apply IH; assumption].
      intros f x. rewrite (Ht f x), (Hno f x). symmetry. apply Hs.
  Qed.
End InvNoop.

(* ---- BoundedTypesRemover *)
Section BtrStage.
  Variable smp : expr -> expr.
  Hypothesis Hsmp : smp_holds smp.
  Variable P : problem.
  Hypothesis Hu : unique_ids P.

  Lemma btr_stage_sound : stage_sound (btr_stage smp P).
  Proof.
    intros s s' pi' [<- _] _ Hv. cbn [btr_stage st_back st_src st_dst] in *. rewrite pback_Some.
    exact (btr_sound smp Hsmp P Hu s pi' Hv).
  Qed.

  Lemma btr_stage_complete : stage_complete (btr_stage smp P).
  Proof.
    intros s s' pi [<- Hb] _ Hv. cbn [btr_stage st_back st_src st_dst st_aux st_okD] in *. exists pi.
    split; [plia|]. split; [exact (btr_complete smp Hsmp P Hu s pi Hb Hv)|].
    split; [apply Forall_forall; intros; exact I|]. rewrite pback_Some. apply sne_valid_refl. exact Hv.
  Qed.

  Lemma btr_stage_noop : stage_noop (btr_stage smp P).
  Proof.
    intros s s' pi' rho' [<- _] _ Hv Hsub. cbn [btr_stage st_back st_src st_dst] in *. rewrite !pback_Some.
    apply (inv_noop smp Hsmp P (btr_compile smp P) (btr_cond P) (bound_invs P)) with (s' := s); try reflexivity; try assumption.
    - intros f. unfold is_bool_fluent. apply is_bool_fluent_unbound.
    - exact (btr_inv smp P).
    - exact (btr_cond_ok P).
    - apply state_eq_refl.
  Qed.

  Lemma btr_stage_certified : certified (btr_stage smp P).
  Proof. constructor; [exact btr_stage_sound | exact btr_stage_complete | exact btr_stage_noop]. Qed.
End BtrStage.

(* ---- StateInvariantsRemover *)
Section SirStage.
  Variable smp : expr -> expr.
  Hypothesis Hsmp : smp_holds smp.
  Variable P : problem.
  Hypothesis Hu : unique_ids P.
  Hypothesis Hclosed : Forall (closed_cond P) (p_invs P).

  Lemma sir_stage_sound : stage_sound (sir_stage smp P).
  Proof.
    intros s s' pi' [<- _] _ Hv. cbn [sir_stage st_back st_src st_dst] in *. rewrite pback_Some.
    exact (sir_sound smp Hsmp P Hu Hclosed s pi' Hv).
  Qed.

  Lemma sir_stage_complete : stage_complete (sir_stage smp P).
  Proof.
    intros s s' pi [<- Hb] _ Hv. cbn [sir_stage st_back st_src st_dst st_aux st_okD] in *. exists pi.
    split; [plia|]. split; [exact (sir_complete smp Hsmp P Hu Hclosed s pi Hb Hv)|].
    split; [apply Forall_forall; intros; exact I|]. rewrite pback_Some. apply sne_valid_refl. exact Hv.
  Qed.

  Lemma sir_stage_noop : stage_noop (sir_stage smp P).
  Proof.
    intros s s' pi' rho' [<- _] _ Hv Hsub. cbn [sir_stage st_back st_src st_dst] in *. rewrite !pback_Some.
    apply (inv_noop smp Hsmp P (sir_compile smp P) (sir_cond smp P) (p_invs P)) with (s' := s); try reflexivity; try assumption.
    - exact (sir_inv smp P).
    - exact (sir_cond_ok smp Hsmp P Hclosed).
    - apply state_eq_refl.
  Qed.

  Lemma sir_stage_certified : certified (sir_stage smp P).
  Proof. constructor; [exact sir_stage_sound | exact sir_stage_complete | exact sir_stage_noop]. Qed.
End SirStage.

(* ---- CompilersPipeline([BoundedTypesRemover(), ConditionalEffectsRemover()]) *)
Section BtrCer.
  Variable smp : expr -> expr.
  Hypothesis Hsmp : smp_holds smp.
  Variable P : problem.
  Hypothesis Hu : unique_ids P.
  Let P1 := btr_compile smp P.
  Hypothesis Hu1 : unique_ids P1.
  Variable simp_pre : list expr -> option (list expr).
  Hypothesis Hsimp : simp_pre_ok simp_pre.
  Variable nm : N -> nat -> N.
  Let P2 := cer_compile simp_pre nm P1.
  Hypothesis Hu2 : unique_ids P2.
  Variable G : state -> Prop.
  Hypothesis Gstep : forall s aid a args t, G s -> lookup_action P1 aid = Some a -> spec_step false P1 s a args = Some t -> G t.
  Hypothesis Hcond : forall s args i a, G s -> In (i, a) (p_actions P1) ->
    Forall (cond_ok P1 s a args) (cond_effs (a_effs a)).
  Let l := bc_stages smp simp_pre nm G P.

  Lemma bc_linked : linked l P2.
  Proof. cbn. repeat split; auto. Qed.

  Lemma bc_pback pi' : pback (pipeline_back l) pi' = vt_map_back (cer_table simp_pre nm P1) pi'.
  Proof.
    rewrite (pipeline_pback l P2). unfold l, bc_stages. cbn [fold_right btr_stage cer_stage st_back].
    rewrite pback_Some. symmetry. apply vt_map_back_pback.
  Qed.

  Lemma bc_okD pi' : Forall (st_okD (compose_all l P2)) pi'.
  Proof. apply Forall_forall. intros x _. cbn. repeat split; auto. Qed.

  Lemma bc_rel s0 : all_hold false (mk_interp P s0 []) (bound_invs P) = true -> G s0 -> st_rel (compose_all l P2) s0 s0.
  Proof.
    intros Hb HG. exists s0. split; [split; [reflexivity | exact Hb]|].
    exists s0. split; [split; [intros f x; reflexivity | exact HG] | reflexivity].
  Qed.

  (* soundness: the initial-state condition of the stage relation is not needed (BoundedTypesRemover is sound from any
     state), so it is discharged through the verdict equation instead of being assumed *)
  Theorem pipe_btr_cer_sound s0 pi' : G s0 ->
    valid_plan false P2 s0 pi' = true -> valid_plan false P s0 (pback (pipeline_back l) pi') = true.
  Proof.
    intros HG Hv. rewrite bc_pback.
    apply (btr_sound smp Hsmp P Hu s0).
    exact (cer_sound simp_pre Hsimp nm P1 Hu1 Hu2 G Gstep Hcond s0 pi' HG Hv).
  Qed.

  Hypothesis Hconf : forall s args i a, G s -> In (i, a) (p_actions P1) ->
    add_effs_ok [] [] (a_effs (ce_variant a (the_sel P1 s a args))) = false -> applicable P1 s a args = false.

  Theorem pipe_btr_cer_complete s0 pi : all_hold false (mk_interp P s0 []) (bound_invs P) = true -> G s0 ->
    valid_plan false P s0 pi = true ->
    exists pi', length pi' <= length pi /\ valid_plan false P2 s0 pi' = true /\
                sub_noop_eq P s0 pi (pback (pipeline_back l) pi').
  Proof.
    intros Hb HG Hv.
    assert (Hc : certified (compose_all l P2)).
    { apply pipeline_certified; [|exact bc_linked].
      constructor; [exact (btr_stage_certified smp Hsmp P Hu)|]. constructor; [|constructor].
      exact (cer_stage_certified simp_pre Hsimp nm P1 Hu1 Hu2 G Gstep Hcond Hconf). }
    assert (Hok : Forall (st_okS (compose_all l P2)) pi) by (apply Forall_forall; intros x _; exact I).
    destruct (cs_complete _ Hc s0 s0 pi (bc_rel s0 Hb HG) Hok Hv) as (pi' & L & V & _ & S).
    exists pi'. split; [cbn in L; plia|]. split; [exact V|].
    rewrite (pback_ext _ _ pi' (pipeline_back_spec l P2)) in S. exact S.
  Qed.
End BtrCer.
