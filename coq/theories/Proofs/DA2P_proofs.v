(* Proofs about the durative-actions-to-processes plan conversions (C29). *)
From Coq Require Import List ZArith NArith QArith Bool Lia Lqa Permutation.
Import ListNotations.
Require Import UPV.Model.DA2P.
Open Scope Q_scope.

(* ------------------------------------------------------------------ sorting *)
Lemma insert_t_perm {A} (x : Q * A * option Q) l : Permutation (insert_t x l) (x :: l).
Proof.
  induction l as [|y l IH]; simpl; [reflexivity|].
  destruct (Qle_bool (time_of x) (time_of y)); [reflexivity|].
  rewrite IH. apply perm_swap.
Qed.

Lemma sort_t_perm {A} (l : list (Q * A * option Q)) : Permutation (sort_t l) l.
Proof.
  induction l as [|x l IH]; simpl; [reflexivity|].
  rewrite insert_t_perm. constructor. exact IH.
Qed.

Lemma insert_t_map {A B} (f : Q * A * option Q -> Q * B * option Q) (Hf : forall x, time_of (f x) = time_of x) x l :
  insert_t (f x) (map f l) = map f (insert_t x l).
Proof.
  induction l as [|y l IH]; simpl; [reflexivity|].
  rewrite !Hf. destruct (Qle_bool (time_of x) (time_of y)); simpl; [reflexivity|].
  rewrite IH. reflexivity.
Qed.

Lemma sort_t_map {A B} (f : Q * A * option Q -> Q * B * option Q) (Hf : forall x, time_of (f x) = time_of x) l :
  sort_t (map f l) = map f (sort_t l).
Proof.
  induction l as [|x l IH]; simpl; [reflexivity|].
  rewrite IH. apply insert_t_map. exact Hf.
Qed.

(* the result of the sort is ordered by time (used for the description of the output order) *)
Fixpoint sorted_t {A} (l : list (Q * A * option Q)) : Prop :=
  match l with
  | [] => True
  | x :: l' => (forall y, In y l' -> time_of x <= time_of y) /\ sorted_t l'
  end.

Lemma insert_t_sorted {A} (x : Q * A * option Q) l : sorted_t l -> sorted_t (insert_t x l).
Proof.
  induction l as [|y l IH]; simpl; intros H.
  - split; [intros ? []|exact I].
  - destruct H as [Hy Hs].
    destruct (Qle_bool (time_of x) (time_of y)) eqn:E.
    + apply Qle_bool_iff in E. simpl. split; [|split; assumption].
      intros z [<-|Hz]; [exact E|]. eapply Qle_trans; [exact E| apply Hy; exact Hz].
    + assert (Hlt : time_of y <= time_of x).
      { destruct (Qlt_le_dec (time_of y) (time_of x)) as [L|L]; [apply Qlt_le_weak; exact L|].
        apply Qle_bool_iff in L. congruence. }
      simpl. split; [|apply IH; exact Hs].
      intros z Hz. apply (Permutation_in _ (insert_t_perm x l)) in Hz.
      destruct Hz as [<-|Hz]; [exact Hlt | apply Hy; exact Hz].
Qed.

Lemma sort_t_sorted {A} (l : list (Q * A * option Q)) : sorted_t (sort_t l).
Proof. induction l as [|x l IH]; simpl; [exact I| apply insert_t_sorted; exact IH]. Qed.

(* ------------------------------------------------------------------ the dictionary of lists *)
Lemma flatten_dict_append k e d : Permutation (flatten (dict_append k e d)) (flatten d ++ [e]).
Proof.
  unfold flatten. induction d as [|[k' l] d IH]; simpl; [reflexivity|].
  destruct (key_eqb k k'); simpl.
  - rewrite <- !app_assoc. apply Permutation_app_head. apply Permutation_app_comm.
  - rewrite IH. rewrite app_assoc. reflexivity.
Qed.

Lemma flatten_fold_append (l : list oentry) : forall d,
  Permutation (flatten (fold_left (fun d e => dict_append (key_of e) e d) l d)) (flatten d ++ l).
Proof.
  induction l as [|e l IH]; intros d; simpl.
  - rewrite app_nil_r. reflexivity.
  - rewrite IH. rewrite flatten_dict_append. rewrite <- app_assoc. reflexivity.
Qed.

Lemma regroup_perm l : Permutation (regroup l) l.
Proof. unfold regroup. rewrite flatten_fold_append. reflexivity. Qed.

(* ------------------------------------------------------------------ fixed-duration plans *)
Definition cstart (e : oentry) : centry := (fst (fst e), (CStart (fst (key_of e)), snd (key_of e)), None).

Lemma time_of_cstart e : time_of (cstart e) = time_of e.
Proof. reflexivity. Qed.

Lemma forward_fixed P pi : Forall (wf_fixed_entry P) pi -> forward P pi = Some (map cstart pi).
Proof.
  induction 1 as [|e pi He _ IH]; [reflexivity|].
  destruct e as [[t [a ps]] d]. unfold wf_fixed_entry, key_of in He; simpl in He. simpl.
  destruct (kind_of P a) as [[| ex | delta]|] eqn:K; try contradiction; rewrite IH; reflexivity.
Qed.

Lemma back_loop_fixed P l : Forall (wf_fixed_entry P) l -> forall d,
  back_loop P (map cstart l) d = Some (fold_left (fun d e => dict_append (key_of e) e d) l d).
Proof.
  induction 1 as [|e l He _ IH]; intros d; [reflexivity|].
  destruct e as [[t [a ps]] du]. unfold wf_fixed_entry, key_of in He; simpl in He.
  simpl. unfold key_of at 2; simpl.
  destruct (kind_of P a) as [[| ex | delta]|] eqn:K; try contradiction.
  - subst du. apply IH.
  - destruct He as [q [Hq ->]]. rewrite Hq. apply IH.
Qed.

Lemma wf_final_ok P e : wf_fixed_entry P e -> final_ok P e = true.
Proof.
  destruct e as [[t [a ps]] du]. unfold wf_fixed_entry, final_ok, key_of; simpl.
  destruct (kind_of P a) as [[| ex | delta]|]; try contradiction.
  - intros ->; reflexivity.
  - intros [q [_ ->]]; reflexivity.
Qed.

Lemma Forall_perm {A} (Q : A -> Prop) l l' : Permutation l l' -> Forall Q l -> Forall Q l'.
Proof. intros Hp H. apply Forall_forall. intros x Hx. eapply Forall_forall; [exact H|]. eapply Permutation_in; [symmetry; exact Hp| exact Hx]. Qed.

Theorem back_forward_fixed P pi :
  Forall (wf_fixed_entry P) pi ->
  exists pi', forward P pi = Some pi' /\ back P pi' = Some (regroup (sort_t pi)).
Proof.
  intros H. exists (map cstart pi). split; [apply forward_fixed; exact H|].
  unfold back. rewrite (sort_t_map cstart time_of_cstart).
  assert (Hs : Forall (wf_fixed_entry P) (sort_t pi)) by (eapply Forall_perm; [symmetry; apply sort_t_perm| exact H]).
  rewrite (back_loop_fixed P _ Hs).
  fold (regroup (sort_t pi)).
  assert (Hr : Forall (wf_fixed_entry P) (regroup (sort_t pi))) by (eapply Forall_perm; [symmetry; apply regroup_perm| exact Hs]).
  replace (forallb (final_ok P) (regroup (sort_t pi))) with true; [reflexivity|].
  symmetry. apply forallb_forall. intros x Hx. apply wf_final_ok. eapply Forall_forall; [exact Hr| exact Hx].
Qed.

Theorem back_forward_fixed_perm P pi :
  Forall (wf_fixed_entry P) pi ->
  exists pi' pi'', forward P pi = Some pi' /\ back P pi' = Some pi'' /\ Permutation pi'' pi.
Proof.
  intros H. destruct (back_forward_fixed P pi H) as [pi' [Hf Hb]].
  exists pi', (regroup (sort_t pi)). split; [exact Hf|]. split; [exact Hb|].
  rewrite regroup_perm. apply sort_t_perm.
Qed.

(* when every (action, parameters) pair occurs once the dictionary has one singleton list per key and the answer is
   simply the plan sorted by start time *)
Lemma pval_eqb_refl v : pval_eqb v v = true.
Proof. destruct v; simpl; [apply N.eqb_refl | apply Z.eqb_refl]. Qed.
Lemma pvals_eqb_refl vs : pvals_eqb vs vs = true.
Proof. induction vs as [|v vs IH]; simpl; [reflexivity| rewrite pval_eqb_refl, IH; reflexivity]. Qed.
Lemma key_eqb_refl k : key_eqb k k = true.
Proof. unfold key_eqb. rewrite N.eqb_refl, pvals_eqb_refl. reflexivity. Qed.

Lemma pval_eqb_eq a b : pval_eqb a b = true -> a = b.
Proof.
  destruct a, b; simpl; try discriminate; intros H.
  - apply N.eqb_eq in H; congruence.
  - apply Z.eqb_eq in H; congruence.
Qed.
Lemma pvals_eqb_eq a : forall b, pvals_eqb a b = true -> a = b.
Proof.
  induction a as [|x a IH]; destruct b as [|y b]; simpl; try discriminate; [reflexivity|].
  intros H. apply andb_true_iff in H as [H1 H2]. apply pval_eqb_eq in H1. apply IH in H2. congruence.
Qed.
Lemma key_eqb_eq a b : key_eqb a b = true -> a = b.
Proof.
  destruct a as [a1 a2], b as [b1 b2]. unfold key_eqb; simpl. intros H.
  apply andb_true_iff in H as [H1 H2]. apply N.eqb_eq in H1. apply pvals_eqb_eq in H2. congruence.
Qed.

Lemma dict_append_fresh k e d :
  (forall kl, In kl d -> key_eqb k (fst kl) = false) -> dict_append k e d = d ++ [(k, [e])].
Proof.
  induction d as [|[k' l] d IH]; simpl; intros H; [reflexivity|].
  pose proof (H (k', l) (or_introl eq_refl)) as Hk. simpl in Hk. rewrite Hk. simpl. rewrite IH; [reflexivity|].
  intros kl Hkl. apply H. right; exact Hkl.
Qed.

Lemma regroup_distinct_keys l :
  NoDup (map key_of l) -> regroup l = l.
Proof.
  unfold regroup.
  assert (G : forall l (d : dict),
             NoDup (map key_of l) ->
             (forall e kl, In e l -> In kl d -> key_eqb (key_of e) (fst kl) = false) ->
             flatten (fold_left (fun d e => dict_append (key_of e) e d) l d) = flatten d ++ l).
  { clear l. induction l as [|e l IH]; intros d ND Hd; simpl.
    - rewrite app_nil_r; reflexivity.
    - inversion ND as [|? ? Hn ND']; subst.
      rewrite dict_append_fresh by (intros kl Hkl; apply Hd; [left; reflexivity| exact Hkl]).
      rewrite IH; [| exact ND' |].
      + unfold flatten. rewrite flat_map_app. simpl. rewrite <- app_assoc. reflexivity.
      + intros e' kl He' Hkl. apply in_app_or in Hkl as [Hkl|[<-|[]]].
        * apply Hd; [right; exact He'| exact Hkl].
        * simpl. destruct (key_eqb (key_of e') (key_of e)) eqn:E; [|reflexivity].
          apply key_eqb_eq in E. exfalso. apply Hn. rewrite <- E. apply in_map. exact He'. }
  intros ND. rewrite G; [reflexivity| exact ND | intros ? ? _ []].
Qed.

(* ------------------------------------------------------------------ where forward puts the compiled end actions *)
Lemma Qlt_bool_iff a b : Qlt_bool a b = true <-> a < b.
Proof.
  unfold Qlt_bool. rewrite negb_true_iff. split; intros H.
  - destruct (Qlt_le_dec a b) as [L|L]; [exact L|]. apply Qle_bool_iff in L. congruence.
  - destruct (Qle_bool b a) eqn:E; [|reflexivity]. apply Qle_bool_iff in E. exfalso. apply (Qlt_not_le _ _ H E).
Qed.

Lemma end_time_inside t dur delta :
  Qlt_bool 0 (Qred (dur + delta)) && Qle_bool (Qred (dur + delta)) dur = true ->
  let te := Qred (t + Qred (dur + delta)) in
  te == t + (dur + delta) /\ t < te /\ te <= t + dur.
Proof.
  intros H. apply andb_true_iff in H as [H1 H2].
  apply Qlt_bool_iff in H1. apply Qle_bool_iff in H2.
  rewrite Qred_correct in H1, H2. cbv zeta.
  rewrite !Qred_correct. split; [reflexivity|]. split; lra.
Qed.

Theorem forward_end_sound P : forall pi pi', forward P pi = Some pi' ->
  forall te a ps x, In (te, (CFirstEnd a, ps), x) pi' ->
  exists t dur delta, In (t, (a, ps), Some dur) pi /\ kind_of P a = Some (KVar delta)
                      /\ te == t + (dur + delta) /\ t < te /\ te <= t + dur.
Proof.
  induction pi as [|[[t [a ps]] d] pi IH]; intros pi' H te a' ps' x Hin; cbn [forward] in H; cbv zeta in H.
  - inversion H; subst. destruct Hin.
  - destruct (kind_of P a) as [k|] eqn:K; [|discriminate].
    assert (Hrest : forall r, forward P pi = Some r -> In (te, (CFirstEnd a', ps'), x) r ->
              exists t0 dur delta, In (t0, (a', ps'), Some dur) ((t, (a, ps), d) :: pi) /\ kind_of P a' = Some (KVar delta)
                      /\ te == t0 + (dur + delta) /\ t0 < te /\ te <= t0 + dur).
    { intros r Hr Hi. destruct (IH r Hr te a' ps' x Hi) as [t0 [dur [delta [Hi' R]]]].
      exists t0, dur, delta. split; [right; exact Hi'| exact R]. }
    destruct k as [| ex | delta].
    + destruct (forward P pi) as [r|] eqn:F; [|discriminate]. cbn [option_map] in H. inversion H; subst.
      destruct Hin as [Hin|Hin]; [discriminate|]. apply (Hrest r eq_refl Hin).
    + destruct (forward P pi) as [r|] eqn:F; [|discriminate]. cbn [option_map] in H. inversion H; subst.
      destruct Hin as [Hin|Hin]; [discriminate|]. apply (Hrest r eq_refl Hin).
    + destruct d as [dur|]; [|discriminate].
      destruct (Qlt_bool 0 (Qred (dur + delta)) && Qle_bool (Qred (dur + delta)) dur) eqn:C; [|discriminate].
      destruct (forward P pi) as [r|] eqn:F; [|discriminate]. cbn [option_map] in H. inversion H; subst.
      destruct Hin as [Hin|[Hin|Hin]]; [discriminate| | apply (Hrest r eq_refl Hin)].
      inversion Hin; subst.
      exists t, dur, delta. split; [left; reflexivity|]. split; [exact K|].
      apply (end_time_inside t dur delta C).
Qed.

Theorem forward_end_complete P : forall pi pi', forward P pi = Some pi' ->
  forall t a ps dur delta, In (t, (a, ps), Some dur) pi -> kind_of P a = Some (KVar delta) ->
  exists te, In (te, (CFirstEnd a, ps), None) pi' /\ te == t + (dur + delta) /\ t < te /\ te <= t + dur.
Proof.
  induction pi as [|[[t0 [a0 ps0]] d0] pi IH]; intros pi' H t a ps dur delta Hin K; [destruct Hin|].
  cbn [forward] in H; cbv zeta in H.
  destruct (kind_of P a0) as [k|] eqn:K0; [|discriminate].
  assert (Hrest : forall r, forward P pi = Some r -> In (t, (a, ps), Some dur) pi ->
            exists te, In (te, (CFirstEnd a, ps), None) r /\ te == t + (dur + delta) /\ t < te /\ te <= t + dur).
  { intros r Hr Hi. apply (IH r Hr t a ps dur delta Hi K). }
  destruct Hin as [Hin|Hin].
  - inversion Hin; subst. rewrite K in K0. inversion K0; subst.
    destruct (Qlt_bool 0 (Qred (dur + delta)) && Qle_bool (Qred (dur + delta)) dur) eqn:C; [|discriminate].
    destruct (forward P pi) as [r|] eqn:F; [|discriminate]. cbn [option_map] in H. inversion H; subst.
    exists (Qred (t + Qred (dur + delta))). split; [right; left; reflexivity|].
    apply (end_time_inside t dur delta C).
  - destruct k as [| ex | delta0].
    + destruct (forward P pi) as [r|] eqn:F; [|discriminate]. cbn [option_map] in H. inversion H; subst.
      destruct (Hrest r eq_refl Hin) as [te [Hi R]]. exists te. split; [right; exact Hi| exact R].
    + destruct (forward P pi) as [r|] eqn:F; [|discriminate]. cbn [option_map] in H. inversion H; subst.
      destruct (Hrest r eq_refl Hin) as [te [Hi R]]. exists te. split; [right; exact Hi| exact R].
    + destruct d0 as [dur0|]; [|discriminate].
      destruct (Qlt_bool 0 (Qred (dur0 + delta0)) && Qle_bool (Qred (dur0 + delta0)) dur0) eqn:C; [|discriminate].
      destruct (forward P pi) as [r|] eqn:F; [|discriminate]. cbn [option_map] in H. inversion H; subst.
      destruct (Hrest r eq_refl Hin) as [te [Hi R]]. exists te. split; [right; right; exact Hi| exact R].
Qed.

(* the start actions of the forward plan are the plan's instances, at the same times, in the same order *)
Definition is_start (c : centry) : bool := match fst (snd (fst c)) with CStart _ => true | CFirstEnd _ => false end.

Theorem forward_starts P : forall pi pi', forward P pi = Some pi' -> filter is_start pi' = map cstart pi.
Proof.
  induction pi as [|[[t [a ps]] d] pi IH]; intros pi' H; cbn [forward] in H; cbv zeta in H.
  - inversion H; reflexivity.
  - destruct (kind_of P a) as [k|]; [|discriminate].
    destruct k as [| ex | delta].
    + destruct (forward P pi) as [r|]; [|discriminate]. cbn [option_map] in H. inversion H; subst.
      simpl. rewrite (IH r eq_refl). reflexivity.
    + destruct (forward P pi) as [r|]; [|discriminate]. cbn [option_map] in H. inversion H; subst.
      simpl. rewrite (IH r eq_refl). reflexivity.
    + destruct d as [dur|]; [|discriminate].
      destruct (Qlt_bool 0 (Qred (dur + delta)) && Qle_bool (Qred (dur + delta)) dur); [|discriminate].
      destruct (forward P pi) as [r|]; [|discriminate]. cbn [option_map] in H. inversion H; subst.
      simpl. rewrite (IH r eq_refl). reflexivity.
Qed.

(* a plan of fixed-duration and instantaneous actions has no end action in its forward plan: the ends are events *)
Theorem forward_fixed_no_end_action P pi pi' :
  Forall (wf_fixed_entry P) pi -> forward P pi = Some pi' -> pi' = map cstart pi /\ forallb is_start pi' = true.
Proof.
  intros H F. rewrite (forward_fixed P pi H) in F. inversion F; subst. split; [reflexivity|].
  apply forallb_forall. intros x Hx. apply in_map_iff in Hx as [e [<- _]]. reflexivity.
Qed.

(* ------------------------------------------------------------------ variable durations: a single instance round-trips *)
Lemma Qred_involutive q : Qred (Qred q) = Qred q.
Proof. apply Qred_complete. apply Qred_correct. Qed.

Theorem back_forward_single_var P t a ps dur delta :
  kind_of P a = Some (KVar delta) -> 0 < dur + delta -> delta <= 0 ->
  exists pi', forward P [(t, (a, ps), Some dur)] = Some pi' /\ back P pi' = Some [(t, (a, ps), Some (Qred dur))].
Proof.
  intros K Hpos Hneg.
  assert (C : Qlt_bool 0 (Qred (dur + delta)) && Qle_bool (Qred (dur + delta)) dur = true).
  { apply andb_true_iff. split; [apply Qlt_bool_iff | apply Qle_bool_iff]; rewrite Qred_correct; lra. }
  destruct (end_time_inside t dur delta C) as [E1 [E2 E3]]. cbv zeta in E1, E2, E3.
  eexists. split.
  - cbn [forward]. rewrite K. cbv zeta. rewrite C. cbn [option_map]. reflexivity.
  - assert (L : Qle_bool t (Qred (t + Qred (dur + delta))) = true) by (apply Qle_bool_iff; lra).
    unfold back. cbn [sort_t fold_right insert_t].
    change (time_of (t, (CStart a, ps), @None Q)) with t.
    change (time_of (Qred (t + Qred (dur + delta)), (CFirstEnd a, ps), @None Q)) with (Qred (t + Qred (dur + delta))).
    rewrite L. cbn [back_loop]. rewrite K. cbn [dict_append dict_pop]. rewrite key_eqb_refl.
    cbn [pop_last]. rewrite L. cbn [dict_append]. rewrite key_eqb_refl.
    cbn [app back_loop flatten flat_map snd forallb]. unfold final_ok. cbn [fst snd]. rewrite K. cbn [andb app].
    replace (Qred (Qred (t + Qred (dur + delta)) - t - delta)) with (Qred dur); [reflexivity|].
    apply Qred_complete. rewrite E1. ring.
Qed.

Lemma regroup_sorted_distinct pi : NoDup (map key_of pi) -> regroup (sort_t pi) = sort_t pi.
Proof.
  intros ND. apply regroup_distinct_keys.
  eapply Permutation_NoDup; [|exact ND]. apply Permutation_map. symmetry. apply sort_t_perm.
Qed.

Lemma sort_t_sorted_perm : forall pi : list oentry, sorted_t (sort_t pi) /\ Permutation (sort_t pi) pi.
Proof. intros pi. split; [apply sort_t_sorted | apply sort_t_perm]. Qed.
