(* Facts about the REGENERATED registry Gen_Engines.builtin_engines (decided by computation over the finite tables). *)
From Coq Require Import List NArith Bool String.
Import ListNotations.
Require Import UPV.Model.Kind UPV.Model.Factory UPV.Gen.Gen_Kind UPV.Gen.Gen_Engines.

(* every built-in engine: constructible supported kind of the LATEST version, at least one operation mode;
   compilers declare at least one compilation kind; names are distinct and every built-in name is in the default
   preference list *)
Definition builtin_registry_ok : bool :=
  forallb (fun ne =>
             let e := snd ne in
             wf gen_tables (e_supported e)
             && (version gen_tables (e_supported e) =? LATEST_PROBLEM_KIND_VERSION)%N
             && negb (Nat.eqb (List.length (e_modes e)) 0)
             && (negb (is_mode e COMPILER) || negb (Nat.eqb (List.length (e_compilations e)) 0))
             && existsb (String.eqb (fst ne)) default_preference_list) builtin_engines
  && Nat.eqb (List.length (nodup string_dec (map fst builtin_engines))) (List.length builtin_engines)
  && forallb (fun e => forallb (fun c => N.ltb c (N.of_nat (List.length compilation_kinds))) (e_compilations (snd e))) builtin_engines.

Lemma gen_builtin_registry_ok : builtin_registry_ok = true.
Proof. vm_compute. reflexivity. Qed.

Require Import UPV.Proofs.Kind_proofs UPV.Proofs.Factory_proofs UPV.Proofs.Pipeline_proofs.

Lemma lookup_In name (reg : registry) e : lookup name reg = Some e -> exists n, In (n, e) reg.
Proof.
  induction reg as [|[n' e'] reg IH]; simpl; [discriminate|].
  destruct (String.eqb name n').
  - intros H; inversion H; subst. exists n'. now left.
  - intros H. destruct (IH H) as [n Hn]. exists n. now right.
Qed.

(* every built-in engine declares its supported kind at the LATEST version *)
Lemma builtin_versions n e :
  lookup n builtin_engines = Some e -> version gen_tables (e_supported e) = LATEST_PROBLEM_KIND_VERSION.
Proof.
  intros L. destruct (lookup_In _ _ _ L) as [n' Hin].
  pose proof gen_builtin_registry_ok as H. unfold builtin_registry_ok in H.
  rewrite !andb_true_iff in H. destruct H as [[H _] _]. rewrite forallb_forall in H.
  specialize (H _ Hin). cbn [snd] in H. rewrite !andb_true_iff in H.
  destruct H as [[[[_ H] _] _] _]. now apply N.eqb_eq.
Qed.

Lemma builtin_pipeline_accepts prefs cks k0 steps final actual :
  pipeline gen_tables builtin_engines prefs None cks k0 = Pipe steps final ->
  k_ver k0 = Some LATEST_PROBLEM_KIND_VERSION ->
  Forall2 (within gen_tables LATEST_PROBLEM_KIND_VERSION) actual steps ->
  Forall2 (accepted gen_tables) actual steps.
Proof.
  intros P V F. eapply pipeline_accepts; eauto. intros n e L. exact (builtin_versions n e L).
Qed.
