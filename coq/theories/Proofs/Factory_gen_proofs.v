(* Facts about the REGENERATED registry Gen_Engines.builtin_engines (decided by computation over the finite tables). *)
From Coq Require Import List NArith Bool String.
Import ListNotations.
Require Import UPV.Model.Kind UPV.Model.Factory UPV.Gen.Gen_Kind UPV.Gen.Gen_Engines.

(* every built-in engine: constructible supported kind of the LATEST version, at least one operation mode;
   compilers declare at least one compilation kind; names are distinct and every built-in name is in the default
   preference list *)
Definition builtin_registry_ok : bool :=
  forallb (fun ne =>
             let e := snd ne in
             wf gen_tables (e_supported e)
             && (version gen_tables (e_supported e) =? LATEST_PROBLEM_KIND_VERSION)%N
             && negb (Nat.eqb (List.length (e_modes e)) 0)
             && (negb (is_mode e COMPILER) || negb (Nat.eqb (List.length (e_compilations e)) 0))
             && existsb (String.eqb (fst ne)) default_preference_list) builtin_engines
  && Nat.eqb (List.length (nodup string_dec (map fst builtin_engines))) (List.length builtin_engines)
  && forallb (fun e => forallb (fun c => N.ltb c (N.of_nat (List.length compilation_kinds))) (e_compilations (snd e))) builtin_engines.

Lemma gen_builtin_registry_ok : builtin_registry_ok = true.
Proof. vm_compute. reflexivity. Qed.
