(* C06 / C07, Layer A — NegativeConditionsRemover: proofs about Compilers/LayerA_Neg.v.
   Invariant: every negation fluent holds the complement of its fluent ([neg_rel]).  Under it the rewritten conditions
   have the value of the original ones (hypothesis [rw_ok]), every expression of the original problem evaluates alike
   ([eval_clean]: it mentions no negation fluent), the compiled action fires the original effect instances followed by
   their mirrors ([n_effects_fired]), and the successor states are related again provided the assignments that fire on
   one ground negated fluent carry one value ([one_value]; decidable sufficient condition [ncr_safe]): [neg_step],
   [neg_run], [neg_valid_plan] (compiled verdict from the related state = original verdict, for every plan). *)
From Coq Require Import List ZArith NArith QArith Qcanon Bool Lia.
Import ListNotations.
Require Import UPV.Core.Expr UPV.Core.Eval UPV.Core.Interp UPV.Planning.Problem UPV.Planning.Sem.
Require Import UPV.Proofs.Eval_lemmas UPV.Proofs.Sem_proofs UPV.Proofs.Step_proofs.
Require Import UPV.Walkers.Subst UPV.Proofs.Subst_proofs.
Require Import UPV.Compilers.Variants UPV.Compilers.LayerA_Defs UPV.Compilers.LayerA_Quant UPV.Compilers.LayerA_Neg.
Require Import UPV.Proofs.LayerA_base UPV.Proofs.LayerA_Quant_proofs UPV.Proofs.LayerA_Inv_proofs.
Local Open Scope nat_scope.

Section NegEval.
  Variable nmap : list (N * N).

  Lemma nrel_bind I I' v o : nrel_interp nmap I I' -> nrel_interp nmap (bind_var I v o) (bind_var I' v o).
  Proof.
    intros (H1 & H2 & H3 & H4 & H5 & H6). repeat split; simpl; auto. intros w. destruct (w =? v)%N; auto.
  Qed.

  Lemma nrel_instances vs : forall I I', nrel_interp nmap I I' ->
    Forall2 (nrel_interp nmap) (instances I vs) (instances I' vs).
  Proof.
    induction vs as [|[v t] vs IH]; intros I I' H; simpl.
    - constructor; [exact H | constructor].
    - assert (HH := H). destruct H as (H1 & H2 & H3 & H4 & H5 & H6). rewrite H4.
      induction (objs I t) as [|o os IHo]; simpl; [constructor|].
      apply Forall2_app; [apply IH, nrel_bind, HH | exact IHo].
  Qed.

  Lemma Forall2_map_eq_f {A B} (R : A -> A -> Prop) (f g : A -> B) l l' :
    Forall2 R l l' -> (forall x y, R x y -> f x = g y) -> map f l = map g l'.
  Proof. induction 1; intros H'; simpl; [reflexivity|]. f_equal; auto. Qed.

  (* an expression that mentions no negation fluent does not see the difference *)
  Lemma eval_clean sc e : forall I I', nrel_interp nmap I I' -> clean nmap e = true -> eval sc e I' = eval sc e I.
  Proof.
    induction e using expr_ind'; intros I I' HR Hc; pose proof HR as (Hp & Hv & Hi & Ho & Hf & _);
      try reflexivity; cbn [clean] in Hc; nfsplit;
      try (assert (HF : Forall (fun x => eval sc x I' = eval sc x I) l)
             by (rewrite Forall_forall in *; intros x Hx; apply H; [exact Hx | exact HR |];
                 match goal with Hq : forallb _ _ = true |- _ => rewrite forallb_forall in Hq; apply Hq; exact Hx end));
      try (assert (HF : Forall (fun x => eval sc x I' = eval sc x I) args)
             by (rewrite Forall_forall in *; intros x Hx; apply H; [exact Hx | exact HR |];
                 match goal with Hq : forallb _ _ = true |- _ => rewrite forallb_forall in Hq; apply Hq; exact Hx end)).
    - cbn [eval]. apply Hp.
    - cbn [eval]. apply Hv.
    - rewrite !eval_EFluent.
      replace (evals sc I' args) with (evals sc I args)
        by (clear -HF; induction HF as [|x l' Hx _ IH']; [reflexivity|]; cbn [evals]; rewrite Hx, IH'; reflexivity).
      destruct (evals sc I args); [|reflexivity]. apply Hf.
      match goal with Hn : negb (is_negb nmap f) = true |- _ => apply negb_true_iff in Hn; exact Hn end.
    - rewrite !eval_EIFun.
      replace (evals sc I' args) with (evals sc I args)
        by (clear -HF; induction HF as [|x l' Hx _ IH']; [reflexivity|]; cbn [evals]; rewrite Hx, IH'; reflexivity).
      destruct (evals sc I args); [|reflexivity]. apply Hi.
    - rewrite !eval_EAnd.
      replace (ebools sc I' l) with (ebools sc I l)
        by (clear -HF; induction HF as [|x l' Hx _ IH']; [reflexivity|]; cbn [ebools]; rewrite Hx, IH'; reflexivity).
      reflexivity.
    - rewrite !eval_EOr.
      replace (ebools sc I' l) with (ebools sc I l)
        by (clear -HF; induction HF as [|x l' Hx _ IH']; [reflexivity|]; cbn [ebools]; rewrite Hx, IH'; reflexivity).
      reflexivity.
    - rewrite !eval_ENot, (IHe I I' HR) by assumption. reflexivity.
    - rewrite !eval_EImplies, (IHe1 I I' HR), (IHe2 I I' HR) by assumption. reflexivity.
    - rewrite !eval_EIff, (IHe1 I I' HR), (IHe2 I I' HR) by assumption. reflexivity.
    - rewrite !eval_EExists. f_equal.
      rewrite (Forall2_map_eq_f (nrel_interp nmap) (fun J => as_bool (eval sc e J)) (fun J => as_bool (eval sc e J))
                 _ _ (nrel_instances vs I I' HR)); [reflexivity|].
      intros x y Hxy. rewrite (IHe x y Hxy) by assumption. reflexivity.
    - rewrite !eval_EForall. f_equal.
      rewrite (Forall2_map_eq_f (nrel_interp nmap) (fun J => as_bool (eval sc e J)) (fun J => as_bool (eval sc e J))
                 _ _ (nrel_instances vs I I' HR)); [reflexivity|].
      intros x y Hxy. rewrite (IHe x y Hxy) by assumption. reflexivity.
    - rewrite !eval_EPlus.
      replace (enums sc I' l) with (enums sc I l)
        by (clear -HF; induction HF as [|x l' Hx _ IH']; [reflexivity|]; cbn [enums]; rewrite Hx, IH'; reflexivity).
      reflexivity.
    - rewrite !eval_EMinus, (IHe1 I I' HR), (IHe2 I I' HR) by assumption. reflexivity.
    - rewrite !eval_ETimes.
      replace (enums sc I' l) with (enums sc I l)
        by (clear -HF; induction HF as [|x l' Hx _ IH']; [reflexivity|]; cbn [enums]; rewrite Hx, IH'; reflexivity).
      reflexivity.
    - rewrite !eval_EDiv, (IHe1 I I' HR), (IHe2 I I' HR) by assumption. reflexivity.
    - rewrite !eval_ELe, (IHe1 I I' HR), (IHe2 I I' HR) by assumption. reflexivity.
    - rewrite !eval_ELt, (IHe1 I I' HR), (IHe2 I I' HR) by assumption. reflexivity.
    - rewrite !eval_EEquals, (IHe1 I I' HR), (IHe2 I I' HR) by assumption. reflexivity.
  Qed.

  Lemma evals_clean sc I I' args : nrel_interp nmap I I' -> forallb (clean nmap) args = true ->
    evals sc I' args = evals sc I args.
  Proof.
    intros HR. induction args as [|x l IH]; intros H; [reflexivity|]. cbn [forallb] in H. nfsplit. cbn [evals].
    rewrite (eval_clean sc x I I' HR), IH by assumption. reflexivity.
  Qed.

  (* the reference rewriting [nrw] (walk_not on a fluent) is exact under the invariant on [nrw_dom] *)
  Lemma nrw_exact e : forall I I', nrel_interp nmap I I' -> nrw_dom nmap e = true ->
    eval false (nrw (ng nmap) e) I' = eval false e I.
  Proof.
    induction e using expr_ind'; intros I I' HR Hd;
      try (cbn [nrw]; apply (eval_clean false _ I I' HR); exact Hd).
    - cbn [nrw nrw_dom] in *. rewrite !eval_EAnd.
      replace (ebools false I' (map (nrw (ng nmap)) l)) with (ebools false I l); [reflexivity|].
      induction H as [|x l' Hx _ IH']; [reflexivity|]. cbn [forallb] in Hd. nfsplit. cbn [map ebools].
      rewrite (Hx I I' HR), IH' by assumption. reflexivity.
    - cbn [nrw nrw_dom] in *. rewrite !eval_EOr.
      replace (ebools false I' (map (nrw (ng nmap)) l)) with (ebools false I l); [reflexivity|].
      induction H as [|x l' Hx _ IH']; [reflexivity|]. cbn [forallb] in Hd. nfsplit. cbn [map ebools].
      rewrite (Hx I I' HR), IH' by assumption. reflexivity.
    - destruct e; try (cbn [nrw]; apply (eval_clean false _ I I' HR); exact Hd).
      cbn [nrw nrw_dom] in *. destruct (ng nmap f) as [nf|] eqn:En.
      + nfsplit. rewrite eval_ENot, !eval_EFluent. rewrite (evals_clean false I I' args HR) by assumption.
        destruct (evals false I args) as [vs|]; [|reflexivity].
        destruct HR as (_ & _ & _ & _ & _ & H6). rewrite (H6 f nf vs En). unfold compl, as_bool.
        destruct (fl I f vs) as [[b| |]|]; reflexivity.
      + apply (eval_clean false _ I I' HR). exact Hd.
  Qed.
End NegEval.

Require Import UPV.Proofs.Variants_proofs.

Definition negv (v : value) : value := match v with VBool b => VBool (negb b) | _ => v end.
Definition mk_neg (nf : N) (x : aeff) : aeff :=
  {| ae_key := (nf, snd (ae_key x)); ae_kind := ae_kind x; ae_val := negv (ae_val x) |}.
Definition mres (nf : N) (r : Sem.eres) : Sem.eres :=
  match r with EAct x => EAct (mk_neg nf x) | ESkip => ESkip | EErr => EErr end.

Lemma nodupN_NoDup l : nodupN l = true -> NoDup l.
Proof.
  induction l as [|x l IH]; intros H; [constructor|]. apply nodupN_cons in H. destruct H as [H1 H2].
  constructor; [exact H1 | apply IH; exact H2].
Qed.

Section NegProofs.
  Variable nmap : list (N * N).
  Variable rw : expr -> expr.
  Variable smp : expr -> expr.
  Variable P : problem.
  Notation ngf := (ng nmap).
  Notation isn := (is_negb nmap).
  Let P' := neg_compile nmap rw smp P.

  Hypothesis Hmap : nmap_ok nmap P = true.
  Hypothesis Hclean : problem_clean nmap P = true.
  Hypothesis Hconst : ncr_const nmap P = true.
  Hypothesis Hone : one_value nmap P.
  Hypothesis Hrw : rw_ok nmap rw P.
  Hypothesis Hsmp : smp_exact smp.

  Definition macts (acts : list aeff) : list aeff :=
    flat_map (fun x => match ngf (fst (ae_key x)) with Some nf => [mk_neg nf x] | None => [] end) acts.

  (* ---- facts about the mapping *)
  Lemma map_facts :
    NoDup (map snd nmap) /\ (forall f nf, ngf f = Some nf -> isn f = false) /\
    (forall fd, In fd (p_fluents P) -> isn (fd_id fd) = false) /\
    (forall fd nf, In fd (p_fluents P) -> ngf (fd_id fd) = Some nf -> fd_ty fd = FBool).
  Proof.
    unfold nmap_ok in Hmap. nfsplit. repeat split.
    - apply nodupN_NoDup. assumption.
    - intros f nf Hf. apply lookupN_In in Hf.
      match goal with Hq : forallb (fun p => negb (is_negb nmap (fst p))) nmap = true |- _ =>
        rewrite forallb_forall in Hq; specialize (Hq _ Hf); apply negb_true_iff in Hq; exact Hq end.
    - intros fd Hfd.
      match goal with Hq : forallb (fun fd => negb (is_negb nmap (fd_id fd))) _ = true |- _ =>
        rewrite forallb_forall in Hq; specialize (Hq _ Hfd); apply negb_true_iff in Hq; exact Hq end.
    - intros fd nf Hfd Hn.
      match goal with Hq : forallb (fun fd => match ng nmap (fd_id fd) with Some _ => _ | None => true end) _ = true |- _ =>
        rewrite forallb_forall in Hq; specialize (Hq _ Hfd); rewrite Hn in Hq; destruct (fd_ty fd); try discriminate; reflexivity end.
  Qed.

  Lemma ng_isn f nf : ngf f = Some nf -> isn nf = true.
  Proof. intros H. apply lookupN_In in H. unfold is_negb. apply existsb_exists. exists (f, nf). split; [exact H | apply N.eqb_refl]. Qed.

  Lemma ng_inj f1 f2 nf : ngf f1 = Some nf -> ngf f2 = Some nf -> f1 = f2.
  Proof.
    intros H1 H2. apply lookupN_In in H1. apply lookupN_In in H2. destruct map_facts as [Hnd _].
    clear -H1 H2 Hnd. induction nmap as [|[a b] l IH]; [destruct H1|]. cbn [map snd] in Hnd. inversion Hnd as [|? ? Hn Hnd']; subst.
    destruct H1 as [H1|H1], H2 as [H2|H2].
    - inversion H1; inversion H2; subst. reflexivity.
    - inversion H1; subst. exfalso. apply Hn. apply in_map_iff. exists (f2, nf). split; [reflexivity | exact H2].
    - inversion H2; subst. exfalso. apply Hn. apply in_map_iff. exists (f1, nf). split; [reflexivity | exact H1].
    - apply IH; assumption.
  Qed.

  (* ---- interpretations *)
  Lemma nrel_mk s s' pars : neg_rel nmap s s' -> nrel_interp nmap (mk_interp P s pars) (mk_interp P' s' pars).
  Proof. intros [H1 H2]. repeat split; cbn [mk_interp fl par var ifun objs]; auto. Qed.

  (* ---- one effect and its mirror *)
  Lemma effect_clean_split e : effect_clean nmap e = true ->
    isn (e_fl e) = false /\ forallb (clean nmap) (e_args e) = true /\ clean nmap (e_val e) = true /\ clean nmap (e_cond e) = true.
  Proof. unfold effect_clean. intros H. nfsplit. repeat split; try assumption. apply negb_true_iff. assumption. Qed.

  Lemma evals_l_clean J J' l : nrel_interp nmap J J' -> forallb (clean nmap) l = true -> evals_l false J' l = evals_l false J l.
  Proof.
    intros HR. induction l as [|x l IH]; intros H; [reflexivity|]. cbn [forallb] in H. nfsplit. cbn [evals_l].
    rewrite (eval_clean nmap false x J J' HR), IH by assumption. reflexivity.
  Qed.

  Lemma n_effect_eval J J' e : nrel_interp nmap J J' -> effect_clean nmap e = true -> In (e_cond e) (conds_of P) ->
    eval_effect false J' (n_effect rw e) = eval_effect false J e.
  Proof.
    intros HR Hc Hin. destruct (effect_clean_split e Hc) as (_ & Ca & Cv & Cc).
    unfold n_effect. destruct (is_uncond e) eqn:Eu.
    - unfold eval_effect. rewrite (evals_l_clean J J' _ HR Ca), (eval_clean nmap false _ J J' HR Cc),
        (eval_clean nmap false _ J J' HR Cv). reflexivity.
    - unfold eval_effect. cbn [set_cond e_args e_cond e_val e_fl e_kind].
      rewrite (evals_l_clean J J' _ HR Ca), (Hrw _ Hin J J' HR), (eval_clean nmap false _ J J' HR Cv). reflexivity.
  Qed.

  Lemma mirror_eval J J' e nf b : nrel_interp nmap J J' -> effect_clean nmap e = true -> In (e_cond e) (conds_of P) ->
    e_val e = EBool b ->
    eval_effect false J'
      {| e_fl := nf; e_args := e_args (n_effect rw e); e_val := smp (mkNot (e_val (n_effect rw e)));
         e_cond := e_cond (n_effect rw e); e_kind := e_kind (n_effect rw e); e_vars := e_vars (n_effect rw e);
         e_isbool := e_isbool (n_effect rw e) |} = mres nf (eval_effect false J e).
  Proof.
    intros HR Hc Hin Hb. pose proof (n_effect_eval J J' e HR Hc Hin) as E.
    assert (Sh : e_args (n_effect rw e) = e_args e /\ e_val (n_effect rw e) = e_val e /\ e_kind (n_effect rw e) = e_kind e /\
                 e_fl (n_effect rw e) = e_fl e)
      by (unfold n_effect; destruct (is_uncond e); repeat split; reflexivity).
    destruct Sh as (S1 & S2 & S3 & S4).
    unfold eval_effect in *. cbn [e_args e_cond e_val e_fl e_kind]. rewrite S1, S2, S3 in *. rewrite S4 in E.
    rewrite Hb in *. rewrite Hsmp. change (mkNot (EBool b)) with (ENot (EBool b)). cbn [eval as_bool].
    destruct (effect_clean_split e Hc) as (_ & Ca & _ & _).
    rewrite (evals_l_clean J J' _ HR Ca) in *.
    destruct (evals_l false J (e_args e)) as [vs|]; [|reflexivity].
    cbn [eval] in E.
    destruct (eval false (e_cond (n_effect rw e)) J') as [[[|]| |]|], (eval false (e_cond e) J) as [[[|]| |]|];
      try discriminate; reflexivity.
  Qed.

  (* ---- the fired effect instances of a compiled action *)
  Definition eff_hyp (e : effect) : Prop :=
    effect_clean nmap e = true /\ In (e_cond e) (conds_of P) /\
    (forall nf, ngf (e_fl e) = Some nf -> is_kassign e = true /\ exists b, e_val e = EBool b).

  Definition pieceI (I : interp) (e : effect) : list Sem.eres :=
    map (fun J => eval_effect false J e) (instances I (e_vars e)).

  Lemma n_effect_vars e : e_vars (n_effect rw e) = e_vars e /\ e_fl (n_effect rw e) = e_fl e.
  Proof. unfold n_effect. destruct (is_uncond e); split; reflexivity. Qed.

  Lemma piece_n_effect I I' e : nrel_interp nmap I I' -> eff_hyp e -> pieceI I' (n_effect rw e) = pieceI I e.
  Proof.
    intros HR (Hc & Hin & _). unfold pieceI. destruct (n_effect_vars e) as [-> _]. symmetry.
    apply (Forall2_map_eq_f (nrel_interp nmap) _ _ _ _ (nrel_instances nmap (e_vars e) I I' HR)).
    intros J J' HJ. symmetry. apply n_effect_eval; assumption.
  Qed.

  Lemma piece_mirror I I' e nf : nrel_interp nmap I I' -> eff_hyp e -> ngf (e_fl e) = Some nf ->
    eres I' (mirror nmap smp (n_effect rw e)) = map (mres nf) (pieceI I e).
  Proof.
    intros HR (Hc & Hin & Hs) Hn. destruct (Hs nf Hn) as [_ [b Hb]].
    unfold mirror. destruct (n_effect_vars e) as [Ev Ef]. rewrite Ef, Hn. unfold eres. cbn [flat_map e_vars].
    rewrite app_nil_r, Ev. unfold pieceI. rewrite map_map. symmetry.
    apply (Forall2_map_eq_f (nrel_interp nmap) _ _ _ _ (nrel_instances nmap (e_vars e) I I' HR)).
    intros J J' HJ. symmetry. apply (mirror_eval J J' e nf b); assumption.
  Qed.

  Lemma piece_mirror_none I' e : ngf (e_fl e) = None -> eres I' (mirror nmap smp (n_effect rw e)) = [].
  Proof. intros Hn. unfold mirror. destruct (n_effect_vars e) as [_ Ef]. rewrite Ef, Hn. reflexivity. Qed.

  Lemma piece_keys I e x : In x (acts_of (pieceI I e)) ->
    fst (ae_key x) = e_fl e /\ ae_kind x = e_kind e /\ (forall b, e_val e = EBool b -> ae_val x = VBool b).
  Proof.
    intros H. apply in_acts_of in H. unfold pieceI in H. apply in_map_iff in H. destruct H as [J [E _]].
    unfold eval_effect in E. destruct (evals_l false J (e_args e)); [|discriminate].
    destruct (eval false (e_cond e) J) as [[[|]| |]|]; try discriminate.
    destruct (eval false (e_val e) J) as [v|] eqn:Ev; [|discriminate]. inversion E; subst. cbn [ae_key ae_kind ae_val fst].
    repeat split. intros b Hb. rewrite Hb in Ev. cbn [eval] in Ev. inversion Ev. reflexivity.
  Qed.

  Lemma acts_of_mres nf L : acts_of (map (mres nf) L) = map (mk_neg nf) (acts_of L).
  Proof.
    induction L as [|r L IH]; [reflexivity|]. change (r :: L) with ([r] ++ L). rewrite map_app, !acts_of_app, map_app, IH.
    f_equal. destruct r; reflexivity.
  Qed.
  Lemma has_err_mres nf L : has_err (map (mres nf) L) = has_err L.
  Proof.
    induction L as [|r L IH]; [reflexivity|]. change (r :: L) with ([r] ++ L). rewrite map_app, !has_err_app, IH.
    f_equal. destruct r; reflexivity.
  Qed.

  Lemma macts_app l1 l2 : macts (l1 ++ l2) = macts l1 ++ macts l2.
  Proof. unfold macts. apply flat_map_app. Qed.

  Lemma macts_same_fluent f l : (forall x, In x l -> fst (ae_key x) = f) ->
    macts l = match ngf f with Some nf => map (mk_neg nf) l | None => [] end.
  Proof.
    induction l as [|x l IH]; intros H; [destruct (ngf f); reflexivity|].
    unfold macts in *. cbn [flat_map]. rewrite (H x (or_introl eq_refl)), IH by (intros y Hy; apply H; right; exact Hy).
    destruct (ngf f); reflexivity.
  Qed.

  Lemma fired_E1 I I' effs : nrel_interp nmap I I' -> Forall eff_hyp effs ->
    eres I' (map (n_effect rw) effs) = eres I effs.
  Proof.
    intros HR HF. induction HF as [|e l He _ IH]; [reflexivity|]. unfold eres in *. cbn [map flat_map]. rewrite IH.
    f_equal. apply (piece_n_effect I I' e HR He).
  Qed.

  Lemma mirrors_cons I' e l :
    eres I' (flat_map (mirror nmap smp) (map (n_effect rw) (e :: l))) =
    eres I' (mirror nmap smp (n_effect rw e)) ++ eres I' (flat_map (mirror nmap smp) (map (n_effect rw) l)).
  Proof. cbn [map flat_map]. unfold eres. apply flat_map_app. Qed.

  Lemma eres_app2 I l1 l2 : eres I (l1 ++ l2) = eres I l1 ++ eres I l2.
  Proof. unfold eres. apply flat_map_app. Qed.

  Lemma eres_cons I e l : eres I (e :: l) = pieceI I e ++ eres I l.
  Proof. reflexivity. Qed.

  Lemma fired_E2 I I' effs : nrel_interp nmap I I' -> Forall eff_hyp effs ->
    has_err (eres I' (flat_map (mirror nmap smp) (map (n_effect rw) effs))) = true -> has_err (eres I effs) = true.
  Proof.
    intros HR HF. induction HF as [|e l He _ IH]; [intros H; exact H|].
    rewrite mirrors_cons, eres_cons, !has_err_app. intros H.
    apply orb_true_iff in H. apply orb_true_iff. destruct H as [H|H]; [left | right; apply IH; exact H].
    destruct (ngf (e_fl e)) as [nf|] eqn:En.
    - rewrite (piece_mirror I I' e nf HR He En), has_err_mres in H. exact H.
    - rewrite (piece_mirror_none I' e En) in H. discriminate.
  Qed.

  Lemma fired_E3 I I' effs : nrel_interp nmap I I' -> Forall eff_hyp effs ->
    acts_of (eres I' (flat_map (mirror nmap smp) (map (n_effect rw) effs))) = macts (acts_of (eres I effs)).
  Proof.
    intros HR HF. induction HF as [|e l He _ IH]; [reflexivity|].
    rewrite mirrors_cons, eres_cons, !acts_of_app, macts_app, IH. f_equal.
    rewrite (macts_same_fluent (e_fl e)) by (intros x Hx; apply (piece_keys I e x Hx)).
    destruct (ngf (e_fl e)) as [nf|] eqn:En.
    - rewrite (piece_mirror I I' e nf HR He En). apply acts_of_mres.
    - rewrite (piece_mirror_none I' e En). reflexivity.
  Qed.

  Lemma n_effects_fired I I' effs : nrel_interp nmap I I' -> Forall eff_hyp effs ->
    fired false I' (n_effects nmap rw smp effs) =
    match fired false I effs with Some acts => Some (acts ++ macts acts) | None => None end.
  Proof.
    intros HR HF. rewrite !fired_eres, !collect_res_spec. unfold n_effects. cbv zeta.
    rewrite (eres_app2 I'). rewrite has_err_app, acts_of_app, (fired_E1 I I' effs HR HF), (fired_E3 I I' effs HR HF).
    destruct (has_err (eres I effs)) eqn:Eh; [reflexivity|].
    destruct (has_err (eres I' (flat_map (mirror nmap smp) (map (n_effect rw) effs)))) eqn:Eh2; [|reflexivity].
    rewrite (fired_E2 I I' effs HR HF Eh2) in Eh. discriminate.
  Qed.

  (* ================================================================== plan level *)
  (* ---- what the decidable hypotheses give per action *)
  Lemma const_bool_eq e b : const_bool e = Some b -> e = EBool b.
  Proof. destruct e; try discriminate. intros H; inversion H; reflexivity. Qed.

  Lemma clean_split :
    (forall aid a, In (aid, a) (p_actions P) ->
       forallb (clean nmap) (a_pre a) = true /\ forallb (effect_clean nmap) (a_effs a) = true) /\
    forallb (clean nmap) (p_goals P) = true /\ forallb (clean nmap) (p_invs P) = true.
  Proof.
    pose proof Hclean as Hc. unfold problem_clean in Hc. apply andb_true_iff in Hc. destruct Hc as [H12 H3].
    apply andb_true_iff in H12. destruct H12 as [H1 H2]. split; [|split; assumption].
    intros aid a Hin. rewrite forallb_forall in H1. specialize (H1 _ Hin). cbn [snd] in H1.
    apply andb_true_iff in H1. exact H1.
  Qed.

  Lemma const_split aid a e nf : In (aid, a) (p_actions P) -> In e (a_effs a) -> ngf (e_fl e) = Some nf ->
    is_kassign e = true /\ exists b, e_val e = EBool b.
  Proof.
    intros Hin He Hn. pose proof Hconst as Hs. unfold ncr_const in Hs. rewrite forallb_forall in Hs.
    specialize (Hs _ Hin). cbn [snd] in Hs. unfold action_const in Hs. rewrite forallb_forall in Hs.
    pose proof (Hs e He) as H1. rewrite Hn in H1. apply andb_true_iff in H1. destruct H1 as [Hk Hv].
    split; [exact Hk|]. destruct (const_bool (e_val e)) as [b|] eqn:Eb; [|discriminate].
    exists b. apply const_bool_eq; exact Eb.
  Qed.

  Lemma action_eff_hyp aid a : In (aid, a) (p_actions P) -> Forall eff_hyp (a_effs a).
  Proof.
    intros Hin. apply Forall_forall. intros e He. destruct clean_split as [Hc _].
    destruct (Hc aid a Hin) as [_ Hce]. rewrite forallb_forall in Hce. split; [apply Hce; exact He|]. split.
    - unfold conds_of. apply in_or_app. left. apply in_flat_map. exists (aid, a). split; [exact Hin|]. cbn [snd].
      apply in_or_app. right. apply in_map. exact He.
    - intros nf Hn. exact (const_split aid a e nf Hin He Hn).
  Qed.

  (* ---- the fired effect instances of an original action: no key on a negation fluent; the instances on a negated
     fluent are assignments of Booleans, and those on ONE ground negated fluent carry one value *)
  Definition acts_good (acts : list aeff) : Prop :=
    (forall x, In x acts -> isn (fst (ae_key x)) = false) /\
    (forall x nf, In x acts -> ngf (fst (ae_key x)) = Some nf -> is_assign x = true /\ exists b, ae_val x = VBool b) /\
    (forall x y, In x acts -> In y acts -> ngf (fst (ae_key x)) <> None -> ae_key x = ae_key y -> ae_val x = ae_val y).

  Lemma in_acts_eres I effs x : In x (acts_of (eres I effs)) -> exists e, In e effs /\ In x (acts_of (pieceI I e)).
  Proof.
    induction effs as [|e l IH]; [intros []|]. rewrite eres_cons, acts_of_app. intros H. apply in_app_or in H.
    destruct H as [H|H]; [exists e; split; [left; reflexivity | exact H]|].
    destruct (IH H) as [e' [H1 H2]]. exists e'. split; [right; exact H1 | exact H2].
  Qed.

  Lemma fired_good s aid a args acts : In (aid, a) (p_actions P) ->
    all_hold false (mk_interp P s (zip_params (a_params a) args)) (a_pre a) = true ->
    fired false (mk_interp P s (zip_params (a_params a) args)) (a_effs a) = Some acts -> acts_good acts.
  Proof.
    intros Hin Hpre HF. pose proof (Hone s aid a args acts Hin Hpre HF) as H1.
    rewrite fired_eres, collect_res_spec in HF.
    destruct (has_err (eres (mk_interp P s (zip_params (a_params a) args)) (a_effs a))); [discriminate|].
    inversion HF; subst acts. clear HF. destruct clean_split as [Hc _]. destruct (Hc aid a Hin) as [_ Hce].
    rewrite forallb_forall in Hce. split; [|split].
    - intros x Hx. destruct (in_acts_eres _ _ x Hx) as [e [He Hxe]]. destruct (piece_keys _ e x Hxe) as [-> _].
      destruct (effect_clean_split e (Hce e He)) as [Hi _]. exact Hi.
    - intros x nf Hx Hn. destruct (in_acts_eres _ _ x Hx) as [e [He Hxe]].
      destruct (piece_keys _ e x Hxe) as (Kf & Kk & Kv). rewrite Kf in Hn.
      destruct (const_split aid a e nf Hin He Hn) as [Hk [b Hb]]. split.
      + unfold is_assign. rewrite Kk. exact Hk.
      + exists b. apply Kv. exact Hb.
    - exact H1.
  Qed.

  (* ---- assignments and deltas per ground fluent *)
  Lemma filter_nil {A} (p : A -> bool) l : (forall x, In x l -> p x = false) -> filter p l = [].
  Proof.
    induction l as [|x l IH]; intros H; [reflexivity|]. cbn [filter]. rewrite (H x (or_introl eq_refl)).
    apply IH. intros y Hy. apply H. right; exact Hy.
  Qed.

  Lemma forallb_ext_in {A} (f g : A -> bool) l : (forall x, In x l -> f x = g x) -> forallb f l = forallb g l.
  Proof.
    induction l as [|x l IH]; intros H; [reflexivity|]. cbn [forallb]. rewrite (H x (or_introl eq_refl)), IH; [reflexivity|].
    intros y Hy. apply H. right; exact Hy.
  Qed.

  Lemma avals_app k l1 l2 : avals k (l1 ++ l2) = avals k l1 ++ avals k l2.
  Proof. unfold avals. rewrite filter_app, map_app. reflexivity. Qed.
  Lemma deltas_app k l1 l2 : deltas k (l1 ++ l2) = deltas k l1 ++ deltas k l2.
  Proof. unfold deltas. rewrite filter_app, map_app. reflexivity. Qed.

  Lemma gfl_eqb_fst_ne a b : fst a <> fst b -> gfl_eqb a b = false.
  Proof. intros H. unfold gfl_eqb. destruct (fst a =? fst b)%N eqn:E; [apply N.eqb_eq in E; contradiction | reflexivity]. Qed.

  Lemma in_macts acts y : In y (macts acts) ->
    exists x nf, In x acts /\ ngf (fst (ae_key x)) = Some nf /\ y = mk_neg nf x.
  Proof.
    unfold macts. rewrite in_flat_map. intros [x [Hx Hy]]. destruct (ngf (fst (ae_key x))) as [nf|] eqn:En; [|destruct Hy].
    destruct Hy as [<-|[]]. exists x, nf. repeat split; assumption.
  Qed.

  Lemma isn_ne g h : isn g = false -> isn h = true -> h <> g.
  Proof. intros H1 H2 E. subst. congruence. Qed.

  (* a key that is not a negation fluent sees no mirrored instance *)
  Lemma macts_nonneg k acts : isn (fst k) = false -> avals k (macts acts) = [] /\ deltas k (macts acts) = [].
  Proof.
    intros Hk. unfold avals, deltas.
    assert (G : forall y, In y (macts acts) -> gfl_eqb (ae_key y) k = false).
    { intros y Hy. destruct (in_macts acts y Hy) as (x & nf & _ & Hn & ->). apply gfl_eqb_fst_ne.
      cbn [mk_neg ae_key fst]. apply (isn_ne _ _ Hk (ng_isn _ _ Hn)). }
    split; rewrite filter_nil; try reflexivity; intros y Hy; rewrite (G y Hy); reflexivity.
  Qed.

  (* a negation fluent is not touched by the original instances *)
  Lemma acts_neg nf args acts : acts_good acts -> isn nf = true ->
    avals (nf, args) acts = [] /\ deltas (nf, args) acts = [].
  Proof.
    intros [Hg _] Hn. unfold avals, deltas.
    assert (G : forall y, In y acts -> gfl_eqb (ae_key y) (nf, args) = false).
    { intros y Hy. apply gfl_eqb_fst_ne. cbn [fst]. intros E. specialize (Hg y Hy). rewrite E in Hg. congruence. }
    split; rewrite filter_nil; try reflexivity; intros y Hy; rewrite (G y Hy); reflexivity.
  Qed.

  Lemma is_assign_mk_neg nf x : is_assign (mk_neg nf x) = is_assign x.
  Proof. reflexivity. Qed.

  (* the mirrored instances on nf(args) are the instances on f(args), values complemented *)
  Lemma macts_avals f nf args l : ngf f = Some nf ->
    avals (nf, args) (macts l) = map negv (avals (f, args) l).
  Proof.
    intros Hn. induction l as [|x l IH]; [reflexivity|].
    change (macts (x :: l)) with ((match ngf (fst (ae_key x)) with Some nf => [mk_neg nf x] | None => [] end) ++ macts l).
    rewrite avals_app, IH. change (x :: l) with ([x] ++ l). rewrite (avals_app (f, args)), map_app. f_equal.
    unfold avals. cbn [filter].
    destruct (ngf (fst (ae_key x))) as [nf'|] eqn:En.
    - cbn [filter]. rewrite is_assign_mk_neg. unfold gfl_eqb. cbn [mk_neg ae_key fst snd].
      destruct (nf' =? nf)%N eqn:E1.
      + apply N.eqb_eq in E1. subst nf'. rewrite (ng_inj _ _ _ En Hn), N.eqb_refl.
        destruct (values_eqb (snd (ae_key x)) args); destruct (is_assign x); reflexivity.
      + destruct (fst (ae_key x) =? f)%N eqn:E2; [|reflexivity].
        apply N.eqb_eq in E2. rewrite E2 in En. rewrite En in Hn. inversion Hn; subst. rewrite N.eqb_refl in E1. discriminate.
    - unfold gfl_eqb. cbn [fst snd]. destruct (fst (ae_key x) =? f)%N eqn:E2; [|reflexivity].
      apply N.eqb_eq in E2. rewrite E2 in En. congruence.
  Qed.

  Lemma macts_deltas k acts : acts_good acts -> deltas k (macts acts) = [].
  Proof.
    intros (_ & Hg & _). unfold deltas. rewrite filter_nil; [reflexivity|]. intros y Hy.
    destruct (in_macts acts y Hy) as (x & nf & Hx & Hn & ->). rewrite is_assign_mk_neg.
    destruct (Hg x nf Hx Hn) as [-> _]. apply andb_false_r.
  Qed.

  Lemma acts_deltas_negated f nf args acts : acts_good acts -> ngf f = Some nf -> deltas (f, args) acts = [].
  Proof.
    intros (_ & Hg & _) Hn. unfold deltas. rewrite filter_nil; [reflexivity|]. intros y Hy.
    destruct (gfl_eqb (ae_key y) (f, args)) eqn:E; [|reflexivity]. apply gfl_eqb_eq in E.
    assert (Hf : fst (ae_key y) = f) by (rewrite E; reflexivity). rewrite <- Hf in Hn.
    destruct (Hg y nf Hy Hn) as [-> _]. reflexivity.
  Qed.

  Lemma acts_avals_const f nf args acts : acts_good acts -> ngf f = Some nf ->
    exists b, Forall (fun v => v = VBool b) (avals (f, args) acts).
  Proof.
    intros (_ & Hg & Hv) Hn. unfold avals.
    destruct (filter (fun a => gfl_eqb (ae_key a) (f, args) && is_assign a) acts) as [|x0 r] eqn:EF.
    - exists true. constructor.
    - assert (H0 : In x0 (filter (fun a => gfl_eqb (ae_key a) (f, args) && is_assign a) acts)) by (rewrite EF; left; reflexivity).
      apply filter_In in H0. destruct H0 as [Hx0 Hk0]. apply andb_true_iff in Hk0. destruct Hk0 as [Hk0 _].
      apply gfl_eqb_eq in Hk0. assert (Hf0 : fst (ae_key x0) = f) by (rewrite Hk0; reflexivity).
      assert (Hn0 : ngf (fst (ae_key x0)) = Some nf) by (rewrite Hf0; exact Hn).
      destruct (Hg x0 nf Hx0 Hn0) as [_ [b Hb]]. exists b. rewrite <- EF.
      apply Forall_forall. intros v Hv0. apply in_map_iff in Hv0. destruct Hv0 as [y [<- Hy]].
      apply filter_In in Hy. destruct Hy as [Hy Hky]. apply andb_true_iff in Hky. destruct Hky as [Hky _].
      apply gfl_eqb_eq in Hky. rewrite <- Hb. symmetry. apply Hv; [exact Hx0 | exact Hy | congruence | congruence].
  Qed.

  Lemma existsb_const b A : Forall (fun v => v = VBool b) A -> A <> [] ->
    existsb is_vtrue A = b /\ existsb is_vtrue (map negv A) = negb b.
  Proof.
    induction 1 as [|v A Hv HA IH]; intros Hne; [contradiction|]. subst v. cbn [map existsb negv is_vtrue].
    destruct A as [|w A].
    - cbn [map existsb]. destruct b; split; reflexivity.
    - destruct IH as [-> ->]; [discriminate|]. destruct b; split; reflexivity.
  Qed.

  (* ---- fluent declarations of the compiled problem *)
  Lemma ibf_nonneg g : isn g = false -> is_bool_fluent P' g = is_bool_fluent P g.
  Proof.
    intros Hg. unfold is_bool_fluent. change (p_fluents P') with (n_fluents nmap (p_fluents P)).
    induction (p_fluents P) as [|fd fls IH]; [reflexivity|]. unfold n_fluents in *. cbn [flat_map].
    change ((fd :: match ngf (fd_id fd) with Some nf => [{| fd_id := nf; fd_sig := fd_sig fd; fd_ty := fd_ty fd |}] | None => [] end) ++
            flat_map (fun fd0 => fd0 :: match ngf (fd_id fd0) with
                                        | Some nf0 => [{| fd_id := nf0; fd_sig := fd_sig fd0; fd_ty := fd_ty fd0 |}]
                                        | None => [] end) fls)
      with (fd :: (match ngf (fd_id fd) with Some nf => [{| fd_id := nf; fd_sig := fd_sig fd; fd_ty := fd_ty fd |}] | None => [] end ++
            flat_map (fun fd0 => fd0 :: match ngf (fd_id fd0) with
                                        | Some nf0 => [{| fd_id := nf0; fd_sig := fd_sig fd0; fd_ty := fd_ty fd0 |}]
                                        | None => [] end) fls)).
    cbn [existsb]. f_equal. rewrite existsb_app, IH.
    destruct (ngf (fd_id fd)) as [nf|] eqn:En; [|reflexivity]. cbn [existsb fd_id].
    destruct (nf =? g)%N eqn:E; [|reflexivity]. apply N.eqb_eq in E. subst. rewrite (ng_isn _ _ En) in Hg. discriminate.
  Qed.

  Lemma in_n_fluents fd nf : In fd (p_fluents P) -> ngf (fd_id fd) = Some nf ->
    In {| fd_id := nf; fd_sig := fd_sig fd; fd_ty := fd_ty fd |} (p_fluents P').
  Proof.
    intros Hin Hn. change (p_fluents P') with (n_fluents nmap (p_fluents P)). unfold n_fluents. apply in_flat_map.
    exists fd. split; [exact Hin|]. right. rewrite Hn. left. reflexivity.
  Qed.

  Lemma ibf_neg f nf : ngf f = Some nf -> is_bool_fluent P f = true /\ is_bool_fluent P' nf = true.
  Proof.
    intros Hn. pose proof Hmap as Hm. unfold nmap_ok in Hm. apply andb_true_iff in Hm. destruct Hm as [Hm _].
    apply andb_true_iff in Hm. destruct Hm as [_ Hdecl]. rewrite forallb_forall in Hdecl.
    specialize (Hdecl _ (lookupN_In _ _ _ Hn)). cbn [fst] in Hdecl. apply existsb_exists in Hdecl.
    destruct Hdecl as [fd [Hfd E]]. apply N.eqb_eq in E. destruct map_facts as (_ & _ & _ & Hty).
    rewrite <- E in Hn. pose proof (Hty fd nf Hfd Hn) as Ety. unfold is_bool_fluent. split; apply existsb_exists.
    - exists fd. split; [exact Hfd|]. rewrite E, N.eqb_refl, Ety. reflexivity.
    - exists {| fd_id := nf; fd_sig := fd_sig fd; fd_ty := fd_ty fd |}. split; [apply in_n_fluents; assumption|].
      cbn [fd_id fd_ty]. rewrite N.eqb_refl, Ety. reflexivity.
  Qed.

  (* ---- the per-fluent combination *)
  Lemma spec_fluent_nonneg s s' acts k : neg_rel nmap s s' -> isn (fst k) = false ->
    spec_fluent P' s' (acts ++ macts acts) k = spec_fluent P s acts k.
  Proof.
    intros [HR _] Hk. unfold spec_fluent. rewrite avals_app, deltas_app.
    destruct (macts_nonneg k acts Hk) as [-> ->]. rewrite !app_nil_r, (ibf_nonneg _ Hk), (HR _ _ Hk). reflexivity.
  Qed.

  Lemma spec_fluent_neg s s' acts f nf args : neg_rel nmap s s' -> acts_good acts -> ngf f = Some nf ->
    match spec_fluent P s acts (f, args), spec_fluent P' s' (acts ++ macts acts) (nf, args) with
    | CUnchanged, CUnchanged => True
    | CVal v, CVal v' => Some v' = compl (Some v)
    | _, _ => False
    end.
  Proof.
    intros HR Hg Hn. unfold spec_fluent. cbn [fst snd]. rewrite avals_app, deltas_app.
    destruct (acts_neg nf args acts Hg (ng_isn _ _ Hn)) as [-> ->]. cbn [app].
    rewrite (macts_avals f nf args acts Hn), (macts_deltas _ acts Hg), (acts_deltas_negated f nf args acts Hg Hn).
    destruct (ibf_neg f nf Hn) as [-> ->]. destruct (acts_avals_const f nf args acts Hg Hn) as [b Hb].
    destruct (avals (f, args) acts) as [|a A] eqn:EA; [exact I|].
    destruct (existsb_const b (a :: A) Hb) as [E1 E2]; [discriminate|].
    cbn [map combine]. change (negv a :: map negv A) with (map negv (a :: A)). rewrite E1, E2. reflexivity.
  Qed.

  Lemma effects_ok_rel s s' acts : neg_rel nmap s s' -> acts_good acts ->
    spec_effects_ok P' s' (acts ++ macts acts) = spec_effects_ok P s acts.
  Proof.
    intros HR Hg. unfold spec_effects_ok. rewrite forallb_app.
    replace (forallb (fun a => match spec_fluent P' s' (acts ++ macts acts) (ae_key a) with CFail => false | _ => true end) (macts acts))
      with true.
    - rewrite andb_true_r. apply forallb_ext_in. intros x Hx. pose proof Hg as [Hg1 _].
      rewrite (spec_fluent_nonneg s s' acts (ae_key x) HR (Hg1 x Hx)). reflexivity.
    - symmetry. apply forallb_forall. intros y Hy. destruct (in_macts acts y Hy) as (x & nf & Hx & Hn & ->).
      cbn [mk_neg ae_key]. pose proof (spec_fluent_neg s s' acts _ nf (snd (ae_key x)) HR Hg Hn) as H.
      destruct (spec_fluent P s acts (fst (ae_key x), snd (ae_key x)));
        destruct (spec_fluent P' s' (acts ++ macts acts) (nf, snd (ae_key x))); try reflexivity; destruct H.
  Qed.

  (* ---- successor states stay related *)
  Lemma succ_rel s s' acts : neg_rel nmap s s' -> acts_good acts ->
    neg_rel nmap (spec_succ P s acts) (spec_succ P' s' (acts ++ macts acts)).
  Proof.
    intros HR Hg. split.
    - intros g args Hgn. unfold spec_succ. rewrite (spec_fluent_nonneg s s' acts (g, args) HR Hgn).
      destruct HR as [H1 _]. rewrite (H1 _ _ Hgn). reflexivity.
    - intros f nf args Hn. unfold spec_succ. pose proof (spec_fluent_neg s s' acts f nf args HR Hg Hn) as H.
      destruct (spec_fluent P s acts (f, args)); destruct (spec_fluent P' s' (acts ++ macts acts) (nf, args));
        try (destruct H; fail).
      + destruct HR as [_ H2]. apply H2. exact Hn.
      + exact H.
  Qed.

  (* ---- conditions *)
  Lemma all_hold_map_rel J J' (f : expr -> expr) l :
    (forall x, In x l -> eval false (f x) J' = eval false x J) -> all_hold false J' (map f l) = all_hold false J l.
  Proof.
    induction l as [|x l IH]; intros H; [reflexivity|]. cbn [map].
    change (all_hold false J' (f x :: map f l)) with (holds false J' (f x) && all_hold false J' (map f l)).
    change (all_hold false J (x :: l)) with (holds false J x && all_hold false J l).
    unfold holds at 1 2. rewrite (H x (or_introl eq_refl)), IH; [reflexivity|]. intros y Hy. apply H. right; exact Hy.
  Qed.

  Lemma all_hold_clean J J' l : nrel_interp nmap J J' -> forallb (clean nmap) l = true ->
    all_hold false J' l = all_hold false J l.
  Proof.
    intros HR Hc. rewrite <- (map_id l) at 1. apply all_hold_map_rel. intros x Hx.
    rewrite forallb_forall in Hc. apply (eval_clean nmap false x J J' HR). apply Hc. exact Hx.
  Qed.

  Lemma in_conds_pre aid a x : In (aid, a) (p_actions P) -> In x (a_pre a) -> In x (conds_of P).
  Proof.
    intros Hin Hx. unfold conds_of. apply in_or_app. left. apply in_flat_map. exists (aid, a). split; [exact Hin|].
    cbn [snd]. apply in_or_app. left. exact Hx.
  Qed.
  Lemma in_conds_goal x : In x (p_goals P) -> In x (conds_of P).
  Proof. intros Hx. unfold conds_of. apply in_or_app. right. apply in_or_app. left. exact Hx. Qed.
  Lemma in_conds_inv x : In x (p_invs P) -> In x (conds_of P).
  Proof. intros Hx. unfold conds_of. apply in_or_app. right. apply in_or_app. right. exact Hx. Qed.

  Lemma pre_rel J J' aid a : nrel_interp nmap J J' -> In (aid, a) (p_actions P) ->
    all_hold false J' (a_pre (n_action nmap rw smp a)) = all_hold false J (a_pre a).
  Proof.
    intros HR Hin. cbn [n_action a_pre]. rewrite all_hold_add_pres. apply all_hold_map_rel. intros x Hx.
    apply Hrw; [apply (in_conds_pre aid a x Hin Hx) | exact HR].
  Qed.

  Lemma goals_rel t t' : neg_rel nmap t t' -> goals_hold false P' t' = goals_hold false P t.
  Proof.
    intros HR. unfold goals_hold. change (p_goals P') with (add_goals (map rw (p_goals P))). unfold add_goals.
    rewrite all_hold_filter_true. apply all_hold_map_rel. intros x Hx.
    apply Hrw; [apply in_conds_goal; exact Hx | apply nrel_mk; exact HR].
  Qed.

  (* ---- bounded types: the negation fluents are Boolean, they add no bound *)
  Definition binv_of (Q : problem) (fd : fdecl) : list expr :=
    match fd_ty fd with
    | FNum lo hi =>
        flat_map (fun a =>
          let fe := EFluent (fd_id fd) (map value_expr a) in
          (match lo with Some l => [ELe (num_node l) fe] | None => [] end) ++
          (match hi with Some h => [ELe fe (num_node h)] | None => [] end))
          (arg_tuples Q (fd_sig fd))
    | _ => []
    end.

  Lemma bound_invs_binv Q : bound_invs Q = flat_map (binv_of Q) (p_fluents Q).
  Proof. reflexivity. Qed.

  Lemma bound_invs_neg : bound_invs P' = bound_invs P.
  Proof.
    rewrite !bound_invs_binv. change (p_fluents P') with (n_fluents nmap (p_fluents P)).
    rewrite (flat_map_ext (binv_of P') (binv_of P))
      by (intros fd; unfold binv_of; destruct (fd_ty fd); try reflexivity;
          rewrite (arg_tuples_objs P P' _ eq_refl); reflexivity).
    destruct map_facts as (_ & _ & _ & Hty).
    assert (G : forall fls, (forall fd, In fd fls -> In fd (p_fluents P)) ->
                flat_map (binv_of P) (n_fluents nmap fls) = flat_map (binv_of P) fls).
    { induction fls as [|fd fls IH]; intros Hsub; [reflexivity|]. unfold n_fluents in *. cbn [flat_map].
      rewrite flat_map_app, IH by (intros fd0 H0; apply Hsub; right; exact H0). f_equal.
      cbn [flat_map]. destruct (ngf (fd_id fd)) as [nf|] eqn:En; cbn [flat_map]; rewrite ?app_nil_r; [|reflexivity].
      unfold binv_of at 2. cbn [fd_ty]. rewrite (Hty fd nf (Hsub fd (or_introl eq_refl)) En). rewrite app_nil_r. reflexivity. }
    apply G. auto.
  Qed.

  Lemma clean_num_node q : clean nmap (num_node q) = true.
  Proof. unfold num_node. destruct (Z.pos (Qden (this q)) =? 1)%Z; reflexivity. Qed.
  Lemma clean_value_expr v : clean nmap (value_expr v) = true.
  Proof. destruct v; try reflexivity. apply clean_num_node. Qed.
  Lemma clean_value_exprs a : forallb (clean nmap) (map value_expr a) = true.
  Proof. induction a as [|v a IH]; [reflexivity|]. cbn [map forallb]. rewrite clean_value_expr, IH. reflexivity. Qed.

  Lemma bound_invs_clean : forallb (clean nmap) (bound_invs P) = true.
  Proof.
    apply forallb_forall. intros e He. rewrite bound_invs_binv in He. apply in_flat_map in He.
    destruct He as [fd [Hfd He]]. destruct map_facts as (_ & _ & Hnn & _). specialize (Hnn fd Hfd).
    unfold binv_of in He. destruct (fd_ty fd) as [|lo hi|]; try (destruct He; fail).
    apply in_flat_map in He. destruct He as [a [_ He]]. cbv zeta in He. apply in_app_or in He.
    destruct He as [He|He].
    - destruct lo as [l|]; [|destruct He]. destruct He as [<-|[]]. cbn [clean].
      rewrite clean_num_node, Hnn, clean_value_exprs. reflexivity.
    - destruct hi as [h|]; [|destruct He]. destruct He as [<-|[]]. cbn [clean].
      rewrite clean_num_node, Hnn, clean_value_exprs. reflexivity.
  Qed.

  Lemma invariants_rel t t' : neg_rel nmap t t' -> invariants_ok false P' t' = invariants_ok false P t.
  Proof.
    intros HR. unfold invariants_ok. rewrite bound_invs_neg, !all_hold_app'.
    pose proof (nrel_mk t t' [] HR) as HI. f_equal.
    - change (p_invs P') with (filter (fun i => negb (is_true i)) (map (fun i => smp (rw i)) (p_invs P))).
      rewrite all_hold_filter_true. apply all_hold_map_rel. intros x Hx. rewrite Hsmp.
      apply Hrw; [apply in_conds_inv; exact Hx | exact HI].
    - apply all_hold_clean; [exact HI | exact bound_invs_clean].
  Qed.

  (* ---- one step: the compiled action is applicable exactly when the original one is, and the successors are
     related again *)
  Definition orel (o o' : option state) : Prop :=
    match o, o' with Some t, Some t' => neg_rel nmap t t' | None, None => True | _, _ => False end.

  Theorem neg_step s s' aid a args : neg_rel nmap s s' -> In (aid, a) (p_actions P) ->
    orel (spec_step false P s a args) (spec_step false P' s' (n_action nmap rw smp a) args).
  Proof.
    intros HR Hin. rewrite !spec_step_eq.
    change (a_params (n_action nmap rw smp a)) with (a_params a).
    change (a_effs (n_action nmap rw smp a)) with (n_effects nmap rw smp (a_effs a)).
    pose proof (nrel_mk s s' (zip_params (a_params a) args) HR) as HI.
    rewrite (pre_rel _ _ aid a HI Hin).
    destruct (all_hold false (mk_interp P s (zip_params (a_params a) args)) (a_pre a)) eqn:Epre; cbn [negb]; [|exact I].
    rewrite (n_effects_fired _ _ _ HI (action_eff_hyp aid a Hin)).
    destruct (fired false (mk_interp P s (zip_params (a_params a) args)) (a_effs a)) as [acts|] eqn:EF; [|exact I].
    pose proof (fired_good s aid a args acts Hin Epre EF) as Hg.
    rewrite (effects_ok_rel s s' acts HR Hg). destruct (negb (spec_effects_ok P s acts)); [exact I|].
    pose proof (succ_rel s s' acts HR Hg) as HS. rewrite (invariants_rel _ _ HS).
    destruct (invariants_ok false P (spec_succ P s acts)); [exact HS | exact I].
  Qed.

  Lemma neg_lookup aid : lookup_action P' aid = option_map (n_action nmap rw smp) (lookup_action P aid).
  Proof.
    unfold lookup_action. change (p_actions P') with (map (fun ia => (fst ia, n_action nmap rw smp (snd ia))) (p_actions P)).
    induction (p_actions P) as [|[k a] l IH]; [reflexivity|]. cbn [map lookupN fst snd].
    destruct (aid =? k)%N; [reflexivity | exact IH].
  Qed.

  Theorem neg_run pi : forall s s', neg_rel nmap s s' ->
    orel (run P (spec_step false P) s pi) (run P' (spec_step false P') s' pi).
  Proof.
    induction pi as [|[aid args] pi IH]; intros s s' HR; cbn [run]; [exact HR|].
    rewrite neg_lookup. destruct (lookup_action P aid) as [a|] eqn:EL; cbn [option_map]; [|exact I].
    pose proof (neg_step s s' aid a args HR (lookupN_In _ _ _ EL)) as HS. unfold orel in HS.
    destruct (spec_step false P s a args) as [t|];
      destruct (spec_step false P' s' (n_action nmap rw smp a) args) as [t'|]; try (destruct HS; fail).
    - apply IH. exact HS.
    - exact I.
  Qed.

  Theorem neg_valid_plan s s' pi : neg_rel nmap s s' -> valid_plan false P' s' pi = valid_plan false P s pi.
  Proof.
    intros HR. unfold valid_plan. pose proof (neg_run pi s s' HR) as H. unfold orel in H.
    destruct (run P (spec_step false P) s pi) as [t|]; destruct (run P' (spec_step false P') s' pi) as [t'|];
      try (destruct H; fail); [apply goals_rel; exact H | reflexivity].
  Qed.
End NegProofs.

(* ---- [ncr_safe] is a decidable sufficient condition for [ncr_const] and [one_value] *)
Lemma ncr_safe_const nmap P : ncr_safe nmap P = true -> ncr_const nmap P = true.
Proof.
  unfold ncr_safe, ncr_const. rewrite !forallb_forall. intros H ia Hia. specialize (H ia Hia).
  unfold action_safe, action_const in *. rewrite forallb_forall in *. intros e He. specialize (H e He).
  destruct (ng nmap (e_fl e)); [|reflexivity]. apply andb_true_iff in H. destruct H as [-> H].
  destruct (const_bool (e_val e)); [reflexivity | discriminate].
Qed.

Lemma ncr_safe_one_value nmap P : ncr_safe nmap P = true -> one_value nmap P.
Proof.
  intros Hs s aid a args acts Hin _ HF x y Hx Hy Hn Hk.
  rewrite fired_eres, collect_res_spec in HF.
  destruct (has_err (eres (mk_interp P s (zip_params (a_params a) args)) (a_effs a))); [discriminate|].
  inversion HF; subst acts. clear HF.
  destruct (in_acts_eres _ _ x Hx) as [e [He Hxe]]. destruct (in_acts_eres _ _ y Hy) as [e2 [He2 Hye]].
  destruct (piece_keys _ e x Hxe) as (Kf & _ & Kv). destruct (piece_keys _ e2 y Hye) as (Kf2 & _ & Kv2).
  unfold ncr_safe in Hs. rewrite forallb_forall in Hs. specialize (Hs _ Hin). cbn [snd] in Hs.
  unfold action_safe in Hs. rewrite forallb_forall in Hs. specialize (Hs e He).
  rewrite Kf in Hn. destruct (ng nmap (e_fl e)); [|contradiction]. apply andb_true_iff in Hs. destruct Hs as [_ Hs].
  destruct (const_bool (e_val e)) as [b|] eqn:Eb; [|discriminate]. rewrite forallb_forall in Hs. specialize (Hs e2 He2).
  assert (Ef : e_fl e2 = e_fl e) by (rewrite <- Kf, <- Kf2, Hk; reflexivity). rewrite Ef, N.eqb_refl in Hs.
  destruct (const_bool (e_val e2)) as [b2|] eqn:Eb2; [|discriminate]. apply Bool.eqb_prop in Hs. subst b2.
  apply const_bool_eq in Eb. apply const_bool_eq in Eb2. rewrite (Kv _ Eb), (Kv2 _ Eb2). reflexivity.
Qed.

(* the plan-level equation under the decidable hypotheses only (the statement of C06_LA_ncr_sound_goal) *)
Theorem neg_valid_plan_safe nmap rw smp P :
  nmap_ok nmap P = true -> problem_clean nmap P = true -> ncr_safe nmap P = true -> rw_ok nmap rw P -> smp_exact smp ->
  forall s s' pi, neg_rel nmap s s' ->
    valid_plan false (neg_compile nmap rw smp P) s' pi = valid_plan false P s pi.
Proof.
  intros Hm Hc Hs Hr Hsm s s' pi HR.
  exact (neg_valid_plan nmap rw smp P Hm Hc (ncr_safe_const nmap P Hs) (ncr_safe_one_value nmap P Hs) Hr Hsm s s' pi HR).
Qed.

(* one step and whole runs under the decidable hypotheses *)
Theorem neg_step_safe nmap rw smp P :
  nmap_ok nmap P = true -> problem_clean nmap P = true -> ncr_safe nmap P = true -> rw_ok nmap rw P -> smp_exact smp ->
  forall s s' aid a args, neg_rel nmap s s' -> lookup_action P aid = Some a ->
    lookup_action (neg_compile nmap rw smp P) aid = Some (n_action nmap rw smp a) /\
    orel nmap (spec_step false P s a args) (spec_step false (neg_compile nmap rw smp P) s' (n_action nmap rw smp a) args).
Proof.
  intros Hm Hc Hs Hr Hsm s s' aid a args HR HL. split.
  - rewrite neg_lookup, HL. reflexivity.
  - exact (neg_step nmap rw smp P Hm Hc (ncr_safe_const nmap P Hs) (ncr_safe_one_value nmap P Hs) Hr Hsm s s' aid a args HR
             (lookupN_In _ _ _ HL)).
Qed.

Theorem neg_run_safe nmap rw smp P :
  nmap_ok nmap P = true -> problem_clean nmap P = true -> ncr_safe nmap P = true -> rw_ok nmap rw P -> smp_exact smp ->
  forall pi s s', neg_rel nmap s s' ->
    orel nmap (run P (spec_step false P) s pi)
              (run (neg_compile nmap rw smp P) (spec_step false (neg_compile nmap rw smp P)) s' pi).
Proof.
  intros Hm Hc Hs Hr Hsm pi s s' HR.
  exact (neg_run nmap rw smp P Hm Hc (ncr_safe_const nmap P Hs) (ncr_safe_one_value nmap P Hs) Hr Hsm pi s s' HR).
Qed.

(* completeness direction and the equivalence, as implications *)
Theorem neg_complete nmap rw smp P :
  nmap_ok nmap P = true -> problem_clean nmap P = true -> ncr_const nmap P = true -> one_value nmap P ->
  rw_ok nmap rw P -> smp_exact smp ->
  forall s s' pi, neg_rel nmap s s' ->
    valid_plan false P s pi = true -> valid_plan false (neg_compile nmap rw smp P) s' pi = true.
Proof. intros Hm Hc Hk Ho Hr Hsm s s' pi HR H. rewrite (neg_valid_plan nmap rw smp P Hm Hc Hk Ho Hr Hsm s s' pi HR). exact H. Qed.

Theorem neg_complete_safe nmap rw smp P :
  nmap_ok nmap P = true -> problem_clean nmap P = true -> ncr_safe nmap P = true -> rw_ok nmap rw P -> smp_exact smp ->
  forall s s' pi, neg_rel nmap s s' ->
    valid_plan false P s pi = true -> valid_plan false (neg_compile nmap rw smp P) s' pi = true.
Proof. intros Hm Hc Hs Hr Hsm s s' pi HR H. rewrite (neg_valid_plan_safe nmap rw smp P Hm Hc Hs Hr Hsm s s' pi HR). exact H. Qed.

Theorem neg_same_plans_safe nmap rw smp P :
  nmap_ok nmap P = true -> problem_clean nmap P = true -> ncr_safe nmap P = true -> rw_ok nmap rw P -> smp_exact smp ->
  forall s s' pi, neg_rel nmap s s' ->
    (valid_plan false P s pi = true <-> valid_plan false (neg_compile nmap rw smp P) s' pi = true).
Proof. intros Hm Hc Hs Hr Hsm s s' pi HR. rewrite (neg_valid_plan_safe nmap rw smp P Hm Hc Hs Hr Hsm s s' pi HR). tauto. Qed.

(* [rw_ok] for the reference rewriting: decidable on the conditions of the problem *)
Lemma rw_ok_nrw nmap P : forallb (nrw_dom nmap) (conds_of P) = true -> rw_ok nmap (nrw (ng nmap)) P.
Proof.
  intros H e He I I' HR. rewrite forallb_forall in H. apply (nrw_exact nmap e I I' HR). apply H. exact He.
Qed.

(* ---- a concrete instance for the non-vacuity examples: door (fluent 0, negation fluent 5), inside (fluent 1);
   open: pre not door, door := true;  enter: pre door, inside := true;  close: pre door, door := false;
   goal inside and not door *)
Module NegEx.
  Definition beff (f : N) (v : expr) : effect :=
    {| e_fl := f; e_args := []; e_val := v; e_cond := EBool true; e_kind := KAssign; e_vars := []; e_isbool := true |}.
  Definition fl0 (f : N) : expr := EFluent f [].
  Definition a_open : action := {| a_params := []; a_pre := [ENot (fl0 0)]; a_effs := [beff 0 (EBool true)] |}.
  Definition a_enter : action := {| a_params := []; a_pre := [fl0 0]; a_effs := [beff 1 (EBool true)] |}.
  Definition a_close : action := {| a_params := []; a_pre := [fl0 0]; a_effs := [beff 0 (EBool false)] |}.
  Definition bfd (f : N) : fdecl := {| fd_id := f; fd_sig := []; fd_ty := FBool |}.
  Definition Pe : problem :=
    {| p_objs := []; p_ifun := []; p_fluents := [bfd 0; bfd 1];
       p_actions := [(0%N, a_open); (1%N, a_enter); (2%N, a_close)]; p_goals := [fl0 1; ENot (fl0 0)]; p_invs := [] |}.
  Definition nm : list (N * N) := [(0%N, 5%N)].
  Definition idf (e : expr) : expr := e.
  Definition se : state := fun f a => Some (VBool false).
  Definition se' : state := fun f a => if (f =? 5)%N then Some (VBool true) else se f a.
  Definition Pe' : problem := neg_compile nm (nrw (ng nm)) idf Pe.
  Definition plan : list (N * list value) := [(0%N, []); (1%N, []); (2%N, [])].
  Lemma rel : neg_rel nm se se'.
  Proof.
    split.
    - intros g args Hg. unfold se'. destruct (g =? 5)%N eqn:E; [|reflexivity].
      apply N.eqb_eq in E. subst. vm_compute in Hg. discriminate.
    - intros f nf args Hn. unfold ng, nm in Hn. cbn [lookupN] in Hn.
      destruct (f =? 0)%N eqn:E; [|discriminate]. inversion Hn; subst. apply N.eqb_eq in E. subst. reflexivity.
  Qed.
  Lemma rwok : rw_ok nm (nrw (ng nm)) Pe.
  Proof. apply rw_ok_nrw. vm_compute. reflexivity. Qed.
  Lemma smpok : smp_exact idf.
  Proof. intros e I. reflexivity. Qed.
End NegEx.

(* ---- the add-after-delete witness: without [ncr_safe] the compiled problem accepts a plan the original rejects.
   f, c true initially; action 0: f := false; if c then f := true (add-after-delete keeps f true, and the mirrored pair
   nf := true; if c then nf := false keeps nf true as well); action 1: pre not f, eff g := true; goal g. *)
Module NegWitness.
  Definition beff (f : N) (v c : expr) : effect :=
    {| e_fl := f; e_args := []; e_val := v; e_cond := c; e_kind := KAssign; e_vars := []; e_isbool := true |}.
  Definition fl0 (f : N) : expr := EFluent f [].
  Definition aa : action :=
    {| a_params := []; a_pre := []; a_effs := [beff 0 (EBool false) (EBool true); beff 0 (EBool true) (fl0 1)] |}.
  Definition ab : action := {| a_params := []; a_pre := [ENot (fl0 0)]; a_effs := [beff 2 (EBool true) (EBool true)] |}.
  Definition bfd (f : N) : fdecl := {| fd_id := f; fd_sig := []; fd_ty := FBool |}.
  Definition Pw : problem :=
    {| p_objs := []; p_ifun := []; p_fluents := [bfd 0; bfd 1; bfd 2];
       p_actions := [(0%N, aa); (1%N, ab)]; p_goals := [fl0 2]; p_invs := [] |}.
  Definition nm : list (N * N) := [(0%N, 3%N)].
  Definition idf (e : expr) : expr := e.
  Definition sw : state := fun f a => Some (VBool ((f =? 0)%N || (f =? 1)%N)).
  Definition sw' : state := fun f a => if (f =? 3)%N then Some (VBool false) else sw f a.
  Definition Pw' : problem := neg_compile nm (nrw (ng nm)) idf Pw.
  Definition plan : list (N * list value) := [(0%N, []); (1%N, [])].
End NegWitness.

Lemma ncr_unsafe_witness :
  nmap_ok NegWitness.nm NegWitness.Pw = true /\ problem_clean NegWitness.nm NegWitness.Pw = true /\
  ncr_safe NegWitness.nm NegWitness.Pw = false /\
  neg_rel NegWitness.nm NegWitness.sw NegWitness.sw' /\
  valid_plan false NegWitness.Pw' NegWitness.sw' NegWitness.plan = true /\
  valid_plan false NegWitness.Pw NegWitness.sw NegWitness.plan = false.
Proof.
  split; [vm_compute; reflexivity|]. split; [vm_compute; reflexivity|]. split; [vm_compute; reflexivity|].
  split; [|split; vm_compute; reflexivity].
  split.
  - intros g args Hg. unfold NegWitness.sw'. destruct (g =? 3)%N eqn:E; [|reflexivity].
    apply N.eqb_eq in E. subst. vm_compute in Hg. discriminate.
  - intros f nf args Hn. unfold ng, NegWitness.nm in Hn. cbn [lookupN] in Hn.
    destruct (f =? 0)%N eqn:E; [|discriminate]. inversion Hn; subst. apply N.eqb_eq in E. subst. reflexivity.
Qed.
