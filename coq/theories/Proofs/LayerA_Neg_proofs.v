(* C06 / C07, Layer A — NegativeConditionsRemover: proofs about Compilers/LayerA_Neg.v.
   Invariant: every negation fluent holds the complement of its fluent ([neg_rel]).  Under it the rewritten conditions
   have the value of the original ones (hypothesis [rw_ok]), every expression of the original problem evaluates alike
   ([eval_clean]: it mentions no negation fluent), the compiled action fires the original effect instances followed by
   their mirrors ([n_effects_fired]), and the successor states are related again provided the assignments that fire on
   one ground negated fluent carry one value ([ncr_safe]). *)
From Coq Require Import List ZArith NArith QArith Qcanon Bool Lia.
Import ListNotations.
Require Import UPV.Core.Expr UPV.Core.Eval UPV.Core.Interp UPV.Planning.Problem UPV.Planning.Sem.
Require Import UPV.Proofs.Eval_lemmas UPV.Proofs.Sem_proofs UPV.Proofs.Step_proofs.
Require Import UPV.Walkers.Subst UPV.Proofs.Subst_proofs.
Require Import UPV.Compilers.Variants UPV.Compilers.LayerA_Defs UPV.Compilers.LayerA_Quant UPV.Compilers.LayerA_Neg.
Require Import UPV.Proofs.LayerA_base UPV.Proofs.LayerA_Quant_proofs UPV.Proofs.LayerA_Inv_proofs.
Local Open Scope nat_scope.

Section NegEval.
  Variable nmap : list (N * N).

  Lemma nrel_bind I I' v o : nrel_interp nmap I I' -> nrel_interp nmap (bind_var I v o) (bind_var I' v o).
  Proof.
    intros (H1 & H2 & H3 & H4 & H5 & H6). repeat split; simpl; auto. intros w. destruct (w =? v)%N; auto.
  Qed.

  Lemma nrel_instances vs : forall I I', nrel_interp nmap I I' ->
    Forall2 (nrel_interp nmap) (instances I vs) (instances I' vs).
  Proof.
    induction vs as [|[v t] vs IH]; intros I I' H; simpl.
    - constructor; [exact H | constructor].
    - assert (HH := H). destruct H as (H1 & H2 & H3 & H4 & H5 & H6). rewrite H4.
      induction (objs I t) as [|o os IHo]; simpl; [constructor|].
      apply Forall2_app; [apply IH, nrel_bind, HH | exact IHo].
  Qed.

  Lemma Forall2_map_eq_f {A B} (R : A -> A -> Prop) (f g : A -> B) l l' :
    Forall2 R l l' -> (forall x y, R x y -> f x = g y) -> map f l = map g l'.
  Proof. induction 1; intros H'; simpl; [reflexivity|]. f_equal; auto. Qed.

  (* an expression that mentions no negation fluent does not see the difference *)
  Lemma eval_clean sc e : forall I I', nrel_interp nmap I I' -> clean nmap e = true -> eval sc e I' = eval sc e I.
  Proof.
    induction e using expr_ind'; intros I I' HR Hc; pose proof HR as (Hp & Hv & Hi & Ho & Hf & _);
      try reflexivity; cbn [clean] in Hc; nfsplit;
      try (assert (HF : Forall (fun x => eval sc x I' = eval sc x I) l)
             by (rewrite Forall_forall in *; intros x Hx; apply H; [exact Hx | exact HR |];
                 match goal with Hq : forallb _ _ = true |- _ => rewrite forallb_forall in Hq; apply Hq; exact Hx end));
      try (assert (HF : Forall (fun x => eval sc x I' = eval sc x I) args)
             by (rewrite Forall_forall in *; intros x Hx; apply H; [exact Hx | exact HR |];
                 match goal with Hq : forallb _ _ = true |- _ => rewrite forallb_forall in Hq; apply Hq; exact Hx end)).
    - cbn [eval]. apply Hp.
    - cbn [eval]. apply Hv.
    - rewrite !eval_EFluent.
      replace (evals sc I' args) with (evals sc I args)
        by (clear -HF; induction HF as [|x l' Hx _ IH']; [reflexivity|]; cbn [evals]; rewrite Hx, IH'; reflexivity).
      destruct (evals sc I args); [|reflexivity]. apply Hf.
      match goal with Hn : negb (is_negb nmap f) = true |- _ => apply negb_true_iff in Hn; exact Hn end.
    - rewrite !eval_EIFun.
      replace (evals sc I' args) with (evals sc I args)
        by (clear -HF; induction HF as [|x l' Hx _ IH']; [reflexivity|]; cbn [evals]; rewrite Hx, IH'; reflexivity).
      destruct (evals sc I args); [|reflexivity]. apply Hi.
    - rewrite !eval_EAnd.
      replace (ebools sc I' l) with (ebools sc I l)
        by (clear -HF; induction HF as [|x l' Hx _ IH']; [reflexivity|]; cbn [ebools]; rewrite Hx, IH'; reflexivity).
      reflexivity.
    - rewrite !eval_EOr.
      replace (ebools sc I' l) with (ebools sc I l)
        by (clear -HF; induction HF as [|x l' Hx _ IH']; [reflexivity|]; cbn [ebools]; rewrite Hx, IH'; reflexivity).
      reflexivity.
    - rewrite !eval_ENot, (IHe I I' HR) by assumption. reflexivity.
    - rewrite !eval_EImplies, (IHe1 I I' HR), (IHe2 I I' HR) by assumption. reflexivity.
    - rewrite !eval_EIff, (IHe1 I I' HR), (IHe2 I I' HR) by assumption. reflexivity.
    - rewrite !eval_EExists. f_equal.
      rewrite (Forall2_map_eq_f (nrel_interp nmap) (fun J => as_bool (eval sc e J)) (fun J => as_bool (eval sc e J))
                 _ _ (nrel_instances vs I I' HR)); [reflexivity|].
      intros x y Hxy. rewrite (IHe x y Hxy) by assumption. reflexivity.
    - rewrite !eval_EForall. f_equal.
      rewrite (Forall2_map_eq_f (nrel_interp nmap) (fun J => as_bool (eval sc e J)) (fun J => as_bool (eval sc e J))
                 _ _ (nrel_instances vs I I' HR)); [reflexivity|].
      intros x y Hxy. rewrite (IHe x y Hxy) by assumption. reflexivity.
    - rewrite !eval_EPlus.
      replace (enums sc I' l) with (enums sc I l)
        by (clear -HF; induction HF as [|x l' Hx _ IH']; [reflexivity|]; cbn [enums]; rewrite Hx, IH'; reflexivity).
      reflexivity.
    - rewrite !eval_EMinus, (IHe1 I I' HR), (IHe2 I I' HR) by assumption. reflexivity.
    - rewrite !eval_ETimes.
      replace (enums sc I' l) with (enums sc I l)
        by (clear -HF; induction HF as [|x l' Hx _ IH']; [reflexivity|]; cbn [enums]; rewrite Hx, IH'; reflexivity).
      reflexivity.
    - rewrite !eval_EDiv, (IHe1 I I' HR), (IHe2 I I' HR) by assumption. reflexivity.
    - rewrite !eval_ELe, (IHe1 I I' HR), (IHe2 I I' HR) by assumption. reflexivity.
    - rewrite !eval_ELt, (IHe1 I I' HR), (IHe2 I I' HR) by assumption. reflexivity.
    - rewrite !eval_EEquals, (IHe1 I I' HR), (IHe2 I I' HR) by assumption. reflexivity.
  Qed.
End NegEval.

Require Import UPV.Proofs.Variants_proofs.

Definition negv (v : value) : value := match v with VBool b => VBool (negb b) | _ => v end.
Definition mk_neg (nf : N) (x : aeff) : aeff :=
  {| ae_key := (nf, snd (ae_key x)); ae_kind := ae_kind x; ae_val := negv (ae_val x) |}.
Definition mres (nf : N) (r : Sem.eres) : Sem.eres :=
  match r with EAct x => EAct (mk_neg nf x) | ESkip => ESkip | EErr => EErr end.

Lemma nodupN_NoDup l : nodupN l = true -> NoDup l.
Proof.
  induction l as [|x l IH]; intros H; [constructor|]. apply nodupN_cons in H. destruct H as [H1 H2].
  constructor; [exact H1 | apply IH; exact H2].
Qed.

Section NegProofs.
  Variable nmap : list (N * N).
  Variable rw : expr -> expr.
  Variable smp : expr -> expr.
  Variable P : problem.
  Notation ngf := (ng nmap).
  Notation isn := (is_negb nmap).
  Let P' := neg_compile nmap rw smp P.

  Hypothesis Hmap : nmap_ok nmap P = true.
  Hypothesis Hclean : problem_clean nmap P = true.
  Hypothesis Hsafe : ncr_safe nmap P = true.
  Hypothesis Hrw : rw_ok nmap rw P.
  Hypothesis Hsmp : smp_exact smp.

  Definition macts (acts : list aeff) : list aeff :=
    flat_map (fun x => match ngf (fst (ae_key x)) with Some nf => [mk_neg nf x] | None => [] end) acts.

  (* ---- facts about the mapping *)
  Lemma map_facts :
    NoDup (map snd nmap) /\ (forall f nf, ngf f = Some nf -> isn f = false) /\
    (forall fd, In fd (p_fluents P) -> isn (fd_id fd) = false) /\
    (forall fd nf, In fd (p_fluents P) -> ngf (fd_id fd) = Some nf -> fd_ty fd = FBool).
  Proof.
    unfold nmap_ok in Hmap. nfsplit. repeat split.
    - apply nodupN_NoDup. assumption.
    - intros f nf Hf. apply lookupN_In in Hf.
      match goal with Hq : forallb (fun p => negb (is_negb nmap (fst p))) nmap = true |- _ =>
        rewrite forallb_forall in Hq; specialize (Hq _ Hf); apply negb_true_iff in Hq; exact Hq end.
    - intros fd Hfd.
      match goal with Hq : forallb (fun fd => negb (is_negb nmap (fd_id fd))) _ = true |- _ =>
        rewrite forallb_forall in Hq; specialize (Hq _ Hfd); apply negb_true_iff in Hq; exact Hq end.
    - intros fd nf Hfd Hn.
      match goal with Hq : forallb (fun fd => match ng nmap (fd_id fd) with Some _ => _ | None => true end) _ = true |- _ =>
        rewrite forallb_forall in Hq; specialize (Hq _ Hfd); rewrite Hn in Hq; destruct (fd_ty fd); try discriminate; reflexivity end.
  Qed.

  Lemma ng_isn f nf : ngf f = Some nf -> isn nf = true.
  Proof. intros H. apply lookupN_In in H. unfold is_negb. apply existsb_exists. exists (f, nf). split; [exact H | apply N.eqb_refl]. Qed.

  Lemma ng_inj f1 f2 nf : ngf f1 = Some nf -> ngf f2 = Some nf -> f1 = f2.
  Proof.
    intros H1 H2. apply lookupN_In in H1. apply lookupN_In in H2. destruct map_facts as [Hnd _].
    clear -H1 H2 Hnd. induction nmap as [|[a b] l IH]; [destruct H1|]. cbn [map snd] in Hnd. inversion Hnd as [|? ? Hn Hnd']; subst.
    destruct H1 as [H1|H1], H2 as [H2|H2].
    - inversion H1; inversion H2; subst. reflexivity.
    - inversion H1; subst. exfalso. apply Hn. apply in_map_iff. exists (f2, nf). split; [reflexivity | exact H2].
    - inversion H2; subst. exfalso. apply Hn. apply in_map_iff. exists (f1, nf). split; [reflexivity | exact H1].
    - apply IH; assumption.
  Qed.

  (* ---- interpretations *)
  Lemma nrel_mk s s' pars : neg_rel nmap s s' -> nrel_interp nmap (mk_interp P s pars) (mk_interp P' s' pars).
  Proof. intros [H1 H2]. repeat split; cbn [mk_interp fl par var ifun objs]; auto. Qed.

  (* ---- one effect and its mirror *)
  Lemma effect_clean_split e : effect_clean nmap e = true ->
    isn (e_fl e) = false /\ forallb (clean nmap) (e_args e) = true /\ clean nmap (e_val e) = true /\ clean nmap (e_cond e) = true.
  Proof. unfold effect_clean. intros H. nfsplit. repeat split; try assumption. apply negb_true_iff. assumption. Qed.

  Lemma evals_l_clean J J' l : nrel_interp nmap J J' -> forallb (clean nmap) l = true -> evals_l false J' l = evals_l false J l.
  Proof.
    intros HR. induction l as [|x l IH]; intros H; [reflexivity|]. cbn [forallb] in H. nfsplit. cbn [evals_l].
    rewrite (eval_clean nmap false x J J' HR), IH by assumption. reflexivity.
  Qed.

  Lemma n_effect_eval J J' e : nrel_interp nmap J J' -> effect_clean nmap e = true -> In (e_cond e) (conds_of P) ->
    eval_effect false J' (n_effect rw e) = eval_effect false J e.
  Proof.
    intros HR Hc Hin. destruct (effect_clean_split e Hc) as (_ & Ca & Cv & Cc).
    unfold n_effect. destruct (is_uncond e) eqn:Eu.
    - unfold eval_effect. rewrite (evals_l_clean J J' _ HR Ca), (eval_clean nmap false _ J J' HR Cc),
        (eval_clean nmap false _ J J' HR Cv). reflexivity.
    - unfold eval_effect. cbn [set_cond e_args e_cond e_val e_fl e_kind].
      rewrite (evals_l_clean J J' _ HR Ca), (Hrw _ Hin J J' HR), (eval_clean nmap false _ J J' HR Cv). reflexivity.
  Qed.

  Lemma mirror_eval J J' e nf b : nrel_interp nmap J J' -> effect_clean nmap e = true -> In (e_cond e) (conds_of P) ->
    e_val e = EBool b ->
    eval_effect false J'
      {| e_fl := nf; e_args := e_args (n_effect rw e); e_val := smp (mkNot (e_val (n_effect rw e)));
         e_cond := e_cond (n_effect rw e); e_kind := e_kind (n_effect rw e); e_vars := e_vars (n_effect rw e);
         e_isbool := e_isbool (n_effect rw e) |} = mres nf (eval_effect false J e).
  Proof.
    intros HR Hc Hin Hb. pose proof (n_effect_eval J J' e HR Hc Hin) as E.
    assert (Sh : e_args (n_effect rw e) = e_args e /\ e_val (n_effect rw e) = e_val e /\ e_kind (n_effect rw e) = e_kind e /\
                 e_fl (n_effect rw e) = e_fl e)
      by (unfold n_effect; destruct (is_uncond e); repeat split; reflexivity).
    destruct Sh as (S1 & S2 & S3 & S4).
    unfold eval_effect in *. cbn [e_args e_cond e_val e_fl e_kind]. rewrite S1, S2, S3 in *. rewrite S4 in E.
    rewrite Hb in *. rewrite Hsmp. change (mkNot (EBool b)) with (ENot (EBool b)). cbn [eval as_bool].
    destruct (effect_clean_split e Hc) as (_ & Ca & _ & _).
    rewrite (evals_l_clean J J' _ HR Ca) in *.
    destruct (evals_l false J (e_args e)) as [vs|]; [|reflexivity].
    cbn [eval] in E.
    destruct (eval false (e_cond (n_effect rw e)) J') as [[[|]| |]|], (eval false (e_cond e) J) as [[[|]| |]|];
      try discriminate; reflexivity.
  Qed.

  (* ---- the fired effect instances of a compiled action *)
  Definition eff_hyp (e : effect) : Prop :=
    effect_clean nmap e = true /\ In (e_cond e) (conds_of P) /\
    (forall nf, ngf (e_fl e) = Some nf -> is_kassign e = true /\ exists b, e_val e = EBool b).

  Definition pieceI (I : interp) (e : effect) : list Sem.eres :=
    map (fun J => eval_effect false J e) (instances I (e_vars e)).

  Lemma n_effect_vars e : e_vars (n_effect rw e) = e_vars e /\ e_fl (n_effect rw e) = e_fl e.
  Proof. unfold n_effect. destruct (is_uncond e); split; reflexivity. Qed.

  Lemma piece_n_effect I I' e : nrel_interp nmap I I' -> eff_hyp e -> pieceI I' (n_effect rw e) = pieceI I e.
  Proof.
    intros HR (Hc & Hin & _). unfold pieceI. destruct (n_effect_vars e) as [-> _]. symmetry.
    apply (Forall2_map_eq_f (nrel_interp nmap) _ _ _ _ (nrel_instances nmap (e_vars e) I I' HR)).
    intros J J' HJ. symmetry. apply n_effect_eval; assumption.
  Qed.

  Lemma piece_mirror I I' e nf : nrel_interp nmap I I' -> eff_hyp e -> ngf (e_fl e) = Some nf ->
    eres I' (mirror nmap smp (n_effect rw e)) = map (mres nf) (pieceI I e).
  Proof.
    intros HR (Hc & Hin & Hs) Hn. destruct (Hs nf Hn) as [_ [b Hb]].
    unfold mirror. destruct (n_effect_vars e) as [Ev Ef]. rewrite Ef, Hn. unfold eres. cbn [flat_map e_vars].
    rewrite app_nil_r, Ev. unfold pieceI. rewrite map_map. symmetry.
    apply (Forall2_map_eq_f (nrel_interp nmap) _ _ _ _ (nrel_instances nmap (e_vars e) I I' HR)).
    intros J J' HJ. symmetry. apply (mirror_eval J J' e nf b); assumption.
  Qed.

  Lemma piece_mirror_none I' e : ngf (e_fl e) = None -> eres I' (mirror nmap smp (n_effect rw e)) = [].
  Proof. intros Hn. unfold mirror. destruct (n_effect_vars e) as [_ Ef]. rewrite Ef, Hn. reflexivity. Qed.

  Lemma piece_keys I e x : In x (acts_of (pieceI I e)) ->
    fst (ae_key x) = e_fl e /\ ae_kind x = e_kind e /\ (forall b, e_val e = EBool b -> ae_val x = VBool b).
  Proof.
    intros H. apply in_acts_of in H. unfold pieceI in H. apply in_map_iff in H. destruct H as [J [E _]].
    unfold eval_effect in E. destruct (evals_l false J (e_args e)); [|discriminate].
    destruct (eval false (e_cond e) J) as [[[|]| |]|]; try discriminate.
    destruct (eval false (e_val e) J) as [v|] eqn:Ev; [|discriminate]. inversion E; subst. cbn [ae_key ae_kind ae_val fst].
    repeat split. intros b Hb. rewrite Hb in Ev. cbn [eval] in Ev. inversion Ev. reflexivity.
  Qed.

  Lemma acts_of_mres nf L : acts_of (map (mres nf) L) = map (mk_neg nf) (acts_of L).
  Proof.
    induction L as [|r L IH]; [reflexivity|]. change (r :: L) with ([r] ++ L). rewrite map_app, !acts_of_app, map_app, IH.
    f_equal. destruct r; reflexivity.
  Qed.
  Lemma has_err_mres nf L : has_err (map (mres nf) L) = has_err L.
  Proof.
    induction L as [|r L IH]; [reflexivity|]. change (r :: L) with ([r] ++ L). rewrite map_app, !has_err_app, IH.
    f_equal. destruct r; reflexivity.
  Qed.

  Lemma macts_app l1 l2 : macts (l1 ++ l2) = macts l1 ++ macts l2.
  Proof. unfold macts. apply flat_map_app. Qed.

  Lemma macts_same_fluent f l : (forall x, In x l -> fst (ae_key x) = f) ->
    macts l = match ngf f with Some nf => map (mk_neg nf) l | None => [] end.
  Proof.
    induction l as [|x l IH]; intros H; [destruct (ngf f); reflexivity|].
    unfold macts in *. cbn [flat_map]. rewrite (H x (or_introl eq_refl)), IH by (intros y Hy; apply H; right; exact Hy).
    destruct (ngf f); reflexivity.
  Qed.

  Lemma fired_E1 I I' effs : nrel_interp nmap I I' -> Forall eff_hyp effs ->
    eres I' (map (n_effect rw) effs) = eres I effs.
  Proof.
    intros HR HF. induction HF as [|e l He _ IH]; [reflexivity|]. unfold eres in *. cbn [map flat_map]. rewrite IH.
    f_equal. apply (piece_n_effect I I' e HR He).
  Qed.

  Lemma mirrors_cons I' e l :
    eres I' (flat_map (mirror nmap smp) (map (n_effect rw) (e :: l))) =
    eres I' (mirror nmap smp (n_effect rw e)) ++ eres I' (flat_map (mirror nmap smp) (map (n_effect rw) l)).
  Proof. cbn [map flat_map]. unfold eres. apply flat_map_app. Qed.

  Lemma eres_app2 I l1 l2 : eres I (l1 ++ l2) = eres I l1 ++ eres I l2.
  Proof. unfold eres. apply flat_map_app. Qed.

  Lemma eres_cons I e l : eres I (e :: l) = pieceI I e ++ eres I l.
  Proof. reflexivity. Qed.

  Lemma fired_E2 I I' effs : nrel_interp nmap I I' -> Forall eff_hyp effs ->
    has_err (eres I' (flat_map (mirror nmap smp) (map (n_effect rw) effs))) = true -> has_err (eres I effs) = true.
  Proof.
    intros HR HF. induction HF as [|e l He _ IH]; [intros H; exact H|].
    rewrite mirrors_cons, eres_cons, !has_err_app. intros H.
    apply orb_true_iff in H. apply orb_true_iff. destruct H as [H|H]; [left | right; apply IH; exact H].
    destruct (ngf (e_fl e)) as [nf|] eqn:En.
    - rewrite (piece_mirror I I' e nf HR He En), has_err_mres in H. exact H.
    - rewrite (piece_mirror_none I' e En) in H. discriminate.
  Qed.

  Lemma fired_E3 I I' effs : nrel_interp nmap I I' -> Forall eff_hyp effs ->
    acts_of (eres I' (flat_map (mirror nmap smp) (map (n_effect rw) effs))) = macts (acts_of (eres I effs)).
  Proof.
    intros HR HF. induction HF as [|e l He _ IH]; [reflexivity|].
    rewrite mirrors_cons, eres_cons, !acts_of_app, macts_app, IH. f_equal.
    rewrite (macts_same_fluent (e_fl e)) by (intros x Hx; apply (piece_keys I e x Hx)).
    destruct (ngf (e_fl e)) as [nf|] eqn:En.
    - rewrite (piece_mirror I I' e nf HR He En). apply acts_of_mres.
    - rewrite (piece_mirror_none I' e En). reflexivity.
  Qed.

  Lemma n_effects_fired I I' effs : nrel_interp nmap I I' -> Forall eff_hyp effs ->
    fired false I' (n_effects nmap rw smp effs) =
    match fired false I effs with Some acts => Some (acts ++ macts acts) | None => None end.
  Proof.
    intros HR HF. rewrite !fired_eres, !collect_res_spec. unfold n_effects. cbv zeta.
    rewrite (eres_app2 I'). rewrite has_err_app, acts_of_app, (fired_E1 I I' effs HR HF), (fired_E3 I I' effs HR HF).
    destruct (has_err (eres I effs)) eqn:Eh; [reflexivity|].
    destruct (has_err (eres I' (flat_map (mirror nmap smp) (map (n_effect rw) effs)))) eqn:Eh2; [|reflexivity].
    rewrite (fired_E2 I I' effs HR HF Eh2) in Eh. discriminate.
  Qed.
End NegProofs.

(* ---- the add-after-delete witness: without [ncr_safe] the compiled problem accepts a plan the original rejects.
   f, c true initially; action 0: f := false; if c then f := true (add-after-delete keeps f true, and the mirrored pair
   nf := true; if c then nf := false keeps nf true as well); action 1: pre not f, eff g := true; goal g. *)
Module NegWitness.
  Definition beff (f : N) (v c : expr) : effect :=
    {| e_fl := f; e_args := []; e_val := v; e_cond := c; e_kind := KAssign; e_vars := []; e_isbool := true |}.
  Definition fl0 (f : N) : expr := EFluent f [].
  Definition aa : action :=
    {| a_params := []; a_pre := []; a_effs := [beff 0 (EBool false) (EBool true); beff 0 (EBool true) (fl0 1)] |}.
  Definition ab : action := {| a_params := []; a_pre := [ENot (fl0 0)]; a_effs := [beff 2 (EBool true) (EBool true)] |}.
  Definition bfd (f : N) : fdecl := {| fd_id := f; fd_sig := []; fd_ty := FBool |}.
  Definition Pw : problem :=
    {| p_objs := []; p_ifun := []; p_fluents := [bfd 0; bfd 1; bfd 2];
       p_actions := [(0%N, aa); (1%N, ab)]; p_goals := [fl0 2]; p_invs := [] |}.
  Definition nm : list (N * N) := [(0%N, 3%N)].
  Definition idf (e : expr) : expr := e.
  Definition sw : state := fun f a => Some (VBool ((f =? 0)%N || (f =? 1)%N)).
  Definition sw' : state := fun f a => if (f =? 3)%N then Some (VBool false) else sw f a.
  Definition Pw' : problem := neg_compile nm (nrw (ng nm)) idf Pw.
  Definition plan : list (N * list value) := [(0%N, []); (1%N, [])].
End NegWitness.

Lemma ncr_unsafe_witness :
  nmap_ok NegWitness.nm NegWitness.Pw = true /\ problem_clean NegWitness.nm NegWitness.Pw = true /\
  ncr_safe NegWitness.nm NegWitness.Pw = false /\
  neg_rel NegWitness.nm NegWitness.sw NegWitness.sw' /\
  valid_plan false NegWitness.Pw' NegWitness.sw' NegWitness.plan = true /\
  valid_plan false NegWitness.Pw NegWitness.sw NegWitness.plan = false.
Proof.
  split; [vm_compute; reflexivity|]. split; [vm_compute; reflexivity|]. split; [vm_compute; reflexivity|].
  split; [|split; vm_compute; reflexivity].
  split.
  - intros g args Hg. unfold NegWitness.sw'. destruct (g =? 3)%N eqn:E; [|reflexivity].
    apply N.eqb_eq in E. subst. vm_compute in Hg. discriminate.
  - intros f nf args Hn. unfold ng, NegWitness.nm in Hn. cbn [lookupN] in Hn.
    destruct (f =? 0)%N eqn:E; [|discriminate]. inversion Hn; subst. apply N.eqb_eq in E. subst. reflexivity.
Qed.
