(* C09 part (ii) on the Layer A fragment — proofs.  Definitions: Model/KindBridge.v; statements: Props/C09_la.v.

   1. [bridge]: on the 13 covered features, la_feats (the kind function on the Layer A record) IS KindOf's kind_model of
      the embedded problem, for every auxiliary typing information.
   2. [in_la_feats]: membership characterisation of la_feats (fluents / conditions / effects / invariants).
   3. operators of rebuilt expressions: ExpressionManager constructors, the substituter restricted to object values
      ([walk_ops]), ExpressionQuantifiersRemover ([expand_ops]).
   4. the regenerated declared-kind programs of Gen_Engines.v, executed symbolically ([qr_program], [cer_program],
      [sir_program], [btr_program]).
   5. per compiler: where the conditions / effects / fluents of the model-compiled problem come from, then
      "<removed feature> is absent" ([*_removed]) and "every covered feature of the compiled problem is in the
      declared kind" ([*_kind]). *)
From Coq Require Import List ZArith NArith QArith Qcanon Bool Lia String.
Import ListNotations.
Require Import UPV.Core.Expr UPV.Model.Kind UPV.Model.Factory UPV.Gen.Gen_Kind UPV.Gen.Gen_Engines.
Require Import UPV.Model.KindOf UPV.Proofs.KindOf_proofs.
Require Import UPV.Core.Eval UPV.Core.Interp UPV.Planning.Problem UPV.Model.KindBridge.
Require Import UPV.Walkers.Subst UPV.Compilers.Variants UPV.Compilers.LayerA_Defs UPV.Compilers.LayerA_Quant.
Require Import UPV.Compilers.LayerA_Variants UPV.Compilers.LayerA_Inv UPV.Compilers.LayerA_Neg.
Require Import UPV.Planning.Ground UPV.Compilers.LayerA_Ground.

(* ---------------------------------------------------------------- filter algebra *)
Lemma filter_flat_map {A B} (p : B -> bool) (g : A -> list B) l :
  filter p (flat_map g l) = flat_map (fun x => filter p (g x)) l.
Proof. induction l; simpl; [reflexivity|]. rewrite filter_app, IHl. reflexivity. Qed.

Lemma filter_clause p f b : filter p (clause f b) = if p f then clause f b else [].
Proof. destruct b; simpl; destruct (p f); reflexivity. Qed.

Lemma filter_filter_imp {A} (p q : A -> bool) l :
  (forall x, p x = true -> q x = true) -> filter p (filter q l) = filter p l.
Proof.
  intro H. induction l as [|x l IH]; simpl; [reflexivity|].
  destruct (q x) eqn:Q; simpl; destruct (p x) eqn:Px; rewrite ?IH; try reflexivity.
  rewrite (H x Px) in Q. discriminate.
Qed.

Lemma flat_map_nil {A B} (g : A -> list B) l : (forall x, In x l -> g x = []) -> flat_map g l = [].
Proof. induction l; simpl; intro H; [reflexivity|]. rewrite H, IHl; auto. Qed.

Lemma flat_map_ext' {A B} (g h : A -> list B) l : (forall x, g x = h x) -> flat_map g l = flat_map h l.
Proof. intro H. induction l; simpl; congruence. Qed.

(* ---------------------------------------------------------------- pieces of kind_model, filtered *)
Lemma cov_type_feats t : filter covered (M.type_feats t) = [].
Proof. destruct t as [| | |u hf]; try reflexivity. destruct hf; reflexivity. Qed.

Lemma cov_param_feats t : filter covered (M.param_feats t) = [].
Proof. destruct t as [|lo hi|lo hi|u hf]; try reflexivity; [destruct lo, hi; reflexivity | destruct hf; reflexivity]. Qed.

Lemma cov_expr_feats c : filter covered (M.expr_feats c) = M.expr_feats c.
Proof.
  unfold M.expr_feats. rewrite !filter_app, !filter_clause. reflexivity.
Qed.

Lemma expr_feats_ce c : M.expr_feats c = cond_feats (ce c).
Proof. reflexivity. Qed.

Lemma cov_fl_feats P l a b : covered a = false -> covered b = false -> filter covered (M.fl_feats P l a b) = [].
Proof. intros Ha Hb. unfold M.fl_feats. rewrite filter_app, !filter_clause, Ha, Hb. reflexivity. Qed.

Lemma cov_effect_feats ax D tc e :
  filter covered (M.effect_feats D (eff_of ax tc e)) = eff_feats e.
Proof.
  unfold M.effect_feats, eff_feats. rewrite !filter_app.
  f_equal; [|f_equal].
  - unfold is_conditional. simpl. destruct (is_true (e_cond e)); simpl; [reflexivity|].
    rewrite filter_app, cov_expr_feats. reflexivity.
  - simpl ef_forall. destruct (e_vars e) as [|v vs]; [reflexivity|].
    cbn [map nonempty]. cbn [filter]. change (covered f_FORALL_EFFECTS) with true. cbv iota.
    f_equal. rewrite filter_flat_map. apply flat_map_nil. intros x _. apply cov_type_feats.
  - simpl ef_kind. simpl ef_val. simpl ef_vcls.
    destruct (e_kind e); simpl kind_of_ekind; cbv iota.
    + destruct (ax_vcls ax e); rewrite filter_app, filter_clause, cov_fl_feats; reflexivity.
    + cbn [filter]. change (covered f_INCREASE_EFFECTS) with true. cbv iota. f_equal.
      rewrite filter_app, filter_clause. change (covered f_INTERPRETED_FUNCTIONS_IN_NUMERIC_ASSIGNMENTS) with false. cbv iota.
      destruct (is_num_const (e_val e)); [reflexivity| apply cov_fl_feats; reflexivity].
    + cbn [filter]. change (covered f_DECREASE_EFFECTS) with true. cbv iota. f_equal.
      rewrite filter_app, filter_clause. change (covered f_INTERPRETED_FUNCTIONS_IN_NUMERIC_ASSIGNMENTS) with false. cbv iota.
      destruct (is_num_const (e_val e)); [reflexivity| apply cov_fl_feats; reflexivity].
Qed.


Lemma flat_map_map {A B C} (g : B -> list C) (h : A -> B) l : flat_map g (map h l) = flat_map (fun x => g (h x)) l.
Proof. induction l; simpl; congruence. Qed.

Lemma cov_action_feats ax D tc a :
  filter covered (M.action_feats D (act_of ax tc a)) = act_feats a.
Proof.
  unfold act_of, M.action_feats, M.iaction_feats, act_feats. simpl.
  rewrite !filter_app, !filter_flat_map. rewrite !flat_map_map.
  rewrite (flat_map_nil (fun x => filter covered (M.param_feats (ax_par ax x)))) by (intros; apply cov_param_feats).
  rewrite app_nil_r. simpl. f_equal.
  - apply flat_map_ext'. intro x. rewrite cov_expr_feats. reflexivity.
  - apply flat_map_ext'. intro x. apply cov_effect_feats.
Qed.

Lemma cov_fluent_feats ax D fd :
  filter covered (M.fluent_feats D (fd_of ax fd)) = fl_feats fd.
Proof.
  unfold M.fluent_feats, fl_feats. simpl KindOf.fd_ty. simpl KindOf.fd_sig. rewrite !filter_app.
  assert (S : filter covered
     (flat_map (fun pt => M.type_feats pt ++ match pt with TBool => [f_BOOL_FLUENT_PARAMETERS]
        | TInt _ _ => [f_BOUNDED_INT_FLUENT_PARAMETERS] | _ => [] end) (map (KindBridge.uty ax) (fd_sig fd))) = []).
  { rewrite filter_flat_map. apply flat_map_nil. intros x _. rewrite filter_app, cov_type_feats.
    destruct x; reflexivity. }
  rewrite S, app_nil_r.
  assert (T : forall (b : bool) t, filter covered (if b then M.type_feats t else []) = []).
  { intros b t. destruct b; [apply cov_type_feats | reflexivity]. }
  rewrite T. simpl app.
  destruct (fd_ty fd) as [|lo hi|u]; simpl ty_of.
  - reflexivity.
  - destruct (ax_isint ax (fd_id fd)); rewrite filter_app, filter_clause;
      change (covered f_BOUNDED_TYPES) with true; cbv iota;
      match goal with |- _ ++ filter covered (if ?b then _ else _) = _ => destruct b end; simpl; rewrite ?app_nil_r; reflexivity.
  - reflexivity.
Qed.

Lemma cov_initial_feats fd : filter covered (M.initial_feats fd) = [].
Proof.
  unfold M.initial_feats. destruct (KindOf.fd_default fd); [reflexivity|].
  destruct (negb _); [|reflexivity]. destruct (cnum _); reflexivity.
Qed.

Lemma filter_cons_false {A} (p : A -> bool) a l : p a = false -> filter p (a :: l) = filter p l.
Proof. intro H. simpl. rewrite H. reflexivity. Qed.

Lemma cov_raw ax P : filter covered (M.raw (desc_of ax P)) = la_feats P.
Proof.
  unfold M.raw, la_feats.
  cbn [desc_of KindOf.p_fluents p_objtys KindOf.p_actions p_events p_processes p_teffs p_tgoals KindOf.p_goals p_traj p_metrics
       flat_map nonempty app clause].
  rewrite filter_cons_false by reflexivity.
  rewrite !filter_app. rewrite !filter_flat_map, !flat_map_map. simpl (filter covered []). rewrite !app_nil_r.
  rewrite (flat_map_nil (fun x => filter covered (M.type_feats x))) by (intros; apply cov_type_feats).
  rewrite (flat_map_nil (fun x => filter covered (M.initial_feats (fd_of ax x)))) by (intros; apply cov_initial_feats).
  rewrite app_nil_r. simpl app.
  f_equal; [|f_equal; [|f_equal]].
  - apply flat_map_ext'. intro fd. apply cov_fluent_feats.
  - apply flat_map_ext'. intro ia. apply cov_action_feats.
  - apply flat_map_ext'. intro i. cbn [ce cexp_ax filter]. change (covered f_STATE_INVARIANTS) with true. cbv iota.
    rewrite cov_expr_feats. f_equal.
  - apply flat_map_ext'. intro g. rewrite cov_expr_feats. reflexivity.
Qed.

(* finalize only adds / removes features outside the covered ones *)
Lemma cov_finalize D fs u : filter covered (M.finalize D fs u) = filter covered fs.
Proof.
  unfold M.finalize.
  set (k1 := if negb (memN f_REAL_FLUENTS fs) && negb (memN f_INT_FLUENTS fs) then fs
             else if u then f_GENERAL_NUMERIC_PLANNING :: fs else f_SIMPLE_NUMERIC_PLANNING :: fs).
  assert (K1 : filter covered k1 = filter covered fs).
  { unfold k1. destruct (negb _ && negb _); [reflexivity|]. destruct u; apply filter_cons_false; reflexivity. }
  set (k2 := if memN f_CONTINUOUS_TIME k1 && p_discrete D
             then f_DISCRETE_TIME :: filter (fun f => negb (f =? f_CONTINUOUS_TIME)%N) k1 else k1).
  assert (K2 : filter covered k2 = filter covered fs).
  { unfold k2. destruct (memN f_CONTINUOUS_TIME k1 && p_discrete D); [|exact K1].
    rewrite filter_cons_false by reflexivity. rewrite filter_filter_imp; [exact K1|].
    intros x Hx. destruct (x =? f_CONTINUOUS_TIME)%N eqn:E; [|reflexivity].
    apply N.eqb_eq in E. subst x. discriminate Hx. }
  destruct (p_selfoverlap D && _); [|exact K2].
  rewrite filter_cons_false by reflexivity. exact K2.
Qed.

Theorem bridge ax P : filter covered (la_kind ax P) = la_feats P.
Proof. unfold la_kind, kind_model, M.kind_model. rewrite cov_finalize. apply cov_raw. Qed.

Lemma covered_in f : covered f = true <-> In f la_covered.
Proof. apply memN_In. Qed.

Corollary bridge_in ax P f : In f la_covered -> (In f (la_kind ax P) <-> In f (la_feats P)).
Proof.
  intro C. rewrite <- (bridge ax P), filter_In. apply covered_in in C. tauto.
Qed.


(* ---------------------------------------------------------------- membership in la_feats *)
Lemma in_clause_iff f g b : In f (clause g b) <-> f = g /\ b = true.
Proof. destruct b; simpl; split; intros; try tauto; try (destruct H as [H|[]]; auto); destruct H; [left; auto | discriminate]. Qed.

Lemma rel_cases o : rel o = true ->
  o = op_IFUN \/ o = op_OR \/ o = op_NOT \/ o = op_IMPLIES \/ o = op_EXISTS \/ o = op_FORALL \/ o = op_EQUALS.
Proof.
  unfold rel. rewrite memN_In. simpl. intuition.
Qed.

(* a condition sets feature f iff it contains a relevant operator whose feature is f *)
Lemma in_cond_feats f e : In f (cond_feats e) <-> exists o, rel o = true /\ op_feature o = f /\ In o (ops_of e).
Proof.
  unfold cond_feats, M.expr_feats. cbn [ce cexp]. rewrite !in_app_iff, !in_clause_iff, orb_true_iff, !memN_In.
  split.
  - intros [[-> H]|[[-> H]|[[-> [H|H]]|[[-> H]|[[-> H]|[-> H]]]]]]; eexists; (split; [|split; [|exact H]]); reflexivity.
  - intros (o & R & <- & H). apply rel_cases in R.
    destruct R as [->|[->|[->|[->|[->|[->| ->]]]]]]; cbn; tauto.
Qed.

Lemma cond_feats_true : cond_feats (EBool true) = [].
Proof. reflexivity. Qed.

Lemma is_true_eq e : is_true e = true -> e = EBool true.
Proof. destruct e; try discriminate. destruct b; [reflexivity|discriminate]. Qed.

Lemma in_la_conds P c :
  In c (la_conds P) <->
  (exists ia, In ia (p_actions P) /\ (In c (a_pre (snd ia)) \/ exists e, In e (a_effs (snd ia)) /\ c = e_cond e))
  \/ In c (p_invs P) \/ In c (p_goals P).
Proof.
  unfold la_conds. rewrite !in_app_iff, in_flat_map.
  split.
  - intros [(ia & Hia & H)|H]; [left; exists ia; split; [exact Hia|]| right; exact H].
    apply in_app_iff in H. destruct H as [H|H]; [left; exact H|right].
    apply in_map_iff in H. destruct H as (e & <- & He). exists e. auto.
  - intros [(ia & Hia & H)|H]; [left; exists ia; split; [exact Hia|]| right; exact H].
    apply in_app_iff. destruct H as [H|(e & He & ->)]; [left; exact H | right; apply in_map; exact He].
Qed.

Lemma in_la_effs P e : In e (la_effs P) <-> exists ia, In ia (p_actions P) /\ In e (a_effs (snd ia)).
Proof. unfold la_effs. apply in_flat_map. Qed.

Definition is_inc (e : effect) : bool := match e_kind e with KInc => true | _ => false end.
Definition is_dec (e : effect) : bool := match e_kind e with KDec => true | _ => false end.

Lemma in_eff_feats f e :
  In f (eff_feats e) <->
  (is_true (e_cond e) = false /\ (In f (cond_feats (e_cond e)) \/ f = f_CONDITIONAL_EFFECTS))
  \/ (e_vars e <> [] /\ f = f_FORALL_EFFECTS)
  \/ (is_inc e = true /\ f = f_INCREASE_EFFECTS) \/ (is_dec e = true /\ f = f_DECREASE_EFFECTS).
Proof.
  unfold eff_feats, is_inc, is_dec. rewrite !in_app_iff.
  destruct (is_true (e_cond e)); destruct (e_vars e) as [|v vs]; destruct (e_kind e); simpl; rewrite ?in_app_iff; simpl;
    intuition (try congruence; try discriminate).
Qed.

(* the characterisation used by every compiler proof *)
Lemma in_la_feats P f :
  In f (la_feats P) <->
  (exists fd, In fd (p_fluents P) /\ In f (fl_feats fd))
  \/ (exists c, In c (la_conds P) /\ In f (cond_feats c))
  \/ (f = f_CONDITIONAL_EFFECTS /\ exists e, In e (la_effs P) /\ is_true (e_cond e) = false)
  \/ (f = f_FORALL_EFFECTS /\ exists e, In e (la_effs P) /\ e_vars e <> [])
  \/ (f = f_INCREASE_EFFECTS /\ exists e, In e (la_effs P) /\ is_inc e = true)
  \/ (f = f_DECREASE_EFFECTS /\ exists e, In e (la_effs P) /\ is_dec e = true)
  \/ (f = f_STATE_INVARIANTS /\ p_invs P <> []).
Proof.
  unfold la_feats. rewrite !in_app_iff, !in_flat_map. split.
  - intros [H|[(ia & Hia & H)|[(i & Hi & H)|(g & Hg & H)]]].
    + left. exact H.
    + unfold act_feats in H. rewrite in_app_iff, !in_flat_map in H.
      destruct H as [(c & Hc & H)|(e & He & H)].
      * right; left. exists c. split; [|exact H]. apply in_la_conds. left. exists ia. auto.
      * assert (E : In e (la_effs P)) by (apply in_la_effs; exists ia; auto).
        apply in_eff_feats in H. destruct H as [(U & [H| ->])|[(V & ->)|[(K & ->)|(K & ->)]]].
        -- right; left. exists (e_cond e). split; [|exact H]. apply in_la_conds. left. exists ia. split; [exact Hia|].
           right. exists e. auto.
        -- right; right; left. split; [reflexivity|]. exists e. auto.
        -- right; right; right; left. split; [reflexivity|]. exists e. auto.
        -- right; right; right; right; left. split; [reflexivity|]. exists e. auto.
        -- right; right; right; right; right; left. split; [reflexivity|]. exists e. auto.
    + destruct H as [<-|H].
      * right; right; right; right; right; right. split; [reflexivity|]. intro E. rewrite E in Hi. destruct Hi.
      * right; left. exists i. split; [|exact H]. apply in_la_conds. auto.
    + right; left. exists g. split; [|exact H]. apply in_la_conds. auto.
  - intros [H|[(c & Hc & H)|[(-> & e & He & U)|[(-> & e & He & U)|[(-> & e & He & U)|[(-> & e & He & U)|(-> & NE)]]]]]].
    + left. exact H.
    + apply in_la_conds in Hc. destruct Hc as [(ia & Hia & [Hc|(e & He & ->)])|[Hc|Hc]].
      * right; left. exists ia. split; [exact Hia|]. unfold act_feats. rewrite in_app_iff, !in_flat_map. left. exists c. auto.
      * right; left. exists ia. split; [exact Hia|]. unfold act_feats. rewrite in_app_iff, !in_flat_map. right. exists e.
        split; [exact He|]. apply in_eff_feats. left. split; [|left; exact H].
        destruct (is_true (e_cond e)) eqn:T; [|reflexivity]. apply is_true_eq in T. rewrite T in H. destruct H.
      * right; right; left. exists c. split; [exact Hc|]. right. exact H.
      * right; right; right. exists c. auto.
    + apply in_la_effs in He. destruct He as (ia & Hia & He). right; left. exists ia. split; [exact Hia|].
      unfold act_feats. rewrite in_app_iff, !in_flat_map. right. exists e. split; [exact He|]. apply in_eff_feats. auto.
    + apply in_la_effs in He. destruct He as (ia & Hia & He). right; left. exists ia. split; [exact Hia|].
      unfold act_feats. rewrite in_app_iff, !in_flat_map. right. exists e. split; [exact He|]. apply in_eff_feats. auto.
    + apply in_la_effs in He. destruct He as (ia & Hia & He). right; left. exists ia. split; [exact Hia|].
      unfold act_feats. rewrite in_app_iff, !in_flat_map. right. exists e. split; [exact He|]. apply in_eff_feats. auto.
    + apply in_la_effs in He. destruct He as (ia & Hia & He). right; left. exists ia. split; [exact Hia|].
      unfold act_feats. rewrite in_app_iff, !in_flat_map. right. exists e. split; [exact He|]. apply in_eff_feats. 
      right; right; right. auto.
    + destruct (p_invs P) as [|i l] eqn:E; [congruence|]. right; right; left. exists i. split; [left; reflexivity|]. left. reflexivity.
Qed.


(* ---------------------------------------------------------------- operators of rebuilt expressions *)
Lemma ops_map {A} o (g : A -> expr) (l : list A) :
  In o (flat_map ops_of (map g l)) -> exists x, In x l /\ In o (ops_of (g x)).
Proof. rewrite flat_map_map, in_flat_map. auto. Qed.

Lemma ops_in_list o x l : In x l -> In o (ops_of x) -> In o (flat_map ops_of l).
Proof. intros. apply in_flat_map. eauto. Qed.

Lemma ops_mkAnd o l : In o (ops_of (mkAnd l)) -> o = 0%N \/ o = 8%N \/ In o (flat_map ops_of l).
Proof.
  destruct l as [|x [|y l]]; simpl; rewrite ?ops_go; simpl; rewrite ?app_nil_r; intuition.
Qed.
Lemma ops_mkOr o l : In o (ops_of (mkOr l)) -> o = 0%N \/ (o = 9%N /\ (2 <= List.length l)%nat) \/ In o (flat_map ops_of l).
Proof.
  destruct l as [|x [|y l]]; simpl; rewrite ?ops_go; simpl; rewrite ?app_nil_r; intuition.
  all: try (right; left; split; [auto | lia]).
Qed.
Lemma ops_mkPlus o l : In o (ops_of (mkPlus l)) -> o = 1%N \/ o = 15%N \/ In o (flat_map ops_of l).
Proof.
  destruct l as [|x [|y l]]; simpl; rewrite ?ops_go; simpl; rewrite ?app_nil_r; intuition.
Qed.
Lemma ops_mkTimes o l : In o (ops_of (mkTimes l)) -> o = 1%N \/ o = 17%N \/ In o (flat_map ops_of l).
Proof.
  destruct l as [|x [|y l]]; simpl; rewrite ?ops_go; simpl; rewrite ?app_nil_r; intuition.
Qed.
Lemma ops_mkNot o e : In o (ops_of (mkNot e)) -> o = 10%N \/ In o (ops_of e).
Proof. destruct e; simpl; rewrite ?ops_go; intuition. Qed.

Ltac norel R := exfalso; subst; discriminate R.

(* ---- substitution of objects (Walkers/Subst.v: walk) introduces no relevant operator *)
Definition objmap (s : smap) : Prop := forall k v, In (k, v) s -> exists ob, v = EObj ob.

Lemma lookup_objmap s e v : objmap s -> lookup s e = Some v -> exists ob, v = EObj ob.
Proof.
  induction s as [|[k w] s IH]; simpl; intros Hs L; [discriminate|].
  destruct (expr_eqb k e).
  - inversion L; subst. apply (Hs k v). left. reflexivity.
  - apply IH; [|exact L]. intros k' v' H. apply (Hs k' v'). right. exact H.
Qed.

Lemma filter_map_objmap s vs : objmap s -> objmap (filter_map s vs).
Proof. intros Hs k v H. apply filter_In in H. apply (Hs k v). tauto. Qed.

Ltac t_list H s Hs I :=
  simpl; rewrite ?ops_go; right; apply ops_map in I; destruct I as (x & Hx & I); rewrite Forall_forall in H;
  apply (ops_in_list _ x); [exact Hx | exact (H x Hx s Hs I)].
Ltac t_bin IH1 IH2 s Hs :=
  let I := fresh "I" in
  simpl; intros [<-|I]; [left; reflexivity|right]; apply in_app_iff in I; apply in_app_iff;
  destruct I as [I|I]; [left; exact (IH1 s Hs I) | right; exact (IH2 s Hs I)].
Ltac t_un IH s Hs := let I := fresh "I" in simpl; intros [<-|I]; [left; reflexivity|right; exact (IH s Hs I)].

Lemma walk_ops o : rel o = true -> forall e s, objmap s -> In o (ops_of (walk s e)) -> In o (ops_of e).
Proof.
  intro R.
  induction e using expr_ind'; intros s Hs; cbn [walk]; unfold replace_or_identity;
    match goal with |- context [lookup s ?x] => destruct (lookup s x) eqn:L end;
    try (destruct (lookup_objmap _ _ _ Hs L) as [ob ->]; simpl; intros [<-|[]]; norel R);
    try (intro H0; exact H0).
  - simpl; rewrite !ops_go; intros [<-|I]; [left; reflexivity|]. t_list H s Hs I.
  - simpl; rewrite !ops_go; intros [<-|I]; [left; reflexivity|]. t_list H s Hs I.
  - intro I. apply ops_mkAnd in I. destruct I as [->|[->|I]]; [norel R|norel R|]. t_list H s Hs I.
  - intro I. apply ops_mkOr in I. destruct I as [->|[[-> _]|I]]; [norel R|left; reflexivity|]. t_list H s Hs I.
  - intro I. apply ops_mkNot in I. destruct I as [->|I]; [left; reflexivity|right; exact (IHe s Hs I)].
  - t_bin IHe1 IHe2 s Hs.
  - t_bin IHe1 IHe2 s Hs.
  - simpl; intros [<-|I]; [left; reflexivity|right];
       destruct (filter_map s vs) eqn:F; [exact I|]; rewrite <- F in I;
       exact (IHe _ (filter_map_objmap s vs Hs) I).
  - simpl; intros [<-|I]; [left; reflexivity|right];
       destruct (filter_map s vs) eqn:F; [exact I|]; rewrite <- F in I;
       exact (IHe _ (filter_map_objmap s vs Hs) I).
  - intro I. apply ops_mkPlus in I. destruct I as [->|[->|I]]; [norel R|norel R|]. t_list H s Hs I.
  - t_bin IHe1 IHe2 s Hs.
  - intro I. apply ops_mkTimes in I. destruct I as [->|[->|I]]; [norel R|norel R|]. t_list H s Hs I.
  - t_bin IHe1 IHe2 s Hs.
  - t_bin IHe1 IHe2 s Hs.
  - t_bin IHe1 IHe2 s Hs.
  - t_bin IHe1 IHe2 s Hs.
  - t_un IHe s Hs.
  - t_un IHe s Hs.
  - t_bin IHe1 IHe2 s Hs.
  - t_bin IHe1 IHe2 s Hs.
  - t_un IHe s Hs.
Qed.

Lemma substitute_ops o s e : rel o = true -> objmap s -> In o (ops_of (substitute s e)) -> In o (ops_of e).
Proof. intros R Hs. destruct s; [auto|]. apply walk_ops; assumption. Qed.

Lemma zip_subs_objmap vs os : objmap (zip_subs vs os).
Proof.
  revert os. induction vs as [|[v t] vs IH]; intros [|o os]; simpl; intros k w H; try destruct H.
  - inversion H; subst. eauto.
  - eapply IH. exact H.
Qed.

(* the keys are variables: the constant TRUE is not replaced *)
Lemma lookup_zip_true vs os : lookup (zip_subs vs os) (EBool true) = None.
Proof. revert os. induction vs as [|[v t] vs IH]; intros [|o os]; simpl; auto. Qed.
Lemma substitute_true vs os : substitute (zip_subs vs os) (EBool true) = EBool true.
Proof.
  unfold substitute. destruct (zip_subs vs os) eqn:Z; [reflexivity|]. rewrite <- Z.
  cbn [walk]. unfold replace_or_identity. rewrite lookup_zip_true. reflexivity.
Qed.


(* ---- ExpressionQuantifiersRemover: no quantifier is left, the only relevant operator that may be new is Or, and
   only when an Exists is expanded *)
Definition qconc (o : N) (l : list N) : Prop :=
  o <> op_EXISTS /\ o <> op_FORALL /\ (In o l \/ (o = op_OR /\ In op_EXISTS l)).

Lemma qconc_mono o l l' : incl l l' -> qconc o l -> qconc o l'.
Proof.
  intros H (A & B & C). split; [exact A|split; [exact B|]].
  destruct C as [C|[C D]]; [left; auto | right; auto].
Qed.

Lemma qconc_here o l : o <> op_EXISTS -> o <> op_FORALL -> qconc o (o :: l).
Proof. intros A B. split; [exact A|split; [exact B|left; left; reflexivity]]. Qed.

Lemma incl_child x l (t : N) : In x l -> incl (ops_of x) (t :: flat_map ops_of l).
Proof. intros Hx o Ho. right. apply (ops_in_list _ x); assumption. Qed.

Lemma incl_un (t : N) l : incl l (t :: l).
Proof. intros o Ho. right. exact Ho. Qed.
Lemma incl_binl (t : N) l l' : incl l (t :: l ++ l').
Proof. intros o Ho. right. apply in_or_app. left. exact Ho. Qed.
Lemma incl_binr (t : N) l l' : incl l' (t :: l ++ l').
Proof. intros o Ho. right. apply in_or_app. right. exact Ho. Qed.

Ltac e_list H I t :=
  apply ops_map in I; destruct I as (x & Hx & I); rewrite Forall_forall in H;
  apply (qconc_mono _ (ops_of x)); [simpl; rewrite ?ops_go; apply incl_child; exact Hx | exact (H x Hx I)].
Ltac e_bin IH1 IH2 :=
  let I := fresh "I" in
  simpl; intros [<-|I]; [apply qconc_here; discriminate|]; apply in_app_iff in I; destruct I as [I|I];
  [ apply (qconc_mono _ _ _ (incl_binl _ _ _) (IH1 I))
  | apply (qconc_mono _ _ _ (incl_binr _ _ _) (IH2 I)) ].
Ltac e_un IH :=
  let I := fresh "I" in
  simpl; intros [<-|I]; [apply qconc_here; discriminate|];
  apply (qconc_mono _ _ _ (incl_un _ _) (IH I)).

Lemma expand_ops o ob : rel o = true -> forall e, In o (ops_of (expand ob e)) -> qconc o (ops_of e).
Proof.
  intro R.
  induction e using expr_ind'; cbn [expand];
    try (simpl; intros [<-|[]]; apply qconc_here; discriminate).
  - simpl; rewrite !ops_go; intros [<-|I]; [apply qconc_here; discriminate|]. e_list H I 6%N.
  - simpl; rewrite !ops_go; intros [<-|I]; [apply qconc_here; discriminate|]. e_list H I 7%N.
  - intro I. apply ops_mkAnd in I. destruct I as [->|[->|I]]; [norel R|norel R|]. e_list H I 8%N.
  - intro I. apply ops_mkOr in I. destruct I as [->|[[-> _]|I]]; [norel R|apply qconc_here; discriminate|]. e_list H I 9%N.
  - intro I. apply ops_mkNot in I. destruct I as [->|I]; [apply qconc_here; discriminate|].
    apply (qconc_mono _ _ _ (incl_un _ _) (IHe I)).
  - e_bin IHe1 IHe2.
  - e_bin IHe1 IHe2.
  - (* Exists *)
    intro I. apply ops_mkOr in I. destruct I as [->|[[-> _]|I]]; [norel R| |].
    + split; [discriminate|split; [discriminate|]]. right. split; [reflexivity|left; reflexivity].
    + apply ops_map in I. destruct I as (os & _ & I).
      apply substitute_ops in I; [|exact R|apply zip_subs_objmap].
      apply (qconc_mono _ _ _ (incl_un _ _) (IHe I)).
  - (* Forall *)
    intro I. apply ops_mkAnd in I. destruct I as [->|[->|I]]; [norel R|norel R|].
    apply ops_map in I. destruct I as (os & _ & I).
    apply substitute_ops in I; [|exact R|apply zip_subs_objmap].
    apply (qconc_mono _ _ _ (incl_un _ _) (IHe I)).
  - intro I. apply ops_mkPlus in I. destruct I as [->|[->|I]]; [norel R|norel R|]. e_list H I 15%N.
  - e_bin IHe1 IHe2.
  - intro I. apply ops_mkTimes in I. destruct I as [->|[->|I]]; [norel R|norel R|]. e_list H I 17%N.
  - e_bin IHe1 IHe2.
  - e_bin IHe1 IHe2.
  - e_bin IHe1 IHe2.
  - e_bin IHe1 IHe2.
  - e_un IHe.
  - e_un IHe.
  - e_bin IHe1 IHe2.
  - e_bin IHe1 IHe2.
  - e_un IHe.
Qed.



(* ---------------------------------------------------------------- declared-kind programs *)
Lemma mem_setbit f g s : mem f (N.setbit s g) = (g =? f)%N || mem f s.
Proof. apply N.setbit_eqb. Qed.
Lemma mem_clearbit f g s : mem f (N.clearbit s g) = mem f s && negb (g =? f)%N.
Proof. apply N.clearbit_eqb. Qed.
Lemma neqb (f g : N) : f <> g -> (g =? f)%N = false.
Proof. intro H. apply N.eqb_neq. intro E. apply H. symmetry. exact E. Qed.

Ltac prog_cases H :=
  repeat match type of H with
         | context [if ?b then _ else _] => destruct b eqn:?
         | context [match k_ver ?k with _ => _ end] => destruct (k_ver k)
         end; try discriminate H; inversion H; subst; clear H; cbn [k_feats].

Lemma qr_program k d :
  run_resulting gen_tables (e_resulting E_up_quantifiers_remover) k = Ok d ->
  (forall f, f <> f_EXISTENTIAL_CONDITIONS -> f <> f_UNIVERSAL_CONDITIONS -> f <> f_FORALL_EFFECTS ->
             mem f (k_feats k) = true -> mem f (k_feats d) = true)
  /\ (mem f_EXISTENTIAL_CONDITIONS (k_feats k) = true -> mem f_DISJUNCTIVE_CONDITIONS (k_feats d) = true).
Proof.
  unfold run_resulting. cbn [E_up_quantifiers_remover e_resulting exec exec_i eval_cond has_any existsb].
  intro H. split.
  - intros f A B C M. prog_cases H; rewrite ?mem_setbit, !mem_clearbit, M, (neqb _ _ A), (neqb _ _ B), (neqb _ _ C); simpl; try apply orb_true_r; reflexivity.
  - intro M. rewrite M in H. cbn [orb] in H. prog_cases H; rewrite mem_setbit, N.eqb_refl; reflexivity.
Qed.

(* ---------------------------------------------------------------- QuantifiersRemover *)
Lemma fold_add_pre_in l : forall acc x, In x (fold_left add_pre l acc) -> In x acc \/ In x l.
Proof.
  induction l as [|p l IH]; simpl; intros acc x H; [left; exact H|].
  apply IH in H. destruct H as [H|H]; [|right; right; exact H].
  unfold add_pre in H. destruct (is_true p || existsb (expr_eqb p) acc); [left; exact H|].
  apply in_app_iff in H. destruct H as [H|[<-|[]]]; [left; exact H | right; left; reflexivity].
Qed.
Lemma add_pres_in l x : In x (add_pres l) -> In x l.
Proof. intro H. apply fold_add_pre_in in H. destruct H as [[]|H]. exact H. Qed.

Lemma in_map_actions q l ia' :
  In ia' (map_actions q l) -> exists ia, In ia l /\ fst ia' = fst ia /\ q (snd ia) = Some (snd ia').
Proof.
  unfold map_actions. rewrite in_flat_map. intros (ia & Hia & H). exists ia. split; [exact Hia|].
  destruct (q (snd ia)); [|destruct H]. destruct H as [<-|[]]. auto.
Qed.

Lemma qconc_subst o s c : rel o = true -> objmap s -> qconc o (ops_of (substitute s c)) -> qconc o (ops_of c).
Proof.
  intros R Hs (A & B & C). split; [exact A|split; [exact B|]].
  destruct C as [C|[-> C]]; [left; exact (substitute_ops _ _ _ R Hs C) | right; split; [reflexivity|]].
  apply (substitute_ops _ s); [reflexivity|exact Hs|exact C].
Qed.

Section QR.
  Variable smp : expr -> expr.
  Variable P : problem.

  (* every compiled effect comes from an original effect of the same kind; it has no forall variables; it is
     conditional only if the original is; the relevant operators of its condition come from the original's *)
  Lemma qr_effect effs e' :
    In e' (q_effects smp P effs) ->
    exists e, In e effs /\ e_kind e' = e_kind e /\ e_vars e' = [] /\
      (is_true (e_cond e') = false -> is_true (e_cond e) = false) /\
      (forall o, rel o = true -> keeps_op smp o -> In o (ops_of (e_cond e')) -> qconc o (ops_of (e_cond e))).
  Proof.
    unfold q_effects. rewrite in_flat_map. intros (e & He & H). rewrite in_flat_map in H. destruct H as (e1 & H1 & H).
    exists e. split; [exact He|].
    assert (E1 : e_kind e1 = e_kind e /\ e_vars e1 = [] /\
                 (is_true (e_cond e) = true -> e_cond e1 = EBool true) /\
                 (forall o, rel o = true -> qconc o (ops_of (e_cond e1)) -> qconc o (ops_of (e_cond e)))).
    { unfold expand_effect in H1. destruct (e_vars e) as [|v vs] eqn:V.
      - destruct H1 as [<-|[]].
        split; [reflexivity|split; [exact V|split; [apply is_true_eq | intros o R Q; exact Q]]].
      - apply in_map_iff in H1. destruct H1 as (os & <- & _). cbn [set_cv e_kind e_vars e_cond].
        split; [reflexivity|split; [reflexivity|split]].
        + intro T. apply is_true_eq in T. rewrite T. apply substitute_true.
        + intros o R. apply qconc_subst; [exact R|apply zip_subs_objmap]. }
    destruct E1 as (K1 & V1 & T1 & O1).
    unfold q_effect1 in H.
    destruct (is_false _); [destruct H|]. destruct H as [<-|[]]. cbn [set_cv e_kind e_vars e_cond].
    split; [exact K1|split; [exact V1|split]].
    - intro F. destruct (is_true (e_cond e)) eqn:T; [|reflexivity]. exfalso.
      rewrite (T1 eq_refl) in F. unfold is_uncond in F. rewrite (T1 eq_refl) in F. simpl in F. discriminate F.
    - intros o R Kp I. apply O1; [exact R|]. unfold is_uncond in I.
      destruct (is_true (e_cond e1)) eqn:T.
      + apply is_true_eq in T. rewrite T in I. simpl in I. destruct I as [<-|[]]. discriminate R.
      + apply Kp in I. exact (expand_ops _ _ R _ I).
  Qed.

  Lemma qr_effs e' :
    In e' (la_effs (quant_compile smp P)) ->
    exists e, In e (la_effs P) /\ e_kind e' = e_kind e /\ e_vars e' = [] /\
      (is_true (e_cond e') = false -> is_true (e_cond e) = false).
  Proof.
    rewrite in_la_effs. intros (ia' & Hia' & He'). cbn [quant_compile p_actions] in Hia'.
    apply in_map_actions in Hia'. destruct Hia' as (ia & Hia & _ & Q).
    unfold q_action in Q. destruct (add_effs_ok _ _ _); [|discriminate]. inversion Q as [Q']. rewrite <- Q' in He'.
    cbn [a_effs] in He'. apply qr_effect in He'. destruct He' as (e & He & A & B & C & _).
    exists e. split; [apply in_la_effs; exists ia; auto|auto].
  Qed.

  Lemma qr_conds c' o :
    In c' (la_conds (quant_compile smp P)) -> rel o = true -> keeps_op smp o -> In o (ops_of c') ->
    exists c, In c (la_conds P) /\ qconc o (ops_of c).
  Proof.
    intros Hc R Kp I. apply in_la_conds in Hc. cbn [quant_compile p_actions p_invs p_goals] in Hc.
    destruct Hc as [(ia' & Hia' & Hc)|[Hc|Hc]].
    - apply in_map_actions in Hia'. destruct Hia' as (ia & Hia & _ & Q).
      unfold q_action in Q. destruct (add_effs_ok _ _ _); [|discriminate]. inversion Q as [Q']. rewrite <- Q' in Hc.
      cbn [a_pre a_effs] in Hc. destruct Hc as [Hc|(e' & He' & ->)].
      + apply add_pres_in in Hc. apply in_map_iff in Hc. destruct Hc as (c & <- & Hc).
        exists c. split; [apply in_la_conds; left; exists ia; auto|]. exact (expand_ops _ _ R _ I).
      + apply qr_effect in He'. destruct He' as (e & He & _ & _ & _ & O).
        exists (e_cond e). split; [apply in_la_conds; left; exists ia; split; [exact Hia|right; exists e; auto]|].
        exact (O o R Kp I).
    - unfold q_invs in Hc. apply filter_In in Hc. destruct Hc as [Hc _]. apply in_map_iff in Hc.
      destruct Hc as (c & <- & Hc). exists c. split; [apply in_la_conds; auto|]. apply Kp in I. exact (expand_ops _ _ R _ I).
    - unfold add_goals in Hc. apply filter_In in Hc. destruct Hc as [Hc _]. apply in_map_iff in Hc.
      destruct Hc as (c & <- & Hc). exists c. split; [apply in_la_conds; auto|]. exact (expand_ops _ _ R _ I).
  Qed.
End QR.


Lemma in_fl_feats f fd : In f (fl_feats fd) -> f = f_BOUNDED_TYPES \/ f = f_OBJECT_FLUENTS.
Proof.
  unfold fl_feats. destruct (fd_ty fd); simpl; [tauto| |intuition].
  intro H. apply in_clause_iff in H. left. tauto.
Qed.

Lemma within_fluent P k f fd : la_within P k -> In fd (p_fluents P) -> In f (fl_feats fd) -> mem f k = true.
Proof. intros W Hfd H. apply W. apply in_la_feats. left. exists fd. auto. Qed.

Lemma within_cond P k c o :
  la_within P k -> In c (la_conds P) -> rel o = true -> In o (ops_of c) -> mem (op_feature o) k = true.
Proof.
  intros W Hc R I. apply W. apply in_la_feats. right; left. exists c. split; [exact Hc|].
  apply in_cond_feats. exists o. auto.
Qed.

Lemma within_cond_eff P k : la_within P k -> (exists e, In e (la_effs P) /\ is_true (e_cond e) = false) ->
  mem f_CONDITIONAL_EFFECTS k = true.
Proof. intros W H. apply W. apply in_la_feats. right; right; left. auto. Qed.
Lemma within_inc P k : la_within P k -> (exists e, In e (la_effs P) /\ is_inc e = true) -> mem f_INCREASE_EFFECTS k = true.
Proof. intros W H. apply W. apply in_la_feats. do 4 right; left. auto. Qed.
Lemma within_dec P k : la_within P k -> (exists e, In e (la_effs P) /\ is_dec e = true) -> mem f_DECREASE_EFFECTS k = true.
Proof. intros W H. apply W. apply in_la_feats. do 5 right; left. auto. Qed.
Lemma within_inv P k : la_within P k -> p_invs P <> [] -> mem f_STATE_INVARIANTS k = true.
Proof. intros W H. apply W. apply in_la_feats. do 6 right. auto. Qed.


Lemma rel_not_or o : rel o = true -> o = op_NOT \/ In o six_ops.
Proof. intro R. apply rel_cases in R. simpl. intuition. Qed.

Section QRk.
  Variable smp : expr -> expr.
  Variable P : problem.

  Theorem qr_removed :
    keeps_op smp op_EXISTS -> keeps_op smp op_FORALL ->
    forall f, In f [f_EXISTENTIAL_CONDITIONS; f_UNIVERSAL_CONDITIONS; f_FORALL_EFFECTS] ->
              ~ In f (la_feats (quant_compile smp P)).
  Proof.
    intros KE KF f Hf H. apply in_la_feats in H.
    destruct H as [(fd & _ & H)|[(c' & Hc' & H)|[(-> & _)|[(-> & e' & He' & V)|[(-> & _)|[(-> & _)|(-> & _)]]]]]].
    - apply in_fl_feats in H. destruct H as [-> | ->]; simpl in Hf; intuition discriminate.
    - apply in_cond_feats in H. destruct H as (o & R & <- & I).
      assert (Kp : keeps_op smp o \/ (o <> op_EXISTS /\ o <> op_FORALL)).
      { apply rel_cases in R. destruct R as [->|[->|[->|[->|[->|[->| ->]]]]]]; auto; right; split; discriminate. }
      destruct Kp as [Kp|[A B]].
      + destruct (qr_conds smp P c' o Hc' R Kp I) as (c & _ & A & B & _).
        apply rel_cases in R. destruct R as [->|[->|[->|[->|[->|[->| ->]]]]]]; simpl in Hf; intuition discriminate.
      + apply rel_cases in R. destruct R as [->|[->|[->|[->|[->|[->| ->]]]]]]; simpl in Hf; intuition discriminate.
    - simpl in Hf; intuition discriminate.
    - apply qr_effs in He'. destruct He' as (e & _ & _ & V' & _). congruence.
    - simpl in Hf; intuition discriminate.
    - simpl in Hf; intuition discriminate.
    - simpl in Hf; intuition discriminate.
  Qed.

  Theorem qr_kind k d :
    smp_ok smp -> la_within P (k_feats k) ->
    run_resulting gen_tables (e_resulting E_up_quantifiers_remover) k = Ok d ->
    forall f, In f (la_feats (quant_compile smp P)) -> (f = f_NEGATIVE_CONDITIONS -> keeps_op smp op_NOT) ->
              mem f (k_feats d) = true.
  Proof.
    intros S W Run f H N. destruct (qr_program k d Run) as [Keep Disj].
    apply in_la_feats in H.
    destruct H as [(fd & Hfd & H)|[(c' & Hc' & H)|[(-> & e' & He' & U)|[(-> & e' & He' & V)|[(-> & e' & He' & U)|[(-> & e' & He' & U)|(-> & NE)]]]]]].
    - cbn [quant_compile p_fluents] in Hfd. pose proof (within_fluent P _ f fd W Hfd H) as M.
      apply in_fl_feats in H. destruct H as [-> | ->]; apply Keep; (discriminate || exact M).
    - apply in_cond_feats in H. destruct H as (o & R & <- & I).
      assert (Kp : keeps_op smp o).
      { destruct (rel_not_or o R) as [->|Ho]; [apply N; reflexivity | apply S; exact Ho]. }
      destruct (qr_conds smp P c' o Hc' R Kp I) as (c & Hc & A & B & [C|[-> C]]).
      + pose proof (within_cond P _ c o W Hc R C) as M.
        apply Keep; [| | |exact M]; apply rel_cases in R;
          destruct R as [->|[->|[->|[->|[->|[->| ->]]]]]]; try discriminate; congruence.
      + apply Disj. exact (within_cond P _ c op_EXISTS W Hc eq_refl C).
    - apply qr_effs in He'. destruct He' as (e & He & _ & _ & T). apply Keep; try discriminate.
      apply (within_cond_eff P); [exact W|]. exists e. auto.
    - apply qr_effs in He'. destruct He' as (e & _ & _ & V' & _). congruence.
    - apply qr_effs in He'. destruct He' as (e & He & K & _). apply Keep; try discriminate.
      apply (within_inc P); [exact W|]. exists e. split; [exact He|]. unfold is_inc in *. rewrite <- K. exact U.
    - apply qr_effs in He'. destruct He' as (e & He & K & _). apply Keep; try discriminate.
      apply (within_dec P); [exact W|]. exists e. split; [exact He|]. unfold is_dec in *. rewrite <- K. exact U.
    - apply Keep; try discriminate. apply (within_inv P); [exact W|]. intro E. apply NE.
      cbn [quant_compile p_invs]. rewrite E. reflexivity.
  Qed.
End QRk.



Lemma cer_program k d :
  run_resulting gen_tables (e_resulting E_up_conditional_effects_remover) k = Ok d ->
  (forall f, f <> f_CONDITIONAL_EFFECTS -> mem f (k_feats k) = true -> mem f (k_feats d) = true)
  /\ (mem f_CONDITIONAL_EFFECTS (k_feats k) = true -> mem f_NEGATIVE_CONDITIONS (k_feats d) = true).
Proof.
  unfold run_resulting. cbn [E_up_conditional_effects_remover e_resulting exec exec_i eval_cond has_any existsb].
  intro H. split.
  - intros f A M. prog_cases H; rewrite ?mem_setbit, ?mem_clearbit, ?M, ?(neqb _ _ A); simpl; try apply orb_true_r; auto.
  - intro M. rewrite M in H. cbn [orb] in H. prog_cases H; rewrite mem_setbit, N.eqb_refl; reflexivity.
Qed.

Lemma number_from_in {A} (l : list A) : forall k kv, In kv (number_from k l) -> In (snd kv) l.
Proof. induction l as [|x l IH]; simpl; intros k kv H; [exact H|]. destruct H as [<-|H]; [left; reflexivity|right; eauto]. Qed.

Lemma sel_pre_in ces : forall sel c, In c (sel_pre ces sel) -> exists e, In e ces /\ (c = e_cond e \/ c = mkNot (e_cond e)).
Proof.
  induction ces as [|e ces IH]; intros [|b sel] c; simpl; try tauto.
  intros [<-|H]; [exists e; split; [left; reflexivity|destruct b; auto]|].
  destruct (IH sel c H) as (e0 & He0 & H0). exists e0. auto.
Qed.
Lemma sel_effs_in ces : forall sel e', In e' (sel_effs ces sel) -> exists e, In e ces /\ e' = strip_cond e.
Proof.
  induction ces as [|e ces IH]; intros [|b sel] e'; simpl; try tauto.
  rewrite in_app_iff. intros [H|H].
  - destruct b; [|destruct H]. destruct H as [<-|[]]. exists e. auto.
  - destruct (IH sel e' H) as (e0 & He0 & H0). exists e0. auto.
Qed.

Lemma cond_effs_nil effs : cond_effs effs = [] -> forall e, In e effs -> is_uncond e = true.
Proof.
  unfold cond_effs. intros H e He. destruct (is_uncond e) eqn:U; [reflexivity|exfalso].
  assert (I : In e (filter (fun e => negb (is_uncond e)) effs)) by (apply filter_In; rewrite U; auto).
  rewrite H in I. destruct I.
Qed.
Lemma cond_effs_in effs e : In e (cond_effs effs) -> In e effs /\ is_true (e_cond e) = false.
Proof. unfold cond_effs. rewrite filter_In. unfold is_uncond. intros [A B]. split; [exact A|]. destruct (is_true _); [discriminate|reflexivity]. Qed.

Section CERk.
  Variable simp_pre : list expr -> option (list expr).
  Variable nm : N -> nat -> N.
  Variable P : problem.
  Let P' := cer_compile simp_pre nm P.

  Lemma cer_action ia' :
    In ia' (p_actions P') ->
    exists ia, In ia (p_actions P) /\
      ((is_cond_action (snd ia) = false /\ snd ia' = snd ia)
       \/ (is_cond_action (snd ia) = true /\ In (snd ia') (cer_variants simp_pre (snd ia)))).
  Proof.
    unfold P'. cbn [cer_compile p_actions]. unfold vt_actions. rewrite in_map_iff. intros (x & <- & Hx).
    unfold cer_table in Hx. rewrite in_flat_map in Hx. destruct Hx as (ia & Hia & Hx). exists ia. split; [exact Hia|].
    cbv zeta in Hx. destruct (is_cond_action (snd ia)).
    - right. split; [reflexivity|]. apply in_map_iff in Hx. destruct Hx as (kv & <- & Hkv). cbn [snd].
      exact (number_from_in _ _ _ Hkv).
    - left. split; [reflexivity|]. destruct Hx as [<-|[]]. reflexivity.
  Qed.

  Lemma cer_variant a v :
    In v (cer_variants simp_pre a) ->
    exists sel pre', simp_pre (a_pre a ++ sel_pre (cond_effs (a_effs a)) sel) = Some pre' /\ a_pre v = pre' /\
                     a_effs v = uncond_effs (a_effs a) ++ sel_effs (cond_effs (a_effs a)) sel.
  Proof.
    unfold cer_variants. rewrite in_flat_map. intros (sel & _ & H). cbv zeta in H.
    destruct (simp_pre (a_pre (ce_variant a sel))) as [pre'|] eqn:S; [|destruct H]. destruct H as [<-|[]].
    exists sel, pre'. cbn [ce_variant a_pre] in S. split; [exact S|]. split; reflexivity.
  Qed.

  (* every effect of the compiled problem is unconditional and has the kind / variables of an original effect *)
  Lemma cer_effs e' :
    In e' (la_effs P') ->
    is_true (e_cond e') = true /\ exists e, In e (la_effs P) /\ e_kind e' = e_kind e /\ e_vars e' = e_vars e.
  Proof.
    rewrite in_la_effs. intros (ia' & Hia' & He'). apply cer_action in Hia'.
    destruct Hia' as (ia & Hia & [[C E]|[C V]]).
    - rewrite E in He'. split.
      + unfold is_cond_action in C. destruct (cond_effs (a_effs (snd ia))) eqn:CE; [|discriminate].
        exact (cond_effs_nil _ CE e' He').
      + exists e'. split; [apply in_la_effs; exists ia; auto|auto].
    - apply cer_variant in V. destruct V as (sel & pre' & _ & _ & Effs). rewrite Effs in He'.
      apply in_app_iff in He'. destruct He' as [He'|He'].
      + unfold uncond_effs in He'. apply filter_In in He'. destruct He' as [He' U]. split; [exact U|].
        exists e'. split; [apply in_la_effs; exists ia; auto|auto].
      + apply sel_effs_in in He'. destruct He' as (e & He & ->). split; [reflexivity|].
        apply cond_effs_in in He. exists e. split; [apply in_la_effs; exists ia; tauto|auto].
  Qed.

  Lemma cer_conds c' o :
    In c' (la_conds P') -> rel o = true -> In o (ops_of c') -> (o <> op_NOT -> simp_pre_keeps simp_pre o) ->
    (exists c, In c (la_conds P) /\ In o (ops_of c))
    \/ (o = op_NOT /\ exists e, In e (la_effs P) /\ is_true (e_cond e) = false).
  Proof.
    intros Hc R I Kp. apply in_la_conds in Hc. destruct Hc as [(ia' & Hia' & Hc)|[Hc|Hc]].
    - pose proof Hia' as Hact. apply cer_action in Hia'. destruct Hia' as (ia & Hia & [[C E]|[C V]]).
      + left. rewrite E in Hc. exists c'. split; [|exact I]. apply in_la_conds. left. exists ia. auto.
      + destruct Hc as [Hc|(e' & He' & ->)].
        * apply cer_variant in V. destruct V as (sel & pre' & S & Pre & _). rewrite Pre in Hc.
          assert (CE : exists e, In e (la_effs P) /\ is_true (e_cond e) = false).
          { unfold is_cond_action in C. destruct (cond_effs (a_effs (snd ia))) as [|e l] eqn:CE; [discriminate|].
            assert (He : In e (cond_effs (a_effs (snd ia)))) by (rewrite CE; left; reflexivity).
            apply cond_effs_in in He. exists e. split; [apply in_la_effs; exists ia; tauto|tauto]. }
          destruct (N.eq_dec o op_NOT) as [->|NN]; [right; auto|left].
          destruct (Kp NN _ _ _ S Hc I) as (c & Hc0 & I0). apply in_app_iff in Hc0. destruct Hc0 as [Hc0|Hc0].
          -- exists c. split; [apply in_la_conds; left; exists ia; auto|exact I0].
          -- apply sel_pre_in in Hc0. destruct Hc0 as (e & He & Hce). apply cond_effs_in in He.
             exists (e_cond e). split; [apply in_la_conds; left; exists ia; split; [exact Hia|right; exists e; tauto]|].
             destruct Hce as [->| ->]; [exact I0|]. apply ops_mkNot in I0. destruct I0 as [->|I0]; [exfalso; apply NN; reflexivity|exact I0].
        * exfalso. assert (He : In e' (la_effs P')) by (apply in_la_effs; exists ia'; auto).
          apply cer_effs in He. destruct He as [T _]. apply is_true_eq in T. rewrite T in I. simpl in I.
          destruct I as [<-|[]]. discriminate R.
    - left. exists c'. split; [apply in_la_conds; auto|exact I].
    - left. exists c'. split; [apply in_la_conds; auto|exact I].
  Qed.

  Theorem cer_removed : ~ In f_CONDITIONAL_EFFECTS (la_feats P').
  Proof.
    intro H. apply in_la_feats in H.
    destruct H as [(fd & _ & H)|[(c' & Hc' & H)|[(_ & e' & He' & U)|[(E & _)|[(E & _)|[(E & _)|(E & _)]]]]]];
      try discriminate E.
    - apply in_fl_feats in H. destruct H as [H|H]; discriminate H.
    - apply in_cond_feats in H. destruct H as (o & R & E & _). apply rel_cases in R.
      destruct R as [->|[->|[->|[->|[->|[->| ->]]]]]]; discriminate E.
    - apply cer_effs in He'. destruct He' as [T _]. congruence.
  Qed.

  Theorem cer_kind k d :
    (forall o, In o six_ops -> simp_pre_keeps simp_pre o) -> la_within P (k_feats k) ->
    run_resulting gen_tables (e_resulting E_up_conditional_effects_remover) k = Ok d ->
    forall f, In f (la_feats P') -> mem f (k_feats d) = true.
  Proof.
    intros S W Run f H. destruct (cer_program k d Run) as [Keep Neg].
    apply in_la_feats in H.
    destruct H as [(fd & Hfd & H)|[(c' & Hc' & H)|[(-> & e' & He' & U)|[(-> & e' & He' & V)|[(-> & e' & He' & U)|[(-> & e' & He' & U)|(-> & NE)]]]]]].
    - pose proof (within_fluent P _ f fd W Hfd H) as M.
      apply in_fl_feats in H. destruct H as [-> | ->]; apply Keep; (discriminate || exact M).
    - apply in_cond_feats in H. destruct H as (o & R & <- & I).
      assert (Kp : o <> op_NOT -> simp_pre_keeps simp_pre o).
      { intro NN. destruct (rel_not_or o R) as [->|Ho]; [congruence | apply S; exact Ho]. }
      destruct (cer_conds c' o Hc' R I Kp) as [(c & Hc & C)|[-> CE]].
      + pose proof (within_cond P _ c o W Hc R C) as M.
        apply Keep; [|exact M]. apply rel_cases in R.
        destruct R as [->|[->|[->|[->|[->|[->| ->]]]]]]; discriminate.
      + apply Neg. exact (within_cond_eff P _ W CE).
    - apply cer_effs in He'. destruct He' as [T _]. congruence.
    - apply cer_effs in He'. destruct He' as (_ & e & He & _ & V'). apply Keep; try discriminate.
      apply W. apply in_la_feats. do 3 right; left. split; [reflexivity|]. exists e. split; [exact He|congruence].
    - apply cer_effs in He'. destruct He' as (_ & e & He & K & _). apply Keep; try discriminate.
      apply (within_inc P); [exact W|]. exists e. split; [exact He|]. unfold is_inc in *. rewrite <- K. exact U.
    - apply cer_effs in He'. destruct He' as (_ & e & He & K & _). apply Keep; try discriminate.
      apply (within_dec P); [exact W|]. exists e. split; [exact He|]. unfold is_dec in *. rewrite <- K. exact U.
    - apply Keep; try discriminate. apply (within_inv P); [exact W|]. exact NE.
  Qed.
End CERk.


Lemma sir_program k d :
  run_resulting gen_tables (e_resulting E_up_state_invariants_remover) k = Ok d ->
  forall f, f <> f_STATE_INVARIANTS -> mem f (k_feats k) = true -> mem f (k_feats d) = true.
Proof.
  unfold run_resulting. cbn [E_up_state_invariants_remover e_resulting exec exec_i eval_cond has_any existsb].
  intros H f A M. prog_cases H; rewrite ?mem_setbit, ?mem_clearbit, ?M, ?(neqb _ _ A); simpl; try apply orb_true_r; auto.
Qed.
Lemma btr_program k d :
  run_resulting gen_tables (e_resulting E_up_bounded_types_remover) k = Ok d ->
  forall f, f <> f_BOUNDED_TYPES -> mem f (k_feats k) = true -> mem f (k_feats d) = true.
Proof.
  unfold run_resulting. cbn [E_up_bounded_types_remover e_resulting exec exec_i eval_cond has_any existsb].
  intros H f A M. prog_cases H; rewrite ?mem_setbit, ?mem_clearbit, ?M, ?(neqb _ _ A); simpl; try apply orb_true_r; auto.
Qed.

Lemma conj_parts_ops c c' o : In c' (conj_parts c) -> In o (ops_of c') -> In o (ops_of c).
Proof.
  destruct c; simpl; try (intros [<-|[]] I; exact I).
  intros Hc I. rewrite ops_go. right. exact (ops_in_list _ _ _ Hc I).
Qed.

Lemma mkAnd_rel o l : rel o = true -> In o (ops_of (mkAnd l)) -> exists x, In x l /\ In o (ops_of x).
Proof.
  intros R I. apply ops_mkAnd in I. destruct I as [->|[->|I]]; [discriminate R|discriminate R|].
  apply in_flat_map in I. exact I.
Qed.

Section Invk.
  Variable smp : expr -> expr.
  Variable cond : expr.
  Variables P P' : problem.
  Hypothesis HA : p_actions P' = map_actions (inv_action smp cond) (p_actions P).
  Hypothesis HG : p_goals P' = inv_goals smp cond (p_goals P).
  Hypothesis HI : incl (p_invs P') (p_invs P).

  Lemma inv_effs e : In e (la_effs P') -> In e (la_effs P).
  Proof.
    rewrite !in_la_effs. intros (ia' & Hia' & He). rewrite HA in Hia'. apply in_map_actions in Hia'.
    destruct Hia' as (ia & Hia & _ & Q). unfold inv_action in Q. destruct (is_false _); [discriminate|].
    inversion Q as [Q']. rewrite <- Q' in He. exists ia. auto.
  Qed.

  Lemma inv_conds c' o :
    In c' (la_conds P') -> rel o = true -> keeps_op smp o -> In o (ops_of c') ->
    (exists c, In c (la_conds P) /\ In o (ops_of c)) \/ In o (ops_of cond).
  Proof.
    intros Hc R Kp I. apply in_la_conds in Hc.
    assert (G : forall l, In o (ops_of (smp (mkAnd (l ++ [cond])))) -> (exists c, In c l /\ In o (ops_of c)) \/ In o (ops_of cond)).
    { intros l J. apply Kp in J. apply (mkAnd_rel _ _ R) in J. destruct J as (x & Hx & J).
      apply in_app_iff in Hx. destruct Hx as [Hx|[<-|[]]]; [left; eauto|right; exact J]. }
    destruct Hc as [(ia' & Hia' & Hc)|[Hc|Hc]].
    - rewrite HA in Hia'. apply in_map_actions in Hia'. destruct Hia' as (ia & Hia & _ & Q).
      unfold inv_action in Q. destruct (is_false _); [discriminate|]. inversion Q as [Q']. rewrite <- Q' in Hc.
      cbn [a_pre a_effs] in Hc. destruct Hc as [Hc|(e & He & ->)].
      + apply add_pres_in in Hc. pose proof (conj_parts_ops _ _ _ Hc I) as J. apply G in J.
        destruct J as [(c & Hc0 & J)|J]; [left|right; exact J].
        exists c. split; [apply in_la_conds; left; exists ia; auto|exact J].
      + left. exists (e_cond e). split; [apply in_la_conds; left; exists ia; split; [exact Hia|right; exists e; auto]|exact I].
    - left. exists c'. split; [apply in_la_conds; right; left; apply HI; exact Hc|exact I].
    - rewrite HG in Hc. unfold inv_goals, add_goals in Hc. apply filter_In in Hc. destruct Hc as [Hc _].
      pose proof (conj_parts_ops _ _ _ Hc I) as J. apply G in J.
      destruct J as [(c & Hc0 & J)|J]; [left|right; exact J].
      exists c. split; [apply in_la_conds; auto|exact J].
  Qed.
End Invk.

(* ---------------------------------------------------------------- StateInvariantsRemover *)
Section SIRk.
  Variable smp : expr -> expr.
  Variable P : problem.
  Let P' := sir_compile smp P.

  Lemma sir_conds c' o :
    In c' (la_conds P') -> rel o = true -> keeps_op smp o -> In o (ops_of c') -> exists c, In c (la_conds P) /\ In o (ops_of c).
  Proof.
    intros Hc R Kp I.
    destruct (inv_conds smp (sir_cond smp P) P P' eq_refl eq_refl (fun x H => match H with end) c' o Hc R Kp I) as [H|J];
      [exact H|].
    unfold sir_cond in J. apply Kp in J. apply (mkAnd_rel _ _ R) in J. destruct J as (x & Hx & J).
    exists x. split; [apply in_la_conds; auto|exact J].
  Qed.

  Theorem sir_removed : ~ In f_STATE_INVARIANTS (la_feats P').
  Proof.
    intro H. apply in_la_feats in H.
    destruct H as [(fd & _ & H)|[(c' & Hc' & H)|[(E & _)|[(E & _)|[(E & _)|[(E & _)|(_ & NE)]]]]]];
      try discriminate E.
    - apply in_fl_feats in H. destruct H as [H|H]; discriminate H.
    - apply in_cond_feats in H. destruct H as (o & R & E & _). apply rel_cases in R.
      destruct R as [->|[->|[->|[->|[->|[->| ->]]]]]]; discriminate E.
    - apply NE. reflexivity.
  Qed.

  Theorem sir_kind k d :
    smp_ok smp -> la_within P (k_feats k) ->
    run_resulting gen_tables (e_resulting E_up_state_invariants_remover) k = Ok d ->
    forall f, In f (la_feats P') -> (f = f_NEGATIVE_CONDITIONS -> keeps_op smp op_NOT) -> mem f (k_feats d) = true.
  Proof.
    intros S W Run f H N. pose proof (sir_program k d Run) as Keep.
    assert (EF : forall e, In e (la_effs P') -> In e (la_effs P))
      by (apply (inv_effs smp (sir_cond smp P)); reflexivity).
    apply in_la_feats in H.
    destruct H as [(fd & Hfd & H)|[(c' & Hc' & H)|[(-> & e' & He' & U)|[(-> & e' & He' & V)|[(-> & e' & He' & U)|[(-> & e' & He' & U)|(-> & NE)]]]]]].
    - pose proof (within_fluent P _ f fd W Hfd H) as M.
      apply in_fl_feats in H. destruct H as [-> | ->]; apply Keep; (discriminate || exact M).
    - apply in_cond_feats in H. destruct H as (o & R & <- & I).
      assert (Kp : keeps_op smp o).
      { destruct (rel_not_or o R) as [->|Ho]; [apply N; reflexivity | apply S; exact Ho]. }
      destruct (sir_conds c' o Hc' R Kp I) as (c & Hc & C).
      pose proof (within_cond P _ c o W Hc R C) as M.
      apply Keep; [|exact M]. apply rel_cases in R.
      destruct R as [->|[->|[->|[->|[->|[->| ->]]]]]]; discriminate.
    - apply Keep; try discriminate. apply (within_cond_eff P); [exact W|]. exists e'. auto.
    - apply Keep; try discriminate. apply W. apply in_la_feats. do 3 right; left. split; [reflexivity|]. exists e'. auto.
    - apply Keep; try discriminate. apply (within_inc P); [exact W|]. exists e'. auto.
    - apply Keep; try discriminate. apply (within_dec P); [exact W|]. exists e'. auto.
    - exfalso. apply NE. reflexivity.
  Qed.
End SIRk.

(* ---------------------------------------------------------------- BoundedTypesRemover *)
Lemma num_node_ops q o : In o (ops_of (num_node q)) -> rel o = false.
Proof. unfold num_node. destruct (_ =? _)%Z; simpl; intros [<-|[]]; reflexivity. Qed.
Lemma value_expr_ops v o : In o (ops_of (value_expr v)) -> rel o = false.
Proof. destruct v; simpl; [intros [<-|[]]; reflexivity | apply num_node_ops | intros [<-|[]]; reflexivity]. Qed.

Lemma bound_invs_ops P x o : In x (bound_invs P) -> In o (ops_of x) -> rel o = false.
Proof.
  unfold bound_invs. rewrite in_flat_map. intros (fd & _ & H).
  destruct (fd_ty fd) as [|lo hi|]; try destruct H.
  apply in_flat_map in H. destruct H as (a & _ & H). cbv zeta in H.
  assert (F : forall o, In o (ops_of (EFluent (fd_id fd) (map value_expr a))) -> rel o = false).
  { intros o0. simpl. rewrite ops_go. intros [<-|I]; [reflexivity|]. apply ops_map in I. destruct I as (v & _ & I).
    exact (value_expr_ops _ _ I). }
  apply in_app_iff in H. destruct H as [H|H].
  - destruct lo as [q|]; [|destruct H]. destruct H as [<-|[]]. intro I.
    change (In o (19%N :: ops_of (num_node q) ++ ops_of (EFluent (fd_id fd) (map value_expr a)))) in I.
    destruct I as [<-|I]; [reflexivity|].
    apply in_app_iff in I. destruct I as [I|I]; [exact (num_node_ops _ _ I)|exact (F _ I)].
  - destruct hi as [q|]; [|destruct H]. destruct H as [<-|[]]. intro I.
    change (In o (19%N :: ops_of (EFluent (fd_id fd) (map value_expr a)) ++ ops_of (num_node q))) in I.
    destruct I as [<-|I]; [reflexivity|].
    apply in_app_iff in I. destruct I as [I|I]; [exact (F _ I)|exact (num_node_ops _ _ I)].
Qed.

Lemma fl_feats_unbound fd f : In f (fl_feats (unbound fd)) -> f = f_OBJECT_FLUENTS /\ In f (fl_feats fd).
Proof.
  unfold fl_feats, unbound. cbn [fd_ty]. destruct (fd_ty fd); simpl; [tauto|tauto|]. intros [<-|[]]. auto.
Qed.

Section BTRk.
  Variable smp : expr -> expr.
  Variable P : problem.
  Let P' := btr_compile smp P.

  Lemma btr_conds c' o :
    In c' (la_conds P') -> rel o = true -> keeps_op smp o -> In o (ops_of c') -> exists c, In c (la_conds P) /\ In o (ops_of c).
  Proof.
    intros Hc R Kp I.
    destruct (inv_conds smp (btr_cond P) P P' eq_refl eq_refl (fun x H => H) c' o Hc R Kp I) as [H|J];
      [exact H|exfalso].
    unfold btr_cond in J. apply (mkAnd_rel _ _ R) in J. destruct J as (x & Hx & J).
    rewrite (bound_invs_ops _ _ _ Hx J) in R. discriminate R.
  Qed.

  Theorem btr_removed : ~ In f_BOUNDED_TYPES (la_feats P').
  Proof.
    intro H. apply in_la_feats in H.
    destruct H as [(fd & Hfd & H)|[(c' & Hc' & H)|[(E & _)|[(E & _)|[(E & _)|[(E & _)|(E & _)]]]]]];
      try discriminate E.
    - cbn [P' btr_compile p_fluents] in Hfd. apply in_map_iff in Hfd. destruct Hfd as (fd0 & <- & _).
      apply fl_feats_unbound in H. destruct H as [E _]. discriminate E.
    - apply in_cond_feats in H. destruct H as (o & R & E & _). apply rel_cases in R.
      destruct R as [->|[->|[->|[->|[->|[->| ->]]]]]]; discriminate E.
  Qed.

  Theorem btr_kind k d :
    smp_ok smp -> la_within P (k_feats k) ->
    run_resulting gen_tables (e_resulting E_up_bounded_types_remover) k = Ok d ->
    forall f, In f (la_feats P') -> (f = f_NEGATIVE_CONDITIONS -> keeps_op smp op_NOT) -> mem f (k_feats d) = true.
  Proof.
    intros S W Run f H N. pose proof (btr_program k d Run) as Keep.
    assert (EF : forall e, In e (la_effs P') -> In e (la_effs P))
      by (apply (inv_effs smp (btr_cond P)); reflexivity).
    apply in_la_feats in H.
    destruct H as [(fd & Hfd & H)|[(c' & Hc' & H)|[(-> & e' & He' & U)|[(-> & e' & He' & V)|[(-> & e' & He' & U)|[(-> & e' & He' & U)|(-> & NE)]]]]]].
    - cbn [P' btr_compile p_fluents] in Hfd. apply in_map_iff in Hfd. destruct Hfd as (fd0 & <- & Hfd0).
      apply fl_feats_unbound in H. destruct H as [-> H]. apply Keep; [discriminate|].
      exact (within_fluent P _ _ fd0 W Hfd0 H).
    - apply in_cond_feats in H. destruct H as (o & R & <- & I).
      assert (Kp : keeps_op smp o).
      { destruct (rel_not_or o R) as [->|Ho]; [apply N; reflexivity | apply S; exact Ho]. }
      destruct (btr_conds c' o Hc' R Kp I) as (c & Hc & C).
      pose proof (within_cond P _ c o W Hc R C) as M.
      apply Keep; [|exact M]. apply rel_cases in R.
      destruct R as [->|[->|[->|[->|[->|[->| ->]]]]]]; discriminate.
    - apply Keep; try discriminate. apply (within_cond_eff P); [exact W|]. exists e'. auto.
    - apply Keep; try discriminate. apply W. apply in_la_feats. do 3 right; left. split; [reflexivity|]. exists e'. auto.
    - apply Keep; try discriminate. apply (within_inc P); [exact W|]. exists e'. auto.
    - apply Keep; try discriminate. apply (within_dec P); [exact W|]. exists e'. auto.
    - apply Keep; try discriminate. apply (within_inv P); [exact W|]. exact NE.
  Qed.
End BTRk.

(* ---------------------------------------------------------------- DisjunctiveConditionsRemover *)
Lemma dcr_program k d :
  run_resulting gen_tables (e_resulting E_up_disjunctive_conditions_remover) k = Ok d ->
  forall f, f <> f_DISJUNCTIVE_CONDITIONS -> mem f (k_feats k) = true -> mem f (k_feats d) = true.
Proof.
  unfold run_resulting. cbn [E_up_disjunctive_conditions_remover e_resulting exec exec_i eval_cond has_any existsb].
  intros H f A M. prog_cases H; rewrite ?mem_setbit, ?mem_clearbit, ?M, ?(neqb _ _ A); simpl; try apply orb_true_r; auto.
Qed.

Section DCRk.
  Variable cdnf : expr -> list expr.
  Variable pre_dnf : action -> list (list expr).
  Variable nm : N -> nat -> N.
  Variable P : problem.
  Variable goals' : list expr.
  Let P' := dcr_compile cdnf pre_dnf nm P goals'.

  Lemma dcr_action ia' :
    In ia' (p_actions P') ->
    exists ia d, In ia (p_actions P) /\ In d (pre_dnf (snd ia)) /\ snd ia' = dnf_variant cdnf (snd ia) d.
  Proof.
    unfold P'. cbn [dcr_compile p_actions]. unfold vt_actions. rewrite in_map_iff. intros (x & <- & Hx).
    unfold dcr_table in Hx. rewrite in_flat_map in Hx. destruct Hx as (ia & Hia & Hx). cbv zeta in Hx.
    apply in_map_iff in Hx. destruct Hx as (kv & <- & Hkv). cbn [snd].
    apply number_from_in in Hkv. unfold dnf_variants in Hkv. apply filter_In in Hkv. destruct Hkv as [Hkv _].
    apply in_map_iff in Hkv. destruct Hkv as (d & E & Hd). exists ia, d. auto.
  Qed.

  (* an effect of the compiled problem: an original effect, possibly with one disjunct of its condition's DNF as
     condition; a conditional compiled effect comes from a conditional original effect *)
  Lemma dcr_effs e' :
    In e' (la_effs P') ->
    exists e, In e (la_effs P) /\ e_kind e' = e_kind e /\ e_vars e' = e_vars e /\
      (is_true (e_cond e') = false -> is_true (e_cond e) = false) /\
      (e_cond e' = e_cond e \/ In (e_cond e') (cdnf (e_cond e))).
  Proof.
    rewrite in_la_effs. intros (ia' & Hia' & He'). apply dcr_action in Hia'. destruct Hia' as (ia & d & Hia & _ & E).
    rewrite E in He'. cbn [dnf_variant a_effs] in He'. apply in_flat_map in He'. destruct He' as (e & He & H).
    exists e. split; [apply in_la_effs; exists ia; auto|].
    unfold split_effect in H. destruct (is_uncond e) eqn:U.
    - destruct H as [<-|[]]. repeat split; auto.
    - apply in_map_iff in H. destruct H as (c & <- & Hc). cbn [set_cond e_kind e_vars e_cond].
      unfold is_uncond in U. repeat split; auto.
  Qed.

  Lemma dcr_conds c' o :
    p_invs P = [] -> dnf_keeps cdnf pre_dnf goals' P o -> In c' (la_conds P') -> In o (ops_of c') ->
    exists c, In c (la_conds P) /\ In o (ops_of c).
  Proof.
    intros NI [Kc Kp Kg] Hc I. apply in_la_conds in Hc. destruct Hc as [(ia' & Hia' & Hc)|[Hc|Hc]].
    - pose proof Hia' as Hact. apply dcr_action in Hia'. destruct Hia' as (ia & d & Hia & Hd & E).
      destruct Hc as [Hc|(e' & He' & ->)].
      + rewrite E in Hc. cbn [dnf_variant a_pre] in Hc. destruct (Kp _ _ _ Hd Hc I) as (c & Hc0 & I0).
        exists c. split; [apply in_la_conds; left; exists ia; auto|exact I0].
      + assert (He : In e' (la_effs P')) by (apply in_la_effs; exists ia'; auto).
        apply dcr_effs in He. destruct He as (e & He & _ & _ & _ & [Ec|Ec]).
        * exists (e_cond e). apply in_la_effs in He. destruct He as (ia0 & Hia0 & He).
          split; [apply in_la_conds; left; exists ia0; split; [exact Hia0|right; exists e; auto]|]. rewrite <- Ec. exact I.
        * exists (e_cond e). apply in_la_effs in He. destruct He as (ia0 & Hia0 & He).
          split; [apply in_la_conds; left; exists ia0; split; [exact Hia0|right; exists e; auto]|].
          exact (Kc _ _ Ec I).
    - unfold P' in Hc. cbn [dcr_compile p_invs] in Hc. rewrite NI in Hc. destruct Hc.
    - unfold P' in Hc. cbn [dcr_compile p_goals] in Hc. destruct (Kg _ Hc I) as (g & Hg & I0).
      exists g. split; [apply in_la_conds; auto|exact I0].
  Qed.

  Theorem dcr_kind k d :
    p_invs P = [] -> (forall o, In o dcr_ops -> dnf_keeps cdnf pre_dnf goals' P o) -> la_within P (k_feats k) ->
    run_resulting gen_tables (e_resulting E_up_disjunctive_conditions_remover) k = Ok d ->
    forall f, In f (la_feats P') -> f <> f_NEGATIVE_CONDITIONS -> f <> f_DISJUNCTIVE_CONDITIONS -> mem f (k_feats d) = true.
  Proof.
    intros NI S W Run f H NN ND. pose proof (dcr_program k d Run) as Keep.
    apply in_la_feats in H.
    destruct H as [(fd & Hfd & H)|[(c' & Hc' & H)|[(-> & e' & He' & U)|[(-> & e' & He' & V)|[(-> & e' & He' & U)|[(-> & e' & He' & U)|(-> & NE)]]]]]].
    - apply Keep; [exact ND|]. exact (within_fluent P _ f fd W Hfd H).
    - apply in_cond_feats in H. destruct H as (o & R & <- & I).
      assert (Ho : In o dcr_ops).
      { apply rel_cases in R. unfold dcr_ops. simpl.
        destruct R as [->|[->|[->|[->|[->|[->| ->]]]]]]; auto; exfalso; (apply ND; reflexivity) || (apply NN; reflexivity). }
      destruct (dcr_conds c' o NI (S o Ho) Hc' I) as (c & Hc & C).
      apply Keep; [exact ND|]. exact (within_cond P _ c o W Hc R C).
    - apply dcr_effs in He'. destruct He' as (e & He & _ & _ & T & _). apply Keep; [exact ND|].
      apply (within_cond_eff P); [exact W|]. exists e. auto.
    - apply dcr_effs in He'. destruct He' as (e & He & _ & V' & _). apply Keep; [exact ND|].
      apply W. apply in_la_feats. do 3 right; left. split; [reflexivity|]. exists e. split; [exact He|congruence].
    - apply dcr_effs in He'. destruct He' as (e & He & K & _). apply Keep; [exact ND|].
      apply (within_inc P); [exact W|]. exists e. split; [exact He|]. unfold is_inc in *. rewrite <- K. exact U.
    - apply dcr_effs in He'. destruct He' as (e & He & K & _). apply Keep; [exact ND|].
      apply (within_dec P); [exact W|]. exists e. split; [exact He|]. unfold is_dec in *. rewrite <- K. exact U.
    - exfalso. apply NE. unfold P'. cbn [dcr_compile p_invs]. exact NI.
  Qed.

  (* DISJUNCTIVE_CONDITIONS is absent when the literals of the DNFs contain no Or / Implies; effect conditions of
     unconditional effects are the constant TRUE *)
  Theorem dcr_removed :
    p_invs P = [] -> dnf_nodisj cdnf pre_dnf goals' P op_OR -> dnf_nodisj cdnf pre_dnf goals' P op_IMPLIES ->
    ~ In f_DISJUNCTIVE_CONDITIONS (la_feats P').
  Proof.
    intros NI [Oc Op Og] [Ic Ip Ig] H. apply in_la_feats in H.
    destruct H as [(fd & _ & H)|[(c' & Hc' & H)|[(E & _)|[(E & _)|[(E & _)|[(E & _)|(E & _)]]]]]];
      try discriminate E.
    - apply in_fl_feats in H. destruct H as [H|H]; discriminate H.
    - apply in_cond_feats in H. destruct H as (o & R & E & I).
      assert (Ho : (forall c d, In d (cdnf c) -> ~ In o (ops_of d)) /\
                   (forall a d l, In (fst a, snd a) (p_actions P) -> In d (pre_dnf (snd a)) -> In l d -> ~ In o (ops_of l)) /\
                   (forall g', In g' goals' -> ~ In o (ops_of g'))).
      { apply rel_cases in R. destruct R as [->|[->|[->|[->|[->|[->| ->]]]]]]; try discriminate E; auto. }
      destruct Ho as (Hc & Hp & Hg).
      apply in_la_conds in Hc'. destruct Hc' as [(ia' & Hia' & Hc')|[Hc'|Hc']].
      + pose proof Hia' as Hact. apply dcr_action in Hia'. destruct Hia' as (ia & d & Hia & Hd & Ev).
        destruct Hc' as [Hc'|(e' & He' & ->)].
        * rewrite Ev in Hc'. cbn [dnf_variant a_pre] in Hc'. apply (Hp ia d c'); auto. destruct ia; exact Hia.
        * rewrite Ev in He'. cbn [dnf_variant a_effs] in He'. apply in_flat_map in He'. destruct He' as (e & He & Hs).
          unfold split_effect in Hs. destruct (is_uncond e) eqn:U.
          -- destruct Hs as [<-|[]]. unfold is_uncond in U. apply is_true_eq in U. rewrite U in I. simpl in I.
             destruct I as [<-|[]]. discriminate R.
          -- apply in_map_iff in Hs. destruct Hs as (c & <- & Hc0). cbn [set_cond e_cond] in I. exact (Hc _ _ Hc0 I).
      + unfold P' in Hc'. cbn [dcr_compile p_invs] in Hc'. rewrite NI in Hc'. destruct Hc'.
      + unfold P' in Hc'. cbn [dcr_compile p_goals] in Hc'. exact (Hg _ Hc' I).
  Qed.
End DCRk.


(* ---------------------------------------------------------------- NegativeConditionsRemover *)
Lemma ncr_program k d :
  run_resulting gen_tables (e_resulting E_up_negative_conditions_remover) k = Ok d ->
  (forall f, f <> f_NEGATIVE_CONDITIONS -> mem f (k_feats k) = true -> mem f (k_feats d) = true)
  /\ (mem f_NEGATIVE_CONDITIONS (k_feats k) = true -> mem f_EQUALITIES (k_feats k) = true ->
      mem f_DISJUNCTIVE_CONDITIONS (k_feats d) = true).
Proof.
  unfold run_resulting. cbn [E_up_negative_conditions_remover e_resulting exec exec_i eval_cond has_any existsb].
  intro H. split.
  - intros f A M. prog_cases H; rewrite ?mem_setbit, ?mem_clearbit, ?M, ?(neqb _ _ A); simpl; try apply orb_true_r; auto.
  - intros M E. rewrite M in H. cbn [orb] in H. rewrite mem_clearbit, E in H. cbn [andb negb orb] in H.
    change (f_NEGATIVE_CONDITIONS =? f_EQUALITIES)%N with false in H. cbn [negb orb andb] in H.
    prog_cases H; rewrite mem_setbit, N.eqb_refl; reflexivity.
Qed.

Section NCRk.
  Variable nmap : list (N * N).
  Variable rw smp : expr -> expr.
  Variable P : problem.
  Let P' := neg_compile nmap rw smp P.

  Hypothesis Hrw : forall c, In c (la_conds P) -> rw_feats_ok rw c.
  Hypothesis Hinv : forall i, In i (p_invs P) -> rw_feats_ok (fun e => smp (rw e)) i.

  Lemma ncr_effs e' :
    In e' (la_effs P') ->
    exists e, In e (la_effs P) /\ e_kind e' = e_kind e /\ e_vars e' = e_vars e /\
      ((e_cond e' = e_cond e /\ is_true (e_cond e) = true)
       \/ (e_cond e' = rw (e_cond e) /\ is_true (e_cond e) = false)).
  Proof.
    rewrite in_la_effs. intros (ia' & Hia' & He'). unfold P' in Hia'. cbn [neg_compile p_actions] in Hia'.
    apply in_map_iff in Hia'. destruct Hia' as (ia & <- & Hia). cbn [snd n_action a_effs] in He'.
    assert (NE : forall e, In e (a_effs (snd ia)) ->
              e_kind (n_effect rw e) = e_kind e /\ e_vars (n_effect rw e) = e_vars e /\
              ((e_cond (n_effect rw e) = e_cond e /\ is_true (e_cond e) = true)
               \/ (e_cond (n_effect rw e) = rw (e_cond e) /\ is_true (e_cond e) = false))).
    { intros e _. unfold n_effect, is_uncond. destruct (is_true (e_cond e)) eqn:T; cbn [set_cond e_kind e_vars e_cond]; auto. }
    unfold n_effects in He'. apply in_app_iff in He'. destruct He' as [He'|He'].
    - apply in_map_iff in He'. destruct He' as (e & <- & He). exists e.
      split; [apply in_la_effs; exists ia; auto|]. exact (NE e He).
    - apply in_flat_map in He'. destruct He' as (e1 & He1 & Hm). apply in_map_iff in He1. destruct He1 as (e & <- & He).
      exists e. split; [apply in_la_effs; exists ia; auto|].
      unfold mirror in Hm. destruct (ng nmap (e_fl (n_effect rw e))); [|destruct Hm]. destruct Hm as [<-|[]].
      cbn [e_kind e_vars e_cond]. exact (NE e He).
  Qed.

  Definition licensed (f : feature) : Prop :=
    f <> f_NEGATIVE_CONDITIONS /\
    exists c, In c (la_conds P) /\
      (In f (cond_feats c) \/
       (f = f_DISJUNCTIVE_CONDITIONS /\ In f_EQUALITIES (cond_feats c) /\ In f_NEGATIVE_CONDITIONS (cond_feats c))).

  (* every condition feature of the compiled problem is not NEGATIVE_CONDITIONS and is licensed by an original condition *)
  Lemma ncr_conds c' f : In c' (la_conds P') -> In f (cond_feats c') -> licensed f.
  Proof.
    intros Hc Hf. apply in_la_conds in Hc.
    assert (Lic : forall c, In c (la_conds P) -> In f (cond_feats (rw c)) -> licensed f).
    { intros c L H. destruct (Hrw c L f H) as [A B]. split; [exact A|]. exists c. auto. }
    destruct Hc as [(ia' & Hia' & Hc)|[Hc|Hc]].
    - pose proof Hia' as Hact. unfold P' in Hia'. cbn [neg_compile p_actions] in Hia'.
      apply in_map_iff in Hia'. destruct Hia' as (ia & E & Hia). rewrite <- E in Hc. cbn [snd n_action a_pre] in Hc.
      destruct Hc as [Hc|(e' & He' & ->)].
      + apply add_pres_in in Hc. apply in_map_iff in Hc. destruct Hc as (c & <- & Hc).
        apply (Lic c); [apply in_la_conds; left; exists ia; auto|exact Hf].
      + assert (He : In e' (la_effs P')) by (apply in_la_effs; exists ia'; split; [exact Hact|rewrite <- E; exact He']).
        apply ncr_effs in He. destruct He as (e & He & _ & _ & [[Ec T]|[Ec T]]).
        * exfalso. apply is_true_eq in T. rewrite Ec, T in Hf. destruct Hf.
        * apply in_la_effs in He. destruct He as (ia0 & Hia0 & He). rewrite Ec in Hf.
          apply (Lic (e_cond e)); [apply in_la_conds; left; exists ia0; split; [exact Hia0|right; exists e; auto]|exact Hf].
    - unfold P' in Hc. cbn [neg_compile p_invs] in Hc. apply filter_In in Hc. destruct Hc as [Hc _].
      apply in_map_iff in Hc. destruct Hc as (i & <- & Hi). destruct (Hinv i Hi f Hf) as [A B].
      split; [exact A|]. exists i. split; [apply in_la_conds; auto|exact B].
    - unfold P' in Hc. cbn [neg_compile p_goals] in Hc. unfold add_goals in Hc. apply filter_In in Hc. destruct Hc as [Hc _].
      apply in_map_iff in Hc. destruct Hc as (g & <- & Hg). apply (Lic g); [apply in_la_conds; auto|exact Hf].
  Qed.

  Lemma ncr_fluents fd' : In fd' (p_fluents P') -> exists fd, In fd (p_fluents P) /\ fl_feats fd' = fl_feats fd.
  Proof.
    unfold P'. cbn [neg_compile p_fluents]. unfold n_fluents. rewrite in_flat_map. intros (fd & Hfd & H).
    exists fd. split; [exact Hfd|]. destruct H as [<-|H]; [reflexivity|].
    destruct (ng nmap (fd_id fd)); [|destruct H]. destruct H as [<-|[]]. reflexivity.
  Qed.

  Theorem ncr_removed : ~ In f_NEGATIVE_CONDITIONS (la_feats P').
  Proof.
    intro H. apply in_la_feats in H.
    destruct H as [(fd & _ & H)|[(c' & Hc' & H)|[(E & _)|[(E & _)|[(E & _)|[(E & _)|(E & _)]]]]]];
      try discriminate E.
    - apply in_fl_feats in H. destruct H as [H|H]; discriminate H.
    - destruct (ncr_conds c' _ Hc' H) as [A _]. apply A. reflexivity.
  Qed.

  Theorem ncr_kind k d :
    la_within P (k_feats k) ->
    run_resulting gen_tables (e_resulting E_up_negative_conditions_remover) k = Ok d ->
    forall f, In f (la_feats P') -> mem f (k_feats d) = true.
  Proof.
    intros W Run f H. destruct (ncr_program k d Run) as [Keep Disj].
    assert (WC : forall c g, In c (la_conds P) -> In g (cond_feats c) -> mem g (k_feats k) = true).
    { intros c g Hc Hg. apply W. apply in_la_feats. right; left. exists c. auto. }
    apply in_la_feats in H.
    destruct H as [(fd' & Hfd & H)|[(c' & Hc' & H)|[(-> & e' & He' & U)|[(-> & e' & He' & V)|[(-> & e' & He' & U)|[(-> & e' & He' & U)|(-> & NE)]]]]]].
    - apply ncr_fluents in Hfd. destruct Hfd as (fd & Hfd & E). rewrite E in H.
      pose proof (within_fluent P _ f fd W Hfd H) as M.
      apply in_fl_feats in H. destruct H as [-> | ->]; apply Keep; (discriminate || exact M).
    - destruct (ncr_conds c' f Hc' H) as (A & c & Hc & [B|(-> & Be & Bn)]).
      + apply Keep; [exact A|]. exact (WC c f Hc B).
      + apply Disj; [exact (WC c _ Hc Bn)|exact (WC c _ Hc Be)].
    - apply ncr_effs in He'. destruct He' as (e & He & _ & _ & [[Ec T]|[Ec T]]).
      + rewrite Ec in U. congruence.
      + apply Keep; [discriminate|]. apply (within_cond_eff P); [exact W|]. exists e. auto.
    - apply ncr_effs in He'. destruct He' as (e & He & _ & V' & _). apply Keep; [discriminate|].
      apply W. apply in_la_feats. do 3 right; left. split; [reflexivity|]. exists e. split; [exact He|congruence].
    - apply ncr_effs in He'. destruct He' as (e & He & K & _). apply Keep; [discriminate|].
      apply (within_inc P); [exact W|]. exists e. split; [exact He|]. unfold is_inc in *. rewrite <- K. exact U.
    - apply ncr_effs in He'. destruct He' as (e & He & K & _). apply Keep; [discriminate|].
      apply (within_dec P); [exact W|]. exists e. split; [exact He|]. unfold is_dec in *. rewrite <- K. exact U.
    - apply Keep; [discriminate|]. apply (within_inv P); [exact W|]. intro E. apply NE.
      unfold P'. cbn [neg_compile p_invs]. rewrite E. reflexivity.
  Qed.
End NCRk.


(* ---------------------------------------------------------------- the same statements about KindOf's kind_model *)
Lemma within_of_kind ax P k : (forall f, In f (la_kind ax P) -> mem f k = true) -> la_within P k.
Proof. intros H f Hf. apply H. rewrite <- (bridge ax P) in Hf. apply filter_In in Hf. tauto. Qed.

Lemma covered_feats ax P f : In f la_covered -> In f (la_kind ax P) -> In f (la_feats P).
Proof. intros C H. apply (bridge_in ax P f C). exact H. Qed.

Lemma removed_covered l : (forall f, In f l -> In f la_covered) ->
  forall ax P, (forall f, In f l -> ~ In f (la_feats P)) -> forall f, In f l -> ~ In f (la_kind ax P).
Proof. intros Hl ax P H f Hf I. apply (H f Hf). apply (covered_feats ax); auto. Qed.

Theorem qr_removed_model smp ax P :
  keeps_op smp op_EXISTS -> keeps_op smp op_FORALL ->
  forall f, In f [f_EXISTENTIAL_CONDITIONS; f_UNIVERSAL_CONDITIONS; f_FORALL_EFFECTS] ->
            ~ In f (la_kind ax (quant_compile smp P)).
Proof.
  intros KE KF. apply removed_covered; [|apply qr_removed; assumption].
  intros f Hf. simpl in Hf. unfold la_covered. simpl. intuition.
Qed.

Theorem qr_kind_model smp ax ax' P k d :
  smp_ok smp -> (forall f, In f (la_kind ax P) -> mem f (k_feats k) = true) ->
  run_resulting gen_tables (e_resulting E_up_quantifiers_remover) k = Ok d ->
  forall f, In f la_covered -> In f (la_kind ax' (quant_compile smp P)) ->
            (f = f_NEGATIVE_CONDITIONS -> keeps_op smp op_NOT) -> mem f (k_feats d) = true.
Proof.
  intros S W Run f C H N. apply (qr_kind smp P k d S (within_of_kind ax P _ W) Run f); [|exact N].
  exact (covered_feats ax' _ f C H).
Qed.

Theorem cer_removed_model simp_pre nm ax P : ~ In f_CONDITIONAL_EFFECTS (la_kind ax (cer_compile simp_pre nm P)).
Proof. intro H. apply (cer_removed simp_pre nm P). apply (covered_feats ax); [|exact H]. unfold la_covered. simpl. tauto. Qed.

Theorem cer_kind_model simp_pre nm ax ax' P k d :
  (forall o, In o six_ops -> simp_pre_keeps simp_pre o) ->
  (forall f, In f (la_kind ax P) -> mem f (k_feats k) = true) ->
  run_resulting gen_tables (e_resulting E_up_conditional_effects_remover) k = Ok d ->
  forall f, In f la_covered -> In f (la_kind ax' (cer_compile simp_pre nm P)) -> mem f (k_feats d) = true.
Proof.
  intros S W Run f C H. apply (cer_kind simp_pre nm P k d S (within_of_kind ax P _ W) Run f).
  exact (covered_feats ax' _ f C H).
Qed.

Theorem sir_removed_model smp ax P : ~ In f_STATE_INVARIANTS (la_kind ax (sir_compile smp P)).
Proof. intro H. apply (sir_removed smp P). apply (covered_feats ax); [|exact H]. unfold la_covered. simpl. tauto. Qed.

Theorem sir_kind_model smp ax ax' P k d :
  smp_ok smp -> (forall f, In f (la_kind ax P) -> mem f (k_feats k) = true) ->
  run_resulting gen_tables (e_resulting E_up_state_invariants_remover) k = Ok d ->
  forall f, In f la_covered -> In f (la_kind ax' (sir_compile smp P)) ->
            (f = f_NEGATIVE_CONDITIONS -> keeps_op smp op_NOT) -> mem f (k_feats d) = true.
Proof.
  intros S W Run f C H N. apply (sir_kind smp P k d S (within_of_kind ax P _ W) Run f); [|exact N].
  exact (covered_feats ax' _ f C H).
Qed.

Theorem btr_removed_model smp ax P : ~ In f_BOUNDED_TYPES (la_kind ax (btr_compile smp P)).
Proof. intro H. apply (btr_removed smp P). apply (covered_feats ax); [|exact H]. unfold la_covered. simpl. tauto. Qed.

Theorem btr_kind_model smp ax ax' P k d :
  smp_ok smp -> (forall f, In f (la_kind ax P) -> mem f (k_feats k) = true) ->
  run_resulting gen_tables (e_resulting E_up_bounded_types_remover) k = Ok d ->
  forall f, In f la_covered -> In f (la_kind ax' (btr_compile smp P)) ->
            (f = f_NEGATIVE_CONDITIONS -> keeps_op smp op_NOT) -> mem f (k_feats d) = true.
Proof.
  intros S W Run f C H N. apply (btr_kind smp P k d S (within_of_kind ax P _ W) Run f); [|exact N].
  exact (covered_feats ax' _ f C H).
Qed.

(* ---------------------------------------------------------------- concrete simplifiers for the examples *)
Lemma id_smp_ok : smp_ok (fun e => e).
Proof. intros o _ e H. exact H. Qed.
Lemma id_keeps o : keeps_op (fun e => e) o.
Proof. intros e H. exact H. Qed.
Lemma some_simp_pre_keeps o : simp_pre_keeps (fun l => Some l) o.
Proof. intros l l' c' E Hc I. inversion E; subst. exists c'. auto. Qed.

(* the one rule of Simplifier.walk_implies that builds a Not: Implies(a, false) |-> Not(a) *)
Definition smp_implies_false (e : expr) : expr :=
  match e with EImplies a (EBool false) => mkNot a | _ => e end.

Lemma smp_implies_false_ok : smp_ok smp_implies_false.
Proof.
  intros o Ho e. unfold smp_implies_false.
  destruct e; try (intro H; exact H). destruct e2; try (intro H; exact H). destruct b; try (intro H; exact H).
  intro I. apply ops_mkNot in I. destruct I as [->|I].
  - exfalso. unfold six_ops in Ho. simpl in Ho. intuition discriminate.
  - simpl. right. apply in_or_app. left. exact I.
Qed.

Theorem dcr_removed_model cdnf pre_dnf nm ax P goals' :
  p_invs P = [] -> dnf_nodisj cdnf pre_dnf goals' P op_OR -> dnf_nodisj cdnf pre_dnf goals' P op_IMPLIES ->
  ~ In f_DISJUNCTIVE_CONDITIONS (la_kind ax (dcr_compile cdnf pre_dnf nm P goals')).
Proof.
  intros NI A B H. apply (dcr_removed cdnf pre_dnf nm P goals' NI A B). apply (covered_feats ax); [|exact H].
  unfold la_covered. simpl. tauto.
Qed.

Theorem dcr_kind_model cdnf pre_dnf nm ax ax' P goals' k d :
  p_invs P = [] -> (forall o, In o dcr_ops -> dnf_keeps cdnf pre_dnf goals' P o) ->
  (forall f, In f (la_kind ax P) -> mem f (k_feats k) = true) ->
  run_resulting gen_tables (e_resulting E_up_disjunctive_conditions_remover) k = Ok d ->
  forall f, In f la_covered -> In f (la_kind ax' (dcr_compile cdnf pre_dnf nm P goals')) ->
            f <> f_NEGATIVE_CONDITIONS -> f <> f_DISJUNCTIVE_CONDITIONS -> mem f (k_feats d) = true.
Proof.
  intros NI S W Run f C H. apply (dcr_kind cdnf pre_dnf nm P goals' k d NI S (within_of_kind ax P _ W) Run f).
  exact (covered_feats ax' _ f C H).
Qed.

Theorem ncr_removed_model nmap rw smp ax P :
  (forall c, In c (la_conds P) -> rw_feats_ok rw c) ->
  (forall i, In i (p_invs P) -> rw_feats_ok (fun e => smp (rw e)) i) ->
  ~ In f_NEGATIVE_CONDITIONS (la_kind ax (neg_compile nmap rw smp P)).
Proof.
  intros A B H. apply (ncr_removed nmap rw smp P A B). apply (covered_feats ax); [|exact H]. unfold la_covered. simpl. tauto.
Qed.

Theorem ncr_kind_model nmap rw smp ax ax' P k d :
  (forall c, In c (la_conds P) -> rw_feats_ok rw c) ->
  (forall i, In i (p_invs P) -> rw_feats_ok (fun e => smp (rw e)) i) ->
  (forall f, In f (la_kind ax P) -> mem f (k_feats k) = true) ->
  run_resulting gen_tables (e_resulting E_up_negative_conditions_remover) k = Ok d ->
  forall f, In f la_covered -> In f (la_kind ax' (neg_compile nmap rw smp P)) -> mem f (k_feats d) = true.
Proof.
  intros A B W Run f C H. apply (ncr_kind nmap rw smp P A B k d (within_of_kind ax P _ W) Run f).
  exact (covered_feats ax' _ f C H).
Qed.

(* ---------------------------------------------------------------- Grounder *)
Ltac p_list H I :=
  simpl; rewrite ?ops_go; right; apply ops_map in I; destruct I as (x & Hx & I); rewrite Forall_forall in H;
  apply (ops_in_list _ x); [exact Hx | exact (H x Hx I)].
Ltac p_bin IH1 IH2 :=
  let I := fresh "I" in
  simpl; intros [<-|I]; [left; reflexivity|right]; apply in_app_iff in I; apply in_app_iff;
  destruct I as [I|I]; [left; exact (IH1 I) | right; exact (IH2 I)].
Ltac p_un IH := let I := fresh "I" in simpl; intros [<-|I]; [left; reflexivity|right; exact (IH I)].

(* parameter substitution introduces no relevant operator (a parameter becomes a constant) *)
Lemma psubst_ops o sg : rel o = true -> forall e, In o (ops_of (psubst sg e)) -> In o (ops_of e).
Proof.
  intro R.
  induction e using expr_ind'; cbn [psubst]; try (intro H0; exact H0).
  - destruct (lookupN p sg); [|intro H0; exact H0]. intro I. apply value_expr_ops in I. congruence.
  - simpl; rewrite !ops_go; intros [<-|I]; [left; reflexivity|]. p_list H I.
  - simpl; rewrite !ops_go; intros [<-|I]; [left; reflexivity|]. p_list H I.
  - simpl; rewrite !ops_go; intros [<-|I]; [left; reflexivity|]. p_list H I.
  - simpl; rewrite !ops_go; intros [<-|I]; [left; reflexivity|]. p_list H I.
  - p_un IHe.
  - p_bin IHe1 IHe2.
  - p_bin IHe1 IHe2.
  - p_un IHe.
  - p_un IHe.
  - simpl; rewrite !ops_go; intros [<-|I]; [left; reflexivity|]. p_list H I.
  - p_bin IHe1 IHe2.
  - simpl; rewrite !ops_go; intros [<-|I]; [left; reflexivity|]. p_list H I.
  - p_bin IHe1 IHe2.
  - p_bin IHe1 IHe2.
  - p_bin IHe1 IHe2.
  - p_bin IHe1 IHe2.
  - p_un IHe.
  - p_un IHe.
  - p_bin IHe1 IHe2.
  - p_bin IHe1 IHe2.
  - p_un IHe.
Qed.

Lemma keep_vars_nil fv : forall seen, keep_vars fv seen [] = [].
Proof. reflexivity. Qed.

Lemma grd_program k d : run_resulting gen_tables (e_resulting E_up_grounder) k = Ok d -> k_feats d = k_feats k.
Proof. unfold run_resulting. cbn [E_up_grounder e_resulting exec]. intro H. inversion H. reflexivity. Qed.

Section GRDk.
  Variable smp : expr -> expr.
  Variable tuples : N -> list (list value).
  Variable nm : N -> nat -> N.
  Variable P : problem.
  Let P' := ground_compile smp tuples nm P.
  (* the Simplifier leaves the constant TRUE alone (the condition of an unconditional effect is simplified too) *)
  Hypothesis smp_true : smp (EBool true) = EBool true.

  Lemma grd_action ia' :
    In ia' (p_actions P') -> exists ia args, In ia (p_actions P) /\ g_action smp (snd ia) args = Some (snd ia').
  Proof.
    unfold P'. cbn [ground_compile p_actions]. unfold gt_actions. rewrite in_map_iff. intros (x & <- & Hx).
    unfold ground_table in Hx. rewrite in_flat_map in Hx. destruct Hx as (ia & Hia & Hx).
    rewrite in_flat_map in Hx. destruct Hx as (kt & _ & Hx).
    destruct (g_action smp (snd ia) (snd kt)) eqn:G; [|destruct Hx]. destruct Hx as [<-|[]]. exists ia, (snd kt). auto.
  Qed.

  Lemma grd_effect sg effs e' :
    In e' (g_effects smp sg effs) ->
    exists e, In e effs /\ e_kind e' = e_kind e /\ (e_vars e' <> [] -> e_vars e <> []) /\
              e_cond e' = smp (psubst sg (e_cond e)).
  Proof.
    unfold g_effects. rewrite in_flat_map. intros (e & He & H). exists e. split; [exact He|].
    unfold g_effect in H. destruct (is_false _); [destruct H|]. destruct H as [<-|[]]. cbn [e_kind e_vars e_cond].
    split; [reflexivity|split; [|reflexivity]]. intros NE E. apply NE. rewrite E. reflexivity.
  Qed.

  Lemma grd_effs e' :
    In e' (la_effs P') ->
    exists e sg, In e (la_effs P) /\ e_kind e' = e_kind e /\ (e_vars e' <> [] -> e_vars e <> []) /\
                 e_cond e' = smp (psubst sg (e_cond e)).
  Proof.
    rewrite in_la_effs. intros (ia' & Hia' & He'). apply grd_action in Hia'. destruct Hia' as (ia & args & Hia & G).
    unfold g_action in G. destruct (add_effs_ok _ _ _); [|discriminate]. destruct (g_pre _ _ _); [|discriminate].
    inversion G as [G']. rewrite <- G' in He'. cbn [a_effs] in He'. apply grd_effect in He'.
    destruct He' as (e & He & A & B & C). exists e, (zip_params (a_params (snd ia)) args).
    split; [apply in_la_effs; exists ia; auto|auto].
  Qed.

  Lemma grd_conds c' o :
    In c' (la_conds P') -> rel o = true -> keeps_op smp o -> In o (ops_of c') -> exists c, In c (la_conds P) /\ In o (ops_of c).
  Proof.
    intros Hc R Kp I. apply in_la_conds in Hc. destruct Hc as [(ia' & Hia' & Hc)|[Hc|Hc]].
    - pose proof Hia' as Hact. apply grd_action in Hia'. destruct Hia' as (ia & args & Hia & G).
      destruct Hc as [Hc|(e' & He' & ->)].
      + unfold g_action in G. destruct (add_effs_ok _ _ _); [|discriminate].
        destruct (g_pre smp _ (a_pre (snd ia))) as [pre|] eqn:GP; [|discriminate]. inversion G as [G'].
        rewrite <- G' in Hc. cbn [a_pre] in Hc. unfold g_pre in GP.
        destruct (a_pre (snd ia)) as [|p0 ps] eqn:AP; [inversion GP; subst; destruct Hc|].
        set (sg := zip_params (a_params (snd ia)) args) in *.
        assert (J : In o (ops_of (smp (mkAnd (map (psubst sg) (p0 :: ps)))))).
        { destruct (smp (mkAnd (map (psubst sg) (p0 :: ps)))) eqn:S; try (inversion GP; subst; destruct Hc as [<-|[]]; exact I).
          - destruct b; [inversion GP; subst; destruct Hc | discriminate].
          - inversion GP; subst. simpl. rewrite ops_go. right. exact (ops_in_list _ _ _ Hc I). }
        apply Kp in J. apply (mkAnd_rel _ _ R) in J. destruct J as (x & Hx & J). apply in_map_iff in Hx.
        destruct Hx as (c & <- & Hc0). apply (psubst_ops _ _ R) in J.
        exists c. split; [apply in_la_conds; left; exists ia; split; [exact Hia|left; rewrite AP; exact Hc0]|exact J].
      + assert (He : In e' (la_effs P')) by (apply in_la_effs; exists ia'; auto).
        apply grd_effs in He. destruct He as (e & sg & He & _ & _ & C). rewrite C in I. apply Kp in I.
        apply (psubst_ops _ _ R) in I. apply in_la_effs in He. destruct He as (ia0 & Hia0 & He).
        exists (e_cond e). split; [apply in_la_conds; left; exists ia0; split; [exact Hia0|right; exists e; auto]|exact I].
    - exists c'. split; [apply in_la_conds; auto|exact I].
    - exists c'. split; [apply in_la_conds; auto|exact I].
  Qed.

  Theorem grd_kind k d :
    smp_ok smp -> la_within P (k_feats k) ->
    run_resulting gen_tables (e_resulting E_up_grounder) k = Ok d ->
    forall f, In f (la_feats P') -> (f = f_NEGATIVE_CONDITIONS -> keeps_op smp op_NOT) -> mem f (k_feats d) = true.
  Proof.
    intros S W Run f H N. rewrite (grd_program k d Run).
    apply in_la_feats in H.
    destruct H as [(fd & Hfd & H)|[(c' & Hc' & H)|[(-> & e' & He' & U)|[(-> & e' & He' & V)|[(-> & e' & He' & U)|[(-> & e' & He' & U)|(-> & NE)]]]]]].
    - exact (within_fluent P _ f fd W Hfd H).
    - apply in_cond_feats in H. destruct H as (o & R & <- & I).
      assert (Kp : keeps_op smp o).
      { destruct (rel_not_or o R) as [->|Ho]; [apply N; reflexivity | apply S; exact Ho]. }
      destruct (grd_conds c' o Hc' R Kp I) as (c & Hc & C). exact (within_cond P _ c o W Hc R C).
    - apply grd_effs in He'. destruct He' as (e & sg & He & _ & _ & C).
      apply (within_cond_eff P); [exact W|]. exists e. split; [exact He|].
      destruct (is_true (e_cond e)) eqn:T; [|reflexivity]. apply is_true_eq in T. rewrite T in C. cbn [psubst] in C.
      rewrite smp_true in C. rewrite C in U. discriminate U.
    - apply grd_effs in He'. destruct He' as (e & sg & He & _ & B & _).
      apply W. apply in_la_feats. do 3 right; left. split; [reflexivity|]. exists e. auto.
    - apply grd_effs in He'. destruct He' as (e & sg & He & K & _).
      apply (within_inc P); [exact W|]. exists e. split; [exact He|]. unfold is_inc in *. rewrite <- K. exact U.
    - apply grd_effs in He'. destruct He' as (e & sg & He & K & _).
      apply (within_dec P); [exact W|]. exists e. split; [exact He|]. unfold is_dec in *. rewrite <- K. exact U.
    - apply (within_inv P); [exact W|]. exact NE.
  Qed.
End GRDk.

Theorem grd_kind_model smp tuples nm ax ax' P k d :
  smp (EBool true) = EBool true -> smp_ok smp -> (forall f, In f (la_kind ax P) -> mem f (k_feats k) = true) ->
  run_resulting gen_tables (e_resulting E_up_grounder) k = Ok d ->
  forall f, In f la_covered -> In f (la_kind ax' (ground_compile smp tuples nm P)) ->
            (f = f_NEGATIVE_CONDITIONS -> keeps_op smp op_NOT) -> mem f (k_feats d) = true.
Proof.
  intros T S W Run f C H N. apply (grd_kind smp tuples nm P T k d S (within_of_kind ax P _ W) Run f); [|exact N].
  exact (covered_feats ax' _ f C H).
Qed.
