(* Proofs about Model/Factory.v (C32; the pipeline lemmas are reused by C09). *)
From Coq Require Import List NArith Bool String Lia.
Import ListNotations.
Require Import UPV.Model.Kind UPV.Model.Factory.

Section Sel.
  Variable T : tables.

  (* the engine supports the problem kind and every requested requirement, in the requested operation mode *)
  Definition honours (e : engine) (r : request) : Prop :=
    is_mode e (r_mode r) = true
    /\ supports T e (r_kind r) = Ok true
    /\ (forall c, r_compilation r = Some c -> inN c (e_compilations e) = true)
    /\ (forall p, r_plan r = Some p -> inN p (e_plans e) = true)
    /\ (forall g, r_optimality r = Some g -> inN g (e_optimality e) = true)
    /\ (forall g, r_anytime r = Some g -> inN g (e_anytime e) = true).

  Lemma honoured_some req l x : honoured req l = true -> req = Some x -> inN x l = true.
  Proof. intros H ->. exact H. Qed.

  Lemma is_none_true {A} (o : option A) : is_none o = true -> o = None.
  Proof. destruct o; [discriminate|reflexivity]. Qed.

  Ltac nones :=
    repeat match goal with
           | H : negb _ = false |- _ => apply negb_false_iff in H
           | H : _ && _ = true |- _ => apply andb_true_iff in H; destruct H
           | H : is_none _ = true |- _ => apply is_none_true in H
           end.

  Lemma satisfies_true_honours e r : satisfies_conditions T e r = Ok true -> honours e r.
  Proof.
    unfold satisfies_conditions, honours.
    destruct (is_mode e (r_mode r)) eqn:M; simpl; [|discriminate].
    destruct (r_mode r) eqn:RM;
      repeat match goal with
             | |- (if negb ?c then _ else _) = _ -> _ => let E := fresh "E" in destruct (negb c) eqn:E; [discriminate|]
             end;
      intros S; nones;
      repeat split; auto; intros x Hx;
      try (eapply honoured_some; eassumption); congruence.
  Qed.

  Lemma honoured_false req l : honoured req l = false -> exists x, req = Some x /\ inN x l = false.
  Proof. destruct req as [x|]; simpl; [eauto|discriminate]. Qed.

  Lemma satisfies_false_not_honours e r : satisfies_conditions T e r = Ok false -> ~ honours e r.
  Proof.
    unfold satisfies_conditions, honours. intros S [M [Sup [HC [HP [HO HA]]]]].
    rewrite M in S. simpl in S.
    destruct (r_mode r);
      repeat match type of S with
             | (if negb ?c then _ else _) = _ => let E := fresh "E" in destruct (negb c) eqn:E; [try discriminate|]
             end;
      try congruence;
      match goal with
      | E : negb (honoured _ _) = true |- _ =>
          apply negb_true_iff in E; apply honoured_false in E; destruct E as [x [E1 E2]];
          first [rewrite (HC x E1) in E2 | rewrite (HP x E1) in E2 | rewrite (HO x E1) in E2 | rewrite (HA x E1) in E2];
          discriminate
      end.
  Qed.

  (* ---------------- the error-report probe ---------------- *)
  Lemma upgrade_loop_none_indep n : forall s s' v, upgrade_loop T n s v = None -> upgrade_loop T n s' v = None.
  Proof.
    induction n as [|n IH]; intros s s' v; simpl; [discriminate|].
    unfold upgrade_step. destruct (lookup_upgrade v (t_upgrades T)) as [u|]; [|reflexivity]. apply IH.
  Qed.

  Lemma equalize_none_indep f1 f2 g1 g2 v1 v2 : equalize T f1 f2 v1 v2 = None -> equalize T g1 g2 v1 v2 = None.
  Proof.
    unfold equalize, upgrade_to.
    destruct (upgrade_loop T (N.to_nat (v2 - v1)) f1 v1) eqn:A.
    - destruct (upgrade_loop T (N.to_nat (v1 - v2)) f2 v2) eqn:B; [discriminate|].
      intros _. rewrite (upgrade_loop_none_indep _ _ g2 _ B). now destruct (upgrade_loop T (N.to_nat (v2 - v1)) g1 v1).
    - intros _. now rewrite (upgrade_loop_none_indep _ _ g1 _ A).
  Qed.

  Lemma pos_elements_nonempty p i : pos_elements p i <> [].
  Proof. revert i. induction p; intros i; simpl; auto; discriminate. Qed.

  Lemma existsb_const {A} (b : bool) (l : list A) : existsb (fun _ => b) l = negb (match l with [] => true | _ => false end) && b.
  Proof. induction l as [|x l IH]; simpl; [reflexivity|]. rewrite IH. destruct b, l; reflexivity. Qed.

  Lemma existsb_ext' {A} (f g : A -> bool) l : (forall x, f x = g x) -> existsb f l = existsb g l.
  Proof. intros H. induction l as [|x l IH]; simpl; [reflexivity|]. now rewrite H, IH. Qed.

  Lemma report_raises_equiv e r : report_raises_spec T e r = report_raises T e r.
  Proof.
    unfold report_raises_spec, report_raises. rewrite <- andb_assoc. f_equal.
    set (P := match equalize T 0%N 0%N (version T (r_kind r)) (version T (e_supported e)) with None => true | Some _ => false end).
    assert (E : forall f, match supports T e {| k_feats := mask_of [f]; k_ver := Some (version T (r_kind r)) |} with
                          | Ok _ => false | _ => true end = P).
    { intros f. unfold supports, le, P. cbn [version k_ver k_feats].
      destruct (equalize T (mask_of [f]) (k_feats (e_supported e)) (version T (r_kind r)) (version T (e_supported e))) as [[[a b] v]|] eqn:Q.
      - destruct (equalize T 0%N 0%N (version T (r_kind r)) (version T (e_supported e))) eqn:Q'; [reflexivity|].
        rewrite (equalize_none_indep _ _ (mask_of [f]) (k_feats (e_supported e)) _ _ Q') in Q. discriminate.
      - now rewrite (equalize_none_indep _ _ 0%N 0%N _ _ Q). }
    rewrite (existsb_ext' _ (fun _ => P)) by (intros; apply E). rewrite existsb_const. f_equal.
    destruct (k_feats (r_kind r)) as [|p]; simpl; [reflexivity|].
    destruct (pos_elements p 0) eqn:Z; [exfalso; eapply pos_elements_nonempty; eauto|reflexivity].
  Qed.

  (* ---------------- _get_engine_class ---------------- *)
  Lemma first_found reg prefs r n e : first_satisfying T reg prefs r = Found n e ->
    exists pre post, prefs = pre ++ n :: post
      /\ lookup n reg = Some e /\ honours e r
      /\ forall m, In m pre -> exists e', lookup m reg = Some e' /\ ~ honours e' r.
  Proof.
    induction prefs as [|m prefs IH]; simpl; [discriminate|].
    destruct (lookup m reg) as [e'|] eqn:L; [|discriminate].
    destruct (satisfies_conditions T e' r) as [[|]| |] eqn:S; try discriminate;
      [|destruct (report_raises T e' r); [discriminate|]].
    - intros H; inversion H; subst. exists [], prefs. split; [reflexivity|]. split; [exact L|].
      split; [now apply satisfies_true_honours|]. intros ? [].
    - intros H. destruct (IH H) as [pre [post [-> [L' [Hh Hpre]]]]].
      exists (m :: pre), post. split; [reflexivity|]. split; [exact L'|]. split; [exact Hh|].
      intros m' [<-|Hm]; [|auto]. exists e'. split; [exact L|]. now apply satisfies_false_not_honours.
  Qed.

  Lemma first_none reg prefs r : first_satisfying T reg prefs r = NoSuitable ->
    forall m, In m prefs -> exists e', lookup m reg = Some e' /\ satisfies_conditions T e' r = Ok false /\ ~ honours e' r.
  Proof.
    induction prefs as [|m prefs IH]; simpl; [intros _ ? []|].
    destruct (lookup m reg) as [e'|] eqn:L; [|discriminate].
    destruct (satisfies_conditions T e' r) as [[|]| |] eqn:S; try discriminate.
    destruct (report_raises T e' r); [discriminate|].
    intros H m' [<-|Hm]; [|auto].
    exists e'. split; [exact L|]. split; [exact S|]. now apply satisfies_false_not_honours.
  Qed.

  (* when nothing raises, the loop answers Found or NoSuitable, and Found as soon as some listed engine qualifies *)
  Lemma first_total reg prefs r :
    (forall m, In m prefs -> exists e' b, lookup m reg = Some e' /\ satisfies_conditions T e' r = Ok b /\ report_raises T e' r = false) ->
    (exists n e, first_satisfying T reg prefs r = Found n e)
    \/ (first_satisfying T reg prefs r = NoSuitable).
  Proof.
    induction prefs as [|m prefs IH]; simpl; intros H; [now right|].
    destruct (H m (or_introl eq_refl)) as [e' [b [L [S R]]]]. rewrite L, S.
    destruct b; [left; eauto|]. rewrite R. apply IH. intros m' Hm'. apply H. now right.
  Qed.

  Lemma first_complete reg prefs r :
    (forall m, In m prefs -> exists e' b, lookup m reg = Some e' /\ satisfies_conditions T e' r = Ok b /\ report_raises T e' r = false) ->
    (exists m e', In m prefs /\ lookup m reg = Some e' /\ honours e' r) ->
    exists n e, first_satisfying T reg prefs r = Found n e.
  Proof.
    intros Hd [m [e' [Hm [L Hh]]]].
    destruct (first_total reg prefs r Hd) as [F|N]; [exact F|].
    destruct (first_none reg prefs r N m Hm) as [e'' [L' [_ Hn]]].
    rewrite L in L'. inversion L'; subst. contradiction.
  Qed.

  Lemma get_engine_class_found reg prefs r n e :
    get_engine_class T reg prefs None r = Found n e ->
    In n prefs /\ lookup n reg = Some e /\ honours e r
    /\ exists pre post, prefs = pre ++ n :: post /\ forall m, In m pre -> exists e', lookup m reg = Some e' /\ ~ honours e' r.
  Proof.
    unfold get_engine_class. destruct (negb (is_none (r_optimality r) || is_none (r_compilation r))); [discriminate|].
    intros H. destruct (first_found reg prefs r n e H) as [pre [post [E [L [Hh Hpre]]]]].
    split; [rewrite E; apply in_or_app; right; now left|]. split; [exact L|]. split; [exact Hh|]. eauto.
  Qed.

  Lemma get_engine_class_none reg prefs r :
    get_engine_class T reg prefs None r = NoSuitable ->
    forall m, In m prefs -> exists e', lookup m reg = Some e' /\ ~ honours e' r.
  Proof.
    unfold get_engine_class. destruct (negb (is_none (r_optimality r) || is_none (r_compilation r))); [discriminate|].
    intros H m Hm. destruct (first_none reg prefs r H m Hm) as [e' [L [_ Hn]]]. eauto.
  Qed.

  Lemma get_engine_class_by_name reg prefs r n s :
    get_engine_class T reg prefs (Some n) r = s ->
    match lookup n reg with Some e => s = Found n e | None => s = NoRequested end.
  Proof. unfold get_engine_class. destruct (lookup n reg); congruence. Qed.

  (* ---------------- pipelines ---------------- *)
  (* steps chosen for kinds k0, k1, ...: each compiler was chosen by the selection loop for the kind declared by its
     predecessors, honours that request, and declares the next kind *)
  Inductive chain (reg : registry) (prefs : list string) : kind -> list (string * engine * kind) -> list N -> kind -> Prop :=
  | chain_nil k : chain reg prefs k [] [] k
  | chain_cons k n e ck k' steps cks final :
      In n prefs -> lookup n reg = Some e ->
      honours e (comp_request k ck) ->
      run_resulting T (e_resulting e) k = Ok k' ->
      chain reg prefs k' steps cks final ->
      chain reg prefs k ((n, e, k) :: steps) (ck :: cks) final.

  Lemma pipeline_from_chain reg prefs cks : forall k acc out final,
    pipeline_from T reg prefs (map (fun ck => (None, ck)) cks) k acc = Pipe out final ->
    exists new, out = rev acc ++ new /\ chain reg prefs k new cks final.
  Proof.
    induction cks as [|ck cks IH]; intros k acc out final; cbn [pipeline_from map].
    - intros H; inversion H; subst. exists []. rewrite app_nil_r. split; [reflexivity|constructor].
    - destruct (get_engine_class T reg prefs None (comp_request k ck)) as [n e| | | |] eqn:G; try (intros; discriminate).
      destruct (negb (is_mode e COMPILER)); [intros; discriminate|].
      destruct (run_resulting T (e_resulting e) k) as [k'| |] eqn:R; try (intros; discriminate).
      intros H. destruct (IH _ _ _ _ H) as [new [E C]].
      exists ((n, e, k) :: new). split.
      + rewrite E. simpl. now rewrite <- app_assoc.
      + destruct (get_engine_class_found _ _ _ _ _ G) as [Hin [L [Hh _]]].
        econstructor; eauto.
  Qed.

  Lemma pipeline_chain reg prefs cks k0 steps final :
    pipeline T reg prefs None cks k0 = Pipe steps final -> chain reg prefs k0 steps cks final.
  Proof.
    unfold pipeline. intros H. destruct (pipeline_from_chain _ _ _ _ _ _ _ H) as [new [E C]].
    simpl in E. now subst.
  Qed.

  (* a pipeline request fails with the no-suitable-engine error only at a step for which no listed engine qualifies *)
  Lemma pipeline_from_no_suitable reg prefs cks : forall k acc,
    pipeline_from T reg prefs (map (fun ck => (None, ck)) cks) k acc = PipeFail NoSuitable ->
    exists cks1 ck cks2 done k', cks = cks1 ++ ck :: cks2 /\ chain reg prefs k done cks1 k'
      /\ forall m, In m prefs -> exists e', lookup m reg = Some e' /\ ~ honours e' (comp_request k' ck).
  Proof.
    induction cks as [|ck cks IH]; intros k acc; cbn [pipeline_from map]; [intros; discriminate|].
    destruct (get_engine_class T reg prefs None (comp_request k ck)) as [n e| | | |] eqn:G; try (intros; discriminate).
    - destruct (negb (is_mode e COMPILER)); [intros; discriminate|].
      destruct (run_resulting T (e_resulting e) k) as [k'| |] eqn:R; try (intros; discriminate).
      intros H. destruct (IH _ _ H) as [cks1 [ck' [cks2 [done [k'' [E [C N]]]]]]].
      exists (ck :: cks1), ck', cks2, ((n, e, k) :: done), k''. split; [now rewrite E|]. split; [|exact N].
      destruct (get_engine_class_found _ _ _ _ _ G) as [Hin [L [Hh _]]]. econstructor; eauto.
    - intros _. exists [], ck, cks, [], k. split; [reflexivity|]. split; [constructor|].
      now apply get_engine_class_none.
  Qed.

  Lemma chain_length reg prefs k steps cks final : chain reg prefs k steps cks final -> List.length steps = List.length cks.
  Proof. induction 1; simpl; auto. Qed.

  Lemma honours_unfolded e r : honours e r <->
    is_mode e (r_mode r) = true
    /\ le T (r_kind r) (e_supported e) = Ok true
    /\ (forall c, r_compilation r = Some c -> inN c (e_compilations e) = true)
    /\ (forall p, r_plan r = Some p -> inN p (e_plans e) = true)
    /\ (forall g, r_optimality r = Some g -> inN g (e_optimality e) = true)
    /\ (forall g, r_anytime r = Some g -> inN g (e_anytime e) = true).
  Proof. unfold honours, supports. tauto. Qed.

  Lemma chain_cons_inv reg prefs k n e kk steps ck cks final :
    chain reg prefs k ((n, e, kk) :: steps) (ck :: cks) final ->
    kk = k /\ In n prefs /\ lookup n reg = Some e
    /\ is_mode e COMPILER = true /\ le T k (e_supported e) = Ok true /\ inN ck (e_compilations e) = true
    /\ exists k', run_resulting T (e_resulting e) k = Ok k' /\ chain reg prefs k' steps cks final.
  Proof.
    intros H. inversion H; subst.
    match goal with Hh : honours _ _ |- _ => destruct Hh as [M [S [HC _]]] end.
    split; [reflexivity|]. split; [assumption|]. split; [assumption|]. split; [exact M|]. split; [exact S|].
    split; [apply HC; reflexivity|]. eauto.
  Qed.

  Lemma pipeline_no_suitable reg prefs cks k0 :
    pipeline T reg prefs None cks k0 = PipeFail NoSuitable ->
    exists cks1 ck cks2 done k', cks = cks1 ++ ck :: cks2 /\ chain reg prefs k0 done cks1 k'
      /\ forall m, In m prefs -> exists e', lookup m reg = Some e' /\ ~ honours e' (comp_request k' ck).
  Proof. unfold pipeline. apply pipeline_from_no_suitable. Qed.
End Sel.
