(* Proofs about Model/Kind.v (C33; reused by C32 and C09). *)
From Coq Require Import List NArith ZArith Bool Lia.
Import ListNotations.
Require Import UPV.Model.Kind.

(* ------------------------------------------------------------------ bitmask sets *)
Lemma subset_spec a b :
  subset a b = true <-> forall i, N.testbit a i = true -> N.testbit b i = true.
Proof.
  unfold subset. rewrite N.eqb_eq. split.
  - intros H i Hi. rewrite <- H in Hi. rewrite N.land_spec in Hi. apply andb_true_iff in Hi. tauto.
  - intros H. apply N.bits_inj. intro i. rewrite N.land_spec.
    destruct (N.testbit a i) eqn:E; simpl; auto.
Qed.

Lemma subset_refl a : subset a a = true.
Proof. apply subset_spec; auto. Qed.

Lemma subset_trans a b c : subset a b = true -> subset b c = true -> subset a c = true.
Proof. rewrite !subset_spec; auto. Qed.

Lemma subset_antisym a b : subset a b = true -> subset b a = true -> a = b.
Proof.
  rewrite !subset_spec. intros H1 H2. apply N.bits_inj. intro i.
  destruct (N.testbit a i) eqn:Ea, (N.testbit b i) eqn:Eb; auto.
  - apply H1 in Ea. congruence.
  - apply H2 in Eb. congruence.
Qed.

Lemma subset_of_eq a b : a = b -> subset a b = true.
Proof. intros ->. apply subset_refl. Qed.

Lemma land_mono a b m : subset a b = true -> subset (N.land a m) (N.land b m) = true.
Proof.
  rewrite !subset_spec. intros H i. rewrite !N.land_spec, !andb_true_iff. intros [? ?]; auto.
Qed.

Lemma lor_upper_l a b m : subset (N.land a m) (N.land (N.lor a b) m) = true.
Proof. apply land_mono. apply subset_spec. intros i Hi. rewrite N.lor_spec, Hi. reflexivity. Qed.
Lemma lor_upper_r a b m : subset (N.land b m) (N.land (N.lor a b) m) = true.
Proof. apply land_mono. apply subset_spec. intros i Hi. rewrite N.lor_spec, Hi. apply orb_true_r. Qed.
Lemma lor_least a b m x :
  subset (N.land a m) x = true -> subset (N.land b m) x = true -> subset (N.land (N.lor a b) m) x = true.
Proof.
  rewrite !subset_spec. intros H1 H2 i. specialize (H1 i). specialize (H2 i).
  rewrite !N.land_spec, ?N.lor_spec in *. destruct (N.testbit a i), (N.testbit b i), (N.testbit m i); simpl in *; auto.
Qed.
Lemma land_lower_l a b m : subset (N.land (N.land a b) m) (N.land a m) = true.
Proof. apply land_mono. apply subset_spec. intros i. rewrite N.land_spec, andb_true_iff. tauto. Qed.
Lemma land_lower_r a b m : subset (N.land (N.land a b) m) (N.land b m) = true.
Proof. apply land_mono. apply subset_spec. intros i. rewrite N.land_spec, andb_true_iff. tauto. Qed.
Lemma land_greatest a b m x :
  subset x (N.land a m) = true -> subset x (N.land b m) = true -> subset x (N.land (N.land a b) m) = true.
Proof.
  rewrite !subset_spec. intros H1 H2 i Hi. specialize (H1 i Hi). specialize (H2 i Hi).
  rewrite !N.land_spec in *. destruct (N.testbit a i), (N.testbit b i), (N.testbit m i); simpl in *; auto.
Qed.

Lemma mask_of_spec l i : N.testbit (mask_of l) i = true <-> In i l.
Proof.
  induction l as [|x l IH]; cbn [mask_of fold_right In].
  - rewrite N.bits_0. split; [discriminate|tauto].
  - fold (mask_of l). rewrite N.setbit_iff, IH. tauto.
Qed.

Lemma pos_testbit_xI_succ p j : Pos.testbit p~1 (N.succ j) = Pos.testbit p j.
Proof. destruct j; simpl; auto. now rewrite Pos.pred_N_succ. Qed.
Lemma pos_testbit_xO_succ p j : Pos.testbit p~0 (N.succ j) = Pos.testbit p j.
Proof. destruct j; simpl; auto. now rewrite Pos.pred_N_succ. Qed.

Lemma pos_elements_spec p : forall k x,
  In x (pos_elements p k) <-> exists j, x = (k + j)%N /\ Pos.testbit p j = true.
Proof.
  induction p as [p IH|p IH|]; intros k x; cbn [pos_elements In].
  - rewrite IH. split.
    + intros [<-|[j [-> Hj]]].
      * exists 0%N. split; [lia|reflexivity].
      * exists (N.succ j). split; [lia|]. now rewrite pos_testbit_xI_succ.
    + intros [j [-> Hj]]. destruct (N.eq_dec j 0) as [->|Hn].
      * left; lia.
      * right. exists (N.pred j). split; [lia|].
        rewrite <- (N.succ_pred j Hn) in Hj. now rewrite pos_testbit_xI_succ in Hj.
  - rewrite IH. split.
    + intros [j [-> Hj]]. exists (N.succ j). split; [lia|]. now rewrite pos_testbit_xO_succ.
    + intros [j [-> Hj]]. destruct (N.eq_dec j 0) as [->|Hn].
      * discriminate.
      * exists (N.pred j). split; [lia|].
        rewrite <- (N.succ_pred j Hn) in Hj. now rewrite pos_testbit_xO_succ in Hj.
  - split.
    + intros [<-|[]]. exists 0%N. split; [lia|reflexivity].
    + intros [j [-> Hj]]. destruct j; [left; lia|discriminate].
Qed.

Lemma elements_spec s i : In i (elements s) <-> N.testbit s i = true.
Proof.
  destruct s as [|p]; simpl.
  - split; [tauto|discriminate].
  - rewrite pos_elements_spec. split.
    + intros [j [-> Hj]]. now rewrite N.add_0_l.
    + intros H. exists i. split; [lia|exact H].
Qed.

(* ------------------------------------------------------------------ upgrade functions *)
Definition fires (s : fset) (r : urule) : bool := forallb (fun g => mem g s) (u_guard r).

Lemma fold_rules_spec s rules : forall acc i,
  N.testbit (fold_left (fun acc r => if forallb (fun g => mem g s) (u_guard r) then N.lor acc (mask_of (u_adds r)) else acc)
                       rules acc) i
  = N.testbit acc i || existsb (fun r => fires s r && N.testbit (mask_of (u_adds r)) i) rules.
Proof.
  induction rules as [|r rules IH]; intros acc i; simpl.
  - now rewrite orb_false_r.
  - rewrite IH. unfold fires. destruct (forallb (fun g => mem g s) (u_guard r)); simpl.
    + rewrite N.lor_spec. now rewrite orb_assoc.
    + reflexivity.
Qed.

Lemma apply_upgrade_spec u s i :
  N.testbit (apply_upgrade u s) i
  = (N.testbit s i || existsb (fun r => fires s r && N.testbit (mask_of (u_adds r)) i) (u_rules u))
    && negb (N.testbit (mask_of (u_removed u)) i).
Proof. unfold apply_upgrade. now rewrite N.ldiff_spec, fold_rules_spec. Qed.

Section Generic.
  Variable T : tables.
  Notation version := (version T).
  Notation valid := (valid T).
  Notation canon := (canon T).
  Notation le := (le T).
  Notation keq := (keq T).
  Notation wf := (wf T).
  Notation added := (added T).
  Notation deprecated := (deprecated T).

  Lemma valid_spec v f : N.testbit (valid v) f = true <-> In f (t_all T) /\ is_valid T v f = true.
  Proof. unfold Kind.valid. rewrite mask_of_spec, filter_In. tauto. Qed.

  (* ---------------- version ---------------- *)
  Lemma fold_max_ge_1 l : (1 <= fold_right (fun f acc => N.max acc (added f)) 1 l)%N.
  Proof. induction l; simpl; lia. Qed.
  Lemma fold_max_upper l f : In f l -> (added f <= fold_right (fun f acc => N.max acc (added f)) 1 l)%N.
  Proof. induction l as [|x l IH]; simpl; [tauto|]. intros [->|H]; [lia|]. apply IH in H. lia. Qed.
  Lemma fold_max_attained l :
    fold_right (fun f acc => N.max acc (added f)) 1%N l = 1%N
    \/ exists f, In f l /\ added f = fold_right (fun f acc => N.max acc (added f)) 1%N l.
  Proof.
    induction l as [|x l IH]; simpl; [now left|].
    destruct (N.max_spec (fold_right (fun f acc => N.max acc (added f)) 1%N l) (added x)) as [[_ E]|[_ E]]; rewrite E.
    - right. exists x. auto.
    - destruct IH as [IH|[f [Hf Ef]]]; [now left|]. right. exists f. auto.
  Qed.

  Lemma cv_ge_1 s : (1 <= computed_version T s)%N.
  Proof. apply fold_max_ge_1. Qed.
  Lemma cv_upper s f : N.testbit s f = true -> (added f <= computed_version T s)%N.
  Proof. intros H. apply fold_max_upper. now apply elements_spec. Qed.
  Lemma cv_attained s :
    computed_version T s = 1%N \/ exists f, N.testbit s f = true /\ added f = computed_version T s.
  Proof.
    destruct (fold_max_attained (elements s)) as [H|[f [Hf E]]]; [now left|].
    right. exists f. split; [now apply elements_spec|exact E].
  Qed.

  Lemma wf_all k f : wf k = true -> N.testbit (k_feats k) f = true -> In f (t_all T).
  Proof.
    unfold Kind.wf, ctor_ok. rewrite andb_true_iff. intros [H _] Hf.
    rewrite subset_spec in H. apply H in Hf. now apply mask_of_spec.
  Qed.
  Lemma wf_added_le k f : wf k = true -> N.testbit (k_feats k) f = true -> (added f <= version k)%N.
  Proof.
    unfold Kind.wf, ctor_ok, Kind.version. rewrite andb_true_iff. intros [_ H] Hf.
    destruct (k_ver k) as [v|].
    - rewrite andb_true_iff in H. destruct H as [_ H]. rewrite forallb_forall in H.
      apply N.leb_le. apply H. now apply elements_spec.
    - now apply cv_upper.
  Qed.
  Lemma wf_version_pos k : wf k = true -> (0 < version k)%N.
  Proof.
    unfold Kind.wf, ctor_ok, Kind.version. rewrite andb_true_iff. intros [_ H].
    destruct (k_ver k) as [v|].
    - rewrite andb_true_iff in H. destruct H as [H _]. now apply N.ltb_lt.
    - pose proof (cv_ge_1 (k_feats k)). lia.
  Qed.

  (* ---------------- same-version comparisons ---------------- *)
  Lemma upgrade_to_same s v : upgrade_to T s v v = Some s.
  Proof. unfold upgrade_to. now rewrite N.sub_diag. Qed.
  Lemma upgrade_to_ge s v w : (w <= v)%N -> upgrade_to T s v w = Some s.
  Proof. intros H. unfold upgrade_to. replace (w - v)%N with 0%N by lia. reflexivity. Qed.

  Lemma equalize_same f1 f2 v : equalize T f1 f2 v v = Some (f1, f2, v).
  Proof. unfold equalize. now rewrite !upgrade_to_same, N.max_id. Qed.

  Lemma le_same a b : version a = version b -> le a b = Ok (subset (canon a) (canon b)).
  Proof. intros E. unfold Kind.le, Kind.canon. rewrite <- E, equalize_same. reflexivity. Qed.

  Lemma keq_spec a b : keq a b = true <-> version a = version b /\ canon a = canon b.
  Proof.
    unfold Kind.keq, Kind.canon.
    destruct (N.eqb_spec (version a) (version b)) as [E|E]; simpl.
    - rewrite <- E.
      assert (G : match k_ver a, k_ver b with None, _ => true | _, None => true | Some x, Some y => (x =? y)%N end = true).
      { unfold Kind.version in E. destruct (k_ver a), (k_ver b); auto. now apply N.eqb_eq. }
      rewrite G, N.eqb_eq. tauto.
    - destruct (match k_ver a, k_ver b with None, _ => true | _, None => true | Some x, Some y => (x =? y)%N end);
        split; try discriminate; intros [? _]; contradiction.
  Qed.

  Lemma le_refl a : le a a = Ok true.
  Proof. rewrite le_same by reflexivity. now rewrite subset_refl. Qed.

  Lemma le_trans a b c : version a = version b -> version b = version c ->
    le a b = Ok true -> le b c = Ok true -> le a c = Ok true.
  Proof.
    intros E1 E2. rewrite !le_same by congruence. intros H1 H2. injection H1 as H1. injection H2 as H2.
    f_equal. eapply subset_trans; eauto.
  Qed.

  Lemma le_antisym a b : version a = version b -> le a b = Ok true -> le b a = Ok true -> keq a b = true.
  Proof.
    intros E. rewrite !le_same by congruence. intros H1 H2. injection H1 as H1. injection H2 as H2.
    apply keq_spec. split; [exact E|]. now apply subset_antisym.
  Qed.

  Lemma keq_le a b : keq a b = true -> le a b = Ok true /\ le b a = Ok true.
  Proof.
    rewrite keq_spec. intros [E C]. rewrite !le_same by congruence. rewrite C. now rewrite subset_refl.
  Qed.

  Lemma keq_hash (h : N -> Z) a b : keq a b = true -> khash T h a = khash T h b.
  Proof. rewrite keq_spec. intros [_ C]. unfold khash. now rewrite C. Qed.

  (* ---------------- union / intersection at one version ---------------- *)
  Lemma ctor_ok_lor a b v : wf a = true -> wf b = true -> version a = v -> version b = v ->
    ctor_ok T (N.lor (k_feats a) (k_feats b)) (Some v) = true.
  Proof.
    intros Wa Wb Ea Eb. unfold ctor_ok. rewrite !andb_true_iff. repeat split.
    - apply subset_spec. intros i. rewrite N.lor_spec, orb_true_iff, mask_of_spec.
      intros [H|H]; eauto using wf_all.
    - apply N.ltb_lt. rewrite <- Ea. now apply wf_version_pos.
    - apply forallb_forall. intros f Hf. apply elements_spec in Hf. rewrite N.lor_spec, orb_true_iff in Hf.
      apply N.leb_le. destruct Hf as [H|H].
      + rewrite <- Ea. now apply wf_added_le.
      + rewrite <- Eb. now apply wf_added_le.
  Qed.

  Lemma ctor_ok_land a b v : wf a = true -> version a = v ->
    ctor_ok T (N.land (k_feats a) (k_feats b)) (Some v) = true.
  Proof.
    intros Wa Ea. unfold ctor_ok. rewrite !andb_true_iff. repeat split.
    - apply subset_spec. intros i. rewrite N.land_spec, andb_true_iff, mask_of_spec.
      intros [H _]; eauto using wf_all.
    - apply N.ltb_lt. rewrite <- Ea. now apply wf_version_pos.
    - apply forallb_forall. intros f Hf. apply elements_spec in Hf. rewrite N.land_spec, andb_true_iff in Hf.
      apply N.leb_le. destruct Hf as [H _]. rewrite <- Ea. now apply wf_added_le.
  Qed.

  Lemma version_explicit s v : version {| k_feats := s; k_ver := Some v |} = v.
  Proof. reflexivity. Qed.

  Lemma union_lub a b : wf a = true -> wf b = true -> version a = version b ->
    exists u, union T a b = Ok u /\ version u = version a /\ wf u = true
      /\ le a u = Ok true /\ le b u = Ok true
      /\ forall c, version c = version a -> le a c = Ok true -> le b c = Ok true -> le u c = Ok true.
  Proof.
    intros Wa Wb E.
    set (u := {| k_feats := N.lor (k_feats a) (k_feats b); k_ver := Some (version a) |}).
    assert (Vu : version u = version a) by reflexivity.
    assert (Cu : canon u = N.land (N.lor (k_feats a) (k_feats b)) (valid (version a))) by reflexivity.
    assert (Ca : canon a = N.land (k_feats a) (valid (version a))) by reflexivity.
    assert (Cb : canon b = N.land (k_feats b) (valid (version a))) by (unfold Kind.canon; now rewrite E).
    exists u.
    assert (C : ctor_ok T (N.lor (k_feats a) (k_feats b)) (Some (version a)) = true)
      by (apply ctor_ok_lor; auto).
    split; [|split; [reflexivity|split; [exact C|]]].
    - unfold union, construct. rewrite <- E, equalize_same, C. reflexivity.
    - split; [|split].
      + rewrite le_same by congruence. rewrite Cu, Ca. f_equal. apply lor_upper_l.
      + rewrite le_same by congruence. rewrite Cu, Cb. f_equal. apply lor_upper_r.
      + intros c Ec. rewrite !le_same by congruence. rewrite Cu, Ca, Cb. intros H1 H2.
        injection H1 as H1. injection H2 as H2. f_equal. now apply lor_least.
  Qed.

  Lemma inter_glb a b : wf a = true -> wf b = true -> version a = version b ->
    exists m, inter T a b = Ok m /\ version m = version a /\ wf m = true
      /\ le m a = Ok true /\ le m b = Ok true
      /\ forall c, version c = version a -> le c a = Ok true -> le c b = Ok true -> le c m = Ok true.
  Proof.
    intros Wa Wb E.
    set (u := {| k_feats := N.land (k_feats a) (k_feats b); k_ver := Some (version a) |}).
    assert (Vu : version u = version a) by reflexivity.
    assert (Cu : canon u = N.land (N.land (k_feats a) (k_feats b)) (valid (version a))) by reflexivity.
    assert (Ca : canon a = N.land (k_feats a) (valid (version a))) by reflexivity.
    assert (Cb : canon b = N.land (k_feats b) (valid (version a))) by (unfold Kind.canon; now rewrite E).
    exists u.
    assert (C : ctor_ok T (N.land (k_feats a) (k_feats b)) (Some (version a)) = true)
      by (apply ctor_ok_land; auto).
    split; [|split; [reflexivity|split; [exact C|]]].
    - unfold inter, construct. rewrite <- E, equalize_same, C. reflexivity.
    - split; [|split].
      + rewrite le_same by congruence. rewrite Cu, Ca. f_equal. apply land_lower_l.
      + rewrite le_same by congruence. rewrite Cu, Cb. f_equal. apply land_lower_r.
      + intros c Ec. rewrite !le_same by congruence. rewrite Cu, Ca, Cb. intros H1 H2.
        injection H1 as H1. injection H2 as H2. f_equal. now apply land_greatest.
  Qed.

  (* ---------------- cross-version comparisons ---------------- *)
  Lemma le_cross_version_l a b a' : (version a <= version b)%N ->
    upgraded T a (version b) = Some a' -> le a b = le a' b.
  Proof.
    unfold upgraded. intros Hle. destruct (upgrade_to T (k_feats a) (version a) (version b)) as [s|] eqn:U; [|discriminate].
    intros H; inversion H; subst a'; clear H.
    unfold Kind.le at 1. unfold equalize. rewrite U, (upgrade_to_ge _ _ _ Hle).
    rewrite le_same by reflexivity. unfold Kind.canon; simpl.
    replace (N.max (version a) (version b)) with (version b) by lia. reflexivity.
  Qed.

  Lemma le_cross_version_r a b b' : (version b <= version a)%N ->
    upgraded T b (version a) = Some b' -> le a b = le a b'.
  Proof.
    unfold upgraded. intros Hle. destruct (upgrade_to T (k_feats b) (version b) (version a)) as [s|] eqn:U; [|discriminate].
    intros H; inversion H; subst b'; clear H.
    unfold Kind.le at 1. unfold equalize. rewrite U, (upgrade_to_ge _ _ _ Hle).
    rewrite le_same by reflexivity. unfold Kind.canon; simpl.
    replace (N.max (version a) (version b)) with (version a) by lia. reflexivity.
  Qed.

  (* the same for union and intersection: they operate on the upgraded older operand *)
  Lemma union_cross_version_l a b a' : (version a <= version b)%N ->
    upgraded T a (version b) = Some a' -> union T a b = union T a' b.
  Proof.
    unfold upgraded. intros Hle. destruct (upgrade_to T (k_feats a) (version a) (version b)) as [s|] eqn:U; [|discriminate].
    intros H; inversion H; subst a'; clear H.
    unfold union at 1. unfold equalize. rewrite U, (upgrade_to_ge _ _ _ Hle).
    unfold union. simpl. rewrite equalize_same.
    replace (N.max (version a) (version b)) with (version b) by lia. reflexivity.
  Qed.

  Lemma inter_cross_version_l a b a' : (version a <= version b)%N ->
    upgraded T a (version b) = Some a' -> inter T a b = inter T a' b.
  Proof.
    unfold upgraded. intros Hle. destruct (upgrade_to T (k_feats a) (version a) (version b)) as [s|] eqn:U; [|discriminate].
    intros H; inversion H; subst a'; clear H.
    unfold inter at 1. unfold equalize. rewrite U, (upgrade_to_ge _ _ _ Hle).
    unfold inter. simpl. rewrite equalize_same.
    replace (N.max (version a) (version b)) with (version b) by lia. reflexivity.
  Qed.

  (* ---------------- upgrading is monotone ---------------- *)
  (* invariant kept by the constructor and by every upgrade step: the features exist and are not from the future *)
  Definition inv (s : fset) (v : N) : Prop :=
    forall f, N.testbit s f = true -> In f (t_all T) /\ (added f <= v)%N.

  Hypothesis TOK : tables_ok T = true.

  Lemma range_from_In v n x : In x (range_from v n) <-> (v <= x < v + N.of_nat n)%N.
  Proof.
    revert v. induction n as [|n IH]; intros v; simpl.
    - lia.
    - rewrite IH. lia.
  Qed.

  Lemma tables_ok_step v : (1 <= v < t_latest T)%N ->
    exists u, lookup_upgrade v (t_upgrades T) = Some u /\ forallb (rule_ok T v) (u_rules u) = true.
  Proof.
    intros Hv. unfold tables_ok in TOK. rewrite !andb_true_iff in TOK. destruct TOK as [_ H].
    rewrite forallb_forall in H. specialize (H v).
    destruct (lookup_upgrade v (t_upgrades T)) as [u|].
    - exists u. split; [reflexivity|]. apply H. apply range_from_In. lia.
    - assert (false = true); [|discriminate]. apply H. apply range_from_In. lia.
  Qed.

  Lemma tables_ok_feature f : In f (t_all T) ->
    (1 <= added f <= t_latest T)%N /\ (forall d, deprecated f = Some d -> (added f < d)%N).
  Proof.
    intros Hf. unfold tables_ok in TOK. rewrite !andb_true_iff in TOK. destruct TOK as [[_ H] _].
    rewrite forallb_forall in H. specialize (H f Hf). rewrite !andb_true_iff in H. destruct H as [[H1 H2] H3].
    apply N.leb_le in H1, H2. split; [lia|]. intros d Hd. rewrite Hd in H3. now apply N.ltb_lt.
  Qed.

  Lemma is_valid_succ v f : (added f <= v)%N -> is_valid T (N.succ v) f = true -> is_valid T v f = true.
  Proof.
    unfold is_valid. intros Ha. rewrite !andb_true_iff. intros [_ H]. split; [now apply N.leb_le|].
    destruct (deprecated f) as [d|]; auto.
    rewrite negb_true_iff in *. apply N.leb_gt in H. apply N.leb_gt. lia.
  Qed.

  Lemma fires_mono v u sa sb r : inv sa v ->
    forallb (rule_ok T v) (u_rules u) = true -> In r (u_rules u) ->
    subset (N.land sa (valid v)) (N.land sb (valid v)) = true ->
    fires sa r = true -> fires sb r = true.
  Proof.
    intros Ia RO Hr Sub. unfold fires. rewrite !forallb_forall. intros F g Hg.
    rewrite forallb_forall in RO. specialize (RO r Hr). unfold rule_ok in RO. rewrite andb_true_iff in RO.
    destruct RO as [G _]. rewrite forallb_forall in G. specialize (G g Hg). specialize (F g Hg). unfold mem in *.
    rewrite subset_spec in Sub. specialize (Sub g). rewrite !N.land_spec, F in Sub. simpl in Sub.
    assert (V : N.testbit (valid v) g = true) by (apply valid_spec; split; [apply (Ia g F)|exact G]).
    specialize (Sub V). apply andb_true_iff in Sub. tauto.
  Qed.

  Lemma step_inv v u s : (1 <= v)%N -> inv s v -> forallb (rule_ok T v) (u_rules u) = true ->
    inv (apply_upgrade u s) (N.succ v).
  Proof.
    intros Hv I RO f. rewrite apply_upgrade_spec, andb_true_iff, orb_true_iff. intros [[H|H] _].
    - destruct (I f H). split; [assumption|lia].
    - apply existsb_exists in H. destruct H as [r [Hr H]]. rewrite andb_true_iff, mask_of_spec in H. destruct H as [_ H].
      rewrite forallb_forall in RO. specialize (RO r Hr). unfold rule_ok in RO. rewrite andb_true_iff in RO.
      destruct RO as [_ A]. rewrite forallb_forall in A. specialize (A f H). rewrite andb_true_iff in A.
      destruct A as [A1 A2]. apply N.leb_le in A1. split; [|assumption].
      apply existsb_exists in A2. destruct A2 as [x [Hx E]]. apply N.eqb_eq in E. now subst x.
  Qed.

  Lemma step_mono v u sa sb : inv sa v -> inv sb v ->
    forallb (rule_ok T v) (u_rules u) = true ->
    subset (N.land sa (valid v)) (N.land sb (valid v)) = true ->
    subset (N.land (apply_upgrade u sa) (valid (N.succ v))) (N.land (apply_upgrade u sb) (valid (N.succ v))) = true.
  Proof.
    intros Ia Ib RO Sub. apply subset_spec. intros f.
    rewrite !N.land_spec, !apply_upgrade_spec, !andb_true_iff, !orb_true_iff.
    intros [[[H|H] NR] V]; (split; [split; [|exact NR]|exact V]).
    - left. destruct (Ia f H) as [Hall Hadd].
      apply valid_spec in V. destruct V as [_ V]. apply (is_valid_succ _ _ Hadd) in V.
      pose proof Sub as Sub'. rewrite subset_spec in Sub'. specialize (Sub' f). rewrite !N.land_spec, H in Sub'. simpl in Sub'.
      assert (V' : N.testbit (valid v) f = true) by (apply valid_spec; auto).
      specialize (Sub' V'). apply andb_true_iff in Sub'. tauto.
    - right. apply existsb_exists in H. destruct H as [r [Hr H]]. apply andb_true_iff in H. destruct H as [F A].
      apply existsb_exists. exists r. split; [exact Hr|]. rewrite A, andb_true_r.
      exact (fires_mono v u sa sb r Ia RO Hr Sub F).
  Qed.

  Lemma loop_mono n : forall v sa sb sa', (1 <= v)%N -> (v + N.of_nat n <= t_latest T)%N ->
    inv sa v -> inv sb v ->
    subset (N.land sa (valid v)) (N.land sb (valid v)) = true ->
    upgrade_loop T n sa v = Some sa' ->
    exists sb', upgrade_loop T n sb v = Some sb' /\ inv sa' (v + N.of_nat n) /\ inv sb' (v + N.of_nat n)
      /\ subset (N.land sa' (valid (v + N.of_nat n))) (N.land sb' (valid (v + N.of_nat n))) = true.
  Proof.
    induction n as [|n IH]; intros v sa sb sa' Hv Hl Ia Ib Sub L.
    - simpl in L. inversion L; subst sa'. exists sb. rewrite N.add_0_r. auto.
    - cbn [upgrade_loop] in *. unfold upgrade_step in *.
      destruct (tables_ok_step v) as [u [Lu RO]]; [lia|]. rewrite Lu in *.
      replace (v + N.of_nat (S n))%N with (N.succ v + N.of_nat n)%N by lia.
      apply (IH (N.succ v) (apply_upgrade u sa) (apply_upgrade u sb) sa'); try lia; auto using step_inv, step_mono.
  Qed.

  Lemma loop_defined n : forall v s, (1 <= v)%N -> (v + N.of_nat n <= t_latest T)%N ->
    exists s', upgrade_loop T n s v = Some s'.
  Proof.
    induction n as [|n IH]; intros v s Hv Hl; simpl; [eauto|].
    unfold upgrade_step. destruct (tables_ok_step v) as [u [Lu _]]; [lia|]. rewrite Lu.
    apply IH; lia.
  Qed.

  Lemma wf_inv k : wf k = true -> inv (k_feats k) (version k).
  Proof. intros W f Hf. split; [eapply wf_all; eauto|now apply wf_added_le]. Qed.

  Lemma inv_ctor_ok s v : (0 < v)%N -> inv s v -> ctor_ok T s (Some v) = true.
  Proof.
    intros Hv I. unfold ctor_ok. rewrite !andb_true_iff. repeat split.
    - apply subset_spec. intros i Hi. apply mask_of_spec. apply (I i Hi).
    - now apply N.ltb_lt.
    - apply forallb_forall. intros f Hf. apply elements_spec in Hf. apply N.leb_le. apply (I f Hf).
  Qed.

  (* upgrading two comparable kinds of one version to a later version keeps them comparable *)
  Lemma upgrade_monotone a b w a' : wf a = true -> wf b = true -> version a = version b ->
    (version a <= w <= t_latest T)%N ->
    le a b = Ok true -> upgraded T a w = Some a' ->
    exists b', upgraded T b w = Some b' /\ wf a' = true /\ wf b' = true /\ le a' b' = Ok true.
  Proof.
    intros Wa Wb E Hw L U. rewrite le_same in L by exact E. injection L as L'.
    unfold upgraded, upgrade_to in *. rewrite <- E.
    destruct (upgrade_loop T (N.to_nat (w - version a)) (k_feats a) (version a)) as [sa'|] eqn:La; [|discriminate].
    inversion U; subst a'; clear U.
    pose proof (wf_version_pos _ Wa) as Hp.
    assert (Ew : (version a + N.of_nat (N.to_nat (w - version a)) = w)%N) by lia.
    destruct (loop_mono (N.to_nat (w - version a)) (version a) (k_feats a) (k_feats b) sa') as [sb' [Lb [Ia [Ib S]]]];
      try lia; auto using wf_inv.
    - rewrite E at 1. now apply wf_inv.
    - unfold Kind.canon in L'. rewrite <- E in L'. exact L'.
    - rewrite Ew in *. rewrite Lb. eexists. split; [reflexivity|].
      split; [apply inv_ctor_ok; [lia|exact Ia]|]. split; [apply inv_ctor_ok; [lia|exact Ib]|].
      rewrite le_same by reflexivity. f_equal. exact S.
  Qed.

  (* no KeyError / AssertionError between well-formed kinds of versions <= LATEST *)
  Lemma upgraded_defined a w : wf a = true -> (version a <= w <= t_latest T)%N ->
    exists a', upgraded T a w = Some a' /\ wf a' = true /\ version a' = w.
  Proof.
    intros Wa Hw. pose proof (wf_version_pos _ Wa) as Hp. unfold upgraded, upgrade_to.
    destruct (loop_defined (N.to_nat (w - version a)) (version a) (k_feats a)) as [s' L]; try lia.
    rewrite L. eexists. split; [reflexivity|]. split; [|reflexivity].
    destruct (loop_mono (N.to_nat (w - version a)) (version a) (k_feats a) (k_feats a) s') as [sb' [_ [Ia _]]];
      try lia; auto using wf_inv, subset_refl.
    replace (version a + N.of_nat (N.to_nat (w - version a)))%N with w in Ia by lia.
    apply inv_ctor_ok; [lia|exact Ia].
  Qed.

  Lemma version_le_latest k : wf k = true -> k_ver k = None -> (version k <= t_latest T)%N.
  Proof.
    intros W E. unfold Kind.version. rewrite E.
    destruct (cv_attained (k_feats k)) as [H|[f [Hf Hv]]].
    - rewrite H. unfold tables_ok in TOK. rewrite !andb_true_iff in TOK. destruct TOK as [[G _] _]. now apply N.leb_le.
    - rewrite <- Hv. apply tables_ok_feature. eapply wf_all; eauto.
  Qed.

End Generic.

Section Generic2.
  Variable T : tables.
  Hypothesis TOK : tables_ok T = true.

  (* comparisons between well-formed kinds of versions <= LATEST never raise *)
  Lemma le_defined a b : wf T a = true -> wf T b = true ->
    (version T a <= t_latest T)%N -> (version T b <= t_latest T)%N -> exists r, le T a b = Ok r.
  Proof.
    intros Wa Wb Ha Hb. unfold le, equalize.
    destruct (N.le_ge_cases (version T a) (version T b)) as [H|H].
    - destruct (upgraded_defined T TOK a (version T b) Wa) as [a' [U _]]; [lia|].
      unfold upgraded in U. destruct (upgrade_to T (k_feats a) (version T a) (version T b)); [|discriminate].
      rewrite (upgrade_to_ge T _ _ _ H). eauto.
    - destruct (upgraded_defined T TOK b (version T a) Wb) as [b' [U _]]; [lia|].
      unfold upgraded in U. destruct (upgrade_to T (k_feats b) (version T b) (version T a)); [|discriminate].
      rewrite (upgrade_to_ge T _ _ _ H). eauto.
  Qed.

  (* stripping the invalid features (what __le__ does in place) changes neither the version nor the canonical set *)
  Lemma strip_cv k : wf T k = true -> k_ver k = None ->
    computed_version T (canon T k) = version T k.
  Proof.
    intros W EV.
    assert (VK : version T k = computed_version T (k_feats k)) by (unfold version; now rewrite EV).
    apply N.le_antisymm.
    - rewrite VK. destruct (cv_attained T (canon T k)) as [H|[f [Hf Hv]]].
      + rewrite H. apply cv_ge_1.
      + rewrite <- Hv. apply cv_upper. unfold canon in Hf. rewrite N.land_spec in Hf. apply andb_true_iff in Hf. tauto.
    - destruct (cv_attained T (k_feats k)) as [H|[f [Hf Hv]]].
      + rewrite VK, H. apply cv_ge_1.
      + rewrite VK, <- Hv. apply cv_upper. unfold canon. rewrite N.land_spec, Hf. simpl.
        apply valid_spec. pose proof (wf_all T k f W Hf) as Hall. split; [exact Hall|].
        unfold is_valid. apply andb_true_iff. split.
        * apply N.leb_le. now apply wf_added_le.
        * destruct (tables_ok_feature T TOK f Hall) as [_ D].
          destruct (deprecated T f) as [d|] eqn:ED; [|reflexivity].
          specialize (D d eq_refl). apply negb_true_iff. apply N.leb_gt.
          rewrite VK, <- Hv. exact D.
  Qed.

  Lemma strip_version k : wf T k = true ->
    version T {| k_feats := canon T k; k_ver := k_ver k |} = version T k.
  Proof.
    intros W. unfold version at 1. cbn [k_ver k_feats]. destruct (k_ver k) as [v|] eqn:EV.
    - unfold version. now rewrite EV.
    - now apply strip_cv.
  Qed.

  Lemma strip_canon k : wf T k = true ->
    canon T {| k_feats := canon T k; k_ver := k_ver k |} = canon T k.
  Proof.
    intros W. unfold canon at 1. rewrite (strip_version k W). cbn [k_feats]. unfold canon.
    rewrite <- N.land_assoc, N.land_diag. reflexivity.
  Qed.

  Lemma le_mut_harmless a b r fa' fb' : wf T a = true -> wf T b = true ->
    le_mut T a b = Ok (r, fa', fb') ->
    le T a b = Ok r
    /\ keq T {| k_feats := fa'; k_ver := k_ver a |} a = true
    /\ keq T {| k_feats := fb'; k_ver := k_ver b |} b = true
    /\ forall h, khash T h {| k_feats := fa'; k_ver := k_ver a |} = khash T h a
              /\ khash T h {| k_feats := fb'; k_ver := k_ver b |} = khash T h b.
  Proof.
    intros Wa Wb. unfold le_mut, le, equalize.
    destruct (upgrade_to T (k_feats a) (version T a) (version T b)) as [sa|] eqn:Ua; [|discriminate].
    destruct (upgrade_to T (k_feats b) (version T b) (version T a)) as [sb|] eqn:Ub; [|discriminate].
    intros H. injection H as Hr Ha Hb.
    assert (KA : keq T {| k_feats := fa'; k_ver := k_ver a |} a = true).
    { destruct (N.ltb_spec (version T a) (version T b)) as [L|L].
      - subst fa'. destruct a; apply keq_spec; auto.
      - rewrite (upgrade_to_ge T _ _ _ L) in Ua. injection Ua as <-.
        replace (N.max (version T a) (version T b)) with (version T a) in Ha by lia.
        subst fa'. apply keq_spec. split; [apply (strip_version a Wa)|apply (strip_canon a Wa)]. }
    assert (KB : keq T {| k_feats := fb'; k_ver := k_ver b |} b = true).
    { destruct (N.ltb_spec (version T b) (version T a)) as [L|L].
      - subst fb'. destruct b; apply keq_spec; auto.
      - rewrite (upgrade_to_ge T _ _ _ L) in Ub. injection Ub as <-.
        replace (N.max (version T a) (version T b)) with (version T b) in Hb by lia.
        subst fb'. apply keq_spec. split; [apply (strip_version b Wb)|apply (strip_canon b Wb)]. }
    split; [now rewrite Hr|]. split; [exact KA|]. split; [exact KB|].
    intros h. split; now apply keq_hash.
  Qed.
End Generic2.

