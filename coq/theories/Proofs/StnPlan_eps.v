(* C26: the epsilon chosen by _convert_to_stn when problem.epsilon is None (a tenth of the plan's extract_epsilon,
   at most 1/1000) always satisfies the gap hypothesis of the conversion theorem: every event time is a time of the
   set built by extract_epsilon, possibly shifted by +/- epsilon (open interval bounds); different members of that set
   are at least 10 epsilon apart. *)
From Coq Require Import List ZArith NArith QArith Qabs Bool Lia Lqa.
Import ListNotations.
Require Import UPV.Model.Stn UPV.Proofs.Stn_proofs UPV.Proofs.Stn_termination UPV.Planning.StnPlan UPV.Proofs.StnPlan_proofs.
Local Open Scope Q_scope.

(* membership up to Qeq *)
Definition Inq (x : Q) (l : list Q) : Prop := exists y, In y l /\ x == y.

Lemma Inq_cons x a l : Inq x (a :: l) <-> x == a \/ Inq x l.
Proof.
  split.
  - intros (y & [<-|H] & E); [left; exact E | right; exists y; auto].
  - intros [E|(y & H & E)]; [exists a; split; [left; reflexivity | exact E] | exists y; split; [right; exact H | exact E]].
Qed.
Lemma Inq_in x l : In x l -> Inq x l.
Proof. intros H. exists x. split; [exact H | reflexivity]. Qed.
Lemma Inq_app x l l' : Inq x (l ++ l') <-> Inq x l \/ Inq x l'.
Proof.
  split.
  - intros (y & H & E). apply in_app_or in H. destruct H; [left | right]; exists y; auto.
  - intros [(y & H & E)|(y & H & E)]; exists y; split; auto; apply in_or_app; auto.
Qed.
Lemma Inq_eq x x' l : x == x' -> Inq x' l -> Inq x l.
Proof. intros E (y & H & E'). exists y. split; [exact H | lra]. Qed.

(* ------------------------------------------------------------------ Python sets *)
Lemma qmem_spec x l : qmem x l = true -> Inq x l.
Proof.
  induction l as [|y l IH]; simpl; [discriminate|]. intros H. apply orb_true_iff in H. destruct H as [H|H].
  - apply Qeq_bool_iff in H. exists y. split; [left; reflexivity | exact H].
  - destruct (IH H) as (z & Hz & E). exists z. split; [right; exact Hz | exact E].
Qed.

Lemma qnodup_in t : forall l, In t (qnodup l) -> In t l.
Proof.
  induction l as [|y l IH]; simpl; [auto|]. destruct (qmem y l).
  - intros H. right. apply IH. exact H.
  - intros [H|H]; [left; exact H | right; apply IH; exact H].
Qed.

Lemma qnodup_Inq x : forall l, Inq x l -> Inq x (qnodup l).
Proof.
  induction l as [|y l IH]; intros H; [exact H|]. simpl. apply Inq_cons in H.
  destruct (qmem y l) eqn:E.
  - destruct H as [H|H]; [|apply IH; exact H]. apply IH. apply (Inq_eq x y); [exact H | apply qmem_spec; exact E].
  - apply Inq_cons. destruct H as [H|H]; [left; exact H | right; apply IH; exact H].
Qed.

(* strictly sorted lists *)
Fixpoint ssorted (l : list Q) : Prop :=
  match l with
  | a :: ((b :: _) as r) => a < b /\ ssorted r
  | _ => True
  end.

Lemma ssorted_tail a l : ssorted (a :: l) -> ssorted l.
Proof. destruct l; simpl; tauto. Qed.

Lemma ssorted_head_lt : forall l a, ssorted (a :: l) -> forall q, In q l -> a < q.
Proof.
  induction l as [|b l IH]; intros a Hs q Hq; [destruct Hq|].
  simpl in Hs. destruct Hs as [Hab Hs]. destruct Hq as [<-|Hq]; [exact Hab|].
  pose proof (IH b Hs q Hq). lra.
Qed.

Lemma qinsert_Inq x y : forall l, Inq y (x :: l) -> Inq y (qinsert x l).
Proof.
  induction l as [|z r IH]; intros H; [exact H|]. simpl.
  destruct (Qlt_bool x z); [exact H|]. destruct (Qeq_bool x z) eqn:E.
  - apply Qeq_bool_iff in E. apply Inq_cons in H. destruct H as [H|H]; [|exact H].
    apply Inq_cons. left. lra.
  - apply Inq_cons in H. apply Inq_cons. destruct H as [H|H].
    + right. apply IH. apply Inq_cons. left; exact H.
    + apply Inq_cons in H. destruct H as [H|H]; [left; exact H|]. right. apply IH. apply Inq_cons. right; exact H.
Qed.

Lemma qinsert_head x : forall l, ssorted l ->
  match qinsert x l with
  | [] => False
  | h :: _ => h == x \/ (exists a r, l = a :: r /\ h = a /\ a < x)
  end.
Proof.
  intros l Hs. destruct l as [|a r]; simpl; [left; reflexivity|].
  destruct (Qlt_bool x a) eqn:E1; [left; reflexivity|]. destruct (Qeq_bool x a) eqn:E2.
  - left. apply Qeq_bool_iff in E2. lra.
  - right. exists a, r. split; [reflexivity|]. split; [reflexivity|].
    apply Qlt_bool_false in E1. apply Qeq_bool_neq in E2. destruct (Q_dec a x) as [[H|H]|H]; [exact H | lra | exfalso; apply E2; lra].
Qed.

Lemma qinsert_ssorted x : forall l, ssorted l -> ssorted (qinsert x l).
Proof.
  induction l as [|a r IH]; intros Hs; [exact I|]. simpl.
  destruct (Qlt_bool x a) eqn:E1.
  - apply Qlt_bool_iff in E1. split; [exact E1 | exact Hs].
  - destruct (Qeq_bool x a) eqn:E2; [exact Hs|].
    apply Qlt_bool_false in E1. apply Qeq_bool_neq in E2.
    assert (Hax : a < x) by (destruct (Q_dec a x) as [[H|H]|H]; [exact H | lra | exfalso; apply E2; lra]).
    pose proof (IH (ssorted_tail _ _ Hs)) as IH'. pose proof (qinsert_head x r (ssorted_tail _ _ Hs)) as Hh.
    destruct (qinsert x r) as [|h t] eqn:Eq; [destruct Hh|].
    split; [|exact IH'].
    destruct Hh as [Hh|(a' & r' & -> & -> & Hlt)]; [lra|].
    simpl in Hs. tauto.
Qed.

Lemma qsorted_set_ssorted l : ssorted (qsorted_set l).
Proof. induction l as [|x l IH]; [exact I|]. simpl. apply qinsert_ssorted. exact IH. Qed.

Lemma qsorted_set_Inq y : forall l, Inq y l -> Inq y (qsorted_set l).
Proof.
  induction l as [|x l IH]; intros H; [exact H|]. simpl. apply qinsert_Inq. apply Inq_cons in H. apply Inq_cons.
  destruct H as [H|H]; [left; exact H | right; apply IH; exact H].
Qed.

(* ------------------------------------------------------------------ min_gap *)
Lemma qmin_le_l a b : qmin a b <= a.
Proof. unfold qmin. destruct (Qle_bool a b) eqn:E; [lra|]. destruct (Qlt_le_dec b a) as [H|H]; [lra|]. apply Qle_bool_iff in H. congruence. Qed.
Lemma qmin_le_r a b : qmin a b <= b.
Proof. unfold qmin. destruct (Qle_bool a b) eqn:E; [apply Qle_bool_iff in E; exact E | lra]. Qed.
Lemma qmin_pos a b : 0 < a -> 0 < b -> 0 < qmin a b.
Proof. unfold qmin. destruct (Qle_bool a b); auto. Qed.

Lemma min_gap_le_acc : forall l p eps, min_gap p eps l <= eps.
Proof.
  induction l as [|x l IH]; intros p eps; simpl; [lra|].
  pose proof (IH x (qmin eps (x - p))). pose proof (qmin_le_l eps (x - p)). lra.
Qed.

Fixpoint gaps_ge (G : Q) (l : list Q) : Prop :=
  match l with
  | a :: ((b :: _) as r) => a + G <= b /\ gaps_ge G r
  | _ => True
  end.

Lemma min_gap_gaps : forall l p eps, gaps_ge (min_gap p eps l) (p :: l).
Proof.
  induction l as [|x l IH]; intros p eps; [exact I|].
  change (p + min_gap p eps (x :: l) <= x /\ gaps_ge (min_gap p eps (x :: l)) (x :: l)). simpl min_gap. split.
  - pose proof (min_gap_le_acc l x (qmin eps (x - p))). pose proof (qmin_le_r eps (x - p)). lra.
  - apply IH.
Qed.

Lemma min_gap_pos : forall l p eps, 0 < eps -> ssorted (p :: l) -> 0 < min_gap p eps l.
Proof.
  induction l as [|x l IH]; intros p eps He Hs; simpl; [exact He|].
  simpl in Hs. destruct Hs as [Hpx Hs]. apply IH; [|exact Hs]. apply qmin_pos; lra.
Qed.

Lemma gaps_head G : forall l a, ssorted (a :: l) -> gaps_ge G (a :: l) -> forall q, In q l -> a + G <= q.
Proof.
  induction l as [|b l IH]; intros a Hs Hg q Hq; [destruct Hq|].
  simpl in Hs, Hg. destruct Hs as [Hab Hs]. destruct Hg as [Hg1 Hg]. destruct Hq as [<-|Hq]; [exact Hg1|].
  pose proof (IH b Hs Hg q Hq). lra.
Qed.

Lemma gaps_pairs G : forall L, ssorted L -> gaps_ge G L -> forall p q, In p L -> In q L -> p < q -> p + G <= q.
Proof.
  induction L as [|a l IH]; intros Hs Hg p q Hp Hq Hlt; [destruct Hp|].
  assert (Hg' : gaps_ge G l) by (destruct l; simpl in Hg |- *; tauto).
  destruct Hp as [<-|Hp], Hq as [<-|Hq].
  - lra.
  - eapply gaps_head; eauto.
  - pose proof (ssorted_head_lt _ _ Hs p Hp). lra.
  - apply (IH (ssorted_tail _ _ Hs) Hg'); assumption.
Qed.

Lemma last_cons : forall (r : list Q) b x, last (b :: r) x = last r b.
Proof.
  induction r as [|c r IH]; intros b x; [reflexivity|].
  change (last (b :: c :: r) x) with (last (c :: r) x). rewrite (IH c x), (IH c b). reflexivity.
Qed.

Lemma ssorted_last_ge : forall r x, ssorted (x :: r) -> forall q, In q (x :: r) -> q <= last r x.
Proof.
  induction r as [|b r IH]; intros x Hs q Hq.
  - destruct Hq as [<-|[]]. simpl. lra.
  - rewrite last_cons. destruct Hs as [Hxb Hs]. destruct Hq as [<-|Hq].
    + pose proof (IH b Hs b (or_introl eq_refl)). lra.
    + apply IH; assumption.
Qed.

(* ------------------------------------------------------------------ event times are members of the time set, shifted by 0, +eps, -eps *)
Definition shifted (eps t x : Q) : Prop := t == x \/ t == x + eps \/ t == x - eps.

Lemma action_timings_char eps st d t : In t (action_timings eps st d) ->
  (exists tm, In tm (base_timings st) /\ shifted eps t (abs_time (st_start st) d tm)) \/ (st_dyn st = true /\ t == st_start st).
Proof.
  unfold action_timings. intros H. apply qnodup_in in H. apply in_app_or in H. destruct H as [H|H].
  - left. apply in_map_iff in H. destruct H as (tm & <- & Htm). exists tm. split; [apply in_or_app; left; exact Htm | left; reflexivity].
  - apply in_app_or in H. destruct H as [H|H].
    + right. destruct (st_dyn st); [|destruct H]. destruct H as [<-|[]]. split; reflexivity.
    + left. apply in_flat_map in H. destruct H as (iv & Hiv & [<-|[<-|[]]]).
      * exists (iv_lo iv). split; [apply in_or_app; right; apply in_flat_map; exists iv; split; [exact Hiv | left; reflexivity]|].
        destruct (iv_lopen iv); [right; left; reflexivity | left; lra].
      * exists (iv_hi iv). split; [apply in_or_app; right; apply in_flat_map; exists iv; split; [exact Hiv | right; left; reflexivity]|].
        destruct (iv_ropen iv); [right; right; lra | left; lra].
Qed.

Lemma action_timings0_Inq st d tm : In tm (base_timings st) -> Inq (abs_time (st_start st) d tm) (action_timings 0 st d).
Proof.
  intros H. unfold action_timings. apply qnodup_Inq. unfold base_timings in H. apply in_app_or in H. destruct H as [H|H].
  - apply Inq_app. left. apply Inq_in. apply in_map. exact H.
  - apply Inq_app. right. apply Inq_app. right. apply in_flat_map in H. destruct H as (iv & Hiv & [<-|[<-|[]]]).
    + exists (abs_time (st_start st) d (iv_lo iv) + (if iv_lopen iv then 0 else 0)).
      split; [apply in_flat_map; exists iv; split; [exact Hiv | left; reflexivity] | destruct (iv_lopen iv); lra].
    + exists (abs_time (st_start st) d (iv_hi iv) + (if iv_ropen iv then - 0 else 0)).
      split; [apply in_flat_map; exists iv; split; [exact Hiv | right; left; reflexivity] | destruct (iv_ropen iv); lra].
Qed.

(* a plan step *)
Lemma step_event_char eps g st e : In e (step_events eps g st) ->
  exists x, Inq x (step_times st) /\ shifted eps (e_time e) x.
Proof.
  unfold step_events, step_times. destruct (st_dur st) as [d|].
  - intros H. apply in_map_iff in H. destruct H as (t & <- & Ht). apply filter_In in Ht. destruct Ht as [Ht _]. simpl.
    destruct (action_timings_char _ _ _ _ Ht) as [(tm & Htm & Hsh)|[_ Hs]].
    + exists (abs_time (st_start st) d tm). split; [|exact Hsh].
      apply Inq_cons. right. apply Inq_cons. right. apply action_timings0_Inq. exact Htm.
    + exists (st_start st). split; [apply Inq_cons; left; reflexivity | left; exact Hs].
  - intros [<-|[]]. simpl. exists (st_start st). split; [apply Inq_cons; left; reflexivity | left; reflexivity].
Qed.

Lemma plan_event_char eps : forall plan g e, In e (events_from eps g plan) ->
  exists x, Inq x (flat_map step_times plan) /\ shifted eps (e_time e) x.
Proof.
  induction plan as [|st plan IH]; intros g e H; [destruct H|]. simpl in H. apply in_app_or in H. destruct H as [H|H].
  - destruct (step_event_char _ _ _ _ H) as (x & Hx & Hs). exists x. split; [|exact Hs].
    change (flat_map step_times (st :: plan)) with (step_times st ++ flat_map step_times plan). apply Inq_app. left; exact Hx.
  - destruct (IH _ _ H) as (x & Hx & Hs). exists x. split; [|exact Hs].
    change (flat_map step_times (st :: plan)) with (step_times st ++ flat_map step_times plan). apply Inq_app. right; exact Hx.
Qed.

(* the mockup action: timings anchored at GLOBAL_END (its end is at -1) with a delay <= 0 give negative times, dropped *)
Lemma mock_delay_in effs conds tm : In tm (base_timings (mock_step effs conds)) -> In (tg_delay tm) (mock_delays (mock_step effs conds)).
Proof.
  unfold base_timings, mock_delays. simpl. intros H. apply in_app_or in H. apply in_or_app. destruct H as [H|H].
  - right. apply in_map. exact H.
  - left. apply in_flat_map in H. destruct H as (iv & Hiv & [<-|[<-|[]]]); apply in_flat_map; exists iv; split; auto; simpl; auto.
Qed.

Lemma mock_event_char eps effs conds e : 0 <= eps -> eps < 1 -> mock_end_ok (mock_step effs conds) = true ->
  In e (step_events eps 0 (mock_step effs conds)) ->
  exists x, Inq x (mock_delays (mock_step effs conds)) /\ shifted eps (e_time e) x.
Proof.
  intros He0 He Hok H. unfold step_events in H. simpl st_dur in H. apply in_map_iff in H. destruct H as (t & <- & Ht).
  apply filter_In in Ht. destruct Ht as [Ht Hnn]. simpl.
  apply negb_true_iff in Hnn. apply Qlt_bool_false in Hnn.
  destruct (action_timings_char _ _ _ _ Ht) as [(tm & Htm & Hsh)|[Hd _]]; [|discriminate].
  unfold mock_end_ok in Hok. rewrite forallb_forall in Hok. pose proof (Hok tm Htm) as Hk.
  unfold abs_time in Hsh. simpl st_start in Hsh. unfold from_start in Hk. destruct (tg_anchor tm).
  - exists (tg_delay tm). split; [apply Inq_in; apply mock_delay_in; exact Htm|].
    destruct Hsh as [Hs|[Hs|Hs]]; [left | right; left | right; right]; lra.
  - simpl in Hk. apply Qle_bool_iff in Hk. exfalso. destruct Hsh as [Hs|[Hs|Hs]]; lra.
Qed.

Lemma all_events_char eps effs conds plan e : 0 <= eps -> eps < 1 -> mock_end_ok (mock_step effs conds) = true ->
  In e (all_events eps (mock_step effs conds :: plan)) ->
  exists x, Inq x (0 :: mock_delays (mock_step effs conds) ++ flat_map step_times plan) /\ shifted eps (e_time e) x.
Proof.
  intros He0 He Hok H. unfold all_events in H. simpl in H. apply in_app_or in H. destruct H as [H|H].
  - destruct (mock_event_char _ _ _ _ He0 He Hok H) as (x & Hx & Hs). exists x. split; [|exact Hs].
    apply Inq_cons. right. apply Inq_app. left; exact Hx.
  - destruct (plan_event_char _ _ _ _ H) as (x & Hx & Hs). exists x. split; [|exact Hs].
    apply Inq_cons. right. apply Inq_app. right; exact Hx.
Qed.

(* ------------------------------------------------------------------ separation *)
Definition sep (eps u v : Q) : Prop := u == v \/ u + eps <= v \/ v + eps <= u.

Lemma shifted_sep eps G T u v x y :
  0 < eps -> 10 * eps <= G -> ssorted T -> gaps_ge G T ->
  Inq x T -> Inq y T -> shifted eps u x -> shifted eps v y -> sep eps u v.
Proof.
  intros He HG Hs Hg (x' & Hx' & Ex) (y' & Hy' & Ey) Hu Hv. unfold sep, shifted in *.
  destruct (Q_dec x' y') as [[Hlt|Hlt]|Heq].
  - pose proof (gaps_pairs G T Hs Hg x' y' Hx' Hy' Hlt). right. left.
    destruct Hu as [Hu|[Hu|Hu]], Hv as [Hv|[Hv|Hv]]; lra.
  - pose proof (gaps_pairs G T Hs Hg y' x' Hy' Hx' Hlt). right. right.
    destruct Hu as [Hu|[Hu|Hu]], Hv as [Hv|[Hv|Hv]]; lra.
  - destruct Hu as [Hu|[Hu|Hu]], Hv as [Hv|[Hv|Hv]];
      first [left; lra | right; left; lra | right; right; lra].
Qed.

Lemma sorted_sep_gap_ok eps : 0 < eps -> forall l, sorted_by_time l = true ->
  (forall a b, In a l -> In b l -> sep eps (e_time a) (e_time b)) -> gap_ok eps l = true.
Proof.
  intros He. induction l as [|a l IH]; intros Hs Hp; [reflexivity|]. destruct l as [|b l]; [reflexivity|].
  change (gap_ok eps (a :: b :: l)) with
    ((Qeq_bool (e_time a) (e_time b) || Qle_bool (e_time a + eps) (e_time b)) && gap_ok eps (b :: l)).
  apply andb_true_iff. split.
  - simpl in Hs. apply andb_true_iff in Hs. destruct Hs as [Hab _]. apply Qle_bool_iff in Hab.
    destruct (Hp a b (or_introl eq_refl) (or_intror (or_introl eq_refl))) as [H|[H|H]].
    + apply orb_true_iff. left. apply Qeq_bool_iff. exact H.
    + apply orb_true_iff. right. apply Qle_bool_iff. exact H.
    + lra.
  - apply IH; [exact (sorted_tail _ _ Hs)|]. intros x y Hx Hy. apply Hp; right; assumption.
Qed.

(* ------------------------------------------------------------------ the theorem *)
Lemma default_eps_facts xe : 0 < xe ->
  0 < choose_eps None (Some xe) /\ 10 * choose_eps None (Some xe) <= xe /\ choose_eps None (Some xe) < 1.
Proof.
  intros H. unfold choose_eps.
  pose proof (qmin_le_l (xe / 10) (1 # 1000)). pose proof (qmin_le_r (xe / 10) (1 # 1000)).
  assert (E : xe / 10 * 10 == xe) by (field).
  assert (Hp : 0 < xe / 10) by (apply Qlt_shift_div_l; lra).
  pose proof (qmin_pos (xe / 10) (1 # 1000) Hp eq_refl) as Hq.
  split; [exact Hq|]. split; [lra|]. assert (Hk : (1 # 1000) < 1) by reflexivity. lra.
Qed.

Lemma default_eps_gap_ok effs conds plan xe :
  mock_end_ok (mock_step effs conds) = true ->
  extract_epsilon (mock_step effs conds) plan = Some xe ->
  gap_ok (choose_eps None (Some xe)) (plan_events (choose_eps None (Some xe)) (mock_step effs conds) plan) = true.
Proof.
  intros Hok Hx. unfold extract_epsilon in Hx.
  set (raw := 0 :: mock_delays (mock_step effs conds) ++ flat_map step_times plan) in *.
  pose proof (qsorted_set_ssorted raw) as Hss.
  assert (H0 : Inq 0 (qsorted_set raw)) by (apply qsorted_set_Inq; apply Inq_cons; left; reflexivity).
  destruct (qsorted_set raw) as [|x r] eqn:ET; [discriminate|].
  destruct (Qeq_bool (last r x) 0) eqn:El; [discriminate|]. inversion Hx as [Hxe]. clear Hx.
  apply Qeq_bool_neq in El.
  assert (Hlast : 0 < last r x).
  { destruct H0 as (z & Hz & Ez). pose proof (ssorted_last_ge r x Hss z Hz) as Hzl.
    destruct (Q_dec 0 (last r x)) as [[Hd|Hd]|Hd]; [exact Hd | lra | exfalso; apply El; lra]. }
  assert (Hpos : 0 < xe) by (rewrite <- Hxe; apply min_gap_pos; assumption).
  assert (Hg : gaps_ge xe (x :: r)) by (rewrite <- Hxe; apply min_gap_gaps).
  destruct (default_eps_facts xe Hpos) as (He0 & He10 & He1).
  rewrite ?Hxe.
  set (eps := choose_eps None (Some xe)) in *.
  assert (Hge0 : 0 <= eps) by lra.
  apply sorted_sep_gap_ok; [exact He0 | apply sort_sorted|].
  intros a b Ha Hb. unfold plan_events in Ha, Hb. apply sort_in in Ha. apply sort_in in Hb.
  destruct (all_events_char _ _ _ _ _ Hge0 He1 Hok Ha) as (xa & Hxa & Hsa).
  destruct (all_events_char _ _ _ _ _ Hge0 He1 Hok Hb) as (xb & Hxb & Hsb).
  fold raw in Hxa, Hxb. apply qsorted_set_Inq in Hxa. apply qsorted_set_Inq in Hxb. rewrite ET in Hxa, Hxb.
  exact (shifted_sep eps xe (x :: r) _ _ xa xb He0 He10 Hss Hg Hxa Hxb Hsa Hsb).
Qed.

(* when every time of the plan is 0 (extract_epsilon = None) epsilon is 1/1000 and the events are at 0 or 1/1000 *)
Lemma default_eps_gap_ok_none effs conds plan :
  mock_end_ok (mock_step effs conds) = true ->
  extract_epsilon (mock_step effs conds) plan = None ->
  (forall q, In q (0 :: mock_delays (mock_step effs conds) ++ flat_map step_times plan) -> 0 <= q) ->
  gap_ok (choose_eps None None) (plan_events (choose_eps None None) (mock_step effs conds) plan) = true.
Proof.
  intros Hok Hx Hnn. unfold extract_epsilon in Hx.
  set (raw := 0 :: mock_delays (mock_step effs conds) ++ flat_map step_times plan) in *.
  pose proof (qsorted_set_ssorted raw) as Hss.
  assert (Hall : forall q, Inq q raw -> q == 0).
  { intros q Hq. pose proof (qsorted_set_Inq q raw Hq) as HqT.
    destruct (qsorted_set raw) as [|x r] eqn:ET; [destruct HqT as (z & [] & _)|].
    destruct (Qeq_bool (last r x) 0) eqn:El; [|discriminate]. apply Qeq_bool_iff in El.
    destruct HqT as (z & Hz & Ez). pose proof (ssorted_last_ge r x Hss z Hz).
    destruct Hq as (w & Hw & Ew). pose proof (Hnn w Hw). lra. }
  unfold choose_eps. apply sorted_sep_gap_ok; [reflexivity | apply sort_sorted|].
  intros a b Ha Hb. unfold plan_events in Ha, Hb. apply sort_in in Ha. apply sort_in in Hb.
  assert (He1 : (1 # 1000) < 1) by reflexivity.
  assert (Hge0 : 0 <= (1 # 1000)) by (unfold Qle; simpl; lia).
  destruct (all_events_char _ _ _ _ _ Hge0 He1 Hok Ha) as (xa & Hxa & Hsa).
  destruct (all_events_char _ _ _ _ _ Hge0 He1 Hok Hb) as (xb & Hxb & Hsb).
  pose proof (Hall xa Hxa). pose proof (Hall xb Hxb). unfold sep, shifted in *.
  assert ((0 < 1 # 1000)) by reflexivity.
  destruct Hsa as [Hu|[Hu|Hu]], Hsb as [Hv|[Hv|Hv]];
    first [left; lra | right; left; lra | right; right; lra].
Qed.

(* the forward direction for the default epsilon: no gap hypothesis left *)
Lemma forward_conversion_default_eps effs conds plan edges xe :
  mock_end_ok (mock_step effs conds) = true ->
  extract_epsilon (mock_step effs conds) plan = Some xe ->
  times_nonneg plan = true ->
  let eps := choose_eps None (Some xe) in
  edges_forward (length (plan_events eps (mock_step effs conds) plan)) edges = true ->
  let cs := flatten (conv_constraints eps (mock_step effs conds) plan edges) in
  (forall c, In c cs -> sat_pcon (orig_time plan) c) /\
  solution (orig_time plan) (init_adds cs) /\
  (exists s, convert_to_stn (Stn_termination.enough_fuel (init_adds cs)) eps (mock_step effs conds) plan edges = Some s) /\
  (forall fuel s, convert_to_stn fuel eps (mock_step effs conds) plan edges = Some s ->
     check_stn s = true /\ forall c, In c (flatten (plan_constraints s)) -> sat_pcon (orig_time plan) c).
Proof.
  intros Hok Hx Hnn eps Hf. apply forward_conversion; [exact Hnn | | exact Hf].
  apply default_eps_gap_ok; assumption.
Qed.
