(* Proofs about Model/PddlExpr.v: the number codec, the round trip parse (print e) = norm e, and norm preserves eval. *)
From Coq Require Import List ZArith NArith QArith Qcanon Bool String Ascii Lia.
Import ListNotations.
Require Import UPV.Core.Expr UPV.Core.Eval UPV.Proofs.Eval_lemmas UPV.Model.PddlExpr.
Local Open Scope string_scope.

(* ================================================================== numbers *)
Lemma digit_ok d : (d < 10)%N ->
  digit_of (digit_char d) = Some d /\ Ascii.eqb (digit_char d) "." = false /\ Ascii.eqb (digit_char d) "-" = false
  /\ Ascii.eqb (digit_char d) "+" = false /\ Ascii.eqb (digit_char d) "?" = false.
Proof.
  intro H.
  assert (d = 0 \/ d = 1 \/ d = 2 \/ d = 3 \/ d = 4 \/ d = 5 \/ d = 6 \/ d = 7 \/ d = 8 \/ d = 9)%N as C by lia.
  repeat (destruct C as [C|C]; [subst d; vm_compute; auto|]). subst d; vm_compute; auto.
Qed.

Lemma pow10_pos k : (0 < pow10 k)%N.
Proof. induction k; cbn [pow10]; lia. Qed.

Lemma show_N_fuel_app fuel : forall n acc t, show_N_fuel fuel n acc ++ t = show_N_fuel fuel n (acc ++ t).
Proof.
  induction fuel as [|f IH]; intros n acc t; cbn [show_N_fuel]; [reflexivity|].
  destruct (n <? 10)%N; [reflexivity|]. rewrite IH. reflexivity.
Qed.

Lemma show_N_fuel_spec fuel : forall n acc, (n < pow10 fuel)%N ->
  exists k, forall a, num_ip a (show_N_fuel fuel n acc) = num_ip (a * pow10 k + n) acc.
Proof.
  induction fuel as [|f IH]; intros n acc Hn.
  - cbn [pow10] in Hn. exists 0%nat. intro a. cbn [show_N_fuel pow10]. f_equal. lia.
  - cbn [show_N_fuel]. destruct (N.ltb_spec n 10) as [Hlt|Hge].
    + exists 1%nat. intro a. rewrite N.mod_small by lia. cbn [num_ip].
      destruct (digit_ok n Hlt) as (D1 & D2 & _). rewrite D1, D2. f_equal. cbn [pow10]. lia.
    + cbn [pow10] in Hn.
      assert (n / 10 < pow10 f)%N as Hq by (apply N.div_lt_upper_bound; lia).
      destruct (IH (n / 10)%N (String (digit_char (n mod 10)) acc) Hq) as [k Hk].
      exists (S k). intro a. rewrite Hk. cbn [num_ip].
      assert (n mod 10 < 10)%N as Hm by (apply N.mod_lt; lia).
      destruct (digit_ok _ Hm) as (D1 & D2 & _). rewrite D1, D2. f_equal. cbn [pow10].
      pose proof (N.div_mod n 10). lia.
Qed.

Lemma pow10_ge_pow2 k : (2 ^ N.of_nat k <= pow10 k)%N.
Proof.
  induction k as [|k IH]; [cbn; lia|]. rewrite Nat2N.inj_succ, N.pow_succ_r'. cbn [pow10]. lia.
Qed.

Lemma show_N_fuel_enough n : (n < pow10 (S (N.to_nat (N.log2 n))))%N.
Proof.
  destruct (N.eq_dec n 0) as [->|Hn]; [cbn; lia|].
  assert (0 < n)%N as Hp by lia. destruct (N.log2_spec n Hp) as [_ H2].
  eapply N.lt_le_trans; [exact H2|]. etransitivity; [|apply pow10_ge_pow2].
  rewrite Nat2N.inj_succ, N2Nat.id. reflexivity.
Qed.

Lemma show_N_spec n t : exists k, forall a, num_ip a (show_N n ++ t) = num_ip (a * pow10 k + n) t.
Proof.
  unfold show_N. rewrite show_N_fuel_app. cbn [append]. apply show_N_fuel_spec, show_N_fuel_enough.
Qed.

Lemma show_N_fuel_head fuel : forall n acc, fuel <> O ->
  exists d r, (d < 10)%N /\ show_N_fuel fuel n acc = String (digit_char d) r.
Proof.
  induction fuel as [|f IH]; intros n acc Hf; [congruence|]. cbn [show_N_fuel].
  assert (n mod 10 < 10)%N as Hm by (apply N.mod_lt; lia).
  destruct (n <? 10)%N; [eauto|]. destruct f as [|f']; [cbn [show_N_fuel]; eauto|]. apply IH. congruence.
Qed.

Lemma show_N_head n t : exists d r, (d < 10)%N /\ show_N n ++ t = String (digit_char d) r.
Proof.
  unfold show_N. rewrite show_N_fuel_app. apply show_N_fuel_head. congruence.
Qed.

Lemma frac_digits_spec k : forall r acc a,
  digits_val a (frac_digits k r acc) = digits_val (a * pow10 k + r mod pow10 k) acc.
Proof.
  induction k as [|k IH]; intros r acc a; cbn [frac_digits pow10].
  - rewrite N.mod_1_r. f_equal. lia.
  - rewrite IH. cbn [digits_val].
    assert (r mod 10 < 10)%N as Hm by (apply N.mod_lt; lia).
    destruct (digit_ok _ Hm) as (D1 & _). rewrite D1. f_equal.
    pose proof (pow10_pos k). rewrite (N.mod_mul_r r 10 (pow10 k)) by lia. lia.
Qed.

Lemma frac_digits_length k : forall r acc, String.length (frac_digits k r acc) = (k + String.length acc)%nat.
Proof.
  induction k as [|k IH]; intros r acc; cbn [frac_digits]; [reflexivity|]. rewrite IH. cbn [String.length]. lia.
Qed.

(* a numeric text never starts with "?" *)
Lemma parse_number_not_q s q : parse_number s = Some q -> starts_q s = false.
Proof.
  destruct s as [|c r]; [reflexivity|]. cbn [starts_q]. destruct (Ascii.eqb_spec c "?") as [->|]; [|reflexivity].
  cbn. destruct (has_digit r); discriminate.
Qed.

Lemma mkq_eq (neg : bool) M K (q : Qc) :
  ((if neg then - Z.of_N M else Z.of_N M) * Zpos (Qden (this q)) = Qnum (this q) * Z.of_N (pow10 K))%Z ->
  mkq neg M K = q.
Proof.
  intro H. apply Qc_is_canon. unfold mkq. cbn [this Q2Qc]. rewrite Qred_correct.
  unfold Qeq. cbn [Qnum Qden]. pose proof (pow10_pos K).
  rewrite Z2Pos.id by lia. exact H.
Qed.

(* shape of the texts the printer produces *)
Lemma parse_number_shape (neg : bool) ip tail :
  parse_number ((if neg then String "-" (show_N ip ++ tail) else show_N ip ++ tail)) =
  (let body := show_N ip ++ tail in
   match num_ip 0 body with
   | Some (i, None) => Some (mkq neg i 0)
   | Some (i, Some fr) => match digits_val 0 fr with
                          | Some f => Some (mkq neg (i * pow10 (String.length fr) + f) (String.length fr))
                          | None => None end
   | None => None end).
Proof.
  cbv zeta. destruct (show_N_head ip tail) as (d & r & Hd & Heq).
  destruct (digit_ok d Hd) as (D1 & D2 & D3 & D4 & D5).
  destruct neg.
  - cbn [parse_number]. change (Ascii.eqb "-" "-") with true. cbn [orb].
    rewrite Heq at 1. cbn [has_digit]. rewrite D1. reflexivity.
  - rewrite Heq at 1. cbn [parse_number]. rewrite D3, D4. cbn [orb]. cbn [has_digit]. rewrite D1.
    rewrite <- Heq. reflexivity.
Qed.

Lemma parse_number_show_Z z : parse_number (show_Z z) = Some (Q2Qc (inject_Z z)).
Proof.
  unfold show_Z.
  assert (forall n : N, show_N n = show_N n ++ "") as E0.
  { intro n. induction (show_N n) as [|c s IH]; cbn [append]; [reflexivity|]. f_equal. exact IH. }
  rewrite (E0 (Z.abs_N z)).
  pose proof (parse_number_shape (z <? 0)%Z (Z.abs_N z) "") as P.
  destruct (Z.ltb_spec z 0) as [Hn|Hn]; rewrite P; cbv zeta;
    destruct (show_N_spec (Z.abs_N z) "") as [k Hk]; rewrite Hk; cbn [num_ip]; f_equal;
    apply mkq_eq; cbn [Q2Qc this]; rewrite (Qred_identity (inject_Z z)) by (cbn; apply Z.gcd_1_r);
    cbn [inject_Z Qnum Qden pow10]; rewrite N.mul_0_l, N.add_0_l, N2Z.inj_abs_N; lia.
Qed.

Lemma num_node_int z : num_node (Q2Qc (inject_Z z)) = EInt z.
Proof.
  unfold num_node. cbn [Q2Qc this]. rewrite (Qred_identity (inject_Z z)) by (cbn; apply Z.gcd_1_r).
  reflexivity.
Qed.

Lemma find_scale_spec fuel : forall k d r, find_scale fuel k d = Some r -> (pow10 r mod d = 0)%N.
Proof.
  induction fuel as [|f IH]; intros k d r; cbn [find_scale];
    destruct (N.eqb_spec (pow10 k mod d) 0) as [E|E]; intro H; try (inversion H; subst; exact E); try discriminate.
  eapply IH; eauto.
Qed.

Lemma parse_number_show_real q s : show_real q = Some s -> parse_number s = Some q.
Proof.
  unfold show_real. remember (pow10 16) as P16 eqn:HP16. clear HP16. destruct (find_scale MAX_SCALE 0 (N.pos (Qden (this q)))) as [k|] eqn:Hk; [|discriminate].
  apply find_scale_spec in Hk.
  set (n := Qnum (this q)) in *. set (d := N.pos (Qden (this q))) in *.
  set (m := (Z.abs_N n * (pow10 k / d))%N).
  destruct (strip10 400 m <? pow10 10)%N; [|discriminate].
  intro H. inversion H as [Hs]. clear H Hs.
  assert (pow10 k = d * (pow10 k / d))%N as Hdiv by (apply N.div_exact; [unfold d; lia|exact Hk]).
  assert (forall body, (if (n <? 0)%Z then String "-" body else body) = (if (n <? 0)%Z then String "-" body else body)) as _ by reflexivity.
  pose proof (pow10_pos k) as Hpk.
  assert (Hsign : ((if (n <? 0)%Z then - Z.of_N (Z.abs_N n) else Z.of_N (Z.abs_N n)) = n)%Z).
  { rewrite N2Z.inj_abs_N. destruct (Z.ltb_spec n 0); lia. }
  assert (Hfin : forall M K, (Z.of_N M * Z.of_N d = Z.of_N (Z.abs_N n) * Z.of_N (pow10 K))%Z ->
                 mkq (n <? 0)%Z M K = q).
  { intros M K HM. apply mkq_eq. fold n. change (Z.pos (Qden (this q))) with (Z.of_N d).
    rewrite <- Hsign at 2. destruct (n <? 0)%Z; lia. }
  destruct k as [|k'].
  - (* integral value *)
    cbn [pow10] in *. rewrite N.div_1_r. destruct (m <? P16)%N.
    + rewrite (parse_number_shape (n <? 0)%Z m ".0"). cbv zeta.
      destruct (show_N_spec m ".0") as [j Hj]. rewrite Hj. cbn [num_ip]. change (Ascii.eqb "." ".") with true. cbn iota.
      cbn [digits_val String.length pow10]. change (digit_of "0") with (Some 0%N). cbn iota.
      f_equal. apply Hfin. cbn [pow10]. unfold m. rewrite Hdiv at 1.
      assert (d = 1)%N as Hd1.
      { destruct (N.eq_dec d 1) as [|Hne]; [assumption|]. rewrite N.mod_small in Hk by (unfold d in *; lia). discriminate. }
      rewrite Hd1 in *. rewrite N.div_1_r. lia.
    + assert (forall x : N, show_N x = show_N x ++ "") as E0.
      { intro x. induction (show_N x) as [|c s' IH]; cbn [append]; [reflexivity|]. f_equal. exact IH. }
      rewrite (E0 m). rewrite (parse_number_shape (n <? 0)%Z m ""). cbv zeta.
      destruct (show_N_spec m "") as [j Hj]. rewrite Hj. cbn [num_ip]. f_equal. apply Hfin. cbn [pow10].
      assert (d = 1)%N as Hd1.
      { destruct (N.eq_dec d 1) as [|Hne]; [assumption|]. rewrite N.mod_small in Hk by (unfold d in *; lia). discriminate. }
      unfold m. rewrite Hd1. rewrite N.div_1_r. lia.
  - set (k := S k') in *.
    rewrite (parse_number_shape (n <? 0)%Z (m / pow10 k) (String "." (frac_digits k m ""))). cbv zeta.
    destruct (show_N_spec (m / pow10 k) (String "." (frac_digits k m ""))) as [j Hj]. rewrite Hj.
    cbn [num_ip]. change (Ascii.eqb "." ".") with true. cbn iota.
    rewrite frac_digits_spec, frac_digits_length. cbn [digits_val String.length]. rewrite Nat.add_0_r.
    f_equal. apply Hfin.
    rewrite !N.mul_0_l, !N.add_0_l.
    assert ((m / pow10 k) * pow10 k + m mod pow10 k = m)%N as Hm.
    { pose proof (N.div_mod m (pow10 k)). lia. }
    rewrite Hm. unfold m. rewrite Hdiv at 2. lia.
Qed.

(* ================================================================== round trip *)
Section RoundTrip.
  Variable nm : naming.
  Variable E : env.
  (* the renaming is consistent: what the writer's mangling (PDDLWriter._get_mangled_name) and the declarations written
     around the expression guarantee; C18's main check covers that part on real problems *)
  Hypothesis H_fl : forall f, e_fl E (nm_fl nm f) = Some f.            (* a fluent is found under its name *)
  Hypothesis H_flkw : forall f, is_kw (nm_fl nm f) = false.            (* a fluent name is not an operator keyword *)
  Hypothesis H_obj : forall o, e_obj E (nm_obj nm o) = Some o.         (* an object is found under its name *)
  Hypothesis H_obj_fl : forall o, e_fl E (nm_obj nm o) = None.         (* an object name is not a fluent name *)
  Hypothesis H_obj_q : forall o, starts_q (nm_obj nm o) = false.       (* object names do not start with "?" *)
  Hypothesis H_par : forall p, e_par E (nm_par nm p) = Some p.         (* a parameter is found under its name *)
  Hypothesis H_var : forall v, e_var E (nm_var nm v) = Some v.         (* variables are identified by their names *)
  Hypothesis H_par_var : forall p v, nm_par nm p <> nm_var nm v.       (* parameters and variables have different names *)
  Hypothesis H_ty : forall t, e_ty E (nm_ty nm t) = Some t.            (* types_map has every user type *)
  Hypothesis H_ty_q : forall t, starts_q (nm_ty nm t) = false.         (* type names do not start with "?" *)
  Hypothesis H_num : forall s q, parse_number s = Some q -> e_fl E s = None /\ e_obj E s = None.
                                                                       (* no fluent / object is named like a number *)

  Lemma nm_var_inj v w : nm_var nm v = nm_var nm w -> v = w.
  Proof. intro H. pose proof (H_var v) as A. rewrite H, H_var in A. congruence. Qed.

  Lemma var_eqb v w : (nm_var nm v =? nm_var nm w) = (v =? w)%N.
  Proof.
    destruct (String.eqb_spec (nm_var nm v) (nm_var nm w)) as [e|e]; destruct (N.eqb_spec v w) as [e'|e']; auto.
    - apply nm_var_inj in e. contradiction.
    - subst. contradiction.
  Qed.

  Lemma assoc_scope v sc : assoc_s (nm_var nm v) (scope_names nm sc) = lookupNN v sc.
  Proof.
    induction sc as [|[w t] sc IH]; [reflexivity|]. cbn [scope_names map assoc_s lookupNN fst snd].
    rewrite var_eqb. destruct (v =? w)%N; [reflexivity|]. exact IH.
  Qed.

  Lemma assoc_scope_par p sc : assoc_s (nm_par nm p) (scope_names nm sc) = None.
  Proof.
    induction sc as [|[w t] sc IH]; [reflexivity|]. cbn [scope_names map assoc_s fst snd].
    destruct (String.eqb_spec (nm_par nm p) (nm_var nm w)) as [e|e]; [apply H_par_var in e; contradiction|]. exact IH.
  Qed.

  Lemma not_kw_minus h : is_kw h = false -> (h =? "-") = false /\ classify h = KOther.
  Proof.
    unfold is_kw. intro H. split.
    - destruct (String.eqb_spec h "-") as [->|]; [discriminate H|reflexivity].
    - destruct (classify h); try discriminate H. reflexivity.
  Qed.

  (* ---- unfolding equations of [parse] ---- *)
  Lemma parse_op h o rest vars :
    classify h = KOp o -> (h =? "-") && Nat.eqb (List.length rest) 1 = false ->
    parse E vars (SList (Atom h :: rest)) =
    match sequence (map (parse E vars) rest) with Some args => apply_op o args | None => None end.
  Proof. intros Hc Hm. cbn [parse]. rewrite Hm, Hc. reflexivity. Qed.

  Lemma parse_fl f rest vars :
    parse E vars (SList (Atom (nm_fl nm f) :: rest)) =
    match sequence (map (parse E vars) rest) with Some args => Some (EFluent f args) | None => None end.
  Proof.
    destruct (not_kw_minus _ (H_flkw f)) as [Hm Hc]. cbn [parse]. rewrite Hm, Hc, H_fl. reflexivity.
  Qed.

  Lemma parse_quant (ex : bool) vl body vars :
    parse E vars (SList [Atom (if ex then "exists" else "forall"); SList vl; body]) =
    if forallb is_atom vl then
      match parse_vars E [] vl with
      | Some nv => match parse E (nv ++ vars)%list body with Some b => mk_quant E ex nv b | None => None end
      | None => None
      end
    else None.
  Proof. destruct ex; reflexivity. Qed.

  Lemma print_vars_atoms vs : forallb is_atom (print_vars nm vs) = true.
  Proof. induction vs as [|[v t] vs IH]; [reflexivity|]. cbn. exact IH. Qed.

  Lemma parse_print_vars vs : parse_vars E [] (print_vars nm vs) = Some (scope_names nm vs).
  Proof.
    induction vs as [|[v t] vs IH]; [reflexivity|].
    cbn [print_vars flat_map app fst snd]. fold (print_vars nm vs).
    cbn [parse_vars qvar starts_q tail_s]. change (Ascii.eqb "?" "?") with true. cbn iota.
    cbn [app parse_vars starts_q]. change (Ascii.eqb "-" "?") with false. cbn iota.
    change ("-" =? "-") with true. cbn iota. rewrite H_ty_q. unfold typed at 1. rewrite H_ty, IH. reflexivity.
  Qed.

  Lemma mem_scope v l : mem_s (nm_var nm v) (map (nm_var nm) l) = memN v l.
  Proof.
    induction l as [|w l IH]; [reflexivity|]. cbn [map mem_s memN existsb]. rewrite var_eqb.
    unfold mem_s, memN in IH. rewrite IH. reflexivity.
  Qed.

  Lemma nodup_scope vs : nodup_s (map fst (scope_names nm vs)) = nodupN (map fst vs).
  Proof.
    unfold scope_names. rewrite map_map. cbn [fst]. rewrite <- (map_map fst (nm_var nm)).
    induction (map fst vs) as [|v l IH]; [reflexivity|]. cbn [map nodup_s nodupN]. rewrite mem_scope, IH. reflexivity.
  Qed.

  Lemma seq_scope vs :
    sequence (map (fun p : string * N => option_map (fun v => (v, snd p)) (e_var E (fst p))) (scope_names nm vs)) = Some vs.
  Proof.
    induction vs as [|[v t] vs IH]; [reflexivity|]. cbn [scope_names map fst snd sequence]. rewrite H_var.
    cbn [option_map]. unfold scope_names in IH. rewrite IH. reflexivity.
  Qed.

  Lemma mk_quant_scope ex vs b : vs <> [] -> nodupN (map fst vs) = true ->
    mk_quant E ex (scope_names nm vs) b = Some (if ex then EExists vs b else EForall vs b).
  Proof.
    intros Hne Hnd. unfold mk_quant. destruct vs as [|p vs]; [congruence|].
    rewrite nodup_scope, Hnd, seq_scope. reflexivity.
  Qed.

  (* ---- lists ---- *)
  Definition RT (e : expr) : Prop :=
    forall sc, pddl_ok sc e = true ->
    exists s, print nm e = Some s /\ parse E (scope_names nm sc) s = Some (norm e).

  Lemma rt_list l : Forall RT l -> forall sc, forallb (pddl_ok sc) l = true ->
    exists ss, sequence (map (print nm) l) = Some ss /\
               sequence (map (parse E (scope_names nm sc)) ss) = Some (map norm l) /\
               List.length ss = List.length l.
  Proof.
    induction 1 as [|x l Hx Hl IH]; intros sc Hok.
    - exists []. auto.
    - cbn [forallb] in Hok. apply andb_true_iff in Hok as [H1 H2].
      destruct (Hx sc H1) as (s & P1 & P2). destruct (IH sc H2) as (ss & Q1 & Q2 & Q3).
      exists (s :: ss). cbn [map sequence List.length]. rewrite P1, Q1, P2, Q2, Q3. auto.
  Qed.

  Lemma seq_cons_inv {A} (x : option A) r a l : sequence (x :: r) = Some (a :: l) -> x = Some a /\ sequence r = Some l.
  Proof. cbn [sequence]. destruct x; [|discriminate]. destruct (sequence r); [|discriminate]. intro H. inversion H. auto. Qed.

  Lemma parse_chain op o mk vars :
    classify op = KOp o -> (op =? "-") = false ->
    (forall x y, apply_op o [y; x] = Some (mk [y; x])) ->
    forall r a ea er, parse E vars a = Some ea -> sequence (map (parse E vars) r) = Some er ->
    parse E vars (fold_left (fun x y => SList [Atom op; y; x]) r a) = Some (fold_left (fun x y => mk [y; x]) er ea).
  Proof.
    intros Hc Hm Hap. induction r as [|y r IH]; intros a ea er Ha Hr.
    - cbn in Hr. inversion Hr. subst. exact Ha.
    - cbn [map sequence] in Hr. destruct (parse E vars y) as [ey|] eqn:Hy; [|discriminate].
      destruct (sequence (map (parse E vars) r)) as [er'|] eqn:Hr'; [|discriminate].
      inversion Hr. subst er. cbn [fold_left]. apply IH; [|reflexivity].
      rewrite (parse_op op o) by (rewrite ?Hm; auto). cbn [map sequence]. rewrite Hy, Ha. apply Hap.
  Qed.

  Ltac ands H := repeat (apply andb_true_iff in H; let H' := fresh H in destruct H as [H H']).

  Lemma rt_un op o a mk sc :
    classify op = KOp o -> (op =? "-") = false -> (forall x, apply_op o [x] = Some (mk x)) ->
    RT a -> pddl_ok sc a = true ->
    exists s, match print nm a with Some x => Some (SList [Atom op; x]) | None => None end = Some s /\
              parse E (scope_names nm sc) s = Some (mk (norm a)).
  Proof.
    intros Hc Hm Hap Ha Hok. destruct (Ha sc Hok) as (x & P1 & P2). rewrite P1. eexists; split; [reflexivity|].
    rewrite (parse_op op o) by (rewrite ?Hm; auto). cbn [map sequence]. rewrite P2. apply Hap.
  Qed.

  Lemma rt_bin op o a b mk sc :
    classify op = KOp o -> (forall x y, apply_op o [x; y] = Some (mk x y)) ->
    RT a -> RT b -> pddl_ok sc a = true -> pddl_ok sc b = true ->
    exists s, match print nm a, print nm b with Some x, Some y => Some (SList [Atom op; x; y]) | _, _ => None end = Some s /\
              parse E (scope_names nm sc) s = Some (mk (norm a) (norm b)).
  Proof.
    intros Hc Hap Ha Hb Hoa Hob. destruct (Ha sc Hoa) as (x & P1 & P2). destruct (Hb sc Hob) as (y & Q1 & Q2).
    rewrite P1, Q1. eexists; split; [reflexivity|].
    rewrite (parse_op op o) by (auto; cbn [List.length Nat.eqb]; apply andb_false_r).
    cbn [map sequence]. rewrite P2, Q2. apply Hap.
  Qed.

  Lemma ge2_len {A B} (l : list A) (m : list B) : List.length m = List.length l -> ge2 l = true -> exists a b r, m = a :: b :: r.
  Proof.
    destruct l as [|? [|? ?]]; try discriminate. destruct m as [|x [|y r]]; try discriminate. eauto.
  Qed.

  Lemma rt_quant (ex : bool) vs a sc : RT a ->
    match vs with [] => false | _ => nodupN (map fst vs) && pddl_ok (vs ++ sc) a end = true ->
    exists s, match print nm a with
              | Some x => Some (SList [Atom (if ex then "exists" else "forall"); SList (print_vars nm vs); x])
              | None => None end = Some s /\
              parse E (scope_names nm sc) s = Some (if ex then EExists vs (norm a) else EForall vs (norm a)).
  Proof.
    intros Ha Hok. assert (vs <> []) as Hne by (destruct vs; [discriminate|congruence]).
    assert (nodupN (map fst vs) && pddl_ok (vs ++ sc) a = true) as Hok' by (destruct vs; [congruence|exact Hok]).
    apply andb_true_iff in Hok' as [Hnd Hb]. destruct (Ha _ Hb) as (x & P1 & P2). rewrite P1.
    eexists; split; [reflexivity|]. rewrite parse_quant, print_vars_atoms, parse_print_vars.
    unfold scope_names in P2. rewrite map_app in P2. fold (scope_names nm vs) (scope_names nm sc) in P2.
    rewrite P2. apply mk_quant_scope; assumption.
  Qed.

  Theorem roundtrip_sc : forall e, RT e.
  Proof.
    induction e using expr_ind'; intros sc Hok; cbn [pddl_ok] in Hok; try discriminate Hok.
    - (* EInt *) eexists; split; [reflexivity|]. cbn [parse]. unfold parse_atom.
      pose proof (parse_number_show_Z z) as Hn. rewrite (parse_number_not_q _ _ Hn).
      destruct (H_num _ _ Hn) as [A B]. rewrite A, B, Hn. cbn [option_map norm]. rewrite num_node_int. reflexivity.
    - (* EReal *) cbn [print]. destruct (show_real q) as [s|] eqn:Hs; [|discriminate]. eexists; split; [reflexivity|].
      cbn [parse]. unfold parse_atom. pose proof (parse_number_show_real _ _ Hs) as Hn.
      rewrite (parse_number_not_q _ _ Hn). destruct (H_num _ _ Hn) as [A B]. rewrite A, B, Hn. reflexivity.
    - (* EObj *) eexists; split; [reflexivity|]. cbn [parse]. unfold parse_atom.
      rewrite H_obj_q, H_obj_fl, H_obj. reflexivity.
    - (* EParam *) eexists; split; [reflexivity|]. cbn [parse]. unfold parse_atom, qpar. cbn [starts_q tail_s].
      change (Ascii.eqb "?" "?") with true. cbn iota. rewrite assoc_scope_par, H_par. reflexivity.
    - (* EVar *) eexists; split; [reflexivity|]. cbn [parse]. unfold parse_atom, qvar. cbn [starts_q tail_s].
      change (Ascii.eqb "?" "?") with true. cbn iota. rewrite assoc_scope, H_var.
      destruct (lookupNN v sc) as [ty'|]; [|discriminate]. apply N.eqb_eq in Hok. subst. reflexivity.
    - (* EFluent *) destruct (rt_list _ H sc Hok) as (ss & Q1 & Q2 & _). cbn [print]. rewrite Q1.
      eexists; split; [reflexivity|]. rewrite parse_fl, Q2. reflexivity.
    - (* EAnd *) ands Hok. destruct (rt_list _ H sc Hok0) as (ss & Q1 & Q2 & Q3). cbn [print]. rewrite Q1.
      destruct (ge2_len l ss Q3 Hok) as (a & b & r & ->). eexists; split; [reflexivity|].
      rewrite (parse_op "and" OAnd) by reflexivity. rewrite Q2. reflexivity.
    - (* EOr *) ands Hok. destruct (rt_list _ H sc Hok0) as (ss & Q1 & Q2 & Q3). cbn [print]. rewrite Q1.
      destruct (ge2_len l ss Q3 Hok) as (a & b & r & ->). eexists; split; [reflexivity|].
      rewrite (parse_op "or" OOr) by reflexivity. rewrite Q2. reflexivity.
    - (* ENot *) ands Hok. cbn [print norm]. apply (rt_un "not" ONot e mkNot); auto.
    - (* EImplies *) ands Hok. cbn [print norm]. apply (rt_bin "imply" OImply e1 e2 EImplies); auto.
    - (* EIff *) ands Hok. destruct (IHe1 sc Hok) as (x & P1 & P2). destruct (IHe2 sc Hok0) as (y & R1 & R2).
      cbn [print norm]. rewrite P1, R1. eexists; split; [reflexivity|].
      rewrite (parse_op "and" OAnd) by reflexivity. cbn [map sequence].
      rewrite !(parse_op "imply" OImply) by reflexivity. cbn [map sequence]. rewrite P2, R2. reflexivity.
    - (* EExists *) cbn [print norm]. apply (rt_quant true); assumption.
    - (* EForall *) cbn [print norm]. apply (rt_quant false); assumption.
    - (* EPlus *) ands Hok. destruct (rt_list _ H sc Hok0) as (ss & Q1 & Q2 & Q3). cbn [print norm]. rewrite Q1.
      destruct (ge2_len l ss Q3 Hok) as (a & b & r & ->). cbn [chain]. eexists; split; [reflexivity|].
      destruct l as [|la [|lb lr]]; try discriminate. cbn [map] in Q2. apply seq_cons_inv in Q2 as [Ea Er].
      exact (parse_chain "+" OPlus EPlus _ eq_refl eq_refl (fun x y => eq_refl) (b :: r) a _ _ Ea Er).
    - (* EMinus *) ands Hok. cbn [print norm]. apply (rt_bin "-" OMinus e1 e2 EMinus); auto.
    - (* ETimes *) ands Hok. destruct (rt_list _ H sc Hok0) as (ss & Q1 & Q2 & Q3). cbn [print norm]. rewrite Q1.
      destruct (ge2_len l ss Q3 Hok) as (a & b & r & ->). cbn [chain]. eexists; split; [reflexivity|].
      destruct l as [|la [|lb lr]]; try discriminate. cbn [map] in Q2. apply seq_cons_inv in Q2 as [Ea Er].
      exact (parse_chain "*" OTimes ETimes _ eq_refl eq_refl (fun x y => eq_refl) (b :: r) a _ _ Ea Er).
    - (* EDiv *) ands Hok. cbn [print norm]. apply (rt_bin "/" ODiv e1 e2 EDiv); auto.
    - (* ELe *) ands Hok. cbn [print norm]. apply (rt_bin "<=" OLe e1 e2 ELe); auto.
    - (* ELt *) ands Hok. cbn [print norm]. apply (rt_bin "<" OLt e1 e2 ELt); auto.
    - (* EEquals *) ands Hok. cbn [print norm]. apply (rt_bin "=" OEq e1 e2 EEquals); auto.
  Qed.

  Theorem roundtrip e : pddl_ok [] e = true ->
    exists s, print nm e = Some s /\ parse E [] s = Some (norm e).
  Proof. intro H. exact (roundtrip_sc e [] H). Qed.
End RoundTrip.

(* ================================================================== a concrete naming that satisfies every hypothesis *)
Definition pref_nm (c : ascii) (n : N) : string := String c (show_N n).
Definition pref_env (c : ascii) (s : string) : option N :=
  match s with
  | String c' r => if Ascii.eqb c' c then match num_ip 0 r with Some (n, None) => Some n | _ => None end else None
  | EmptyString => None
  end.

Lemma app_empty (s : string) : s ++ "" = s.
Proof. induction s as [|c s IH]; cbn [append]; [reflexivity|]. f_equal. exact IH. Qed.

Lemma pref_ok c n : pref_env c (pref_nm c n) = Some n.
Proof.
  unfold pref_env, pref_nm. rewrite Ascii.eqb_refl. destruct (show_N_spec n "") as [k Hk].
  rewrite app_empty in Hk. rewrite Hk, N.mul_0_l, N.add_0_l. reflexivity.
Qed.

Lemma pref_other c c' r : c' <> c -> pref_env c (String c' r) = None.
Proof. intro H. unfold pref_env. destruct (Ascii.eqb_spec c' c); [contradiction|reflexivity]. Qed.

Definition ex_nm : naming :=
  {| nm_fl := pref_nm "x"; nm_obj := pref_nm "b"; nm_par := pref_nm "p"; nm_var := pref_nm "v"; nm_ty := pref_nm "t" |}.
Definition ex_env : env :=
  {| e_fl := pref_env "x"; e_obj := pref_env "b"; e_par := pref_env "p"; e_var := pref_env "v"; e_ty := pref_env "t" |}.

Lemma ex_num s q : parse_number s = Some q -> e_fl ex_env s = None /\ e_obj ex_env s = None.
Proof.
  destruct s as [|c r]; [discriminate|]. intro H. cbn [ex_env e_fl e_obj].
  assert (forall l : ascii, (l = "x" \/ l = "b")%char -> c <> l) as Hc.
  { intros l Hl e. subst c. destruct Hl as [-> | ->]; cbn in H; destruct (has_digit _); discriminate. }
  split; apply pref_other, Hc; auto.
Qed.

Definition ex_roundtrip :=
  roundtrip ex_nm ex_env (pref_ok "x") (fun f => eq_refl) (pref_ok "b") (fun o => eq_refl) (fun o => eq_refl)
            (pref_ok "p") (pref_ok "v") (fun p v (H : pref_nm "p" p = pref_nm "v" v) => ltac:(discriminate H))
            (pref_ok "t") (fun t => eq_refl) ex_num.

(* ================================================================== norm preserves the meaning *)
Section NormSem.
  Variable qm : bool.   (* quantifier mode of Core/Eval: false = strict, true = short-circuit; the result holds for both *)

  Lemma zq_integral (q : Qc) : (Zpos (Qden (this q)) =? 1)%Z = true -> zq (Qnum (this q)) = q.
  Proof.
    intro H. apply Z.eqb_eq in H. apply Qc_is_canon. unfold zq. cbn [Q2Qc this]. rewrite Qred_correct.
    destruct q as [[n d] c]. cbn [this Qnum Qden] in *. unfold Qeq, inject_Z. cbn [Qnum Qden]. rewrite H. reflexivity.
  Qed.

  Lemma eval_num_node q I : eval qm (num_node q) I = Some (VNum q).
  Proof.
    unfold num_node. destruct (Zpos (Qden (this q)) =? 1)%Z eqn:H; [|reflexivity].
    cbn [eval]. rewrite (zq_integral q H). reflexivity.
  Qed.

  Definition SEM (e : expr) : Prop := forall sc I, pddl_ok sc e = true -> eval qm (norm e) I = eval qm e I.

  Lemma evals_norm l : Forall SEM l -> forall sc I, forallb (pddl_ok sc) l = true -> evals qm I (map norm l) = evals qm I l.
  Proof.
    induction 1 as [|x l Hx Hl IH]; intros sc I Hok; [reflexivity|]. cbn [forallb] in Hok.
    apply andb_true_iff in Hok as [H1 H2]. cbn [map evals]. rewrite (Hx sc I H1), (IH sc I H2). reflexivity.
  Qed.
  Lemma ebools_norm l : Forall SEM l -> forall sc I, forallb (pddl_ok sc) l = true -> ebools qm I (map norm l) = ebools qm I l.
  Proof.
    induction 1 as [|x l Hx Hl IH]; intros sc I Hok; [reflexivity|]. cbn [forallb] in Hok.
    apply andb_true_iff in Hok as [H1 H2]. cbn [map ebools]. rewrite (Hx sc I H1), (IH sc I H2). reflexivity.
  Qed.
  Lemma enums_norm l : Forall SEM l -> forall sc I, forallb (pddl_ok sc) l = true -> enums qm I (map norm l) = enums qm I l.
  Proof.
    induction 1 as [|x l Hx Hl IH]; intros sc I Hok; [reflexivity|]. cbn [forallb] in Hok.
    apply andb_true_iff in Hok as [H1 H2]. cbn [map enums]. rewrite (Hx sc I H1), (IH sc I H2). reflexivity.
  Qed.


  Lemma eval_chain_plus_gen I : forall r acc oq,
    eval qm acc I = option_map VNum oq ->
    eval qm (fold_left (fun x y => EPlus [y; x]) r acc) I =
    match enums qm I r, oq with
    | Some qs, Some qa => Some (VNum (Qcplus (fold_right Qcplus (zq 0) qs) qa)) | _, _ => None end.
  Proof.
    induction r as [|y r IH]; intros acc oq Hacc.
    - cbn [fold_left enums fold_right]. rewrite Hacc. destruct oq as [qa|]; cbn [option_map]; [|reflexivity].
      f_equal. f_equal. try change (zq 0) with 0%Qc; try change (zq 1) with 1%Qc; ring.
    - cbn [fold_left].
      rewrite (IH (EPlus [y; acc]) (match as_num (eval qm y I), oq with Some qy, Some qa => Some (Qcplus qy (Qcplus qa (zq 0))) | _, _ => None end)).
      + cbn [enums]. destruct (as_num (eval qm y I)) as [qy|]; destruct (enums qm I r) as [qs|]; destruct oq as [qa|];
          try reflexivity. cbn [fold_right]. f_equal. f_equal. try change (zq 0) with 0%Qc; try change (zq 1) with 1%Qc; ring.
      + rewrite eval_EPlus. cbn [enums]. rewrite Hacc.
        destruct (as_num (eval qm y I)) as [qy|]; destruct oq as [qa|]; reflexivity.
  Qed.

  Lemma eval_chain_plus I a b r :
    eval qm (fold_left (fun x y => EPlus [y; x]) (b :: r) a) I = eval qm (EPlus (a :: b :: r)) I.
  Proof.
    cbn [fold_left].
    rewrite (eval_chain_plus_gen I r (EPlus [b; a])
              (match as_num (eval qm b I), as_num (eval qm a I) with
               | Some qb, Some qa => Some (Qcplus qb (Qcplus qa (zq 0))) | _, _ => None end)).
    - rewrite eval_EPlus. cbn [enums].
      destruct (as_num (eval qm a I)) as [qa|]; destruct (as_num (eval qm b I)) as [qb|];
        destruct (enums qm I r) as [qs|]; try reflexivity. cbn [fold_right]. f_equal. f_equal. try change (zq 0) with 0%Qc; try change (zq 1) with 1%Qc; ring.
    - rewrite eval_EPlus. cbn [enums].
      destruct (as_num (eval qm b I)) as [qb|]; destruct (as_num (eval qm a I)) as [qa|]; reflexivity.
  Qed.

  Lemma eval_chain_times_gen I : forall r acc oq,
    eval qm acc I = option_map VNum oq ->
    eval qm (fold_left (fun x y => ETimes [y; x]) r acc) I =
    match enums qm I r, oq with
    | Some qs, Some qa => Some (VNum (Qcmult (fold_right Qcmult (zq 1) qs) qa)) | _, _ => None end.
  Proof.
    induction r as [|y r IH]; intros acc oq Hacc.
    - cbn [fold_left enums fold_right]. rewrite Hacc. destruct oq as [qa|]; cbn [option_map]; [|reflexivity].
      f_equal. f_equal. try change (zq 0) with 0%Qc; try change (zq 1) with 1%Qc; ring.
    - cbn [fold_left].
      rewrite (IH (ETimes [y; acc]) (match as_num (eval qm y I), oq with Some qy, Some qa => Some (Qcmult qy (Qcmult qa (zq 1))) | _, _ => None end)).
      + cbn [enums]. destruct (as_num (eval qm y I)) as [qy|]; destruct (enums qm I r) as [qs|]; destruct oq as [qa|];
          try reflexivity. cbn [fold_right]. f_equal. f_equal. try change (zq 0) with 0%Qc; try change (zq 1) with 1%Qc; ring.
      + rewrite eval_ETimes. cbn [enums]. rewrite Hacc.
        destruct (as_num (eval qm y I)) as [qy|]; destruct oq as [qa|]; reflexivity.
  Qed.

  Lemma eval_chain_times I a b r :
    eval qm (fold_left (fun x y => ETimes [y; x]) (b :: r) a) I = eval qm (ETimes (a :: b :: r)) I.
  Proof.
    cbn [fold_left].
    rewrite (eval_chain_times_gen I r (ETimes [b; a])
              (match as_num (eval qm b I), as_num (eval qm a I) with
               | Some qb, Some qa => Some (Qcmult qb (Qcmult qa (zq 1))) | _, _ => None end)).
    - rewrite eval_ETimes. cbn [enums].
      destruct (as_num (eval qm a I)) as [qa|]; destruct (as_num (eval qm b I)) as [qb|];
        destruct (enums qm I r) as [qs|]; try reflexivity. cbn [fold_right]. f_equal. f_equal. try change (zq 0) with 0%Qc; try change (zq 1) with 1%Qc; ring.
    - rewrite eval_ETimes. cbn [enums].
      destruct (as_num (eval qm b I)) as [qb|]; destruct (as_num (eval qm a I)) as [qa|]; reflexivity.
  Qed.

  Lemma fold_not mk r : (forall l, is_not (mk l) = false) ->
    forall a, is_not a = false -> is_not (fold_left (fun x y => mk [y; x]) r a) = false.
  Proof. intro Hmk. induction r as [|y r IH]; intros a Ha; cbn [fold_left]; auto. Qed.

  Lemma norm_not sc a : pddl_ok sc a = true -> is_not a = false -> is_not (norm a) = false.
  Proof.
    destruct a; cbn [pddl_ok norm is_not]; intros Hok Hn; try reflexivity; try discriminate.
    - unfold num_node. destruct (_ =? _)%Z; reflexivity.
    - destruct l as [|x [|y r]]; try discriminate Hok; reflexivity.
    - destruct l as [|x [|y r]]; try discriminate Hok; reflexivity.
    - destruct l as [|x [|y r]]; try discriminate Hok. cbn [map rchain fold_left]. apply fold_not; reflexivity.
    - destruct l as [|x [|y r]]; try discriminate Hok. cbn [map rchain fold_left]. apply fold_not; reflexivity.
  Qed.

  Lemma mkNot_not x : is_not x = false -> mkNot x = ENot x.
  Proof. destruct x; intro H; try reflexivity; discriminate H. Qed.

  Ltac ands H := repeat (apply andb_true_iff in H; let H' := fresh H in destruct H as [H H']).

  Theorem norm_sem : forall e, SEM e.
  Proof.
    induction e using expr_ind'; intros sc I Hok; cbn [pddl_ok] in Hok; try discriminate Hok; cbn [norm]; try reflexivity.
    - (* EReal *) apply eval_num_node.
    - (* EFluent *) rewrite !eval_EFluent, (evals_norm _ H sc I Hok). reflexivity.
    - (* EAnd *) ands Hok. destruct l as [|x [|y r]]; try discriminate Hok.
      change (mkAnd (map norm (x :: y :: r))) with (EAnd (map norm (x :: y :: r))).
      rewrite !eval_EAnd, (ebools_norm _ H sc I Hok0). reflexivity.
    - (* EOr *) ands Hok. destruct l as [|x [|y r]]; try discriminate Hok.
      change (mkOr (map norm (x :: y :: r))) with (EOr (map norm (x :: y :: r))).
      rewrite !eval_EOr, (ebools_norm _ H sc I Hok0). reflexivity.
    - (* ENot *) ands Hok. apply negb_true_iff in Hok. rewrite (mkNot_not _ (norm_not sc e Hok0 Hok)).
      rewrite !eval_ENot, (IHe sc I Hok0). reflexivity.
    - (* EImplies *) ands Hok. rewrite !eval_EImplies, (IHe1 sc I Hok), (IHe2 sc I Hok0). reflexivity.
    - (* EIff *) ands Hok. rewrite eval_EAnd. cbn [ebools]. rewrite !eval_EImplies, (IHe1 sc I Hok), (IHe2 sc I Hok0), eval_EIff.
      destruct (as_bool (eval qm e1 I)) as [[|]|]; destruct (as_bool (eval qm e2 I)) as [[|]|]; reflexivity.
    - (* EExists *) destruct vs as [|p vs]; [discriminate Hok|]. ands Hok. rewrite !eval_EExists.
      rewrite (map_ext _ (fun J => as_bool (eval qm e J)) (fun J => f_equal as_bool (IHe _ J Hok0))). reflexivity.
    - (* EForall *) destruct vs as [|p vs]; [discriminate Hok|]. ands Hok. rewrite !eval_EForall.
      rewrite (map_ext _ (fun J => as_bool (eval qm e J)) (fun J => f_equal as_bool (IHe _ J Hok0))). reflexivity.
    - (* EPlus *) ands Hok. destruct l as [|a [|b r]]; try discriminate Hok. cbn [map rchain].
      rewrite eval_chain_plus. change (norm a :: norm b :: map norm r) with (map norm (a :: b :: r)).
      rewrite !eval_EPlus, (enums_norm _ H sc I Hok0). reflexivity.
    - (* EMinus *) ands Hok. rewrite !eval_EMinus, (IHe1 sc I Hok), (IHe2 sc I Hok0). reflexivity.
    - (* ETimes *) ands Hok. destruct l as [|a [|b r]]; try discriminate Hok. cbn [map rchain].
      rewrite eval_chain_times. change (norm a :: norm b :: map norm r) with (map norm (a :: b :: r)).
      rewrite !eval_ETimes, (enums_norm _ H sc I Hok0). reflexivity.
    - (* EDiv *) ands Hok. rewrite !eval_EDiv, (IHe1 sc I Hok), (IHe2 sc I Hok0). reflexivity.
    - (* ELe *) ands Hok. rewrite !eval_ELe, (IHe1 sc I Hok), (IHe2 sc I Hok0). reflexivity.
    - (* ELt *) ands Hok. rewrite !eval_ELt, (IHe1 sc I Hok), (IHe2 sc I Hok0). reflexivity.
    - (* EEquals *) ands Hok. rewrite !eval_EEquals, (IHe1 sc I Hok), (IHe2 sc I Hok0). reflexivity.
  Qed.
End NormSem.
