(* Proofs about the HTN ordering model (C34). *)
From Coq Require Import List ZArith NArith QArith Bool Lia.
Import ListNotations.
Require Import UPV.Model.Htn.
Local Open Scope nat_scope.

(* ------------------------------------------------------------------ decoding of constraints *)

Lemma prec_of_spec c a b : prec_of c = Some (a, b) <-> is_precedence c a b.
Proof.
  split.
  - destruct c as [l r|]; [|discriminate]. destruct l as [l|]; [|discriminate]. destruct r as [r|]; [|discriminate].
    destruct l as [lk lc ld], r as [rk rc rd]; unfold prec_of; cbn [t_kind t_cont t_delay].
    destruct (Qeq_bool ld 0) eqn:E1; [|discriminate]. destruct (Qeq_bool rd 0) eqn:E2; [|discriminate].
    cbn [negb orb].
    destruct lk; cbn; try discriminate. destruct rk; cbn; try discriminate.
    destruct lc as [x|]; [|discriminate]. destruct rc as [y|]; [|discriminate].
    intros H; inversion H; subst. exists ld, rd. repeat split; apply Qeq_bool_iff; assumption.
  - intros (dl & dr & -> & H1 & H2). unfold prec_of; cbn [t_kind t_cont t_delay].
    apply Qeq_bool_iff in H1, H2. rewrite H1, H2. reflexivity.
Qed.

Lemma prec_of_none c : not_a_precedence c <-> prec_of c = None.
Proof.
  split.
  - intros H. destruct (prec_of c) as [[a b]|] eqn:E; [|reflexivity].
    exfalso. apply (H a b). apply prec_of_spec; exact E.
  - intros H a b Hp. apply prec_of_spec in Hp. congruence.
Qed.

Lemma take_precs_all cs precs : all_precedences cs precs -> take_precs cs = precs.
Proof.
  induction 1 as [|c p cs precs Hc _ IH]; [reflexivity|].
  simpl. destruct p as [a b]. apply prec_of_spec in Hc. simpl in Hc. rewrite Hc, IH. reflexivity.
Qed.

Lemma all_precedences_length cs precs : all_precedences cs precs -> length precs = length cs.
Proof. induction 1; simpl; congruence. Qed.

Lemma take_precs_length_le cs : length (take_precs cs) <= length cs.
Proof. induction cs as [|c cs IH]; simpl; [lia|]. destruct (prec_of c); simpl; lia. Qed.

Lemma take_precs_short cs c : In c cs -> prec_of c = None -> length (take_precs cs) < length cs.
Proof.
  induction cs as [|c' cs IH]; simpl; intros HI HN; [tauto|].
  destruct HI as [->|HI].
  - rewrite HN. simpl. lia.
  - destruct (prec_of c'); simpl; [specialize (IH HI HN); lia | lia].
Qed.

(* ------------------------------------------------------------------ lists *)

Lemma NoDup_remove_elt (x : N) l : NoDup l -> NoDup (remove N.eq_dec x l).
Proof.
  induction 1 as [|y l Hy _ IH]; simpl; [constructor|].
  destruct (N.eq_dec x y); [exact IH|]. constructor; [|exact IH].
  intros H. apply in_remove in H. tauto.
Qed.

Lemma filter_single (f : N -> bool) l h :
  NoDup l -> In h l -> f h = true -> (forall x, In x l -> f x = true -> x = h) -> filter f l = [h].
Proof.
  induction 1 as [|y l Hy ND IH]; simpl; intros HI Hf Hu; [tauto|].
  destruct (f y) eqn:E.
  - assert (y = h) by (apply Hu; auto). subst y. f_equal.
    assert (Hnone : forall z, In z l -> f z = false).
    { intros z Hz. destruct (f z) eqn:Ez; [|reflexivity]. assert (z = h) by (apply Hu; auto). subst; tauto. }
    clear -Hnone. induction l as [|z l IH]; simpl; [reflexivity|].
    rewrite (Hnone z (or_introl eq_refl)). apply IH. intros; apply Hnone; right; assumption.
  - destruct HI as [->|HI]; [congruence|]. apply IH; auto.
Qed.

Lemma no_pred_iff prec t : no_pred prec t = true <-> forall a, ~ In (a, t) prec.
Proof.
  unfold no_pred. rewrite forallb_forall. split.
  - intros H a HI. specialize (H _ HI). simpl in H. rewrite N.eqb_refl in H. discriminate.
  - intros H [a b] HI. simpl. destruct (N.eqb_spec b t); [subst; exfalso; eapply H; eauto | reflexivity].
Qed.

(* ------------------------------------------------------------------ before *)

Lemma before_In_r a b L : before a b L -> In b L.
Proof. induction L as [|x T IH]; simpl; [tauto|]. intros [[_ H]|H]; auto. Qed.

Lemma before_In_l a b L : before a b L -> In a L.
Proof. induction L as [|x T IH]; simpl; [tauto|]. intros [[H _]|H]; auto. Qed.

Lemma before_head_no a h T : NoDup (h :: T) -> ~ before a h (h :: T).
Proof.
  intros ND H. inversion ND as [|? ? Hn _]; subst. apply Hn.
  simpl in H. destruct H as [[_ H]|H]; [exact H | eapply before_In_r; exact H].
Qed.

Lemma before_cons_ne a b h T : before a b (h :: T) -> a <> h -> before a b T.
Proof. simpl. intros [[H _]|H] Hne; [congruence | exact H]. Qed.

Lemma before_remove a b x L : before a b L -> a <> x -> b <> x -> before a b (remove N.eq_dec x L).
Proof.
  induction L as [|y T IH]; simpl; [tauto|]. intros H Ha Hb.
  destruct (N.eq_dec x y) as [->|Hne].
  - destruct H as [[H _]|H]; [congruence | auto].
  - simpl. destruct H as [[H1 H2]|H]; [left; split; [exact H1 | apply in_in_remove; auto] | right; auto].
Qed.

(* ------------------------------------------------------------------ one step of _build_total_order *)

Definition inv (pending : list N) (prec : list (N * N)) : Prop :=
  NoDup pending /\ between_subtasks pending prec.

Definition rest (first : N) (prec : list (N * N)) := filter (fun p => negb (fst p =? first)%N) prec.

Lemma in_rest first prec a b : In (a, b) (rest first prec) <-> In (a, b) prec /\ a <> first.
Proof.
  unfold rest. rewrite filter_In. simpl. destruct (N.eqb_spec a first); simpl; split; intros [H1 H2]; split; auto; congruence.
Qed.

Section Step.
  Variables (pending : list N) (prec : list (N * N)) (first : N).
  Hypothesis Hinv : inv pending prec.
  Hypothesis Hin : In first pending.
  Hypothesis Hnp : no_pred prec first = true.

  Let pending' := remove N.eq_dec first pending.
  Let prec' := rest first prec.

  Lemma step_inv : inv pending' prec'.
  Proof.
    destruct Hinv as [ND Hb]. split; [apply NoDup_remove_elt; exact ND|].
    intros a b H. apply in_rest in H. destruct H as [H Hne]. destruct (Hb _ _ H) as [Ha Hbb].
    split; apply in_in_remove; auto.
    intros ->. apply (proj1 (no_pred_iff _ _) Hnp a). exact H.
  Qed.

  Lemma step_up T : linear_extension pending' prec' T -> linear_extension pending prec (first :: T).
  Proof.
    intros (ND & Hiff & Hbef). destruct Hinv as [NDp Hb]. split; [|split].
    - constructor; [|exact ND]. intros H. apply Hiff in H. apply in_remove in H. tauto.
    - intros x; split.
      + intros [<-|H]; [exact Hin|]. apply Hiff in H. apply in_remove in H. tauto.
      + intros H. destruct (N.eq_dec x first) as [->|Hne]; [left; reflexivity|].
        right. apply Hiff. apply in_in_remove; auto.
    - intros a b H. simpl. destruct (N.eq_dec a first) as [->|Hne].
      + left. split; [reflexivity|]. apply Hiff. apply in_in_remove; [|apply (Hb _ _ H)].
        intros ->. apply (proj1 (no_pred_iff _ _) Hnp first). exact H.
      + right. apply Hbef. apply in_rest. auto.
  Qed.

  Lemma step_down T : linear_extension pending prec (first :: T) -> linear_extension pending' prec' T.
  Proof.
    intros (ND & Hiff & Hbef). inversion ND as [|? ? Hn NDT]; subst. split; [exact NDT|split].
    - intros x; split.
      + intros H. apply in_in_remove; [intros ->; tauto|]. apply Hiff. right; exact H.
      + intros H. apply in_remove in H. destruct H as [H Hne]. apply Hiff in H. destruct H as [H|H]; [congruence|exact H].
    - intros a b H. apply in_rest in H. destruct H as [H Hne]. apply (before_cons_ne a b first); auto.
  Qed.
End Step.

Lemma head_no_pred pending prec h T :
  linear_extension pending prec (h :: T) -> In h pending /\ no_pred prec h = true.
Proof.
  intros (ND & Hiff & Hbef). split; [apply Hiff; left; reflexivity|].
  apply no_pred_iff. intros a H. apply Hbef in H. exact (before_head_no _ _ _ ND H).
Qed.

(* a subtask without predecessor can be moved to the front of any linear extension *)
Lemma move_front pending prec L x :
  linear_extension pending prec L -> In x pending -> no_pred prec x = true ->
  linear_extension pending prec (x :: remove N.eq_dec x L).
Proof.
  intros (ND & Hiff & Hbef) Hx Hnp. split; [|split].
  - constructor; [apply remove_In | apply NoDup_remove_elt; exact ND].
  - intros y; split.
    + intros [<-|H]; [exact Hx|]. apply in_remove in H. apply Hiff. tauto.
    + intros H. destruct (N.eq_dec y x) as [->|Hne]; [left; reflexivity|].
      right. apply in_in_remove; [exact Hne | apply Hiff; exact H].
  - intros a b H. assert (Hbx : b <> x).
    { intros ->. apply (proj1 (no_pred_iff _ _) Hnp a). exact H. }
    specialize (Hbef _ _ H). simpl. destruct (N.eq_dec a x) as [->|Hne].
    + left. split; [reflexivity|]. apply in_in_remove; [exact Hbx | eapply before_In_r; exact Hbef].
    + right. apply before_remove; auto.
Qed.

Lemma build_unfold n pending prec :
  pending <> [] ->
  build (S n) pending prec =
    match filter (no_pred prec) pending with
    | [first] =>
        match build n (remove N.eq_dec first pending) (rest first prec) with
        | Some order => Some (first :: order)
        | None => None
        end
    | _ => None
    end.
Proof. destruct pending; [congruence | reflexivity]. Qed.

Definition unique_extension (tasks : list N) (precs : list (N * N)) (L : list N) : Prop :=
  linear_extension tasks precs L /\ forall L', linear_extension tasks precs L' -> L' = L.

Lemma build_spec : forall n pending prec,
  length pending <= n -> inv pending prec ->
  forall L, build n pending prec = Some L <-> unique_extension pending prec L.
Proof.
  induction n as [|n IH]; intros pending prec Hlen Hinv L.
  - destruct pending as [|p ps]; [|simpl in Hlen; lia]. simpl. split.
    + intros H; inversion H; subst. split.
      * split; [constructor|split]; [tauto|]. intros a b HI. destruct (proj2 Hinv _ _ HI) as [[] _].
      * intros L' (_ & Hiff & _). destruct L' as [|x L']; [reflexivity|]. destruct (proj1 (Hiff x) (or_introl eq_refl)).
    + intros [(_ & Hiff & _) _]. destruct L as [|x L]; [reflexivity|]. destruct (proj1 (Hiff x) (or_introl eq_refl)).
  - destruct pending as [|p ps].
    { simpl. split.
      + intros H; inversion H; subst. split.
        * split; [constructor|split]; [tauto|]. intros a b HI. destruct (proj2 Hinv _ _ HI) as [[] _].
        * intros L' (_ & Hiff & _). destruct L' as [|x L']; [reflexivity|]. destruct (proj1 (Hiff x) (or_introl eq_refl)).
      + intros [(_ & Hiff & _) _]. destruct L as [|x L]; [reflexivity|]. destruct (proj1 (Hiff x) (or_introl eq_refl)). }
    remember (p :: ps) as pending eqn:Hp.
    assert (Hne : pending <> []) by (subst; discriminate).
    assert (Hpin : In p pending) by (subst; left; reflexivity).
    rewrite (build_unfold n pending prec Hne).
    split.
    + (* soundness and uniqueness *)
      destruct (filter (no_pred prec) pending) as [|first [|? ?]] eqn:EF; try discriminate.
      assert (HF : In first pending /\ no_pred prec first = true).
      { apply filter_In. rewrite EF. left; reflexivity. }
      destruct HF as [Hin Hnp].
      destruct (build n (remove N.eq_dec first pending) (rest first prec)) as [order|] eqn:ER; [|discriminate].
      intros H; inversion H; subst L. clear H.
      apply IH in ER; [| | apply step_inv; auto].
      2:{ pose proof (remove_length_lt N.eq_dec pending first Hin). lia. }
      destruct ER as [Hext Huniq]. split.
      * apply step_up; auto.
      * intros L' HL'. destruct L' as [|h T].
        { destruct HL' as (_ & Hiff & _). destruct (proj2 (Hiff first) Hin). }
        destruct (head_no_pred _ _ _ _ HL') as [Hh1 Hh2].
        assert (h = first).
        { assert (HI : In h (filter (no_pred prec) pending)) by (apply filter_In; auto).
          rewrite EF in HI. destruct HI as [HI|[]]. congruence. }
        subst h. f_equal. apply Huniq. apply step_down; auto.
    + (* completeness *)
      intros [Hext Huniq]. destruct L as [|h T].
      { destruct Hext as (_ & Hiff & _). destruct (proj2 (Hiff p) Hpin). }
      destruct (head_no_pred _ _ _ _ Hext) as [Hin Hnp].
      assert (EF : filter (no_pred prec) pending = [h]).
      { apply filter_single; auto; [exact (proj1 Hinv)|].
        intros x Hx Hxnp. pose proof (move_front _ _ _ x Hext Hx Hxnp) as HM.
        apply Huniq in HM. congruence. }
      rewrite EF.
      assert (ER : build n (remove N.eq_dec h pending) (rest h prec) = Some T).
      { apply IH.
        - pose proof (remove_length_lt N.eq_dec pending h Hin). lia.
        - apply step_inv; auto.
        - split; [apply step_down; auto|].
          intros T2 HT2. apply (step_up pending prec h Hinv Hin Hnp) in HT2.
          apply Huniq in HT2. congruence. }
      rewrite ER. reflexivity.
Qed.

Lemma linear_extension_ext t1 t2 precs L :
  (forall x, In x t1 <-> In x t2) -> linear_extension t1 precs L <-> linear_extension t2 precs L.
Proof.
  intros H. unfold linear_extension. split; intros (A & B & C); (split; [exact A|split; [|exact C]]); intros x.
  - rewrite <- H. apply B.
  - rewrite H. apply B.
Qed.

Lemma build_total_order_spec tasks precs :
  between_subtasks tasks precs ->
  forall L, build_total_order tasks precs = Some L <-> unique_extension tasks precs L.
Proof.
  intros Hb L. unfold build_total_order.
  assert (Hext : forall L0, linear_extension (nodup N.eq_dec tasks) precs L0 <-> linear_extension tasks precs L0).
  { intros L0. apply linear_extension_ext. intros x. apply nodup_In. }
  rewrite build_spec; [| lia |].
  - unfold unique_extension. rewrite Hext. split; intros [A B]; split; auto; intros L' HL'; apply B; apply Hext; exact HL'.
  - split; [apply NoDup_nodup|]. intros a b HI. destruct (Hb _ _ HI). split; apply nodup_In; assumption.
Qed.

(* ------------------------------------------------------------------ property-level statements *)

Lemma ordering_qualitative tasks cs precs :
  all_precedences cs precs ->
  ordering tasks cs = match build_total_order tasks precs with
                      | Some to => TotalOrder to precs
                      | None => PartialOrder precs
                      end.
Proof.
  intros H. unfold ordering. rewrite (take_precs_all _ _ H), (all_precedences_length _ _ H), Nat.eqb_refl. reflexivity.
Qed.

Lemma total_order_unique_extension tasks cs precs :
  all_precedences cs precs -> between_subtasks tasks precs ->
  forall L, total_order tasks cs = Some L <-> unique_extension tasks precs L.
Proof.
  intros H Hb L. unfold total_order. rewrite (ordering_qualitative _ _ _ H).
  rewrite <- (build_total_order_spec tasks precs Hb L).
  destruct (build_total_order tasks precs); split; intros E; inversion E; reflexivity.
Qed.

Lemma total_order_none_iff tasks cs precs :
  all_precedences cs precs -> between_subtasks tasks precs ->
  (total_order tasks cs = None <-> ~ exists L, unique_extension tasks precs L).
Proof.
  intros H Hb. split.
  - intros E [L HL]. apply (total_order_unique_extension _ _ _ H Hb) in HL. congruence.
  - intros HN. destruct (total_order tasks cs) as [L|] eqn:E; [|reflexivity].
    exfalso. apply HN. exists L. apply (total_order_unique_extension _ _ _ H Hb). exact E.
Qed.

Lemma partial_order_exact tasks cs precs :
  all_precedences cs precs -> partial_order tasks cs = Some precs.
Proof.
  intros H. unfold partial_order. rewrite (ordering_qualitative _ _ _ H).
  destruct (build_total_order tasks precs); reflexivity.
Qed.

Lemma partial_order_exact_set tasks cs precs :
  all_precedences cs precs ->
  exists r, partial_order tasks cs = Some r /\ forall p, In p r <-> In p precs.
Proof. intros H. exists precs. split; [apply partial_order_exact; exact H | tauto]. Qed.

Lemma non_precedence_reports_neither tasks cs c :
  In c cs -> not_a_precedence c -> partial_order tasks cs = None /\ total_order tasks cs = None.
Proof.
  intros HI HN. apply prec_of_none in HN.
  pose proof (take_precs_short cs c HI HN) as Hlt.
  unfold partial_order, total_order, ordering.
  destruct (Nat.eqb_spec (length (take_precs cs)) (length cs)) as [E|E]; [lia|]. split; reflexivity.
Qed.

(* whenever a total order is reported, a partial order is reported too (TotalOrder is a PartialOrder) *)
Lemma total_implies_partial tasks cs L : total_order tasks cs = Some L -> partial_order tasks cs <> None.
Proof.
  unfold total_order, partial_order. destruct (ordering tasks cs); intros H; try discriminate.
Qed.

(* ------------------------------------------------------------------ remark: the code before the fix commit.
   TotalOrder.__init__ replaced the given precedences by the chain of consecutive elements of the order; the
   property ("partial_order returns exactly those precedences") was false of that code: *)
Fixpoint chain (o : list N) : list (N * N) :=
  match o with
  | a :: ((b :: _) as t) => (a, b) :: chain t
  | _ => []
  end.

Definition partial_order_before_fix (tasks : list N) (cs : list tcons) : option (list (N * N)) :=
  match ordering tasks cs with
  | PartialOrder p => Some p
  | TotalOrder o _ => Some (chain o)
  | Temporal => None
  end.

Definition mkprec (a b : N) : tcons :=
  CLt (ETiming {| t_kind := KEnd; t_cont := Some a; t_delay := 0%Q |})
      (ETiming {| t_kind := KStart; t_cont := Some b; t_delay := 0%Q |}).

Lemma mkprec_is_precedence a b : is_precedence (mkprec a b) a b.
Proof. exists 0%Q, 0%Q. repeat split; reflexivity. Qed.

Lemma before_fix_refuted :
  exists tasks cs precs, all_precedences cs precs /\ between_subtasks tasks precs /\
    exists r, partial_order_before_fix tasks cs = Some r /\ ~ (forall p, In p r <-> In p precs).
Proof.
  exists [0; 1; 2]%N, [mkprec 0 2; mkprec 0 1; mkprec 1 2]%N, [(0, 2); (0, 1); (1, 2)]%N.
  split; [repeat constructor; apply mkprec_is_precedence|]. split.
  - intros a b H. simpl in H. repeat (destruct H as [H|H]; [inversion H; subst; simpl; tauto|]). destruct H.
  - exists [(0, 1); (1, 2)]%N. split; [vm_compute; reflexivity|].
    intros H. specialize (proj2 (H (0, 2)%N)). simpl. intros H2.
    destruct H2 as [H2|[H2|[]]]; [left; reflexivity | discriminate | discriminate].
Qed.
