(* Proofs about Walkers/NnfDnf.v (C12).
   Semantics: Core/Eval.v, either quantifier mode [sc]; [bv sc I e] is the Boolean reading of an expression
   (None = undefined or not a Boolean).  All statements are for every expression and every interpretation. *)
From Coq Require Import List ZArith NArith QArith Qcanon Bool Lia.
Import ListNotations.
Require Import UPV.Core.Expr UPV.Core.Eval UPV.Proofs.Eval_lemmas UPV.Walkers.NnfDnf.

Definition bv (sc : bool) (I : interp) (e : expr) : option bool := as_bool (eval sc e I).

Lemma bv_Some sc I e b : bv sc I e = Some b <-> eval sc e I = Some (VBool b).
Proof.
  unfold bv. destruct (eval sc e I) as [[x|x|x]|]; simpl; split; intro H; try discriminate; inversion H; reflexivity.
Qed.

Lemma bv_EBool sc I b : bv sc I (EBool b) = Some b.
Proof. reflexivity. Qed.

Lemma bv_ENot sc I a : bv sc I (ENot a) = option_map negb (bv sc I a).
Proof. unfold bv. rewrite eval_ENot. destruct (as_bool (eval sc a I)); reflexivity. Qed.

Lemma bv_EAnd sc I l : bv sc I (EAnd l) = option_map (forallb (fun b => b)) (ebools sc I l).
Proof. unfold bv. rewrite eval_EAnd. destruct (ebools sc I l); reflexivity. Qed.

Lemma bv_EOr sc I l : bv sc I (EOr l) = option_map (existsb (fun b => b)) (ebools sc I l).
Proof. unfold bv. rewrite eval_EOr. destruct (ebools sc I l); reflexivity. Qed.

Lemma bv_EImplies sc I a b :
  bv sc I (EImplies a b) = match bv sc I a, bv sc I b with Some x, Some y => Some (implb x y) | _, _ => None end.
Proof. unfold bv. rewrite eval_EImplies. destruct (as_bool (eval sc a I)), (as_bool (eval sc b I)); reflexivity. Qed.

Lemma bv_EIff sc I a b :
  bv sc I (EIff a b) = match bv sc I a, bv sc I b with Some x, Some y => Some (Bool.eqb x y) | _, _ => None end.
Proof. unfold bv. rewrite eval_EIff. destruct (as_bool (eval sc a I)), (as_bool (eval sc b I)); reflexivity. Qed.

Lemma ebools_cons sc I x l :
  ebools sc I (x :: l) = match bv sc I x, ebools sc I l with Some v, Some vs => Some (v :: vs) | _, _ => None end.
Proof. reflexivity. Qed.

Lemma bv_mkAnd sc I l : bv sc I (mkAnd l) = bv sc I (EAnd l).
Proof.
  destruct l as [|x [|y l]]; try reflexivity.
  rewrite bv_EAnd, ebools_cons. simpl. destruct (bv sc I x) as [b|]; simpl; [rewrite andb_true_r|]; reflexivity.
Qed.

Lemma bv_mkOr sc I l : bv sc I (mkOr l) = bv sc I (EOr l).
Proof.
  destruct l as [|x [|y l]]; try reflexivity.
  rewrite bv_EOr, ebools_cons. simpl. destruct (bv sc I x) as [b|]; simpl; [rewrite orb_false_r|]; reflexivity.
Qed.

(* ================================================================== NNF *)
Definition pol (p b : bool) : bool := if p then b else negb b.

Lemma forallb_pol_true bs : forallb (fun b => b) (map (pol true) bs) = forallb (fun b => b) bs.
Proof. induction bs as [|b bs IH]; simpl; [|rewrite IH]; reflexivity. Qed.
Lemma existsb_pol_true bs : existsb (fun b => b) (map (pol true) bs) = existsb (fun b => b) bs.
Proof. induction bs as [|b bs IH]; simpl; [|rewrite IH]; reflexivity. Qed.
Lemma existsb_pol_false bs : existsb (fun b => b) (map (pol false) bs) = negb (forallb (fun b => b) bs).
Proof. induction bs as [|b bs IH]; simpl; [|rewrite IH; destruct b]; reflexivity. Qed.
Lemma forallb_pol_false bs : forallb (fun b => b) (map (pol false) bs) = negb (existsb (fun b => b) bs).
Proof. induction bs as [|b bs IH]; simpl; [|rewrite IH; destruct b]; reflexivity. Qed.

Section Sem.
  Variable sc : bool.
  Variable I : interp.
  Notation B := (bv sc I).

  Lemma ebools_map_nnf p l :
    Forall (fun e => forall p, B (nnf_pol p e) = option_map (pol p) (B e)) l ->
    ebools sc I (map (nnf_pol p) l) = option_map (map (pol p)) (ebools sc I l).
  Proof.
    induction 1 as [|x l Hx _ IH]; [reflexivity|].
    cbn [map]. rewrite !ebools_cons, Hx, IH. destruct (B x), (ebools sc I l); reflexivity.
  Qed.

  Lemma andp_sem p l :
    Forall (fun e => forall p, B (nnf_pol p e) = option_map (pol p) (B e)) l ->
    B (andp p (map (nnf_pol p) l)) = option_map (pol p) (B (EAnd l)).
  Proof.
    intros H. unfold andp. destruct p.
    - rewrite bv_mkAnd, !bv_EAnd, (ebools_map_nnf _ _ H). destruct (ebools sc I l); simpl; [rewrite forallb_pol_true|]; reflexivity.
    - rewrite bv_mkOr, bv_EOr, bv_EAnd, (ebools_map_nnf _ _ H). destruct (ebools sc I l); simpl; [rewrite existsb_pol_false|]; reflexivity.
  Qed.

  Lemma orp_sem p l :
    Forall (fun e => forall p, B (nnf_pol p e) = option_map (pol p) (B e)) l ->
    B (orp p (map (nnf_pol p) l)) = option_map (pol p) (B (EOr l)).
  Proof.
    intros H. unfold orp. destruct p.
    - rewrite bv_mkOr, !bv_EOr, (ebools_map_nnf _ _ H). destruct (ebools sc I l); simpl; [rewrite existsb_pol_true|]; reflexivity.
    - rewrite bv_mkAnd, bv_EOr, bv_EAnd, (ebools_map_nnf _ _ H). destruct (ebools sc I l); simpl; [rewrite forallb_pol_false|]; reflexivity.
  Qed.

  Lemma atom_pol (p : bool) (e : expr) : B (if p then e else ENot e) = option_map (pol p) (B e).
  Proof. destruct p; [|rewrite bv_ENot]; destruct (B e); reflexivity. Qed.

  (* the Boolean reading of nnf_pol p e is that of e (p = true) / of its negation (p = false), defined or not *)
  Lemma nnf_pol_sem : forall e p, B (nnf_pol p e) = option_map (pol p) (B e).
  Proof.
    induction e using expr_ind'; intros pl; try (exact (atom_pol pl _)).
    - exact (andp_sem pl l H).
    - exact (orp_sem pl l H).
    - cbn [nnf_pol]. rewrite IHe, bv_ENot. destruct (B e) as [b|]; [|reflexivity]. destruct pl, b; reflexivity.
    - cbn [nnf_pol]. unfold orp.
      destruct pl; [rewrite bv_mkOr, bv_EOr | rewrite bv_mkAnd, bv_EAnd]; rewrite !ebools_cons, IHe1, IHe2, bv_EImplies;
        destruct (B e1) as [x|], (B e2) as [y|]; try reflexivity; destruct x, y; reflexivity.
    - cbn [nnf_pol]. unfold orp, andp.
      destruct pl;
        [rewrite bv_mkOr, bv_EOr, !ebools_cons, !bv_mkAnd, !bv_EAnd
        |rewrite bv_mkAnd, bv_EAnd, !ebools_cons, !bv_mkOr, !bv_EOr];
        rewrite !ebools_cons, !IHe1, !IHe2, bv_EIff;
        destruct (B e1) as [x|], (B e2) as [y|]; try reflexivity; destruct x, y; reflexivity.
  Qed.
End Sem.

(* the value form: an expression that evaluates to a Boolean keeps that value *)
Lemma nnf_equiv_bv sc I e : bv sc I (nnf e) = bv sc I e.
Proof. unfold nnf. rewrite nnf_pol_sem. destruct (bv sc I e); reflexivity. Qed.

Lemma nnf_equiv sc e I : as_bool (eval sc (nnf e) I) = as_bool (eval sc e I).
Proof. exact (nnf_equiv_bv sc I e). Qed.

Lemma nnf_equiv_defined sc e I b : eval sc e I = Some (VBool b) -> eval sc (nnf e) I = Some (VBool b).
Proof. rewrite <- !bv_Some, nnf_equiv_bv. trivial. Qed.

(* ------------------------------------------------------------------ shape of the NNF *)
Lemma nnf_shape_EAnd l : nnf_shape (EAnd l) = forallb nnf_shape l.
Proof. reflexivity. Qed.
Lemma nnf_shape_EOr l : nnf_shape (EOr l) = forallb nnf_shape l.
Proof. reflexivity. Qed.

Lemma nnf_shape_mkAnd l : forallb nnf_shape l = true -> nnf_shape (mkAnd l) = true.
Proof.
  destruct l as [|x [|y l]]; intros H; [reflexivity| |exact H].
  cbn [forallb] in H. rewrite andb_true_r in H. exact H.
Qed.

Lemma nnf_shape_mkOr l : forallb nnf_shape l = true -> nnf_shape (mkOr l) = true.
Proof.
  destruct l as [|x [|y l]]; intros H; [reflexivity| |exact H].
  cbn [forallb] in H. rewrite andb_true_r in H. exact H.
Qed.

Lemma nnf_shape_andp p l : forallb nnf_shape l = true -> nnf_shape (andp p l) = true.
Proof. destruct p; [apply nnf_shape_mkAnd | apply nnf_shape_mkOr]. Qed.
Lemma nnf_shape_orp p l : forallb nnf_shape l = true -> nnf_shape (orp p l) = true.
Proof. destruct p; [apply nnf_shape_mkOr | apply nnf_shape_mkAnd]. Qed.

Lemma forallb_map_Forall (f : expr -> expr) l :
  Forall (fun e => nnf_shape (f e) = true) l -> forallb nnf_shape (map f l) = true.
Proof. induction 1 as [|x l Hx _ IH]; [reflexivity|]. cbn [map forallb]. rewrite Hx, IH. reflexivity. Qed.

Lemma nnf_pol_shape : forall e p, nnf_shape (nnf_pol p e) = true.
Proof.
  induction e using expr_ind'; intros pl; try (destruct pl; reflexivity).
  - cbn [nnf_pol]. apply nnf_shape_andp, forallb_map_Forall.
    eapply Forall_impl; [|exact H]. intros a Ha. apply Ha.
  - cbn [nnf_pol]. apply nnf_shape_orp, forallb_map_Forall.
    eapply Forall_impl; [|exact H]. intros a Ha. apply Ha.
  - cbn [nnf_pol]. apply IHe.
  - cbn [nnf_pol]. apply nnf_shape_orp. cbn [forallb]. rewrite IHe1, IHe2. reflexivity.
  - cbn [nnf_pol]. apply nnf_shape_orp. cbn [forallb].
    rewrite !nnf_shape_andp; [reflexivity| |]; cbn [forallb]; rewrite ?IHe1, ?IHe2; reflexivity.
Qed.

Lemma nnf_is_nnf e : nnf_shape (nnf e) = true.
Proof. apply nnf_pol_shape. Qed.

(* ================================================================== DNF: semantics *)
Lemma forallb_map_id (f : expr -> bool) l : forallb (fun b => b) (map f l) = forallb f l.
Proof. induction l as [|x l IH]; simpl; [|rewrite IH]; reflexivity. Qed.
Lemma existsb_map_id (f : expr -> bool) l : existsb (fun b => b) (map f l) = existsb f l.
Proof. induction l as [|x l IH]; simpl; [|rewrite IH]; reflexivity. Qed.

Lemma is_true_eq a : is_true a = true -> a = EBool true.
Proof. destruct a; try discriminate. destruct b; [reflexivity|discriminate]. Qed.
Lemma is_false_eq a : is_false a = true -> a = EBool false.
Proof. destruct a; try discriminate. destruct b; [discriminate|reflexivity]. Qed.

Lemma mem_expr_In x l : mem_expr x l = true -> In x l.
Proof.
  unfold mem_expr. rewrite existsb_exists. intros [y [Hy He]]. apply expr_eqb_eq in He. subst. exact Hy.
Qed.

Section DnfSem.
  Variable satom : expr -> expr.
  (* what the theorems need from the simplifier inside atoms: a Boolean value is preserved *)
  Hypothesis satom_sound : forall sc I a b, bv sc I a = Some b -> bv sc I (satom a) = Some b.
  Variable sc : bool.
  Variable I : interp.
  Notation B := (bv sc I).

  Definition tv (e : expr) : bool := match B e with Some true => true | _ => false end.
  Definition D (e : expr) : Prop := exists b, B e = Some b.
  Notation Defd := (Forall D).

  Lemma D_tv e : D e -> B e = Some (tv e).
  Proof. intros [b H]. unfold tv. rewrite H. destruct b; reflexivity. Qed.
  Lemma B_tv e b : B e = Some b -> tv e = b.
  Proof. intros H. unfold tv. rewrite H. destruct b; reflexivity. Qed.
  Lemma B_D e b : B e = Some b -> D e.
  Proof. intros H. exists b. exact H. Qed.

  Lemma ebools_defd l : Defd l -> ebools sc I l = Some (map tv l).
  Proof. induction 1 as [|x l Hx _ IH]; [reflexivity|]. rewrite ebools_cons, (D_tv _ Hx), IH. reflexivity. Qed.

  Lemma ebools_inv l : forall bs, ebools sc I l = Some bs -> Defd l.
  Proof.
    induction l as [|x l IH]; intros bs H; [constructor|].
    rewrite ebools_cons in H. destruct (B x) as [b|] eqn:E; [|discriminate].
    destruct (ebools sc I l) as [vs|] eqn:E2; [|discriminate].
    constructor; [exists b; exact E | eapply IH; reflexivity].
  Qed.

  Lemma B_EAnd_defd l : Defd l -> B (EAnd l) = Some (forallb tv l).
  Proof. intros H. rewrite bv_EAnd, (ebools_defd _ H). simpl. rewrite forallb_map_id. reflexivity. Qed.
  Lemma B_EOr_defd l : Defd l -> B (EOr l) = Some (existsb tv l).
  Proof. intros H. rewrite bv_EOr, (ebools_defd _ H). simpl. rewrite existsb_map_id. reflexivity. Qed.

  Lemma B_EAnd_inv l b : B (EAnd l) = Some b -> Defd l /\ b = forallb tv l.
  Proof.
    intros H. assert (Hd : Defd l).
    { rewrite bv_EAnd in H. destruct (ebools sc I l) as [bs|] eqn:E; [|discriminate]. eapply ebools_inv; exact E. }
    split; [exact Hd|]. rewrite (B_EAnd_defd _ Hd) in H. inversion H. reflexivity.
  Qed.
  Lemma B_EOr_inv l b : B (EOr l) = Some b -> Defd l /\ b = existsb tv l.
  Proof.
    intros H. assert (Hd : Defd l).
    { rewrite bv_EOr in H. destruct (ebools sc I l) as [bs|] eqn:E; [|discriminate]. eapply ebools_inv; exact E. }
    split; [exact Hd|]. rewrite (B_EOr_defd _ Hd) in H. inversion H. reflexivity.
  Qed.

  Lemma B_mkAnd_defd l : Defd l -> B (mkAnd l) = Some (forallb tv l).
  Proof. rewrite bv_mkAnd. apply B_EAnd_defd. Qed.
  Lemma B_mkOr_defd l : Defd l -> B (mkOr l) = Some (existsb tv l).
  Proof. rewrite bv_mkOr. apply B_EOr_defd. Qed.

  Lemma tv_true : tv (EBool true) = true.
  Proof. reflexivity. Qed.
  Lemma tv_false : tv (EBool false) = false.
  Proof. reflexivity. Qed.

  (* ---- Simplifier.walk_not *)
  Lemma neg_of_sem s b : B s = Some b -> B (neg_of s) = Some (negb b).
  Proof.
    destruct s; cbn [neg_of]; intros H; try (rewrite bv_ENot, H; reflexivity).
    - rewrite bv_EBool in *. inversion H. reflexivity.
    - rewrite bv_ENot in H. destruct (B s) as [c|]; simpl in H; inversion H. rewrite negb_involutive. reflexivity.
  Qed.

  Lemma simp_lit_sem x b : B x = Some b -> B (simp_lit satom x) = Some b.
  Proof.
    destruct x; cbn [simp_lit]; intros H; try (apply satom_sound; exact H).
    rewrite bv_ENot in H. destruct (B x) as [c|] eqn:E; simpl in H; inversion H.
    apply satom_sound, neg_of_sem in E. exact E.
  Qed.

  Lemma map_simp_lit_sem l : Defd l -> Defd (map (simp_lit satom) l) /\ forallb tv (map (simp_lit satom) l) = forallb tv l.
  Proof.
    induction 1 as [|x l Hx _ [IH1 IH2]]; [split; [constructor|reflexivity]|].
    pose proof (simp_lit_sem _ _ (D_tv _ Hx)) as Hs. cbn [map forallb]. split.
    - constructor; [eapply B_D; exact Hs | exact IH1].
    - rewrite (B_tv _ _ Hs), IH2. reflexivity.
  Qed.

  (* ---- Simplifier.walk_and *)
  Lemma In_forallb_false y l : In y l -> tv y = false -> forallb tv l = false.
  Proof.
    induction l as [|x l IH]; intros Hin Hy; [destruct Hin|].
    cbn [forallb]. destruct Hin as [->|Hin]; [rewrite Hy; reflexivity | rewrite (IH Hin Hy); apply andb_false_r].
  Qed.

  Lemma In_forallb_absorb s l : In s l -> forallb tv l = tv s && forallb tv l.
  Proof.
    intros Hin. destruct (tv s) eqn:E; [reflexivity|]. simpl. eapply In_forallb_false; eauto.
  Qed.

  Lemma od_add_sem s acc : D s -> Defd acc -> Defd (od_add s acc) /\ forallb tv (od_add s acc) = tv s && forallb tv acc.
  Proof.
    intros Hs Ha. unfold od_add. destruct (mem_expr s acc) eqn:E.
    - split; [exact Ha|]. apply In_forallb_absorb, mem_expr_In, E.
    - split; [apply Forall_app; split; [exact Ha | constructor; [exact Hs|constructor]]|].
      rewrite forallb_app. cbn [forallb]. rewrite andb_true_r. apply andb_comm.
  Qed.

  Lemma add_items_sem items : forall acc, Defd items -> Defd acc ->
    match add_items items acc with
    | Some acc' => Defd acc' /\ forallb tv acc' = forallb tv items && forallb tv acc
    | None => forallb tv items && forallb tv acc = false
    end.
  Proof.
    induction items as [|s r IH]; intros acc Hi Ha; cbn [add_items].
    - split; [exact Ha|reflexivity].
    - inversion Hi as [|? ? Hs Hr]; subst. cbn [forallb]. destruct (mem_expr (neg_of s) acc) eqn:E.
      + apply mem_expr_In in E. destruct (tv s) eqn:Ts; [|reflexivity].
        pose proof (neg_of_sem _ _ (D_tv _ Hs)) as Hn. rewrite Ts in Hn. apply B_tv in Hn.
        rewrite (In_forallb_false _ _ E Hn). apply andb_false_r.
      + destruct (od_add_sem s acc Hs Ha) as [Hd Hv]. specialize (IH (od_add s acc) Hr Hd).
        destruct (add_items r (od_add s acc)) as [acc'|].
        * destruct IH as [IH1 IH2]. split; [exact IH1|]. rewrite IH2, Hv.
          destruct (tv s), (forallb tv r), (forallb tv acc); reflexivity.
        * rewrite Hv in IH. destruct (tv s), (forallb tv r), (forallb tv acc); simpl in *; congruence.
  Qed.

  Lemma conj_items_sem a : D a -> Defd (conj_items a) /\ forallb tv (conj_items a) = tv a.
  Proof.
    destruct a; cbn [conj_items]; intros Ha;
      try (split; [constructor; [exact Ha|constructor] | cbn [forallb]; apply andb_true_r]).
    destruct Ha as [b Hb]. destruct (B_EAnd_inv _ _ Hb) as [Hd Hv]. split; [exact Hd|].
    rewrite (B_tv _ _ Hb). symmetry. exact Hv.
  Qed.

  Lemma sand_loop_sem args : forall acc, Defd args -> Defd acc ->
    match sand_loop args acc with
    | Some acc' => Defd acc' /\ forallb tv acc' = forallb tv args && forallb tv acc
    | None => forallb tv args && forallb tv acc = false
    end.
  Proof.
    induction args as [|a r IH]; intros acc Hi Ha; cbn [sand_loop].
    - split; [exact Ha|reflexivity].
    - inversion Hi as [|? ? Hda Hr]; subst. cbn [forallb]. destruct (is_true a) eqn:Et.
      + apply is_true_eq in Et. subst a. rewrite tv_true. exact (IH acc Hr Ha).
      + destruct (is_false a) eqn:Ef.
        * apply is_false_eq in Ef. subst a. rewrite tv_false. reflexivity.
        * destruct (conj_items_sem a Hda) as [Hc Hv]. pose proof (add_items_sem (conj_items a) acc Hc Ha) as HA.
          destruct (add_items (conj_items a) acc) as [acc'|].
          -- destruct HA as [HA1 HA2]. specialize (IH acc' Hr HA1). rewrite Hv in HA2.
             destruct (sand_loop r acc') as [acc''|].
             ++ destruct IH as [IH1 IH2]. split; [exact IH1|]. rewrite IH2, HA2.
                destruct (tv a), (forallb tv r), (forallb tv acc); reflexivity.
             ++ rewrite HA2 in IH. destruct (tv a), (forallb tv r), (forallb tv acc); simpl in *; congruence.
          -- rewrite Hv in HA. destruct (tv a), (forallb tv r), (forallb tv acc); simpl in *; congruence.
  Qed.

  Lemma simp_and_general args : Defd args ->
    B (match sand_loop args [] with
       | None => EBool false
       | Some [] => EBool true
       | Some [x] => x
       | Some l => EAnd l
       end) = Some (forallb tv args).
  Proof.
    intros H. pose proof (sand_loop_sem args [] H (Forall_nil _)) as HS.
    destruct (sand_loop args []) as [l|].
    - destruct HS as [Hd Hv]. cbn [forallb] in Hv. rewrite andb_true_r in Hv. rewrite <- Hv.
      destruct l as [|x [|y l]].
      + reflexivity.
      + inversion Hd; subst. cbn [forallb]. rewrite andb_true_r. apply D_tv. assumption.
      + apply B_EAnd_defd. exact Hd.
    - cbn [forallb] in HS. rewrite andb_true_r in HS. rewrite HS. reflexivity.
  Qed.

  Lemma simp_and_sem args : Defd args -> B (simp_and args) = Some (forallb tv args).
  Proof.
    intros H. unfold simp_and. destruct args as [|x [|y [|z r]]]; try (apply simp_and_general; exact H).
    cbv zeta. destruct (expr_eqb x y) eqn:E; [|apply simp_and_general; exact H].
    apply expr_eqb_eq in E. subst y. inversion H; subst. cbn [forallb].
    rewrite (D_tv x) by assumption. destruct (tv x); reflexivity.
  Qed.

  (* the simplifier on a product conjunction computes the conjunction's value *)
  Lemma simp_conj_sem big : Defd big -> B (simp_conj satom big) = Some (forallb tv big).
  Proof.
    intros H. destruct big as [|x [|y r]].
    - reflexivity.
    - inversion H; subst. cbn [simp_conj forallb]. rewrite andb_true_r. apply simp_lit_sem, D_tv. assumption.
    - unfold simp_conj. destruct (map_simp_lit_sem _ H) as [Hd Hv]. rewrite (simp_and_sem _ Hd), Hv. reflexivity.
  Qed.

  (* ---- lists of conjunctions *)
  Definition dv (t : list (list expr)) : bool := existsb (forallb tv) t.
  Notation DD := (Forall (Forall D)).

  Lemma dv_app t1 t2 : dv (t1 ++ t2) = dv t1 || dv t2.
  Proof. apply existsb_app. Qed.
  Lemma dv_cons c t : dv (c :: t) = forallb tv c || dv t.
  Proof. reflexivity. Qed.
  Lemma dv_nil : dv [] = false.
  Proof. reflexivity. Qed.

  Lemma product_cons_sem c P : Defd c -> DD P ->
    DD (map (fun rest => c ++ rest) P) /\ dv (map (fun rest => c ++ rest) P) = forallb tv c && dv P.
  Proof.
    intros Hc. induction 1 as [|x P Hx _ [IH1 IH2]]; cbn [map].
    - split; [constructor | symmetry; apply andb_false_r].
    - split; [constructor; [apply Forall_app; split; assumption | exact IH1]|].
      unfold dv in *. cbn [existsb]. rewrite IH2, forallb_app. symmetry. apply andb_orb_distrib_r.
  Qed.

  Lemma flat_sem d P : DD d -> DD P ->
    DD (flat_map (fun c => map (fun rest => c ++ rest) P) d)
    /\ dv (flat_map (fun c => map (fun rest => c ++ rest) P) d) = dv d && dv P.
  Proof.
    intros Hd HP. induction Hd as [|c d Hc _ [IH1 IH2]]; cbn [flat_map].
    - split; [constructor|reflexivity].
    - destruct (product_cons_sem c P Hc HP) as [H1 H2]. split; [apply Forall_app; split; assumption|].
      rewrite dv_app, H2, IH2. unfold dv. cbn [existsb]. symmetry. apply andb_orb_distrib_l.
  Qed.

  Lemma product_sem args : Forall DD args -> DD (product args) /\ dv (product args) = forallb dv args.
  Proof.
    induction 1 as [|d r Hd _ [IH1 IH2]]; cbn [product].
    - split; [repeat constructor | reflexivity].
    - destruct (flat_sem d (product r) Hd IH1) as [H1 H2]. split; [exact H1|]. rewrite H2, IH2. reflexivity.
  Qed.

  Lemma wa_loop_sem tuples : forall res, DD tuples -> DD res ->
    DD (wa_loop satom tuples res) /\ dv (wa_loop satom tuples res) = dv res || dv tuples.
  Proof.
    induction tuples as [|big r IH]; intros res Ht Hr; cbn [wa_loop].
    - split; [exact Hr | symmetry; apply orb_false_r].
    - inversion Ht as [|? ? Hb Hrr]; subst. pose proof (simp_conj_sem big Hb) as Hs. cbv zeta.
      rewrite dv_cons.
      destruct (is_true (simp_conj satom big)) eqn:Et.
      + apply is_true_eq in Et. rewrite Et, bv_EBool in Hs. injection Hs as Hv. rewrite <- Hv.
        split; [repeat constructor | rewrite orb_true_r; reflexivity].
      + destruct (is_false (simp_conj satom big)) eqn:Ef.
        * apply is_false_eq in Ef. rewrite Ef, bv_EBool in Hs. injection Hs as Hv. rewrite <- Hv. exact (IH res Hrr Hr).
        * destruct (conj_items_sem _ (B_D _ _ Hs)) as [Hc Hv]. rewrite (B_tv _ _ Hs) in Hv.
          assert (Hr' : DD (res ++ [conj_items (simp_conj satom big)])).
          { apply Forall_app. split; [exact Hr | constructor; [exact Hc | constructor]]. }
          destruct (IH _ Hrr Hr') as [IH1 IH2]. split; [exact IH1|].
          rewrite IH2, dv_app, dv_cons, dv_nil, Hv, orb_false_r, orb_assoc. reflexivity.
  Qed.

  Lemma map_dnf_walk_sem l :
    Forall (fun e => D e -> DD (dnf_walk satom e) /\ dv (dnf_walk satom e) = tv e) l -> Defd l ->
    Forall DD (map (dnf_walk satom) l)
    /\ forallb dv (map (dnf_walk satom) l) = forallb tv l
    /\ existsb dv (map (dnf_walk satom) l) = existsb tv l.
  Proof.
    induction 1 as [|x l Hx _ IH]; intros Hd; [split; [constructor|split; reflexivity]|].
    inversion Hd as [|? ? Hdx Hdl]; subst. destruct (Hx Hdx) as [H1 H2]. destruct (IH Hdl) as [I1 [I2 I3]].
    cbn [map forallb existsb]. rewrite H2, I2, I3. split; [constructor; assumption | split; reflexivity].
  Qed.

  Lemma concat_sem ts : Forall DD ts -> DD (concat ts) /\ dv (concat ts) = existsb dv ts.
  Proof.
    induction 1 as [|t ts Ht _ [IH1 IH2]]; cbn [concat existsb].
    - split; [constructor|reflexivity].
    - split; [apply Forall_app; split; assumption | rewrite dv_app, IH2; reflexivity].
  Qed.

  (* the list of conjunctions computed by the Dnf walker has the value of the expression *)
  Lemma dnf_walk_sem : forall e, D e -> DD (dnf_walk satom e) /\ dv (dnf_walk satom e) = tv e.
  Proof.
    induction e using expr_ind'; intros He;
      try (cbn [dnf_walk]; split; [repeat constructor; exact He | unfold dv; cbn [existsb forallb]; rewrite andb_true_r, orb_false_r; reflexivity]).
    - destruct He as [b Hb]. destruct (B_EAnd_inv _ _ Hb) as [Hd Hv].
      destruct (map_dnf_walk_sem l H Hd) as [M1 [M2 _]].
      cbn [dnf_walk]. unfold walk_and. destruct (product_sem _ M1) as [P1 P2].
      destruct (wa_loop_sem (product (map (dnf_walk satom) l)) [] P1 (Forall_nil _)) as [W1 W2].
      split; [exact W1|]. rewrite W2, P2, M2, (B_tv _ _ Hb). simpl. symmetry. exact Hv.
    - destruct He as [b Hb]. destruct (B_EOr_inv _ _ Hb) as [Hd Hv].
      destruct (map_dnf_walk_sem l H Hd) as [M1 [_ M3]].
      cbn [dnf_walk]. destruct (concat_sem _ M1) as [C1 C2].
      split; [exact C1|]. rewrite C2, M3, (B_tv _ _ Hb). symmetry. exact Hv.
  Qed.

  Lemma map_mkAnd_sem t : DD t -> Defd (map mkAnd t) /\ existsb tv (map mkAnd t) = dv t.
  Proof.
    induction 1 as [|c t Hc _ [IH1 IH2]]; [split; [constructor|reflexivity]|].
    pose proof (B_mkAnd_defd _ Hc) as Hm. cbn [map existsb]. split.
    - constructor; [eapply B_D; exact Hm | exact IH1].
    - unfold dv. cbn [existsb]. rewrite (B_tv _ _ Hm), IH2. reflexivity.
  Qed.

  (* Dnf.get_dnf_expression keeps the Boolean value of every expression that has one *)
  Lemma dnf_gen_sem e b : B e = Some b -> B (dnf_gen satom e) = Some b.
  Proof.
    intros H. rewrite <- nnf_equiv_bv in H. destruct (dnf_walk_sem (nnf e) (B_D _ _ H)) as [W1 W2].
    unfold dnf_gen. destruct (map_mkAnd_sem _ W1) as [M1 M2].
    rewrite (B_mkOr_defd _ M1), M2, W2, (B_tv _ _ H). reflexivity.
  Qed.

  (* a product conjunction that the simplifier turns into a constant has that constant as its value *)
  Lemma simp_conj_constant c k : simp_conj satom c = EBool k -> Defd c -> forallb tv c = k.
  Proof. intros Hk Hd. pose proof (simp_conj_sem c Hd) as Hs. rewrite Hk, bv_EBool in Hs. inversion Hs. reflexivity. Qed.

  Lemma D_mkAnd_inv c : D (mkAnd c) -> Defd c /\ tv (mkAnd c) = forallb tv c.
  Proof.
    intros [b Hb]. assert (Hd : Defd c).
    { rewrite bv_mkAnd in Hb. apply B_EAnd_inv in Hb. apply Hb. }
    split; [exact Hd|]. apply B_tv, B_mkAnd_defd, Hd.
  Qed.

  Lemma Defd_replace pre x y post : Defd (pre ++ x :: post) -> D y -> Defd (pre ++ y :: post).
  Proof.
    intros H Hy. apply Forall_app in H. destruct H as [H1 H2]. inversion H2; subst.
    apply Forall_app. split; [exact H1 | constructor; assumption].
  Qed.

  Lemma Defd_mid pre (x : expr) post : Defd (pre ++ x :: post) -> D x.
  Proof. intros H. apply Forall_app in H. destruct H as [_ H2]. inversion H2; assumption. Qed.

  Lemma forallb_replace pre x y post : tv x = tv y -> forallb tv (pre ++ x :: post) = forallb tv (pre ++ y :: post).
  Proof. intros E. rewrite !forallb_app. cbn [forallb]. rewrite E. reflexivity. Qed.
  Lemma existsb_replace pre x y post : tv x = tv y -> existsb tv (pre ++ x :: post) = existsb tv (pre ++ y :: post).
  Proof. intros E. rewrite !existsb_app. cbn [existsb]. rewrite E. reflexivity. Qed.

  (* replacing a sub-conjunction by the constant it simplifies to changes neither the value of the expression nor
     the value of its DNF *)
  Lemma constant_conjunct_and pre c post k b :
    simp_conj satom c = EBool k -> B (EAnd (pre ++ mkAnd c :: post)) = Some b ->
    B (dnf_gen satom (EAnd (pre ++ mkAnd c :: post))) = Some b
    /\ B (EAnd (pre ++ EBool k :: post)) = Some b
    /\ B (dnf_gen satom (EAnd (pre ++ EBool k :: post))) = Some b.
  Proof.
    intros Hk Hb. assert (H2 : B (EAnd (pre ++ EBool k :: post)) = Some b).
    { destruct (B_EAnd_inv _ _ Hb) as [Hd Hv]. destruct (D_mkAnd_inv c (Defd_mid _ _ _ Hd)) as [Hc Ht].
      rewrite (simp_conj_constant c k Hk Hc) in Ht.
      assert (Dk : D (EBool k)) by (exists k; reflexivity).
      rewrite (B_EAnd_defd _ (Defd_replace _ _ _ _ Hd Dk)), Hv. f_equal. apply forallb_replace.
      rewrite Ht. destruct k; reflexivity. }
    split; [apply dnf_gen_sem; exact Hb | split; [exact H2 | apply dnf_gen_sem; exact H2]].
  Qed.

  Lemma constant_conjunct_or pre c post k b :
    simp_conj satom c = EBool k -> B (EOr (pre ++ mkAnd c :: post)) = Some b ->
    B (dnf_gen satom (EOr (pre ++ mkAnd c :: post))) = Some b
    /\ B (EOr (pre ++ EBool k :: post)) = Some b
    /\ B (dnf_gen satom (EOr (pre ++ EBool k :: post))) = Some b.
  Proof.
    intros Hk Hb. assert (H2 : B (EOr (pre ++ EBool k :: post)) = Some b).
    { destruct (B_EOr_inv _ _ Hb) as [Hd Hv]. destruct (D_mkAnd_inv c (Defd_mid _ _ _ Hd)) as [Hc Ht].
      rewrite (simp_conj_constant c k Hk Hc) in Ht.
      assert (Dk : D (EBool k)) by (exists k; reflexivity).
      rewrite (B_EOr_defd _ (Defd_replace _ _ _ _ Hd Dk)), Hv. f_equal. apply existsb_replace.
      rewrite Ht. destruct k; reflexivity. }
    split; [apply dnf_gen_sem; exact Hb | split; [exact H2 | apply dnf_gen_sem; exact H2]].
  Qed.
End DnfSem.

(* ================================================================== DNF: shape *)
Lemma atomic_literal a : atomic a = true -> literal a = true.
Proof. destruct a; try discriminate; intros _; reflexivity. Qed.

Lemma neg_of_lit s : atomic s = true -> literal (neg_of s) = true.
Proof. destruct s; try discriminate; intros _; reflexivity. Qed.

Lemma literal_conj_items a : literal a = true -> conj_items a = [a].
Proof. destruct a; try discriminate; intros _; reflexivity. Qed.

Lemma literal_not_and a l : literal a = true -> a <> EAnd l.
Proof. intros H E. subst. discriminate. Qed.

Section DnfShape.
  Variable satom : expr -> expr.
  (* what the shape theorem needs from the simplifier inside atoms: an atom stays an atom (or becomes a constant) *)
  Hypothesis satom_atomic : forall a, atomic a = true -> atomic (satom a) = true.

  Notation Lit := (fun x : expr => literal x = true).
  Notation LL := (Forall (Forall Lit)).

  Lemma simp_lit_lit x : literal x = true -> literal (simp_lit satom x) = true.
  Proof.
    destruct x; cbn [simp_lit]; intros H; try discriminate;
      try (apply atomic_literal, satom_atomic; reflexivity).
    apply neg_of_lit, satom_atomic. exact H.
  Qed.

  Lemma od_add_lit s acc : Lit s -> Forall Lit acc -> Forall Lit (od_add s acc).
  Proof.
    intros Hs Ha. unfold od_add. destruct (mem_expr s acc); [exact Ha|].
    apply Forall_app. split; [exact Ha | constructor; [exact Hs|constructor]].
  Qed.

  Lemma add_items_lit items : forall acc acc', Forall Lit items -> Forall Lit acc ->
    add_items items acc = Some acc' -> Forall Lit acc'.
  Proof.
    induction items as [|s r IH]; intros acc acc' Hi Ha; cbn [add_items].
    - intros E. inversion E. subst. exact Ha.
    - inversion Hi; subst. destruct (mem_expr (neg_of s) acc); [discriminate|].
      apply IH; [assumption | apply od_add_lit; assumption].
  Qed.

  Lemma sand_loop_lit args : forall acc acc', Forall Lit args -> Forall Lit acc ->
    sand_loop args acc = Some acc' -> Forall Lit acc'.
  Proof.
    induction args as [|a r IH]; intros acc acc' Hi Ha; cbn [sand_loop].
    - intros E. inversion E. subst. exact Ha.
    - inversion Hi as [|? ? Hla Hr]; subst. destruct (is_true a); [apply IH; assumption|].
      destruct (is_false a); [discriminate|]. rewrite (literal_conj_items a Hla).
      destruct (add_items [a] acc) as [acc1|] eqn:E; [|discriminate].
      apply IH; [assumption|]. eapply add_items_lit; [| |exact E]; [constructor; [exact Hla|constructor] | exact Ha].
  Qed.

  Lemma simp_and_general_lit args : Forall Lit args ->
    Forall Lit (conj_items (match sand_loop args [] with
                            | None => EBool false
                            | Some [] => EBool true
                            | Some [x] => x
                            | Some l => EAnd l
                            end)).
  Proof.
    intros H. destruct (sand_loop args []) as [l|] eqn:E.
    - pose proof (sand_loop_lit args [] l H (Forall_nil _) E) as Hl.
      destruct l as [|x [|y l]].
      + repeat constructor.
      + inversion Hl; subst. rewrite literal_conj_items by assumption. exact Hl.
      + exact Hl.
    - repeat constructor.
  Qed.

  Lemma simp_and_lit args : Forall Lit args -> Forall Lit (conj_items (simp_and args)).
  Proof.
    intros H. unfold simp_and. destruct args as [|x [|y [|z r]]]; try (apply simp_and_general_lit; exact H).
    cbv zeta. destruct (expr_eqb x y); [|apply simp_and_general_lit; exact H].
    inversion H; subst. rewrite literal_conj_items by assumption. constructor; [assumption|constructor].
  Qed.

  Lemma simp_conj_lit big : Forall Lit big -> Forall Lit (conj_items (simp_conj satom big)).
  Proof.
    intros H. destruct big as [|x [|y r]].
    - repeat constructor.
    - inversion H; subst. cbn [simp_conj]. pose proof (simp_lit_lit x) as Hx.
      rewrite literal_conj_items by (apply Hx; assumption). constructor; [apply Hx; assumption|constructor].
    - unfold simp_conj. apply simp_and_lit. apply Forall_forall. intros z Hz. apply in_map_iff in Hz.
      destruct Hz as [w [<- Hw]]. apply simp_lit_lit. rewrite Forall_forall in H. apply H. exact Hw.
  Qed.

  Lemma product_lit args : Forall LL args -> LL (product args).
  Proof.
    induction 1 as [|d r Hd _ IH]; cbn [product]; [repeat constructor|].
    apply Forall_forall. intros t Ht. apply in_flat_map in Ht. destruct Ht as [c [Hc Ht]].
    apply in_map_iff in Ht. destruct Ht as [rest [<- Hrest]].
    apply Forall_app. split.
    - rewrite Forall_forall in Hd. apply Hd. exact Hc.
    - rewrite Forall_forall in IH. apply IH. exact Hrest.
  Qed.

  Lemma wa_loop_lit tuples : forall res, LL tuples -> LL res -> LL (wa_loop satom tuples res).
  Proof.
    induction tuples as [|big r IH]; intros res Ht Hr; cbn [wa_loop]; [exact Hr|].
    inversion Ht as [|? ? Hb Hrr]; subst. cbv zeta.
    destruct (is_true (simp_conj satom big)); [repeat constructor|].
    destruct (is_false (simp_conj satom big)); [apply IH; assumption|].
    apply IH; [assumption|]. apply Forall_app. split; [exact Hr|].
    constructor; [apply simp_conj_lit; exact Hb | constructor].
  Qed.

  Lemma dnf_walk_lit : forall e, nnf_shape e = true -> LL (dnf_walk satom e).
  Proof.
    induction e using expr_ind'; intros Hs; try (cbn [dnf_walk]; repeat constructor; exact Hs).
    - cbn [dnf_walk]. unfold walk_and. apply wa_loop_lit; [|constructor]. apply product_lit.
      rewrite nnf_shape_EAnd in Hs. rewrite forallb_forall in Hs.
      apply Forall_forall. intros t Ht. apply in_map_iff in Ht. destruct Ht as [x [<- Hx]].
      rewrite Forall_forall in H. apply H; [exact Hx | apply Hs; exact Hx].
    - cbn [dnf_walk]. rewrite nnf_shape_EOr in Hs. rewrite forallb_forall in Hs.
      apply Forall_forall. intros c Hc. apply in_concat in Hc. destruct Hc as [t [Ht Hc]].
      apply in_map_iff in Ht. destruct Ht as [x [<- Hx]].
      rewrite Forall_forall in H. specialize (H x Hx (Hs x Hx)). rewrite Forall_forall in H. apply H. exact Hc.
  Qed.

  Lemma conj_shape_mkAnd c : Forall Lit c -> conj_shape (mkAnd c) = true.
  Proof.
    intros H. destruct c as [|x [|y c]].
    - reflexivity.
    - inversion H; subst. cbn [mkAnd]. destruct x; try discriminate; assumption.
    - cbn [mkAnd conj_shape]. apply forallb_forall. rewrite Forall_forall in H. exact H.
  Qed.

  Lemma dnf_shape_mkOr l : Forall (fun x => conj_shape x = true) l -> dnf_shape (mkOr l) = true.
  Proof.
    intros H. destruct l as [|x [|y l]].
    - reflexivity.
    - inversion H; subst. cbn [mkOr]. destruct x; try discriminate; assumption.
    - cbn [mkOr dnf_shape]. apply forallb_forall. rewrite Forall_forall in H. exact H.
  Qed.

  (* Dnf.get_dnf_expression returns a disjunction of conjunctions of literals *)
  Lemma dnf_gen_shape e : dnf_shape (dnf_gen satom e) = true.
  Proof.
    unfold dnf_gen. apply dnf_shape_mkOr. apply Forall_forall. intros x Hx.
    apply in_map_iff in Hx. destruct Hx as [c [<- Hc]]. apply conj_shape_mkAnd.
    pose proof (dnf_walk_lit (nnf e) (nnf_is_nnf e)) as HL. rewrite Forall_forall in HL. apply HL. exact Hc.
  Qed.
End DnfShape.

(* ================================================================== the instance: constant folding of comparisons *)
Lemma num_const_eval sc I a x : num_const a = Some x -> eval sc a I = Some (VNum x).
Proof. destruct a; try discriminate; simpl; intros H; inversion H; reflexivity. Qed.

Lemma obj_const_eval sc I a x : obj_const a = Some x -> eval sc a I = Some (VObj x).
Proof. destruct a; try discriminate; simpl; intros H; inversion H; reflexivity. Qed.

Lemma simp_atom_atomic a : atomic a = true -> atomic (simp_atom a) = true.
Proof.
  destruct a; try discriminate; intros _; try reflexivity; cbn [simp_atom].
  - destruct (num_const a1), (num_const a2); reflexivity.
  - destruct (num_const a1), (num_const a2); reflexivity.
  - destruct (num_const a1), (num_const a2), (obj_const a1), (obj_const a2), (expr_eqb a1 a2); reflexivity.
Qed.

Lemma bv_EEquals_refl sc I a b : bv sc I (EEquals a a) = Some b -> b = true.
Proof.
  unfold bv. rewrite eval_EEquals. destruct (eval sc a I) as [[x|x|x]|]; simpl; intros H; try discriminate;
    inversion H; [apply qc_eqb_refl | apply N.eqb_refl].
Qed.

Lemma simp_atom_sound sc I a b : bv sc I a = Some b -> bv sc I (simp_atom a) = Some b.
Proof.
  destruct a; try (intros H; exact H); cbn [simp_atom].
  - destruct (num_const a1) as [x|] eqn:E1; [|trivial]. destruct (num_const a2) as [y|] eqn:E2; [|trivial].
    unfold bv. rewrite eval_ELe, (num_const_eval _ _ _ _ E1), (num_const_eval _ _ _ _ E2). trivial.
  - destruct (num_const a1) as [x|] eqn:E1; [|trivial]. destruct (num_const a2) as [y|] eqn:E2; [|trivial].
    unfold bv. rewrite eval_ELt, (num_const_eval _ _ _ _ E1), (num_const_eval _ _ _ _ E2). trivial.
  - assert (Hrest : bv sc I (EEquals a1 a2) = Some b ->
                    bv sc I (match obj_const a1, obj_const a2 with
                             | Some x, Some y => EBool (x =? y)%N
                             | _, _ => if expr_eqb a1 a2 then EBool true else EEquals a1 a2
                             end) = Some b).
    { assert (Heq : bv sc I (EEquals a1 a2) = Some b ->
                    bv sc I (if expr_eqb a1 a2 then EBool true else EEquals a1 a2) = Some b).
      { destruct (expr_eqb a1 a2) eqn:E; [|trivial]. apply expr_eqb_eq in E. subst a2.
        intros H. apply bv_EEquals_refl in H. subst b. reflexivity. }
      destruct (obj_const a1) as [x|] eqn:O1; [|exact Heq]. destruct (obj_const a2) as [y|] eqn:O2; [|exact Heq].
      unfold bv. rewrite eval_EEquals, (obj_const_eval _ _ _ _ O1), (obj_const_eval _ _ _ _ O2). trivial. }
    destruct (num_const a1) as [x|] eqn:E1; [|exact Hrest]. destruct (num_const a2) as [y|] eqn:E2; [|exact Hrest].
    unfold bv. rewrite eval_EEquals, (num_const_eval _ _ _ _ E1), (num_const_eval _ _ _ _ E2). trivial.
Qed.

(* ================================================================== closed statements about [dnf] = dnf_gen simp_atom *)
Lemma dnf_equiv sc e I b : eval sc e I = Some (VBool b) -> eval sc (dnf e) I = Some (VBool b).
Proof. rewrite <- !bv_Some. apply dnf_gen_sem. intros; apply simp_atom_sound; assumption. Qed.

Lemma dnf_is_dnf e : dnf_shape (dnf e) = true.
Proof. apply dnf_gen_shape. exact simp_atom_atomic. Qed.

(* ---- the propositional reading of the shapes *)
Lemma literal_Literal x : literal x = true -> Literal x.
Proof.
  destruct x; intros H; try discriminate; try (left; reflexivity).
  right. exists x. split; [reflexivity|exact H].
Qed.

Lemma nnf_shape_NNF : forall e, nnf_shape e = true -> NNF e.
Proof.
  induction e using expr_ind'; intros Hs; try discriminate; try (apply NNF_atom; reflexivity).
  - apply NNF_and. rewrite nnf_shape_EAnd, forallb_forall in Hs. rewrite Forall_forall in *. intros x Hx. apply H; auto.
  - apply NNF_or. rewrite nnf_shape_EOr, forallb_forall in Hs. rewrite Forall_forall in *. intros x Hx. apply H; auto.
  - apply NNF_neg. exact Hs.
Qed.

Lemma conj_shape_Conj c : conj_shape c = true -> Conj c.
Proof.
  destruct c; intros H; try (left; apply literal_Literal; exact H).
  right. exists l. split; [reflexivity|]. cbn [conj_shape] in H. rewrite forallb_forall in H.
  apply Forall_forall. intros x Hx. apply literal_Literal, H, Hx.
Qed.

Lemma dnf_shape_DNF d : dnf_shape d = true -> DNF d.
Proof.
  destruct d; intros H; try (left; apply conj_shape_Conj; exact H).
  right. exists l. split; [reflexivity|]. cbn [dnf_shape] in H. rewrite forallb_forall in H.
  apply Forall_forall. intros x Hx. apply conj_shape_Conj, H, Hx.
Qed.

Lemma nnf_is_NNF e : NNF (nnf e).
Proof. apply nnf_shape_NNF, nnf_is_nnf. Qed.

Lemma dnf_is_DNF e : DNF (dnf e).
Proof. apply dnf_shape_DNF, dnf_is_dnf. Qed.

(* ---- statements in terms of [eval] for Props/C12.v *)
Lemma dnf_gen_equiv (satom : expr -> expr) :
  (forall sc I a b, eval sc a I = Some (VBool b) -> eval sc (satom a) I = Some (VBool b)) ->
  forall sc e I b, eval sc e I = Some (VBool b) -> eval sc (dnf_gen satom e) I = Some (VBool b).
Proof.
  intros Hs sc e I b. rewrite <- !bv_Some. apply dnf_gen_sem.
  intros sc' I' a b'. rewrite !bv_Some. apply Hs.
Qed.

Lemma dnf_gen_is_dnf (satom : expr -> expr) :
  (forall a, atomic a = true -> atomic (satom a) = true) -> forall e, dnf_shape (dnf_gen satom e) = true.
Proof. intros Hs e. apply dnf_gen_shape. exact Hs. Qed.

Lemma simp_atom_sound' : forall sc I a b, bv sc I a = Some b -> bv sc I (simp_atom a) = Some b.
Proof. intros; apply simp_atom_sound; assumption. Qed.

Lemma dnf_constant_conjunct_and sc I pre c post k b :
  simp_conj simp_atom c = EBool k ->
  eval sc (EAnd (pre ++ mkAnd c :: post)) I = Some (VBool b) ->
  eval sc (dnf (EAnd (pre ++ mkAnd c :: post))) I = Some (VBool b)
  /\ eval sc (EAnd (pre ++ EBool k :: post)) I = Some (VBool b)
  /\ eval sc (dnf (EAnd (pre ++ EBool k :: post))) I = Some (VBool b).
Proof. rewrite <- !bv_Some. apply constant_conjunct_and. exact simp_atom_sound'. Qed.

Lemma dnf_constant_conjunct_or sc I pre c post k b :
  simp_conj simp_atom c = EBool k ->
  eval sc (EOr (pre ++ mkAnd c :: post)) I = Some (VBool b) ->
  eval sc (dnf (EOr (pre ++ mkAnd c :: post))) I = Some (VBool b)
  /\ eval sc (EOr (pre ++ EBool k :: post)) I = Some (VBool b)
  /\ eval sc (dnf (EOr (pre ++ EBool k :: post))) I = Some (VBool b).
Proof. rewrite <- !bv_Some. apply constant_conjunct_or. exact simp_atom_sound'. Qed.

(* a conjunction of (defined) literals that simplifies to the constant k has the value k under every interpretation *)
Lemma constant_conjunct_value sc I c k :
  simp_conj simp_atom c = EBool k ->
  (forall x, In x c -> exists b, eval sc x I = Some (VBool b)) ->
  eval sc (mkAnd c) I = Some (VBool k).
Proof.
  intros Hk Hd. assert (Hc : Forall (D sc I) c).
  { apply Forall_forall. intros x Hx. destruct (Hd x Hx) as [b Hb]. exists b. apply bv_Some. exact Hb. }
  apply bv_Some. rewrite (B_mkAnd_defd sc I c Hc). f_equal.
  exact (simp_conj_constant simp_atom simp_atom_sound' sc I c k Hk Hc).
Qed.
