(* Proofs about Walkers/NnfDnf.v (C12).
   Semantics: Core/Eval.v, either quantifier mode [sc]; [bv sc I e] is the Boolean reading of an expression
   (None = undefined or not a Boolean).  All statements are for every expression and every interpretation. *)
From Coq Require Import List ZArith NArith QArith Qcanon Bool Lia.
Import ListNotations.
Require Import UPV.Core.Expr UPV.Core.Eval UPV.Proofs.Eval_lemmas UPV.Walkers.NnfDnf.

Definition bv (sc : bool) (I : interp) (e : expr) : option bool := as_bool (eval sc e I).

Lemma bv_Some sc I e b : bv sc I e = Some b <-> eval sc e I = Some (VBool b).
Proof.
  unfold bv. destruct (eval sc e I) as [[x|x|x]|]; simpl; split; intro H; try discriminate; inversion H; reflexivity.
Qed.

Lemma bv_EBool sc I b : bv sc I (EBool b) = Some b.
Proof. reflexivity. Qed.

Lemma bv_ENot sc I a : bv sc I (ENot a) = option_map negb (bv sc I a).
Proof. unfold bv. rewrite eval_ENot. destruct (as_bool (eval sc a I)); reflexivity. Qed.

Lemma bv_EAnd sc I l : bv sc I (EAnd l) = option_map (forallb (fun b => b)) (ebools sc I l).
Proof. unfold bv. rewrite eval_EAnd. destruct (ebools sc I l); reflexivity. Qed.

Lemma bv_EOr sc I l : bv sc I (EOr l) = option_map (existsb (fun b => b)) (ebools sc I l).
Proof. unfold bv. rewrite eval_EOr. destruct (ebools sc I l); reflexivity. Qed.

Lemma bv_EImplies sc I a b :
  bv sc I (EImplies a b) = match bv sc I a, bv sc I b with Some x, Some y => Some (implb x y) | _, _ => None end.
Proof. unfold bv. rewrite eval_EImplies. destruct (as_bool (eval sc a I)), (as_bool (eval sc b I)); reflexivity. Qed.

Lemma bv_EIff sc I a b :
  bv sc I (EIff a b) = match bv sc I a, bv sc I b with Some x, Some y => Some (Bool.eqb x y) | _, _ => None end.
Proof. unfold bv. rewrite eval_EIff. destruct (as_bool (eval sc a I)), (as_bool (eval sc b I)); reflexivity. Qed.

Lemma ebools_cons sc I x l :
  ebools sc I (x :: l) = match bv sc I x, ebools sc I l with Some v, Some vs => Some (v :: vs) | _, _ => None end.
Proof. reflexivity. Qed.

Lemma bv_mkAnd sc I l : bv sc I (mkAnd l) = bv sc I (EAnd l).
Proof.
  destruct l as [|x [|y l]]; try reflexivity.
  rewrite bv_EAnd, ebools_cons. simpl. destruct (bv sc I x) as [b|]; simpl; [rewrite andb_true_r|]; reflexivity.
Qed.

Lemma bv_mkOr sc I l : bv sc I (mkOr l) = bv sc I (EOr l).
Proof.
  destruct l as [|x [|y l]]; try reflexivity.
  rewrite bv_EOr, ebools_cons. simpl. destruct (bv sc I x) as [b|]; simpl; [rewrite orb_false_r|]; reflexivity.
Qed.

(* ================================================================== NNF *)
Definition pol (p b : bool) : bool := if p then b else negb b.

Lemma forallb_pol_true bs : forallb (fun b => b) (map (pol true) bs) = forallb (fun b => b) bs.
Proof. induction bs as [|b bs IH]; simpl; [|rewrite IH]; reflexivity. Qed.
Lemma existsb_pol_true bs : existsb (fun b => b) (map (pol true) bs) = existsb (fun b => b) bs.
Proof. induction bs as [|b bs IH]; simpl; [|rewrite IH]; reflexivity. Qed.
Lemma existsb_pol_false bs : existsb (fun b => b) (map (pol false) bs) = negb (forallb (fun b => b) bs).
Proof. induction bs as [|b bs IH]; simpl; [|rewrite IH; destruct b]; reflexivity. Qed.
Lemma forallb_pol_false bs : forallb (fun b => b) (map (pol false) bs) = negb (existsb (fun b => b) bs).
Proof. induction bs as [|b bs IH]; simpl; [|rewrite IH; destruct b]; reflexivity. Qed.

Section Sem.
  Variable sc : bool.
  Variable I : interp.
  Notation B := (bv sc I).

  Lemma ebools_map_nnf p l :
    Forall (fun e => forall p, B (nnf_pol p e) = option_map (pol p) (B e)) l ->
    ebools sc I (map (nnf_pol p) l) = option_map (map (pol p)) (ebools sc I l).
  Proof.
    induction 1 as [|x l Hx _ IH]; [reflexivity|].
    cbn [map]. rewrite !ebools_cons, Hx, IH. destruct (B x), (ebools sc I l); reflexivity.
  Qed.

  Lemma andp_sem p l :
    Forall (fun e => forall p, B (nnf_pol p e) = option_map (pol p) (B e)) l ->
    B (andp p (map (nnf_pol p) l)) = option_map (pol p) (B (EAnd l)).
  Proof.
    intros H. unfold andp. destruct p.
    - rewrite bv_mkAnd, !bv_EAnd, (ebools_map_nnf _ _ H). destruct (ebools sc I l); simpl; [rewrite forallb_pol_true|]; reflexivity.
    - rewrite bv_mkOr, bv_EOr, bv_EAnd, (ebools_map_nnf _ _ H). destruct (ebools sc I l); simpl; [rewrite existsb_pol_false|]; reflexivity.
  Qed.

  Lemma orp_sem p l :
    Forall (fun e => forall p, B (nnf_pol p e) = option_map (pol p) (B e)) l ->
    B (orp p (map (nnf_pol p) l)) = option_map (pol p) (B (EOr l)).
  Proof.
    intros H. unfold orp. destruct p.
    - rewrite bv_mkOr, !bv_EOr, (ebools_map_nnf _ _ H). destruct (ebools sc I l); simpl; [rewrite existsb_pol_true|]; reflexivity.
    - rewrite bv_mkAnd, bv_EOr, bv_EAnd, (ebools_map_nnf _ _ H). destruct (ebools sc I l); simpl; [rewrite forallb_pol_false|]; reflexivity.
  Qed.

  Lemma atom_pol (p : bool) (e : expr) : B (if p then e else ENot e) = option_map (pol p) (B e).
  Proof. destruct p; [|rewrite bv_ENot]; destruct (B e); reflexivity. Qed.

  (* the Boolean reading of nnf_pol p e is that of e (p = true) / of its negation (p = false), defined or not *)
  Lemma nnf_pol_sem : forall e p, B (nnf_pol p e) = option_map (pol p) (B e).
  Proof.
    induction e using expr_ind'; intros pl; try (exact (atom_pol pl _)).
    - exact (andp_sem pl l H).
    - exact (orp_sem pl l H).
    - cbn [nnf_pol]. rewrite IHe, bv_ENot. destruct (B e) as [b|]; [|reflexivity]. destruct pl, b; reflexivity.
    - cbn [nnf_pol]. unfold orp.
      destruct pl; [rewrite bv_mkOr, bv_EOr | rewrite bv_mkAnd, bv_EAnd]; rewrite !ebools_cons, IHe1, IHe2, bv_EImplies;
        destruct (B e1) as [x|], (B e2) as [y|]; try reflexivity; destruct x, y; reflexivity.
    - cbn [nnf_pol]. unfold orp, andp.
      destruct pl;
        [rewrite bv_mkOr, bv_EOr, !ebools_cons, !bv_mkAnd, !bv_EAnd
        |rewrite bv_mkAnd, bv_EAnd, !ebools_cons, !bv_mkOr, !bv_EOr];
        rewrite !ebools_cons, !IHe1, !IHe2, bv_EIff;
        destruct (B e1) as [x|], (B e2) as [y|]; try reflexivity; destruct x, y; reflexivity.
  Qed.
End Sem.
