(* Proofs about the typed-store model (C23). *)
From Coq Require Import List ZArith NArith QArith Bool Lia.
Import ListNotations.
Require Import UPV.Model.TypedStore.

(* ------------------------------------------------------------------ type equality and compatibility *)
Lemma optZ_eqb_eq a b : optZ_eqb a b = true -> a = b.
Proof. destruct a, b; simpl; try discriminate; [rewrite Z.eqb_eq; congruence | reflexivity]. Qed.

Lemma optQ_eqb_trans a b c : optQ_eqb a b = true -> optQ_eqb b c = true -> optQ_eqb a c = true.
Proof.
  destruct a, b, c; simpl; try discriminate; try reflexivity.
  rewrite !Qeq_bool_iff. intros H1 H2. rewrite H1. exact H2.
Qed.

Lemma le_opt_compat_l a a' b : optQ_eqb a a' = true -> le_opt a b = le_opt a' b.
Proof.
  destruct a, a', b; simpl; try discriminate; try reflexivity.
  rewrite Qeq_bool_iff. intros H.
  destruct (Qle_bool q q1) eqn:E1, (Qle_bool q0 q1) eqn:E2; try reflexivity.
  - apply Qle_bool_iff in E1. rewrite H in E1. apply Qle_bool_iff in E1. congruence.
  - apply Qle_bool_iff in E2. rewrite <- H in E2. apply Qle_bool_iff in E2. congruence.
Qed.

Lemma le_opt_compat_r a b b' : optQ_eqb b b' = true -> le_opt a b = le_opt a b'.
Proof.
  destruct a, b, b'; simpl; try discriminate; try reflexivity.
  rewrite Qeq_bool_iff. intros H.
  destruct (Qle_bool q q0) eqn:E1, (Qle_bool q q1) eqn:E2; try reflexivity.
  - apply Qle_bool_iff in E1. rewrite H in E1. apply Qle_bool_iff in E1. congruence.
  - apply Qle_bool_iff in E2. rewrite <- H in E2. apply Qle_bool_iff in E2. congruence.
Qed.

Lemma ty_eqb_trans a b c : ty_eqb a b = true -> ty_eqb b c = true -> ty_eqb a c = true.
Proof.
  destruct a, b, c; simpl; try discriminate; try reflexivity.
  - rewrite !andb_true_iff. intros [A1 A2] [B1 B2].
    apply optZ_eqb_eq in A1, A2, B1, B2. subst. split; [destruct lo1 | destruct hi1]; simpl; auto using Z.eqb_refl.
  - rewrite !andb_true_iff. intros [A1 A2] [B1 B2]. split; eapply optQ_eqb_trans; eauto.
  - rewrite !N.eqb_eq. congruence.
Qed.

(* two equal (interned) target types accept the same values: needed for the per-type default, which is looked up
   under the fluent's type *)
Lemma compatible_eqb_l h a b c : ty_eqb a b = true -> compatible h b c = true -> compatible h a c = true.
Proof.
  intros E H. unfold compatible in *.
  destruct (ty_eqb a c) eqn:AC; [reflexivity|].
  destruct (ty_eqb b c) eqn:BC; [rewrite (ty_eqb_trans a b c E BC) in AC; discriminate|].
  destruct a, b; simpl in E; try discriminate.
  - apply andb_true_iff in E. destruct E as [E1 E2]. apply optZ_eqb_eq in E1, E2. subst. exact H.
  - apply andb_true_iff in E. destruct E as [E1 E2].
    destruct c; try exact H; unfold overlap in *;
      rewrite (le_opt_compat_l _ _ _ E1), (le_opt_compat_r _ _ _ E2); exact H.
  - apply N.eqb_eq in E. subst. exact H.
Qed.

Lemma find_type_default_In t ds v :
  find_type_default t ds = Some v -> exists k, In (k, v) ds /\ ty_eqb t k = true.
Proof.
  induction ds as [|[k w] ds IH]; simpl; [discriminate|].
  destruct (ty_eqb t k) eqn:E.
  - intros H. inversion H; subst. exists k. auto.
  - intros H. destruct (IH H) as (k' & Hk & Ek). exists k'. auto.
Qed.

Lemma upsert_In {A} k (x : A) d k' y : In (k', y) (upsert k x d) -> (k', y) = (k, x) \/ In (k', y) d.
Proof.
  induction d as [|[k0 y0] d IH]; simpl.
  - intros [H|[]]; auto.
  - destruct (k =? k0)%N; simpl; intros [H|H]; auto. destruct (IH H); auto.
Qed.

(* ------------------------------------------------------------------ a rejected call leaves the model unchanged *)
Theorem step_rejected_unchanged h s o : snd (step h s o) = true -> fst (step h s o) = s.
Proof.
  destruct o as [f t d | key t ac v | st k t v cb tk cf | ps]; simpl.
  - unfold add_fluent. destruct (has_fluent f s); [reflexivity|].
    destruct d as [v|]; [destruct (default_ok h t v)|]; simpl; (reflexivity || discriminate).
  - unfold set_initial_value.
    destruct (negb (promotable v)); [reflexivity|]. destruct (negb ac); [reflexivity|].
    destruct (negb (compatible h t (type_of v))); [reflexivity|]. destruct (negb (is_constant v)); [reflexivity|].
    simpl; discriminate.
  - unfold add_effect.
    destruct (negb tk); [reflexivity|]. destruct (negb (promotable v)); [reflexivity|].
    destruct (negb cb); [reflexivity|]. destruct (negb (compatible h t (type_of v))); [reflexivity|].
    destruct (match k with EAssign => false | _ => negb (is_numeric t) end); [reflexivity|].
    destruct cf; [reflexivity|]. simpl; discriminate.
  - unfold action_instance.
    destruct (negb (forallb (fun p => promotable (snd p)) ps)); [reflexivity|].
    destruct (negb (forallb (param_ok h) ps)); [reflexivity|]. simpl; discriminate.
Qed.

(* ------------------------------------------------------------------ the invariant *)
Lemma default_ok_stored h t v : default_ok h t v = true -> stored_const_ok h t v = true.
Proof.
  unfold default_ok, stored_const_ok. rewrite !andb_true_iff. tauto.
Qed.

Theorem mk_problem_well_typed h ds s : mk_problem h ds = Some s -> well_typed h s.
Proof.
  unfold mk_problem. destruct (forallb (fun p => default_ok h (fst p) (snd p)) ds) eqn:E; [|discriminate].
  intros H. inversion H; subst; clear H. rewrite forallb_forall in E.
  unfold well_typed; simpl. repeat split; try (intros; contradiction).
  intros t v Hin. apply default_ok_stored. exact (E (t, v) Hin).
Qed.

Theorem mk_problem_rejects h ds : mk_problem h ds = None <-> exists t v, In (t, v) ds /\ default_ok h t v = false.
Proof.
  unfold mk_problem. destruct (forallb (fun p => default_ok h (fst p) (snd p)) ds) eqn:E.
  - split; [discriminate|]. intros (t & v & Hin & Hb). rewrite forallb_forall in E. specialize (E (t, v) Hin).
    simpl in E. congruence.
  - split; [intros _|reflexivity].
    assert (exists p, In p ds /\ default_ok h (fst p) (snd p) = false) as ([t v] & Hin & Hb).
    { clear -E. induction ds as [|p ds IH]; simpl in E; [discriminate|].
      destruct (default_ok h (fst p) (snd p)) eqn:D.
      - destruct (IH E) as (q & Hq & Hd). exists q. simpl; auto.
      - exists p. simpl; auto. }
    exists t, v. auto.
Qed.

Ltac use_W2 W2 :=
  try (match goal with H : In (_, _, _) (fluent_defaults _) |- _ =>
         first [exact (proj1 (W2 _ _ _ H)) | exact (proj2 (W2 _ _ _ H))] end).

Theorem step_well_typed h s o : well_typed h s -> well_typed h (fst (step h s o)).
Proof.
  intros W. destruct (snd (step h s o)) eqn:R; [rewrite step_rejected_unchanged; assumption|].
  destruct W as (W1 & W2 & W3 & W4 & W5).
  destruct o as [f t d | key t ac v | st k t v cb tk cf | ps]; simpl in *.
  - unfold add_fluent in *. destruct (has_fluent f s); [discriminate|].
    destruct d as [v|].
    + destruct (default_ok h t v) eqn:D; [|discriminate]. simpl.
      unfold well_typed; simpl. repeat split; auto.
      * apply in_app_iff in H. destruct H as [H|[H|[]]].
        -- apply in_app_iff. left. exact (proj1 (W2 _ _ _ H)).
        -- inversion H; subst. apply in_app_iff. right. left. reflexivity.
      * apply in_app_iff in H. destruct H as [H|[H|[]]].
        -- exact (proj2 (W2 _ _ _ H)).
        -- inversion H; subst. apply default_ok_stored. exact D.
    + simpl. unfold well_typed; simpl. repeat split; auto.
      * destruct (find_type_default t (type_defaults s)) as [v0|] eqn:F.
        -- apply in_app_iff in H. destruct H as [H|[H|[]]].
           ++ apply in_app_iff. left. exact (proj1 (W2 _ _ _ H)).
           ++ inversion H; subst. apply in_app_iff. right. left. reflexivity.
        -- apply in_app_iff. left. exact (proj1 (W2 _ _ _ H)).
      * destruct (find_type_default t (type_defaults s)) as [v0|] eqn:F.
        -- apply in_app_iff in H. destruct H as [H|[H|[]]].
           ++ exact (proj2 (W2 _ _ _ H)).
           ++ inversion H; subst. apply find_type_default_In in F. destruct F as (k & Hk & Ek).
              specialize (W1 _ _ Hk). unfold stored_const_ok in *. apply andb_true_iff in W1. destruct W1 as [C1 C2].
              rewrite C2, andb_true_r. eapply compatible_eqb_l; eauto.
        -- exact (proj2 (W2 _ _ _ H)).
  - unfold set_initial_value in *.
    destruct (negb (promotable v)); [discriminate|]. destruct (negb ac); [discriminate|].
    destruct (negb (compatible h t (type_of v))) eqn:C; [discriminate|].
    destruct (negb (is_constant v)) eqn:K; [discriminate|]. simpl.
    unfold well_typed; simpl. repeat split; auto; use_W2 W2.
    intros k9 t9 v9 Hin. apply upsert_In in Hin. destruct Hin as [Hin|Hin]; [|eauto].
    inversion Hin; subst. unfold stored_const_ok. apply negb_false_iff in C, K. rewrite C, K. reflexivity.
  - unfold add_effect in *.
    destruct (negb tk); [discriminate|]. destruct (negb (promotable v)); [discriminate|].
    destruct (negb cb); [discriminate|]. destruct (negb (compatible h t (type_of v))) eqn:C; [discriminate|].
    destruct (match k with EAssign => false | _ => negb (is_numeric t) end); [discriminate|].
    destruct cf; [discriminate|]. simpl.
    unfold well_typed; simpl. repeat split; auto; use_W2 W2.
    intros st9 k9 t9 v9 Hin. apply in_app_iff in Hin. destruct Hin as [Hin|[Hin|[]]]; [eauto|].
    inversion Hin; subst. unfold stored_ok. apply negb_false_iff in C. exact C.
  - unfold action_instance in *.
    destruct (negb (forallb (fun p => promotable (snd p)) ps)); [discriminate|].
    destruct (negb (forallb (param_ok h) ps)) eqn:Pk; [discriminate|]. simpl.
    unfold well_typed; simpl. repeat split; auto; use_W2 W2.
    intros ps9 t9 v9 Hin Hp. apply in_app_iff in Hin. destruct Hin as [Hin|[Hin|[]]]; [eauto|]. subst ps9.
    apply negb_false_iff in Pk. rewrite forallb_forall in Pk. exact (Pk (t9, v9) Hp).
Qed.

Theorem run_well_typed h ops : forall s, well_typed h s -> well_typed h (run h s ops).
Proof. induction ops as [|o ops IH]; intros s W; simpl; [exact W | apply IH, step_well_typed, W]. Qed.

Theorem store_invariant h ds s ops : mk_problem h ds = Some s -> well_typed h (run h s ops).
Proof. intros H. apply run_well_typed. eapply mk_problem_well_typed; eauto. Qed.

(* ------------------------------------------------------------------ calls that would store a bad value are rejected *)
Theorem bad_default_rejected h s f t v :
  stored_const_ok h t v = false -> snd (add_fluent h s f t (Some v)) = true.
Proof.
  intros H. unfold add_fluent. destruct (has_fluent f s); [reflexivity|].
  destruct (default_ok h t v) eqn:D; [|reflexivity]. apply default_ok_stored in D. congruence.
Qed.

Theorem bad_initial_value_rejected h s key t ac v :
  stored_const_ok h t v = false -> snd (set_initial_value h s key t ac v) = true.
Proof.
  unfold stored_const_ok, set_initial_value. intros H.
  destruct (negb (promotable v)); [reflexivity|]. destruct (negb ac); [reflexivity|].
  destruct (compatible h t (type_of v)); simpl in *; [|reflexivity]. rewrite H. reflexivity.
Qed.

Theorem bad_effect_value_rejected h s st k t v cb tk cf :
  stored_ok h t v = false -> snd (add_effect h s st k t v cb tk cf) = true.
Proof.
  unfold stored_ok, add_effect. intros H.
  destruct (negb tk); [reflexivity|]. destruct (negb (promotable v)); [reflexivity|].
  destruct (negb cb); [reflexivity|]. rewrite H. reflexivity.
Qed.

Theorem bad_parameter_rejected h s ps t v :
  In (t, v) ps -> stored_const_ok h t v = false -> snd (action_instance h s ps) = true.
Proof.
  intros Hin H. unfold action_instance.
  destruct (negb (forallb (fun p => promotable (snd p)) ps)); [reflexivity|].
  destruct (forallb (param_ok h) ps) eqn:E; [|reflexivity].
  rewrite forallb_forall in E. specialize (E (t, v) Hin). unfold param_ok, stored_const_ok in *. simpl in E. congruence.
Qed.

(* an un-promotable argument is rejected by every entry point *)
Theorem unpromotable_rejected h s :
  (forall f t, snd (add_fluent h s f t (Some VBad)) = true) /\
  (forall key t ac, snd (set_initial_value h s key t ac VBad) = true) /\
  (forall st k t cb tk cf, snd (add_effect h s st k t VBad cb tk cf) = true) /\
  (forall ps t, In (t, VBad) ps -> snd (action_instance h s ps) = true).
Proof.
  split; [|split; [|split]]; intros.
  - unfold add_fluent. destruct (has_fluent f s); reflexivity.
  - reflexivity.
  - unfold add_effect. destruct (negb tk); reflexivity.
  - unfold action_instance. destruct (forallb (fun p => promotable (snd p)) ps) eqn:E; [|reflexivity].
    rewrite forallb_forall in E. specialize (E _ H). discriminate.
Qed.
