(* Semantic infrastructure for the soundness of the simplifier (strict quantifier semantics, [eval false]):
   coincidence lemma, the instances of a quantifier as typed assignments, strict q_fold as a set-like fold,
   refinement ("defined values are preserved") and its congruence through every constructor. *)
From Coq Require Import List ZArith NArith QArith Qcanon Bool Lia.
Import ListNotations.
Require Import UPV.Core.Expr UPV.Core.Eval UPV.Proofs.Eval_lemmas UPV.Walkers.Simplify UPV.Proofs.Simplify_base.
Local Open Scope nat_scope.

(* ---------------------------------------------------------------- extensional equality of interpretations *)
Definition ieq (I J : interp) : Prop :=
  (forall f a, fl I f a = fl J f a) /\ (forall p, par I p = par J p) /\
  (forall f a, ifun I f a = ifun J f a) /\ (forall t, objs I t = objs J t).

Definition agree (P : N -> Prop) (I J : interp) : Prop := ieq I J /\ forall w, P w -> var I w = var J w.
Definition iext (I J : interp) : Prop := agree (fun _ => True) I J.

Lemma ieq_refl I : ieq I I. Proof. repeat split. Qed.
Lemma ieq_sym I J : ieq I J -> ieq J I.
Proof. intros (A & B & C & D). repeat split; intros; symmetry; auto. Qed.
Lemma ieq_trans I J K : ieq I J -> ieq J K -> ieq I K.
Proof. intros (A & B & C & D) (A' & B' & C' & D'). repeat split; intros; etransitivity; eauto. Qed.
Lemma ieq_bind I J v o : ieq I J -> ieq (bind_var I v o) (bind_var J v o).
Proof. intros (A & B & C & D). repeat split; simpl; auto. Qed.
Lemma iext_refl I : iext I I. Proof. split; [apply ieq_refl|auto]. Qed.
Lemma iext_sym I J : iext I J -> iext J I.
Proof. intros [A B]. split; [apply ieq_sym; exact A|]. intros; symmetry; auto. Qed.
Lemma iext_trans I J K : iext I J -> iext J K -> iext I K.
Proof. intros [A B] [A' B']. split; [eapply ieq_trans; eauto|]. intros w _; transitivity (var J w); [apply B|apply B']; exact Logic.I. Qed.

(* ---------------------------------------------------------------- list evaluators under pointwise equality *)
Lemma evals_ext sc I J l : Forall (fun x => eval sc x I = eval sc x J) l -> evals sc I l = evals sc J l.
Proof. induction 1 as [|x l Hx _ IH]; [reflexivity|]. cbn [evals]. rewrite Hx, IH. reflexivity. Qed.
Lemma ebools_ext sc I J l : Forall (fun x => eval sc x I = eval sc x J) l -> ebools sc I l = ebools sc J l.
Proof. induction 1 as [|x l Hx _ IH]; [reflexivity|]. cbn [ebools]. rewrite Hx, IH. reflexivity. Qed.
Lemma enums_ext sc I J l : Forall (fun x => eval sc x I = eval sc x J) l -> enums sc I l = enums sc J l.
Proof. induction 1 as [|x l Hx _ IH]; [reflexivity|]. cbn [enums]. rewrite Hx, IH. reflexivity. Qed.

Lemma Forall2_flat_map {A B C} (R : B -> C -> Prop) (f : A -> list B) (g : A -> list C) l :
  (forall x, In x l -> Forall2 R (f x) (g x)) -> Forall2 R (flat_map f l) (flat_map g l).
Proof.
  induction l as [|x l IH]; intros H; [constructor|].
  cbn [flat_map]. apply Forall2_app; [apply H; left; reflexivity|]. apply IH. intros y Hy. apply H. right. exact Hy.
Qed.

Lemma Forall2_impl {A B} (P Q : A -> B -> Prop) l l' : (forall a b, P a b -> Q a b) -> Forall2 P l l' -> Forall2 Q l l'.
Proof. intros H. induction 1; constructor; auto. Qed.

Lemma inst_agree (P : N -> Prop) vs : forall I J,
  ieq I J -> (forall w, P w -> ~ In w (map fst vs) -> var I w = var J w) ->
  Forall2 (agree P) (instances I vs) (instances J vs).
Proof.
  induction vs as [|[v ty] vs IH]; intros I J HE HV; cbn [instances].
  - constructor; [|constructor]. split; [exact HE|]. intros w Hw. apply HV; [exact Hw|]. simpl. tauto.
  - assert (Ho : objs I ty = objs J ty) by apply HE. rewrite <- Ho.
    apply Forall2_flat_map. intros o _. apply IH; [apply ieq_bind; exact HE|].
    intros w Hw Hn. simpl. destruct (w =? v)%N eqn:E; [reflexivity|].
    apply HV; [exact Hw|]. simpl. apply N.eqb_neq in E. intros [H|H]; [congruence|tauto].
Qed.

Lemma map_Forall2_eq {A B} (f g : A -> B) l l' :
  Forall2 (fun x y => f x = g y) l l' -> map f l = map g l'.
Proof. induction 1 as [|x y l l' H _ IH]; [reflexivity|]. cbn. rewrite H, IH. reflexivity. Qed.

(* ---------------------------------------------------------------- coincidence *)
Lemma agree_mono (P Q : N -> Prop) I J : (forall w, Q w -> P w) -> agree P I J -> agree Q I J.
Proof. intros H [A B]. split; [exact A|]. intros w Hw. apply B, H, Hw. Qed.

Lemma Forall_agree_list sc (l : list expr) I J :
  Forall (fun e => forall I J, agree (fun w => In w (free_vars e)) I J -> eval sc e I = eval sc e J) l ->
  agree (fun w => In w (fvl l)) I J -> Forall (fun x => eval sc x I = eval sc x J) l.
Proof.
  intros H HA. rewrite Forall_forall in *. intros x Hx. apply H; [exact Hx|].
  eapply agree_mono; [|exact HA]. intros w Hw. apply in_fvl. eauto.
Qed.

Lemma eval_coincide sc e : forall I J, agree (fun w => In w (free_vars e)) I J -> eval sc e I = eval sc e J.
Proof.
  induction e using expr_ind'; intros I J HA;
    try (reflexivity);
    try (assert (A1 := IHe1 I J (agree_mono _ _ _ _ (fun w Hw => in_or_app _ _ w (or_introl Hw)) HA));
         assert (A2 := IHe2 I J (agree_mono _ _ _ _ (fun w Hw => in_or_app _ _ w (or_intror Hw)) HA))).
  - (* EParam *) simpl. apply HA.
  - (* EVar *) simpl. apply HA. left. reflexivity.
  - rewrite !eval_EFluent. rewrite fv_EFluent in HA. rewrite (evals_ext _ _ _ _ (Forall_agree_list _ _ _ _ H HA)).
    destruct (evals sc J args); [apply HA|reflexivity].
  - rewrite !eval_EIFun. rewrite fv_EIFun in HA. rewrite (evals_ext _ _ _ _ (Forall_agree_list _ _ _ _ H HA)).
    destruct (evals sc J args); [apply HA|reflexivity].
  - rewrite !eval_EAnd. rewrite fv_EAnd in HA. rewrite (ebools_ext _ _ _ _ (Forall_agree_list _ _ _ _ H HA)). reflexivity.
  - rewrite !eval_EOr. rewrite fv_EOr in HA. rewrite (ebools_ext _ _ _ _ (Forall_agree_list _ _ _ _ H HA)). reflexivity.
  - rewrite !eval_ENot. rewrite (IHe I J HA). reflexivity.
  - rewrite !eval_EImplies, A1, A2. reflexivity.
  - rewrite !eval_EIff, A1, A2. reflexivity.
  - rewrite !eval_EExists.
    assert (HM : map (fun K => as_bool (eval sc e K)) (instances I vs) = map (fun K => as_bool (eval sc e K)) (instances J vs)).
    { apply map_Forall2_eq.
      eapply Forall2_impl; [|apply (inst_agree (fun w => In w (free_vars e)) vs I J (proj1 HA))].
      + intros I' J' HA'. rewrite (IHe I' J' HA'). reflexivity.
      + intros w Hw Hn. apply HA. rewrite fv_EExists. apply in_fv_quant. tauto. }
    rewrite HM. reflexivity.
  - rewrite !eval_EForall.
    assert (HM : map (fun K => as_bool (eval sc e K)) (instances I vs) = map (fun K => as_bool (eval sc e K)) (instances J vs)).
    { apply map_Forall2_eq.
      eapply Forall2_impl; [|apply (inst_agree (fun w => In w (free_vars e)) vs I J (proj1 HA))].
      + intros I' J' HA'. rewrite (IHe I' J' HA'). reflexivity.
      + intros w Hw Hn. apply HA. rewrite fv_EForall. apply in_fv_quant. tauto. }
    rewrite HM. reflexivity.
  - rewrite !eval_EPlus. rewrite fv_EPlus in HA. rewrite (enums_ext _ _ _ _ (Forall_agree_list _ _ _ _ H HA)). reflexivity.
  - rewrite !eval_EMinus, A1, A2. reflexivity.
  - rewrite !eval_ETimes. rewrite fv_ETimes in HA. rewrite (enums_ext _ _ _ _ (Forall_agree_list _ _ _ _ H HA)). reflexivity.
  - rewrite !eval_EDiv, A1, A2. reflexivity.
  - rewrite !eval_ELe, A1, A2. reflexivity.
  - rewrite !eval_ELt, A1, A2. reflexivity.
  - rewrite !eval_EEquals, A1, A2. reflexivity.
Qed.

Lemma eval_iext sc e I J : iext I J -> eval sc e I = eval sc e J.
Proof. intros H. apply eval_coincide. eapply agree_mono; [|exact H]. intros; exact Logic.I. Qed.

(* ---------------------------------------------------------------- strict q_fold *)
Lemma qf_all_def stop rs b : q_fold false stop rs = Some b -> Forall (fun r => r <> None) rs.
Proof.
  revert b. induction rs as [|r rs IH]; intros b H; [constructor|].
  cbn [q_fold] in H. destruct r as [x|]; [|discriminate].
  constructor; [discriminate|].
  destruct (Bool.eqb x stop).
  - destruct (q_fold false stop rs) eqn:E; [eapply IH; reflexivity|discriminate].
  - eapply IH; exact H.
Qed.

Lemma qf_stop_iff stop rs :
  q_fold false stop rs = Some stop <-> Forall (fun r => r <> None) rs /\ In (Some stop) rs.
Proof.
  induction rs as [|r rs IH]; cbn [q_fold].
  - split; [intros H; inversion H; destruct stop; discriminate | intros [_ []]].
  - destruct r as [x|].
    + destruct (Bool.eqb x stop) eqn:E.
      * apply Bool.eqb_prop in E. subst x. split.
        -- intros H. destruct (q_fold false stop rs) eqn:Q; [|discriminate].
           split; [constructor; [discriminate|eapply qf_all_def; exact Q] | left; reflexivity].
        -- intros [HF _]. inversion HF; subst.
           destruct (q_fold false stop rs) eqn:Q; [reflexivity|].
           exfalso. clear -Q H2. induction rs as [|r rs IH]; [discriminate|].
           inversion H2; subst. cbn [q_fold] in Q. destruct r as [y|]; [|congruence].
           destruct (Bool.eqb y stop); [destruct (q_fold false stop rs); [discriminate|auto] | auto].
      * rewrite IH. split.
        -- intros [HF HI]. split; [constructor; [discriminate|exact HF] | right; exact HI].
        -- intros [HF HI]. inversion HF; subst. split; [assumption|].
           destruct HI as [HI|HI]; [|exact HI]. inversion HI; subst. rewrite Bool.eqb_reflx in E. discriminate.
    + split; [discriminate|]. intros [HF _]. inversion HF; subst. congruence.
Qed.

Lemma qf_nstop_iff stop rs :
  q_fold false stop rs = Some (negb stop) <-> Forall (fun r => r = Some (negb stop)) rs.
Proof.
  induction rs as [|r rs IH]; cbn [q_fold].
  - split; [constructor|reflexivity].
  - destruct r as [x|].
    + destruct (Bool.eqb x stop) eqn:E.
      * apply Bool.eqb_prop in E. subst x. split.
        -- intros H. destruct (q_fold false stop rs); [inversion H; destruct stop; discriminate|discriminate].
        -- intros HF. inversion HF; subst. inversion H1. destruct stop; discriminate.
      * rewrite IH. apply Bool.eqb_false_iff in E. split.
        -- intros HF. constructor; [|exact HF]. f_equal. destruct x, stop; simpl; congruence.
        -- intros HF. inversion HF; assumption.
    + split; [discriminate|]. intros HF. inversion HF; discriminate.
Qed.

Lemma qf_refine {A B} stop (L1 : list A) (L2 : list B) (F : A -> option bool) (F' : B -> option bool) b :
  q_fold false stop (map F L1) = Some b ->
  (forall J', In J' L2 -> exists J, In J L1 /\ forall c, F J = Some c -> F' J' = Some c) ->
  (forall J, In J L1 -> F J = Some stop -> exists J', In J' L2 /\ F' J' = Some stop) ->
  q_fold false stop (map F' L2) = Some b.
Proof.
  intros H H1 H2.
  assert (Hd := qf_all_def _ _ _ H). rewrite Forall_forall in Hd.
  destruct (Bool.eqb b stop) eqn:E.
  - apply Bool.eqb_prop in E. subst b. apply qf_stop_iff in H. destruct H as [_ HI].
    apply qf_stop_iff. split.
    + apply Forall_forall. intros r Hr. apply in_map_iff in Hr. destruct Hr as [J' [<- HJ']].
      destruct (H1 _ HJ') as [J [HJ HF]].
      destruct (F J) as [c|] eqn:EF; [rewrite (HF _ eq_refl); discriminate|].
      exfalso. apply (Hd (F J)); [apply in_map; exact HJ|exact EF].
    + apply in_map_iff in HI. destruct HI as [J [EJ HJ]].
      destruct (H2 _ HJ EJ) as [J' [HJ' EF']]. rewrite <- EF'. apply in_map. exact HJ'.
  - assert (b = negb stop) by (destruct b, stop; simpl in *; congruence). subst b.
    apply qf_nstop_iff in H. rewrite Forall_forall in H.
    apply qf_nstop_iff. apply Forall_forall. intros r Hr. apply in_map_iff in Hr. destruct Hr as [J' [<- HJ']].
    destruct (H1 _ HJ') as [J [HJ HF]]. apply HF. apply H. apply in_map. exact HJ.
Qed.

(* ---------------------------------------------------------------- instances as typed assignments *)
Definition same_base (I J : interp) : Prop :=
  fl J = fl I /\ par J = par I /\ ifun J = ifun I /\ objs J = objs I.

Lemma same_base_refl I : same_base I I. Proof. repeat split. Qed.
Lemma same_base_ieq I J : same_base I J -> ieq I J.
Proof. intros (A & B & C & D). repeat split; intros; rewrite ?A, ?B, ?C, ?D; reflexivity. Qed.

(* the variable assignment of an instance: g on the bound variables, I elsewhere *)
Definition assigns (I : interp) (vs : list (N * N)) (g : N -> N) (J : interp) : Prop :=
  same_base I J /\ forall w, var J w = if memN w (map fst vs) then Some (VObj (g w)) else var I w.
Definition typed_for (I : interp) (vs : list (N * N)) (g : N -> N) : Prop :=
  forall p, In p vs -> In (g (fst p)) (objs I (snd p)).

Lemma inst_complete vs : NoDup (map fst vs) -> forall I g, typed_for I vs g ->
  exists J, In J (instances I vs) /\ assigns I vs g J.
Proof.
  induction vs as [|[v ty] vs IH]; intros ND I g HT; cbn [instances].
  - exists I. split; [left; reflexivity|]. split; [apply same_base_refl|]. intros w. reflexivity.
  - inversion ND; subst.
    assert (Ho : In (g v) (objs I ty)) by (apply (HT (v, ty)); left; reflexivity).
    destruct (IH H2 (bind_var I v (g v)) g) as [J [HJ [HB HV]]].
    { intros p Hp. simpl. apply HT. right. exact Hp. }
    exists J. split; [apply in_flat_map; exists (g v); split; assumption|].
    split; [exact HB|]. intros w. rewrite HV. cbn [map fst memN existsb].
    fold (memN w (map fst vs)).
    destruct (w =? v)%N eqn:E.
    + apply N.eqb_eq in E. subst w. simpl. rewrite N.eqb_refl.
      destruct (memN v (map fst vs)) eqn:M; [reflexivity|reflexivity].
    + simpl. rewrite E. reflexivity.
Qed.

Lemma inst_sound vs : NoDup (map fst vs) -> forall I J, In J (instances I vs) ->
  exists g, typed_for I vs g /\ assigns I vs g J.
Proof.
  induction vs as [|[v ty] vs IH]; intros ND I J HJ; cbn [instances] in HJ.
  - destruct HJ as [<-|[]]. exists (fun _ => 0%N). split; [intros p []|].
    split; [apply same_base_refl|]. intros w. reflexivity.
  - inversion ND; subst. apply in_flat_map in HJ. destruct HJ as [o [Ho HJ]].
    destruct (IH H2 _ _ HJ) as [g [HT [HB HV]]].
    exists (fun w => if (w =? v)%N then o else g w). split.
    + intros p [<-|Hp]; simpl; [rewrite N.eqb_refl; exact Ho|].
      destruct (fst p =? v)%N eqn:E.
      * apply N.eqb_eq in E. exfalso. apply H1. rewrite <- E. apply in_map. exact Hp.
      * apply (HT p Hp).
    + split; [exact HB|]. intros w. rewrite HV. cbn [map fst memN existsb]. fold (memN w (map fst vs)).
      destruct (w =? v)%N eqn:E.
      * apply N.eqb_eq in E. subst w. simpl.
        destruct (memN v (map fst vs)) eqn:M; [apply memN_In in M; tauto|]. rewrite N.eqb_refl. reflexivity.
      * simpl. rewrite E. reflexivity.
Qed.

Lemma assigns_iext I vs g J J' : assigns I vs g J -> assigns I vs g J' -> iext J J'.
Proof.
  intros [B V] [B' V']. split.
  - eapply ieq_trans; [apply ieq_sym, same_base_ieq; exact B|apply same_base_ieq; exact B'].
  - intros w _. rewrite V, V'. reflexivity.
Qed.

(* ---------------------------------------------------------------- refinement *)
Definition R (I I' : interp) (a a' : expr) : Prop := forall v, eval false a I = Some v -> eval false a' I' = Some v.

Lemma R_refl I a : R I I a a. Proof. intros v H; exact H. Qed.
Lemma R_trans I I' I'' a b c : R I I' a b -> R I' I'' b c -> R I I'' a c.
Proof. intros H1 H2 v H. apply H2, H1, H. Qed.

Lemma R_as_bool I I' a a' b : R I I' a a' -> as_bool (eval false a I) = Some b -> as_bool (eval false a' I') = Some b.
Proof. intros H E. destruct (eval false a I) as [[x|x|x]|] eqn:A; try discriminate. rewrite (H _ A). exact E. Qed.
Lemma R_as_num I I' a a' q : R I I' a a' -> as_num (eval false a I) = Some q -> as_num (eval false a' I') = Some q.
Proof. intros H E. destruct (eval false a I) as [[x|x|x]|] eqn:A; try discriminate. rewrite (H _ A). exact E. Qed.

Lemma as_bool_some o b : as_bool o = Some b -> o = Some (VBool b).
Proof. destruct o as [[x|x|x]|]; simpl; congruence. Qed.
Lemma as_num_some o q : as_num o = Some q -> o = Some (VNum q).
Proof. destruct o as [[x|x|x]|]; simpl; congruence. Qed.

Lemma R_evals I I' l l' : Forall2 (R I I') l l' -> forall vs, evals false I l = Some vs -> evals false I' l' = Some vs.
Proof.
  induction 1 as [|x y l l' H _ IH]; intros vs E; [exact E|].
  cbn [evals] in *. destruct (eval false x I) as [v|] eqn:A; [|discriminate].
  destruct (evals false I l) as [vs'|] eqn:B; [|discriminate].
  rewrite (H _ A), (IH _ eq_refl). exact E.
Qed.
Lemma R_ebools I I' l l' : Forall2 (R I I') l l' -> forall vs, ebools false I l = Some vs -> ebools false I' l' = Some vs.
Proof.
  induction 1 as [|x y l l' H _ IH]; intros vs E; [exact E|].
  cbn [ebools] in *. destruct (as_bool (eval false x I)) as [v|] eqn:A; [|discriminate].
  destruct (ebools false I l) as [vs'|] eqn:B; [|discriminate].
  rewrite (R_as_bool _ _ _ _ _ H A), (IH _ eq_refl). exact E.
Qed.
Lemma R_enums I I' l l' : Forall2 (R I I') l l' -> forall vs, enums false I l = Some vs -> enums false I' l' = Some vs.
Proof.
  induction 1 as [|x y l l' H _ IH]; intros vs E; [exact E|].
  cbn [enums] in *. destruct (as_num (eval false x I)) as [v|] eqn:A; [|discriminate].
  destruct (enums false I l) as [vs'|] eqn:B; [|discriminate].
  rewrite (R_as_num _ _ _ _ _ H A), (IH _ eq_refl). exact E.
Qed.

(* congruence through the constructors *)
Lemma cong_EFluent I I' f l l' : (forall a, fl I f a = fl I' f a) -> Forall2 (R I I') l l' -> R I I' (EFluent f l) (EFluent f l').
Proof.
  intros HF H v. rewrite !eval_EFluent. destruct (evals false I l) as [vs|] eqn:E; [|discriminate].
  rewrite (R_evals _ _ _ _ H _ E). rewrite HF. auto.
Qed.
Lemma cong_EIFun I I' f l l' : (forall a, ifun I f a = ifun I' f a) -> Forall2 (R I I') l l' -> R I I' (EIFun f l) (EIFun f l').
Proof.
  intros HF H v. rewrite !eval_EIFun. destruct (evals false I l) as [vs|] eqn:E; [|discriminate].
  rewrite (R_evals _ _ _ _ H _ E). rewrite HF. auto.
Qed.
Lemma cong_EAnd I I' l l' : Forall2 (R I I') l l' -> R I I' (EAnd l) (EAnd l').
Proof.
  intros H v. rewrite !eval_EAnd. destruct (ebools false I l) as [vs|] eqn:E; [|discriminate].
  rewrite (R_ebools _ _ _ _ H _ E). auto.
Qed.
Lemma cong_EOr I I' l l' : Forall2 (R I I') l l' -> R I I' (EOr l) (EOr l').
Proof.
  intros H v. rewrite !eval_EOr. destruct (ebools false I l) as [vs|] eqn:E; [|discriminate].
  rewrite (R_ebools _ _ _ _ H _ E). auto.
Qed.
Lemma cong_EPlus I I' l l' : Forall2 (R I I') l l' -> R I I' (EPlus l) (EPlus l').
Proof.
  intros H v. rewrite !eval_EPlus. destruct (enums false I l) as [vs|] eqn:E; [|discriminate].
  rewrite (R_enums _ _ _ _ H _ E). auto.
Qed.
Lemma cong_ETimes I I' l l' : Forall2 (R I I') l l' -> R I I' (ETimes l) (ETimes l').
Proof.
  intros H v. rewrite !eval_ETimes. destruct (enums false I l) as [vs|] eqn:E; [|discriminate].
  rewrite (R_enums _ _ _ _ H _ E). auto.
Qed.
Lemma cong_ENot I I' a a' : R I I' a a' -> R I I' (ENot a) (ENot a').
Proof.
  intros H v. rewrite !eval_ENot. destruct (as_bool (eval false a I)) as [b|] eqn:E; [|discriminate].
  rewrite (R_as_bool _ _ _ _ _ H E). auto.
Qed.

Ltac cong_bool2 H1 H2 :=
  let v := fresh "v" in let A := fresh "A" in let B := fresh "B" in
  intros v; destruct (as_bool (eval false _ _)) eqn:A; [|discriminate];
  destruct (as_bool (eval false _ _)) eqn:B in |- *; [|discriminate];
  rewrite (R_as_bool _ _ _ _ _ H1 A), (R_as_bool _ _ _ _ _ H2 B); auto.

Lemma cong_EImplies I I' a a' b b' : R I I' a a' -> R I I' b b' -> R I I' (EImplies a b) (EImplies a' b').
Proof.
  intros H1 H2 v. rewrite !eval_EImplies.
  destruct (as_bool (eval false a I)) eqn:A; [|discriminate].
  destruct (as_bool (eval false b I)) eqn:B; [|discriminate].
  rewrite (R_as_bool _ _ _ _ _ H1 A), (R_as_bool _ _ _ _ _ H2 B). auto.
Qed.
Lemma cong_EIff I I' a a' b b' : R I I' a a' -> R I I' b b' -> R I I' (EIff a b) (EIff a' b').
Proof.
  intros H1 H2 v. rewrite !eval_EIff.
  destruct (as_bool (eval false a I)) eqn:A; [|discriminate].
  destruct (as_bool (eval false b I)) eqn:B; [|discriminate].
  rewrite (R_as_bool _ _ _ _ _ H1 A), (R_as_bool _ _ _ _ _ H2 B). auto.
Qed.
Lemma cong_EMinus I I' a a' b b' : R I I' a a' -> R I I' b b' -> R I I' (EMinus a b) (EMinus a' b').
Proof.
  intros H1 H2 v. rewrite !eval_EMinus.
  destruct (as_num (eval false a I)) eqn:A; [|discriminate].
  destruct (as_num (eval false b I)) eqn:B; [|discriminate].
  rewrite (R_as_num _ _ _ _ _ H1 A), (R_as_num _ _ _ _ _ H2 B). auto.
Qed.
Lemma cong_EDiv I I' a a' b b' : R I I' a a' -> R I I' b b' -> R I I' (EDiv a b) (EDiv a' b').
Proof.
  intros H1 H2 v. rewrite !eval_EDiv.
  destruct (as_num (eval false a I)) eqn:A; [|discriminate].
  destruct (as_num (eval false b I)) eqn:B; [|discriminate].
  rewrite (R_as_num _ _ _ _ _ H1 A), (R_as_num _ _ _ _ _ H2 B). auto.
Qed.
Lemma cong_ELe I I' a a' b b' : R I I' a a' -> R I I' b b' -> R I I' (ELe a b) (ELe a' b').
Proof.
  intros H1 H2 v. rewrite !eval_ELe.
  destruct (as_num (eval false a I)) eqn:A; [|discriminate].
  destruct (as_num (eval false b I)) eqn:B; [|discriminate].
  rewrite (R_as_num _ _ _ _ _ H1 A), (R_as_num _ _ _ _ _ H2 B). auto.
Qed.
Lemma cong_ELt I I' a a' b b' : R I I' a a' -> R I I' b b' -> R I I' (ELt a b) (ELt a' b').
Proof.
  intros H1 H2 v. rewrite !eval_ELt.
  destruct (as_num (eval false a I)) eqn:A; [|discriminate].
  destruct (as_num (eval false b I)) eqn:B; [|discriminate].
  rewrite (R_as_num _ _ _ _ _ H1 A), (R_as_num _ _ _ _ _ H2 B). auto.
Qed.
Lemma cong_EEquals I I' a a' b b' : R I I' a a' -> R I I' b b' -> R I I' (EEquals a b) (EEquals a' b').
Proof.
  intros H1 H2 v. rewrite !eval_EEquals.
  destruct (eval false a I) as [va|] eqn:A; [|discriminate].
  destruct (eval false b I) as [vb|] eqn:B; [|destruct va; discriminate].
  rewrite (H1 _ A), (H2 _ B). auto.
Qed.

(* quantifiers, generically *)
Definition EQ (ex : bool) (vs : list (N * N)) (a : expr) : expr := if ex then EExists vs a else EForall vs a.

Lemma eval_EQ ex vs a I :
  eval false (EQ ex vs a) I =
  match q_fold false ex (map (fun J => as_bool (eval false a J)) (instances I vs)) with
  | Some b => Some (VBool b) | None => None end.
Proof. destruct ex; reflexivity. Qed.

Lemma cong_EQ ex I I' vs vs' a a' :
  (forall J', In J' (instances I' vs') -> exists J, In J (instances I vs) /\ R J J' a a') ->
  (forall J, In J (instances I vs) -> exists J', In J' (instances I' vs') /\ R J J' a a') ->
  R I I' (EQ ex vs a) (EQ ex vs' a').
Proof.
  intros H1 H2 v. rewrite !eval_EQ.
  destruct (q_fold false ex (map (fun J => as_bool (eval false a J)) (instances I vs))) as [b|] eqn:Q; [|discriminate].
  intros E. rewrite (qf_refine ex _ _ _ (fun J' => as_bool (eval false a' J')) b Q); [exact E| |].
  - intros J' HJ'. destruct (H1 _ HJ') as [J [HJ HR]]. exists J. split; [exact HJ|].
    intros c Hc. eapply R_as_bool; eauto.
  - intros J HJ Hs. destruct (H2 _ HJ) as [J' [HJ' HR]]. exists J'. split; [exact HJ'|]. eapply R_as_bool; eauto.
Qed.

(* the smart constructors refine the plain ones *)
Lemma mkAnd_R I l : R I I (EAnd l) (mkAnd l).
Proof.
  destruct l as [|a [|b l]]; try apply R_refl; intros v; rewrite eval_EAnd; cbn [ebools].
  - intros H; inversion H; reflexivity.
  - destruct (as_bool (eval false a I)) as [x|] eqn:A; [|discriminate]. intros H; inversion H; subst.
    cbn. rewrite andb_true_r. apply as_bool_some. exact A.
Qed.
Lemma mkOr_R I l : R I I (EOr l) (mkOr l).
Proof.
  destruct l as [|a [|b l]]; try apply R_refl; intros v; rewrite eval_EOr; cbn [ebools].
  - intros H; inversion H; reflexivity.
  - destruct (as_bool (eval false a I)) as [x|] eqn:A; [|discriminate]. intros H; inversion H; subst.
    cbn. rewrite orb_false_r. apply as_bool_some. exact A.
Qed.
Lemma mkJ_R I (k : bool) l : R I I (if k then EAnd l else EOr l) (mkJ k l).
Proof. destruct k; [apply mkAnd_R|apply mkOr_R]. Qed.

Lemma zq_0_plus q : (q + zq 0 = q)%Qc. Proof. change (zq 0) with 0%Qc. ring. Qed.
Lemma zq_1_mult q : (q * zq 1 = q)%Qc. Proof. change (zq 1) with 1%Qc. ring. Qed.

Lemma mkPlus_R I l : R I I (EPlus l) (mkPlus l).
Proof.
  destruct l as [|a [|b l]]; try apply R_refl; intros v; rewrite eval_EPlus; cbn [enums].
  - intros H; inversion H; reflexivity.
  - destruct (as_num (eval false a I)) as [x|] eqn:A; [|discriminate]. intros H; inversion H; subst.
    cbn. rewrite zq_0_plus. apply as_num_some. exact A.
Qed.
Lemma mkTimes_R I l : R I I (ETimes l) (mkTimes l).
Proof.
  destruct l as [|a [|b l]]; try apply R_refl; intros v; rewrite eval_ETimes; cbn [enums].
  - intros H; inversion H; reflexivity.
  - destruct (as_num (eval false a I)) as [x|] eqn:A; [|discriminate]. intros H; inversion H; subst.
    cbn. rewrite zq_1_mult. apply as_num_some. exact A.
Qed.
Lemma mkNot_R I a : R I I (ENot a) (mkNot a).
Proof.
  destruct a; try apply R_refl. intros v. rewrite !eval_ENot.
  destruct (as_bool (eval false a I)) as [x|] eqn:A; [|discriminate]. intros H; inversion H; subst.
  rewrite negb_involutive. apply as_bool_some. exact A.
Qed.

Lemma mkExists_R I vs a : R I I (EExists vs a) (mkExists vs a).
Proof.
  destruct vs; [|apply R_refl]. intros v. rewrite eval_EExists. cbn [instances map q_fold].
  destruct (as_bool (eval false a I)) as [x|] eqn:A; [|discriminate].
  apply as_bool_some in A. intros H. unfold mkExists, mkForall. rewrite A. destruct x; simpl in H; exact H.
Qed.
Lemma mkForall_R I vs a : R I I (EForall vs a) (mkForall vs a).
Proof.
  destruct vs; [|apply R_refl]. intros v. rewrite eval_EForall. cbn [instances map q_fold].
  destruct (as_bool (eval false a I)) as [x|] eqn:A; [|discriminate].
  apply as_bool_some in A. intros H. unfold mkExists, mkForall. rewrite A. destruct x; simpl in H; exact H.
Qed.

(* ---------------------------------------------------------------- bound variables and substitution *)
Fixpoint bvars (e : expr) : list N :=
  let fix lb (l : list expr) : list N := match l with [] => [] | x :: l' => bvars x ++ lb l' end in
  match e with
  | EBool _ | EInt _ | EReal _ | EObj _ | EParam _ | EVar _ _ => []
  | EFluent _ l | EIFun _ l | EAnd l | EOr l | EPlus l | ETimes l => lb l
  | ENot a | EAlways a | ESometime a | EAtMostOnce a => bvars a
  | EExists vs a | EForall vs a => map fst vs ++ bvars a
  | EImplies a b | EIff a b | EMinus a b | EDiv a b | ELe a b | ELt a b | EEquals a b
  | ESometimeBefore a b | ESometimeAfter a b => bvars a ++ bvars b
  end.

Definition bvl (l : list expr) : list N := flat_map bvars l.
Lemma bv_fix l :
  (fix lb (l : list expr) : list N := match l with [] => [] | x :: l' => bvars x ++ lb l' end) l = bvl l.
Proof. induction l as [|x l IH]; [reflexivity|]. cbn [bvl flat_map]. rewrite IH. reflexivity. Qed.
Lemma bv_EFluent f l : bvars (EFluent f l) = bvl l. Proof. cbn [bvars]. apply bv_fix. Qed.
Lemma bv_EIFun f l : bvars (EIFun f l) = bvl l. Proof. cbn [bvars]. apply bv_fix. Qed.
Lemma bv_EAnd l : bvars (EAnd l) = bvl l. Proof. cbn [bvars]. apply bv_fix. Qed.
Lemma bv_EOr l : bvars (EOr l) = bvl l. Proof. cbn [bvars]. apply bv_fix. Qed.
Lemma bv_EPlus l : bvars (EPlus l) = bvl l. Proof. cbn [bvars]. apply bv_fix. Qed.
Lemma bv_ETimes l : bvars (ETimes l) = bvl l. Proof. cbn [bvars]. apply bv_fix. Qed.
Lemma in_bvl w l : In w (bvl l) <-> exists x, In x l /\ In w (bvars x).
Proof. unfold bvl. rewrite in_flat_map. tauto. Qed.

Lemma iext_bind_commute I x u v o : x <> v -> iext (bind_var (bind_var I x u) v o) (bind_var (bind_var I v o) x u).
Proof.
  intros Hn. split; [repeat split|]. intros w _. simpl.
  destruct (w =? v)%N eqn:E1, (w =? x)%N eqn:E2; try reflexivity.
  apply N.eqb_eq in E1, E2. congruence.
Qed.
Lemma iext_bind_shadow I x u o : iext (bind_var (bind_var I x u) x o) (bind_var I x o).
Proof. split; [repeat split|]. intros w _. simpl. destruct (w =? x)%N; reflexivity. Qed.
Lemma iext_bind I J v o : iext I J -> iext (bind_var I v o) (bind_var J v o).
Proof. intros [A B]. split; [apply ieq_bind; exact A|]. intros w _. simpl. destruct (w =? v)%N; auto. Qed.

Lemma inst_iext vs : forall I J, iext I J -> Forall2 iext (instances I vs) (instances J vs).
Proof.
  intros I J [A B]. eapply Forall2_impl; [|apply (inst_agree (fun _ => True) vs I J A); auto]. auto.
Qed.

Lemma map_flat_map {A B C} (f : B -> C) (g : A -> list B) l : map f (flat_map g l) = flat_map (fun o => map f (g o)) l.
Proof. induction l as [|a l IH]; [reflexivity|]. cbn [flat_map]. rewrite map_app, IH. reflexivity. Qed.

(* binding x outside a quantifier that does not bind x = binding it inside *)
Lemma inst_commute vs x u : ~ In x (map fst vs) -> forall I,
  Forall2 iext (instances (bind_var I x u) vs) (map (fun J => bind_var J x u) (instances I vs)).
Proof.
  induction vs as [|[v ty] vs IH]; intros Hn I; cbn [instances map].
  - constructor; [apply iext_refl|constructor].
  - change (objs (bind_var I x u) ty) with (objs I ty).
    rewrite map_flat_map.
    apply Forall2_flat_map. intros o _.
    assert (Hx : x <> v) by (simpl in Hn; intros ->; tauto).
    assert (Hn' : ~ In x (map fst vs)) by (simpl in Hn; tauto).
    specialize (IH Hn' (bind_var I v o)).
    assert (H1 := inst_iext vs _ _ (iext_bind_commute I x u v o Hx)).
    clear -H1 IH. revert IH H1.
    generalize (instances (bind_var (bind_var I x u) v o) vs) (instances (bind_var (bind_var I v o) x u) vs)
               (map (fun J => bind_var J x u) (instances (bind_var I v o) vs)).
    intros l1 l2 l3 H23 H12. revert l3 H23. induction H12 as [|a b l1 l2 Hab _ IH]; intros l3 H23; inversion H23; subst; constructor.
    + eapply iext_trans; eauto.
    + apply IH. assumption.
Qed.

(* a quantifier that binds x forgets an outer binding of x *)
Lemma inst_shadow vs x u : In x (map fst vs) -> forall I, Forall2 iext (instances (bind_var I x u) vs) (instances I vs).
Proof.
  induction vs as [|[v ty] vs IH]; intros Hi I; [destruct Hi|]. cbn [instances].
  change (objs (bind_var I x u) ty) with (objs I ty). apply Forall2_flat_map. intros o _.
  destruct (N.eq_dec x v) as [->|Hx].
  - apply inst_iext. apply iext_bind_shadow.
  - assert (Hi' : In x (map fst vs)) by (simpl in Hi; destruct Hi; [congruence|assumption]).
    specialize (IH Hi' (bind_var I v o)).
    assert (H1 := inst_iext vs _ _ (iext_bind_commute I x u v o Hx)).
    clear -H1 IH. revert IH H1.
    generalize (instances (bind_var (bind_var I x u) v o) vs) (instances (bind_var (bind_var I v o) x u) vs)
               (instances (bind_var I v o) vs).
    intros l1 l2 l3 H23 H12. revert l3 H23. induction H12 as [|a b l1 l2 Hab _ IH]; intros l3 H23; inversion H23; subst; constructor.
    + eapply iext_trans; eauto.
    + apply IH. assumption.
Qed.

Lemma R_iext I I' J J' a a' : iext I J -> iext I' J' -> R I I' a a' -> R J J' a a'.
Proof. intros H1 H2 H v. rewrite <- (eval_iext false a _ _ H1), <- (eval_iext false a' _ _ H2). apply H. Qed.

Lemma Forall2_in_l {A B} (P : A -> B -> Prop) l l' x : Forall2 P l l' -> In x l -> exists y, In y l' /\ P x y.
Proof. induction 1 as [|a b l l' H _ IH]; intros [].
  - subst. exists b. split; [left; reflexivity|exact H].
  - destruct (IH H0) as [y [Hy Hp]]. exists y. split; [right; exact Hy|exact Hp].
Qed.
Lemma Forall2_in_r {A B} (P : A -> B -> Prop) l l' y : Forall2 P l l' -> In y l' -> exists x, In x l /\ P x y.
Proof. induction 1 as [|a b l l' H _ IH]; intros [].
  - subst. exists a. split; [left; reflexivity|exact H].
  - destruct (IH H0) as [x [Hx Hp]]. exists x. split; [right; exact Hx|exact Hp].
Qed.

Lemma Forall2_map_l {A B} (f : A -> B) (P : A -> B -> Prop) l : (forall x, In x l -> P x (f x)) -> Forall2 P l (map f l).
Proof. induction l as [|a l IH]; intros H; [constructor|]. constructor; [apply H; left; reflexivity|apply IH; intros; apply H; right; assumption]. Qed.

Lemma Forall2_map_r_iff {A B C} (P : A -> C -> Prop) (f : B -> C) l l' :
  Forall2 P l (map f l') <-> Forall2 (fun a b => P a (f b)) l l'.
Proof.
  split.
  - revert l. induction l' as [|b l' IH]; intros l H; inversion H; subst; constructor; auto.
  - induction 1; constructor; auto.
Qed.

Lemma cong_EQ_F2 ex I I' vs vs' a a' :
  Forall2 (fun J J' => R J J' a a') (instances I vs) (instances I' vs') -> R I I' (EQ ex vs a) (EQ ex vs' a').
Proof.
  intros H. apply cong_EQ.
  - intros J' HJ'. destruct (Forall2_in_r _ _ _ _ H HJ') as [J [HJ HR]]. eauto.
  - intros J HJ. destruct (Forall2_in_l _ _ _ _ H HJ) as [J' [HJ' HR]]. eauto.
Qed.

Lemma inst_base vs : forall I J, In J (instances I vs) ->
  same_base I J /\ forall w, ~ In w (map fst vs) -> var J w = var I w.
Proof.
  induction vs as [|[v ty] vs IH]; intros I J HJ; cbn [instances] in HJ.
  - destruct HJ as [<-|[]]. split; [apply same_base_refl|auto].
  - apply in_flat_map in HJ. destruct HJ as [o [_ HJ]]. destruct (IH _ _ HJ) as [HB HV].
    split; [exact HB|]. intros w Hn. rewrite HV by (simpl in Hn; tauto).
    simpl. destruct (w =? v)%N eqn:E; [|reflexivity]. apply N.eqb_eq in E. simpl in Hn. subst. tauto.
Qed.

Section Subst.
  Variables (x : N) (t : expr).

  Let cap (e : expr) : Prop := forall w, In w (free_vars t) -> ~ In w (bvars e).

  Lemma subst_quant ex vs e :
    (forall I u, cap e -> eval false t I = Some (VObj u) -> R (bind_var I x u) I e (subst x t e)) ->
    forall I u, cap (EQ ex vs e) -> eval false t I = Some (VObj u) ->
    R (bind_var I x u) I (EQ ex vs e) (if memN x (map fst vs) then EQ ex vs e else EQ ex vs (subst x t e)).
  Proof.
    intros IH I u Hcap Ht.
    assert (Hcv : forall w, In w (free_vars t) -> ~ In w (map fst vs)).
    { intros w Hw Hb. apply (Hcap w Hw). destruct ex; cbn [EQ bvars]; apply in_or_app; left; exact Hb. }
    assert (Hce : cap e).
    { intros w Hw Hb. apply (Hcap w Hw). destruct ex; cbn [EQ bvars]; apply in_or_app; right; exact Hb. }
    destruct (memN x (map fst vs)) eqn:B.
    - apply memN_In in B. apply cong_EQ_F2.
      eapply Forall2_impl; [|apply (inst_shadow vs x u B I)].
      intros J J' HE. eapply R_iext; [apply iext_sym; exact HE|apply iext_refl|apply R_refl].
    - apply memN_false in B. apply cong_EQ_F2.
      assert (H1 := inst_commute vs x u B I). apply Forall2_map_r_iff in H1.
      assert (H2 : Forall2 (fun K J => iext K (bind_var J x u) /\ In J (instances I vs))
                           (instances (bind_var I x u) vs) (instances I vs)).
      { clear -H1. revert H1. generalize (instances (bind_var I x u) vs).
        induction (instances I vs) as [|J L IHL]; intros l H; inversion H; subst; constructor.
        - split; [assumption|left; reflexivity].
        - eapply Forall2_impl; [|apply IHL; assumption]. intros a b [A1 A2]. split; [exact A1|right; exact A2]. }
      eapply Forall2_impl; [|exact H2]. intros K J [HE HJ].
      eapply R_iext; [apply iext_sym; exact HE|apply iext_refl|].
      apply IH; [exact Hce|].
      rewrite <- Ht. apply eval_coincide. destruct (inst_base _ _ _ HJ) as [HB HV].
      split; [apply ieq_sym, same_base_ieq; exact HB|]. intros w Hw. apply HV. apply Hcv. exact Hw.
  Qed.

  (* value-level substitution lemma, refinement form: evaluating e with x bound to the value of t refines to
     evaluating e[t/x], provided no quantifier of e binds a free variable of t *)
  Lemma subst_R e : forall I u,
    cap e -> eval false t I = Some (VObj u) -> R (bind_var I x u) I e (subst x t e).
  Proof.
    induction e using expr_ind'; intros I u Hcap Ht; cbn [subst];
      try (intros v Hv; exact Hv);
      try (assert (C1 : cap e1)
             by (intros w Hw Hb; apply (Hcap w Hw); cbn [bvars]; apply in_or_app; left; exact Hb);
           assert (C2 : cap e2)
             by (intros w Hw Hb; apply (Hcap w Hw); cbn [bvars]; apply in_or_app; right; exact Hb);
           assert (R1 := IHe1 I u C1 Ht); assert (R2 := IHe2 I u C2 Ht)).
    - (* EVar *) destruct (v =? x)%N eqn:E.
      + intros v' Hv. simpl in Hv. rewrite E in Hv. inversion Hv; subst. exact Ht.
      + intros v' Hv. simpl in *. rewrite E in Hv. exact Hv.
    - apply cong_EFluent; [reflexivity|]. apply Forall2_map_l. intros y Hy.
      rewrite Forall_forall in H. apply H; [exact Hy| |exact Ht].
      intros w Hw Hb. apply (Hcap w Hw). rewrite bv_EFluent. apply in_bvl. eauto.
    - apply cong_EIFun; [reflexivity|]. apply Forall2_map_l. intros y Hy.
      rewrite Forall_forall in H. apply H; [exact Hy| |exact Ht].
      intros w Hw Hb. apply (Hcap w Hw). rewrite bv_EIFun. apply in_bvl. eauto.
    - eapply R_trans; [|apply mkAnd_R]. apply cong_EAnd. apply Forall2_map_l. intros y Hy.
      rewrite Forall_forall in H. apply H; [exact Hy| |exact Ht].
      intros w Hw Hb. apply (Hcap w Hw). rewrite bv_EAnd. apply in_bvl. eauto.
    - eapply R_trans; [|apply mkOr_R]. apply cong_EOr. apply Forall2_map_l. intros y Hy.
      rewrite Forall_forall in H. apply H; [exact Hy| |exact Ht].
      intros w Hw Hb. apply (Hcap w Hw). rewrite bv_EOr. apply in_bvl. eauto.
    - eapply R_trans; [|apply mkNot_R]. apply cong_ENot. apply IHe; assumption.
    - apply cong_EImplies; assumption.
    - apply cong_EIff; assumption.
    - assert (Q := subst_quant true vs e IHe I u Hcap Ht). cbn [EQ] in Q.
      destruct (memN x (map fst vs)); exact Q.
    - assert (Q := subst_quant false vs e IHe I u Hcap Ht). cbn [EQ] in Q.
      destruct (memN x (map fst vs)); exact Q.
    - eapply R_trans; [|apply mkPlus_R]. apply cong_EPlus. apply Forall2_map_l. intros y Hy.
      rewrite Forall_forall in H. apply H; [exact Hy| |exact Ht].
      intros w Hw Hb. apply (Hcap w Hw). rewrite bv_EPlus. apply in_bvl. eauto.
    - apply cong_EMinus; assumption.
    - eapply R_trans; [|apply mkTimes_R]. apply cong_ETimes. apply Forall2_map_l. intros y Hy.
      rewrite Forall_forall in H. apply H; [exact Hy| |exact Ht].
      intros w Hw Hb. apply (Hcap w Hw). rewrite bv_ETimes. apply in_bvl. eauto.
    - apply cong_EDiv; assumption.
    - apply cong_ELe; assumption.
    - apply cong_ELt; assumption.
    - apply cong_EEquals; assumption.
  Qed.
End Subst.
