(* Proofs about the whole-message protobuf codecs (C20): actions, problem core, plans.
   Each decoder (= reader + the add_* methods it calls) inverts its encoder on well-formed objects. *)
From Coq Require Import List ZArith NArith QArith Qreduction Bool Lia.
Import ListNotations.
Require Import UPV.Model.ProtoCodec.
Require Import UPV.Proofs.ProtoCodec_proofs.
Require Import UPV.Corr.Corr_C20.
Require Import UPV.Model.ProtoWhole.
Open Scope list_scope.

(* split a conjunction of booleans syntactically (no unfolding of definitions) *)
Ltac split_and H :=
  repeat match type of H with
         | (_ && _ = true) => let H' := fresh H in apply andb_true_iff in H; destruct H as [H H']
         end.

(* ------------------------------------------------------------------ reflexivity of the structural equalities *)
Lemma Qeqb_strict_refl q : Qeqb_strict q q = true.
Proof. unfold Qeqb_strict. rewrite Z.eqb_refl, Pos.eqb_refl. reflexivity. Qed.

Lemma timepoint_eqb_refl t : timepoint_eqb t t = true.
Proof.
  unfold timepoint_eqb, tpkind_eqb. rewrite N.eqb_refl. destruct (tp_container t); simpl; [apply N.eqb_refl|reflexivity].
Qed.

Lemma timing_eqb_refl t : timing_eqb t t = true.
Proof. unfold timing_eqb. rewrite Qeqb_strict_refl, timepoint_eqb_refl. reflexivity. Qed.

Lemma tinterval_eqb_refl i : tinterval_eqb i i = true.
Proof. unfold tinterval_eqb. rewrite !timing_eqb_refl, !eqb_reflx. reflexivity. Qed.

(* ------------------------------------------------------------------ generic list lemmas *)
Lemma seq_opt_map2 {A M B} (g : A -> M) (dec : M -> option B) (h : A -> B) l :
  (forall x, In x l -> dec (g x) = Some (h x)) -> seq_opt dec (map g l) = Some (map h l).
Proof.
  induction l as [|x l IH]; intros H; [reflexivity|].
  cbn [map]. rewrite seq_opt_cons, (H x (or_introl eq_refl)), IH; [reflexivity|].
  intros y Hy. apply H. right; exact Hy.
Qed.

Lemma seq_opt_map_in {A M} (g : A -> M) (dec : M -> option A) l :
  (forall x, In x l -> dec (g x) = Some x) -> seq_opt dec (map g l) = Some l.
Proof. intros H. apply seq_opt_map. apply Forall_forall. exact H. Qed.

Lemma seq_opt_app {A B} (f : A -> option B) a b x y :
  seq_opt f a = Some x -> seq_opt f b = Some y -> seq_opt f (a ++ b) = Some (x ++ y).
Proof.
  revert x. induction a as [|e a IH]; intros x Ha Hb.
  - cbn in Ha. inversion Ha. exact Hb.
  - cbn [app]. rewrite seq_opt_cons in *. destruct (f e); [|discriminate].
    destruct (seq_opt f a) as [ys|]; [|discriminate]. inversion Ha. rewrite (IH ys eq_refl Hb). reflexivity.
Qed.

Lemma forallb_In {A} (p : A -> bool) l x : forallb p l = true -> In x l -> p x = true.
Proof. intros H Hin. rewrite forallb_forall in H. auto. Qed.

Lemma in_flatten {K V} (d : list (K * list V)) k v :
  In (k, v) (flatten d) -> exists vs, In (k, vs) d /\ In v vs.
Proof.
  unfold flatten. rewrite in_flat_map. intros [[k' vs] [Hin Hm]]. simpl in Hm. rewrite in_map_iff in Hm.
  destruct Hm as [v' [E Hv]]. inversion E; subst. exists vs. split; assumption.
Qed.

(* adding well-behaved elements one after the other appends them *)
Lemma adds_fold {V} (add : list V -> V -> list V) (add_ok : list V -> V -> bool) :
  (forall pre v, add_ok pre v = true -> add pre v = pre ++ [v]) ->
  forall vs pre, adds_ok add_ok pre vs = true -> fold_left add vs pre = pre ++ vs.
Proof.
  intros Hadd. induction vs as [|v vs IH]; intros pre H; cbn in *.
  - rewrite app_nil_r. reflexivity.
  - apply andb_true_iff in H. destruct H as [H1 H2]. rewrite (Hadd _ _ H1), (IH _ H2), <- app_assoc. reflexivity.
Qed.

Lemma keys_ok_app {K} (keq : K -> K -> bool) a : forall seen b,
  keys_ok keq seen (a ++ b) = true -> keys_ok keq seen a = true /\ keys_ok keq (seen ++ a) b = true.
Proof.
  induction a as [|k a IH]; intros seen b H; cbn in *.
  - rewrite app_nil_r. auto.
  - apply andb_true_iff in H. destruct H as [H1 H2]. destruct (IH _ _ H2) as [H3 H4].
    rewrite H1, H3. rewrite <- app_assoc in H4. auto.
Qed.

(* ------------------------------------------------------------------ dicts *)
Section Assoc.
  Context {K V : Type} (keq : K -> K -> bool).

  Lemma assoc_set_miss (acc : list (K * V)) k v :
    existsb (fun k' => keq k' k) (map fst acc) = false -> assoc_set keq acc k v = acc ++ [(k, v)].
  Proof.
    induction acc as [|[k' v'] acc IH]; cbn; intros H; [reflexivity|].
    apply orb_false_iff in H. destruct H as [H1 H2]. rewrite H1, (IH H2). reflexivity.
  Qed.

  Lemma assoc_fold (l : list (K * V)) : forall acc,
    keys_ok keq (map fst acc) (map fst l) = true ->
    fold_left (fun d kv => assoc_set keq d (fst kv) (snd kv)) l acc = acc ++ l.
  Proof.
    induction l as [|[k v] l IH]; intros acc H; cbn in *.
    - rewrite app_nil_r. reflexivity.
    - apply andb_true_iff in H. destruct H as [H1 H2]. apply negb_true_iff in H1.
      rewrite (assoc_set_miss _ _ _ H1), IH.
      + rewrite <- app_assoc. reflexivity.
      + rewrite map_app. exact H2.
  Qed.
End Assoc.

Section Dict.
  Context {K V : Type} (keq : K -> K -> bool).
  Hypothesis keq_refl : forall k, keq k k = true.
  Variable add : list V -> V -> list V.
  Variable add_ok : list V -> V -> bool.
  Hypothesis Hadd : forall pre v, add_ok pre v = true -> add pre v = pre ++ [v].

  Lemma dict_upd_miss f (acc : list (K * list V)) k :
    existsb (fun k' => keq k' k) (map fst acc) = false -> dict_upd keq f acc k = acc ++ [(k, f [])].
  Proof.
    induction acc as [|[k' vs] acc IH]; cbn; intros H; [reflexivity|].
    apply orb_false_iff in H. destruct H as [H1 H2]. rewrite H1, (IH H2). reflexivity.
  Qed.

  Lemma dict_upd_last f (acc : list (K * list V)) k pre :
    existsb (fun k' => keq k' k) (map fst acc) = false ->
    dict_upd keq f (acc ++ [(k, pre)]) k = acc ++ [(k, f pre)].
  Proof.
    induction acc as [|[k' vs] acc IH]; cbn; intros H.
    - rewrite keq_refl. reflexivity.
    - apply orb_false_iff in H. destruct H as [H1 H2]. rewrite H1, (IH H2). reflexivity.
  Qed.

  Lemma regroup_inner k : forall vs pre acc,
    existsb (fun k' => keq k' k) (map fst acc) = false -> adds_ok add_ok pre vs = true ->
    regroup_from keq add (map (fun v => (k, v)) vs) (acc ++ [(k, pre)]) = acc ++ [(k, pre ++ vs)].
  Proof.
    induction vs as [|v vs IH]; intros pre acc Hk H; cbn in *.
    - rewrite app_nil_r. reflexivity.
    - apply andb_true_iff in H. destruct H as [H1 H2].
      rewrite (dict_upd_last _ _ _ _ Hk), (Hadd _ _ H1).
      unfold regroup_from in IH. rewrite (IH _ _ Hk H2), <- app_assoc. reflexivity.
  Qed.

  Lemma regroup_acc : forall d acc,
    keys_ok keq (map fst acc) (map fst d) = true ->
    forallb (fun kvs => match snd kvs with [] => false | _ => adds_ok add_ok [] (snd kvs) end) d = true ->
    regroup_from keq add (flatten d) acc = acc ++ d.
  Proof.
    induction d as [|[k vs] d IH]; intros acc Hk Hv.
    - cbn. rewrite app_nil_r. reflexivity.
    - cbn [map fst keys_ok] in Hk. apply andb_true_iff in Hk. destruct Hk as [Hk1 Hk2]. apply negb_true_iff in Hk1.
      cbn [forallb snd] in Hv. apply andb_true_iff in Hv. destruct Hv as [Hv1 Hv2].
      destruct vs as [|v vs]; [discriminate|].
      cbn [adds_ok app] in Hv1. apply andb_true_iff in Hv1. destruct Hv1 as [Hv1 Hv3].
      unfold flatten. cbn [flat_map fst snd map app]. fold (flatten d).
      unfold regroup_from. cbn [fold_left fst snd]. rewrite fold_left_app.
      rewrite (dict_upd_miss _ _ _ Hk1), (Hadd _ _ Hv1). cbn [app].
      pose proof (regroup_inner k vs [v] acc Hk1 Hv3) as E. unfold regroup_from in E. rewrite E. cbn [app].
      specialize (IH (acc ++ [(k, v :: vs)])). unfold regroup_from in IH. rewrite IH.
      + rewrite <- app_assoc. reflexivity.
      + rewrite map_app. exact Hk2.
      + exact Hv2.
  Qed.

  Theorem regroup_flatten d : dict_ok keq add_ok d = true -> regroup keq add (flatten d) = d.
  Proof.
    unfold dict_ok. intros H. apply andb_true_iff in H. destruct H as [H1 H2].
    unfold regroup. rewrite (regroup_acc d [] H1 H2). reflexivity.
  Qed.
End Dict.

Lemma add_new_ok {V} (veq : V -> V -> bool) pre v : new_ok veq pre v = true -> add_new veq pre v = pre ++ [v].
Proof. unfold new_ok, add_new. intros H. apply negb_true_iff in H. rewrite H. reflexivity. Qed.

Lemma add_app_ok {V} (pre : list V) v : app_ok pre v = true -> add_app pre v = pre ++ [v].
Proof. reflexivity. Qed.

Lemma add_pre_ok pre c : pre_ok pre c = true -> add_pre pre c = pre ++ [c].
Proof.
  unfold pre_ok, add_pre. intros H. apply andb_true_iff in H. destruct H as [H1 H2].
  apply negb_true_iff in H1. rewrite H1. apply add_new_ok. exact H2.
Qed.

Lemma add_goal_ok pre g : goal_ok pre g = true -> add_goal pre g = pre ++ [g].
Proof. unfold goal_ok, add_goal. intros H. apply negb_true_iff in H. rewrite H. reflexivity. Qed.

(* ------------------------------------------------------------------ actions *)
Section Action.
  Variable ut : name -> bool.
  Variable ot : name -> option ty.
  Variable ft : name -> option ty.

  Lemma param_codec p : wf_tyb ut (snd p) = true -> dec_param ut (enc_param p) = Some p.
  Proof. destruct p as [n t]. unfold dec_param, enc_param; cbn. intros H. rewrite (type_codec ut t H). reflexivity. Qed.

  Lemma params_codec ps : forallb (fun p => wf_tyb ut (snd p)) ps = true ->
    seq_opt (dec_param ut) (map enc_param ps) = Some ps.
  Proof. intros H. apply seq_opt_map_in. intros p Hp. apply param_codec. exact (forallb_In _ _ _ H Hp). Qed.

  Lemma build_params_id ps : keys_ok N.eqb [] (map fst ps) = true -> build_params ps = ps.
  Proof. intros H. unfold build_params. rewrite (assoc_fold N.eqb ps [] H). reflexivity. Qed.

  Lemma need_key_some {K V} (l : list (K * V)) :
    seq_opt need_key (map (fun kv => (Some (fst kv), snd kv)) l) = Some l.
  Proof. apply seq_opt_map_in. intros [k v] _. reflexivity. Qed.

  Theorem action_codec a : wf_actionb ut ot ft a = true -> dec_action ut ot ft (enc_action a) = Some a.
  Proof.
    destruct a as [n ps pre effs | n ps dur conds effs]; cbn [wf_actionb]; intros H.
    - split_and H.
      unfold wf_paramsb in H. apply andb_true_iff in H. destruct H as [Hk Hp].
      unfold dec_action, enc_action. cbn [am_params am_duration am_conds am_effects am_name dec_optional].
      rewrite (params_codec ps Hp).
      rewrite (seq_opt_map2 (enc_condition None) (dec_condition ut ot ft) (fun c => (None, c)) pre).
      2:{ intros c Hc. apply condition_codec; [exact (forallb_In _ _ _ H2 Hc) | reflexivity]. }
      rewrite (seq_opt_map2 (enc_timed_effect None) (dec_timed_effect ut ot ft) (fun e => (None, e)) effs).
      2:{ intros e He. apply timed_effect_codec; [exact (forallb_In _ _ _ H0 He) | reflexivity]. }
      rewrite !map_map. cbn [snd]. rewrite !map_id.
      rewrite (adds_fold add_pre pre_ok add_pre_ok pre [] H1). rewrite (build_params_id ps Hk). reflexivity.
    - split_and H.
      unfold wf_paramsb in H. apply andb_true_iff in H. destruct H as [Hk Hp].
      unfold dec_action, enc_action. cbn [am_params am_duration am_conds am_effects am_name dec_optional].
      rewrite (params_codec ps Hp), (dinterval_codec ut ot ft dur H4).
      rewrite (seq_opt_map2 (fun sc => enc_condition (Some (fst sc)) (snd sc)) (dec_condition ut ot ft)
                 (fun sc => (Some (fst sc), snd sc)) (flatten conds)).
      2:{ intros [i c] Hc. apply in_flatten in Hc. destruct Hc as [vs [Hin Hv]].
          pose proof (forallb_In _ _ _ H2 Hin) as W. cbn [fst snd] in W. apply andb_true_iff in W. destruct W as [W1 W2].
          cbn [fst snd]. apply condition_codec; [exact (forallb_In _ _ _ W2 Hv) | exact W1]. }
      rewrite (seq_opt_map2 (fun te => enc_timed_effect (Some (fst te)) (snd te)) (dec_timed_effect ut ot ft)
                 (fun te => (Some (fst te), snd te)) (flatten effs)).
      2:{ intros [t e] He. apply in_flatten in He. destruct He as [vs [Hin Hv]].
          pose proof (forallb_In _ _ _ H0 Hin) as W. cbn [fst snd] in W. apply andb_true_iff in W. destruct W as [W1 W2].
          cbn [fst snd]. apply timed_effect_codec; [exact (forallb_In _ _ _ W2 Hv) | exact W1]. }
      rewrite !need_key_some.
      rewrite (regroup_flatten tinterval_eqb tinterval_eqb_refl (add_new expr_eqb) (new_ok expr_eqb)
                 (add_new_ok expr_eqb) conds H3).
      rewrite (regroup_flatten timing_eqb timing_eqb_refl add_app app_ok add_app_ok effs H1).
      rewrite (build_params_id ps Hk). reflexivity.
  Qed.
End Action.

(* ------------------------------------------------------------------ problems *)
Lemma mem_app l1 l2 n : mem (l1 ++ l2) n = mem l1 n || mem l2 n.
Proof. unfold mem. apply existsb_app. Qed.

Lemma named_phase {A M} (enc : A -> M) (dec : M -> option A) (nm : A -> name) used l : forall acc,
  (forall x, In x l -> dec (enc x) = Some x) ->
  keys_ok N.eqb (used ++ map nm acc) (map nm l) = true ->
  fold_opt (add_named dec nm used) (map enc l) acc = Some (acc ++ l).
Proof.
  induction l as [|x l IH]; intros acc Hd Hk.
  - cbn. rewrite app_nil_r. reflexivity.
  - cbn [map fold_opt]. cbn [map keys_ok] in Hk. apply andb_true_iff in Hk. destruct Hk as [Hk1 Hk2].
    apply negb_true_iff in Hk1. unfold add_named at 1. rewrite (Hd x (or_introl eq_refl)).
    unfold mem. rewrite Hk1. rewrite IH.
    + rewrite <- app_assoc. reflexivity.
    + intros y Hy. apply Hd. right; exact Hy.
    + rewrite map_app. cbn [map]. rewrite app_assoc. exact Hk2.
Qed.

Lemma existsb_type_absent (acc : list (name * option name)) n father :
  mem (map fst acc) n = false ->
  existsb (fun e => (fst e =? n)%N && opt_eqb N.eqb (snd e) father) acc = false.
Proof.
  induction acc as [|[m f] acc IH]; cbn; intros H; [reflexivity|].
  apply orb_false_iff in H. destruct H as [H1 H2]. rewrite H1, (IH H2). reflexivity.
Qed.

Lemma types_phase l : forall acc, types_ok (map fst acc) l = true ->
  fold_opt add_type_decl (map enc_user_type l) acc = Some (acc ++ l).
Proof.
  induction l as [|[n f] l IH]; intros acc H.
  - cbn. rewrite app_nil_r. reflexivity.
  - cbn [types_ok] in H. apply andb_true_iff in H. destruct H as [H H3]. apply andb_true_iff in H. destruct H as [H1 H2].
    apply negb_true_iff in H1. cbn [map fold_opt]. unfold add_type_decl at 1. unfold enc_user_type at 1. cbn [fst snd].
    rewrite (type_decl_codec (ut_of acc) (TyUser n) f eq_refl).
    2:{ unfold wf_fatherb, ut_of. destruct f as [p|]; [exact H2 | reflexivity]. }
    rewrite (existsb_type_absent acc n f H1). unfold ut_of at 1. rewrite H1. rewrite IH.
    + rewrite <- app_assoc. reflexivity.
    + rewrite map_app. exact H3.
Qed.

Section Problem.
  Variable simp : expr -> expr.

  Lemma object_codec ut o : wf_tyb ut (snd o) = true -> dec_object ut (enc_object o) = Some o.
  Proof. destruct o as [n t]. unfold dec_object, enc_object; cbn. intros H. rewrite (type_codec ut t H). reflexivity. Qed.

  Lemma fluent_codec ut ot d : wf_fluentb ut ot d = true -> dec_fluent ut ot (enc_fluent d) = Some d.
  Proof.
    unfold wf_fluentb. intros H. apply andb_true_iff in H. destruct H as [H H3]. apply andb_true_iff in H. destruct H as [H1 H2].
    unfold dec_fluent, enc_fluent. cbn [fm_type fm_params fm_default fm_name].
    rewrite (type_codec ut _ H1), (params_codec ut _ H2).
    destruct d as [n t sg [e|]]; cbn [fd_default option_map dec_optional wf_opt] in *.
    - apply andb_true_iff in H3. destruct H3 as [Hc He]. rewrite (expr_codec _ _ _ _ He), Hc. reflexivity.
    - reflexivity.
  Qed.

  Definition goal_step (s : list expr * list (tinterval * list expr)) (ig : option tinterval * expr) :=
    match fst ig with
    | None => (add_goal (fst s) (snd ig), snd s)
    | Some i => (fst s, dict_upd tinterval_eqb (fun vs => add_new expr_eqb vs (snd ig)) (snd s) i)
    end.

  Lemma goal_fold_untimed gs : forall a t,
    fold_left goal_step (map (fun g => (None, g)) gs) (a, t) = (fold_left add_goal gs a, t).
  Proof. induction gs as [|g gs IH]; intros a t; cbn; [reflexivity|]. rewrite IH. reflexivity. Qed.

  Lemma goal_fold_timed l : forall a t,
    fold_left goal_step (map (fun ig => (Some (fst ig), snd ig)) l) (a, t)
    = (a, regroup_from tinterval_eqb (add_new expr_eqb) l t).
  Proof. induction l as [|[i g] l IH]; intros a t; cbn; [reflexivity|]. rewrite IH. reflexivity. Qed.

  Theorem problem_codec p :
    wf_problemb p = true -> Forall (fun e => simp e = e) (p_traj p) ->
    dec_problem simp (enc_problem p) = Some p.
  Proof.
    intros H Hs. unfold wf_problemb in H. cbv zeta in H.
    split_and H.
    rename H into Hname, H15 into Htypes, H14 into Hnames, H13 into Hobjs, H12 into Hfls, H11 into Hacts,
           H10 into Hinitk, H9 into Hinit, H8 into Htek, H7 into Hte, H6 into Hgoals, H5 into Hgoalsok,
           H4 into Htgk, H3 into Htg, H2 into Hmet, H1 into Htraj, H0 into Heps.
    apply keys_ok_app in Hnames. destruct Hnames as [_ Hnames]. cbn [app] in Hnames.
    apply keys_ok_app in Hnames. destruct Hnames as [HnO Hnames].
    apply keys_ok_app in Hnames. destruct Hnames as [HnF HnA].
    unfold dec_problem, enc_problem.
    cbn [prm_name prm_types prm_fluents prm_objects prm_actions prm_init prm_timed_effects prm_goals prm_metrics
         prm_traj prm_discrete prm_self_overlapping prm_epsilon].
    rewrite (types_phase (p_types p) [] Htypes). cbn [app].
    rewrite (named_phase enc_object (dec_object (ut_of (p_types p))) fst (map fst (p_types p)) (p_objects p) []).
    2:{ intros o Ho. apply object_codec. exact (forallb_In _ _ _ Hobjs Ho). }
    2:{ cbn [map]. rewrite app_nil_r. exact HnO. }
    cbn [app].
    rewrite (named_phase enc_fluent (dec_fluent (ut_of (p_types p)) (ot_of (p_objects p))) fd_name
               (map fst (p_types p) ++ map fst (p_objects p)) (p_fluents p) []).
    2:{ intros d Hd. apply fluent_codec. exact (forallb_In _ _ _ Hfls Hd). }
    2:{ cbn [map]. rewrite app_nil_r. exact HnF. }
    cbn [app].
    rewrite (named_phase enc_action
               (dec_action (ut_of (p_types p)) (ot_of (p_objects p)) (ft_of (p_fluents p))) action_name
               (map fst (p_types p) ++ map fst (p_objects p) ++ map fd_name (p_fluents p)) (p_actions p) []).
    2:{ intros a Ha. apply action_codec. exact (forallb_In _ _ _ Hacts Ha). }
    2:{ cbn [map]. rewrite app_nil_r. rewrite !app_assoc in *. exact HnA. }
    cbn [app].
    set (ut := ut_of (p_types p)) in *. set (ot := ot_of (p_objects p)) in *. set (ft := ft_of (p_fluents p)) in *.
    (* timed effects *)
    rewrite (seq_opt_map_in (fun te => enc_timed_effect (Some (fst te)) (snd te)) _ (flatten (p_timed_effects p))).
    2:{ intros [t e] He. apply in_flatten in He. destruct He as [vs [Hin Hv]].
        pose proof (forallb_In _ _ _ Hte Hin) as W. cbn [fst snd] in W. apply andb_true_iff in W. destruct W as [W1 W2].
        unfold enc_timed_effect. cbn [te_effect te_time fst snd option_map].
        rewrite (effect_codec ut ot ft e (forallb_In _ _ _ W2 Hv)), (timing_codec t W1). reflexivity. }
    (* initial state *)
    rewrite (seq_opt_map_in (fun xv => (enc_expr (fst xv), enc_expr (snd xv))) _ (p_init p)).
    2:{ intros [x v] Hx. pose proof (forallb_In _ _ _ Hinit Hx) as W. cbn [fst snd] in W.
        apply andb_true_iff in W. destruct W as [W1 W2]. cbn [fst snd].
        rewrite (expr_codec _ _ _ _ W1), (expr_codec _ _ _ _ W2). reflexivity. }
    (* goals *)
    rewrite (seq_opt_app _ _ _ (map (fun g => (None, g)) (p_goals p))
               (map (fun ig => (Some (fst ig), snd ig)) (flatten (p_timed_goals p)))).
    2:{ apply seq_opt_map2. intros g Hg. cbn [gm_goal gm_timing dec_optional].
        rewrite (expr_codec _ _ _ _ (forallb_In _ _ _ Hgoals Hg)). reflexivity. }
    2:{ apply seq_opt_map2. intros [i g] Hg. apply in_flatten in Hg. destruct Hg as [vs [Hin Hv]].
        pose proof (forallb_In _ _ _ Htg Hin) as W. cbn [fst snd] in W. apply andb_true_iff in W. destruct W as [W1 W2].
        cbn [gm_goal gm_timing dec_optional fst snd].
        rewrite (expr_codec _ _ _ _ (forallb_In _ _ _ W2 Hv)), (tinterval_codec i W1). reflexivity. }
    (* trajectory constraints, metrics, epsilon *)
    rewrite (seq_opt_map_in enc_expr (dec_expr ut ot ft) (p_traj p)).
    2:{ intros e He. apply expr_codec. exact (forallb_In _ _ _ Htraj He). }
    rewrite (seq_opt_map_in enc_metric (dec_metric ut ot ft (act_of (p_actions p))) (p_metrics p)).
    2:{ intros m Hm. apply metric_codec. exact (forallb_In _ _ _ Hmet Hm). }
    assert (Eeps : dec_optional dec_real (option_map enc_real (p_epsilon p)) = Some (p_epsilon p)).
    { destruct (p_epsilon p) as [q|]; [|reflexivity]. cbn [option_map dec_optional wf_opt] in *. rewrite (real_codec q (canonQb_true q Heps)). reflexivity. }
    rewrite Eeps.
    (* rebuilding *)
    fold goal_step. rewrite fold_left_app, goal_fold_untimed, goal_fold_timed. cbn [fst snd].
    rewrite (adds_fold add_goal goal_ok add_goal_ok (p_goals p) [] Hgoalsok). cbn [app].
    fold (regroup tinterval_eqb (add_new expr_eqb) (flatten (p_timed_goals p))).
    rewrite (regroup_flatten tinterval_eqb tinterval_eqb_refl (add_new expr_eqb) (new_ok expr_eqb)
               (add_new_ok expr_eqb) (p_timed_goals p) Htgk).
    rewrite (regroup_flatten timing_eqb timing_eqb_refl add_app app_ok add_app_ok (p_timed_effects p) Htek).
    rewrite (assoc_fold expr_eqb (p_init p) [] Hinitk). cbn [app].
    assert (Etraj : map simp (p_traj p) = p_traj p).
    { clear -Hs. induction Hs as [|e l He _ IH]; cbn; [reflexivity|]. rewrite He, IH. reflexivity. }
    rewrite Etraj.
    clear -Hname. destruct p as [nm tys fls objs acts ini tes gs tgs ms tr dt so eps]. cbn in *.
    destruct nm as [n|]; [|reflexivity]. apply negb_true_iff in Hname. rewrite Hname. reflexivity.
  Qed.
End Problem.

(* ------------------------------------------------------------------ plans *)
Lemma Qred_canon q : canonQ (Qred q).
Proof. unfold canonQ. apply Qred_complete. apply Qred_correct. Qed.

Section Plan.
  Variable ot : name -> option ty.
  Variable asig : name -> option (nat * bool).

  Lemma param_atom_codec e :
    is_const e && wf_exprb (fun _ => false) ot (fun _ => None) e = true ->
    dec_param_atom ot (enc_param_atom e) = Some e.
  Proof.
    intros H. apply andb_true_iff in H. destruct H as [Hc Hw].
    destruct e; cbn [is_const] in Hc; try discriminate.
    - reflexivity.
    - reflexivity.
    - cbn [wf_exprb] in Hw. apply canonQb_true in Hw. unfold enc_param_atom. cbn [enc_expr enc_real_expr].
      unfold dec_param_atom. rewrite (py_fraction_num_den q Hw). reflexivity.
    - cbn [wf_exprb] in Hw. unfold enc_param_atom. cbn [enc_expr sym_atom]. unfold dec_param_atom.
      destruct (ot n) as [t'|]; [|discriminate]. apply ty_eqb_eq in Hw. subst. reflexivity.
  Qed.

  Lemma ainst_params_codec ps :
    forallb (fun e => is_const e && wf_exprb (fun _ => false) ot (fun _ => None) e) ps = true ->
    seq_opt (dec_param_atom ot) (map enc_param_atom ps) = Some ps.
  Proof. intros H. apply seq_opt_map_in. intros e He. apply param_atom_codec. exact (forallb_In _ _ _ H He). Qed.

  Lemma ainst_codec_untimed a : wf_ainstb ot asig a = true ->
    dec_ainst ot asig (enc_ainst None None a) = Some (a, None).
  Proof.
    unfold wf_ainstb, dec_ainst, enc_ainst. cbn [aim_params aim_action aim_start aim_end].
    destruct (asig (fst a)) as [[ar du]|]; [|discriminate]. intros H. apply andb_true_iff in H. destruct H as [Hl Hp].
    rewrite (ainst_params_codec _ Hp), Hl. destruct a; reflexivity.
  Qed.

  Lemma duration_back s d : canonQ d -> Qred (Qminus (Qred (Qplus s d)) s) = d.
  Proof.
    intros Hd. unfold canonQ in Hd. transitivity (Qred d); [|exact Hd]. apply Qred_complete. rewrite Qred_correct. ring.
  Qed.

  Lemma ainst_codec_timed s a od : wf_tt_entryb ot asig (s, a, od) = true ->
    dec_ainst ot asig (enc_ainst (Some (enc_real s))
                         (Some (enc_real (Qred (Qplus s (match od with Some d => d | None => Qmake 0 1 end))))) a)
    = Some (a, Some (s, od)).
  Proof.
    unfold wf_tt_entryb, wf_ainstb. cbn [fst snd]. intros H.
    apply andb_true_iff in H. destruct H as [H Hd]. apply andb_true_iff in H. destruct H as [Hs Ha].
    apply canonQb_true in Hs.
    unfold dec_ainst, enc_ainst. cbn [aim_params aim_action aim_start aim_end].
    destruct (asig (fst a)) as [[ar du]|]; [|discriminate]. apply andb_true_iff in Ha. destruct Ha as [Hl Hp].
    rewrite (ainst_params_codec _ Hp), Hl. cbn [negb].
    rewrite (real_codec s Hs), (real_codec _ (Qred_canon _)).
    destruct od as [d|].
    - apply andb_true_iff in Hd. destruct Hd as [Hc Hz]. apply canonQb_true in Hc.
      rewrite (duration_back s d Hc).
      destruct du; cbn [negb andb orb] in *.
      + rewrite andb_false_r. destruct a; reflexivity.
      + apply negb_true_iff in Hz. rewrite Hz. destruct a; reflexivity.
    - assert (Hc : canonQ (Qmake 0 1)) by reflexivity.
      rewrite (duration_back s (Qmake 0 1) Hc). cbn [Qnum Z.eqb andb]. rewrite Hd. destruct a; reflexivity.
  Qed.

  Theorem seq_plan_codec l : wf_seq_planb ot asig l = true ->
    dec_plan ot asig (enc_plan (PSeq l)) = Some (PSeq l).
  Proof.
    unfold wf_seq_planb, dec_plan, enc_plan. intros H.
    assert (Hl : forallb (wf_ainstb ot asig) l = true) by (destruct l; [discriminate | exact H]).
    rewrite (seq_opt_map2 (enc_ainst None None) (dec_ainst ot asig) (fun a => (a, None)) l).
    2:{ intros a Ha. apply ainst_codec_untimed. exact (forallb_In _ _ _ Hl Ha). }
    destruct l as [|a l]; [discriminate|]. cbn [map forallb snd andb].
    rewrite map_map. cbn [fst]. rewrite map_id. reflexivity.
  Qed.

  Theorem tt_plan_codec l : wf_tt_planb ot asig l = true ->
    dec_plan ot asig (enc_plan (PTT l)) = Some (PTT l).
  Proof.
    unfold wf_tt_planb, dec_plan, enc_plan. intros H.
    rewrite (seq_opt_map2 _ (dec_ainst ot asig) (fun sad => (snd (fst sad), Some (fst (fst sad), snd sad))) l).
    2:{ intros [[s a] od] Hin. cbn [fst snd]. apply ainst_codec_timed. exact (forallb_In _ _ _ H Hin). }
    assert (E1 : forallb (fun a : ainst * option (Q * option Q) => match snd a with Some _ => true | None => false end)
                   (map (fun sad : Q * ainst * option Q => (snd (fst sad), Some (fst (fst sad), snd sad))) l) = true).
    { clear. induction l as [|x l IH]; cbn; [reflexivity | exact IH]. }
    rewrite E1. f_equal. f_equal. clear. induction l as [|[[s a] od] l IH]; cbn; [reflexivity|]. rewrite IH. reflexivity.
  Qed.

  (* finding C20-F2: the empty sequential plan is read back as the empty time-triggered plan *)
  Lemma empty_seq_plan_lost : dec_plan ot asig (enc_plan (PSeq [])) = Some (PTT []).
  Proof. reflexivity. Qed.
End Plan.
