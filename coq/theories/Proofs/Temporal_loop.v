(* The main loop of TimeTriggeredPlanValidator._validate (start list + heap of scheduled effects) applies the groups of
   simultaneous scheduled entries in increasing time: [tt_main] = push every entry, then [run_groups] over [groups]. *)
From Coq Require Import List ZArith NArith QArith Qcanon Bool Lia Lqa Permutation.
Import ListNotations.
Require Import UPV.Core.Expr UPV.Core.Eval UPV.Core.Interp UPV.Planning.Problem UPV.Planning.Sem.
Require Import UPV.Planning.Temporal UPV.Planning.TTValidate.
Require Import UPV.Proofs.Eval_lemmas UPV.Proofs.Sem_proofs UPV.Proofs.Step_proofs.
Require Import UPV.Proofs.Temporal_base UPV.Proofs.Temporal_dense UPV.Proofs.Temporal_joint.
Local Open Scope Qc_scope.

(* ------------------------------------------------------------------ the heap as a time-sorted list *)
Fixpoint sortedT (h : list event) : Prop :=
  match h with [] => True | e :: r => (forall x, In x r -> ev_time e <= ev_time x) /\ sortedT r end.

Lemma hpush_In e h x : In x (hpush e h) <-> x = e \/ In x h.
Proof.
  induction h as [|y h IH]; cbn; [intuition|].
  destruct (qc_ltb (ev_time e) (ev_time y)); cbn; [intuition|]. rewrite IH. intuition.
Qed.

Lemma hpush_sorted e h : sortedT h -> sortedT (hpush e h).
Proof.
  induction h as [|y h IH]; intros S; cbn; [split; [intros x [] | exact I]|].
  destruct S as [S1 S2]. destruct (qc_ltb (ev_time e) (ev_time y)) eqn:E; qb.
  - split; [|split; assumption]. intros x [<-|Hx]; [qco|]. specialize (S1 x Hx). qco.
  - split; [|apply IH, S2]. intros x Hx. apply hpush_In in Hx. destruct Hx as [->|Hx]; [exact E | apply S1, Hx].
Qed.

Lemma hpush_perm e h : Permutation (hpush e h) (e :: h).
Proof.
  induction h as [|y h IH]; cbn; [apply Permutation_refl|].
  destruct (qc_ltb (ev_time e) (ev_time y)); [apply Permutation_refl|].
  eapply Permutation_trans; [apply perm_skip, IH | apply perm_swap].
Qed.

Lemma hpush_prefix e pre post :
  (forall x, In x pre -> ev_time x <= ev_time e) -> hpush e (pre ++ post) = pre ++ hpush e post.
Proof.
  induction pre as [|y pre IH]; intros H; [reflexivity|]. cbn.
  assert (E : qc_ltb (ev_time e) (ev_time y) = false) by (apply qc_ltb_false, H; left; reflexivity).
  rewrite E. f_equal. apply IH. intros x Hx. apply H. right. exact Hx.
Qed.

Lemma hpush_all_In evs : forall h x, In x (hpush_all evs h) <-> In x evs \/ In x h.
Proof.
  induction evs as [|e evs IH]; intros h x; cbn; [intuition|].
  unfold hpush_all in *. cbn. rewrite IH, hpush_In. intuition.
Qed.

Lemma hpush_all_sorted evs : forall h, sortedT h -> sortedT (hpush_all evs h).
Proof.
  induction evs as [|e evs IH]; intros h S; [exact S|]. unfold hpush_all in *. cbn. apply IH, hpush_sorted, S.
Qed.

Lemma hpush_all_perm evs : forall h, Permutation (hpush_all evs h) (evs ++ h).
Proof.
  induction evs as [|e evs IH]; intros h; [apply Permutation_refl|]. unfold hpush_all in *. cbn.
  eapply Permutation_trans; [apply IH|].
  eapply Permutation_trans; [apply Permutation_app_head, hpush_perm|].
  apply Permutation_sym, Permutation_middle.
Qed.

Lemma hpush_all_prefix evs : forall pre post,
  (forall x e, In x pre -> In e evs -> ev_time x <= ev_time e) ->
  hpush_all evs (pre ++ post) = pre ++ hpush_all evs post.
Proof.
  induction evs as [|e evs IH]; intros pre post H; [reflexivity|]. unfold hpush_all in *. cbn.
  rewrite hpush_prefix by (intros x Hx; apply (H x e Hx); left; reflexivity).
  apply IH. intros x e' Hx He'. apply (H x e' Hx). right. exact He'.
Qed.

(* ------------------------------------------------------------------ groups of simultaneous entries *)
Fixpoint groups (h : list event) : list (Qc * list event) :=
  match h with
  | [] => []
  | e :: r =>
      match groups r with
      | (t, g) :: gs => if qc_eqb (ev_time e) t then (t, e :: g) :: gs else (ev_time e, [e]) :: (t, g) :: gs
      | [] => [(ev_time e, [e])]
      end
  end.

Lemma groups_head e r : exists g gs, groups (e :: r) = (ev_time e, e :: g) :: gs.
Proof.
  cbn. destruct (groups r) as [|[t g] gs]; [exists [], []; reflexivity|].
  destruct (qc_eqb (ev_time e) t) eqn:E; [|exists [], ((t, g) :: gs); reflexivity].
  apply qc_eqb_eq in E. subst t. exists g, gs. reflexivity.
Qed.

Lemma span_groups r : forall e,
  let '(g, r') := span_time (ev_time e) r in
  groups (e :: r) = (ev_time e, e :: g) :: groups r' /\ (length r' <= length r)%nat /\ r = g ++ r' /\
  (forall x, In x g -> ev_time x = ev_time e) /\
  (match r' with [] => True | y :: _ => ev_time y <> ev_time e end).
Proof.
  induction r as [|x r IH]; intros e.
  - cbn. repeat split; auto. intros x [].
  - cbn [span_time]. destruct (qc_eqb (ev_time x) (ev_time e)) eqn:E.
    + apply qc_eqb_eq in E. specialize (IH x). rewrite E in IH.
      destruct (span_time (ev_time e) r) as [g r'] eqn:ES.
      destruct IH as (I1 & I2 & I3 & I4 & I5).
      split; [|split; [|split; [|split]]].
      * change (groups (e :: x :: r)) with
          (match groups (x :: r) with
           | (t, g) :: gs => if qc_eqb (ev_time e) t then (t, e :: g) :: gs else (ev_time e, [e]) :: (t, g) :: gs
           | [] => [(ev_time e, [e])] end).
        rewrite I1, qc_eqb_refl. reflexivity.
      * cbn [length]. lia.
      * cbn. f_equal. exact I3.
      * intros y [<-|Hy]; [exact E | apply I4, Hy].
      * exact I5.
    + split; [|split; [|split; [|split]]].
      * destruct (groups_head x r) as [g [gs EG]].
        change (groups (e :: x :: r)) with
          (match groups (x :: r) with
           | (t, g) :: gs => if qc_eqb (ev_time e) t then (t, e :: g) :: gs else (ev_time e, [e]) :: (t, g) :: gs
           | [] => [(ev_time e, [e])] end).
        rewrite EG. assert (E' : qc_eqb (ev_time e) (ev_time x) = false).
        { apply qc_eqb_false. apply qc_eqb_false in E. congruence. }
        rewrite E'. reflexivity.
      * lia.
      * reflexivity.
      * intros y [].
      * apply qc_eqb_false in E. exact E.
Qed.

Lemma groups_app pre post :
  (forall x y, In x pre -> In y post -> ev_time x <> ev_time y) -> groups (pre ++ post) = groups pre ++ groups post.
Proof.
  induction pre as [|e pre IH]; intros H; [reflexivity|].
  cbn [app groups]. rewrite IH by (intros x y Hx Hy; apply H; [right; exact Hx | exact Hy]).
  destruct (groups pre) as [|[t g] gs] eqn:EG; [|cbn [app]; destruct (qc_eqb (ev_time e) t); reflexivity].
  cbn [app]. destruct pre; [|destruct (groups_head e0 pre) as [g' [gs' E']]; rewrite E' in EG; discriminate].
  cbn [app]. destruct post as [|y post]; [reflexivity|].
  destruct (groups_head y post) as [g [gs EGy]]. rewrite EGy.
  assert (E : qc_eqb (ev_time e) (ev_time y) = false).
  { apply qc_eqb_false. apply H; left; reflexivity. }
  rewrite E. reflexivity.
Qed.

Lemma sortedT_app_r a b : sortedT (a ++ b) -> sortedT b.
Proof. induction a as [|x a IH]; [auto|]. intros [_ S]. apply IH, S. Qed.

Lemma sortedT_app_lt a b x y : sortedT (a ++ b) -> In x a -> In y b -> ev_time x <= ev_time y.
Proof.
  induction a as [|z a IH]; intros S Hx Hy; [destruct Hx|].
  destruct S as [S1 S2]. destruct Hx as [<-|Hx]; [apply S1, in_or_app; right; exact Hy | apply IH; assumption].
Qed.

Lemma sorted_span e r :
  sortedT (e :: r) ->
  let '(g, r') := span_time (ev_time e) r in sortedT r' /\ forall y, In y r' -> ev_time e < ev_time y.
Proof.
  intros S. pose proof (span_groups r e) as SG. destruct (span_time (ev_time e) r) as [g r'].
  destruct SG as (_ & _ & E & _ & NE). destruct S as [S1 S2]. subst r.
  pose proof (sortedT_app_r g r' S2) as S3. split; [exact S3|].
  intros y Hy. destruct r' as [|y0 r0]; [destruct Hy|].
  assert (L0 : ev_time e < ev_time y0).
  { assert (ev_time e <= ev_time y0) by (apply S1, in_or_app; right; left; reflexivity).
    destruct (Qcle_lt_or_eq _ _ H) as [L|L]; [exact L | congruence]. }
  destruct Hy as [<-|Hy]; [exact L0|]. destruct S3 as [S3 _]. specialize (S3 y Hy). qco.
Qed.

Lemma groups_same e g : (forall x, In x g -> ev_time x = ev_time e) -> groups (e :: g) = [(ev_time e, e :: g)].
Proof.
  revert e; induction g as [|x g IH]; intros e H; [reflexivity|].
  change (groups (e :: x :: g)) with
    (match groups (x :: g) with
     | (t, g) :: gs => if qc_eqb (ev_time e) t then (t, e :: g) :: gs else (ev_time e, [e]) :: (t, g) :: gs
     | [] => [(ev_time e, [e])] end).
  rewrite IH.
  - rewrite (H x (or_introl eq_refl)), qc_eqb_refl. reflexivity.
  - intros y Hy. rewrite (H y (or_intror Hy)), (H x (or_introl eq_refl)). reflexivity.
Qed.

Fixpoint span_lt (t : Qc) (h : list event) : list event * list event :=
  match h with
  | [] => ([], [])
  | e :: r => if qc_ltb (ev_time e) t then let '(a, b) := span_lt t r in (e :: a, b) else ([], h)
  end.

Lemma span_lt_app t a b : (forall x, In x a -> ev_time x < t) ->
  span_lt t (a ++ b) = let '(p, q) := span_lt t b in (a ++ p, q).
Proof.
  induction a as [|x a IH]; intros H; [cbn; destruct (span_lt t b); reflexivity|].
  cbn. assert (E : qc_ltb (ev_time x) t = true) by (apply qc_ltb_lt, H; left; reflexivity). rewrite E.
  rewrite IH by (intros y Hy; apply H; right; exact Hy). destruct (span_lt t b); reflexivity.
Qed.

Lemma span_lt_spec t h : sortedT h ->
  let '(p, q) := span_lt t h in h = p ++ q /\ (forall x, In x p -> ev_time x < t) /\ (forall x, In x q -> t <= ev_time x).
Proof.
  induction h as [|e r IH]; intros S; [cbn; repeat split; intros x []|].
  cbn. destruct S as [S1 S2]. destruct (qc_ltb (ev_time e) t) eqn:E; qb.
  - specialize (IH S2). destruct (span_lt t r) as [p q]. destruct IH as (I1 & I2 & I3).
    split; [cbn; f_equal; exact I1|]. split; [|exact I3]. intros x [<-|Hx]; [exact E | apply I2, Hx].
  - split; [reflexivity|]. split; [intros x []|]. intros x [<-|Hx]; [exact E | specialize (S1 x Hx); qco].
Qed.

Section Loop.
  Variable sc : bool.
  Variable TP : tproblem.
  Let P := tp_base TP.

  (* the groups of simultaneous effects applied in turn: one `elif scheduled_effects:` iteration per group *)
  Fixpoint run_groups (gs : list (Qc * list event)) (m : mstate) : option mstate :=
    match gs with
    | [] => Some m
    | (t, g) :: gs' =>
        match tt_apply_effects sc P (fst m) g with
        | None => None
        | Some s' => run_groups gs' (s', trace_set (snd m) t s')
        end
    end.

  Lemma run_groups_app gs1 gs2 m :
    run_groups (gs1 ++ gs2) m = match run_groups gs1 m with Some m' => run_groups gs2 m' | None => None end.
  Proof.
    revert m; induction gs1 as [|[t g] gs1 IH]; intros m; [reflexivity|]. cbn.
    destruct (tt_apply_effects sc P (fst m) g); [apply IH | reflexivity].
  Qed.

  Definition dres_of (o : option mstate) (h : list event) : dres :=
    match o with Some m' => DOk h m' | None => DFail end.

  Lemma drain_none fuel : forall h m, (length h <= fuel)%nat ->
    drain sc TP fuel None h m = dres_of (run_groups (groups h) m) [].
  Proof.
    induction fuel as [|fuel IH]; intros h m L.
    - destruct h; [reflexivity | cbn in L; lia].
    - destruct h as [|e r]; [reflexivity|].
      cbn [drain span_time]. rewrite qc_eqb_refl.
      pose proof (span_groups r e) as SG. destruct (span_time (ev_time e) r) as [g r'].
      destruct SG as (G1 & G2 & _). rewrite G1. cbn [run_groups]. fold P.
      destruct (tt_apply_effects sc P (fst m) (e :: g)) as [s'|]; [|reflexivity].
      apply IH. cbn in L. lia.
  Qed.

  Lemma drain_some t fuel : forall h m, (length h <= fuel)%nat -> sortedT h ->
    drain sc TP fuel (Some t) h m = let '(pre, post) := span_lt t h in dres_of (run_groups (groups pre) m) post.
  Proof.
    induction fuel as [|fuel IH]; intros h m L S.
    - destruct h; [reflexivity | cbn in L; lia].
    - destruct h as [|e r]; [reflexivity|].
      cbn [drain]. destruct (qc_leb t (ev_time e)) eqn:E.
      + cbn [span_lt]. assert (E' : qc_ltb (ev_time e) t = false) by (qb; apply qc_ltb_false; exact E).
        rewrite E'. reflexivity.
      + cbn [span_time]. rewrite qc_eqb_refl.
        pose proof (span_groups r e) as SG. pose proof (sorted_span e r S) as SS.
        destruct (span_time (ev_time e) r) as [g r'].
        destruct SG as (G1 & G2 & G3 & G4 & _). destruct SS as [SS1 SS2].
        assert (Elt : ev_time e < t) by (qb; exact E).
        subst r. change (e :: g ++ r') with ((e :: g) ++ r').
        rewrite span_lt_app by (intros x [<-|Hx]; [exact Elt | rewrite (G4 x Hx); exact Elt]).
        pose proof (span_lt_spec t r' SS1) as SP.
        specialize (IH r' (match tt_apply_effects sc P (fst m) (e :: g) with Some s' => (s', trace_set (snd m) (ev_time e) s') | None => m end)).
        destruct (span_lt t r') as [p q]. destruct SP as (P1 & P2 & P3).
        rewrite groups_app.
        * rewrite (groups_same e g G4). cbn [app run_groups]. fold P.
          destruct (tt_apply_effects sc P (fst m) (e :: g)) as [s'|]; [|reflexivity].
          apply IH; [|exact SS1]. rewrite app_length in G2. cbn in L. rewrite app_length in L. lia.
        * intros x y Hx Hy. assert (ev_time x = ev_time e) by (destruct Hx as [<-|Hx]; [reflexivity | apply G4, Hx]).
          assert (ev_time e < ev_time y) by (apply SS2; rewrite P1; apply in_or_app; left; exact Hy).
          rewrite H. intros EE. rewrite EE in H0. qco.
  Qed.
End Loop.

(* ------------------------------------------------------------------ the order in which start actions are popped *)
Fixpoint starts_asc (l : list (nat * pstep)) : Prop :=
  match l with
  | [] => True
  | x :: r => (forall y, In y r -> ps_start (snd x) <= ps_start (snd y)) /\ starts_asc r
  end.

Fixpoint starts_desc (l : list (nat * pstep)) : Prop :=
  match l with
  | [] => True
  | x :: r => (forall y, In y r -> ps_start (snd y) <= ps_start (snd x)) /\ starts_desc r
  end.

Lemma ins_desc_In x l y : In y (ins_desc x l) <-> y = x \/ In y l.
Proof.
  induction l as [|z l IH]; cbn; [intuition|].
  destruct (qc_ltb (ps_start (snd x)) (ps_start (snd z))); cbn; [rewrite IH|]; intuition.
Qed.

Lemma ins_desc_sorted x l : starts_desc l -> starts_desc (ins_desc x l).
Proof.
  induction l as [|z l IH]; intros S; cbn; [split; [intros y [] | exact I]|].
  destruct S as [S1 S2]. destruct (qc_ltb (ps_start (snd x)) (ps_start (snd z))) eqn:E; qb.
  - split; [|apply IH, S2]. intros y Hy. apply ins_desc_In in Hy. destruct Hy as [->|Hy]; [qco | apply S1, Hy].
  - split; [|split; assumption]. intros y [<-|Hy]; [exact E | specialize (S1 y Hy); qco].
Qed.

Lemma ins_desc_perm x l : Permutation (ins_desc x l) (x :: l).
Proof.
  induction l as [|z l IH]; cbn; [apply Permutation_refl|].
  destruct (qc_ltb (ps_start (snd x)) (ps_start (snd z))); [|apply Permutation_refl].
  eapply Permutation_trans; [apply perm_skip, IH | apply perm_swap].
Qed.

Lemma sort_desc_spec l : starts_desc (fold_right ins_desc [] l) /\ Permutation (fold_right ins_desc [] l) l.
Proof.
  induction l as [|x l [IH1 IH2]]; cbn; [split; [exact I | constructor]|].
  split; [apply ins_desc_sorted, IH1|]. eapply Permutation_trans; [apply ins_desc_perm | apply perm_skip, IH2].
Qed.

Lemma starts_desc_rev l : starts_desc l -> starts_asc (rev l).
Proof.
  induction l as [|x l IH]; intros S; [exact I|]. destruct S as [S1 S2]. cbn.
  assert (G : forall a b, starts_asc a -> (forall y, In y a -> ps_start (snd y) <= ps_start (snd b)) -> starts_asc (a ++ [b])).
  { clear. induction a as [|z a IH]; intros b A H; cbn; [split; [intros y [] | exact I]|].
    destruct A as [A1 A2]. split.
    - intros y Hy. apply in_app_iff in Hy. destruct Hy as [Hy|[<-|[]]]; [apply A1, Hy | apply H; left; reflexivity].
    - apply IH; [exact A2|]. intros y Hy. apply H. right. exact Hy. }
  apply G; [apply IH, S2|]. intros y Hy. apply in_rev in Hy. apply S1, Hy.
Qed.

Lemma starts_order_spec pi : starts_asc (starts_order pi) /\ Permutation (starts_order pi) (indexed pi).
Proof.
  unfold starts_order. destruct (sort_desc_spec (indexed pi)) as [S P]. split.
  - apply starts_desc_rev, S.
  - eapply Permutation_trans; [apply Permutation_sym, Permutation_rev | exact P].
Qed.

Section Main.
  Variable sc : bool.
  Variable TP : tproblem.
  Let P := tp_base TP.

  Definition evs_of (ist : nat * pstep) : list event := step_events TP (fst ist) (snd ist).

  (* every effect of a step is scheduled at or after the step's start *)
  Definition starts_ok (l : list (nat * pstep)) : Prop :=
    forall ist e, In ist l -> In e (evs_of ist) -> ps_start (snd ist) <= ev_time e.

  Lemma hpush_all_app a b h : hpush_all (a ++ b) h = hpush_all b (hpush_all a h).
  Proof. unfold hpush_all. apply fold_left_app. Qed.

  (* the whole loop = push every entry, then apply the groups of simultaneous entries in increasing time *)
  Theorem tt_main_groups starts : forall h m,
    sortedT h -> starts_asc starts -> starts_ok starts ->
    tt_main sc TP starts h m = dres_of (run_groups sc TP (groups (hpush_all (flat_map evs_of starts) h)) m) [].
  Proof.
    induction starts as [|[i st] rest IH]; intros h m S A OK.
    - cbn [tt_main flat_map]. apply drain_none. apply le_n.
    - cbn [tt_main]. rewrite (drain_some sc TP (ps_start st) (length h) h m (le_n _) S).
      pose proof (span_lt_spec (ps_start st) h S) as SP.
      destruct (span_lt (ps_start st) h) as [pre post]. destruct SP as (E & P1 & P2).
      destruct A as [A1 A2].
      assert (GE : forall e, In e (flat_map evs_of ((i, st) :: rest)) -> ps_start st <= ev_time e).
      { intros e He. apply in_flat_map in He. destruct He as [ist [Hi He]].
        pose proof (OK ist e Hi He) as L. destruct Hi as [<-|Hi]; [exact L|]. specialize (A1 ist Hi). cbn [snd] in A1. qco. }
      assert (R : groups (hpush_all (flat_map evs_of ((i, st) :: rest)) h) =
                  groups pre ++ groups (hpush_all (flat_map evs_of rest) (hpush_all (evs_of (i, st)) post))).
      { rewrite E. rewrite hpush_all_prefix.
        - rewrite groups_app.
          + cbn [flat_map]. rewrite hpush_all_app. reflexivity.
          + intros x y Hx Hy. apply hpush_all_In in Hy. specialize (P1 x Hx).
            assert (ps_start st <= ev_time y) by (destruct Hy as [Hy|Hy]; [apply GE, Hy | apply P2, Hy]).
            intros EE. rewrite EE in P1. qco.
        - intros x e Hx He. specialize (P1 x Hx). specialize (GE e He). qco. }
      rewrite R, run_groups_app.
      destruct (run_groups sc TP (groups pre) m) as [m'|]; [|reflexivity]. cbn [dres_of].
      apply IH.
      + apply hpush_all_sorted. rewrite E in S. apply (sortedT_app_r pre post S).
      + exact A2.
      + intros ist e Hi He. apply (OK ist e); [right; exact Hi | exact He].
  Qed.
End Main.
