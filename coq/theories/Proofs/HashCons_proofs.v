(* Proofs about the ExpressionManager model (C16): invariants of the hash-consing table over arbitrary histories of
   constructor calls (failing ones included), stability of a constructor call under any later history, and the
   documented normalisations.  Everything in Section Generic holds for EVERY type-check verdict function [tc]. *)
From Coq Require Import List ZArith NArith QArith Qcanon Bool Lia Sorted.
Import ListNotations.
Require Import UPV.Model.HashCons.
Open Scope N_scope.

(* ------------------------------------------------------------------ boolean equalities *)
Lemma op_code_inj a b : op_code a = op_code b -> a = b.
Proof. destruct a, b; simpl; intros H; try reflexivity; discriminate. Qed.

Lemma op_eqb_eq a b : op_eqb a b = true <-> a = b.
Proof. unfold op_eqb. rewrite N.eqb_eq. split; [apply op_code_inj | intros ->; reflexivity]. Qed.

Lemma ids_eqb_eq a : forall b, ids_eqb a b = true <-> a = b.
Proof.
  induction a as [|x a IH]; intros [|y b]; simpl; try (split; [discriminate | intros H; inversion H]); [tauto|].
  rewrite andb_true_iff, N.eqb_eq, IH. split; [intros [-> ->]; reflexivity | intros H; inversion H; auto].
Qed.

Lemma payload_eqb_eq a b : payload_eqb a b = true <-> a = b.
Proof.
  destruct a, b; simpl; try (split; [discriminate | intros H; inversion H]); try tauto.
  - rewrite eqb_true_iff. split; [intros ->; reflexivity | intros H; inversion H; auto].
  - rewrite Z.eqb_eq. split; [intros ->; reflexivity | intros H; inversion H; auto].
  - rewrite andb_true_iff, Z.eqb_eq, Pos.eqb_eq. split; [intros [-> ->]; reflexivity | intros H; inversion H; auto].
  - rewrite N.eqb_eq. split; [intros ->; reflexivity | intros H; inversion H; auto].
Qed.

Lemma content_eqb_eq (a b : content) : content_eqb a b = true <-> a = b.
Proof.
  destruct a as [[o l] p], b as [[o' l'] p']; simpl.
  rewrite !andb_true_iff, op_eqb_eq, ids_eqb_eq, payload_eqb_eq.
  split; [intros [[-> ->] ->]; reflexivity | intros H; inversion H; auto].
Qed.

Arguments content_eqb : simpl never.

Lemma content_eqb_refl c : content_eqb c c = true.
Proof. apply content_eqb_eq; reflexivity. Qed.

(* ------------------------------------------------------------------ lists *)
Definition ids (t : list node) : list N := map n_id t.
Definition contents (t : list node) : list content := map content_of t.

Lemma find_content_some c t n : find_content c t = Some n -> In n t /\ content_of n = c.
Proof.
  induction t as [|m t IH]; simpl; [discriminate|].
  destruct (content_eqb (content_of m) c) eqn:E.
  - intros H; inversion H; subst. apply content_eqb_eq in E. split; [left; reflexivity | exact E].
  - intros H. destruct (IH H). split; [right; assumption | assumption].
Qed.

Lemma find_content_none c t : find_content c t = None -> forall n, In n t -> content_of n <> c.
Proof.
  induction t as [|m t IH]; simpl; [tauto|].
  destruct (content_eqb (content_of m) c) eqn:E; [discriminate|].
  intros H n [<-|Hn]; [|auto]. intros E2. apply content_eqb_eq in E2. congruence.
Qed.

Lemma NoDup_map_inj_in {A B} (f : A -> B) l : NoDup (map f l) ->
  forall a b, In a l -> In b l -> f a = f b -> a = b.
Proof.
  induction l as [|x l IH]; simpl; intros ND a b Ha Hb E; [tauto|].
  inversion ND as [|? ? Hx ND']; subst.
  destruct Ha as [<-|Ha], Hb as [<-|Hb]; auto.
  - exfalso. apply Hx. rewrite E. apply in_map; assumption.
  - exfalso. apply Hx. rewrite <- E. apply in_map; assumption.
Qed.

Lemma in_find_content t n : NoDup (contents t) -> In n t -> find_content (content_of n) t = Some n.
Proof.
  intros ND HI. destruct (find_content (content_of n) t) as [m|] eqn:E.
  - apply find_content_some in E. destruct E as [Hm Em].
    f_equal. apply (NoDup_map_inj_in content_of t ND); assumption.
  - exfalso. exact (find_content_none _ _ E n HI eq_refl).
Qed.

Lemma find_id_some i t n : find_id i t = Some n -> In n t /\ n_id n = i.
Proof.
  induction t as [|m t IH]; simpl; [discriminate|].
  destruct (n_id m =? i) eqn:E.
  - intros H; inversion H; subst. apply N.eqb_eq in E. split; [left; reflexivity | exact E].
  - intros H. destruct (IH H). split; [right; assumption | assumption].
Qed.

Lemma find_id_none i t : find_id i t = None -> forall n, In n t -> n_id n <> i.
Proof.
  induction t as [|m t IH]; simpl; [tauto|].
  destruct (n_id m =? i) eqn:E; [discriminate|].
  intros H n [<-|Hn]; [apply N.eqb_neq; exact E | auto].
Qed.

Lemma in_find_id t n : NoDup (ids t) -> In n t -> find_id (n_id n) t = Some n.
Proof.
  intros ND HI. destruct (find_id (n_id n) t) as [m|] eqn:E.
  - apply find_id_some in E. destruct E as [Hm Em].
    f_equal. apply (NoDup_map_inj_in n_id t ND); assumption.
  - exfalso. exact (find_id_none _ _ E n HI eq_refl).
Qed.

Lemma SS_snoc (l : list N) x : StronglySorted N.lt l -> (forall y, In y l -> y < x) -> StronglySorted N.lt (l ++ [x]).
Proof.
  induction 1 as [|a l SS IH Fa]; intros H; simpl; [repeat constructor|].
  constructor.
  - apply IH. intros y Hy. apply H. right; exact Hy.
  - apply Forall_app. split; [exact Fa | constructor; [apply H; left; reflexivity | constructor]].
Qed.

Lemma SS_lt_NoDup (l : list N) : StronglySorted N.lt l -> NoDup l.
Proof.
  induction 1 as [|a l SS IH Fa]; constructor; [|exact IH].
  intros HI. rewrite Forall_forall in Fa. specialize (Fa a HI). lia.
Qed.

Lemma NoDup_snoc {A} (l : list A) x : NoDup l -> ~ In x l -> NoDup (l ++ [x]).
Proof.
  induction l as [|a l IH]; simpl; intros ND HN; [constructor; [tauto|constructor]|].
  inversion ND as [|? ? Ha ND']; subst. constructor.
  - rewrite in_app_iff; simpl. intros [H|[H|[]]]; [tauto | subst; tauto].
  - apply IH; tauto.
Qed.

Lemma remove_content_snoc c t n :
  find_content c t = None -> content_of n = c -> remove_content c (t ++ [n]) = t.
Proof.
  intros HN E. unfold remove_content. rewrite filter_app. simpl.
  rewrite E, content_eqb_refl. simpl. rewrite app_nil_r.
  pose proof (find_content_none _ _ HN) as H. clear HN.
  induction t as [|m t IH]; simpl; [reflexivity|].
  destruct (content_eqb (content_of m) c) eqn:E2.
  - apply content_eqb_eq in E2. exfalso. exact (H m (or_introl eq_refl) E2).
  - simpl. f_equal. apply IH. intros k Hk. apply H. right; exact Hk.
Qed.

(* ------------------------------------------------------------------ invariants *)
Definition mk (i : N) (c : content) (t : option ty) : node :=
  {| n_id := i; n_op := fst (fst c); n_args := snd (fst c); n_pay := snd c; n_ty := t |}.

Lemma content_of_mk i c t : content_of (mk i c t) = c.
Proof. destruct c as [[o l] p]; reflexivity. Qed.

Definition has_id (st : state) (i : N) : Prop := exists n, In n (tbl st) /\ n_id n = i.

(* ids strictly increase along the table and stay below next_id; no two entries share a content *)
Definition wf (st : state) : Prop :=
  StronglySorted N.lt (ids (tbl st)) /\ (forall n, In n (tbl st) -> n_id n < next_id st) /\ NoDup (contents (tbl st)).

(* TRUE and FALSE exist; the children of every node exist *)
Definition closed (st : state) : Prop :=
  has_id st true_id /\ has_id st false_id /\
  forall n, In n (tbl st) -> forall j, In j (n_args n) -> has_id st j.

Definition Inv (st : state) : Prop := wf st /\ closed st.

(* the table only grows: every node of [a] is, unchanged, a node of [b] *)
Definition ext (a b : state) : Prop := incl (tbl a) (tbl b) /\ next_id a <= next_id b.

Lemma ext_refl a : ext a a.
Proof. split; [apply incl_refl | lia]. Qed.
Lemma ext_trans a b c : ext a b -> ext b c -> ext a c.
Proof. intros [H1 H2] [H3 H4]. split; [eapply incl_tran; eauto | lia]. Qed.
Lemma has_id_ext a b i : ext a b -> has_id a i -> has_id b i.
Proof. intros [H _] [n [Hn E]]. exists n. split; [apply H; exact Hn | exact E]. Qed.

Lemma wf_ids_nodup st : wf st -> NoDup (ids (tbl st)).
Proof. intros [H _]. apply SS_lt_NoDup; exact H. Qed.

Lemma has_id_find st i : wf st -> has_id st i -> exists n, find_id i (tbl st) = Some n /\ In n (tbl st) /\ n_id n = i.
Proof.
  intros W [n [Hn E]]. exists n. subst i. split; [apply in_find_id; [apply wf_ids_nodup; exact W | exact Hn] | auto].
Qed.

Section Generic.
  Variable tc : list node -> content -> tcres.
  Variable ar : N -> option nat.

  Notation create_node := (create_node tc).
  Notation promote := (promote tc ar).
  Notation promote_list := (promote_list tc ar).
  Notation step := (step tc ar).
  Notation run := (run tc ar).
  Notation exec := (exec tc).

  (* the three things create_node can do *)
  Lemma create_node_cases st c :
    (exists n, find_content c (tbl st) = Some n /\ create_node st c = (st, Ok (n_id n))) \/
    (find_content c (tbl st) = None /\ exists t, tc (tbl st) c = TOk t /\
       create_node st c = ({| tbl := tbl st ++ [mk (next_id st) c (Some t)]; next_id := N.succ (next_id st) |},
                           Ok (next_id st))) \/
    (find_content c (tbl st) = None /\ exists e, tc (tbl st) c = TErr e /\
       create_node st c = ({| tbl := tbl st; next_id := N.succ (next_id st) |}, Err e)).
  Proof.
    unfold HashCons.create_node. destruct (find_content c (tbl st)) as [n|] eqn:E.
    - left. exists n. auto.
    - right. destruct (tc (tbl st) c) as [t|e] eqn:T.
      + left. split; [reflexivity|]. exists t. split; reflexivity.
      + right. split; [reflexivity|]. exists e. split; [reflexivity|].
        fold (mk (next_id st) c None). rewrite (remove_content_snoc c (tbl st)); [reflexivity | exact E | apply content_of_mk].
  Qed.

  Lemma create_node_ext st c : ext st (fst (create_node st c)).
  Proof.
    destruct (create_node_cases st c) as [[n [_ ->]] | [[_ [t [_ ->]]] | [_ [e [_ ->]]]]]; simpl.
    - apply ext_refl.
    - split; simpl; [apply incl_appl, incl_refl | lia].
    - split; simpl; [apply incl_refl | lia].
  Qed.

  Lemma create_node_wf st c : wf st -> wf (fst (create_node st c)).
  Proof.
    intros W. destruct (create_node_cases st c) as [[n [_ ->]] | [[HN [t [_ ->]]] | [_ [e [_ ->]]]]]; simpl; [exact W| |].
    - destruct W as [S [L D]]. unfold wf, ids, contents; simpl. rewrite !map_app; simpl. split; [|split].
      + apply SS_snoc; [exact S|]. intros y Hy. apply in_map_iff in Hy. destruct Hy as [m [<- Hm]]. apply L; exact Hm.
      + intros n Hn. apply in_app_iff in Hn. destruct Hn as [Hn|[<-|[]]]; [specialize (L n Hn); lia | simpl; lia].
      + apply NoDup_snoc; [exact D|]. rewrite content_of_mk. intros HI. apply in_map_iff in HI.
        destruct HI as [m [Em Hm]]. exact (find_content_none _ _ HN m Hm Em).
    - destruct W as [S [L D]]. split; [exact S | split; [|exact D]]. simpl. intros n Hn. specialize (L n Hn). lia.
  Qed.

  (* a successful create_node returns the id of a table node with exactly that content *)
  Lemma create_node_ok st c st1 i : create_node st c = (st1, Ok i) ->
    exists n, In n (tbl st1) /\ n_id n = i /\ content_of n = c.
  Proof.
    destruct (create_node_cases st c) as [[n [F ->]] | [[_ [t [_ ->]]] | [_ [e [_ ->]]]]]; intros H; inversion H; subst.
    - apply find_content_some in F. exists n. tauto.
    - exists (mk (next_id st) c (Some t)). simpl. split; [apply in_or_app; right; left; reflexivity|].
      split; [reflexivity | apply content_of_mk].
  Qed.

  (* same content => same node: constructing a content the table already holds returns that very node and changes nothing *)
  Lemma create_node_found st n : wf st -> In n (tbl st) -> create_node st (content_of n) = (st, Ok (n_id n)).
  Proof.
    intros [_ [_ D]] HI. unfold HashCons.create_node. rewrite (in_find_content _ _ D HI). reflexivity.
  Qed.

  Lemma create_node_closed st c : wf st -> closed st -> (forall j, In j (snd (fst c)) -> has_id st j) ->
    closed (fst (create_node st c)).
  Proof.
    intros W [HT [HF HC]] HA. pose proof (create_node_ext st c) as X.
    split; [eapply has_id_ext; eauto | split; [eapply has_id_ext; eauto|]].
    destruct (create_node_cases st c) as [[n [_ E]] | [[_ [t [_ E]]] | [_ [e [_ E]]]]]; rewrite E in *; simpl in *.
    - exact HC.
    - intros n Hn j Hj. apply in_app_iff in Hn. destruct Hn as [Hn|[<-|[]]].
      + eapply has_id_ext; [exact X | eapply HC; eauto].
      + eapply has_id_ext; [exact X | apply HA; exact Hj].
    - intros n Hn j Hj. eapply has_id_ext; [exact X | eapply HC; eauto].
  Qed.

  (* ---------------------------------------------------------------- exec / promote *)
  Lemma exec_ext st p : ext st (fst (exec st p)).
  Proof. destruct p; simpl; [apply ext_refl | apply create_node_ext | apply ext_refl]. Qed.
  Lemma exec_wf st p : wf st -> wf (fst (exec st p)).
  Proof. destruct p; simpl; auto. apply create_node_wf. Qed.

  Lemma exec_stable st p st1 i st' :
    wf st' -> exec st p = (st1, Ok i) -> ext st1 st' -> exec st' p = (st', Ok i).
  Proof.
    intros W' H X. destruct p as [j|c|e]; simpl in *.
    - inversion H; reflexivity.
    - apply create_node_ok in H. destruct H as [n [Hn [<- <-]]]. apply create_node_found; [exact W' | apply X; exact Hn].
    - discriminate.
  Qed.

  (* promote written as a plan, so that one stability lemma serves arguments and constructors *)
  Definition pplan (t : list node) (a : arg) : plan :=
    match a with
    | ANode i => match find_id i t with Some _ => PRet i | None => PErr EBadRef end
    | ABool b => PRet (if b then true_id else false_id)
    | AInt z => PCreate (int_content z)
    | ANum q => match uniform q with inl z => PCreate (int_content z) | inr r => PCreate (real_content r) end
    | AFluent f => match ar f with
                   | Some O => PCreate (OFluent, [], PSym f)
                   | Some (S _) => PErr EArity
                   | None => PErr EBadRef
                   end
    | AObject o => PCreate (OObj, [], PSym o)
    | AParam p => PCreate (OParam, [], PSym p)
    end.

  Lemma promote_exec st a : promote st a = exec st (pplan (tbl st) a).
  Proof.
    destruct a; simpl; try reflexivity.
    - destruct (find_id i (tbl st)); reflexivity.
    - destruct (uniform q); reflexivity.
    - destruct (ar f) as [[|k]|]; reflexivity.
  Qed.

  Lemma pplan_args t a c : pplan t a = PCreate c -> snd (fst c) = [].
  Proof.
    destruct a; simpl; try discriminate; try (intros H; inversion H; reflexivity).
    - destruct (find_id i t); discriminate.
    - destruct (uniform q); intros H; inversion H; reflexivity.
    - destruct (ar f) as [[|k]|]; try discriminate. intros H; inversion H; reflexivity.
  Qed.

  Lemma promote_ext st a : ext st (fst (promote st a)).
  Proof. rewrite promote_exec. apply exec_ext. Qed.
  Lemma promote_wf st a : wf st -> wf (fst (promote st a)).
  Proof. rewrite promote_exec. apply exec_wf. Qed.

  Lemma exec_closed st p : wf st -> closed st ->
    (forall c, p = PCreate c -> forall j, In j (snd (fst c)) -> has_id st j) -> closed (fst (exec st p)).
  Proof.
    intros W C H. destruct p as [j|c|e]; simpl; [exact C | | exact C].
    apply create_node_closed; [exact W | exact C | exact (H c eq_refl)].
  Qed.

  Lemma promote_closed st a : wf st -> closed st -> closed (fst (promote st a)).
  Proof.
    intros W C. rewrite promote_exec. apply exec_closed; auto.
    intros c E j Hj. rewrite (pplan_args _ _ _ E) in Hj. destruct Hj.
  Qed.

  Lemma exec_ok st p st1 i : wf st -> exec st p = (st1, Ok i) ->
    (forall j, p = PRet j -> has_id st j) -> has_id st1 i.
  Proof.
    intros W H R. destruct p as [j|c|e]; simpl in *.
    - inversion H; subst. apply R; reflexivity.
    - apply create_node_ok in H. destruct H as [n [Hn [E _]]]. exists n; auto.
    - discriminate.
  Qed.

  Lemma promote_ok st a st1 i : Inv st -> promote st a = (st1, Ok i) -> has_id st1 i.
  Proof.
    intros [W [HT [HF _]]]. rewrite promote_exec. intros H. eapply exec_ok; eauto.
    intros j E. destruct a; simpl in E; try discriminate.
    - destruct (find_id i0 (tbl st)) as [n|] eqn:F; [|discriminate]. inversion E; subst.
      apply find_id_some in F. exists n; tauto.
    - inversion E. destruct b; assumption.
    - destruct (uniform q); discriminate.
    - destruct (ar f) as [[|k]|]; discriminate.
  Qed.

  Lemma pplan_stable st a st1 i st' : wf st' ->
    exec st (pplan (tbl st) a) = (st1, Ok i) -> ext st1 st' -> pplan (tbl st') a = pplan (tbl st) a.
  Proof.
    intros W' H X. destruct a; simpl in *; try reflexivity.
    destruct (find_id i0 (tbl st)) as [n|] eqn:F; simpl in H; [|discriminate].
    inversion H; subst. apply find_id_some in F. destruct F as [Hn <-].
    rewrite (in_find_id (tbl st') n); [reflexivity | apply wf_ids_nodup; exact W' | apply X; exact Hn].
  Qed.

  (* an argument that was promoted once is promoted to the same node, without any change, in every later state *)
  Lemma promote_stable st a st1 i st' :
    wf st' -> promote st a = (st1, Ok i) -> ext st1 st' -> promote st' a = (st', Ok i).
  Proof.
    intros W' H X. rewrite promote_exec in *. rewrite (pplan_stable st a st1 i st' W' H X).
    eapply exec_stable; eauto.
  Qed.

  (* ---------------------------------------------------------------- promote_list *)
  Lemma promote_list_ext l : forall st, ext st (fst (promote_list st l)).
  Proof.
    induction l as [|a l IH]; intros st; simpl; [apply ext_refl|].
    pose proof (promote_ext st a) as Xa. destruct (promote st a) as [sa [ia|e]]; simpl in *; [|exact Xa].
    pose proof (IH sa) as Xl. destruct (promote_list sa l) as [s2 [is|e]]; simpl in *; eapply ext_trans; eauto.
  Qed.

  Lemma promote_list_inv l : forall st, Inv st -> Inv (fst (promote_list st l)).
  Proof.
    induction l as [|a l IH]; intros st I; simpl; [exact I|].
    assert (Ia : Inv (fst (promote st a))) by (destruct I; split; [apply promote_wf | apply promote_closed]; assumption).
    destruct (promote st a) as [sa [ia|e]]; simpl in *; [|exact Ia].
    pose proof (IH sa Ia) as Il. destruct (promote_list sa l) as [s2 [is|e]]; exact Il.
  Qed.

  Lemma promote_list_ok l : forall st st1 is, Inv st -> promote_list st l = (st1, inl is) ->
    Forall (has_id st1) is.
  Proof.
    induction l as [|a l IH]; intros st st1 is I H; simpl in H.
    - inversion H; constructor.
    - destruct (promote st a) as [sa [ia|e]] eqn:Pa; [|discriminate].
      assert (Ia : Inv sa).
      { destruct I as [W C]. pose proof (promote_wf st a W). pose proof (promote_closed st a W C).
        rewrite Pa in *; split; assumption. }
      pose proof (promote_list_ext l sa) as Xl.
      destruct (promote_list sa l) as [s2 [is'|e]] eqn:Pl; [|discriminate].
      inversion H; subst. simpl in Xl. constructor.
      + apply (has_id_ext sa st1 ia Xl). exact (promote_ok st a sa ia I Pa).
      + exact (IH sa st1 is' Ia Pl).
  Qed.

  Lemma promote_list_stable l : forall st st1 is st', Inv st -> wf st' ->
    promote_list st l = (st1, inl is) -> ext st1 st' -> promote_list st' l = (st', inl is).
  Proof.
    induction l as [|a l IH]; intros st st1 is st' I W' H X; simpl in *.
    - inversion H; reflexivity.
    - destruct (promote st a) as [sa [ia|e]] eqn:Pa; [|discriminate].
      assert (Ia : Inv sa).
      { destruct I as [W C]. pose proof (promote_wf st a W). pose proof (promote_closed st a W C).
        rewrite Pa in *; split; assumption. }
      pose proof (promote_list_ext l sa) as Xl.
      destruct (promote_list sa l) as [s2 [is'|e]] eqn:Pl; [|discriminate].
      inversion H; subst. simpl in Xl.
      rewrite (promote_stable st a sa ia st' W' Pa (ext_trans _ _ _ Xl X)).
      rewrite (IH sa st1 is' st' Ia W' Pl X). reflexivity.
  Qed.

  (* ---------------------------------------------------------------- constructors *)
  Lemma plan_args t k is c : plan_of ar t k is = PCreate c -> incl (snd (fst c)) is.
  Proof.
    destruct k; simpl.
    - destruct is as [|i [|j r]]; [destruct o | |]; intros H; inversion H; subst; simpl;
        try apply incl_refl; intros x [].
    - destruct is as [|i [|j r]]; try discriminate.
      destruct (find_id i t) as [n|]; [|discriminate].
      destruct (n_op n); try (intros H; inversion H; apply incl_refl).
      destruct (n_args n); intros H; inversion H; apply incl_refl.
    - destruct is as [|x [|y [|z r]]]; try discriminate. intros H; inversion H; subst.
      destruct o; simpl; try apply incl_refl; intros v [<-|[<-|[]]]; simpl; auto.
    - intros H; inversion H; intros x [].
    - intros H; inversion H; intros x [].
    - discriminate.
    - destruct (ar f) as [n|]; [|discriminate]. destruct (Nat.eqb n (length is)); [|discriminate].
      intros H; inversion H; apply incl_refl.
    - intros H; inversion H; intros x [].
    - intros H; inversion H; intros x [].
  Qed.

  Lemma plan_ret st k is j : Inv st -> Forall (has_id st) is -> plan_of ar (tbl st) k is = PRet j -> has_id st j.
  Proof.
    intros [W [HT [HF HC]]] F. rewrite Forall_forall in F. destruct k; simpl.
    - destruct is as [|i [|i2 r]]; [destruct o | |]; intros H; inversion H; subst; auto. apply F; left; reflexivity.
    - destruct is as [|i [|i2 r]]; try discriminate.
      destruct (find_id i (tbl st)) as [n|] eqn:E; [|discriminate]. apply find_id_some in E. destruct E as [Hn _].
      destruct (n_op n); try discriminate. destruct (n_args n) as [|x r] eqn:A; intros H; inversion H; subst.
      apply (HC n Hn). rewrite A. left; reflexivity.
    - destruct is as [|x [|y [|z r]]]; discriminate.
    - discriminate.
    - discriminate.
    - intros H; inversion H. destruct b; assumption.
    - destruct (ar f) as [n|]; [|discriminate]. destruct (Nat.eqb n (length is)); discriminate.
    - discriminate.
    - discriminate.
  Qed.

  Lemma plan_stable st st' k is : wf st -> wf st' -> ext st st' -> Forall (has_id st) is ->
    plan_of ar (tbl st') k is = plan_of ar (tbl st) k is.
  Proof.
    intros W W' X F. destruct k; simpl; try reflexivity.
    destruct is as [|i [|i2 r]]; try reflexivity.
    inversion F as [|? ? Hi _]; subst. destruct (has_id_find st i W Hi) as [n [E [Hn En]]].
    rewrite E. subst i. rewrite (in_find_id (tbl st') n); [reflexivity | apply wf_ids_nodup; exact W' | apply X; exact Hn].
  Qed.

  Lemma step_ext st k : ext st (fst (step st k)).
  Proof.
    unfold HashCons.step. pose proof (promote_list_ext (call_args k) st) as X.
    destruct (promote_list st (call_args k)) as [s1 [is|e]]; simpl in *; [|exact X].
    eapply ext_trans; [exact X | apply exec_ext].
  Qed.

  Lemma step_inv st k : Inv st -> Inv (fst (step st k)).
  Proof.
    intros I. unfold HashCons.step. pose proof (promote_list_inv (call_args k) st I) as I1.
    destruct (promote_list st (call_args k)) as [s1 [is|e]] eqn:P; simpl in *; [|exact I1].
    pose proof (promote_list_ok _ _ _ _ I P) as F. destruct I1 as [W1 C1].
    split; [apply exec_wf; exact W1 | apply exec_closed; auto].
    intros c E j Hj. rewrite Forall_forall in F. apply F. exact (plan_args _ _ _ _ E j Hj).
  Qed.

  (* the node a constructor returns is a node of the table *)
  Lemma step_ok st k st2 i : Inv st -> step st k = (st2, Ok i) -> has_id st2 i.
  Proof.
    intros I. unfold HashCons.step. pose proof (promote_list_inv (call_args k) st I) as I1.
    destruct (promote_list st (call_args k)) as [s1 [is|e]] eqn:P; simpl in *; [|discriminate].
    pose proof (promote_list_ok _ _ _ _ I P) as F. intros H.
    eapply exec_ok; [apply I1 | exact H |]. intros j E. eapply plan_ret; eauto.
  Qed.

  (* THE stability lemma: a constructor call that succeeded returns the identical node, and changes nothing, in every
     later state of the manager *)
  Lemma step_stable st k st2 i st' : Inv st -> wf st' ->
    step st k = (st2, Ok i) -> ext st2 st' -> step st' k = (st', Ok i).
  Proof.
    intros I W' H X. unfold HashCons.step in *.
    pose proof (promote_list_inv (call_args k) st I) as I1.
    destruct (promote_list st (call_args k)) as [s1 [is|e]] eqn:P; simpl in *; [|discriminate].
    pose proof (promote_list_ok _ _ _ _ I P) as F.
    pose proof (exec_ext s1 (plan_of ar (tbl s1) k is)) as X1. rewrite H in X1; simpl in X1.
    assert (X1' : ext s1 st') by (eapply ext_trans; eauto).
    rewrite (promote_list_stable _ _ _ _ _ I W' P X1').
    rewrite (plan_stable s1 st' k is (proj1 I1) W' X1' F).
    eapply exec_stable; eauto.
  Qed.

  Lemma run_ext ks : forall st, ext st (run st ks).
  Proof.
    induction ks as [|k ks IH]; intros st; simpl; [apply ext_refl|].
    eapply ext_trans; [apply step_ext | apply IH].
  Qed.

  Lemma run_inv ks : forall st, Inv st -> Inv (run st ks).
  Proof. induction ks as [|k ks IH]; intros st I; simpl; [exact I | apply IH, step_inv; exact I]. Qed.

  Lemma run_app st ks ks' : run st (ks ++ ks') = run (run st ks) ks'.
  Proof. unfold HashCons.run. apply fold_left_app. Qed.

  (* ---------------------------------------------------------------- the property theorems *)
  Theorem ids_unique_and_increasing st ks : Inv st ->
    StronglySorted N.lt (ids (tbl (run st ks))) /\ NoDup (ids (tbl (run st ks))) /\
    (forall n, In n (tbl (run st ks)) -> n_id n < next_id (run st ks)) /\ next_id st <= next_id (run st ks).
  Proof.
    intros I. destruct (run_inv ks st I) as [W _]. split; [apply W|]. split; [apply wf_ids_nodup; exact W|].
    split; [apply W | apply run_ext].
  Qed.

  Theorem distinct_content_distinct_id st ks n1 n2 : Inv st ->
    In n1 (tbl (run st ks)) -> In n2 (tbl (run st ks)) ->
    (content_of n1 = content_of n2 <-> n_id n1 = n_id n2) /\ (n_id n1 = n_id n2 -> n1 = n2).
  Proof.
    intros I H1 H2. destruct (run_inv ks st I) as [W _].
    assert (A : n_id n1 = n_id n2 -> n1 = n2)
      by (apply (NoDup_map_inj_in n_id _ (wf_ids_nodup _ W)); assumption).
    split; [|exact A]. split.
    - intros E. f_equal. apply (NoDup_map_inj_in content_of _ (proj2 (proj2 W))); assumption.
    - intros E. rewrite (A E). reflexivity.
  Qed.

  (* existing nodes never change and never disappear, whatever is constructed later, failing calls included *)
  Theorem nodes_immutable st ks n : In n (tbl st) -> In n (tbl (run st ks)).
  Proof. intros H. apply (proj1 (run_ext ks st)). exact H. Qed.

  Theorem same_content_same_node st ks n c : Inv st -> In n (tbl (run st ks)) -> content_of n = c ->
    create_node (run st ks) c = (run st ks, Ok (n_id n)).
  Proof. intros I H <-. apply create_node_found; [apply (run_inv ks st I) | exact H]. Qed.

  Theorem same_call_same_node st ks k st1 i ks' : Inv st ->
    step (run st ks) k = (st1, Ok i) -> step (run st1 ks') k = (run st1 ks', Ok i).
  Proof.
    intros I H. pose proof (run_inv ks st I) as I0.
    pose proof (step_inv (run st ks) k I0) as I1. rewrite H in I1; simpl in I1.
    eapply step_stable; [exact I0 | apply (run_inv ks' st1 I1) | exact H | apply run_ext].
  Qed.

  Theorem result_in_table st ks k st1 i : Inv st -> step (run st ks) k = (st1, Ok i) ->
    exists n, In n (tbl st1) /\ n_id n = i.
  Proof. intros I H. eapply step_ok; [apply (run_inv ks st I) | exact H]. Qed.

  (* a failing call adds no node (only promoted arguments of the call, if any, and a consumed id) *)
  Theorem failed_create_leaves_table st c e st1 : create_node st c = (st1, Err e) -> tbl st1 = tbl st.
  Proof.
    destruct (create_node_cases st c) as [[n [_ ->]] | [[_ [t [_ ->]]] | [_ [e' [_ ->]]]]]; intros H; inversion H; reflexivity.
  Qed.

  (* ---------------------------------------------------------------- normalisations *)
  Lemma and_nil st : step st (KNary NAnd []) = (st, Ok true_id).
  Proof. reflexivity. Qed.
  Lemma or_nil st : step st (KNary NOr []) = (st, Ok false_id).
  Proof. reflexivity. Qed.
  Lemma plus_nil st : step st (KNary NPlus []) = step st (KInt 0).
  Proof. reflexivity. Qed.
  Lemma times_nil st : step st (KNary NTimes []) = step st (KInt 1).
  Proof. reflexivity. Qed.

  (* And/Or/Plus/Times of one argument IS that argument (promoted), whatever its type *)
  Lemma nary_single st o a : step st (KNary o [a]) = promote st a.
  Proof.
    unfold HashCons.step; simpl. destruct (promote st a) as [s [i|e]]; reflexivity.
  Qed.

  Lemma not_not st j n i r : find_id j (tbl st) = Some n -> n_op n = ONot -> n_args n = i :: r ->
    step st (KNot (ANode j)) = (st, Ok i).
  Proof.
    intros F O A. unfold HashCons.step; simpl. rewrite F. simpl. rewrite F, O, A. reflexivity.
  Qed.

  Lemma not_not_roundtrip st i n st1 j : wf st -> find_id i (tbl st) = Some n -> n_op n <> ONot ->
    step st (KNot (ANode i)) = (st1, Ok j) -> step st1 (KNot (ANode j)) = (st1, Ok i).
  Proof.
    intros W F O. unfold HashCons.step at 1; simpl. rewrite F; simpl. rewrite F.
    assert (P : match n_op n, n_args n with ONot, x :: _ => PRet x | _, _ => PCreate (ONot, [i], PNone) end
                = PCreate (ONot, [i], PNone)) by (destruct (n_op n); try reflexivity; congruence).
    rewrite P; simpl. intros H.
    pose proof (create_node_wf st (ONot, [i], PNone) W) as W1. rewrite H in W1; simpl in W1.
    apply create_node_ok in H. destruct H as [m [Hm [Em Cm]]].
    pose proof (in_find_id (tbl st1) m (wf_ids_nodup _ W1) Hm) as Fm. rewrite Em in Fm.
    unfold content_of in Cm. inversion Cm as [[Co Ca Cp]].
    eapply not_not; eauto.
  Qed.

  (* GE/GT are LE/LT with the arguments swapped *)
  Lemma bin_swap_nodes st o o' i j : (forall x y, bin_content o x y = bin_content o' y x) ->
    step st (KBin o (ANode i) (ANode j)) = step st (KBin o' (ANode j) (ANode i)).
  Proof.
    intros S. unfold HashCons.step; simpl.
    destruct (find_id i (tbl st)) eqn:Fi, (find_id j (tbl st)) eqn:Fj; simpl; rewrite ?Fi, ?Fj; simpl;
      rewrite ?Fi, ?Fj; simpl; rewrite ?S; reflexivity.
  Qed.

  Lemma bin_swap st o o' a b st1 i : Inv st -> (forall x y, bin_content o x y = bin_content o' y x) ->
    step st (KBin o a b) = (st1, Ok i) -> step st1 (KBin o' b a) = (st1, Ok i).
  Proof.
    intros I S H. unfold HashCons.step in H; simpl in H.
    destruct (promote st a) as [sa [ia|e]] eqn:Pa; [|discriminate].
    assert (Ia : Inv sa).
    { destruct I as [W C]. pose proof (promote_wf st a W). pose proof (promote_closed st a W C).
      rewrite Pa in *; split; assumption. }
    destruct (promote sa b) as [sb [ib|e]] eqn:Pb; [|discriminate]. simpl in H.
    assert (Ib : Inv sb).
    { destruct Ia as [W C]. pose proof (promote_wf sa b W). pose proof (promote_closed sa b W C).
      rewrite Pb in *; split; assumption. }
    pose proof (promote_ext sa b) as Xab. rewrite Pb in Xab; simpl in Xab.
    pose proof (create_node_ext sb (bin_content o ia ib)) as Xb1. rewrite H in Xb1; simpl in Xb1.
    pose proof (create_node_wf sb (bin_content o ia ib) (proj1 Ib)) as W1. rewrite H in W1; simpl in W1.
    unfold HashCons.step; simpl.
    rewrite (promote_stable sa b sb ib st1 W1 Pb Xb1); simpl.
    rewrite (promote_stable st a sa ia st1 W1 Pa (ext_trans _ _ _ Xab Xb1)); simpl.
    rewrite <- S. apply create_node_ok in H. destruct H as [n [Hn [<- <-]]]. apply create_node_found; assumption.
  Qed.

  Lemma ge_is_le_swapped st a b st1 i : Inv st ->
    step st (KBin BGE a b) = (st1, Ok i) -> step st1 (KBin BLE b a) = (st1, Ok i).
  Proof. intros I. apply bin_swap; [exact I | reflexivity]. Qed.
  Lemma gt_is_lt_swapped st a b st1 i : Inv st ->
    step st (KBin BGT a b) = (st1, Ok i) -> step st1 (KBin BLT b a) = (st1, Ok i).
  Proof. intros I. apply bin_swap; [exact I | reflexivity]. Qed.
  Lemma ge_nodes st i j : step st (KBin BGE (ANode i) (ANode j)) = step st (KBin BLE (ANode j) (ANode i)).
  Proof. apply bin_swap_nodes; reflexivity. Qed.
  Lemma gt_nodes st i j : step st (KBin BGT (ANode i) (ANode j)) = step st (KBin BLT (ANode j) (ANode i)).
  Proof. apply bin_swap_nodes; reflexivity. Qed.

  (* the node GE returns is an LE node whose children are the promoted right and left arguments, in this order *)
  Lemma ge_content st a b st1 i : step st (KBin BGE a b) = (st1, Ok i) ->
    exists n ia ib, In n (tbl st1) /\ n_id n = i /\ content_of n = (OLE, [ib; ia], PNone).
  Proof.
    unfold HashCons.step; simpl.
    destruct (promote st a) as [sa [ia|e]]; [|discriminate].
    destruct (promote sa b) as [sb [ib|e]]; [|discriminate]. simpl. intros H.
    apply create_node_ok in H. destruct H as [n [Hn [E C]]]. exists n, ia, ib. auto.
  Qed.

  (* numeric literals: equal rationals are promoted identically; integral => the Int node, otherwise the reduced Real *)
  Lemma uniform_canonical q1 q2 : (q1 == q2)%Q -> uniform q1 = uniform q2.
  Proof. intros E. unfold uniform. rewrite (Qred_complete _ _ E). reflexivity. Qed.

  Lemma promote_num_canonical st q1 q2 : (q1 == q2)%Q -> promote st (ANum q1) = promote st (ANum q2).
  Proof. intros E. simpl. rewrite (uniform_canonical _ _ E). reflexivity. Qed.

  Lemma promote_num_integral st q : Qden (Qred q) = 1%positive ->
    promote st (ANum q) = step st (KInt (Qnum (Qred q))).
  Proof. intros E. simpl. unfold uniform. rewrite E. reflexivity. Qed.

  Lemma promote_num_fraction st q : Qden (Qred q) <> 1%positive ->
    promote st (ANum q) = create_node st (OReal, [], PReal (Qnum (Qred q)) (Qden (Qred q))).
  Proof.
    intros E. simpl. unfold uniform. apply Pos.eqb_neq in E. rewrite E.
    unfold real_content. rewrite Qred_involutive. reflexivity.
  Qed.

  Lemma promote_int_is_Int st z : promote st (AInt z) = step st (KInt z).
  Proof. reflexivity. Qed.
End Generic.

(* ------------------------------------------------------------------ the concrete manager *)
Lemma init_inv D : Inv (init (typecheck D)).
Proof.
  unfold init, create_node; simpl. unfold Inv, wf, closed, has_id, ids, contents; simpl.
  repeat split.
  - repeat constructor.
  - intros n [<-|[<-|[]]]; simpl; lia.
  - repeat constructor; simpl; intuition discriminate.
  - eexists; split; [left; reflexivity | reflexivity].
  - eexists; split; [right; left; reflexivity | reflexivity].
  - intros n [<-|[<-|[]]] j [].
Qed.

(* ------------------------------------------------------------------ C14 / DESIGN #20: verdicts of create_node *)
(* A construction whose type check failed leaves nothing behind that changes a later verdict: the verdict of
   create_node on a content depends only on the (immutable) nodes of its children. *)
Section Verdict.
  Variable D : decls.
  Notation tc := (typecheck D).
  Notation ar := (arity D).

  Inductive verdict := VOk | VErr (e : err).
  Definition verdict_of (x : state * result) : verdict := match snd x with Ok _ => VOk | Err e => VErr e end.

  Definition args_exist (st : state) (c : content) : Prop := forall j, In j (snd (fst c)) -> has_id st j.

  Lemma child_types_stable st st' l : wf st' -> ext st st' -> (forall j, In j l -> has_id st j) ->
    child_types (tbl st') l = child_types (tbl st) l.
  Proof.
    intros W' X. induction l as [|i l IH]; intros H; simpl; [reflexivity|].
    destruct (H i (or_introl eq_refl)) as [n [Hn En]].
    destruct (find_id i (tbl st)) as [n0|] eqn:F; [|exfalso; exact (find_id_none _ _ F n Hn En)].
    apply find_id_some in F. destruct F as [Hn0 En0].
    pose proof (in_find_id (tbl st') n0 (wf_ids_nodup _ W') (proj1 X _ Hn0)) as F'. rewrite En0 in F'. rewrite F'.
    rewrite IH by (intros j Hj; apply H; right; exact Hj). reflexivity.
  Qed.

  Lemma typecheck_stable st st' c : wf st' -> ext st st' -> args_exist st c ->
    typecheck D (tbl st') c = typecheck D (tbl st) c.
  Proof.
    intros W' X A. destruct c as [[o l] p]. unfold typecheck.
    rewrite (child_types_stable st st' l W' X A). reflexivity.
  Qed.

  (* every node of the table passed its type check *)
  Definition typed (st : state) : Prop :=
    forall n, In n (tbl st) -> exists t, typecheck D (tbl st) (content_of n) = TOk t.

  Definition Inv2 (st : state) : Prop := Inv st /\ typed st.

  Lemma create_node_typed st c : Inv2 st -> args_exist st c -> typed (fst (create_node tc st c)).
  Proof.
    intros [[W C] T] A.
    pose proof (create_node_wf tc st c W) as W1. pose proof (create_node_ext tc st c) as X.
    destruct (create_node_cases tc st c) as [[n [_ E]] | [[_ [t [Tc E]]] | [_ [e [_ E]]]]]; rewrite E in *; simpl in *.
    - exact T.
    - intros n Hn. apply in_app_iff in Hn. destruct Hn as [Hn|[<-|[]]].
      + destruct (T n Hn) as [t0 Ht]. exists t0. rewrite <- Ht.
        apply (typecheck_stable st _ (content_of n) W1 X). intros j Hj. apply (proj2 (proj2 C) n Hn j Hj).
      + exists t. rewrite content_of_mk. rewrite <- Tc. apply (typecheck_stable st _ c W1 X A).
    - intros n Hn. destruct (T n Hn) as [t0 Ht]. exists t0. rewrite <- Ht.
      apply (typecheck_stable st _ (content_of n) W1 X). intros j Hj. apply (proj2 (proj2 C) n Hn j Hj).
  Qed.

  Lemma create_node_inv2 st c : Inv2 st -> args_exist st c -> Inv2 (fst (create_node tc st c)).
  Proof.
    intros I A. split; [|apply create_node_typed; assumption].
    destruct I as [[W C] _]. split; [apply create_node_wf; exact W | apply create_node_closed; assumption].
  Qed.

  Lemma exec_inv2 st p : Inv2 st -> (forall c, p = PCreate c -> args_exist st c) -> Inv2 (fst (exec tc st p)).
  Proof.
    intros I H. destruct p as [j|c|e]; simpl; [exact I | | exact I]. apply create_node_inv2; [exact I | exact (H c eq_refl)].
  Qed.

  Lemma promote_inv2 st a : Inv2 st -> Inv2 (fst (promote tc ar st a)).
  Proof.
    intros I. rewrite promote_exec. apply exec_inv2; [exact I|].
    intros c E j Hj. rewrite (pplan_args _ _ _ _ E) in Hj. destruct Hj.
  Qed.

  Lemma promote_list_inv2 l : forall st, Inv2 st -> Inv2 (fst (promote_list tc ar st l)).
  Proof.
    induction l as [|a l IH]; intros st I; simpl; [exact I|].
    pose proof (promote_inv2 st a I) as Ia.
    destruct (promote tc ar st a) as [sa [ia|e]]; simpl in *; [|exact Ia].
    pose proof (IH sa Ia) as Il. destruct (promote_list tc ar sa l) as [s2 [is|e]]; exact Il.
  Qed.

  Lemma step_inv2 st k : Inv2 st -> Inv2 (fst (step tc ar st k)).
  Proof.
    intros I. unfold step. pose proof (promote_list_inv2 (call_args k) st I) as I1.
    destruct (promote_list tc ar st (call_args k)) as [s1 [is|e]] eqn:P; simpl in *; [|exact I1].
    pose proof (promote_list_ok tc ar _ _ _ _ (proj1 I) P) as F.
    apply exec_inv2; [exact I1|]. intros c E j Hj. rewrite Forall_forall in F. apply F.
    exact (plan_args ar _ _ _ _ E j Hj).
  Qed.

  Lemma run_inv2 ks : forall st, Inv2 st -> Inv2 (run tc ar st ks).
  Proof. induction ks as [|k ks IH]; intros st I; simpl; [exact I | apply IH, step_inv2; exact I]. Qed.

  Lemma init_inv2 : Inv2 (init tc).
  Proof.
    split; [apply init_inv|]. unfold init, create_node; simpl.
    intros n [<-|[<-|[]]]; simpl; eexists; reflexivity.
  Qed.

  Theorem create_node_history_independent st ks c : Inv2 st -> args_exist st c ->
    verdict_of (create_node tc (run tc ar st ks) c) = verdict_of (create_node tc st c).
  Proof.
    intros I A. pose proof (run_inv2 ks st I) as [[W' C'] T']. pose proof (run_ext tc ar ks st) as X.
    destruct I as [[W C] T].
    pose proof (typecheck_stable st _ c W' X A) as TS.
    destruct (create_node_cases tc st c) as [[n [F E]] | [[F [t [Tc E]]] | [F [e [Tc E]]]]]; rewrite E; unfold verdict_of at 2; simpl.
    - apply find_content_some in F. destruct F as [Hn <-].
      rewrite (create_node_found tc _ n W' (proj1 X _ Hn)). reflexivity.
    - destruct (create_node_cases tc (run tc ar st ks) c) as [[n' [_ E']] | [[_ [t' [_ E']]] | [_ [e' [Tc' E']]]]];
        rewrite E'; unfold verdict_of; simpl; try reflexivity.
      rewrite TS, Tc in Tc'. discriminate.
    - destruct (create_node_cases tc (run tc ar st ks) c) as [[n' [F' E']] | [[_ [t' [Tc' E']]] | [_ [e' [Tc' E']]]]];
        rewrite E'; unfold verdict_of; simpl.
      + apply find_content_some in F'. destruct F' as [Hn' Cn']. destruct (T' n' Hn') as [t0 Ht0].
        rewrite Cn', TS, Tc in Ht0. discriminate.
      + rewrite TS, Tc in Tc'. discriminate.
      + rewrite TS, Tc in Tc'. inversion Tc'. reflexivity.
  Qed.
End Verdict.
